/-
  C11 — property theorems (statements + short proofs; helper lemmas live in Lemmas/C11).
  Every theorem is about the executable model in `Verif.Model.C11`, which the correspondence check
  ties to `lumicks/pylake/force_calibration/*` on every run.  Formulas are read over `ℝ`
  (`Verif.NumReal`), the closed-form least squares over `ℚ`, the parameter routing over lists.

  Right-hand sides are written with the specification-side quantities of `Lemmas/C11`
  (`stokesDrag`, `faxenSpec`, `brennerSpec`, `kT`: plain `ℝ` expressions in SI units, the wall
  corrections as functions of the dimensionless ratio `R/l`), not with the model's functions.

  NOT proved here (exploration only, see harness/c11.py): that `scipy.optimize.curve_fit` recovers
  the generating `(f_c, D, f_diode, α)` and that the Gaussian-window FFT estimator recovers the
  driving amplitude/frequency.
-/
import Verif.Lemmas.C11

namespace Verif.C11
open Verif

/-! ### Sample configurations, one per cell of the option matrix (non-vacuity of the hypotheses) -/

noncomputable def oBulk : Opts ℝ :=
  { d := 1, visc := some 0.001, temp := 20, hydro := false, dist := none, rhoSample := none,
    rhoBead := 1060, fast := false, axial := false }
noncomputable def oFaxen : Opts ℝ := { oBulk with dist := some 2 }
noncomputable def oBrenner : Opts ℝ := { oBulk with dist := some 2, axial := true }
noncomputable def oHydro : Opts ℝ := { oBulk with hydro := true, dist := some 2 }
noncomputable def drive₀ : Drive ℝ :=
  { freq := 1, amp := 1, ampErr := 0, maxP := 1, df := 1, pExpErr := 0 }

/-! ## The validity domain of the constructor -/

/-- a model is constructed exactly on the documented validity domain, and then it is `build o` -/
theorem mkModel_ok_iff (o : Opts ℝ) (m : Mdl ℝ) :
    mkModel o = .ok m ↔
      (1e-2 ≤ o.d ∧ (∀ l, o.dist = some l → o.d / 2 ≤ l) ∧ (∀ v, o.visc = some v → 0.0003 < v)
        ∧ 5 < o.temp ∧ o.temp < 90
        ∧ (o.hydro = true → o.axial = false ∧ (∀ l, o.dist = some l → 1.5 ≤ l / (o.d / 2))
            ∧ (∀ r, o.rhoSample = some r → 100 ≤ r) ∧ 100 ≤ o.rhoBead)) ∧ m = build o := by
  rw [← validate_none_iff]
  constructor
  · exact mkModel_ok
  · rintro ⟨hv, rfl⟩
    unfold mkModel; rw [hv]

theorem oBulk_ok : mkModel oBulk = .ok (build oBulk) := by
  rw [mkModel_ok_iff]; refine ⟨?_, rfl⟩; simp [oBulk]; norm_num
theorem oFaxen_ok : mkModel oFaxen = .ok (build oFaxen) := by
  rw [mkModel_ok_iff]; refine ⟨?_, rfl⟩; simp [oFaxen, oBulk]; norm_num
theorem oBrenner_ok : mkModel oBrenner = .ok (build oBrenner) := by
  rw [mkModel_ok_iff]; refine ⟨?_, rfl⟩; simp [oBrenner, oBulk]; norm_num
theorem oHydro_ok : mkModel oHydro = .ok (build oHydro) := by
  rw [mkModel_ok_iff]; refine ⟨?_, rfl⟩; simp [oHydro, oBulk]; norm_num

/-! ## `κ = 2π·γ·f_c` — one theorem per cell of the option matrix (passive calibration)

`κ` is reported in pN/nm (`· 1e-3` = N/m); `γ` is the drag the property asks for in that cell. -/

/-- no surface distance (with or without hydrodynamics): `γ` = Stokes drag -/
theorem kappa_identity_bulk (o : Opts ℝ) (m : Mdl ℝ) (hm : mkModel o = .ok m)
    (hd : o.dist = none) (fc D sfc sD : ℝ) :
    (passiveResults m fc D sfc sD).kappa * 1e-3
      = 2 * Real.pi * stokesDrag (viscosityOf o) (o.d * 1e-6) * fc := by
  obtain ⟨-, rfl⟩ := mkModel_ok hm
  rw [passive_kappa_SI, drag_build, dragCorrection_bulk o hd, bulkDrag_real]; ring
example : ∃ (o : Opts ℝ) (m : Mdl ℝ), mkModel o = .ok m ∧ o.dist = none := ⟨oBulk, _, oBulk_ok, rfl⟩

/-- lateral, near a surface: `γ` = Stokes × Faxén(`R/l`) -/
theorem kappa_identity_faxen (o : Opts ℝ) (m : Mdl ℝ) (l : ℝ) (hm : mkModel o = .ok m)
    (hh : o.hydro = false) (ha : o.axial = false) (hd : o.dist = some l) (fc D sfc sD : ℝ) :
    (passiveResults m fc D sfc sD).kappa * 1e-3
      = 2 * Real.pi * (stokesDrag (viscosityOf o) (o.d * 1e-6) * faxenSpec (o.d / 2 / l)) * fc := by
  have hl := (mkModel_dist_pos hm hd).2.2.ne'
  obtain ⟨-, rfl⟩ := mkModel_ok hm
  rw [passive_kappa_SI, drag_build, dragCorrection_faxen o l hh ha hd hl, bulkDrag_real]
example : ∃ (o : Opts ℝ) (m : Mdl ℝ) (l : ℝ), mkModel o = .ok m ∧ o.hydro = false ∧ o.axial = false ∧ o.dist = some l :=
  ⟨oFaxen, _, 2, oFaxen_ok, rfl, rfl, rfl⟩

/-- axial, near a surface: `γ` = Stokes × Brenner(`R/l`) -/
theorem kappa_identity_brenner (o : Opts ℝ) (m : Mdl ℝ) (l : ℝ) (hm : mkModel o = .ok m)
    (hh : o.hydro = false) (ha : o.axial = true) (hd : o.dist = some l) (fc D sfc sD : ℝ) :
    (passiveResults m fc D sfc sD).kappa * 1e-3
      = 2 * Real.pi * (stokesDrag (viscosityOf o) (o.d * 1e-6) * brennerSpec (o.d / 2 / l)) * fc := by
  have hl := (mkModel_dist_pos hm hd).2.2.ne'
  obtain ⟨-, rfl⟩ := mkModel_ok hm
  rw [passive_kappa_SI, drag_build, dragCorrection_brenner o l hh ha hd hl, bulkDrag_real]
example : ∃ (o : Opts ℝ) (m : Mdl ℝ) (l : ℝ), mkModel o = .ok m ∧ o.hydro = false ∧ o.axial = true ∧ o.dist = some l :=
  ⟨oBrenner, _, 2, oBrenner_ok, rfl, rfl, rfl⟩

/-- hydrodynamically correct model (with or without a surface distance): the wall is inside the
    spectrum model, `γ` = Stokes (bulk) drag -/
theorem kappa_identity_hydro (o : Opts ℝ) (m : Mdl ℝ) (hm : mkModel o = .ok m)
    (hh : o.hydro = true) (fc D sfc sD : ℝ) :
    (passiveResults m fc D sfc sD).kappa * 1e-3
      = 2 * Real.pi * stokesDrag (viscosityOf o) (o.d * 1e-6) * fc := by
  obtain ⟨-, rfl⟩ := mkModel_ok hm
  rw [passive_kappa_SI, drag_build, dragCorrection_hydro o hh, bulkDrag_real]; ring
example : ∃ (o : Opts ℝ) (m : Mdl ℝ), mkModel o = .ok m ∧ o.hydro = true := ⟨oHydro, _, oHydro_ok, rfl⟩

/-! ## `R_d = √(k_BT/(γ·D))` per cell (`R_d` reported in µm/V, `· 1e-6` = m/V) -/

theorem Rd_identity_bulk (o : Opts ℝ) (m : Mdl ℝ) (hm : mkModel o = .ok m)
    (hd : o.dist = none) (fc D sfc sD : ℝ) :
    (passiveResults m fc D sfc sD).rd * 1e-6
      = Real.sqrt (kT o.temp / (stokesDrag (viscosityOf o) (o.d * 1e-6) * D)) := by
  obtain ⟨-, rfl⟩ := mkModel_ok hm
  rw [passive_rd_SI, drag_build, dragCorrection_bulk o hd, bulkDrag_real, mul_one]; rfl

theorem Rd_identity_faxen (o : Opts ℝ) (m : Mdl ℝ) (l : ℝ) (hm : mkModel o = .ok m)
    (hh : o.hydro = false) (ha : o.axial = false) (hd : o.dist = some l) (fc D sfc sD : ℝ) :
    (passiveResults m fc D sfc sD).rd * 1e-6
      = Real.sqrt (kT o.temp
          / (stokesDrag (viscosityOf o) (o.d * 1e-6) * faxenSpec (o.d / 2 / l) * D)) := by
  have hl := (mkModel_dist_pos hm hd).2.2.ne'
  obtain ⟨-, rfl⟩ := mkModel_ok hm
  rw [passive_rd_SI, drag_build, dragCorrection_faxen o l hh ha hd hl, bulkDrag_real]; rfl

theorem Rd_identity_brenner (o : Opts ℝ) (m : Mdl ℝ) (l : ℝ) (hm : mkModel o = .ok m)
    (hh : o.hydro = false) (ha : o.axial = true) (hd : o.dist = some l) (fc D sfc sD : ℝ) :
    (passiveResults m fc D sfc sD).rd * 1e-6
      = Real.sqrt (kT o.temp
          / (stokesDrag (viscosityOf o) (o.d * 1e-6) * brennerSpec (o.d / 2 / l) * D)) := by
  have hl := (mkModel_dist_pos hm hd).2.2.ne'
  obtain ⟨-, rfl⟩ := mkModel_ok hm
  rw [passive_rd_SI, drag_build, dragCorrection_brenner o l hh ha hd hl, bulkDrag_real]; rfl

theorem Rd_identity_hydro (o : Opts ℝ) (m : Mdl ℝ) (hm : mkModel o = .ok m)
    (hh : o.hydro = true) (fc D sfc sD : ℝ) :
    (passiveResults m fc D sfc sD).rd * 1e-6
      = Real.sqrt (kT o.temp / (stokesDrag (viscosityOf o) (o.d * 1e-6) * D)) := by
  obtain ⟨-, rfl⟩ := mkModel_ok hm
  rw [passive_rd_SI, drag_build, dragCorrection_hydro o hh, bulkDrag_real, mul_one]; rfl

/-- `R_f = R_d·κ` (pN/V = 1e-12 N/V), in every cell and for any model state -/
theorem Rf_identity (m : Mdl ℝ) (fc D sfc sD : ℝ) :
    (passiveResults m fc D sfc sD).rf * 1e-12
      = ((passiveResults m fc D sfc sD).rd * 1e-6) * ((passiveResults m fc D sfc sD).kappa * 1e-3) := by
  rw [passive_rf]; ring

/-- a drag coefficient carried over with `_set_drag` (`calibrate_force(drag=…)`) replaces the bulk
    drag and is corrected by the same surface factor; the spectrum's `gamma0` is untouched -/
theorem set_drag_identities (m : Mdl ℝ) (g fc D sfc sD : ℝ) :
    ∀ r, r = passiveResults (m.setDrag g) fc D sfc sD →
    r.kappa * 1e-3 = 2 * Real.pi * (g * m.corr) * fc ∧
    r.rd * 1e-6 = Real.sqrt (kT m.o.temp / (g * m.corr * D)) ∧
    r.gamma = g ∧ (m.setDrag g).gamma0Psd = m.gamma0Psd := by
  rintro r rfl
  refine ⟨?_, ?_, rfl, rfl⟩
  · rw [passive_kappa_SI]; rfl
  · rw [passive_rd_SI]; rfl

/-! ## Active calibration: `γ` is the measured drag `k_BT/(R_d²·D)` -/

theorem kappa_identity_active (m : Mdl ℝ) (dr : Drive ℝ) (g fc D sfc sD : ℝ) :
    ∀ r, r = activeResults m dr g fc D sfc sD →
    r.kappa * 1e-3 = 2 * Real.pi * r.measured * fc ∧
    r.measured = kT m.o.temp / ((r.rd * 1e-6) ^ 2 * D) := by
  rintro r rfl
  obtain ⟨-, -, hrd, hg, hk, -⟩ := active_fields m dr g fc D sfc sD
  refine ⟨?_, ?_⟩
  · rw [hk]; ring
  · rw [hg, hrd]; ring_nf

/-- `R_d = √(k_BT/(γ·D))` with the measured `γ`, when the driving peak stands above the thermal
    background (`P_theory/P_exp > 0`) -/
theorem Rd_identity_active (m : Mdl ℝ) (dr : Drive ℝ) (g fc D sfc sD : ℝ)
    (hP : 0 < (activeResults m dr g fc D sfc sD).pTheory / (activeResults m dr g fc D sfc sD).pExp)
    (hD : 0 < D) (hT : 0 < kT m.o.temp) :
    ∀ r, r = activeResults m dr g fc D sfc sD →
    r.rd * 1e-6 = Real.sqrt (kT m.o.temp / (r.measured * D)) := by
  obtain ⟨-, -, hrd, hg, -⟩ := active_fields m dr g fc D sfc sD
  rintro r rfl
  have hs : 0 < Real.sqrt ((activeResults m dr g fc D sfc sD).pTheory
      / (activeResults m dr g fc D sfc sD).pExp) := Real.sqrt_pos.mpr hP
  have e : kT m.o.temp / ((activeResults m dr g fc D sfc sD).measured * D)
      = Real.sqrt ((activeResults m dr g fc D sfc sD).pTheory / (activeResults m dr g fc D sfc sD).pExp)
        * Real.sqrt ((activeResults m dr g fc D sfc sD).pTheory
            / (activeResults m dr g fc D sfc sD).pExp) := by
    rw [hg]; field_simp
  rw [e, Real.sqrt_mul_self hs.le, hrd]; ring
example : 0 < (activeResults (build oBulk) drive₀ 0 1 1 0 0).pTheory
    / (activeResults (build oBulk) drive₀ 0 1 1 0 0).pExp ∧ (0:ℝ) < 1 ∧ 0 < kT (build oBulk).o.temp := by
  obtain ⟨hp, ht, -⟩ := active_fields (build oBulk) drive₀ 0 1 1 0 0
  rw [hp, ht]
  simp [Mdl.theoreticalPower, build, oBulk, drivingPowerLorentzian, drive₀, kT]
  norm_num

theorem Rf_identity_active (m : Mdl ℝ) (dr : Drive ℝ) (g fc D sfc sD : ℝ) :
    ∀ r, r = activeResults m dr g fc D sfc sD →
    r.rf * 1e-12 = (r.rd * 1e-6) * (r.kappa * 1e-3) := by
  obtain ⟨-, -, hrd, -, hk, hrf, -⟩ := active_fields m dr g fc D sfc sD
  rintro r rfl
  rw [hrf, hrd, hk]; ring

/-- Eq. 12/14 of Tolić-Nørrelykke 2006: `R_d = √(P_theory/P_exp)`,
    `P_exp = (peak density − thermal background)·Δf` -/
theorem active_Rd_is_power_ratio (m : Mdl ℝ) (dr : Drive ℝ) (g fc D sfc sD : ℝ) :
    ∀ r, r = activeResults m dr g fc D sfc sD →
    r.rd * 1e-6 = Real.sqrt (r.pTheory / r.pExp) ∧
    r.pExp = (dr.maxP - m.physicalPsd dr.freq fc D * g) * dr.df := by
  rintro r rfl
  obtain ⟨hp, -, hrd, -⟩ := active_fields m dr g fc D sfc sD
  exact ⟨by rw [hrd]; ring, hp⟩

/-- reported `gamma_ex` (bulk) per cell: no surface → the measured drag itself -/
theorem active_bulk_drag_bulk (o : Opts ℝ) (m : Mdl ℝ) (hm : mkModel o = .ok m)
    (hd : o.dist = none) (dr : Drive ℝ) (g fc D sfc sD : ℝ) :
    ∀ r, r = activeResults m dr g fc D sfc sD →
    r.gammaEx = r.measured ∧ r.localDrag = r.measured := by
  obtain ⟨-, rfl⟩ := mkModel_ok hm
  obtain ⟨-, -, -, -, -, -, hge, hl, -⟩ := active_fields (build o) dr g fc D sfc sD
  rintro r rfl
  have hc : (build o).corr = 1 := dragCorrection_bulk o hd
  have ht : (build o).toLocal = 1 := by
    show toLocalDrag o = 1
    unfold toLocalDrag
    split
    · rw [hd]; exact complexDrag_zero_bulk ..
    · norm_num
  rw [hge, hl, hc, ht]; simp
example : ∃ (o : Opts ℝ) (m : Mdl ℝ), mkModel o = .ok m ∧ o.dist = none := ⟨oBulk, _, oBulk_ok, rfl⟩

/-- lateral near a surface (not hydrodynamic): the measured drag is the local one,
    `gamma_ex × Faxén = measured` -/
theorem active_bulk_drag_faxen (o : Opts ℝ) (m : Mdl ℝ) (l : ℝ) (hm : mkModel o = .ok m)
    (hh : o.hydro = false) (ha : o.axial = false) (hd : o.dist = some l)
    (dr : Drive ℝ) (g fc D sfc sD : ℝ) :
    ∀ r, r = activeResults m dr g fc D sfc sD →
    r.gammaEx * faxenSpec (o.d / 2 / l) = r.measured ∧ r.localDrag = r.measured := by
  obtain ⟨hd0, hdl, hl0⟩ := mkModel_dist_pos hm hd
  obtain ⟨-, rfl⟩ := mkModel_ok hm
  obtain ⟨-, -, -, -, -, -, hge, hl, -⟩ := active_fields (build o) dr g fc D sfc sD
  rintro r rfl
  have hc : (build o).corr = faxenSpec (o.d / 2 / l) := dragCorrection_faxen o l hh ha hd hl0.ne'
  have ht : (build o).toLocal = 1 := by
    show toLocalDrag o = 1
    unfold toLocalDrag; rw [hh]; norm_num
  have hpos : 0 < faxenSpec (o.d / 2 / l) :=
    faxenSpec_pos _ (by positivity) ((div_le_one hl0).mpr hdl)
  rw [hge, hl, hc, ht]
  exact ⟨div_mul_cancel₀ _ hpos.ne', by ring⟩
example : ∃ (o : Opts ℝ) (m : Mdl ℝ) (l : ℝ), mkModel o = .ok m ∧ o.hydro = false ∧ o.axial = false ∧ o.dist = some l :=
  ⟨oFaxen, _, 2, oFaxen_ok, rfl, rfl, rfl⟩

/-- hydrodynamically correct: correction factor 1, `gamma_ex = measured` -/
theorem active_bulk_drag_hydro (o : Opts ℝ) (m : Mdl ℝ) (hm : mkModel o = .ok m)
    (hh : o.hydro = true) (dr : Drive ℝ) (g fc D sfc sD : ℝ) :
    (activeResults m dr g fc D sfc sD).gammaEx = (activeResults m dr g fc D sfc sD).measured := by
  obtain ⟨-, rfl⟩ := mkModel_ok hm
  obtain ⟨-, -, -, -, -, -, hge, -⟩ := active_fields (build o) dr g fc D sfc sD
  have hc : (build o).corr = 1 := dragCorrection_hydro o hh
  rw [hge, hc]; simp
example : ∃ (o : Opts ℝ) (m : Mdl ℝ), mkModel o = .ok m ∧ o.hydro = true := ⟨oHydro, _, oHydro_ok, rfl⟩

/-- hydrodynamically correct near a surface: the local drag is the measured bulk drag times the
    static wall factor `1/(1 − 9/16·R/l)` (= `calculate_complex_drag(f=0)`), which is well defined
    because the constructor enforces `l ≥ 1.5 R` -/
theorem active_local_drag_hydro_surface (o : Opts ℝ) (m : Mdl ℝ) (l : ℝ) (hm : mkModel o = .ok m)
    (hh : o.hydro = true) (hd : o.dist = some l) (dr : Drive ℝ) (g fc D sfc sD : ℝ) :
    (activeResults m dr g fc D sfc sD).localDrag
        = (activeResults m dr g fc D sfc sD).measured * (1 / (1 - 9 / 16 * (o.d / 2 / l))) ∧
      0 < 1 - 9 / 16 * (o.d / 2 / l) := by
  obtain ⟨hd0, hdl, hl0⟩ := mkModel_dist_pos hm hd
  have hv := (validate_none_iff o).mp (mkModel_ok hm).1
  have h15 : (1.5:ℝ) ≤ l / (o.d / 2) := (hv.2.2.2.2.2 hh).2.1 l hd
  obtain ⟨-, rfl⟩ := mkModel_ok hm
  obtain ⟨-, -, -, -, -, -, -, hl, -⟩ := active_fields (build o) dr g fc D sfc sD
  have hr : o.d / 2 / l ≤ 2 / 3 := by
    rw [div_le_iff₀ hl0]
    have : 1.5 * (o.d / 2) ≤ l := by
      have := (le_div_iff₀ (by positivity : (0:ℝ) < o.d / 2)).mp h15
      linarith
    norm_num at this; linarith
  have ht : (build o).toLocal = 1 / (1 - 9 / 16 * (o.d / 2 / l)) := by
    show toLocalDrag o = _
    unfold toLocalDrag; rw [hh, hd]
    simp only [if_true, Option.map_some]
    rw [complexDrag_zero]
    have := unit_ratio o.d l hl0.ne'
    norm_num at this ⊢
    rw [this]
  exact ⟨by rw [hl, ht], by linarith⟩
example : ∃ (o : Opts ℝ) (m : Mdl ℝ) (l : ℝ), mkModel o = .ok m ∧ o.hydro = true ∧ o.dist = some l :=
  ⟨oHydro, _, 2, oHydro_ok, rfl, rfl⟩

theorem to_local_hydro_bulk (o : Opts ℝ) (hd : o.dist = none ∨ o.hydro = false) :
    toLocalDrag o = 1 := by
  unfold toLocalDrag
  split
  · rename_i hh
    rcases hd with hd | hd
    · rw [hd]; exact complexDrag_zero_bulk ..
    · rw [hd] at hh; cases hh
  · norm_num
example : oBulk.dist = none ∨ oBulk.hydro = false := Or.inl rfl

/-! ## Gaussian error propagation (passive calibration) -/

/-- `∂κ/∂f_c = κ/f_c`, and the reported error is that derivative times `σ_fc`
    (`= |∂κ/∂f_c|·σ_fc` for the positive `κ`, `f_c` of a calibration) -/
theorem err_kappa_is_propagation (m : Mdl ℝ) (fc D sfc sD : ℝ) (hfc : fc ≠ 0) :
    HasDerivAt (fun x => (passiveResults m x D sfc sD).kappa)
        ((passiveResults m fc D sfc sD).kappa / fc) fc ∧
      (passiveResults m fc D sfc sD).errKappa = (passiveResults m fc D sfc sD).kappa / fc * sfc :=
  ⟨kappa_hasDerivAt m fc D sfc sD hfc, passive_errKappa m fc D sfc sD⟩
example : (1:ℝ) ≠ 0 := one_ne_zero

/-- `∂R_d/∂D = −R_d/(2D)`, and the reported error is `|∂R_d/∂D|·σ_D` -/
theorem err_Rd_is_propagation (m : Mdl ℝ) (fc D sfc sD : ℝ) (hD : 0 < D)
    (hc : 0 < kT m.o.temp / m.drag) :
    HasDerivAt (fun x => (passiveResults m fc x sfc sD).rd)
        (-((passiveResults m fc D sfc sD).rd / (2 * D))) D ∧
      (passiveResults m fc D sfc sD).errRd = |-((passiveResults m fc D sfc sD).rd / (2 * D))| * sD := by
  refine ⟨rd_hasDerivAt m fc D sfc sD hD hc, ?_⟩
  rw [passive_errRd, abs_neg, abs_of_nonneg]
  rw [passive_rd]
  positivity
example : (0:ℝ) < 1 ∧ 0 < kT (build oBulk).o.temp / (build oBulk).drag := by
  refine ⟨one_pos, ?_⟩
  rw [drag_build, dragCorrection_bulk _ rfl, bulkDrag_real]
  simp only [kT, build, oBulk, stokesDrag, viscosityOf]
  have := Real.pi_pos
  positivity

/-! ## The analytical Lorentzian fit is exact on a noise-free Lorentzian (ℚ) -/

/-- the Cauchy–Schwarz determinant `S₀₂S₂₂ − S₁₂²` is never negative … -/
theorem anlDet_nonneg (fs ps : List Rat) : 0 ≤ anlDet fs ps := anlDet_nonneg' fs ps

/-- … and positive as soon as two frequencies with non-zero power have different squares -/
theorem anlDet_pos_of_two_frequencies (fs ps : List Rat) (i j : Nat) (hij : i < j)
    (hjf : j < fs.length) (hjp : j < ps.length) (hPi : ps[i] ≠ 0) (hPj : ps[j] ≠ 0)
    (hf : fs[i] ^ 2 ≠ fs[j] ^ 2) : 0 < anlDet fs ps :=
  anlDet_pos' fs ps i j hij hjf hjp hPi hPj hf
example : 0 < anlDet [1, 2] [1, 1] :=
  anlDet_pos_of_two_frequencies [1, 2] [1, 1] 0 1 (by decide) (by decide) (by decide)
    (by norm_num) (by norm_num) (by norm_num)

/-- if `P_k = 1/(a₀ + b₀ f_k²)` for every `k` and the determinant does not vanish, the closed form
    (`S_pq` sums, Eq. 13–14) returns exactly `(a₀, b₀)` -/
theorem analytic_lorentzian_exact (fs ps : List Rat) (a0 b0 : Rat)
    (hP : List.Forall₂ (fun f P => a0 + b0 * f ^ 2 ≠ 0 ∧ P = 1 / (a0 + b0 * f ^ 2)) fs ps)
    (hdet : anlDet fs ps ≠ 0) : analyticalLorentzian fs ps = (a0, b0) := by
  apply analytical_exact' fs ps a0 b0 _ hdet
  intro x hx
  have := (List.forall₂_iff_zip.mp hP).2 (show (x.1, x.2) ∈ fs.zip ps from hx)
  rw [this.2]; field_simp [this.1]
example : analyticalLorentzian [0, 1, 2] [1, 1 / 2, 1 / 5] = (1, 1) := by
  apply analytic_lorentzian_exact
  · exact .cons ⟨by norm_num, by norm_num⟩ (.cons ⟨by norm_num, by norm_num⟩
      (.cons ⟨by norm_num, by norm_num⟩ .nil))
  · exact (anlDet_pos_of_two_frequencies _ _ 0 1 (by decide) (by decide) (by decide)
      (by norm_num) (by norm_num) (by norm_num)).ne'

/-- hence `f_c = √(a₀/b₀)` and `D = π²/b₀` (post-processing over ℝ, for `a₀, b₀ > 0`) -/
theorem analytic_lorentzian_fc_D (fs ps : List Rat) (a0 b0 : Rat)
    (hP : List.Forall₂ (fun f P => a0 + b0 * f ^ 2 ≠ 0 ∧ P = 1 / (a0 + b0 * f ^ 2)) fs ps)
    (hdet : anlDet fs ps ≠ 0) (ha : 0 < a0) (hb : 0 < b0) (f0 f1 p0 fmin fmax dur : ℝ) :
    ∀ r, r = analyticalPost (((analyticalLorentzian fs ps).1 : ℚ) : ℝ)
        (((analyticalLorentzian fs ps).2 : ℚ) : ℝ) f0 f1 p0 fmin fmax dur →
    r.fc = Real.sqrt ((a0 : ℝ) / b0) ∧ r.dc = Real.pi ^ 2 / b0 := by
  rintro r rfl
  rw [analytic_lorentzian_exact fs ps a0 b0 hP hdet]
  have ha' : (0:ℝ) < a0 := by exact_mod_cast ha
  have hb' : (0:ℝ) < b0 := by exact_mod_cast hb
  have hab : (0:ℝ) < (a0:ℝ) / b0 := div_pos ha' hb'
  simp only [analyticalPost, RealLike.lt, RealLike.sqrt, RealLike.pi]
  have e : (0.0 : ℝ) = 0 := by norm_num
  simp only [e, hab, hb', decide_true, if_true]
  refine ⟨trivial, ?_⟩
  norm_num; ring

/-! ## Routing of fixed and fitted diode parameters -/

/-- with as many supplied values as free positions, every fixed position keeps its value and the
    `k`-th free position (in order) receives the `k`-th supplied value -/
theorem fixed_diode_routing {β : Type} (fixed : List (Option β)) (pars : List β)
    (h : pars.length = freeCount fixed) :
    ∃ r, route fixed pars = some r ∧ r.length = fixed.length ∧
      ∀ i, r[i]? = fixed[i]?.map fun x =>
        match x with
        | some v => some v
        | none => pars[rank fixed i]? :=
  routing_pointwise fixed pars h
example : route [none, some 3, none] [1, 2] = some [some 1, some 3, some 2] ∧
    [1, 2].length = freeCount [(none : Option Nat), some 3, none] := ⟨rfl, rfl⟩

/-- the four shapes of `FixedDiodeModel`: the filter is `g_diode` at `(f_diode, α)` with the
    fitted values at the non-fixed positions -/
theorem fixed_diode_filter (f a b p q : ℝ) :
    (Filt.fixed (some a) (some b)).eval f [] = .ok (gDiode f a b) ∧
    (Filt.fixed (some a) none).eval f [p] = .ok (gDiode f a p) ∧
    (Filt.fixed none (some b)).eval f [p] = .ok (gDiode f p b) ∧
    (Filt.fixed none none).eval f [p, q] = .ok (gDiode f p q) ∧
    Filt.diode.eval f [p, q] = .ok (gDiode f p q) ∧
    gDiode f p q = q ^ 2 + (1 - q ^ 2) / (1 + (f / p) ^ 2) := by
  refine ⟨rfl, rfl, rfl, rfl, rfl, ?_⟩
  simp only [gDiode]; norm_num; ring

/-- NumPy broadcasting: a single value is written to every free position -/
theorem route_broadcast {β : Type} (fixed : List (Option β)) (p : β) (h : freeCount fixed ≠ 1) :
    route fixed [p] = some (fill fixed (List.replicate (freeCount fixed) (some p))) :=
  route_broadcast' fixed p h
example : route [(none : Option Nat), none] [7] = some [some 7, some 7] ∧ freeCount [(none : Option Nat), none] ≠ 1 :=
  ⟨rfl, by decide⟩

/-- any other number of values is rejected (`ValueError`) -/
theorem route_error {β : Type} (fixed : List (Option β)) (pars : List β)
    (h : pars.length ≠ freeCount fixed) (h1 : pars.length ≠ 1) : route fixed pars = none :=
  route_error' fixed pars h h1
example : route [(none : Option Nat), some 1] [1, 2] = none ∧ route [(none : Option Nat), some 1] [] = none := ⟨rfl, rfl⟩

/-- the bias factor of `fit_power_spectrum` is `n/(n+1)` -/
theorem bias_correction_factor (n D : ℝ) (hn : 0 < n) :
    biasCorrect n D = D * n / (n + 1) ∧ biasCorrect n D * (n + 1) = D * n := by
  have h1 : n + 1 ≠ 0 := by positivity
  simp only [biasCorrect]
  norm_num
  constructor <;> field_simp
example : (0:ℝ) < 20 := by norm_num

end Verif.C11
