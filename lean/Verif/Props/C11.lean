/-
  C11 — property theorems (statements + short proofs; helper lemmas live in Lemmas/C11).
  Every theorem is about the executable model in `Verif.Model.C11`, which the correspondence check
  ties to `lumicks/pylake/force_calibration/*` on every run.  Formulas are read over `ℝ`
  (`Verif.NumReal`), the closed-form least squares over `ℚ`, the parameter routing over lists.

  Right-hand sides are written with the specification-side quantities of `Lemmas/C11`
  (`stokesDrag`, `faxenSpec`, `brennerSpec`, `kT`: plain `ℝ` expressions in SI units, the wall
  corrections as functions of the dimensionless ratio `R/l`), not with the model's functions.

  NOT proved here (exploration only, see harness/c11.py): that `scipy.optimize.curve_fit` recovers
  the generating `(f_c, D, f_diode, α)` and that the Gaussian-window FFT estimator recovers the
  driving amplitude/frequency.
-/
import Verif.Lemmas.C11
import Verif.Lemmas.C11D

namespace Verif.C11
open Verif

/-! ### Sample configurations, one per cell of the option matrix (non-vacuity of the hypotheses) -/

noncomputable def oBulk : Opts ℝ :=
  { d := 1, visc := some 0.001, temp := 20, hydro := false, dist := none, rhoSample := none,
    rhoBead := 1060, fast := false, axial := false }
noncomputable def oFaxen : Opts ℝ := { oBulk with dist := some 2 }
noncomputable def oBrenner : Opts ℝ := { oBulk with dist := some 2, axial := true }
noncomputable def oHydro : Opts ℝ := { oBulk with hydro := true, dist := some 2 }
noncomputable def drive₀ : Drive ℝ :=
  { freq := 1, amp := 1, ampErr := 0, maxP := 1, df := 1, pExpErr := 0 }

/-! ## The validity domain of the constructor -/

/-- a model is constructed exactly on the documented validity domain, and then it is `build o` -/
theorem mkModel_ok_iff (o : Opts ℝ) (m : Mdl ℝ) :
    mkModel o = .ok m ↔
      (1e-2 ≤ o.d ∧ (∀ l, o.dist = some l → o.d / 2 ≤ l) ∧ (∀ v, o.visc = some v → 0.0003 < v)
        ∧ 5 < o.temp ∧ o.temp < 90
        ∧ (o.hydro = true → o.axial = false ∧ (∀ l, o.dist = some l → 1.5 ≤ l / (o.d / 2))
            ∧ (∀ r, o.rhoSample = some r → 100 ≤ r) ∧ 100 ≤ o.rhoBead)) ∧ m = build o := by
  rw [← validate_none_iff]
  constructor
  · exact mkModel_ok
  · rintro ⟨hv, rfl⟩
    unfold mkModel; rw [hv]

theorem oBulk_ok : mkModel oBulk = .ok (build oBulk) := by
  rw [mkModel_ok_iff]; refine ⟨?_, rfl⟩; simp [oBulk]; norm_num
theorem oFaxen_ok : mkModel oFaxen = .ok (build oFaxen) := by
  rw [mkModel_ok_iff]; refine ⟨?_, rfl⟩; simp [oFaxen, oBulk]; norm_num
theorem oBrenner_ok : mkModel oBrenner = .ok (build oBrenner) := by
  rw [mkModel_ok_iff]; refine ⟨?_, rfl⟩; simp [oBrenner, oBulk]; norm_num
theorem oHydro_ok : mkModel oHydro = .ok (build oHydro) := by
  rw [mkModel_ok_iff]; refine ⟨?_, rfl⟩; simp [oHydro, oBulk]; norm_num

/-! ## `κ = 2π·γ·f_c` — one theorem per cell of the option matrix (passive calibration)

`κ` is reported in pN/nm (`· 1e-3` = N/m); `γ` is the drag the property asks for in that cell. -/

/-- no surface distance (with or without hydrodynamics): `γ` = Stokes drag -/
theorem kappa_identity_bulk (o : Opts ℝ) (m : Mdl ℝ) (hm : mkModel o = .ok m)
    (hd : o.dist = none) (fc D sfc sD : ℝ) :
    (passiveResults m fc D sfc sD).kappa * 1e-3
      = 2 * Real.pi * stokesDrag (viscosityOf o) (o.d * 1e-6) * fc := by
  obtain ⟨-, rfl⟩ := mkModel_ok hm
  rw [passive_kappa_SI, drag_build, dragCorrection_bulk o hd, bulkDrag_real]; ring
example : ∃ (o : Opts ℝ) (m : Mdl ℝ), mkModel o = .ok m ∧ o.dist = none := ⟨oBulk, _, oBulk_ok, rfl⟩

/-- lateral, near a surface: `γ` = Stokes × Faxén(`R/l`) -/
theorem kappa_identity_faxen (o : Opts ℝ) (m : Mdl ℝ) (l : ℝ) (hm : mkModel o = .ok m)
    (hh : o.hydro = false) (ha : o.axial = false) (hd : o.dist = some l) (fc D sfc sD : ℝ) :
    (passiveResults m fc D sfc sD).kappa * 1e-3
      = 2 * Real.pi * (stokesDrag (viscosityOf o) (o.d * 1e-6) * faxenSpec (o.d / 2 / l)) * fc := by
  have hl := (mkModel_dist_pos hm hd).2.2.ne'
  obtain ⟨-, rfl⟩ := mkModel_ok hm
  rw [passive_kappa_SI, drag_build, dragCorrection_faxen o l hh ha hd hl, bulkDrag_real]
example : ∃ (o : Opts ℝ) (m : Mdl ℝ) (l : ℝ), mkModel o = .ok m ∧ o.hydro = false ∧ o.axial = false ∧ o.dist = some l :=
  ⟨oFaxen, _, 2, oFaxen_ok, rfl, rfl, rfl⟩

/-- axial, near a surface: `γ` = Stokes × Brenner(`R/l`) -/
theorem kappa_identity_brenner (o : Opts ℝ) (m : Mdl ℝ) (l : ℝ) (hm : mkModel o = .ok m)
    (hh : o.hydro = false) (ha : o.axial = true) (hd : o.dist = some l) (fc D sfc sD : ℝ) :
    (passiveResults m fc D sfc sD).kappa * 1e-3
      = 2 * Real.pi * (stokesDrag (viscosityOf o) (o.d * 1e-6) * brennerSpec (o.d / 2 / l)) * fc := by
  have hl := (mkModel_dist_pos hm hd).2.2.ne'
  obtain ⟨-, rfl⟩ := mkModel_ok hm
  rw [passive_kappa_SI, drag_build, dragCorrection_brenner o l hh ha hd hl, bulkDrag_real]
example : ∃ (o : Opts ℝ) (m : Mdl ℝ) (l : ℝ), mkModel o = .ok m ∧ o.hydro = false ∧ o.axial = true ∧ o.dist = some l :=
  ⟨oBrenner, _, 2, oBrenner_ok, rfl, rfl, rfl⟩

/-- hydrodynamically correct model (with or without a surface distance): the wall is inside the
    spectrum model, `γ` = Stokes (bulk) drag -/
theorem kappa_identity_hydro (o : Opts ℝ) (m : Mdl ℝ) (hm : mkModel o = .ok m)
    (hh : o.hydro = true) (fc D sfc sD : ℝ) :
    (passiveResults m fc D sfc sD).kappa * 1e-3
      = 2 * Real.pi * stokesDrag (viscosityOf o) (o.d * 1e-6) * fc := by
  obtain ⟨-, rfl⟩ := mkModel_ok hm
  rw [passive_kappa_SI, drag_build, dragCorrection_hydro o hh, bulkDrag_real]; ring
example : ∃ (o : Opts ℝ) (m : Mdl ℝ), mkModel o = .ok m ∧ o.hydro = true := ⟨oHydro, _, oHydro_ok, rfl⟩

/-! ## `R_d = √(k_BT/(γ·D))` per cell (`R_d` reported in µm/V, `· 1e-6` = m/V) -/

theorem Rd_identity_bulk (o : Opts ℝ) (m : Mdl ℝ) (hm : mkModel o = .ok m)
    (hd : o.dist = none) (fc D sfc sD : ℝ) :
    (passiveResults m fc D sfc sD).rd * 1e-6
      = Real.sqrt (kT o.temp / (stokesDrag (viscosityOf o) (o.d * 1e-6) * D)) := by
  obtain ⟨-, rfl⟩ := mkModel_ok hm
  rw [passive_rd_SI, drag_build, dragCorrection_bulk o hd, bulkDrag_real, mul_one]; rfl

theorem Rd_identity_faxen (o : Opts ℝ) (m : Mdl ℝ) (l : ℝ) (hm : mkModel o = .ok m)
    (hh : o.hydro = false) (ha : o.axial = false) (hd : o.dist = some l) (fc D sfc sD : ℝ) :
    (passiveResults m fc D sfc sD).rd * 1e-6
      = Real.sqrt (kT o.temp
          / (stokesDrag (viscosityOf o) (o.d * 1e-6) * faxenSpec (o.d / 2 / l) * D)) := by
  have hl := (mkModel_dist_pos hm hd).2.2.ne'
  obtain ⟨-, rfl⟩ := mkModel_ok hm
  rw [passive_rd_SI, drag_build, dragCorrection_faxen o l hh ha hd hl, bulkDrag_real]; rfl

theorem Rd_identity_brenner (o : Opts ℝ) (m : Mdl ℝ) (l : ℝ) (hm : mkModel o = .ok m)
    (hh : o.hydro = false) (ha : o.axial = true) (hd : o.dist = some l) (fc D sfc sD : ℝ) :
    (passiveResults m fc D sfc sD).rd * 1e-6
      = Real.sqrt (kT o.temp
          / (stokesDrag (viscosityOf o) (o.d * 1e-6) * brennerSpec (o.d / 2 / l) * D)) := by
  have hl := (mkModel_dist_pos hm hd).2.2.ne'
  obtain ⟨-, rfl⟩ := mkModel_ok hm
  rw [passive_rd_SI, drag_build, dragCorrection_brenner o l hh ha hd hl, bulkDrag_real]; rfl

theorem Rd_identity_hydro (o : Opts ℝ) (m : Mdl ℝ) (hm : mkModel o = .ok m)
    (hh : o.hydro = true) (fc D sfc sD : ℝ) :
    (passiveResults m fc D sfc sD).rd * 1e-6
      = Real.sqrt (kT o.temp / (stokesDrag (viscosityOf o) (o.d * 1e-6) * D)) := by
  obtain ⟨-, rfl⟩ := mkModel_ok hm
  rw [passive_rd_SI, drag_build, dragCorrection_hydro o hh, bulkDrag_real, mul_one]; rfl

/-- `R_f = R_d·κ` (pN/V = 1e-12 N/V), in every cell and for any model state -/
theorem Rf_identity (m : Mdl ℝ) (fc D sfc sD : ℝ) :
    (passiveResults m fc D sfc sD).rf * 1e-12
      = ((passiveResults m fc D sfc sD).rd * 1e-6) * ((passiveResults m fc D sfc sD).kappa * 1e-3) := by
  rw [passive_rf]; ring

/-- a drag coefficient carried over with `_set_drag` (`calibrate_force(drag=…)`) replaces the bulk
    drag and is corrected by the same surface factor; the spectrum's `gamma0` is untouched -/
theorem set_drag_identities (m : Mdl ℝ) (g fc D sfc sD : ℝ) :
    ∀ r, r = passiveResults (m.setDrag g) fc D sfc sD →
    r.kappa * 1e-3 = 2 * Real.pi * (g * m.corr) * fc ∧
    r.rd * 1e-6 = Real.sqrt (kT m.o.temp / (g * m.corr * D)) ∧
    r.gamma = g ∧ (m.setDrag g).gamma0Psd = m.gamma0Psd := by
  rintro r rfl
  refine ⟨?_, ?_, rfl, rfl⟩
  · rw [passive_kappa_SI]; rfl
  · rw [passive_rd_SI]; rfl

/-! ## Active calibration: `γ` is the measured drag `k_BT/(R_d²·D)` -/

theorem kappa_identity_active (m : Mdl ℝ) (dr : Drive ℝ) (g fc D sfc sD : ℝ) :
    ∀ r, r = activeResults m dr g fc D sfc sD →
    r.kappa * 1e-3 = 2 * Real.pi * r.measured * fc ∧
    r.measured = kT m.o.temp / ((r.rd * 1e-6) ^ 2 * D) := by
  rintro r rfl
  obtain ⟨-, -, hrd, hg, hk, -⟩ := active_fields m dr g fc D sfc sD
  refine ⟨?_, ?_⟩
  · rw [hk]; ring
  · rw [hg, hrd]; ring_nf

/-- `R_d = √(k_BT/(γ·D))` with the measured `γ`, when the driving peak stands above the thermal
    background (`P_theory/P_exp > 0`) -/
theorem Rd_identity_active (m : Mdl ℝ) (dr : Drive ℝ) (g fc D sfc sD : ℝ)
    (hP : 0 < (activeResults m dr g fc D sfc sD).pTheory / (activeResults m dr g fc D sfc sD).pExp)
    (hD : 0 < D) (hT : 0 < kT m.o.temp) :
    ∀ r, r = activeResults m dr g fc D sfc sD →
    r.rd * 1e-6 = Real.sqrt (kT m.o.temp / (r.measured * D)) := by
  obtain ⟨-, -, hrd, hg, -⟩ := active_fields m dr g fc D sfc sD
  rintro r rfl
  have hs : 0 < Real.sqrt ((activeResults m dr g fc D sfc sD).pTheory
      / (activeResults m dr g fc D sfc sD).pExp) := Real.sqrt_pos.mpr hP
  have e : kT m.o.temp / ((activeResults m dr g fc D sfc sD).measured * D)
      = Real.sqrt ((activeResults m dr g fc D sfc sD).pTheory / (activeResults m dr g fc D sfc sD).pExp)
        * Real.sqrt ((activeResults m dr g fc D sfc sD).pTheory
            / (activeResults m dr g fc D sfc sD).pExp) := by
    rw [hg]; field_simp
  rw [e, Real.sqrt_mul_self hs.le, hrd]; ring
example : 0 < (activeResults (build oBulk) drive₀ 0 1 1 0 0).pTheory
    / (activeResults (build oBulk) drive₀ 0 1 1 0 0).pExp ∧ (0:ℝ) < 1 ∧ 0 < kT (build oBulk).o.temp := by
  obtain ⟨hp, ht, -⟩ := active_fields (build oBulk) drive₀ 0 1 1 0 0
  rw [hp, ht]
  simp [Mdl.theoreticalPower, build, oBulk, drivingPowerLorentzian, drive₀, kT]
  norm_num

theorem Rf_identity_active (m : Mdl ℝ) (dr : Drive ℝ) (g fc D sfc sD : ℝ) :
    ∀ r, r = activeResults m dr g fc D sfc sD →
    r.rf * 1e-12 = (r.rd * 1e-6) * (r.kappa * 1e-3) := by
  obtain ⟨-, -, hrd, -, hk, hrf, -⟩ := active_fields m dr g fc D sfc sD
  rintro r rfl
  rw [hrf, hrd, hk]; ring

/-- Eq. 12/14 of Tolić-Nørrelykke 2006: `R_d = √(P_theory/P_exp)`,
    `P_exp = (peak density − thermal background)·Δf` -/
theorem active_Rd_is_power_ratio (m : Mdl ℝ) (dr : Drive ℝ) (g fc D sfc sD : ℝ) :
    ∀ r, r = activeResults m dr g fc D sfc sD →
    r.rd * 1e-6 = Real.sqrt (r.pTheory / r.pExp) ∧
    r.pExp = (dr.maxP - m.physicalPsd dr.freq fc D * g) * dr.df := by
  rintro r rfl
  obtain ⟨hp, -, hrd, -⟩ := active_fields m dr g fc D sfc sD
  exact ⟨by rw [hrd]; ring, hp⟩

/-- reported `gamma_ex` (bulk) per cell: no surface → the measured drag itself -/
theorem active_bulk_drag_bulk (o : Opts ℝ) (m : Mdl ℝ) (hm : mkModel o = .ok m)
    (hd : o.dist = none) (dr : Drive ℝ) (g fc D sfc sD : ℝ) :
    ∀ r, r = activeResults m dr g fc D sfc sD →
    r.gammaEx = r.measured ∧ r.localDrag = r.measured := by
  obtain ⟨-, rfl⟩ := mkModel_ok hm
  obtain ⟨-, -, -, -, -, -, hge, hl, -⟩ := active_fields (build o) dr g fc D sfc sD
  rintro r rfl
  have hc : (build o).corr = 1 := dragCorrection_bulk o hd
  have ht : (build o).toLocal = 1 := by
    show toLocalDrag o = 1
    unfold toLocalDrag
    split
    · rw [hd]; exact complexDrag_zero_bulk ..
    · norm_num
  rw [hge, hl, hc, ht]; simp
example : ∃ (o : Opts ℝ) (m : Mdl ℝ), mkModel o = .ok m ∧ o.dist = none := ⟨oBulk, _, oBulk_ok, rfl⟩

/-- lateral near a surface (not hydrodynamic): the measured drag is the local one,
    `gamma_ex × Faxén = measured` -/
theorem active_bulk_drag_faxen (o : Opts ℝ) (m : Mdl ℝ) (l : ℝ) (hm : mkModel o = .ok m)
    (hh : o.hydro = false) (ha : o.axial = false) (hd : o.dist = some l)
    (dr : Drive ℝ) (g fc D sfc sD : ℝ) :
    ∀ r, r = activeResults m dr g fc D sfc sD →
    r.gammaEx * faxenSpec (o.d / 2 / l) = r.measured ∧ r.localDrag = r.measured := by
  obtain ⟨hd0, hdl, hl0⟩ := mkModel_dist_pos hm hd
  obtain ⟨-, rfl⟩ := mkModel_ok hm
  obtain ⟨-, -, -, -, -, -, hge, hl, -⟩ := active_fields (build o) dr g fc D sfc sD
  rintro r rfl
  have hc : (build o).corr = faxenSpec (o.d / 2 / l) := dragCorrection_faxen o l hh ha hd hl0.ne'
  have ht : (build o).toLocal = 1 := by
    show toLocalDrag o = 1
    unfold toLocalDrag; rw [hh]; norm_num
  have hpos : 0 < faxenSpec (o.d / 2 / l) :=
    faxenSpec_pos _ (by positivity) ((div_le_one hl0).mpr hdl)
  rw [hge, hl, hc, ht]
  exact ⟨div_mul_cancel₀ _ hpos.ne', by ring⟩
example : ∃ (o : Opts ℝ) (m : Mdl ℝ) (l : ℝ), mkModel o = .ok m ∧ o.hydro = false ∧ o.axial = false ∧ o.dist = some l :=
  ⟨oFaxen, _, 2, oFaxen_ok, rfl, rfl, rfl⟩

/-- hydrodynamically correct: correction factor 1, `gamma_ex = measured` -/
theorem active_bulk_drag_hydro (o : Opts ℝ) (m : Mdl ℝ) (hm : mkModel o = .ok m)
    (hh : o.hydro = true) (dr : Drive ℝ) (g fc D sfc sD : ℝ) :
    (activeResults m dr g fc D sfc sD).gammaEx = (activeResults m dr g fc D sfc sD).measured := by
  obtain ⟨-, rfl⟩ := mkModel_ok hm
  obtain ⟨-, -, -, -, -, -, hge, -⟩ := active_fields (build o) dr g fc D sfc sD
  have hc : (build o).corr = 1 := dragCorrection_hydro o hh
  rw [hge, hc]; simp
example : ∃ (o : Opts ℝ) (m : Mdl ℝ), mkModel o = .ok m ∧ o.hydro = true := ⟨oHydro, _, oHydro_ok, rfl⟩

/-- hydrodynamically correct near a surface: the local drag is the measured bulk drag times the
    static wall factor `1/(1 − 9/16·R/l)` (= `calculate_complex_drag(f=0)`), which is well defined
    because the constructor enforces `l ≥ 1.5 R` -/
theorem active_local_drag_hydro_surface (o : Opts ℝ) (m : Mdl ℝ) (l : ℝ) (hm : mkModel o = .ok m)
    (hh : o.hydro = true) (hd : o.dist = some l) (dr : Drive ℝ) (g fc D sfc sD : ℝ) :
    (activeResults m dr g fc D sfc sD).localDrag
        = (activeResults m dr g fc D sfc sD).measured * (1 / (1 - 9 / 16 * (o.d / 2 / l))) ∧
      0 < 1 - 9 / 16 * (o.d / 2 / l) := by
  obtain ⟨hd0, hdl, hl0⟩ := mkModel_dist_pos hm hd
  have hv := (validate_none_iff o).mp (mkModel_ok hm).1
  have h15 : (1.5:ℝ) ≤ l / (o.d / 2) := (hv.2.2.2.2.2 hh).2.1 l hd
  obtain ⟨-, rfl⟩ := mkModel_ok hm
  obtain ⟨-, -, -, -, -, -, -, hl, -⟩ := active_fields (build o) dr g fc D sfc sD
  have hr : o.d / 2 / l ≤ 2 / 3 := by
    rw [div_le_iff₀ hl0]
    have : 1.5 * (o.d / 2) ≤ l := by
      have := (le_div_iff₀ (by positivity : (0:ℝ) < o.d / 2)).mp h15
      linarith
    norm_num at this; linarith
  have ht : (build o).toLocal = 1 / (1 - 9 / 16 * (o.d / 2 / l)) := by
    show toLocalDrag o = _
    unfold toLocalDrag; rw [hh, hd]
    simp only [if_true, Option.map_some]
    rw [complexDrag_zero]
    have := unit_ratio o.d l hl0.ne'
    norm_num at this ⊢
    rw [this]
  exact ⟨by rw [hl, ht], by linarith⟩
example : ∃ (o : Opts ℝ) (m : Mdl ℝ) (l : ℝ), mkModel o = .ok m ∧ o.hydro = true ∧ o.dist = some l :=
  ⟨oHydro, _, 2, oHydro_ok, rfl, rfl⟩

theorem to_local_hydro_bulk (o : Opts ℝ) (hd : o.dist = none ∨ o.hydro = false) :
    toLocalDrag o = 1 := by
  unfold toLocalDrag
  split
  · rename_i hh
    rcases hd with hd | hd
    · rw [hd]; exact complexDrag_zero_bulk ..
    · rw [hd] at hh; cases hh
  · norm_num
example : oBulk.dist = none ∨ oBulk.hydro = false := Or.inl rfl

/-! ## Gaussian error propagation (passive calibration) -/

/-- `∂κ/∂f_c = κ/f_c`, and the reported error is that derivative times `σ_fc`
    (`= |∂κ/∂f_c|·σ_fc` for the positive `κ`, `f_c` of a calibration) -/
theorem err_kappa_is_propagation (m : Mdl ℝ) (fc D sfc sD : ℝ) (hfc : fc ≠ 0) :
    HasDerivAt (fun x => (passiveResults m x D sfc sD).kappa)
        ((passiveResults m fc D sfc sD).kappa / fc) fc ∧
      (passiveResults m fc D sfc sD).errKappa = (passiveResults m fc D sfc sD).kappa / fc * sfc :=
  ⟨kappa_hasDerivAt m fc D sfc sD hfc, passive_errKappa m fc D sfc sD⟩
example : (1:ℝ) ≠ 0 := one_ne_zero

/-- `∂R_d/∂D = −R_d/(2D)`, and the reported error is `|∂R_d/∂D|·σ_D` -/
theorem err_Rd_is_propagation (m : Mdl ℝ) (fc D sfc sD : ℝ) (hD : 0 < D)
    (hc : 0 < kT m.o.temp / m.drag) :
    HasDerivAt (fun x => (passiveResults m fc x sfc sD).rd)
        (-((passiveResults m fc D sfc sD).rd / (2 * D))) D ∧
      (passiveResults m fc D sfc sD).errRd = |-((passiveResults m fc D sfc sD).rd / (2 * D))| * sD := by
  refine ⟨rd_hasDerivAt m fc D sfc sD hD hc, ?_⟩
  rw [passive_errRd, abs_neg, abs_of_nonneg]
  rw [passive_rd]
  positivity
example : (0:ℝ) < 1 ∧ 0 < kT (build oBulk).o.temp / (build oBulk).drag := by
  refine ⟨one_pos, ?_⟩
  rw [drag_build, dragCorrection_bulk _ rfl, bulkDrag_real]
  simp only [kT, build, oBulk, stokesDrag, viscosityOf]
  have := Real.pi_pos
  positivity

/-! ## The analytical Lorentzian fit is exact on a noise-free Lorentzian (ℚ) -/

/-- the Cauchy–Schwarz determinant `S₀₂S₂₂ − S₁₂²` is never negative … -/
theorem anlDet_nonneg (fs ps : List Rat) : 0 ≤ anlDet fs ps := anlDet_nonneg' fs ps

/-- … and positive as soon as two frequencies with non-zero power have different squares -/
theorem anlDet_pos_of_two_frequencies (fs ps : List Rat) (i j : Nat) (hij : i < j)
    (hjf : j < fs.length) (hjp : j < ps.length) (hPi : ps[i] ≠ 0) (hPj : ps[j] ≠ 0)
    (hf : fs[i] ^ 2 ≠ fs[j] ^ 2) : 0 < anlDet fs ps :=
  anlDet_pos' fs ps i j hij hjf hjp hPi hPj hf
example : 0 < anlDet [1, 2] [1, 1] :=
  anlDet_pos_of_two_frequencies [1, 2] [1, 1] 0 1 (by decide) (by decide) (by decide)
    (by norm_num) (by norm_num) (by norm_num)

/-- if `P_k = 1/(a₀ + b₀ f_k²)` for every `k` and the determinant does not vanish, the closed form
    (`S_pq` sums, Eq. 13–14) returns exactly `(a₀, b₀)` -/
theorem analytic_lorentzian_exact (fs ps : List Rat) (a0 b0 : Rat)
    (hP : List.Forall₂ (fun f P => a0 + b0 * f ^ 2 ≠ 0 ∧ P = 1 / (a0 + b0 * f ^ 2)) fs ps)
    (hdet : anlDet fs ps ≠ 0) : analyticalLorentzian fs ps = (a0, b0) := by
  apply analytical_exact' fs ps a0 b0 _ hdet
  intro x hx
  have := (List.forall₂_iff_zip.mp hP).2 (show (x.1, x.2) ∈ fs.zip ps from hx)
  rw [this.2]; field_simp [this.1]
example : analyticalLorentzian [0, 1, 2] [1, 1 / 2, 1 / 5] = (1, 1) := by
  apply analytic_lorentzian_exact
  · exact .cons ⟨by norm_num, by norm_num⟩ (.cons ⟨by norm_num, by norm_num⟩
      (.cons ⟨by norm_num, by norm_num⟩ .nil))
  · exact (anlDet_pos_of_two_frequencies _ _ 0 1 (by decide) (by decide) (by decide)
      (by norm_num) (by norm_num) (by norm_num)).ne'

/-- hence `f_c = √(a₀/b₀)` and `D = π²/b₀` (post-processing over ℝ, for `a₀, b₀ > 0`) -/
theorem analytic_lorentzian_fc_D (fs ps : List Rat) (a0 b0 : Rat)
    (hP : List.Forall₂ (fun f P => a0 + b0 * f ^ 2 ≠ 0 ∧ P = 1 / (a0 + b0 * f ^ 2)) fs ps)
    (hdet : anlDet fs ps ≠ 0) (ha : 0 < a0) (hb : 0 < b0) (f0 f1 p0 fmin fmax dur : ℝ) :
    ∀ r, r = analyticalPost (((analyticalLorentzian fs ps).1 : ℚ) : ℝ)
        (((analyticalLorentzian fs ps).2 : ℚ) : ℝ) f0 f1 p0 fmin fmax dur →
    r.fc = Real.sqrt ((a0 : ℝ) / b0) ∧ r.dc = Real.pi ^ 2 / b0 := by
  rintro r rfl
  rw [analytic_lorentzian_exact fs ps a0 b0 hP hdet]
  have ha' : (0:ℝ) < a0 := by exact_mod_cast ha
  have hb' : (0:ℝ) < b0 := by exact_mod_cast hb
  have hab : (0:ℝ) < (a0:ℝ) / b0 := div_pos ha' hb'
  simp only [analyticalPost, RealLike.lt, RealLike.sqrt, RealLike.pi]
  have e : (0.0 : ℝ) = 0 := by norm_num
  simp only [e, hab, hb', decide_true, if_true]
  refine ⟨trivial, ?_⟩
  norm_num; ring

/-! ## Routing of fixed and fitted diode parameters -/

/-- with as many supplied values as free positions, every fixed position keeps its value and the
    `k`-th free position (in order) receives the `k`-th supplied value -/
theorem fixed_diode_routing {β : Type} (fixed : List (Option β)) (pars : List β)
    (h : pars.length = freeCount fixed) :
    ∃ r, route fixed pars = some r ∧ r.length = fixed.length ∧
      ∀ i, r[i]? = fixed[i]?.map fun x =>
        match x with
        | some v => some v
        | none => pars[rank fixed i]? :=
  routing_pointwise fixed pars h
example : route [none, some 3, none] [1, 2] = some [some 1, some 3, some 2] ∧
    [1, 2].length = freeCount [(none : Option Nat), some 3, none] := ⟨rfl, rfl⟩

/-- the four shapes of `FixedDiodeModel`: the filter is `g_diode` at `(f_diode, α)` with the
    fitted values at the non-fixed positions -/
theorem fixed_diode_filter (f a b p q : ℝ) :
    (Filt.fixed (some a) (some b)).eval f [] = .ok (gDiode f a b) ∧
    (Filt.fixed (some a) none).eval f [p] = .ok (gDiode f a p) ∧
    (Filt.fixed none (some b)).eval f [p] = .ok (gDiode f p b) ∧
    (Filt.fixed none none).eval f [p, q] = .ok (gDiode f p q) ∧
    Filt.diode.eval f [p, q] = .ok (gDiode f p q) ∧
    gDiode f p q = q ^ 2 + (1 - q ^ 2) / (1 + (f / p) ^ 2) := by
  refine ⟨rfl, rfl, rfl, rfl, rfl, ?_⟩
  simp only [gDiode]; norm_num; ring

/-- NumPy broadcasting: a single value is written to every free position -/
theorem route_broadcast {β : Type} (fixed : List (Option β)) (p : β) (h : freeCount fixed ≠ 1) :
    route fixed [p] = some (fill fixed (List.replicate (freeCount fixed) (some p))) :=
  route_broadcast' fixed p h
example : route [(none : Option Nat), none] [7] = some [some 7, some 7] ∧ freeCount [(none : Option Nat), none] ≠ 1 :=
  ⟨rfl, by decide⟩

/-- any other number of values is rejected (`ValueError`) -/
theorem route_error {β : Type} (fixed : List (Option β)) (pars : List β)
    (h : pars.length ≠ freeCount fixed) (h1 : pars.length ≠ 1) : route fixed pars = none :=
  route_error' fixed pars h h1
example : route [(none : Option Nat), some 1] [1, 2] = none ∧ route [(none : Option Nat), some 1] [] = none := ⟨rfl, rfl⟩

/-- the bias factor of `fit_power_spectrum` is `n/(n+1)` -/
theorem bias_correction_factor (n D : ℝ) (hn : 0 < n) :
    biasCorrect n D = D * n / (n + 1) ∧ biasCorrect n D * (n + 1) = D * n := by
  have h1 : n + 1 ≠ 0 := by positivity
  simp only [biasCorrect]
  norm_num
  constructor <;> field_simp
example : (0:ℝ) < 20 := by norm_num

/-! # Deepening round D

## The objective of `_fit_power_spectra` and the recovery of the generating parameters

`chi2 psd n fs ps` is the sum of squares `curve_fit` is asked to minimise (and the reported
`chi_squared`).  The optimiser itself (SciPy `trf`) is outside the model; what is proved is the
mathematical content of "fitting a generated spectrum returns the generating parameters":
the generating parameters are a global minimiser (value 0) and, inside the ordered box
`0 < f_c < f_diode`, `0 ≤ α < 1`, `D > 0`, the ONLY zero of the objective. -/

/-- the objective is a sum of squares -/
theorem fit_objective_nonneg (psd : ℝ → ℝ) (n : ℝ) (fs ps : List ℝ) : 0 ≤ chi2 psd n fs ps :=
  chi2_nonneg' psd n fs ps

/-- it vanishes exactly when the candidate spectrum passes through every data point -/
theorem fit_objective_zero_iff (psd : ℝ → ℝ) (n : ℝ) (hn : 0 < n) (fs ps : List ℝ)
    (hp : ∀ x ∈ fs.zip ps, x.2 ≠ 0) :
    chi2 psd n fs ps = 0 ↔ ∀ x ∈ fs.zip ps, 1 / psd x.1 = 1 / x.2 :=
  chi2_zero_iff' psd n hn fs ps hp
example : (0:ℝ) < 20 ∧ ∀ x ∈ [(1:ℝ), 2].zip [(3:ℝ), 4], x.2 ≠ 0 := by
  refine ⟨by norm_num, ?_⟩
  intro x hx
  simp at hx
  rcases hx with rfl | rfl <;> norm_num

/-- on a noise-free spectrum `P_k = psd₀(f_k)` the generating model is a global minimiser of the
    objective, with value 0 -/
theorem fit_objective_minimised_by_generating (psd₀ psd : ℝ → ℝ) (n : ℝ) (hn : 0 < n)
    (fs : List ℝ) (h0 : ∀ f ∈ fs, psd₀ f ≠ 0) :
    chi2 psd₀ n fs (fs.map psd₀) = 0 ∧ chi2 psd₀ n fs (fs.map psd₀) ≤ chi2 psd n fs (fs.map psd₀) := by
  have hz : chi2 psd₀ n fs (fs.map psd₀) = 0 := by
    rw [chi2_zero_iff' psd₀ n hn]
    · intro x hx
      rw [(zip_map_snd psd₀ fs x hx).2]
    · intro x hx
      rw [(zip_map_snd psd₀ fs x hx).2]
      exact h0 _ (zip_map_snd psd₀ fs x hx).1
  exact ⟨hz, by rw [hz]; exact chi2_nonneg' ..⟩
example : (0:ℝ) < 20 ∧ ∀ f ∈ [(1:ℝ), 2], lorentzDiodePsd f 1 1 2 (1 / 2) ≠ 0 :=
  ⟨by norm_num, fun f _ => (ld_pos f 1 1 2 (1 / 2) one_pos one_pos two_pos).ne'⟩

/-- the spectrum model the fit evaluates for a non-hydrodynamic model with a free diode filter is
    Lorentzian × `g_diode` (this is the function the `c11.psd` / `c11.chi2` ops run) -/
theorem spectrum_model_lorentz_diode (m : Mdl ℝ) (hh : m.o.hydro = false) (f fc D fd al : ℝ) :
    m.psd .diode f fc D [fd, al] = .ok (lorentzDiodePsd f fc D fd al) ∧
    m.psd (.fixed (some fd) (some al)) f fc D [] = .ok (lorentzDiodePsd f fc D fd al) ∧
    m.psd (.fixed (some fd) none) f fc D [al] = .ok (lorentzDiodePsd f fc D fd al) ∧
    m.psd (.fixed none (some al)) f fc D [fd] = .ok (lorentzDiodePsd f fc D fd al) ∧
    m.psd (.fixed none none) f fc D [fd, al] = .ok (lorentzDiodePsd f fc D fd al) ∧
    m.psd .noFilter f fc D [] = .ok (lorentzianPsd f fc D * 1) := by
  have e1 : (Filt.fixed (some fd) (some al)).eval f [] = .ok (gDiode f fd al) := rfl
  have e2 : (Filt.fixed (some fd) none).eval f [al] = .ok (gDiode f fd al) := rfl
  have e3 : (Filt.fixed none (some al)).eval f [fd] = .ok (gDiode f fd al) := rfl
  have e4 : (Filt.fixed none none).eval f [fd, al] = .ok (gDiode f fd al) := rfl
  refine ⟨by simp [Mdl.psd, Filt.eval, Mdl.physicalPsd, hh, lorentzDiodePsd], ?_, ?_, ?_, ?_,
    by simp [Mdl.psd, Filt.eval, Mdl.physicalPsd, hh, one_lit]⟩
  · unfold Mdl.psd; rw [e1]; simp [Mdl.physicalPsd, hh, lorentzDiodePsd]
  · unfold Mdl.psd; rw [e2]; simp [Mdl.physicalPsd, hh, lorentzDiodePsd]
  · unfold Mdl.psd; rw [e3]; simp [Mdl.physicalPsd, hh, lorentzDiodePsd]
  · unfold Mdl.psd; rw [e4]; simp [Mdl.physicalPsd, hh, lorentzDiodePsd]
example : (build oBulk).o.hydro = false := rfl

/-- RECOVERY (Lorentzian × diode): on a noise-free spectrum containing four frequencies with
    distinct squares, every zero of the objective inside `0 < f_c' < f_diode'`, `0 ≤ α'`, `D' > 0`
    is the generating `(f_c, D, f_diode, α)` (which satisfies `f_c < f_diode`, `α < 1`: the
    property's conditioning box has `f_c ≤ 0.3 f_diode`, `α ≤ 0.8`) -/
theorem fit_recovery_unique_lorentz_diode (fs : List ℝ)
    (n fc D fd al fc' D' fd' al' f1 f2 f3 f4 : ℝ) (hn : 0 < n)
    (hfc : 0 < fc) (hord : fc < fd) (hD : 0 < D) (hal : 0 ≤ al) (hal1 : al < 1)
    (hfc' : 0 < fc') (hord' : fc' < fd') (hal' : 0 ≤ al')
    (m1 : f1 ∈ fs) (m2 : f2 ∈ fs) (m3 : f3 ∈ fs) (m4 : f4 ∈ fs)
    (h12 : f1 ^ 2 ≠ f2 ^ 2) (h13 : f1 ^ 2 ≠ f3 ^ 2) (h14 : f1 ^ 2 ≠ f4 ^ 2) (h23 : f2 ^ 2 ≠ f3 ^ 2)
    (h24 : f2 ^ 2 ≠ f4 ^ 2) (h34 : f3 ^ 2 ≠ f4 ^ 2)
    (hchi : chi2 (fun f => lorentzDiodePsd f fc' D' fd' al') n fs
      (fs.map fun f => lorentzDiodePsd f fc D fd al) = 0) :
    fc' = fc ∧ D' = D ∧ fd' = fd ∧ al' = al := by
  have hfd : 0 < fd := by linarith
  have hpt := (chi2_zero_iff' _ n hn fs _ (by
    intro x hx
    rw [(zip_map_snd _ fs x hx).2]
    exact (ld_pos _ fc D fd al hfc hD hfd).ne')).mp hchi
  have key : ∀ f ∈ fs, lorentzDiodePsd f fc' D' fd' al' = lorentzDiodePsd f fc D fd al := by
    intro f hf
    have := hpt _ (mem_zip_map (fun f => lorentzDiodePsd f fc D fd al) fs f hf)
    simpa using this
  exact ld_identifiable' fc D fd al fc' D' fd' al' f1 f2 f3 f4 hfc hord hD hal hal1 hfc' hord' hal'
    h12 h13 h14 h23 h24 h34 (key f1 m1) (key f2 m2) (key f3 m3) (key f4 m4)
example : chi2 (fun f : ℝ => lorentzDiodePsd f 1 1 2 (1 / 2)) 20 [0, 1, 2, 3]
    ([0, 1, 2, 3].map fun f : ℝ => lorentzDiodePsd f 1 1 2 (1 / 2)) = 0 :=
  (fit_objective_minimised_by_generating _ (fun f => lorentzDiodePsd f 1 1 2 (1 / 2)) 20 (by norm_num) _
    (fun f _ => (ld_pos f 1 1 2 (1 / 2) one_pos one_pos two_pos).ne')).1

/-- the ordering `f_c' < f_diode'` in the previous theorem is NECESSARY: the swapped twin
    `(f_c, D, f_diode, α) ↦ (f_diode, D·f_d²/f_c², f_c, α·f_c/f_d)` is a second global minimiser of
    the same objective (it has `f_c' > f_diode'`, outside the conditioning box) -/
theorem fit_twin_minimiser (fs : List ℝ) (n fc D fd al : ℝ) (hn : 0 < n)
    (hfc : 0 < fc) (hD : 0 < D) (hfd : 0 < fd) :
    chi2 (fun f => lorentzDiodePsd f fd (D * fd ^ 2 / fc ^ 2) fc (al * fc / fd)) n fs
      (fs.map fun f => lorentzDiodePsd f fc D fd al) = 0 := by
  have : (fun f => lorentzDiodePsd f fd (D * fd ^ 2 / fc ^ 2) fc (al * fc / fd))
      = fun f => lorentzDiodePsd f fc D fd al := by
    funext f; exact ld_twin' f fc D fd al hfc.ne' hfd.ne'
  rw [this]
  exact (fit_objective_minimised_by_generating _ (fun f => lorentzDiodePsd f fc D fd al) n hn fs
    (fun f _ => (ld_pos f fc D fd al hfc hD hfd).ne')).1
example : (0:ℝ) < 20 ∧ (0:ℝ) < 1 ∧ (0:ℝ) < 2 := by norm_num

/-- RECOVERY (plain Lorentzian, fast sensor): two frequencies with distinct squares suffice -/
theorem fit_recovery_unique_lorentzian (fs : List ℝ) (n fc D fc' D' f1 f2 : ℝ) (hn : 0 < n)
    (hfc : 0 < fc) (hD : 0 < D) (hfc' : 0 < fc') (m1 : f1 ∈ fs) (m2 : f2 ∈ fs)
    (h12 : f1 ^ 2 ≠ f2 ^ 2)
    (hchi : chi2 (fun f => lorentzianPsd f fc' D') n fs (fs.map fun f => lorentzianPsd f fc D) = 0) :
    fc' = fc ∧ D' = D := by
  have hpos : ∀ f, 0 < lorentzianPsd f fc D := by
    intro f
    simp only [lorentzianPsd, RealLike.pi]
    have := Real.pi_pos
    have : 0 < f * f + fc * fc := add_pos_of_nonneg_of_pos (mul_self_nonneg f) (mul_pos hfc hfc)
    positivity
  have hpt := (chi2_zero_iff' _ n hn fs _ (by
    intro x hx
    rw [(zip_map_snd _ fs x hx).2]
    exact (hpos _).ne')).mp hchi
  have key : ∀ f ∈ fs, lorentzianPsd f fc' D' = lorentzianPsd f fc D := by
    intro f hf
    have := hpt _ (mem_zip_map (fun f => lorentzianPsd f fc D) fs f hf)
    simpa using this
  exact lorentzian_identifiable' fc D fc' D' f1 f2 hfc hfc' hD.ne' h12 (key f1 m1) (key f2 m2)
example : chi2 (fun f : ℝ => lorentzianPsd f 1 1) 20 [0, 1]
    ([0, 1].map fun f : ℝ => lorentzianPsd f 1 1) = 0 ∧ (0:ℝ) ^ 2 ≠ 1 ^ 2 := by
  refine ⟨(fit_objective_minimised_by_generating (fun f : ℝ => lorentzianPsd f 1 1)
    (fun f => lorentzianPsd f 1 1) 20 (by norm_num) _ ?_).1,
    by norm_num⟩
  intro f _
  simp only [lorentzianPsd, RealLike.pi]
  have := Real.pi_pos
  have : 0 < f * f + 1 * 1 := add_pos_of_nonneg_of_pos (mul_self_nonneg f) (by norm_num)
  positivity

/-! ## The driving-peak estimator after the FFT -/

/-- the three-point fit (what `np.polyfit(·, ·, 2)` returns on three points) reproduces a parabola -/
theorem driving_peak_parabola_exact (x0 x1 x2 A B C : ℝ) (h01 : x0 ≠ x1) (h12 : x1 ≠ x2)
    (h02 : x0 ≠ x2) :
    parabola3 x0 x1 x2 (A * x0 ^ 2 + B * x0 + C) (A * x1 ^ 2 + B * x1 + C) (A * x2 ^ 2 + B * x2 + C)
      = (A, B, C) := parabola3_exact' x0 x1 x2 A B C h01 h12 h02
example : (1:ℝ) ≠ 2 ∧ (2:ℝ) ≠ 3 ∧ (1:ℝ) ≠ 3 := by norm_num

/-- RECOVERY: when the three magnitudes around the peak lie on a Gaussian
    `K·exp(−½((f − μ)/σ)²)` (the transform of the Gaussian-windowed sinusoid) with centre inside
    the search range, the estimator answers, returns the centre `μ` exactly and the amplitude
    `K·σ·√(2π)·δ` (for the window of the code `K = A·s√(2π)/2`, `σ = rate/(2π s)`, `δ = 2/rate`,
    i.e. the amplitude `A` of the sinusoid) -/
theorem driving_peak_gaussian_recovery (m : Nat)
    (x0 x1 x2 K mu sigma guess search delta npts tp sw sw2 : ℝ)
    (h01 : x0 ≠ x1) (h12 : x1 ≠ x2) (h02 : x0 ≠ x2) (hK : 0 < K) (hs : 0 < sigma)
    (hlo : guess - search ≤ mu) (hhi : mu ≤ guess + search) :
    ∃ r, drivePost m x0 x1 x2 (K * Real.exp (-(1 / 2) * ((x0 - mu) / sigma) ^ 2))
        (K * Real.exp (-(1 / 2) * ((x1 - mu) / sigma) ^ 2))
        (K * Real.exp (-(1 / 2) * ((x2 - mu) / sigma) ^ 2)) guess search delta npts tp sw sw2 = .ok r ∧
      r.freq = mu ∧ r.amp = K * (sigma * Real.sqrt (2 * Real.pi)) * delta :=
  drivePost_gaussian' m x0 x1 x2 K mu sigma guess search delta npts tp sw sw2 h01 h12 h02 hK hs hlo hhi
example : (1:ℝ) ≠ 2 ∧ (2:ℝ) ≠ 3 ∧ (1:ℝ) ≠ 3 ∧ (0:ℝ) < 1 ∧ (2:ℝ) - 5 ≤ 2 ∧ (2:ℝ) ≤ 2 + 5 := by norm_num

/-- the constants of the code's window: `K·σ·√(2π)·δ = A` for `K = A/2·s·√(2π)`, `σ = rate/(2π s)`,
    `δ = 2/rate` (`s` = window standard deviation in samples) -/
theorem driving_peak_window_constants (A s rate : ℝ) (hs : 0 < s) (hr : 0 < rate) :
    (A / 2 * (s * Real.sqrt (2 * Real.pi))) * (rate / (2 * Real.pi * s) * Real.sqrt (2 * Real.pi))
      * (2 / rate) = A := by
  have hpi := Real.pi_pos
  have h2 : Real.sqrt (2 * Real.pi) * Real.sqrt (2 * Real.pi) = 2 * Real.pi :=
    Real.mul_self_sqrt (by positivity)
  field_simp
  linear_combination (A) * h2
example : (0:ℝ) < 1 := one_pos

/-- SOUNDNESS of an answer: whenever the estimator answers, the fitted parabola opens downwards,
    the returned frequency is its vertex and lies inside the search range
    `[guess − f_search, guess + f_search]`, the amplitude and its error follow the stated formulas
    (`amp_std = ENBW·√|var − amp²/2|/√N`) -/
theorem driving_peak_answer_sound (m : Nat)
    (x0 x1 x2 a0 a1 a2 guess search delta npts tp sw sw2 : ℝ) (r : DriveEst ℝ)
    (h : drivePost m x0 x1 x2 a0 a1 a2 guess search delta npts tp sw sw2 = .ok r) :
    (r.p0, r.p1, r.p2) = parabola3 x0 x1 x2 (Real.log a0) (Real.log a1) (Real.log a2) ∧
    r.p0 < 0 ∧ r.freq = -r.p1 / (2 * r.p0) ∧ guess - search ≤ r.freq ∧ r.freq ≤ guess + search ∧
    r.amp = Real.exp (r.p2 - 0.25 * (r.p1 * r.p1) / r.p0 + 0.5 * Real.log (-Real.pi / r.p0)) * delta ∧
    r.ampStd = npts * sw2 / (sw * sw) * Real.sqrt |tp - r.amp * r.amp / 2| / Real.sqrt npts ∧
    r.maxIdx = m :=
  drivePost_ok' m x0 x1 x2 a0 a1 a2 guess search delta npts tp sw sw2 r h
example : ∃ r, drivePost 1 1 2 3 (1 * Real.exp (-(1 / 2) * ((1 - 2) / 1) ^ 2))
    (1 * Real.exp (-(1 / 2) * ((2 - 2) / 1) ^ 2)) (1 * Real.exp (-(1 / 2) * ((3 - 2) / 1) ^ 2))
    2 5 1 1 1 1 1 = .ok r :=
  (driving_peak_gaussian_recovery 1 1 2 3 1 2 1 2 5 1 1 1 1 1 (by norm_num) (by norm_num) (by norm_num)
    one_pos one_pos (by norm_num) (by norm_num)).imp fun _ h => h.1

/-- INDEX BOOKKEEPING of the peak search (`np.where(mask)[0][0] + np.argmax(mags[mask])`): on a
    sorted frequency axis (what `np.fft.rfftfreq` returns) the peak bin lies inside the search
    range, carries the largest magnitude of the range, and is the first bin that does -/
theorem driving_peak_bin_is_argmax (freqs mags : List ℝ) (g s : ℝ) (m : Nat)
    (hs : freqs.Pairwise (· ≤ ·)) (hlen : mags.length = freqs.length)
    (h : peakBin freqs mags g s = some m) :
    ∃ hm : m < mags.length, (searchMask freqs g s)[m]? = some true ∧
      (∀ j (hj : j < mags.length), (searchMask freqs g s)[j]? = some true → mags[j] ≤ mags[m]) ∧
      (∀ j (hj : j < mags.length), j < m → (searchMask freqs g s)[j]? = some true → mags[j] < mags[m]) :=
  peakBin_spec' freqs mags g s m hs hlen h
example : ([1, 2, 3, 4] : List ℝ).Pairwise (· ≤ ·) ∧ ([5, 7, 6, 9] : List ℝ).length = ([1, 2, 3, 4] : List ℝ).length ∧
    peakBin ([1, 2, 3, 4] : List ℝ) [5, 7, 6, 9] 2.5 1.2 = some 1 := by
  refine ⟨by simp [List.pairwise_cons]; norm_num, rfl, ?_⟩
  have hm : searchMask ([1, 2, 3, 4] : List ℝ) 2.5 1.2 = [false, true, true, false] := by
    simp [searchMask, RealLike.lt]; norm_num
  have hf : firstTrue [false, true, true, false] = some 1 := rfl
  have hsel : maskSelect ([5, 7, 6, 9] : List ℝ) [false, true, true, false] = [7, 6] := rfl
  have ha : argmax ([7, 6] : List ℝ) = 0 := by
    simp [argmax, argmaxGo, RealLike.lt]; norm_num
  simp only [peakBin, hm, hf, hsel, ha, Option.map_some]

/-- COMPOSITION: an answer of the whole estimator (`c11.drive`) is the answer of `drivePost` on the
    bins `m−1, m, m+1` around the peak bin `m ≥ 1`; the theorems about `drivePost` and
    `peakBin` therefore speak about every answer of `estimateDrive` -/
theorem driving_estimator_decomposes (freqs mags : List ℝ) (g s delta npts tp sw sw2 : ℝ)
    (r : DriveEst ℝ) (h : estimateDrive freqs mags g s delta npts tp sw sw2 = .ok r) :
    ∃ m x0 x1 x2 a0 a1 a2, peakBin freqs mags g s = some m ∧ 0 < m ∧
      freqs[m - 1]? = some x0 ∧ freqs[m]? = some x1 ∧ freqs[m + 1]? = some x2 ∧
      mags[m - 1]? = some a0 ∧ mags[m]? = some a1 ∧ mags[m + 1]? = some a2 ∧
      drivePost m x0 x1 x2 a0 a1 a2 g s delta npts tp sw sw2 = .ok r :=
  estimateDrive_ok' freqs mags g s delta npts tp sw sw2 r h

/-! ## Argument validation of `fit_power_spectrum` -/

/-- a call is accepted exactly when the spectrum has at least 4 points, it is a `PowerSpectrum`, the
    loss function is one of the two documented ones, bias correction is not combined with the robust
    loss, and the analytical fit range is not empty -/
theorem fit_validation_iff (npts nAnl : Nat) (isPS : Bool) (loss : Loss) (bias : Bool) :
    fitValidate npts isPS loss bias nAnl = none ↔
      (4 ≤ npts ∧ isPS = true ∧ loss ≠ .other ∧ ¬(bias = true ∧ loss = .lorentzian) ∧ 1 ≤ nAnl) := by
  unfold fitValidate
  by_cases h1 : npts < 4 <;> by_cases h2 : nAnl < 1 <;> cases isPS <;> cases loss <;> cases bias <;>
    simp [h1, h2] <;> omega

/-- which error, in the order of the code: too few points (RuntimeError) before the wrong argument
    type (TypeError) before the unknown loss (ValueError) before bias + robust loss (RuntimeError)
    before the empty analytical range -/
theorem fit_validation_errors (npts nAnl : Nat) (isPS : Bool) (loss : Loss) (bias : Bool) :
    (npts < 4 → fitValidate npts isPS loss bias nAnl = some .runtime) ∧
    (4 ≤ npts → isPS = false → fitValidate npts isPS loss bias nAnl = some .type) ∧
    (4 ≤ npts → isPS = true → loss = .other → fitValidate npts isPS loss bias nAnl = some .value) ∧
    (4 ≤ npts → isPS = true → loss = .lorentzian → bias = true →
      fitValidate npts isPS loss bias nAnl = some .runtime) ∧
    (4 ≤ npts → isPS = true → loss ≠ .other → ¬(bias = true ∧ loss = .lorentzian) → nAnl = 0 →
      fitValidate npts isPS loss bias nAnl = some .runtime) := by
  unfold fitValidate
  by_cases h1 : npts < 4 <;> by_cases h2 : nAnl < 1 <;> cases isPS <;> cases loss <;> cases bias <;>
    simp [h1, h2] <;> omega
example : (3 : Nat) < 4 ∧ (4 : Nat) ≤ 4 ∧ Loss.gaussian ≠ Loss.other := by decide

/-! ## The hypotheses of the error-propagation theorems are ESTABLISHED by the constructor -/

/-- Brenner's axial correction is positive for every bead that does not touch the surface -/
theorem brenner_correction_pos (h : ℝ) (h0 : 0 ≤ h) (h1 : h < 1) : 0 < brennerSpec h :=
  brennerSpec_pos' h h0 h1
example : (0:ℝ) ≤ 1 / 2 ∧ (1:ℝ) / 2 < 1 := by norm_num

/-- … and `h < 1` is necessary: at contact (`l = R`, which the constructor accepts) the denominator
    of Brenner's factor is exactly zero -/
theorem brenner_singular_at_contact :
    (1:ℝ) - 9 / 8 * 1 + 1 / 2 * 1 ^ 3 - 57 / 100 * 1 ^ 4 + 1 / 5 * 1 ^ 5 + 7 / 200 * 1 ^ 11
      - 1 / 25 * 1 ^ 12 = 0 ∧ brennerSpec 1 = 0 := by
  refine ⟨brenner_den_contact, ?_⟩
  unfold brennerSpec
  rw [brenner_den_contact]; simp

/-- every model the constructor accepts (an axial one not exactly at contact) has a positive
    corrected drag, hence `k_BT/γ > 0`: the hypothesis of `err_Rd_is_propagation` -/
theorem constructed_model_drag_pos (o : Opts ℝ) (m : Mdl ℝ) (hm : mkModel o = .ok m)
    (hax : ∀ l, o.hydro = false → o.axial = true → o.dist = some l → o.d / 2 < l) :
    0 < m.drag ∧ 0 < kT m.o.temp / m.drag := constructed_drag_pos' o m hm hax
example : mkModel oBrenner = .ok (build oBrenner) ∧
    ∀ l, oBrenner.hydro = false → oBrenner.axial = true → oBrenner.dist = some l → oBrenner.d / 2 < l := by
  refine ⟨oBrenner_ok, ?_⟩
  intro l _ _ hl
  have : l = 2 := by simpa [oBrenner, oBulk] using hl.symm
  rw [this]; simp [oBrenner, oBulk]; norm_num

/-- Gaussian error propagation for every constructed model, without side conditions on the model:
    for `f_c > 0`, `D > 0` the reported errors are `|∂κ/∂f_c|·σ_fc` and `|∂R_d/∂D|·σ_D`, and
    `κ > 0` -/
theorem error_propagation_constructed (o : Opts ℝ) (m : Mdl ℝ) (hm : mkModel o = .ok m)
    (hax : ∀ l, o.hydro = false → o.axial = true → o.dist = some l → o.d / 2 < l)
    (fc D sfc sD : ℝ) (hfc : 0 < fc) (hD : 0 < D) :
    HasDerivAt (fun x => (passiveResults m x D sfc sD).kappa)
        ((passiveResults m fc D sfc sD).kappa / fc) fc ∧
    HasDerivAt (fun x => (passiveResults m fc x sfc sD).rd)
        (-((passiveResults m fc D sfc sD).rd / (2 * D))) D ∧
    0 < (passiveResults m fc D sfc sD).kappa ∧
    (passiveResults m fc D sfc sD).errKappa = |(passiveResults m fc D sfc sD).kappa / fc| * sfc ∧
    (passiveResults m fc D sfc sD).errRd = |-((passiveResults m fc D sfc sD).rd / (2 * D))| * sD := by
  obtain ⟨hdrag, hc⟩ := constructed_drag_pos' o m hm hax
  obtain ⟨h1, h2⟩ := err_kappa_is_propagation m fc D sfc sD hfc.ne'
  obtain ⟨h3, h4⟩ := err_Rd_is_propagation m fc D sfc sD hD hc
  have hk : 0 < (passiveResults m fc D sfc sD).kappa := by
    have := passive_kappa_SI m fc D sfc sD
    have hpos : 0 < 2 * Real.pi * m.drag * fc := by have := Real.pi_pos; positivity
    nlinarith
  refine ⟨h1, h3, hk, ?_, h4⟩
  rw [h2, abs_of_pos (div_pos hk hfc)]
example : (0:ℝ) < 1 := one_pos

/-- the function of frequency the `c11.chi2` op sums over is, for a non-hydrodynamic model with a
    free diode filter, the Lorentzian × diode spectrum -/
theorem psdOr_lorentz_diode (m : Mdl ℝ) (hh : m.o.hydro = false) (fc D fd al nan : ℝ) :
    m.psdOr .diode fc D [fd, al] nan = fun f => lorentzDiodePsd f fc D fd al := by
  funext f
  simp [Mdl.psdOr, (spectrum_model_lorentz_diode m hh f fc D fd al).1]
example : (build oBulk).o.hydro = false := rfl

/-- RECOVERY, stated on the model's own evaluation path (`Mdl.psd` through `psdOr`, what the
    `c11.chi2` op runs against `chi_squared_per_deg` of the code): for a constructed non-hydrodynamic
    model, a spectrum generated with `(f_c, D, f_diode, α)` inside the ordered box is fitted with
    objective value 0 by these parameters and by no other parameters of the ordered box -/
theorem fit_recovery_unique_model (m : Mdl ℝ) (hh : m.o.hydro = false) (fs : List ℝ)
    (n fc D fd al fc' D' fd' al' f1 f2 f3 f4 nan : ℝ) (hn : 0 < n)
    (hfc : 0 < fc) (hord : fc < fd) (hD : 0 < D) (hal : 0 ≤ al) (hal1 : al < 1)
    (hfc' : 0 < fc') (hord' : fc' < fd') (hal' : 0 ≤ al')
    (m1 : f1 ∈ fs) (m2 : f2 ∈ fs) (m3 : f3 ∈ fs) (m4 : f4 ∈ fs)
    (h12 : f1 ^ 2 ≠ f2 ^ 2) (h13 : f1 ^ 2 ≠ f3 ^ 2) (h14 : f1 ^ 2 ≠ f4 ^ 2) (h23 : f2 ^ 2 ≠ f3 ^ 2)
    (h24 : f2 ^ 2 ≠ f4 ^ 2) (h34 : f3 ^ 2 ≠ f4 ^ 2) :
    chi2 (m.psdOr .diode fc D [fd, al] nan) n fs (fs.map (m.psdOr .diode fc D [fd, al] nan)) = 0 ∧
    (chi2 (m.psdOr .diode fc' D' [fd', al'] nan) n fs (fs.map (m.psdOr .diode fc D [fd, al] nan)) = 0 →
      fc' = fc ∧ D' = D ∧ fd' = fd ∧ al' = al) := by
  rw [psdOr_lorentz_diode m hh, psdOr_lorentz_diode m hh]
  have hfd : 0 < fd := by linarith
  refine ⟨(fit_objective_minimised_by_generating _ (fun f => lorentzDiodePsd f fc D fd al) n hn fs
    (fun f _ => (ld_pos f fc D fd al hfc hD hfd).ne')).1, ?_⟩
  intro hchi
  exact fit_recovery_unique_lorentz_diode fs n fc D fd al fc' D' fd' al' f1 f2 f3 f4 hn hfc hord hD hal
    hal1 hfc' hord' hal' m1 m2 m3 m4 h12 h13 h14 h23 h24 h34 hchi
example : (build oBulk).o.hydro = false ∧ (0:ℝ) ∈ [(0:ℝ), 1, 2, 3] ∧ (0:ℝ) ^ 2 ≠ 1 ^ 2 := by
  refine ⟨rfl, by simp, by norm_num⟩

/-- `DrivenPower.determine_power_output` takes the largest power density of the spectrum around
    the driving peak (`np.argmax`) -/
theorem driven_power_peak_is_max (powers : List ℝ) (p : ℝ) (h : peakPower powers = some p) :
    p ∈ powers ∧ ∀ x ∈ powers, x ≤ p := by
  unfold peakPower at h
  have hne : powers ≠ [] := by
    intro h0; rw [h0] at h; simp at h
  obtain ⟨hlt, hmax, -⟩ := argmax_spec powers hne
  rw [List.getElem?_eq_getElem hlt] at h
  injection h with h
  subst h
  exact ⟨List.getElem_mem _, hmax⟩
example : peakPower ([1, 3, 2] : List ℝ) = some 3 := by
  have : argmax ([1, 3, 2] : List ℝ) = 1 := by
    simp [argmax, argmaxGo, RealLike.lt]; norm_num
  simp [peakPower, this]

/-! ## Start values and bounds handed to the optimiser -/

/-- COMPOSITION with the routing: the filter contributes exactly as many fitted parameters as the
    routing of `FixedDiodeModel.__call__` expects, so the parameter vector built by
    `fit_power_spectrum` (`[f_c, D, *initial_values]`) is always routed without a `ValueError` -/
theorem fit_parameter_vector_is_routable (fd al : Option ℝ) (rate : ℝ) :
    ((Filt.fixed fd al).fittedParams rate).length = freeCount [fd, al] ∧
    ∃ r, route [fd, al] (((Filt.fixed fd al).fittedParams rate).map (·.1)) = some r := by
  cases fd <;> cases al <;> simp [Filt.fittedParams, diodeParams, freeCount, route, noneIdx]

/-- the generating diode parameters of the property's box lie inside the bounds the optimiser is
    given (`1 ≤ f_diode ≤ rate/2`, `0 ≤ α ≤ 1`), whichever of them are free -/
theorem generating_parameters_within_bounds (fd al rate : ℝ) (h1 : 1 ≤ fd) (h2 : fd ≤ rate / 2)
    (h3 : 0 ≤ al) (h4 : al ≤ 1) :
    (Filt.diode.fittedParams rate).map (fun b => (b.2.1, b.2.2)) = [(1, rate / 2), (0, 1)] ∧
    ((Filt.fixed none none).fittedParams rate).map (fun b => (b.2.1, b.2.2)) = [(1, rate / 2), (0, 1)] ∧
    ((Filt.fixed (some fd) none).fittedParams rate).map (fun b => (b.2.1, b.2.2)) = [(0, 1)] ∧
    ((Filt.fixed none (some al)).fittedParams rate).map (fun b => (b.2.1, b.2.2)) = [(1, rate / 2)] ∧
    ((Filt.fixed (some fd) (some al)).fittedParams rate) = [] ∧
    (1 ≤ fd ∧ fd ≤ rate / 2) ∧ (0 ≤ al ∧ al ≤ 1) := by
  refine ⟨?_, ?_, ?_, ?_, ?_, ⟨h1, h2⟩, ⟨h3, h4⟩⟩ <;>
    simp [Filt.fittedParams, diodeParams] <;> norm_num
example : (1:ℝ) ≤ 14000 ∧ (14000:ℝ) ≤ 78125 / 2 ∧ (0:ℝ) ≤ 0.4 ∧ (0.4:ℝ) ≤ 1 := by norm_num

/-- … and so does the swapped twin of `fit_twin_minimiser` (as soon as `f_c ≥ 1 Hz`): the bounds
    do not remove the second global minimiser of the objective; which of the two the optimiser
    reaches is decided by its start point (analytical `f_c`, `f_diode = 14 kHz`) — exploration -/
theorem twin_within_bounds (fc fd al rate : ℝ) (h1 : 1 ≤ fc) (hord : fc < fd) (h2 : fd ≤ rate / 2)
    (h3 : 0 ≤ al) (h4 : al ≤ 1) :
    (1 ≤ fc ∧ fc ≤ rate / 2) ∧ (0 ≤ al * fc / fd ∧ al * fc / fd ≤ 1) := by
  have hfd : 0 < fd := by linarith
  refine ⟨⟨h1, by linarith⟩, by positivity, ?_⟩
  rw [div_le_one hfd]
  nlinarith
example : (1:ℝ) ≤ 1000 ∧ (1000:ℝ) < 14000 ∧ (14000:ℝ) ≤ 78125 / 2 ∧ (0:ℝ) ≤ 0.4 ∧ (0.4:ℝ) ≤ 1 := by norm_num

/-- FULL STRENGTH of `analytic_lorentzian_exact`: the determinant hypothesis is discharged — on a
    noise-free Lorentzian `P_k = 1/(a₀ + b₀ f_k²)` sampled at (at least) two frequencies with
    different squares the closed form returns exactly `(a₀, b₀)` -/
theorem analytic_lorentzian_exact_of_two_frequencies (fs ps : List Rat) (a0 b0 : Rat)
    (hP : List.Forall₂ (fun f P => a0 + b0 * f ^ 2 ≠ 0 ∧ P = 1 / (a0 + b0 * f ^ 2)) fs ps)
    (i j : Nat) (hij : i < j) (hjf : j < fs.length) (hf : fs[i] ^ 2 ≠ fs[j] ^ 2) :
    analyticalLorentzian fs ps = (a0, b0) := by
  have hlen : fs.length = ps.length := hP.length_eq
  have hjp : j < ps.length := by omega
  have hne : ∀ k (hk : k < fs.length), ps[k]'(by omega) ≠ 0 := by
    intro k hk
    have hmem : (fs[k], ps[k]'(by omega)) ∈ fs.zip ps := by
      rw [List.mem_iff_getElem]
      exact ⟨k, by simp; omega, by simp⟩
    have := (List.forall₂_iff_zip.mp hP).2 hmem
    rw [this.2]
    exact one_div_ne_zero this.1
  exact analytic_lorentzian_exact fs ps a0 b0 hP
    (anlDet_pos_of_two_frequencies fs ps i j hij hjf hjp (hne i (by omega)) (hne j hjf) hf).ne'
example : analyticalLorentzian [0, 1, 2] [1, 1 / 2, 1 / 5] = (1, 1) :=
  analytic_lorentzian_exact_of_two_frequencies _ _ 1 1
    (.cons ⟨by norm_num, by norm_num⟩ (.cons ⟨by norm_num, by norm_num⟩
      (.cons ⟨by norm_num, by norm_num⟩ .nil))) 0 1 (by decide) (by decide) (by norm_num)

/-- RECOVERY (active calibration): if the peak of the detector spectrum is what the model predicts
    for a sensor with displacement sensitivity `R₀` — thermal background plus `P_theory/(R₀²·Δf)` —
    the reported `R_d` is `R₀`, the measured drag is `k_BT/(R₀²D)` and `κ = 2π f_c k_BT/(R₀² D)` -/
theorem active_recovers_generating_sensitivity (m : Mdl ℝ) (dr : Drive ℝ) (g fc D sfc sD R0 : ℝ)
    (hR : 0 < R0) (hdf : dr.df ≠ 0) (hP : 0 < m.theoreticalPower dr fc)
    (hmax : dr.maxP = m.physicalPsd dr.freq fc D * g + m.theoreticalPower dr fc / (R0 ^ 2 * dr.df)) :
    ∀ r, r = activeResults m dr g fc D sfc sD →
    r.rd * 1e-6 = R0 ∧ r.measured = kT m.o.temp / (R0 ^ 2 * D) ∧
    r.kappa * 1e-3 = 2 * Real.pi * (kT m.o.temp / (R0 ^ 2 * D)) * fc := by
  rintro r rfl
  obtain ⟨hp, ht, hrd, hg, hk, -⟩ := active_fields m dr g fc D sfc sD
  have hpe : (activeResults m dr g fc D sfc sD).pExp = m.theoreticalPower dr fc / R0 ^ 2 := by
    rw [hp, hmax]; field_simp; ring
  have hratio : (activeResults m dr g fc D sfc sD).pTheory / (activeResults m dr g fc D sfc sD).pExp
      = R0 ^ 2 := by
    rw [hpe, ht]; field_simp
  have hs : Real.sqrt ((activeResults m dr g fc D sfc sD).pTheory
      / (activeResults m dr g fc D sfc sD).pExp) = R0 := by
    rw [hratio, Real.sqrt_sq hR.le]
  have h1 : (activeResults m dr g fc D sfc sD).rd * 1e-6 = R0 := by rw [hrd, hs]; ring
  have h2 : (activeResults m dr g fc D sfc sD).measured = kT m.o.temp / (R0 ^ 2 * D) := by
    rw [hg, hs]; ring_nf
  refine ⟨h1, h2, ?_⟩
  rw [hk, h2]; ring
example : (0:ℝ) < 1 ∧ drive₀.df ≠ 0 ∧ 0 < (build oBulk).theoreticalPower drive₀ 1 := by
  refine ⟨one_pos, by simp [drive₀], ?_⟩
  simp [Mdl.theoreticalPower, build, oBulk, drivingPowerLorentzian, drive₀]
  norm_num

/-! ## The glue of `calibrate_force` -/

/-- `calibrate_force` accepts its keyword arguments exactly when: no axial and no carried-over drag
    with active calibration, no fixed diode parameter with a fast sensor, and active calibration
    comes with driving data and a positive frequency guess.  Every rejection is a `ValueError`. -/
theorem calibrate_force_accepts_iff (a : CalibArgs ℝ) :
    (calibValidate a = none ↔
      (¬(a.active = true ∧ a.o.axial = true) ∧ ¬(a.active = true ∧ ∃ g, a.drag = some g ∧ g ≠ 0) ∧
       ¬((a.fixedD.isSome = true ∨ a.fixedA.isSome = true) ∧ a.o.fast = true) ∧
       (a.active = true → a.hasDriving = true ∧ ∃ g, a.guess = some g ∧ 0 < g))) ∧
    (∀ e, calibValidate a = some e → e = .value) := by
  have hd := optTruthy_real a.drag
  constructor
  · unfold calibValidate
    rcases a with ⟨o, drag, fd, al, active, hasDriving, guess⟩
    simp only at hd ⊢
    split_ifs with c1 c2 c3 c4 c5
    · simp_all
    · simp_all
    · simp_all
    · simp_all
    · cases guess with
      | none => simp_all
      | some v =>
        simp_all [RealLike.lt, zero_lit]
        rcases c5.2 with h | h
        · have : v = 0 := by
            by_contra hne
            have := (truthy_real v).mpr hne
            rw [h] at this; cases this
          exact this.le
        · exact h.le
    · cases guess with
      | none => simp_all
      | some v =>
        simp_all [RealLike.lt, truthy_real, zero_lit]
        intro h
        exact lt_of_le_of_ne (c5 h).2 (Ne.symm (c5 h).1)
  · intro e he
    unfold calibValidate at he
    split_ifs at he <;> simp_all
noncomputable def args₀ : CalibArgs ℝ where
  o := oBulk
  drag := none
  fixedD := none
  fixedA := none
  active := false
  hasDriving := false
  guess := none
example : calibValidate args₀ = none := by
  simp [calibValidate, args₀, optTruthy]

/-- what an accepted call has built when the fit starts: the constructor's model (with
    `axial=False` for active calibration), the carried-over drag if truthy, and the filter:
    `FixedDiodeModel` iff a fixed parameter was given, `NoFilter` iff fast sensor, else `DiodeModel` -/
theorem calibrate_force_setup (a : CalibArgs ℝ) (m : Mdl ℝ) (flt : Filt ℝ)
    (h : calibSetup a = .ok (m, flt)) :
    calibValidate a = none ∧ flt = chooseFilter a ∧ flt.validate = none ∧
    (∃ m0, mkModel (if a.active then { a.o with axial := false } else a.o) = .ok m0 ∧
      m = if optTruthy a.drag then m0.setDrag (a.drag.getD 0.0) else m0) ∧
    (a.o.fast = true → flt = .noFilter) ∧ (a.o.fast = false → flt ≠ .noFilter) := by
  unfold calibSetup at h
  split at h
  · cases h
  · rename_i hv
    split at h
    · cases h
    · rename_i m0 hm0
      cases hfv : (chooseFilter a).validate with
      | some e => simp [hfv] at h
      | none =>
        simp only [hfv] at h
        injection h with h
        injection h with h1 h2
        refine ⟨hv, h2.symm, by rw [← h2]; exact hfv, ⟨m0, hm0, h1.symm⟩, ?_, ?_⟩
        · intro hf
          have hacc := ((calibrate_force_accepts_iff a).1.mp hv).2.2.1
          rw [← h2]
          unfold chooseFilter
          by_cases hfix : (a.fixedD.isSome || a.fixedA.isSome) = true
          · exact absurd ⟨by simpa using hfix, hf⟩ hacc
          · simp [hfix, hf]
        · intro hf
          rw [← h2]
          unfold chooseFilter
          by_cases hfix : (a.fixedD.isSome || a.fixedA.isSome) = true <;> simp [hfix, hf]
example : ∃ m flt, calibSetup args₀ = .ok (m, flt) := by
  refine ⟨build oBulk, .diode, ?_⟩
  have hv : calibValidate args₀ = none := by simp [calibValidate, args₀, optTruthy]
  have hm : mkModel (if args₀.active = true then { args₀.o with axial := false } else args₀.o)
      = .ok (build oBulk) := by simp [args₀, oBulk_ok]
  simp only [calibSetup, hv, hm]
  simp [args₀, optTruthy, chooseFilter, Filt.validate, oBulk]

/-- ORDER of errors: the `ValueError`s of `calibrate_force` come before the constructor's, e.g.
    active + axial is a `ValueError` even where the constructor alone (hydro + axial) would raise
    `NotImplementedError` -/
theorem calibrate_force_value_error_first (a : CalibArgs ℝ) (h : a.active = true)
    (hax : a.o.axial = true) : calibSetup a = .error .value := by
  simp [calibSetup, calibValidate, h, hax]
example : (true = true) := rfl

/-- RECOVERY on the whole estimator (the function the `c11.drive` op runs): if the magnitude
    spectrum handed to it is the Gaussian `K·exp(−½((f − μ)/σ)²)` on a strictly increasing
    frequency axis, the peak bin has both neighbours, and `μ` lies inside the search range, then the
    estimator answers with the frequency `μ` and the amplitude `K·σ·√(2π)·δ` -/
theorem driving_estimator_gaussian_spectrum (freqs : List ℝ) (K mu sigma g s delta npts tp sw sw2 : ℝ)
    (m : Nat) (hsort : freqs.Pairwise (· < ·)) (hK : 0 < K) (hs : 0 < sigma)
    (hlo : g - s ≤ mu) (hhi : mu ≤ g + s)
    (hpk : peakBin freqs (freqs.map fun f => K * Real.exp (-(1 / 2) * ((f - mu) / sigma) ^ 2)) g s = some m)
    (hm0 : 0 < m) (hm1 : m + 1 < freqs.length) :
    ∃ r, estimateDrive freqs (freqs.map fun f => K * Real.exp (-(1 / 2) * ((f - mu) / sigma) ^ 2))
        g s delta npts tp sw sw2 = .ok r ∧
      r.freq = mu ∧ r.amp = K * (sigma * Real.sqrt (2 * Real.pi)) * delta := by
  have h0 : m - 1 < freqs.length := by omega
  have h1 : m < freqs.length := by omega
  have hlt := List.pairwise_iff_getElem.mp hsort
  have d01 : freqs[m - 1] ≠ freqs[m] := (hlt (m - 1) m h0 h1 (by omega)).ne
  have d12 : freqs[m] ≠ freqs[m + 1] := (hlt m (m + 1) h1 hm1 (by omega)).ne
  have d02 : freqs[m - 1] ≠ freqs[m + 1] := (hlt (m - 1) (m + 1) h0 hm1 (by omega)).ne
  obtain ⟨r, hr, hf, ha⟩ := drivePost_gaussian' m freqs[m - 1] freqs[m] freqs[m + 1] K mu sigma g s delta
    npts tp sw sw2 d01 d12 d02 hK hs hlo hhi
  refine ⟨r, ?_, hf, ha⟩
  unfold estimateDrive
  rw [hpk]
  simp only [List.getElem?_map, List.getElem?_eq_getElem h0,
    List.getElem?_eq_getElem h1, List.getElem?_eq_getElem hm1, Option.map_some]
  rw [if_neg (by omega : ¬ m = 0)]
  exact hr
example : ([1, 2, 3] : List ℝ).Pairwise (· < ·) ∧ (0:Nat) < 1 ∧ 1 + 1 < ([1, 2, 3] : List ℝ).length := by
  refine ⟨by simp [List.pairwise_cons]; norm_num, by decide, by decide⟩

example : peakBin ([1, 2, 3] : List ℝ)
    (([1, 2, 3] : List ℝ).map fun f => 1 * Real.exp (-(1 / 2) * ((f - 2) / 1) ^ 2)) 2 5 = some 1 := by
  have hm : searchMask ([1, 2, 3] : List ℝ) 2 5 = [true, true, true] := by
    simp [searchMask, RealLike.lt]; norm_num
  have hc : Real.exp (-(1 / 2) * (((2:ℝ) - 2) / 1) ^ 2) = 1 := by norm_num
  simp only [peakBin, hm, List.map_cons, List.map_nil, firstTrue, maskSelect, Option.map_some, argmax,
    argmaxGo, RealLike.lt, one_mul, hc]
  simp
  norm_num

/-! ## The robust loss (`loss_function="lorentzian"`) and `ScaledModel` -/

/-- the robust loss is non-negative and vanishes exactly on a pointwise fit -/
theorem robust_loss_zero_iff (psd : ℝ → ℝ) (n : ℝ) (hn : 0 < n) (fs ps : List ℝ)
    (hp : ∀ x ∈ fs.zip ps, psd x.1 ≠ 0) :
    0 ≤ lorentzianLoss psd n fs ps ∧
    (lorentzianLoss psd n fs ps = 0 ↔ ∀ x ∈ fs.zip ps, psd x.1 = x.2) :=
  ⟨lloss_nonneg' psd n fs ps, lloss_zero_iff' psd n hn fs ps hp⟩
example : (0:ℝ) < 20 ∧ ∀ x ∈ [(1:ℝ), 2].zip [(3:ℝ), 4], (fun _ : ℝ => (1:ℝ)) x.1 ≠ 0 := by
  refine ⟨by norm_num, ?_⟩
  intro x _; simp

/-- RECOVERY under the robust loss: on a noise-free Lorentzian × diode spectrum the generating
    parameters give loss 0, and they are the only parameters of the ordered box that do -/
theorem robust_loss_recovery_unique (fs : List ℝ)
    (n fc D fd al fc' D' fd' al' f1 f2 f3 f4 : ℝ) (hn : 0 < n)
    (hfc : 0 < fc) (hord : fc < fd) (hD : 0 < D) (hal : 0 ≤ al) (hal1 : al < 1)
    (hfc' : 0 < fc') (hord' : fc' < fd') (hD' : 0 < D') (hal' : 0 ≤ al')
    (m1 : f1 ∈ fs) (m2 : f2 ∈ fs) (m3 : f3 ∈ fs) (m4 : f4 ∈ fs)
    (h12 : f1 ^ 2 ≠ f2 ^ 2) (h13 : f1 ^ 2 ≠ f3 ^ 2) (h14 : f1 ^ 2 ≠ f4 ^ 2) (h23 : f2 ^ 2 ≠ f3 ^ 2)
    (h24 : f2 ^ 2 ≠ f4 ^ 2) (h34 : f3 ^ 2 ≠ f4 ^ 2) :
    lorentzianLoss (fun f => lorentzDiodePsd f fc D fd al) n fs
      (fs.map fun f => lorentzDiodePsd f fc D fd al) = 0 ∧
    (lorentzianLoss (fun f => lorentzDiodePsd f fc' D' fd' al') n fs
      (fs.map fun f => lorentzDiodePsd f fc D fd al) = 0 →
      fc' = fc ∧ D' = D ∧ fd' = fd ∧ al' = al) := by
  have hfd : 0 < fd := by linarith
  have hfd' : 0 < fd' := by linarith
  constructor
  · rw [lloss_zero_iff' _ n hn]
    · intro x hx; exact ((zip_map_snd _ fs x hx).2).symm
    · intro x _; exact (ld_pos _ fc D fd al hfc hD hfd).ne'
  · intro h0
    have hpt := (lloss_zero_iff' _ n hn fs _ (by
      intro x _; exact (ld_pos _ fc' D' fd' al' hfc' hD' hfd').ne')).mp h0
    have key : ∀ f ∈ fs, lorentzDiodePsd f fc' D' fd' al' = lorentzDiodePsd f fc D fd al := by
      intro f hf
      exact hpt _ (mem_zip_map (fun f => lorentzDiodePsd f fc D fd al) fs f hf)
    exact ld_identifiable' fc D fd al fc' D' fd' al' f1 f2 f3 f4 hfc hord hD hal hal1 hfc' hord' hal'
      h12 h13 h14 h23 h24 h34 (key f1 m1) (key f2 m2) (key f3 m3) (key f4 m4)
example : (0:ℝ) < 20 ∧ (0:ℝ) < 1 ∧ (1:ℝ) < 2 ∧ (0:ℝ) ≤ 1 / 2 ∧ (1:ℝ) / 2 < 1 ∧ (0:ℝ) ∈ [(0:ℝ), 1, 2, 3] ∧
    (0:ℝ) ^ 2 ≠ 1 ^ 2 := by
  refine ⟨by norm_num, by norm_num, by norm_num, by norm_num, by norm_num, by simp, by norm_num⟩

/-- `ScaledModel`: the optimiser works on parameters divided by the initial guess; its start
    vector `np.ones(k)` IS the initial guess, and scaling is element-wise -/
theorem scaled_model_start (scale : List ℝ) :
    scaleParams (List.replicate scale.length 1) scale = scale ∧
    ∀ scaled : List ℝ, (scaleParams scaled scale).length = min scaled.length scale.length := by
  constructor
  · induction scale with
    | nil => rfl
    | cons x t ih =>
      simp only [List.length_cons, List.replicate_succ, scaleParams, List.zipWith_cons_cons, one_mul]
      exact congrArg _ ih
  · intro scaled; simp [scaleParams]

/-! ## Recovery for the hydrodynamically correct spectrum (fast sensor / fully fixed filter) -/

/-- the hydrodynamically correct spectrum is `D·A(f)/((f_c + B(f))² + C(f))` with `A = Re γ/π²`,
    `B = f·(Im γ − f/f_m)`, `C = (f·Re γ)²` — functions of frequency that do not depend on the fitted
    parameters (`γ` = `calculate_complex_drag`, `f_m` = `calculate_dissipation_frequency`) -/
theorem hydro_spectrum_form (f fc D gamma0 r rhoS rhoB : ℝ) (dist : Option ℝ) :
    hydroPsd f fc D gamma0 r rhoS rhoB dist
      = ratPsd (fun f => (complexDrag f gamma0 rhoS r dist).1 / Real.pi ^ 2)
          (fun f => f * ((complexDrag f gamma0 rhoS r dist).2 - f / dissipationFrequency gamma0 r rhoB))
          (fun f => (f * (complexDrag f gamma0 rhoS r dist).1) ^ 2) f fc D :=
  hydroPsd_form f fc D gamma0 r rhoS rhoB dist

/-- … and it is what the `c11.chi2` op sums over for a hydrodynamic model without filter; without
    a surface `Re γ = 1 + √(f/f_ν) ≥ 1`, so `A ≠ 0` -/
theorem psdOr_hydro_noFilter (m : Mdl ℝ) (hh : m.o.hydro = true) (fc D nan : ℝ) :
    (m.psdOr .noFilter fc D [] nan = fun f =>
      hydroPsd f fc D m.gamma0Psd (m.o.d * 1e-6 / 2) (m.o.rhoSample.getD 997) m.o.rhoBead
        (m.o.dist.map (· * 1e-6)) * 1) ∧
    ∀ f g rho r : ℝ, 1 ≤ (complexDrag f g rho r none).1 := by
  constructor
  · funext f
    simp only [Mdl.psdOr, Mdl.psd, Filt.eval, Mdl.physicalPsd, hh, if_true, one_lit]
    norm_num
  · intro f g rho r
    rw [complexDrag_bulk_re]
    have := Real.sqrt_nonneg (f / (g / (6 * Real.pi * rho * r) / (Real.pi * (r * r))))
    linarith
example : (build oHydro).o.hydro = true := rfl

/-- RECOVERY for every spectrum of that form: on a noise-free spectrum the objective vanishes at
    the generating `(f_c, D)`, and at no other `(f_c', D')` as soon as the spectrum holds three
    frequencies whose rows `(B² + C, B, 1)` are linearly independent (a condition on the known
    functions only; the harness evaluates it on every hydrodynamic fast-sensor fit it explores) -/
theorem rational_spectrum_recovery_unique (A B C : ℝ → ℝ) (fs : List ℝ) (n fc D fc' D' f1 f2 f3 : ℝ)
    (hn : 0 < n) (hD : D ≠ 0) (hA : ∀ f ∈ fs, A f ≠ 0) (hC : ∀ f ∈ fs, 0 < C f)
    (m1 : f1 ∈ fs) (m2 : f2 ∈ fs) (m3 : f3 ∈ fs)
    (hdet : (B f1 ^ 2 + C f1) * (B f2 - B f3) - B f1 * ((B f2 ^ 2 + C f2) - (B f3 ^ 2 + C f3))
      + ((B f2 ^ 2 + C f2) * B f3 - (B f3 ^ 2 + C f3) * B f2) ≠ 0) :
    chi2 (fun f => ratPsd A B C f fc D) n fs (fs.map fun f => ratPsd A B C f fc D) = 0 ∧
    (chi2 (fun f => ratPsd A B C f fc' D') n fs (fs.map fun f => ratPsd A B C f fc D) = 0 →
      fc' = fc ∧ D' = D) := by
  have hne : ∀ f ∈ fs, ratPsd A B C f fc D ≠ 0 := by
    intro f hf
    unfold ratPsd
    have := hC f hf
    exact div_ne_zero (mul_ne_zero hD (hA f hf)) (by positivity)
  refine ⟨(fit_objective_minimised_by_generating _ (fun f => ratPsd A B C f fc D) n hn fs hne).1, ?_⟩
  intro hchi
  have hpt := (chi2_zero_iff' _ n hn fs _ (by
    intro x hx
    rw [(zip_map_snd _ fs x hx).2]
    exact hne _ (zip_map_snd _ fs x hx).1)).mp hchi
  have key : ∀ f ∈ fs, ratPsd A B C f fc' D' = ratPsd A B C f fc D := by
    intro f hf
    have := hpt _ (mem_zip_map (fun f => ratPsd A B C f fc D) fs f hf)
    simpa using this
  exact ratPsd_identifiable' A B C fc D fc' D' f1 f2 f3 hD ⟨hA _ m1, hA _ m2, hA _ m3⟩
    ⟨hC _ m1, hC _ m2, hC _ m3⟩ hdet (key f1 m1) (key f2 m2) (key f3 m3)
example : ((fun f : ℝ => f) 0 ^ 2 + 1) * ((fun f : ℝ => f) 1 - (fun f : ℝ => f) 2)
    - (fun f : ℝ => f) 0 * (((fun f : ℝ => f) 1 ^ 2 + 1) - ((fun f : ℝ => f) 2 ^ 2 + 1))
    + (((fun f : ℝ => f) 1 ^ 2 + 1) * (fun f : ℝ => f) 2 - ((fun f : ℝ => f) 2 ^ 2 + 1) * (fun f : ℝ => f) 1) ≠ 0
    ∧ (0:ℝ) ∈ [(0:ℝ), 1, 2] := by
  refine ⟨by norm_num, by simp⟩

/-- the same function of frequency for every shape of `FixedDiodeModel` -/
theorem psdOr_fixed_diode_shapes (m : Mdl ℝ) (hh : m.o.hydro = false) (fc D fd al nan : ℝ) :
    m.psdOr (.fixed (some fd) (some al)) fc D [] nan = (fun f => lorentzDiodePsd f fc D fd al) ∧
    m.psdOr (.fixed (some fd) none) fc D [al] nan = (fun f => lorentzDiodePsd f fc D fd al) ∧
    m.psdOr (.fixed none (some al)) fc D [fd] nan = (fun f => lorentzDiodePsd f fc D fd al) ∧
    m.psdOr (.fixed none none) fc D [fd, al] nan = (fun f => lorentzDiodePsd f fc D fd al) := by
  refine ⟨?_, ?_, ?_, ?_⟩ <;> funext f
  · simp [Mdl.psdOr, (spectrum_model_lorentz_diode m hh f fc D fd al).2.1]
  · simp [Mdl.psdOr, (spectrum_model_lorentz_diode m hh f fc D fd al).2.2.1]
  · simp [Mdl.psdOr, (spectrum_model_lorentz_diode m hh f fc D fd al).2.2.2.1]
  · simp [Mdl.psdOr, (spectrum_model_lorentz_diode m hh f fc D fd al).2.2.2.2.1]
example : (build oBulk).o.hydro = false := rfl

/-- CAPSTONE, in the words of the property: a block-averaged spectrum has a strictly increasing
    positive frequency axis; if it has at least four bins, was generated (noise-free) by a
    non-hydrodynamic model with `(f_c, D, f_diode, α)` in the conditioning box
    (`0 < f_c ≤ 0.3·f_diode`, `0 ≤ α ≤ 0.8`, `D > 0`), then within that box the objective of the fit
    is zero at the generating parameters and at no others -/
theorem fit_recovery_in_conditioning_box (m : Mdl ℝ) (hh : m.o.hydro = false) (fs : List ℝ)
    (n fc D fd al fc' D' fd' al' nan : ℝ) (hn : 0 < n)
    (hsort : fs.Pairwise (· < ·)) (hpos : ∀ f ∈ fs, 0 < f) (hlen : 4 ≤ fs.length)
    (hfc : 0 < fc) (hbox : fc ≤ 0.3 * fd) (hD : 0 < D) (hal : 0 ≤ al) (hal1 : al ≤ 0.8)
    (hfc' : 0 < fc') (hbox' : fc' ≤ 0.3 * fd') (hal' : 0 ≤ al') :
    chi2 (m.psdOr .diode fc D [fd, al] nan) n fs (fs.map (m.psdOr .diode fc D [fd, al] nan)) = 0 ∧
    (chi2 (m.psdOr .diode fc' D' [fd', al'] nan) n fs (fs.map (m.psdOr .diode fc D [fd, al] nan)) = 0 →
      fc' = fc ∧ D' = D ∧ fd' = fd ∧ al' = al) := by
  have hfd : fc < fd := by
    have : 0 < fd := by nlinarith
    nlinarith
  have hfd' : fc' < fd' := by
    have : 0 < fd' := by nlinarith
    nlinarith
  have hlt := List.pairwise_iff_getElem.mp hsort
  have sq_ne : ∀ i j (hi : i < fs.length) (hj : j < fs.length), i < j → fs[i] ^ 2 ≠ fs[j] ^ 2 := by
    intro i j hi hj hij
    have h1 := hlt i j hi hj hij
    have h0 := hpos _ (List.getElem_mem hi)
    have : fs[i] ^ 2 < fs[j] ^ 2 := pow_lt_pow_left₀ h1 h0.le two_ne_zero
    exact this.ne
  exact fit_recovery_unique_model m hh fs n fc D fd al fc' D' fd' al' fs[0] fs[1] fs[2] fs[3] nan hn
    hfc hfd hD hal (by norm_num at hal1 ⊢; linarith) hfc' hfd' hal'
    (List.getElem_mem _) (List.getElem_mem _) (List.getElem_mem _) (List.getElem_mem _)
    (sq_ne 0 1 _ _ (by decide)) (sq_ne 0 2 _ _ (by decide)) (sq_ne 0 3 _ _ (by decide))
    (sq_ne 1 2 _ _ (by decide)) (sq_ne 1 3 _ _ (by decide)) (sq_ne 2 3 _ _ (by decide))
example : ([1, 2, 3, 4] : List ℝ).Pairwise (· < ·) ∧ (∀ f ∈ ([1, 2, 3, 4] : List ℝ), 0 < f) ∧
    4 ≤ ([1, 2, 3, 4] : List ℝ).length ∧ (1:ℝ) ≤ 0.3 * 10 ∧ (0.5:ℝ) ≤ 0.8 := by
  refine ⟨by simp [List.pairwise_cons]; norm_num, ?_, by decide, by norm_num, by norm_num⟩
  intro f hf
  simp at hf
  rcases hf with rfl | rfl | rfl | rfl <;> norm_num

/-- `_fit_power_spectra` returns `np.abs` of the optimiser's solution: this never changes the fitted
    spectrum, which depends on `f_c`, `f_diode`, `α` only through their squares (`D` is not
    symmetric — it is kept non-negative by the bound `D ≥ 0`) -/
theorem abs_of_solution_keeps_spectrum (f fc D fd al : ℝ) :
    lorentzDiodePsd f |fc| D |fd| |al| = lorentzDiodePsd f fc D fd al ∧
    lorentzianPsd f |fc| D = lorentzianPsd f fc D := by
  have h1 : |fc| * |fc| = fc * fc := abs_mul_abs_self fc
  have h2 : |al| * |al| = al * al := abs_mul_abs_self al
  have h3 : f / |fd| * (f / |fd|) = f / fd * (f / fd) := by
    rw [div_mul_div_comm, div_mul_div_comm, abs_mul_abs_self]
  simp only [lorentzDiodePsd, lorentzianPsd, gDiode, h1, h2, h3, and_self]

end Verif.C11
