/-
  C18 — property theorems (statements + short proofs; helper lemmas live in Lemmas/C18).
  Every theorem is about the executable model in `Verif.Model.C18`, which the correspondence check ties to
  `lumicks/pylake/detail/imaging_mixins.py`, `image_stack.py` and `detail/widefield.py` on every run.
-/
import Verif.Lemmas.C18

namespace Verif.C18
open Verif.Py


/-! ## `cast_image` refuses or clamps, never wraps -/

/-- Every value fits (`InRange`: `info.min ≤ v ≤ info.max`): the cast succeeds, with or without `clip`, and converts
    every value on its own (`astype`). -/
theorem cast_fits (d : DType) (clip : Bool) (img : List Rat) (hne : img ≠ [])
    (hall : ∀ v ∈ img, InRange d v) : castImage d clip img = .ok (img.map (astype d)) := by
  obtain ⟨lo, hmin, hlo⟩ := listMin_spec img hne
  obtain ⟨hi, hmax, hhi⟩ := listMax_spec img hne
  have := (range_test_iff d img lo hi hlo hhi).mpr hall
  unfold castImage
  rw [hmin, hmax]
  simp only
  rw [if_neg this]

/-- Some value does not fit and clipping was not requested: the export is refused (`RuntimeError`) — for every
    image, however the offending values are distributed; nothing is written. -/
theorem cast_refuses (d : DType) (img : List Rat) (hne : img ≠ []) (hbad : ¬ ∀ v ∈ img, InRange d v) :
    castImage d false img = .error .runtime := by
  obtain ⟨lo, hmin, hlo⟩ := listMin_spec img hne
  obtain ⟨hi, hmax, hhi⟩ := listMax_spec img hne
  have : lo < d.lo ∨ d.hi < hi := by
    by_contra hc
    exact hbad ((range_test_iff d img lo hi hlo hhi).mp hc)
  unfold castImage
  rw [hmin, hmax]
  simp only
  rw [if_pos this]
  rfl

/-- Hence: without `clip` the cast succeeds iff every value fits. -/
theorem cast_succeeds_iff (d : DType) (img : List Rat) (hne : img ≠ []) :
    (∃ r, castImage d false img = .ok r) ↔ ∀ v ∈ img, InRange d v := by
  constructor
  · rintro ⟨r, hr⟩
    by_contra hbad
    rw [cast_refuses d img hne hbad] at hr
    cases hr
  · intro hall
    exact ⟨_, cast_fits d false img hne hall⟩

/-- With `clip=True` every value is first clamped into the range (values that fit are untouched, values below
    become `info.min`, values above `info.max`), then converted. -/
theorem cast_clips (d : DType) (img : List Rat) (hne : img ≠ []) :
    castImage d true img = .ok (img.map fun v => astype d (clipTo d.lo d.hi v)) := by
  by_cases hall : ∀ v ∈ img, InRange d v
  · rw [cast_fits d true img hne hall]
    congr 1
    apply List.map_congr_left
    intro v hv
    rw [((clipTo_spec d.lo d.hi v (lo_le_hi d)).2.1) (hall v hv).1 (hall v hv).2]
  · obtain ⟨lo, hmin, hlo⟩ := listMin_spec img hne
    obtain ⟨hi, hmax, hhi⟩ := listMax_spec img hne
    have : lo < d.lo ∨ d.hi < hi := by
      by_contra hc
      exact hall ((range_test_iff d img lo hi hlo hhi).mp hc)
    unfold castImage
    rw [hmin, hmax]
    simp only
    rw [if_pos this, List.map_map]
    rfl

/-- The clamp itself. -/
theorem clip_spec (d : DType) (v : Rat) :
    InRange d (clipTo d.lo d.hi v) ∧ (InRange d v → clipTo d.lo d.hi v = v) ∧
      (v < d.lo → clipTo d.lo d.hi v = d.lo) ∧ (d.hi < v → clipTo d.lo d.hi v = d.hi) := by
  obtain ⟨h1, h2, h3, h4⟩ := clipTo_spec d.lo d.hi v (lo_le_hi d)
  exact ⟨h1, fun h => h2 h.1 h.2, h3, h4⟩

/-- An empty image has no minimum: NumPy's `ValueError`. -/
theorem cast_empty (d : DType) (clip : Bool) : castImage d clip [] = .error .value := rfl

/-- uint8 / uint16: whatever is written is an integer of the type's range — the floor of the (clamped) value, so
    an integer photon count that fits is written unchanged and nothing ever wraps around. -/
theorem cast_never_wraps (d : DType) (hd : d = .u8 ∨ d = .u16) (clip : Bool) (img r : List Rat)
    (h : castImage d clip img = .ok r) :
    r = img.map (fun v => ((⌊clipTo d.lo d.hi v⌋ : Int) : Rat)) ∧
    (∀ v ∈ r, InRange d v) ∧ (clip = false → ∀ v ∈ img, InRange d v) := by
  have hne : img ≠ [] := by
    intro h0; rw [h0, cast_empty] at h; cases h
  have hr : r = img.map (fun v => ((⌊clipTo d.lo d.hi v⌋ : Int) : Rat)) ∧
      (clip = false → ∀ v ∈ img, InRange d v) := by
    cases clip with
    | true =>
      rw [cast_clips d img hne] at h
      cases h
      refine ⟨?_, fun hc => by cases hc⟩
      apply List.map_congr_left
      intro v _
      exact (astype_int d hd _ (clip_spec d v).1).1
    | false =>
      have hall := (cast_succeeds_iff d img hne).mp ⟨r, h⟩
      rw [cast_fits d false img hne hall] at h
      cases h
      refine ⟨?_, fun _ => hall⟩
      apply List.map_congr_left
      intro v hv
      rw [(clip_spec d v).2.1 (hall v hv)]
      exact (astype_int d hd v (hall v hv)).1
  refine ⟨hr.1, ?_, hr.2⟩
  intro v hv
  rw [hr.1, List.mem_map] at hv
  obtain ⟨w, _, rfl⟩ := hv
  exact (astype_int d hd _ (clip_spec d w).1).2

/-- An integer value that fits is written exactly (integer types). -/
theorem cast_int_exact (d : DType) (hd : d = .u8 ∨ d = .u16) (n : Int) (hn : InRange d (n : Rat)) :
    astype d (n : Rat) = (n : Rat) := by
  rw [(astype_int d hd _ hn).1, Int.floor_intCast]

/-- Non-vacuity: 300 does not fit uint8 — refused, or clamped to 255 (not wrapped to 44); 2.5 is truncated. -/
example : castImage .u8 false [1, 300, 5 / 2] = .error .runtime := by decide +kernel
example : castImage .u8 true [1, 300, 5 / 2, -3] = .ok [1, 255, 2, 0] := by decide +kernel
example : castImage .u16 false [1, 300, 5 / 2] = .ok [1, 300, 2] := by decide +kernel
/-- Non-vacuity of `cast_fits` / `cast_f32_close` / `cast_f32_in_range`: a float32 cast that succeeds and rounds. -/
example : castImage .f32 false [1 / 3, 16777217, -7] = .ok [11184811 / 33554432, 16777216, -7] := by decide +kernel
example : InRange .u8 255 ∧ ¬ InRange .u8 300 := by
  unfold InRange DType.lo DType.hi; norm_num

/-- float32: the written value is within half a unit in the last place of the (clamped) value. -/
theorem cast_f32_close (clip : Bool) (img r : List Rat) (h : castImage .f32 clip img = .ok r) :
    r.length = img.length ∧
    ∀ i (hi : i < img.length), ∃ w, r[i]? = some w ∧
      |w - clipTo DType.f32.lo DType.f32.hi img[i]| ≤ ulpF32 (clipTo DType.f32.lo DType.f32.hi img[i]) / 2 ∧
      (clip = false → clipTo DType.f32.lo DType.f32.hi img[i] = img[i]) := by
  have hne : img ≠ [] := by
    intro h0; rw [h0, cast_empty] at h; cases h
  have hr : r = img.map (fun v => roundF32 (clipTo DType.f32.lo DType.f32.hi v)) ∧
      (clip = false → ∀ v ∈ img, InRange .f32 v) := by
    cases clip with
    | true =>
      rw [cast_clips .f32 img hne] at h
      cases h
      exact ⟨rfl, fun hc => by cases hc⟩
    | false =>
      have hall := (cast_succeeds_iff .f32 img hne).mp ⟨r, h⟩
      rw [cast_fits .f32 false img hne hall] at h
      cases h
      refine ⟨?_, fun _ => hall⟩
      apply List.map_congr_left
      intro v hv
      rw [(clip_spec .f32 v).2.1 (hall v hv)]; rfl
  refine ⟨by rw [hr.1, List.length_map], ?_⟩
  intro i hi
  refine ⟨roundF32 (clipTo DType.f32.lo DType.f32.hi img[i]), ?_, roundF32_error _, ?_⟩
  · rw [hr.1, List.getElem?_map, List.getElem?_eq_getElem hi]; rfl
  · intro hc
    exact (clip_spec .f32 _).2.1 (hr.2 hc _ (List.getElem_mem hi))

/-- float32: an integer photon count below `2^24` is written exactly. -/
theorem cast_f32_exact_small_int (n : Int) (h : n.natAbs < 2 ^ 24) : astype .f32 (n : Rat) = (n : Rat) :=
  roundF32_int_exact n h

example : astype .f32 (16777215 : Int) = 16777215 := cast_f32_exact_small_int _ (by decide)
/-- … and `2^24 + 1` is the first integer that is not (it is written as `2^24`). -/
example : astype .f32 16777217 = 16777216 := by decide +kernel

/-- float32: whatever is written lies in the finite float32 range (no overflow to infinity) — the cast refuses or
    clamps what lies outside, and rounding keeps what lies inside inside. -/
theorem cast_f32_in_range (clip : Bool) (img r : List Rat) (h : castImage .f32 clip img = .ok r) :
    ∀ v ∈ r, InRange .f32 v := by
  have hne : img ≠ [] := by
    intro h0; rw [h0, cast_empty] at h; cases h
  have hr : ∃ g : Rat → Rat, r = img.map (fun v => roundF32 (g v)) ∧ ∀ v ∈ img, InRange .f32 (g v) := by
    cases clip with
    | true =>
      rw [cast_clips .f32 img hne] at h
      cases h
      exact ⟨clipTo DType.f32.lo DType.f32.hi, rfl, fun v _ => (clip_spec .f32 v).1⟩
    | false =>
      have hall := (cast_succeeds_iff .f32 img hne).mp ⟨r, h⟩
      rw [cast_fits .f32 false img hne hall] at h
      cases h
      exact ⟨id, rfl, hall⟩
  obtain ⟨g, hg, hin⟩ := hr
  intro v hv
  rw [hg, List.mem_map] at hv
  obtain ⟨w, hw, rfl⟩ := hv
  have hb := hin w hw
  have habs : |g w| ≤ f32Max := by
    rw [abs_le]; exact ⟨by simpa [DType.lo] using hb.1, by simpa [DType.hi] using hb.2⟩
  have := abs_le.mp (roundF32_in_range (g w) habs)
  exact ⟨by simpa [DType.lo] using this.1, by simpa [DType.hi] using this.2⟩

/-- float32 in the normal range: relative rounding error at most `2^-24`. -/
theorem f32_relative_error (x : Rat) (h : pow2 (-126) ≤ |x|) : |roundF32 x - x| ≤ |x| * pow2 (-24) := by
  have h1 := roundF32_error x
  have h2 := ulpF32_le x h
  have e : pow2 (-24) = pow2 (-23) / 2 := by
    rw [pow2_eq_zpow, pow2_eq_zpow]
    rw [show (-24 : Int) = -23 - 1 by norm_num, zpow_sub₀ (by norm_num : (2 : Rat) ≠ 0), zpow_one]
  rw [e]
  calc |roundF32 x - x| ≤ ulpF32 x / 2 := h1
    _ ≤ |x| * pow2 (-23) / 2 := by linarith
    _ = |x| * (pow2 (-23) / 2) := by ring

example : pow2 (-126) ≤ |(1 / 3 : Rat)| := by
  rw [pow2_eq_zpow, abs_of_pos (by norm_num)]
  have : (2 : Rat) ^ (-126 : Int) ≤ (2 : Rat) ^ (-2 : Int) := zpow_le_zpow_right₀ (by norm_num) (by norm_num)
  have h2 : (2 : Rat) ^ (-2 : Int) = 1 / 4 := by norm_num [zpow_neg]
  linarith

/-! ## The DateTime tag survives the round trip -/

/-- `_get_page_timestamps(f"{a}:{b}") = (a, b)` for all non-negative int64 timestamps: the f-string written by
    `extratags` is accepted by the pattern `^(\d+):(\d+)$` and both groups read back exactly. -/
theorem datetime_roundtrip (a b : Int) (ha : 0 ≤ a) (hb : 0 ≤ b) (ha' : a < 2 ^ 63) (hb' : b < 2 ^ 63) :
    decodeRange (encodeRange a b) = .ok (a, b) := by
  obtain ⟨va, da, na⟩ := natDigits_spec a.toNat
  obtain ⟨vb, db, nb⟩ := natDigits_spec b.toNat
  unfold encodeRange showInt decodeRange
  rw [if_neg (by omega), if_neg (by omega)]
  obtain ⟨t1, t2⟩ := takeWhile_run isDigit (natDigits a.toNat) ':' (natDigits b.toNat) da colon_not_digit
  obtain ⟨t3, t4⟩ := takeWhile_all isDigit (natDigits b.toNat) db
  simp only [t1, t2, t3, t4]
  rw [if_neg (by simp [na, nb]), if_pos (Or.inl trivial)]
  unfold int64OfDigits
  simp only [va, vb]
  have h1 : a.toNat < 2 ^ 63 := by omega
  have h2 : b.toNat < 2 ^ 63 := by omega
  rw [if_pos h1, if_pos h2]
  simp only [bind, Except.bind, pure, Except.pure]
  have e1 : ((a.toNat : Nat) : Int) = a := Int.toNat_of_nonneg ha
  have e2 : ((b.toNat : Nat) : Int) = b := Int.toNat_of_nonneg hb
  rw [e1, e2]

/-- Non-vacuity: a Bluelake-era timestamp pair. -/
example : decodeRange (encodeRange 1600000000000012800 1600000000000256000)
    = .ok (1600000000000012800, 1600000000000256000) :=
  datetime_roundtrip _ _ (by decide) (by decide) (by decide) (by decide)

/-- A negative start can be written but is refused on reading (`ValueError`): the reader never returns a wrong
    pair for it. -/
theorem datetime_negative_refused (a b : Int) (ha : a < 0) : decodeRange (encodeRange a b) = .error .value := by
  unfold encodeRange showInt decodeRange
  rw [if_pos ha]
  simp only [List.cons_append, List.takeWhile_cons, List.dropWhile_cons, minus_not_digit]
  rfl

example : decodeRange (encodeRange (-5) 7) = .error .value := datetime_negative_refused _ _ (by decide)

/-- Anything the reader accepts is two runs of ASCII digits around one colon (plus at most a final line feed),
    and the values are those of the digit runs. -/
theorem decode_sound (s : List Char) (a b : Int) (h : decodeRange s = .ok (a, b)) :
    ∃ d1 d2 tail, s = d1 ++ ':' :: d2 ++ tail ∧ (tail = [] ∨ tail = ['\n']) ∧ d1 ≠ [] ∧ d2 ≠ [] ∧
      (∀ c ∈ d1, isDigit c = true) ∧ (∀ c ∈ d2, isDigit c = true) ∧
      a = digitsValue d1 ∧ b = digitsValue d2 ∧ 0 ≤ a ∧ a < 2 ^ 63 ∧ 0 ≤ b ∧ b < 2 ^ 63 := by
  unfold decodeRange at h
  simp only at h
  have hsplit : s = s.takeWhile isDigit ++ s.dropWhile isDigit := (List.takeWhile_append_dropWhile).symm
  split at h
  · rename_i rest hd
    rw [hd] at hsplit
    have hsplit2 : rest = rest.takeWhile isDigit ++ rest.dropWhile isDigit :=
      (List.takeWhile_append_dropWhile).symm
    by_cases he : s.takeWhile isDigit = [] ∨ rest.takeWhile isDigit = []
    · rw [if_pos he] at h; cases h
    · rw [if_neg he] at h
      by_cases ht : rest.dropWhile isDigit = [] ∨ rest.dropWhile isDigit = ['\n']
      · rw [if_pos ht] at h
        unfold int64OfDigits at h
        simp only at h
        by_cases h1 : digitsValue (s.takeWhile isDigit) < 2 ^ 63
        · by_cases h2 : digitsValue (rest.takeWhile isDigit) < 2 ^ 63
          · rw [if_pos h1, if_pos h2] at h
            simp only [bind, Except.bind, pure, Except.pure, Except.ok.injEq, Prod.mk.injEq] at h
            refine ⟨s.takeWhile isDigit, rest.takeWhile isDigit, rest.dropWhile isDigit, ?_, ht,
              fun e => he (Or.inl e), fun e => he (Or.inr e), ?_, ?_, h.1.symm, h.2.symm, ?_⟩
            · rw [List.append_assoc, List.cons_append, ← hsplit2]; exact hsplit
            · intro c hc; exact mem_takeWhile_true _ _ c hc
            · intro c hc; exact mem_takeWhile_true _ _ c hc
            · omega
          · rw [if_pos h1, if_neg h2] at h; cases h
        · rw [if_neg h1] at h; cases h
      · rw [if_neg ht] at h; cases h
  · cases h

theorem newline_not_digit : isDigit '\n' = false := by decide

/-- Completeness of the reader: EVERY string `digits ":" digits` (leading zeros allowed, optionally one final line
    feed) is accepted with the values of the two digit runs, or refused with `OverflowError` when a value does not fit
    int64.  With `decode_sound`: the reader accepts exactly this grammar. -/
theorem decode_complete (d1 d2 tail : List Char) (h1 : d1 ≠ []) (h2 : d2 ≠ [])
    (hd1 : ∀ c ∈ d1, isDigit c = true) (hd2 : ∀ c ∈ d2, isDigit c = true) (ht : tail = [] ∨ tail = ['\n']) :
    decodeRange (d1 ++ ':' :: d2 ++ tail) =
      if digitsValue d1 < 2 ^ 63 ∧ digitsValue d2 < 2 ^ 63 then .ok ((digitsValue d1 : Int), (digitsValue d2 : Int))
      else .error .overflow := by
  have e0 : d1 ++ ':' :: d2 ++ tail = d1 ++ ':' :: (d2 ++ tail) := by simp
  obtain ⟨t1, t2⟩ := takeWhile_run isDigit d1 ':' (d2 ++ tail) hd1 colon_not_digit
  have ht2 : (d2 ++ tail).takeWhile isDigit = d2 ∧ (d2 ++ tail).dropWhile isDigit = tail := by
    rcases ht with rfl | rfl
    · rw [List.append_nil]; exact takeWhile_all isDigit d2 hd2
    · exact takeWhile_run isDigit d2 '\n' [] hd2 newline_not_digit
  obtain ⟨t3, t4⟩ := ht2
  rw [e0]
  unfold decodeRange
  simp only [t1, t2, t3, t4]
  rw [if_neg (by simp [h1, h2]), if_pos ht]
  unfold int64OfDigits
  by_cases c1 : digitsValue d1 < 2 ^ 63
  · by_cases c2 : digitsValue d2 < 2 ^ 63
    · simp only [c1, c2, if_true, and_self, bind, Except.bind, pure, Except.pure]
    · simp only [c1, c2, if_true, if_false, and_false, bind, Except.bind]
  · simp only [c1, if_false, false_and, bind, Except.bind]

example : decodeRange "007:08\n".toList = .ok (7, 8) := by decide


/-- Total form of the DateTime round trip for non-negative ranges: what `extratags` writes is read back exactly when
    both ends fit int64, and is refused with `OverflowError` (never misread) when one does not. -/
theorem datetime_roundtrip_total (a b : Int) (ha : 0 ≤ a) (hb : 0 ≤ b) :
    decodeRange (encodeRange a b) = if a < 2 ^ 63 ∧ b < 2 ^ 63 then .ok (a, b) else .error .overflow := by
  obtain ⟨va, da, na⟩ := natDigits_spec a.toNat
  obtain ⟨vb, db, nb⟩ := natDigits_spec b.toNat
  have e1 : ((a.toNat : Nat) : Int) = a := Int.toNat_of_nonneg ha
  have e2 : ((b.toNat : Nat) : Int) = b := Int.toNat_of_nonneg hb
  have h := decode_complete (natDigits a.toNat) (natDigits b.toNat) [] na nb da db (Or.inl rfl)
  rw [List.append_nil] at h
  unfold encodeRange showInt
  rw [if_neg (by omega), if_neg (by omega), h, va, vb, e1, e2]
  have c : (a.toNat < 2 ^ 63 ∧ b.toNat < 2 ^ 63) ↔ (a < 2 ^ 63 ∧ b < 2 ^ 63) := by omega
  by_cases hc : a < 2 ^ 63 ∧ b < 2 ^ 63
  · rw [if_pos hc, if_pos (c.mpr hc)]
  · rw [if_neg hc, if_neg (fun h' => hc (c.mp h'))]

example : decodeRange (encodeRange 5 9223372036854775808) = .error .overflow := by
  rw [datetime_roundtrip_total _ _ (by decide) (by decide)]; decide

/-! ## Legacy files -/

/-- `_frame_timestamps_from_exposure_timestamps`: as many ranges as frames; every frame but the last
    runs from its own start to the next frame's start (so the ranges are contiguous); the last one is as
    long as the distance of the last two starts (or keeps its stop when it is alone). -/
theorem legacy_frame_ranges (ts : List (Int × Int)) (hne : ts ≠ []) :
    ∃ r, legacyRanges ts = some r ∧ r.length = ts.length ∧
      (∀ i, i + 1 < ts.length → r[i]? = (ts[i]?.bind fun a => ts[i + 1]?.map fun b => (a.1, b.1))) ∧
      r[ts.length - 1]? = (ts.getLast?.map fun last =>
        (last.1, match ts[ts.length - 2]? with
          | some prev => if 2 ≤ ts.length then last.1 + (last.1 - prev.1) else last.2
          | none => last.2)) := by
  obtain ⟨last, hlast⟩ : ∃ last, ts.getLast? = some last := by
    cases h : ts.getLast? with
    | none => exact absurd (List.getLast?_eq_none_iff.mp h) hne
    | some l => exact ⟨l, rfl⟩
  have hlen : 0 < ts.length := List.length_pos_iff.mpr hne
  have hbody : ((ts.zip (ts.drop 1)).map fun (x : (Int × Int) × (Int × Int)) => (x.1.1, x.2.1)).length
      = ts.length - 1 := by
    simp only [List.length_map, List.length_zip, List.length_drop]; omega
  unfold legacyRanges
  rw [hlast]
  refine ⟨_, rfl, ?_, ?_, ?_⟩
  · rw [List.length_append, hbody]; simp; omega
  · intro i hi
    have : (ts.zip (ts.drop 1))[i]? = some (ts[i], ts[i + 1]) := by
      rw [List.getElem?_zip_eq_some]
      refine ⟨List.getElem?_eq_getElem _, ?_⟩
      rw [List.getElem?_drop, List.getElem?_eq_getElem (by omega)]
      congr 2; omega
    rw [List.getElem?_append_left (by rw [hbody]; omega), List.getElem?_map, this,
      List.getElem?_eq_getElem (by omega : i < ts.length),
      List.getElem?_eq_getElem (by omega : i + 1 < ts.length)]
    rfl
  · rw [List.getElem?_append_right (Nat.le_of_eq hbody), hbody]
    simp only [Nat.sub_self, List.getElem?_cons_zero, Option.map_some, Option.some.injEq, Prod.mk.injEq,
      true_and]
    by_cases h2 : 2 ≤ ts.length
    · rw [if_pos h2]
      rw [List.getElem?_eq_getElem (by omega : ts.length - 2 < ts.length)]
      simp [h2]
    · rw [if_neg h2]
      have : ts.length - 2 = 0 := by omega
      rw [this]
      cases ts[0]? <;> simp [h2]

example : legacyRanges [(10, 18), (20, 28), (35, 43)] = some [(10, 20), (20, 35), (35, 50)] := by decide
example : legacyRanges [(10, 18)] = some [(10, 18)] := by decide

/-! ## Export writes exactly the selection -/

/-- Frame selection.  For a modern file and every positive step (nested to any depth: the hypotheses are
    re-established for the result): when `stack[a:b:c]` is a stack, exporting it writes exactly the pages
    `pages[a:b:c]` of what exporting `stack` writes — pixels, DateTime tags and exposures — and that list is not
    empty; the code raises exactly when that selection is empty. -/
theorem export_selection_frames {α} (s : Stack) (f : File α) (hst : 0 < s.st) (hleg : f.legacy = false)
    (hin : s.inFile f.pages.length = true) (a b c : Option Int) (hc : 0 < c.getD 1) :
    match s.sliceFrames a b c with
    | .ok s' => ∃ out, exportPages s f = .ok out ∧
        exportPages s' f = .ok (pySliceStep out a b (c.getD 1).toNat) ∧
        pySliceStep out a b (c.getD 1).toNat ≠ [] ∧ 0 < s'.st ∧ s'.inFile f.pages.length = true
    | .error e => e = .empty ∧
        ∀ out, exportPages s f = .ok out → pySliceStep out a b (c.getD 1).toNat = [] := by
  have h := slice_refines s hst a b c hc
  have hvis : ∀ t : Stack, (t.visible f).map (outOf s.roi) =
      t.frames.map (fun p => outOf s.roi (f.pages.getD p.toNat Page.blank)) := by
    intro t; unfold Stack.visible; rw [List.map_map]; rfl
  cases hs : s.sliceFrames a b c with
  | ok s' =>
    rw [hs] at h
    simp only at h ⊢
    obtain ⟨hfr, hne, hst', hroi⟩ := h
    have hsne : s.frames ≠ [] := by
      intro h0; rw [h0, pySliceStep_nil] at hfr; exact hne hfr
    have hin' : s'.inFile f.pages.length = true := by
      unfold Stack.inFile at hin ⊢
      rw [List.all_eq_true] at hin ⊢
      intro p hp
      rw [hfr] at hp
      exact hin p (mem_of_mem_pySliceStep hp)
    refine ⟨_, exportPages_modern s f hleg hin hsne, ?_, ?_, hst', hin'⟩
    · rw [exportPages_modern s' f hleg hin' hne, hroi, hvis s', hvis s, hfr, pySliceStep_map]
    · rw [hvis s, pySliceStep_map, ← hfr]
      intro h0
      exact hne (List.map_eq_nil_iff.mp h0)
  | error e =>
    rw [hs] at h
    simp only at h ⊢
    refine ⟨h.1, ?_⟩
    intro out hout
    by_cases hsne : s.frames = []
    · exfalso
      unfold exportPages Stack.ranges Stack.visible at hout
      rw [hin, hleg, hsne] at hout
      simp at hout
    · rw [exportPages_modern s f hleg hin hsne] at hout
      cases hout
      rw [hvis s, pySliceStep_map, h.2]; rfl

/-- Non-vacuity: `stack[1::2]` of four pages of 2×3 pixels. -/
example :
    let f : File Int := ⟨[⟨10, 18, 15, [[0, 1, 2], [3, 4, 5]]⟩, ⟨20, 28, 25, [[6, 7, 8], [9, 10, 11]]⟩,
      ⟨30, 38, 35, [[12, 13, 14], [15, 16, 17]]⟩, ⟨40, 48, 45, [[18, 19, 20], [21, 22, 23]]⟩], false⟩
    ((Stack.sliceFrames ⟨0, 4, 1, ⟨0, 3, 0, 2⟩⟩ (some 1) none (some 2)).toOption.map fun s' => exportPages s' f)
      = some (.ok [⟨20, 28, 5, [[6, 7, 8], [9, 10, 11]]⟩, ⟨40, 48, 5, [[18, 19, 20], [21, 22, 23]]⟩]) := by
  decide

/-- Integer frame index: `stack[i]` exports exactly the page `pages[i]` of what `stack` exports (negative `i` from
    the end), and raises `IndexError` exactly when Python's `pages[i]` does. -/
theorem export_selection_index {α} (s : Stack) (f : File α) (hst : 0 < s.st) (hleg : f.legacy = false)
    (hin : s.inFile f.pages.length = true) (i : Int) :
    match s.index i with
    | .ok s' => ∃ out o, exportPages s f = .ok out ∧ pyIndex out i = some o ∧ exportPages s' f = .ok [o]
    | .error e => e = .index ∧ ∀ out, exportPages s f = .ok out → pyIndex out i = none := by
  have h := index_refines s hst i
  have hvis : ∀ t : Stack, (t.visible f).map (outOf s.roi) =
      t.frames.map (fun p => outOf s.roi (f.pages.getD p.toNat Page.blank)) := by
    intro t; unfold Stack.visible; rw [List.map_map]; rfl
  cases hs : s.index i with
  | ok s' =>
    rw [hs] at h
    cases hp : pyIndex s.frames i with
    | none => rw [hp] at h; exact absurd h id
    | some p =>
      rw [hp] at h
      simp only at h ⊢
      obtain ⟨hfr, _, hroi⟩ := h
      have hsne : s.frames ≠ [] := by
        intro h0; rw [h0] at hp; unfold pyIndex at hp; simp at hp
      have hmem : p ∈ s.frames := by
        unfold pyIndex at hp
        split_ifs at hp
        · exact List.mem_of_getElem? hp
        · exact List.mem_of_getElem? hp
      have hin' : s'.inFile f.pages.length = true := by
        unfold Stack.inFile at hin ⊢
        rw [List.all_eq_true] at hin ⊢
        intro q hq
        rw [hfr, List.mem_singleton] at hq
        subst hq
        exact hin _ hmem
      refine ⟨_, outOf s.roi (f.pages.getD p.toNat Page.blank), exportPages_modern s f hleg hin hsne, ?_, ?_⟩
      · rw [hvis s, pyIndex_map, hp]; rfl
      · rw [exportPages_modern s' f hleg hin' (by rw [hfr]; simp), hroi, hvis s', hfr]; rfl
  | error e =>
    rw [hs] at h
    cases hp : pyIndex s.frames i with
    | some p => rw [hp] at h; exact absurd h id
    | none =>
      rw [hp] at h
      simp only at h ⊢
      refine ⟨h, ?_⟩
      intro out hout
      by_cases hsne : s.frames = []
      · exfalso
        unfold exportPages Stack.ranges Stack.visible at hout
        rw [hin, hleg, hsne] at hout
        simp at hout
      · rw [exportPages_modern s f hleg hin hsne] at hout
        cases hout
        rw [hvis s, pyIndex_map, hp]; rfl

example :
    let f : File Int := ⟨[⟨10, 18, 15, [[0]]⟩, ⟨20, 28, 25, [[1]]⟩, ⟨30, 38, 35, [[2]]⟩], false⟩
    ((Stack.index ⟨0, 3, 1, ⟨0, 1, 0, 1⟩⟩ (-1)).toOption.map fun s' => exportPages s' f)
      = some (.ok [⟨30, 38, 5, [[2]]⟩]) := by decide

/-- The same page with its pixels cropped by NumPy slicing. -/
def cropOut {α} (x0 x1 y0 y1 : Option Int) (o : OutPage α) : OutPage α :=
  { o with img := pySlice2 o.img x0 x1 y0 y1 }

/-- ROI selection (also for legacy files, also after any frame selection).  When
    `stack.crop_by_pixels(x0, x1, y0, y1)` (equally `stack[:, y0:y1, x0:x1]`) is a stack, exporting it writes the
    pages of `stack` with every image replaced by its NumPy slice `img[y0:y1, x0:x1]` — `None`, negative and
    out-of-range bounds included — tags and exposures untouched, the same frames; the code raises (`ValueError`)
    exactly when that slice has no pixels. -/
theorem export_selection_roi {α} (s : Stack) (f : File α) (H W : Nat) (hf : f.Shaped H W)
    (hr : s.roi.Within H W) (x0 x1 y0 y1 : Option Int) :
    match s.cropPixels x0 x1 y0 y1 with
    | .ok s' => exportPages s' f = (exportPages s f).map (List.map (cropOut x0 x1 y0 y1)) ∧
        s'.roi.Within H W ∧ s'.frames = s.frames ∧ s'.st = s.st
    | .error e => e = .value ∧
        ∀ out, exportPages s f = .ok out → ∀ o ∈ out, (pySlice2 o.img x0 x1 y0 y1).flatten = [] := by
  cases hc : s.roi.crop x0 x1 y0 y1 with
  | ok r' =>
    have hcp : s.cropPixels x0 x1 y0 y1 = .ok { s with roi := r' } := by
      unfold Stack.cropPixels; rw [hc]; rfl
    rw [hcp]
    have hpage : ∀ p ∈ f.pages, r'.apply p.img = pySlice2 (s.roi.apply p.img) x0 x1 y0 y1 := by
      intro p hp
      have := roi_crop_refines p.img H W (hf p hp).1 (hf p hp).2 s.roi hr x0 x1 y0 y1
      rw [hc] at this
      exact this.1
    have hwithin : r'.Within H W := by
      have := roi_crop_refines (List.replicate H (List.replicate W ())) H W (by simp)
        (by intro row hrow; rw [List.mem_replicate] at hrow; rw [hrow.2]; simp) s.roi hr x0 x1 y0 y1
      rw [hc] at this
      exact this.2
    exact ⟨exportPages_roi_change s r' f (fun i => pySlice2 i x0 x1 y0 y1) hpage, hwithin, rfl, rfl⟩
  | error e =>
    have hcp : s.cropPixels x0 x1 y0 y1 = .error e := by
      unfold Stack.cropPixels; rw [hc]; rfl
    rw [hcp]
    refine ⟨crop_error_value _ _ _ _ _ _ hc, ?_⟩
    intro out hout o ho
    obtain ⟨p, hp, hpe⟩ := export_img_source s f out hout o ho
    have := roi_crop_refines p.img H W (hf p hp).1 (hf p hp).2 s.roi hr x0 x1 y0 y1
    rw [hc] at this
    rw [hpe]
    exact this.2

/-- Non-vacuity: negative and open bounds on a stepped stack. -/
example :
    let f : File Int := ⟨[⟨10, 18, 15, [[0, 1, 2], [3, 4, 5]]⟩, ⟨20, 28, 25, [[6, 7, 8], [9, 10, 11]]⟩], false⟩
    ((Stack.cropPixels ⟨0, 2, 1, ⟨0, 3, 0, 2⟩⟩ (some (-2)) none (some 1) none).toOption.map fun s' => exportPages s' f)
      = some (.ok [⟨10, 18, 5, [[4, 5]]⟩, ⟨20, 28, 5, [[10, 11]]⟩]) := by
  decide
example : File.Shaped (⟨[⟨10, 18, 15, [[0, 1, 2], [3, 4, 5]]⟩], false⟩ : File Int) 2 3 := by
  intro p hp; simp at hp; subst hp; simp

/-! ## Exporting what was read writes the same file again -/

/-- All exported images have `H` rows of `W` pixels. -/
def Uniform {α} (out : List (OutPage α)) (H W : Nat) : Prop :=
  ∀ o ∈ out, o.img.length = H ∧ ∀ row ∈ o.img, row.length = W

/-- What an export writes has the shape of the ROI on every page. -/
theorem export_uniform {α} (s : Stack) (f : File α) (H W : Nat) (hf : f.Shaped H W) (hr : s.roi.Within H W)
    (out : List (OutPage α)) (h : exportPages s f = .ok out) :
    Uniform out s.roi.height.toNat s.roi.width.toNat ∧ out ≠ [] := by
  constructor
  · intro o ho
    obtain ⟨p, hp, hpe⟩ := export_img_source s f out h o ho
    obtain ⟨h1, h2⟩ := roi_apply_shape p.img H W (hf p hp).1 (hf p hp).2 s.roi hr
    rw [hpe]
    exact ⟨by omega, fun row hrow => by have := h2 row hrow; omega⟩
  · intro h0
    subst h0
    exact export_nonempty s f h

/-- Non-vacuity of the hypotheses of `export_uniform` / `reexport_after_export`. -/
example : Roi.Within ⟨1, 3, 0, 2⟩ 2 3 := by unfold Roi.Within; decide
example : exportPages ⟨0, 1, 1, ⟨1, 3, 0, 2⟩⟩ (⟨[⟨10, 18, 15, [[0, 1, 2], [3, 4, 5]]⟩], false⟩ : File Int)
    = .ok [⟨10, 18, 5, [[1, 2], [4, 5]]⟩] := by decide

/-- Fixed point.  Take any list of pages an export wrote (uniform shape): open it as a fresh `ImageStack`
    (all pages, step 1, ROI = the page size, exposure key present so never `legacy`) and export again — the same
    pages come out: same pixels, same DateTime tags, same exposures.  In particular the tags written for a legacy
    file (reconstructed frame ranges) and for a stepped / cropped selection are stable from then on. -/
theorem reexport_fixed_point {α} (out : List (OutPage α)) (H W : Nat) (hne : out ≠ []) (hu : Uniform out H W) :
    exportPages (Stack.ofFile (readBack out)) (readBack out) = .ok out := by
  cases out with
  | nil => exact absurd rfl hne
  | cons o0 os =>
    have hlen : (readBack (o0 :: os)).pages.length = (o0 :: os).length := by
      unfold readBack; simp
    have hstack : Stack.ofFile (readBack (o0 :: os)) =
        ⟨0, ((o0 :: os).length : Nat), 1, ⟨0, ((o0.img.head?.map List.length).getD 0 : Nat), 0, (o0.img.length : Nat)⟩⟩ := by
      unfold Stack.ofFile readBack
      simp
    rw [hstack]
    generalize hroi : (⟨0, ((o0.img.head?.map List.length).getD 0 : Nat), 0, (o0.img.length : Nat)⟩ : Roi) = roi
    have hfr := frames_full (o0 :: os).length roi
    have hin : Stack.inFile ⟨0, ((o0 :: os).length : Nat), 1, roi⟩ (readBack (o0 :: os)).pages.length = true := by
      unfold Stack.inFile
      rw [hfr, hlen, List.all_eq_true]
      intro p hp
      rw [List.mem_map] at hp
      obtain ⟨i, hi, rfl⟩ := hp
      rw [List.mem_range] at hi
      simp only [Bool.and_eq_true, decide_eq_true_eq]
      omega
    have hvis : Stack.visible ⟨0, ((o0 :: os).length : Nat), 1, roi⟩ (readBack (o0 :: os)) =
        (readBack (o0 :: os)).pages := by
      unfold Stack.visible
      rw [hfr, List.map_map, ← hlen]
      exact map_getD_range _ _
    rw [exportPages_modern _ _ rfl hin (by rw [hfr]; simp), hvis]
    congr 1
    unfold readBack
    rw [List.map_map]
    conv => rhs; rw [← List.map_id (o0 :: os)]
    apply List.map_congr_left
    intro o ho
    have h0 := hu o0 (List.mem_cons_self ..)
    have ho' := hu o ho
    have happly : roi.apply o.img = o.img := by
      rw [← hroi]
      unfold Roi.apply
      simp only
      rw [h0.1, ← ho'.1, pySlice_full]
      conv => rhs; rw [← List.map_id o.img]
      apply List.map_congr_left
      intro row hrow
      have hw : ((o0.img.head?.map List.length).getD 0 : Nat) = row.length := by
        cases hi : o0.img with
        | nil =>
          have : o.img.length = 0 := by rw [ho'.1, ← h0.1, hi]; rfl
          have : o.img = [] := List.eq_nil_of_length_eq_zero this
          rw [this] at hrow; cases hrow
        | cons r0 rs =>
          have : r0.length = W := h0.2 r0 (by rw [hi]; exact List.mem_cons_self ..)
          simp [this, ho'.2 row hrow]
      rw [hw, pySlice_full]; rfl
    simp only [Function.comp, outOf, happly, id]
    have : o.start + o.exposure - o.start = o.exposure := by omega
    rw [this]

/-- Non-vacuity (and the statement in one line): read back and export again. -/
example :
    let out : List (OutPage Int) := [⟨10, 20, 5, [[4, 5]]⟩, ⟨20, 35, 7, [[10, 11]]⟩]
    exportPages (Stack.ofFile (readBack out)) (readBack out) = .ok out := by decide

/-- Export, reopen, export again: the second file equals the first — for every selection (`s` is any state
    reached by slicing/cropping) of every well-shaped file, legacy or not. -/
theorem reexport_after_export {α} (s : Stack) (f : File α) (H W : Nat) (hf : f.Shaped H W)
    (hr : s.roi.Within H W) (out : List (OutPage α)) (h : exportPages s f = .ok out) :
    exportPages (Stack.ofFile (readBack out)) (readBack out) = .ok out := by
  obtain ⟨hu, hne⟩ := export_uniform s f H W hf hr out h
  exact reexport_fixed_point out _ _ hne hu

/-- Legacy files (DateTime = exposure, no exposure key): the DateTime tags written are the reconstructed frame
    ranges of the visible pages, the exposures are the old DateTime spans; after that (previous theorem) the file
    is modern and stable. -/
theorem export_legacy_tags {α} (s : Stack) (f : File α) (hleg : f.legacy = true)
    (out : List (OutPage α)) (h : exportPages s f = .ok out) :
    legacyRanges ((s.visible f).map fun p => (p.start, p.stop)) = some (out.map fun o => (o.start, o.stop)) ∧
      out.map (·.exposure) = (s.visible f).map (fun p => p.expStop - p.start) ∧
      out.map (·.img) = (s.visible f).map (fun p => s.roi.apply p.img) := by
  unfold exportPages Stack.ranges at h
  rw [hleg] at h
  simp only [if_true] at h
  by_cases hin : s.inFile f.pages.length = true
  · rw [hin] at h
    simp only [Bool.not_true, Bool.false_eq_true, if_false] at h
    obtain ⟨r, hr, hlen, _, _⟩ : ∃ r, legacyRanges ((s.visible f).map fun p => (p.start, p.stop)) = some r ∧
        r.length = ((s.visible f).map fun p => (p.start, p.stop)).length ∧ True ∧ True := by
      cases hl : legacyRanges ((s.visible f).map fun p => (p.start, p.stop)) with
      | none => rw [hl] at h; cases h
      | some r =>
        by_cases hne : ((s.visible f).map fun p => (p.start, p.stop)) = []
        · rw [hne] at hl; cases hl
        · obtain ⟨r', hr', hlen', _⟩ := legacy_frame_ranges _ hne
          rw [hl] at hr'
          cases hr'
          exact ⟨r, rfl, hlen', trivial, trivial⟩
    rw [hr] at h
    simp only at h
    by_cases h0 : r.length = 0
    · rw [if_pos h0] at h; cases h
    · rw [if_neg h0] at h
      cases h
      obtain ⟨i1, i2, i3⟩ := zipPages_img ((s.visible f).map fun p => s.roi.apply p.img) r
        (((s.visible f).map fun p => (p.start, p.expStop)).map fun r => r.2 - r.1)
        (by simp at hlen ⊢; omega) (by simp)
      refine ⟨by rw [hr, i2], ?_, i1⟩
      rw [i3, List.map_map]; rfl
  · have hfalse : s.inFile f.pages.length = false := by simpa using hin
    rw [hfalse] at h
    simp at h

example :
    let f : File Int := ⟨[⟨10, 18, 18, [[0]]⟩, ⟨20, 28, 28, [[1]]⟩, ⟨35, 43, 43, [[2]]⟩], true⟩
    exportPages ⟨0, 3, 1, ⟨0, 1, 0, 1⟩⟩ f = .ok [⟨10, 20, 8, [[0]]⟩, ⟨20, 35, 8, [[1]]⟩, ⟨35, 50, 8, [[2]]⟩] := by
  decide

/-- Legacy or not: the pages a frame slice looks at are exactly `pages[a:b:c]` of the pages the stack looks at (so
    for a legacy file `export_legacy_tags` describes the export of the selection: the frame ranges are
    reconstructed from the selected pages' own start times). -/
theorem visible_selection {α} (s : Stack) (f : File α) (hst : 0 < s.st) (a b c : Option Int) (hc : 0 < c.getD 1)
    (s' : Stack) (h : s.sliceFrames a b c = .ok s') :
    s'.visible f = pySliceStep (s.visible f) a b (c.getD 1).toNat ∧ s'.roi = s.roi ∧ 0 < s'.st := by
  have h0 := slice_refines s hst a b c hc
  rw [h] at h0
  simp only at h0
  obtain ⟨hfr, _, hst', hroi⟩ := h0
  refine ⟨?_, hroi, hst'⟩
  unfold Stack.visible
  rw [hfr, pySliceStep_map]

example :
    let f : File Int := ⟨[⟨10, 18, 18, [[0]]⟩, ⟨20, 28, 28, [[1]]⟩, ⟨35, 43, 43, [[2]]⟩, ⟨45, 53, 53, [[3]]⟩], true⟩
    ((Stack.sliceFrames ⟨0, 4, 1, ⟨0, 1, 0, 1⟩⟩ none none (some 2)).toOption.map fun s' => exportPages s' f)
      = some (.ok [⟨10, 35, 8, [[0]]⟩, ⟨35, 60, 8, [[2]]⟩]) := by decide

/-! ## The exposure survives the float64 `"Exposure time (ms)"` key -/

/-- `export_tiff` writes `(stop − start) · 1e-6` as a double, the reader takes `int(np.round(1e6 · x))`: for every
    exposure up to `10^15` ns (11.5 days; negative ones too) the reader gets back exactly the exported number of
    nanoseconds — three double roundings (the literal `1e-6`, two products) cannot move the value by half a ns. -/
theorem exposure_roundtrip (e : Int) (h : e.natAbs ≤ 10 ^ 15) : exposureNs (exposureMs e) = e :=
  exposure_roundtrip_core e h

example : (12800000 : Int).natAbs ≤ 10 ^ 15 := by decide
example : exposureNs (exposureMs 12800000) = 12800000 := by decide +kernel

/-- A bound is necessary (kernel-checked witness, a TEST of one input): at 2.25·10^15 ns the key loses a nanosecond. -/
theorem exposure_bound_needed : exposureNs (exposureMs 2252445244112521) ≠ 2252445244112521 := by decide +kernel

/-- The number written behind `"Exposure time (ms)"` is the exposure in ms to a relative `2^-51`, for every exposure
    that is a double (`< 2^53` ns). -/
theorem exposure_ms_close (e : Int) (h : e.natAbs < 2 ^ 53) :
    |exposureMs e * 1000000 - e| ≤ |(e : Rat)| * (1 / 2251799813685248) :=
  exposure_ms_close_core e h

example : (9007199254740991 : Int).natAbs < 2 ^ 53 := by decide

/-- `exposure_times` of `export_tiff`: one value per range, and reading each back gives `stop − start`. -/
theorem exposure_times_roundtrip (ranges : List (Int × Int)) (h : ∀ r ∈ ranges, (r.2 - r.1).natAbs ≤ 10 ^ 15) :
    (exposureTimesMs ranges).length = ranges.length ∧
      (exposureTimesMs ranges).map exposureNs = ranges.map fun r => r.2 - r.1 := by
  unfold exposureTimesMs
  refine ⟨List.length_map _, ?_⟩
  rw [List.map_map]
  apply List.map_congr_left
  intro r hr
  exact exposure_roundtrip _ (h r hr)

example : ∀ r ∈ [((10 : Int), (15 : Int)), (20, 27)], (r.2 - r.1).natAbs ≤ 10 ^ 15 := by decide

/-- Fixed point THROUGH the float key: what the reader reconstructs from the written doubles (`readBackF`) is
    exported again as the same pages — pixels, DateTime tags, exposures — when every exposure is at most `10^15` ns. -/
theorem reexport_fixed_point_float {α} (out : List (OutPage α)) (H W : Nat) (hne : out ≠ []) (hu : Uniform out H W)
    (hexp : ∀ o ∈ out, o.exposure.natAbs ≤ 10 ^ 15) :
    exportPages (Stack.ofFile (readBackF out)) (readBackF out) = .ok out := by
  rw [readBackF_eq out hexp]
  exact reexport_fixed_point out H W hne hu

example :
    let out : List (OutPage Int) := [⟨10, 20, 5, [[4, 5]]⟩, ⟨20, 35, 7, [[10, 11]]⟩]
    exportPages (Stack.ofFile (readBackF out)) (readBackF out) = .ok out := by decide +kernel

/-- Export, reopen through the float key, export again: the second file equals the first. -/
theorem reexport_after_export_float {α} (s : Stack) (f : File α) (H W : Nat) (hf : f.Shaped H W)
    (hr : s.roi.Within H W) (out : List (OutPage α)) (h : exportPages s f = .ok out)
    (hexp : ∀ o ∈ out, o.exposure.natAbs ≤ 10 ^ 15) :
    exportPages (Stack.ofFile (readBackF out)) (readBackF out) = .ok out := by
  obtain ⟨hu, hne⟩ := export_uniform s f H W hf hr out h
  exact reexport_fixed_point_float out _ _ hne hu hexp

/-! ## Tuple index, and whole selection programs -/

/-- `stack[f, rows, cols]` is `stack.crop_by_pixels(cols…, rows…)[f]` — refusals included (the crop is tried first);
    an integer item `k` of the tuple selects `k : k+1`, a stepped slice is refused. -/
theorem tuple_index_is_crop_then_frames (s : Stack) (f rows cols : Item) (x0 x1 y0 y1 : Option Int)
    (hr : interpretCrop rows = .ok (y0, y1)) (hc : interpretCrop cols = .ok (x0, x1)) :
    s.getitemTuple [f, rows, cols] = (s.cropPixels x0 x1 y0 y1).bind fun s' => s'.frameItem f :=
  tuple_index_eq s f rows cols x0 x1 y0 y1 hr hc

example : interpretCrop (.slice (some 1) none none) = .ok (some 1, none) ∧ interpretCrop (.int 2) = .ok (some 2, some 3) := by
  decide

/-- Hence `stack[a:b:c, y0:y1, x0:x1]` exports the pages `[a:b:c]` of what `stack` exports, every image cropped to
    `img[y0:y1, x0:x1]`, and the result again satisfies the hypotheses. -/
theorem export_selection_tuple {α} (s : Stack) (f : File α) (H W : Nat) (hi : s.Inv f H W) (hleg : f.legacy = false)
    (hf : f.Shaped H W) (a b c : Option Int) (rows cols : Item) (x0 x1 y0 y1 : Option Int)
    (hr : interpretCrop rows = .ok (y0, y1)) (hc : interpretCrop cols = .ok (x0, x1)) (s'' : Stack)
    (h : s.getitemTuple [.slice a b c, rows, cols] = .ok s'') :
    ∃ out, exportPages s f = .ok out ∧
      exportPages s'' f = .ok (pySliceStep (out.map (cropOut x0 x1 y0 y1)) a b (c.getD 1).toNat) ∧
      s''.Inv f H W := by
  have hinv := getitemTuple_inv s f H W hi _ s'' h
  rw [tuple_index_eq s _ rows cols x0 x1 y0 y1 hr hc] at h
  cases hcp : s.cropPixels x0 x1 y0 y1 with
  | error e => rw [hcp] at h; cases h
  | ok s' =>
    rw [hcp] at h
    have hsl : s'.sliceFrames a b c = .ok s'' := h
    have hroi := export_selection_roi s f H W hf hi.2.2 x0 x1 y0 y1
    rw [hcp] at hroi
    simp only at hroi
    obtain ⟨hexp, _, hfr, hst⟩ := hroi
    have hi' := cropPixels_inv s f H W hi x0 x1 y0 y1 s' hcp
    have hcpos := sliceFrames_ok_step s' hi'.1 a b c s'' hsl
    have hframes := export_selection_frames s' f hi'.1 hleg hi'.2.1 a b c hcpos
    rw [hsl] at hframes
    simp only at hframes
    obtain ⟨out', ho', hs'', _⟩ := hframes
    rw [ho'] at hexp
    cases hs : exportPages s f with
    | error e => rw [hs] at hexp; cases hexp
    | ok out =>
      rw [hs] at hexp
      have : out' = out.map (cropOut x0 x1 y0 y1) := by
        simpa [Except.map] using hexp
      exact ⟨out, rfl, by rw [hs'', this], hinv⟩

/-- The selection a program of public steps describes, on the exported pages (Python / NumPy slicing). -/
def specOp {α} (out : List (OutPage α)) : Op → Option (List (OutPage α))
  | .slice a b c => some (pySliceStep out a b (c.getD 1).toNat)
  | .index i => (pyIndex out i).map fun o => [o]
  | .crop x0 x1 y0 y1 => some (out.map (cropOut x0 x1 y0 y1))
  | _ => none

def specRun {α} : List (OutPage α) → List Op → Option (List (OutPage α))
  | out, [] => some out
  | out, op :: rest => (specOp out op).bind fun o => specRun o rest

def Op.isBasic : Op → Bool
  | .slice .. => true
  | .index .. => true
  | .crop .. => true
  | _ => false

/-- Composition at any depth: when a chain of frame slices, integer indices and pixel crops is accepted, exporting
    the result writes exactly what the same chain of Python / NumPy selections makes of the pages the original stack
    exports (modern files). -/
theorem export_program_selection {α} (f : File α) (H W : Nat) (hleg : f.legacy = false) (hf : f.Shaped H W)
    (ops : List Op) : ∀ (s : Stack), s.Inv f H W → (∀ op ∈ ops, op.isBasic = true) →
      ∀ out, exportPages s f = .ok out → ∀ s', s.run ops = .ok s' →
        ∃ out', specRun out ops = some out' ∧ exportPages s' f = .ok out' := by
  induction ops with
  | nil =>
    intro s _ _ out hout s' h
    unfold Stack.run at h
    cases h
    exact ⟨out, rfl, hout⟩
  | cons op rest ih =>
    intro s hi hb out hout s' h
    unfold Stack.run at h
    cases ha : s.applyOp op with
    | error e => rw [ha] at h; cases h
    | ok s1 =>
      rw [ha] at h
      have hb1 := hb op (List.mem_cons_self ..)
      have hi1 : s1.Inv f H W := applyOp_inv s f H W hi op (by cases op <;> first | rfl | cases hb1) s1 ha
      have hrest := fun o ho => hb o (List.mem_cons_of_mem _ ho)
      have step : ∃ out1, specOp out op = some out1 ∧ exportPages s1 f = .ok out1 := by
        cases op with
        | slice a b c =>
          have hsl : s.sliceFrames a b c = .ok s1 := ha
          have hc := sliceFrames_ok_step s hi.1 a b c s1 hsl
          have h0 := export_selection_frames s f hi.1 hleg hi.2.1 a b c hc
          rw [hsl] at h0
          simp only at h0
          obtain ⟨out0, ho0, hs1, _⟩ := h0
          rw [hout] at ho0
          cases ho0
          exact ⟨_, rfl, hs1⟩
        | index i =>
          have hix : s.index i = .ok s1 := ha
          have h0 := export_selection_index s f hi.1 hleg hi.2.1 i
          rw [hix] at h0
          simp only at h0
          obtain ⟨out0, o, ho0, hpi, hs1⟩ := h0
          rw [hout] at ho0
          cases ho0
          exact ⟨[o], by simp [specOp, hpi], hs1⟩
        | crop x0 x1 y0 y1 =>
          have hcp : s.cropPixels x0 x1 y0 y1 = .ok s1 := ha
          have h0 := export_selection_roi s f H W hf hi.2.2 x0 x1 y0 y1
          rw [hcp] at h0
          simp only at h0
          refine ⟨_, rfl, ?_⟩
          rw [h0.1, hout]
          rfl
        | tuple items => cases hb1
        | dataset a b c => cases hb1
      obtain ⟨out1, hspec, hexp1⟩ := step
      obtain ⟨out', hs', he'⟩ := ih s1 hi1 hrest out1 hexp1 s' h
      exact ⟨out', by unfold specRun; rw [hspec]; exact hs', he'⟩

/-- The hypotheses of the selection and re-export theorems are ESTABLISHED by the code: opening a well-shaped,
    non-empty file and running ANY accepted chain of public selections (slices, indices, crops, tuple indices, to any
    depth) yields a stack with a positive step, inside the file, with a non-empty ROI inside the image. -/
theorem program_establishes_hypotheses {α} (f : File α) (H W : Nat) (hf : f.Shaped H W) (hne : f.pages ≠ [])
    (hH : 0 < H) (hW : 0 < W) (ops : List Op) (hp : ∀ op ∈ ops, op.isPublic = true) (s : Stack)
    (h : (Stack.ofFile f).run ops = .ok s) :
    0 < s.st ∧ s.inFile f.pages.length = true ∧ s.roi.Within H W :=
  run_inv f H W ops _ (ofFile_inv f H W hf hne hH hW) hp s h

/-- Export → reopen (through the float exposure key) → export is the identity on the written pages, for every
    accepted chain of public selections on every well-shaped file, legacy or not, with exposures up to `10^15` ns —
    no hypothesis on the state any more. -/
theorem program_reexport {α} (f : File α) (H W : Nat) (hf : f.Shaped H W) (hne : f.pages ≠ [])
    (hH : 0 < H) (hW : 0 < W) (ops : List Op) (hp : ∀ op ∈ ops, op.isPublic = true) (s : Stack)
    (h : (Stack.ofFile f).run ops = .ok s) (out : List (OutPage α)) (hout : exportPages s f = .ok out)
    (hexp : ∀ o ∈ out, o.exposure.natAbs ≤ 10 ^ 15) :
    exportPages (Stack.ofFile (readBackF out)) (readBackF out) = .ok out :=
  reexport_after_export_float s f H W hf (program_establishes_hypotheses f H W hf hne hH hW ops hp s h).2.2 out hout hexp


/-- Non-vacuity: a 4-page file of 2×3 pixels, `stack[1::2]`, then `[:, 1:, -2:]` as a tuple, then `[-1]`. -/
def demoFile : File Int := ⟨[⟨10, 18, 15, [[0, 1, 2], [3, 4, 5]]⟩, ⟨20, 28, 25, [[6, 7, 8], [9, 10, 11]]⟩,
  ⟨30, 38, 35, [[12, 13, 14], [15, 16, 17]]⟩, ⟨40, 48, 45, [[18, 19, 20], [21, 22, 23]]⟩], false⟩

example : demoFile.Shaped 2 3 := by
  intro p hp
  simp [demoFile] at hp
  rcases hp with rfl | rfl | rfl | rfl <;> simp

example : (Stack.ofFile demoFile).run [.slice (some 1) none (some 2), .tuple [.slice none none none, .slice (some 1) none none,
    .slice (some (-2)) none none], .index (-1)] = .ok ⟨3, 5, 2, ⟨1, 3, 1, 2⟩⟩ := by decide

example : exportPages ⟨3, 5, 2, ⟨1, 3, 1, 2⟩⟩ demoFile = .ok [⟨40, 48, 5, [[22, 23]]⟩] := by decide

example : (Stack.ofFile demoFile).getitemTuple [.slice (some 1) none (some 2), .slice (some 1) none none, .int 0]
    = .ok ⟨1, 4, 2, ⟨0, 1, 1, 2⟩⟩ := by decide

example :
    let ops : List Op := [.slice (some 1) none (some 2), .crop (some (-2)) none (some 1) none, .index (-1)]
    (∀ op ∈ ops, op.isBasic = true) ∧
    ((exportPages (Stack.ofFile demoFile) demoFile).toOption.bind fun out => specRun out ops)
      = some [⟨40, 48, 5, [[22, 23]]⟩] ∧
    (((Stack.ofFile demoFile).run ops).toOption.bind fun s' => (exportPages s' demoFile).toOption)
      = some [⟨40, 48, 5, [[22, 23]]⟩] := by
  decide +kernel

/-! ## Legacy files under selection programs -/

/-- The pages a program of basic steps selects (Python slicing of the page list; a crop keeps the pages). -/
def specVis {α} (v : List (Page α)) : Op → Option (List (Page α))
  | .slice a b c => some (pySliceStep v a b (c.getD 1).toNat)
  | .index i => (pyIndex v i).map fun p => [p]
  | .crop .. => some v
  | _ => none

def specRunVis {α} : List (Page α) → List Op → Option (List (Page α))
  | v, [] => some v
  | v, op :: rest => (specVis v op).bind fun o => specRunVis o rest

/-- Legacy or not: after any accepted chain of slices, indices and crops the stack looks at exactly the pages the
    same chain of Python selections picks from the pages it looked at before. -/
theorem program_visible {α} (f : File α) (ops : List Op) : ∀ (s : Stack), 0 < s.st →
    (∀ op ∈ ops, op.isBasic = true) → ∀ s', s.run ops = .ok s' →
      ∃ v, specRunVis (s.visible f) ops = some v ∧ s'.visible f = v ∧ 0 < s'.st := by
  induction ops with
  | nil =>
    intro s hst _ s' h
    unfold Stack.run at h
    cases h
    exact ⟨_, rfl, rfl, hst⟩
  | cons op rest ih =>
    intro s hst hb s' h
    unfold Stack.run at h
    cases ha : s.applyOp op with
    | error e => rw [ha] at h; cases h
    | ok s1 =>
      rw [ha] at h
      have hb1 := hb op (List.mem_cons_self ..)
      have hrest := fun o ho => hb o (List.mem_cons_of_mem _ ho)
      have step : ∃ v1, specVis (s.visible f) op = some v1 ∧ s1.visible f = v1 ∧ 0 < s1.st := by
        cases op with
        | slice a b c =>
          have hsl : s.sliceFrames a b c = .ok s1 := ha
          have hc := sliceFrames_ok_step s hst a b c s1 hsl
          obtain ⟨hv, _, hst1⟩ := visible_selection s f hst a b c hc s1 hsl
          exact ⟨_, rfl, hv, hst1⟩
        | index i =>
          have hix : s.index i = .ok s1 := ha
          have h0 := index_refines s hst i
          rw [hix] at h0
          cases hp : pyIndex s.frames i with
          | none => rw [hp] at h0; exact absurd h0 id
          | some p =>
            rw [hp] at h0
            simp only at h0
            obtain ⟨hfr, hst', _⟩ := h0
            refine ⟨[f.pages.getD p.toNat Page.blank], ?_, ?_, by rw [hst']; exact hst⟩
            · show (pyIndex (s.visible f) i).map (fun p => [p]) = _
              unfold Stack.visible
              rw [pyIndex_map, hp]; rfl
            · unfold Stack.visible; rw [hfr]; rfl
        | crop x0 x1 y0 y1 =>
          have hcp : s.cropPixels x0 x1 y0 y1 = .ok s1 := ha
          unfold Stack.cropPixels at hcp
          cases hc : s.roi.crop x0 x1 y0 y1 with
          | error e => rw [hc] at hcp; cases hcp
          | ok r =>
            rw [hc] at hcp
            cases hcp
            exact ⟨_, rfl, rfl, hst⟩
        | tuple items => cases hb1
        | dataset a b c => cases hb1
      obtain ⟨v1, hspec, hv1, hst1⟩ := step
      obtain ⟨v, hs', hv, hst'⟩ := ih s1 hst1 hrest s' h
      refine ⟨v, ?_, hv, hst'⟩
      unfold specRunVis
      rw [hspec, ← hv1]
      exact hs'

/-- Hence for a legacy file: whatever chain of selections was applied, the DateTime tags of the export are the frame
    ranges reconstructed (own start to next start) from the SELECTED pages, the exposures are their old DateTime spans. -/
theorem legacy_program_tags {α} (f : File α) (hleg : f.legacy = true) (ops : List Op)
    (hb : ∀ op ∈ ops, op.isBasic = true) (s s' : Stack) (hst : 0 < s.st) (h : s.run ops = .ok s')
    (out : List (OutPage α)) (hout : exportPages s' f = .ok out) :
    ∃ v, specRunVis (s.visible f) ops = some v ∧
      legacyRanges (v.map fun p => (p.start, p.stop)) = some (out.map fun o => (o.start, o.stop)) ∧
      out.map (·.exposure) = v.map (fun p => p.expStop - p.start) := by
  obtain ⟨v, hv, hvis, _⟩ := program_visible f ops s hst hb s' h
  obtain ⟨h1, h2, _⟩ := export_legacy_tags s' f hleg out hout
  rw [hvis] at h1 h2
  exact ⟨v, hv, h1, h2⟩

example :
    let f : File Int := ⟨[⟨10, 18, 18, [[0]]⟩, ⟨20, 28, 28, [[1]]⟩, ⟨35, 43, 43, [[2]]⟩, ⟨45, 53, 53, [[3]]⟩, ⟨60, 68, 68, [[4]]⟩], true⟩
    let ops : List Op := [.slice none none (some 2), .slice (some 1) none none]
    (((Stack.ofFile f).run ops).toOption.bind fun s' => (exportPages s' f).toOption)
      = some [⟨35, 60, 8, [[2]]⟩, ⟨60, 85, 8, [[4]]⟩] := by decide +kernel

/-! ## A kymograph is exported as one frame from its first line to its last -/

/-- `Kymo._tiff_timestamp_ranges` (with and without dead time): the frame written is `(min, max)` over ALL starts and
    stops of the line ranges — both are endpoints of some line and bound every endpoint. -/
theorem kymo_frame_range (lines : List (Int × Int)) (hne : lines ≠ []) :
    ∃ lo hi, kymoRange lines = some (lo, hi) ∧ lo ∈ endpoints lines ∧ hi ∈ endpoints lines ∧
      ∀ v ∈ endpoints lines, lo ≤ v ∧ v ≤ hi :=
  kymoRange_spec lines hne

/-- For lines in time order with `start ≤ stop` (what `line_timestamp_ranges` returns) that frame is
    `(start of the first line, stop of the last line)`; the min / max over everything is only a detour. -/
theorem kymo_frame_range_ordered (l : List (Int × Int)) (hne : l ≠ []) (hwf : ∀ r ∈ l, r.1 ≤ r.2)
    (hs : l.Pairwise fun r s => r.1 ≤ s.1 ∧ r.2 ≤ s.2) :
    kymoRange l = some ((l.head hne).1, (l.getLast hne).2) :=
  kymoRange_ordered l hne hwf hs

example : kymoRange [(10, 18), (20, 28), (30, 38)] = some (10, 38) := by decide
example : (∀ r ∈ [((10 : Int), (18 : Int)), (20, 28), (30, 38)], r.1 ≤ r.2) ∧
    [((10 : Int), (18 : Int)), (20, 28), (30, 38)].Pairwise (fun r s => r.1 ≤ s.1 ∧ r.2 ≤ s.2) := by decide
/-- No lines: NumPy's `min` of an empty array raises (`ValueError`). -/
example : kymoRange [] = none := rfl

/-! ## `export_tiff` as a whole -/

/-- No timestamp ranges: `RuntimeError("Can't export TIFF if there are no images")`, before anything else is looked at. -/
theorem export_tiff_no_images (dtype : Option DType) (clip : Bool) (frames : List (List Rat)) (exp : List (Int × Int)) :
    exportTiff dtype clip frames [] exp = .error .runtime := rfl

/-- The refusal is global: with a dtype and without `clip`, ONE value that does not fit — in whichever frame — and
    no page at all is written. -/
theorem export_tiff_all_or_nothing (d : DType) (frames : List (List Rat)) (dead exp : List (Int × Int))
    (hd : dead ≠ []) (hne : frames.flatten ≠ []) (hbad : ¬ ∀ v ∈ frames.flatten, InRange d v) :
    exportTiff (some d) false frames dead exp = .error .runtime := by
  have h1 := castFrames_flatten d false frames
  rw [cast_refuses d frames.flatten hne hbad] at h1
  have h2 : castFrames d false frames = .error .runtime := by
    cases hc : castFrames d false frames with
    | error e => rw [hc] at h1; simp [Except.map] at h1; rw [h1]
    | ok fr => rw [hc] at h1; simp [Except.map] at h1
  unfold exportTiff framesWritten
  rw [if_neg (by intro h0; exact hd (List.eq_nil_of_length_eq_zero h0))]
  simp only [h2]

/-- One page per element of `zip(frames, ranges, exposure_times)`: the shortest of the three decides. -/
theorem export_tiff_page_count (dtype : Option DType) (clip : Bool) (frames : List (List Rat))
    (dead exp : List (Int × Int)) (pages : List TiffPage) (h : exportTiff dtype clip frames dead exp = .ok pages) :
    pages.length = min frames.length (min dead.length exp.length) := by
  obtain ⟨_, _, fr, hfr, rfl⟩ := exportTiff_ok dtype clip frames dead exp pages h
  have := framesWritten_length dtype clip frames fr hfr
  simp [exposureTimesMs, this]

/-- The round trip of one export at the level of the mixin: when the hooks return as many ranges as frames, every
    frame gets a page; reading the page's DateTime tag gives back its frame range (with dead time), reading its
    `"Exposure time (ms)"` gives back `stop − start` of its exposure range (without dead time), and its pixels are the
    cast of that frame — for all non-negative int64 timestamps and exposures up to `10^15` ns. -/
theorem export_tiff_roundtrip (dtype : Option DType) (clip : Bool) (frames : List (List Rat))
    (dead exp : List (Int × Int)) (pages : List TiffPage) (h : exportTiff dtype clip frames dead exp = .ok pages)
    (hl1 : frames.length = dead.length) (hl2 : exp.length = dead.length)
    (hd : ∀ r ∈ dead, 0 ≤ r.1 ∧ r.1 < 2 ^ 63 ∧ 0 ≤ r.2 ∧ r.2 < 2 ^ 63)
    (he : ∀ r ∈ exp, (r.2 - r.1).natAbs ≤ 10 ^ 15) :
    pages.map (fun p => decodeRange p.dt) = dead.map .ok ∧
      pages.map (fun p => exposureNs p.ms) = exp.map (fun r => r.2 - r.1) ∧
      framesWritten dtype clip frames = .ok (pages.map (·.img)) := by
  obtain ⟨_, _, fr, hfr, rfl⟩ := exportTiff_ok dtype clip frames dead exp pages h
  have hlen := framesWritten_length dtype clip frames fr hfr
  obtain ⟨hmslen, hms⟩ := exposure_times_roundtrip exp he
  have hz2 : (dead.zip (exposureTimesMs exp)).length = dead.length := by
    rw [List.length_zip, hmslen, hl2]; exact Nat.min_self _
  have p1 : (fr.zip (dead.zip (exposureTimesMs exp))).map Prod.snd = dead.zip (exposureTimesMs exp) :=
    List.map_snd_zip (by rw [hz2, hlen, hl1])
  have p0 : (fr.zip (dead.zip (exposureTimesMs exp))).map Prod.fst = fr :=
    List.map_fst_zip (by rw [hz2, hlen, hl1])
  have p2 : (dead.zip (exposureTimesMs exp)).map Prod.fst = dead :=
    List.map_fst_zip (by rw [hmslen, hl2])
  have p3 : (dead.zip (exposureTimesMs exp)).map Prod.snd = exposureTimesMs exp :=
    List.map_snd_zip (by rw [hmslen, hl2])
  refine ⟨?_, ?_, ?_⟩
  · rw [List.map_map]
    have : ∀ t ∈ fr.zip (dead.zip (exposureTimesMs exp)),
        ((fun p : TiffPage => decodeRange p.dt) ∘ fun t : List Rat × (Int × Int) × Rat =>
          (⟨encodeRange t.2.1.1 t.2.1.2, t.2.2, t.1⟩ : TiffPage)) t = (Except.ok ∘ Prod.fst ∘ Prod.snd) t := by
      intro t ht
      have hm : t.2.1 ∈ dead := by
        have h2 : t.2 ∈ dead.zip (exposureTimesMs exp) := (List.of_mem_zip (a := t.1) (b := t.2) ht).2
        exact (List.of_mem_zip (a := t.2.1) (b := t.2.2) h2).1
      obtain ⟨a0, a1, b0, b1⟩ := hd _ hm
      simp only [Function.comp]
      exact datetime_roundtrip _ _ a0 b0 a1 b1
    rw [List.map_congr_left this, ← List.map_map, ← List.map_map, p1, p2]
  · rw [List.map_map]
    have : ((fun p : TiffPage => exposureNs p.ms) ∘ fun t : List Rat × (Int × Int) × Rat =>
        (⟨encodeRange t.2.1.1 t.2.1.2, t.2.2, t.1⟩ : TiffPage)) = exposureNs ∘ Prod.snd ∘ Prod.snd := rfl
    rw [this, ← List.map_map, ← List.map_map, p1, p3, hms]
  · rw [List.map_map]
    have : ((fun p : TiffPage => p.img) ∘ fun t : List Rat × (Int × Int) × Rat =>
        (⟨encodeRange t.2.1.1 t.2.1.2, t.2.2, t.1⟩ : TiffPage)) = Prod.fst := rfl
    rw [this, p0, hfr]

/-- Non-vacuity / the statements on one input: two frames, the second holds 300. -/
example : exportTiff (some .u8) false [[1, 2], [3, 300]] [(10, 20), (20, 30)] [(10, 15), (20, 25)] = .error .runtime := by
  decide +kernel
example : (exportTiff (some .u8) true [[1, 2], [3, 300]] [(10, 20), (20, 30)] [(10, 15), (20, 27)]).toOption.map
    (fun pages => (pages.map (·.img), pages.map (fun p => decodeRange p.dt), pages.map (fun p => exposureNs p.ms)))
    = some ([[1, 2], [3, 255]], [.ok (10, 20), .ok (20, 30)], [5, 7]) := by decide +kernel
/-- `zip` stops at the shortest list: a third frame without a range is silently not written (the providers of pylake
    always return one range per frame; see `export_tiff_roundtrip` for that case). -/
example : (exportTiff none false [[1], [2], [3]] [(10, 20), (20, 30)] [(10, 15), (20, 25)]).toOption.map List.length
    = some 2 := by decide +kernel

/-- The pixels of all written pages, in order, are `cast_image` of all frames' values in order: the element-wise
    theorems (`cast_never_wraps`, `cast_f32_close`, …) hold for every page of an export. -/
theorem export_tiff_pixels (d : DType) (clip : Bool) (frames : List (List Rat)) (dead exp : List (Int × Int))
    (pages : List TiffPage) (h : exportTiff (some d) clip frames dead exp = .ok pages)
    (hl1 : frames.length = dead.length) (hl2 : exp.length = dead.length) :
    castImage d clip frames.flatten = .ok (pages.map (·.img)).flatten := by
  obtain ⟨_, _, fr, hfr, rfl⟩ := exportTiff_ok (some d) clip frames dead exp pages h
  have hlen := framesWritten_length (some d) clip frames fr hfr
  have hz2 : (dead.zip (exposureTimesMs exp)).length = dead.length := by
    rw [List.length_zip]; simp [exposureTimesMs, hl2]
  have p0 : (fr.zip (dead.zip (exposureTimesMs exp))).map Prod.fst = fr :=
    List.map_fst_zip (by rw [hz2, hlen, hl1])
  rw [List.map_map]
  have : ((fun p : TiffPage => p.img) ∘ fun t : List Rat × (Int × Int) × Rat =>
      (⟨encodeRange t.2.1.1 t.2.1.2, t.2.2, t.1⟩ : TiffPage)) = Prod.fst := rfl
  rw [this, p0, ← castFrames_flatten]
  have hc : castFrames d clip frames = .ok fr := hfr
  rw [hc]; rfl

/-! ## The stack export is the mixin export on the stack's hooks -/

/-- `ImageStack.export_tiff` IS `TiffExport.export_tiff` on what `ImageStack._tiff_frames / _tiff_timestamp_ranges`
    return (`dtype=None`, no cast): the stack-level model `exportPages` and the mixin-level model `exportTiff` agree,
    page by page and refusal by refusal — so the mixin theorems (`export_tiff_roundtrip`, …) speak about stacks too. -/
theorem stack_export_is_mixin_export (s : Stack) (f : File Rat) (rd re : List (Int × Int))
    (hin : s.inFile f.pages.length = true) (hd : s.ranges f true = some rd) (he : s.ranges f false = some re) :
    exportTiff none false ((s.visible f).map fun p => (s.roi.apply p.img).flatten) rd re =
      (exportPages s f).map (List.map toTiff) := by
  have l1 := ranges_length s f true rd hd
  have l2 := ranges_length s f false re he
  unfold exportPages exportTiff framesWritten
  rw [hin, hd, he]
  simp only [Bool.not_true, Bool.false_eq_true, if_false]
  by_cases h0 : rd.length = 0
  · rw [if_pos h0, if_pos h0]; rfl
  · rw [if_neg h0, if_neg h0]
    rw [if_neg (by omega)]
    simp only [Except.map]
    rw [zipPages_toTiff, List.map_map]
    rfl

example :
    let f : File Rat := ⟨[⟨10, 18, 15, [[0, 1], [2, 3]]⟩, ⟨20, 28, 25, [[4, 5], [6, 7]]⟩], false⟩
    Stack.ranges ⟨0, 2, 1, ⟨0, 2, 0, 2⟩⟩ f true = some [(10, 18), (20, 28)] ∧
    Stack.ranges ⟨0, 2, 1, ⟨0, 2, 0, 2⟩⟩ f false = some [(10, 15), (20, 25)] := by decide +kernel

/-! ## The Software tag is stable under re-export; legacy files are recognised by it -/

/-- Exporting an exported file does not touch the Software tag again: `ImageStack._tiff_writer_kwargs` appends
    `Pylake v<version>` once, whatever the tag was (any spelling of "pylake" counts as present). -/
theorem software_tag_fixed_point (sw ver : List Char) :
    softwareOut (softwareOut sw ver) ver = softwareOut sw ver :=
  softwareOut_idem sw ver

/-- The original Software text is kept in front, and afterwards the tag names pylake. -/
theorem software_tag_keeps_original (sw ver : List Char) :
    (∃ t, softwareOut sw ver = sw ++ t) ∧ hasSub "pylake".toList ((softwareOut sw ver).map lowerAscii) = true :=
  ⟨softwareOut_prefix sw ver, softwareOut_marked sw ver⟩

example : softwareOut "Bluelake 2.5".toList "1.5.0".toList = "Bluelake 2.5, Pylake v1.5.0".toList := by decide
example : softwareOut "".toList "1.5.0".toList = "Pylake v1.5.0".toList := by decide
example : softwareOut "Bluelake, PYLAKE x".toList "1.5.0".toList = "Bluelake, PYLAKE x".toList := by decide

/-- `_legacy_exposure` is exactly: the (case-sensitive) word `Pylake` occurs in the Software tag and the page has no
    `"Exposure time (ms)"` key. -/
theorem legacy_detection_spec (sw : List Char) (key : Bool) :
    legacyExposure sw key = true ↔ key = false ∧ ∃ pre post, sw = pre ++ "Pylake".toList ++ post := by
  unfold legacyExposure
  rw [Bool.and_eq_true, hasSub_iff]
  cases key <;> simp

/-- What `export_tiff` writes is never taken for a legacy file (it always carries the exposure key) — while without
    the key the very tag it writes would make it one (kernel-checked instance): the key is what keeps the DateTime
    tags meaning "frame range" on re-reading. -/
theorem exported_file_not_legacy (sw ver : List Char) : legacyExposure (softwareOut sw ver) true = false := by
  unfold legacyExposure; simp

example : legacyExposure (softwareOut "Bluelake 2.5".toList "1.5.0".toList) false = true := by decide

/-! ## Alignment is applied once: the description keys under export and re-export -/


/-- Exporting an aligned stack marks the matrices as applied: on re-reading (whatever is requested) no alignment is
    performed a second time. -/
theorem exported_alignment_is_applied (keys : List (List Char)) (h : alignStatus true keys = .ready) (req2 : Bool) :
    alignStatus true (forExportKeys true true keys) = .applied ∧
      doAlignment req2 (alignStatus true (forExportKeys true true keys)) = false := by
  have hc := ((ready_iff true keys).mp h).2
  have hs : alignStatus true (forExportKeys true true keys) = .applied := by
    unfold forExportKeys doAlignment
    rw [h, status_addPylake]
    simp only [beq_self_eq_true, Bool.and_self, if_true]
    exact status_renamed keys hc
  refine ⟨hs, ?_⟩
  rw [hs]; unfold doAlignment; rfl

/-- The description keys are a fixed point of re-export (same `align` request). -/
theorem for_export_fixed_point (rgb req : Bool) (keys : List (List Char)) :
    forExportKeys rgb req (forExportKeys rgb req keys) = forExportKeys rgb req keys := by
  by_cases hd : doAlignment req (alignStatus rgb keys) = true
  · have hready : alignStatus rgb keys = .ready := by
      unfold doAlignment at hd
      rw [Bool.and_eq_true] at hd
      exact eq_of_beq hd.1
    obtain ⟨hrgb, hc⟩ := (ready_iff rgb keys).mp hready
    subst hrgb
    have hreq : req = true := by
      unfold doAlignment at hd; rw [Bool.and_eq_true] at hd; exact hd.2
    subst hreq
    have h2 := (exported_alignment_is_applied keys hready true).2
    have hk : ∃ k0, forExportKeys true true keys = addPylake k0 := ⟨_, rfl⟩
    generalize forExportKeys true true keys = k at h2 hk ⊢
    obtain ⟨k0, rfl⟩ := hk
    unfold forExportKeys
    rw [h2]
    simp only [Bool.false_eq_true, if_false]
    exact addPylake_idem _
  · have hd' : doAlignment req (alignStatus rgb keys) = false := by simpa using hd
    have e1 : forExportKeys rgb req keys = addPylake keys := by
      unfold forExportKeys; rw [hd']; rfl
    rw [e1]
    unfold forExportKeys
    rw [status_addPylake, hd']
    simp only [Bool.false_eq_true, if_false]
    exact addPylake_idem _


example : alignStatus true ["Camera".toList, c0Key, c1Key, c2Key] = .ready := by decide
example : forExportKeys true true ["Camera".toList, c0Key, c1Key, c2Key] = ["Camera".toList, a0Key, a1Key, a2Key, pylakeKey] := by
  decide
/-- Not requested: the matrices stay "to be applied" (a later reader may still align). -/
example : forExportKeys true false ["Camera".toList, c0Key, c1Key] = ["Camera".toList, c0Key, c1Key, pylakeKey] := by decide

end Verif.C18
