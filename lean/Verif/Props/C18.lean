/-
  C18 — property theorems (statements + short proofs; helper lemmas live in Lemmas/C18).
  Every theorem is about the executable model in `Verif.Model.C18`, which the correspondence check ties to
  `lumicks/pylake/detail/imaging_mixins.py`, `image_stack.py` and `detail/widefield.py` on every run.
-/
import Verif.Lemmas.C18

namespace Verif.C18
open Verif.Py

/-! ## The DateTime tag survives the round trip -/

/-- `_get_page_timestamps(f"{a}:{b}") = (a, b)` for all non-negative int64 timestamps: the f-string written by
    `extratags` is accepted by the pattern `^(\d+):(\d+)$` and both groups read back exactly. -/
theorem datetime_roundtrip (a b : Int) (ha : 0 ≤ a) (hb : 0 ≤ b) (ha' : a < 2 ^ 63) (hb' : b < 2 ^ 63) :
    decodeRange (encodeRange a b) = .ok (a, b) := by
  obtain ⟨va, da, na⟩ := natDigits_spec a.toNat
  obtain ⟨vb, db, nb⟩ := natDigits_spec b.toNat
  unfold encodeRange showInt decodeRange
  rw [if_neg (by omega), if_neg (by omega)]
  obtain ⟨t1, t2⟩ := takeWhile_run isDigit (natDigits a.toNat) ':' (natDigits b.toNat) da colon_not_digit
  obtain ⟨t3, t4⟩ := takeWhile_all isDigit (natDigits b.toNat) db
  simp only [t1, t2, t3, t4]
  rw [if_neg (by simp [na, nb]), if_pos (Or.inl trivial)]
  unfold int64OfDigits
  simp only [va, vb]
  have h1 : a.toNat < 2 ^ 63 := by omega
  have h2 : b.toNat < 2 ^ 63 := by omega
  rw [if_pos h1, if_pos h2]
  simp only [bind, Except.bind, pure, Except.pure]
  have e1 : ((a.toNat : Nat) : Int) = a := Int.toNat_of_nonneg ha
  have e2 : ((b.toNat : Nat) : Int) = b := Int.toNat_of_nonneg hb
  rw [e1, e2]

/-- Non-vacuity: a Bluelake-era timestamp pair. -/
example : decodeRange (encodeRange 1600000000000012800 1600000000000256000)
    = .ok (1600000000000012800, 1600000000000256000) :=
  datetime_roundtrip _ _ (by decide) (by decide) (by decide) (by decide)

/-- A negative start can be written but is refused on reading (`ValueError`): the reader never returns a wrong
    pair for it. -/
theorem datetime_negative_refused (a b : Int) (ha : a < 0) : decodeRange (encodeRange a b) = .error .value := by
  unfold encodeRange showInt decodeRange
  rw [if_pos ha]
  simp only [List.cons_append, List.takeWhile_cons, List.dropWhile_cons, minus_not_digit]
  rfl

example : decodeRange (encodeRange (-5) 7) = .error .value := datetime_negative_refused _ _ (by decide)

/-- Anything the reader accepts is two runs of ASCII digits around one colon (plus at most a final line feed),
    and the values are those of the digit runs. -/
theorem decode_sound (s : List Char) (a b : Int) (h : decodeRange s = .ok (a, b)) :
    ∃ d1 d2 tail, s = d1 ++ ':' :: d2 ++ tail ∧ (tail = [] ∨ tail = ['\n']) ∧ d1 ≠ [] ∧ d2 ≠ [] ∧
      (∀ c ∈ d1, isDigit c = true) ∧ (∀ c ∈ d2, isDigit c = true) ∧
      a = digitsValue d1 ∧ b = digitsValue d2 ∧ 0 ≤ a ∧ a < 2 ^ 63 ∧ 0 ≤ b ∧ b < 2 ^ 63 := by
  unfold decodeRange at h
  simp only at h
  have hsplit : s = s.takeWhile isDigit ++ s.dropWhile isDigit := (List.takeWhile_append_dropWhile).symm
  split at h
  · rename_i rest hd
    rw [hd] at hsplit
    have hsplit2 : rest = rest.takeWhile isDigit ++ rest.dropWhile isDigit :=
      (List.takeWhile_append_dropWhile).symm
    by_cases he : s.takeWhile isDigit = [] ∨ rest.takeWhile isDigit = []
    · rw [if_pos he] at h; cases h
    · rw [if_neg he] at h
      by_cases ht : rest.dropWhile isDigit = [] ∨ rest.dropWhile isDigit = ['\n']
      · rw [if_pos ht] at h
        unfold int64OfDigits at h
        simp only at h
        by_cases h1 : digitsValue (s.takeWhile isDigit) < 2 ^ 63
        · by_cases h2 : digitsValue (rest.takeWhile isDigit) < 2 ^ 63
          · rw [if_pos h1, if_pos h2] at h
            simp only [bind, Except.bind, pure, Except.pure, Except.ok.injEq, Prod.mk.injEq] at h
            refine ⟨s.takeWhile isDigit, rest.takeWhile isDigit, rest.dropWhile isDigit, ?_, ht,
              fun e => he (Or.inl e), fun e => he (Or.inr e), ?_, ?_, h.1.symm, h.2.symm, ?_⟩
            · rw [List.append_assoc, List.cons_append, ← hsplit2]; exact hsplit
            · intro c hc; exact mem_takeWhile_true _ _ c hc
            · intro c hc; exact mem_takeWhile_true _ _ c hc
            · omega
          · rw [if_pos h1, if_neg h2] at h; cases h
        · rw [if_neg h1] at h; cases h
      · rw [if_neg ht] at h; cases h
  · cases h


/-! ## Export writes exactly the selection -/

/-- Frame selection.  For a modern file and every positive step (nested to any depth: the hypotheses are
    re-established for the result): when `stack[a:b:c]` is a stack, exporting it writes exactly the pages
    `pages[a:b:c]` of what exporting `stack` writes — pixels, DateTime tags and exposures — and that list is not
    empty; the code raises exactly when that selection is empty. -/
theorem export_selection_frames {α} (s : Stack) (f : File α) (hst : 0 < s.st) (hleg : f.legacy = false)
    (hin : s.inFile f.pages.length = true) (a b c : Option Int) (hc : 0 < c.getD 1) :
    match s.sliceFrames a b c with
    | .ok s' => ∃ out, exportPages s f = .ok out ∧
        exportPages s' f = .ok (pySliceStep out a b (c.getD 1).toNat) ∧
        pySliceStep out a b (c.getD 1).toNat ≠ [] ∧ 0 < s'.st ∧ s'.inFile f.pages.length = true
    | .error e => e = .empty ∧
        ∀ out, exportPages s f = .ok out → pySliceStep out a b (c.getD 1).toNat = [] := by
  have h := slice_refines s hst a b c hc
  have hvis : ∀ t : Stack, (t.visible f).map (outOf s.roi) =
      t.frames.map (fun p => outOf s.roi (f.pages.getD p.toNat Page.blank)) := by
    intro t; unfold Stack.visible; rw [List.map_map]; rfl
  cases hs : s.sliceFrames a b c with
  | ok s' =>
    rw [hs] at h
    simp only at h ⊢
    obtain ⟨hfr, hne, hst', hroi⟩ := h
    have hsne : s.frames ≠ [] := by
      intro h0; rw [h0, pySliceStep_nil] at hfr; exact hne hfr
    have hin' : s'.inFile f.pages.length = true := by
      unfold Stack.inFile at hin ⊢
      rw [List.all_eq_true] at hin ⊢
      intro p hp
      rw [hfr] at hp
      exact hin p (mem_of_mem_pySliceStep hp)
    refine ⟨_, exportPages_modern s f hleg hin hsne, ?_, ?_, hst', hin'⟩
    · rw [exportPages_modern s' f hleg hin' hne, hroi, hvis s', hvis s, hfr, pySliceStep_map]
    · rw [hvis s, pySliceStep_map, ← hfr]
      intro h0
      exact hne (List.map_eq_nil_iff.mp h0)
  | error e =>
    rw [hs] at h
    simp only at h ⊢
    refine ⟨h.1, ?_⟩
    intro out hout
    by_cases hsne : s.frames = []
    · exfalso
      unfold exportPages Stack.ranges Stack.visible at hout
      rw [hin, hleg, hsne] at hout
      simp at hout
    · rw [exportPages_modern s f hleg hin hsne] at hout
      cases hout
      rw [hvis s, pySliceStep_map, h.2]; rfl

/-- Non-vacuity: `stack[1::2]` of four pages of 2×3 pixels. -/
example :
    let f : File Int := ⟨[⟨10, 18, 15, [[0, 1, 2], [3, 4, 5]]⟩, ⟨20, 28, 25, [[6, 7, 8], [9, 10, 11]]⟩,
      ⟨30, 38, 35, [[12, 13, 14], [15, 16, 17]]⟩, ⟨40, 48, 45, [[18, 19, 20], [21, 22, 23]]⟩], false⟩
    ((Stack.sliceFrames ⟨0, 4, 1, ⟨0, 3, 0, 2⟩⟩ (some 1) none (some 2)).toOption.map fun s' => exportPages s' f)
      = some (.ok [⟨20, 28, 5, [[6, 7, 8], [9, 10, 11]]⟩, ⟨40, 48, 5, [[18, 19, 20], [21, 22, 23]]⟩]) := by
  decide

/-- The same page with its pixels cropped by NumPy slicing. -/
def cropOut {α} (x0 x1 y0 y1 : Option Int) (o : OutPage α) : OutPage α :=
  { o with img := pySlice2 o.img x0 x1 y0 y1 }

/-- Every raw page of the file has `H` rows of `W` pixels. -/
def File.Shaped {α} (f : File α) (H W : Nat) : Prop :=
  ∀ p ∈ f.pages, p.img.length = H ∧ ∀ row ∈ p.img, row.length = W

/-- ROI selection (also for legacy files, also after any frame selection).  When
    `stack.crop_by_pixels(x0, x1, y0, y1)` (equally `stack[:, y0:y1, x0:x1]`) is a stack, exporting it writes the
    pages of `stack` with every image replaced by its NumPy slice `img[y0:y1, x0:x1]` — `None`, negative and
    out-of-range bounds included — tags and exposures untouched, the same frames; the code raises (`ValueError`)
    exactly when that slice has no pixels. -/
theorem export_selection_roi {α} (s : Stack) (f : File α) (H W : Nat) (hf : f.Shaped H W)
    (hr : s.roi.Within H W) (x0 x1 y0 y1 : Option Int) :
    match s.cropPixels x0 x1 y0 y1 with
    | .ok s' => exportPages s' f = (exportPages s f).map (List.map (cropOut x0 x1 y0 y1)) ∧
        s'.roi.Within H W ∧ s'.frames = s.frames ∧ s'.st = s.st
    | .error e => e = .value ∧
        ∀ out, exportPages s f = .ok out → ∀ o ∈ out, (pySlice2 o.img x0 x1 y0 y1).flatten = [] := by
  cases hc : s.roi.crop x0 x1 y0 y1 with
  | ok r' =>
    have hcp : s.cropPixels x0 x1 y0 y1 = .ok { s with roi := r' } := by
      unfold Stack.cropPixels; rw [hc]; rfl
    rw [hcp]
    have hpage : ∀ p ∈ f.pages, r'.apply p.img = pySlice2 (s.roi.apply p.img) x0 x1 y0 y1 := by
      intro p hp
      have := roi_crop_refines p.img H W (hf p hp).1 (hf p hp).2 s.roi hr x0 x1 y0 y1
      rw [hc] at this
      exact this.1
    have hwithin : r'.Within H W := by
      have := roi_crop_refines (List.replicate H (List.replicate W ())) H W (by simp)
        (by intro row hrow; rw [List.mem_replicate] at hrow; rw [hrow.2]; simp) s.roi hr x0 x1 y0 y1
      rw [hc] at this
      exact this.2
    exact ⟨exportPages_roi_change s r' f (fun i => pySlice2 i x0 x1 y0 y1) hpage, hwithin, rfl, rfl⟩
  | error e =>
    have hcp : s.cropPixels x0 x1 y0 y1 = .error e := by
      unfold Stack.cropPixels; rw [hc]; rfl
    rw [hcp]
    refine ⟨crop_error_value _ _ _ _ _ _ hc, ?_⟩
    intro out hout o ho
    obtain ⟨p, hp, hpe⟩ := export_img_source s f out hout o ho
    have := roi_crop_refines p.img H W (hf p hp).1 (hf p hp).2 s.roi hr x0 x1 y0 y1
    rw [hc] at this
    rw [hpe]
    exact this.2

/-- Non-vacuity: negative and open bounds on a stepped stack. -/
example :
    let f : File Int := ⟨[⟨10, 18, 15, [[0, 1, 2], [3, 4, 5]]⟩, ⟨20, 28, 25, [[6, 7, 8], [9, 10, 11]]⟩], false⟩
    ((Stack.cropPixels ⟨0, 2, 1, ⟨0, 3, 0, 2⟩⟩ (some (-2)) none (some 1) none).toOption.map fun s' => exportPages s' f)
      = some (.ok [⟨10, 18, 5, [[4, 5]]⟩, ⟨20, 28, 5, [[10, 11]]⟩]) := by
  decide
example : File.Shaped (⟨[⟨10, 18, 15, [[0, 1, 2], [3, 4, 5]]⟩], false⟩ : File Int) 2 3 := by
  intro p hp; simp at hp; subst hp; simp

/-! ## Legacy files -/

/-- `_frame_timestamps_from_exposure_timestamps`: as many ranges as frames; every frame but the last
    runs from its own start to the next frame's start (so the ranges are contiguous); the last one is as
    long as the distance of the last two starts (or keeps its stop when it is alone). -/
theorem legacy_frame_ranges (ts : List (Int × Int)) (hne : ts ≠ []) :
    ∃ r, legacyRanges ts = some r ∧ r.length = ts.length ∧
      (∀ i, i + 1 < ts.length → r[i]? = (ts[i]?.bind fun a => ts[i + 1]?.map fun b => (a.1, b.1))) ∧
      r[ts.length - 1]? = (ts.getLast?.map fun last =>
        (last.1, match ts[ts.length - 2]? with
          | some prev => if 2 ≤ ts.length then last.1 + (last.1 - prev.1) else last.2
          | none => last.2)) := by
  obtain ⟨last, hlast⟩ : ∃ last, ts.getLast? = some last := by
    cases h : ts.getLast? with
    | none => exact absurd (List.getLast?_eq_none_iff.mp h) hne
    | some l => exact ⟨l, rfl⟩
  have hlen : 0 < ts.length := List.length_pos_iff.mpr hne
  have hbody : ((ts.zip (ts.drop 1)).map fun (x : (Int × Int) × (Int × Int)) => (x.1.1, x.2.1)).length
      = ts.length - 1 := by
    simp only [List.length_map, List.length_zip, List.length_drop]; omega
  unfold legacyRanges
  rw [hlast]
  refine ⟨_, rfl, ?_, ?_, ?_⟩
  · rw [List.length_append, hbody]; simp; omega
  · intro i hi
    have : (ts.zip (ts.drop 1))[i]? = some (ts[i], ts[i + 1]) := by
      rw [List.getElem?_zip_eq_some]
      refine ⟨List.getElem?_eq_getElem _, ?_⟩
      rw [List.getElem?_drop, List.getElem?_eq_getElem (by omega)]
      congr 2; omega
    rw [List.getElem?_append_left (by rw [hbody]; omega), List.getElem?_map, this,
      List.getElem?_eq_getElem (by omega : i < ts.length),
      List.getElem?_eq_getElem (by omega : i + 1 < ts.length)]
    rfl
  · rw [List.getElem?_append_right (Nat.le_of_eq hbody), hbody]
    simp only [Nat.sub_self, List.getElem?_cons_zero, Option.map_some, Option.some.injEq, Prod.mk.injEq,
      true_and]
    by_cases h2 : 2 ≤ ts.length
    · rw [if_pos h2]
      rw [List.getElem?_eq_getElem (by omega : ts.length - 2 < ts.length)]
      simp [h2]
    · rw [if_neg h2]
      have : ts.length - 2 = 0 := by omega
      rw [this]
      cases ts[0]? <;> simp [h2]

example : legacyRanges [(10, 18), (20, 28), (35, 43)] = some [(10, 20), (20, 35), (35, 50)] := by decide
example : legacyRanges [(10, 18)] = some [(10, 18)] := by decide

end Verif.C18
