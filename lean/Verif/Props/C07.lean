/-
  C07 — property theorems (statements + short proofs; helper lemmas live in Lemmas/C07).
  Every theorem is about the executable model in `Verif.Model.C07`, which the correspondence check ties to
  `lumicks/pylake/image_stack.py`, `detail/widefield.py` and `detail/imaging_mixins.py` on every run.
  The specifications are Python's own list operations from `Verif.Py` (`pySliceStep`, `pyIndex`, `pySlice`).
-/
import Verif.Lemmas.C07

namespace Verif.C07
open Verif.Py

/-! ## Which pages a stack shows -/

/-- `num_frames` is the number of frames the stack iterates over. -/
theorem num_frames_eq_length (s : Stack) (hst : 0 < s.st) : s.numFrames = s.frames.length := by
  rw [length_frames]; have := numFrames_nonneg s hst; omega

/-- Independent description of the visible pages: exactly the pages `p` of `range(s0, s1, st)`. -/
theorem mem_frames_iff (s : Stack) (hst : 0 < s.st) (p : Int) :
    p ∈ s.frames ↔ s.s0 ≤ p ∧ p < s.s1 ∧ (p - s.s0) % s.st = 0 := by
  unfold Stack.frames
  simp only [List.mem_map, List.mem_range]
  constructor
  · rintro ⟨k, hk, rfl⟩
    have hk' : (k : Int) < s.numFrames := by omega
    have h1 := (lt_numFrames_iff s hst k (by omega)).mp hk'
    have h2 : 0 ≤ (k : Int) * s.st := Int.mul_nonneg (by omega) (Int.le_of_lt hst)
    rw [Int.mul_comm] at h1
    refine ⟨by omega, by omega, ?_⟩
    have : s.s0 + (k : Int) * s.st - s.s0 = (k : Int) * s.st := by omega
    rw [this, Int.mul_emod_left]
  · rintro ⟨h0, h1, h2⟩
    have hdvd : s.st ∣ (p - s.s0) := Int.dvd_of_emod_eq_zero h2
    obtain ⟨q, hq⟩ := hdvd
    have hq0 : 0 ≤ q := by
      by_cases h : 0 ≤ q
      · exact h
      · have : s.st * q ≤ s.st * (-1) := Int.mul_le_mul_of_nonneg_left (by omega) (Int.le_of_lt hst)
        omega
    have hlt : q < s.numFrames := (lt_numFrames_iff s hst q hq0).mpr (by omega)
    refine ⟨q.toNat, by omega, ?_⟩
    have : ((q.toNat : Nat) : Int) = q := by omega
    rw [this, Int.mul_comm]; omega

/-- … in increasing order, each once. -/
theorem frames_strictly_increasing (s : Stack) (hst : 0 < s.st) : s.frames.Pairwise (· < ·) := by
  unfold Stack.frames
  rw [List.pairwise_map]
  have : (List.range s.numFrames.toNat).Pairwise (· < ·) := List.pairwise_lt_range
  refine this.imp ?_
  intro a b hab
  have : (a : Int) * s.st < (b : Int) * s.st := Int.mul_lt_mul_of_pos_right (by omega) hst
  omega

example : Stack.frames ⟨1, 6, 2, ⟨0, 5, 0, 4⟩⟩ = [1, 3, 5] := by decide

/-! ## Frame slices -/

/-- `stack[a:b:c]` for every positive step (and `None`): when the code returns a stack its frames are
    exactly `frames[a:b:c]` (never empty), the step stays positive and the ROI is untouched; it raises
    ("Slice is empty") exactly when `frames[a:b:c]` is empty.  Holds for any depth of nesting because
    the hypothesis `0 < st` is re-established. -/
theorem slice_refines (s : Stack) (hst : 0 < s.st) (a b c : Option Int) (hc : 0 < c.getD 1) :
    match s.sliceFrames a b c with
    | .ok s' => s'.frames = pySliceStep s.frames a b (c.getD 1).toNat ∧ s'.frames ≠ [] ∧
        0 < s'.st ∧ s'.roi = s.roi
    | .error e => e = .empty ∧ pySliceStep s.frames a b (c.getD 1).toNat = [] := by
  obtain ⟨N, hN⟩ : ∃ N : Nat, s.numFrames = N :=
    ⟨s.numFrames.toNat, by have := numFrames_nonneg s hst; omega⟩
  have hlen : s.frames.length = N := by rw [length_frames, hN]; simp
  have hle := sliceIndicesPos_le a b N
  unfold Stack.sliceFrames pySliceStep
  simp only
  generalize c.getD 1 = cv at *
  obtain ⟨cn, hcn⟩ : ∃ cn : Nat, cv = cn := ⟨cv.toNat, by omega⟩
  subst hcn
  rw [if_neg (by omega), hN, sliceIndices_pos a b cn hc N, hlen]
  generalize sliceIndicesPos a b N = ij at *
  obtain ⟨i, j⟩ := ij
  simp only [Int.toNat_natCast, Int.ofNat_eq_natCast] at *
  have hstc : 0 < s.st * (cn : Int) := Int.mul_pos hst hc
  have hdiff : s.s0 + s.st * (j : Int) - (s.s0 + s.st * (i : Int)) = s.st * ((j : Int) - (i : Int)) := by
    rw [Int.mul_sub]; omega
  by_cases hij : i < j
  · have hpos : 0 < s.st * ((j : Int) - (i : Int)) := Int.mul_pos hst (by omega)
    have hcond : ¬ (s.s0 + s.st * (j : Int) = s.s0 + s.st * (i : Int) ∨
        (s.s0 + s.st * (j : Int) - (s.s0 + s.st * (i : Int))).sign ≠ (s.st * (cn : Int)).sign) := by
      rw [hdiff, Int.sign_eq_one_of_pos hpos, Int.sign_eq_one_of_pos hstc]
      intro h
      rcases h with h | h
      · omega
      · exact h rfl
    rw [if_neg hcond, if_neg (by omega)]
    simp only
    have hfs := frames_substack s hst N hN i j cn hij hle.2 (by omega)
    refine ⟨hfs, ?_, hstc, trivial⟩
    rw [hfs]
    have hfr : s.frames = (List.range N).map (fun (k : Nat) => s.s0 + (k : Int) * s.st) := by
      unfold Stack.frames; rw [hN]; simp
    rw [hfr, ← List.map_take, ← List.map_drop, take_drop_range, Nat.min_eq_left hle.2]
    obtain ⟨m, hm⟩ : ∃ m, j - i = m + 1 := ⟨j - i - 1, by omega⟩
    rw [hm, List.range'_succ, List.map_cons, everyNth_cons]
    exact List.cons_ne_nil _ _
  · have hnp : s.st * ((j : Int) - (i : Int)) ≤ 0 := by
      have : s.st * ((j : Int) - (i : Int)) ≤ s.st * 0 :=
        Int.mul_le_mul_of_nonneg_left (by omega) (Int.le_of_lt hst)
      omega
    have hcond : (s.s0 + s.st * (j : Int) = s.s0 + s.st * (i : Int) ∨
        (s.s0 + s.st * (j : Int) - (s.s0 + s.st * (i : Int))).sign ≠ (s.st * (cn : Int)).sign) := by
      rw [hdiff, Int.sign_eq_one_of_pos hstc]
      by_cases h0 : s.st * ((j : Int) - (i : Int)) = 0
      · left; omega
      · right
        rw [Int.sign_eq_neg_one_of_neg (by omega)]
        decide
    rw [if_pos hcond]
    refine ⟨rfl, ?_⟩
    have : (s.frames.take j).drop i = [] := by
      apply List.eq_nil_of_length_eq_zero
      simp only [List.length_drop, List.length_take]; omega
    rw [this, everyNth_nil]

/-- Non-vacuity: a stepped slice of a stepped stack, negative bound. -/
example : (Stack.sliceFrames ⟨1, 12, 2, ⟨0, 5, 0, 4⟩⟩ (some 1) (some (-1)) (some 2)).toOption.map Stack.frames
    = some [3, 7] := by decide
example : pySliceStep (Stack.frames ⟨1, 12, 2, ⟨0, 5, 0, 4⟩⟩) (some 1) (some (-1)) 2 = [3, 7] := by
  have h : Stack.frames ⟨1, 12, 2, ⟨0, 5, 0, 4⟩⟩ = [1, 3, 5, 7, 9, 11] := by decide
  rw [h]
  simp [pySliceStep, sliceIndicesPos, pyNorm, everyNth_cons, everyNth_nil]

/-- A zero step is the `ValueError` of `slice.indices`. -/
theorem slice_zero_step (s : Stack) (a b : Option Int) : s.sliceFrames a b (some 0) = .error .value := by
  unfold Stack.sliceFrames; simp

/-- A negative step never returns a stack: the code raises `NotImplementedError` ("Slice is empty" or
    "Reverse slicing is not supported"). -/
theorem slice_negative_step (s : Stack) (hst : 0 < s.st) (a b c : Option Int) (hc : c.getD 1 < 0) :
    s.sliceFrames a b c = .error .empty ∨ s.sliceFrames a b c = .error .reverse := by
  unfold Stack.sliceFrames
  simp only
  rw [if_neg (by omega)]
  generalize sliceIndices a b (c.getD 1) s.numFrames = ij
  obtain ⟨i, j⟩ := ij
  simp only
  have hneg : s.st * c.getD 1 < 0 := Int.mul_neg_of_pos_of_neg hst hc
  split
  · left; rfl
  · right; first | rfl | rw [if_pos hneg]

example : Stack.sliceFrames ⟨0, 6, 1, ⟨0, 5, 0, 4⟩⟩ (some 4) (some 1) (some (-1)) = .error .reverse := by decide
example : Stack.sliceFrames ⟨0, 6, 1, ⟨0, 5, 0, 4⟩⟩ (some 1) (some 4) (some (-1)) = .error .empty := by decide

/-! ## Integer frame indices -/

/-- `stack[i]` shows exactly the frame `frames[i]` (negative `i` counts from the end) with step and ROI
    unchanged, and raises `IndexError` exactly when Python's `frames[i]` does. -/
theorem index_refines (s : Stack) (hst : 0 < s.st) (i : Int) :
    match s.index i, pyIndex s.frames i with
    | .ok s', some p => s'.frames = [p] ∧ s'.st = s.st ∧ s'.roi = s.roi
    | .error e, none => e = .index
    | _, _ => False := by
  obtain ⟨N, hN⟩ : ∃ N : Nat, s.numFrames = N :=
    ⟨s.numFrames.toNat, by have := numFrames_nonneg s hst; omega⟩
  have hlen : s.frames.length = N := by rw [length_frames, hN]; simp
  unfold Stack.index pyIndex
  simp only
  rw [hN, hlen]
  generalize hidx : (if i ≥ 0 then i else i + (N : Int)) = idx
  have single : ∀ ns : Int, Stack.frames { s with s0 := ns, s1 := ns + s.st } = [ns] := by
    intro ns
    unfold Stack.frames Stack.numFrames
    simp only
    have e : ns + s.st - ns - 1 = s.st - 1 := by omega
    rw [e, Int.max_eq_right (by omega), Int.ediv_eq_zero_of_lt (by omega) (by omega)]
    simp
  by_cases hneg : idx < 0
  · -- out of range below
    have hlow : s.s0 + s.st * idx < s.s0 := by
      have : s.st * idx < 0 := Int.mul_neg_of_pos_of_neg hst hneg
      omega
    rw [if_pos (Or.inl hlow)]
    have : (if i < 0 then (if i + (N : Int) < 0 then none else s.frames[(i + (N : Int)).toNat]?)
        else s.frames[i.toNat]?) = none := by
      split at hidx
      · omega
      · rw [if_pos (by omega), if_pos (by omega)]
    rw [this]
  · have hge : 0 ≤ idx := by omega
    have hiff := lt_numFrames_iff s hst idx hge
    rw [hN] at hiff
    have hnn : 0 ≤ s.st * idx := Int.mul_nonneg (Int.le_of_lt hst) hge
    have hget : (if i < 0 then (if i + (N : Int) < 0 then none else s.frames[(i + (N : Int)).toNat]?)
        else s.frames[i.toNat]?) = s.frames[idx.toNat]? := by
      split at hidx
      · rw [if_neg (by omega), hidx]
      · rw [if_pos (by omega), if_neg (by omega), hidx]
    rw [hget]
    by_cases hin : idx < (N : Int)
    · have h1 := hiff.mp hin
      rw [if_neg (by omega), getElem?_frames s idx.toNat (by rw [hN]; simp; omega)]
      refine ⟨?_, rfl, rfl⟩
      rw [single]
      have : ((idx.toNat : Nat) : Int) = idx := by omega
      rw [this, Int.mul_comm]
    · have h1 : ¬ (s.s0 + s.st * idx < s.s1) := fun h => hin (hiff.mpr h)
      rw [if_pos (Or.inr (by omega)), List.getElem?_eq_none (by rw [hlen]; omega)]

example : (Stack.index ⟨1, 12, 2, ⟨0, 5, 0, 4⟩⟩ (-2)).toOption.map Stack.frames = some [9] := by decide
example : Stack.index ⟨1, 12, 2, ⟨0, 5, 0, 4⟩⟩ 6 = .error .index := by decide
example : Stack.index ⟨1, 12, 2, ⟨0, 5, 0, 4⟩⟩ (-7) = .error .index := by decide

end Verif.C07
