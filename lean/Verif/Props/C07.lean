/-
  C07 — property theorems (statements + short proofs; helper lemmas live in Lemmas/C07).
  Every theorem is about the executable model in `Verif.Model.C07`, which the correspondence check ties to
  `lumicks/pylake/image_stack.py`, `detail/widefield.py` and `detail/imaging_mixins.py` on every run.
  The specifications are Python's own list operations from `Verif.Py` (`pySliceStep`, `pyIndex`, `pySlice`).
-/
import Verif.Lemmas.C07

namespace Verif.C07
open Verif.Py

/-! ## Which pages a stack shows -/

/-- `num_frames` is the number of frames the stack iterates over. -/
theorem num_frames_eq_length (s : Stack) (hst : 0 < s.st) : s.numFrames = s.frames.length := by
  rw [length_frames]; have := numFrames_nonneg s hst; omega

/-- Independent description of the visible pages: exactly the pages `p` of `range(s0, s1, st)`. -/
theorem mem_frames_iff (s : Stack) (hst : 0 < s.st) (p : Int) :
    p ∈ s.frames ↔ s.s0 ≤ p ∧ p < s.s1 ∧ (p - s.s0) % s.st = 0 := by
  unfold Stack.frames
  simp only [List.mem_map, List.mem_range]
  constructor
  · rintro ⟨k, hk, rfl⟩
    have hk' : (k : Int) < s.numFrames := by omega
    have h1 := (lt_numFrames_iff s hst k (by omega)).mp hk'
    have h2 : 0 ≤ (k : Int) * s.st := Int.mul_nonneg (by omega) (Int.le_of_lt hst)
    rw [Int.mul_comm] at h1
    refine ⟨by omega, by omega, ?_⟩
    have : s.s0 + (k : Int) * s.st - s.s0 = (k : Int) * s.st := by omega
    rw [this, Int.mul_emod_left]
  · rintro ⟨h0, h1, h2⟩
    have hdvd : s.st ∣ (p - s.s0) := Int.dvd_of_emod_eq_zero h2
    obtain ⟨q, hq⟩ := hdvd
    have hq0 : 0 ≤ q := by
      by_cases h : 0 ≤ q
      · exact h
      · have : s.st * q ≤ s.st * (-1) := Int.mul_le_mul_of_nonneg_left (by omega) (Int.le_of_lt hst)
        omega
    have hlt : q < s.numFrames := (lt_numFrames_iff s hst q hq0).mpr (by omega)
    refine ⟨q.toNat, by omega, ?_⟩
    have : ((q.toNat : Nat) : Int) = q := by omega
    rw [this, Int.mul_comm]; omega

/-- … in increasing order, each once. -/
theorem frames_strictly_increasing (s : Stack) (hst : 0 < s.st) : s.frames.Pairwise (· < ·) := by
  unfold Stack.frames
  rw [List.pairwise_map]
  have : (List.range s.numFrames.toNat).Pairwise (· < ·) := List.pairwise_lt_range
  refine this.imp ?_
  intro a b hab
  have : (a : Int) * s.st < (b : Int) * s.st := Int.mul_lt_mul_of_pos_right (by omega) hst
  omega

example : Stack.frames ⟨1, 6, 2, ⟨0, 5, 0, 4⟩⟩ = [1, 3, 5] := by decide

/-! ## Frame slices -/

/-- `stack[a:b:c]` for every positive step (and `None`): when the code returns a stack its frames are
    exactly `frames[a:b:c]` (never empty), the step stays positive and the ROI is untouched; it raises
    ("Slice is empty") exactly when `frames[a:b:c]` is empty.  Holds for any depth of nesting because
    the hypothesis `0 < st` is re-established. -/
theorem slice_refines (s : Stack) (hst : 0 < s.st) (a b c : Option Int) (hc : 0 < c.getD 1) :
    match s.sliceFrames a b c with
    | .ok s' => s'.frames = pySliceStep s.frames a b (c.getD 1).toNat ∧ s'.frames ≠ [] ∧
        0 < s'.st ∧ s'.roi = s.roi
    | .error e => e = .empty ∧ pySliceStep s.frames a b (c.getD 1).toNat = [] := by
  obtain ⟨N, hN⟩ : ∃ N : Nat, s.numFrames = N :=
    ⟨s.numFrames.toNat, by have := numFrames_nonneg s hst; omega⟩
  have hlen : s.frames.length = N := by rw [length_frames, hN]; simp
  have hle := sliceIndicesPos_le a b N
  unfold Stack.sliceFrames pySliceStep
  simp only
  generalize c.getD 1 = cv at *
  obtain ⟨cn, hcn⟩ : ∃ cn : Nat, cv = cn := ⟨cv.toNat, by omega⟩
  subst hcn
  rw [if_neg (by omega), hN, sliceIndices_pos a b cn hc N, hlen]
  generalize sliceIndicesPos a b N = ij at *
  obtain ⟨i, j⟩ := ij
  simp only [Int.toNat_natCast, Int.ofNat_eq_natCast] at *
  have hstc : 0 < s.st * (cn : Int) := Int.mul_pos hst hc
  have hdiff : s.s0 + s.st * (j : Int) - (s.s0 + s.st * (i : Int)) = s.st * ((j : Int) - (i : Int)) := by
    rw [Int.mul_sub]; omega
  by_cases hij : i < j
  · have hpos : 0 < s.st * ((j : Int) - (i : Int)) := Int.mul_pos hst (by omega)
    have hcond : ¬ (s.s0 + s.st * (j : Int) = s.s0 + s.st * (i : Int) ∨
        (s.s0 + s.st * (j : Int) - (s.s0 + s.st * (i : Int))).sign ≠ (s.st * (cn : Int)).sign) := by
      rw [hdiff, Int.sign_eq_one_of_pos hpos, Int.sign_eq_one_of_pos hstc]
      intro h
      rcases h with h | h
      · omega
      · exact h rfl
    rw [if_neg hcond, if_neg (by omega)]
    simp only
    have hfs := frames_substack s hst N hN i j cn hij hle.2 (by omega)
    refine ⟨hfs, ?_, hstc, trivial⟩
    rw [hfs]
    have hfr : s.frames = (List.range N).map (fun (k : Nat) => s.s0 + (k : Int) * s.st) := by
      unfold Stack.frames; rw [hN]; simp
    rw [hfr, ← List.map_take, ← List.map_drop, take_drop_range, Nat.min_eq_left hle.2]
    obtain ⟨m, hm⟩ : ∃ m, j - i = m + 1 := ⟨j - i - 1, by omega⟩
    rw [hm, List.range'_succ, List.map_cons, everyNth_cons]
    exact List.cons_ne_nil _ _
  · have hnp : s.st * ((j : Int) - (i : Int)) ≤ 0 := by
      have : s.st * ((j : Int) - (i : Int)) ≤ s.st * 0 :=
        Int.mul_le_mul_of_nonneg_left (by omega) (Int.le_of_lt hst)
      omega
    have hcond : (s.s0 + s.st * (j : Int) = s.s0 + s.st * (i : Int) ∨
        (s.s0 + s.st * (j : Int) - (s.s0 + s.st * (i : Int))).sign ≠ (s.st * (cn : Int)).sign) := by
      rw [hdiff, Int.sign_eq_one_of_pos hstc]
      by_cases h0 : s.st * ((j : Int) - (i : Int)) = 0
      · left; omega
      · right
        rw [Int.sign_eq_neg_one_of_neg (by omega)]
        decide
    rw [if_pos hcond]
    refine ⟨rfl, ?_⟩
    have : (s.frames.take j).drop i = [] := by
      apply List.eq_nil_of_length_eq_zero
      simp only [List.length_drop, List.length_take]; omega
    rw [this, everyNth_nil]

/-- Non-vacuity: a stepped slice of a stepped stack, negative bound. -/
example : (Stack.sliceFrames ⟨1, 12, 2, ⟨0, 5, 0, 4⟩⟩ (some 1) (some (-1)) (some 2)).toOption.map Stack.frames
    = some [3, 7] := by decide
example : pySliceStep (Stack.frames ⟨1, 12, 2, ⟨0, 5, 0, 4⟩⟩) (some 1) (some (-1)) 2 = [3, 7] := by
  have h : Stack.frames ⟨1, 12, 2, ⟨0, 5, 0, 4⟩⟩ = [1, 3, 5, 7, 9, 11] := by decide
  rw [h]
  simp [pySliceStep, sliceIndicesPos, pyNorm, everyNth_cons, everyNth_nil]

/-- A zero step is the `ValueError` of `slice.indices`. -/
theorem slice_zero_step (s : Stack) (a b : Option Int) : s.sliceFrames a b (some 0) = .error .value := by
  unfold Stack.sliceFrames; simp

/-- A negative step never returns a stack: the code raises `NotImplementedError` ("Slice is empty" or
    "Reverse slicing is not supported"). -/
theorem slice_negative_step (s : Stack) (hst : 0 < s.st) (a b c : Option Int) (hc : c.getD 1 < 0) :
    s.sliceFrames a b c = .error .empty ∨ s.sliceFrames a b c = .error .reverse := by
  unfold Stack.sliceFrames
  simp only
  rw [if_neg (by omega)]
  generalize sliceIndices a b (c.getD 1) s.numFrames = ij
  obtain ⟨i, j⟩ := ij
  simp only
  have hneg : s.st * c.getD 1 < 0 := Int.mul_neg_of_pos_of_neg hst hc
  split
  · left; rfl
  · right; first | rfl | rw [if_pos hneg]

example : Stack.sliceFrames ⟨0, 6, 1, ⟨0, 5, 0, 4⟩⟩ (some 4) (some 1) (some (-1)) = .error .reverse := by decide
example : Stack.sliceFrames ⟨0, 6, 1, ⟨0, 5, 0, 4⟩⟩ (some 1) (some 4) (some (-1)) = .error .empty := by decide

/-! ## Integer frame indices -/

/-- `stack[i]` shows exactly the frame `frames[i]` (negative `i` counts from the end) with step and ROI
    unchanged, and raises `IndexError` exactly when Python's `frames[i]` does. -/
theorem index_refines (s : Stack) (hst : 0 < s.st) (i : Int) :
    match s.index i, pyIndex s.frames i with
    | .ok s', some p => s'.frames = [p] ∧ s'.st = s.st ∧ s'.roi = s.roi
    | .error e, none => e = .index
    | _, _ => False := by
  obtain ⟨N, hN⟩ : ∃ N : Nat, s.numFrames = N :=
    ⟨s.numFrames.toNat, by have := numFrames_nonneg s hst; omega⟩
  have hlen : s.frames.length = N := by rw [length_frames, hN]; simp
  unfold Stack.index pyIndex
  simp only
  rw [hN, hlen]
  generalize hidx : (if i ≥ 0 then i else i + (N : Int)) = idx
  have single : ∀ ns : Int, Stack.frames { s with s0 := ns, s1 := ns + s.st } = [ns] := by
    intro ns
    unfold Stack.frames Stack.numFrames
    simp only
    have e : ns + s.st - ns - 1 = s.st - 1 := by omega
    rw [e, Int.max_eq_right (by omega), Int.ediv_eq_zero_of_lt (by omega) (by omega)]
    simp
  by_cases hneg : idx < 0
  · -- out of range below
    have hlow : s.s0 + s.st * idx < s.s0 := by
      have : s.st * idx < 0 := Int.mul_neg_of_pos_of_neg hst hneg
      omega
    rw [if_pos (Or.inl hlow)]
    have : (if i < 0 then (if i + (N : Int) < 0 then none else s.frames[(i + (N : Int)).toNat]?)
        else s.frames[i.toNat]?) = none := by
      split at hidx
      · omega
      · rw [if_pos (by omega), if_pos (by omega)]
    rw [this]
  · have hge : 0 ≤ idx := by omega
    have hiff := lt_numFrames_iff s hst idx hge
    rw [hN] at hiff
    have hnn : 0 ≤ s.st * idx := Int.mul_nonneg (Int.le_of_lt hst) hge
    have hget : (if i < 0 then (if i + (N : Int) < 0 then none else s.frames[(i + (N : Int)).toNat]?)
        else s.frames[i.toNat]?) = s.frames[idx.toNat]? := by
      split at hidx
      · rw [if_neg (by omega), hidx]
      · rw [if_pos (by omega), if_neg (by omega), hidx]
    rw [hget]
    by_cases hin : idx < (N : Int)
    · have h1 := hiff.mp hin
      rw [if_neg (by omega), getElem?_frames s idx.toNat (by rw [hN]; simp; omega)]
      refine ⟨?_, rfl, rfl⟩
      rw [single]
      have : ((idx.toNat : Nat) : Int) = idx := by omega
      rw [this, Int.mul_comm]
    · have h1 : ¬ (s.s0 + s.st * idx < s.s1) := fun h => hin (hiff.mpr h)
      rw [if_pos (Or.inr (by omega)), List.getElem?_eq_none (by rw [hlen]; omega)]

example : (Stack.index ⟨1, 12, 2, ⟨0, 5, 0, 4⟩⟩ (-2)).toOption.map Stack.frames = some [9] := by decide
example : Stack.index ⟨1, 12, 2, ⟨0, 5, 0, 4⟩⟩ 6 = .error .index := by decide
example : Stack.index ⟨1, 12, 2, ⟨0, 5, 0, 4⟩⟩ (-7) = .error .index := by decide

/-! ## Cropping and frame selection are independent -/

/-- `crop_by_pixels` never changes which frames are selected (finding F2 was that it did). -/
theorem crop_preserves_frames (s s' : Stack) (x0 x1 y0 y1 : Option Int)
    (h : s.cropPixels x0 x1 y0 y1 = .ok s') :
    s'.frames = s.frames ∧ s'.s0 = s.s0 ∧ s'.s1 = s.s1 ∧ s'.st = s.st := by
  unfold Stack.cropPixels at h
  cases hr : s.roi.crop x0 x1 y0 y1 with
  | error e => rw [hr] at h; cases h
  | ok r =>
    rw [hr] at h
    injection h with h
    subst h
    exact ⟨rfl, rfl, rfl, rfl⟩

/-- Frame selection (slice or integer) never changes the ROI. -/
theorem frames_preserve_roi (s s' : Stack) (f : Item) (h : s.frameItem f = .ok s') : s'.roi = s.roi := by
  cases f with
  | int i =>
    unfold Stack.frameItem Stack.index at h
    simp only at h
    generalize (if i ≥ 0 then i else i + s.numFrames) = idx at h
    by_cases hc : s.s0 + s.st * idx < s.s0 ∨ s.s0 + s.st * idx ≥ s.s1
    · rw [if_pos hc] at h; cases h
    · rw [if_neg hc] at h; injection h with h; subst h; rfl
  | slice a b c =>
    unfold Stack.frameItem Stack.sliceFrames at h
    simp only at h
    generalize sliceIndices a b (c.getD 1) s.numFrames = ij at h
    by_cases h0 : c.getD 1 = 0
    · rw [if_pos h0] at h; cases h
    · rw [if_neg h0] at h
      split at h
      · cases h
      · split at h
        · cases h
        · injection h with h; subst h; rfl

/-- The frame arithmetic does not look at the ROI. -/
theorem frameItem_roi_indep (s : Stack) (r : Roi) (f : Item) :
    Stack.frameItem { s with roi := r } f = (s.frameItem f).map fun t => { t with roi := r } := by
  cases f with
  | int i =>
    have key : ∀ idx : Int,
        (if s.s0 + s.st * idx < s.s0 ∨ s.s0 + s.st * idx ≥ s.s1 then (Except.error Err.index : Except Err Stack)
          else .ok ⟨s.s0 + s.st * idx, s.s0 + s.st * idx + s.st, s.st, r⟩) =
        Except.map (fun t : Stack => ({ t with roi := r } : Stack))
          (if s.s0 + s.st * idx < s.s0 ∨ s.s0 + s.st * idx ≥ s.s1 then (Except.error Err.index : Except Err Stack)
            else .ok ⟨s.s0 + s.st * idx, s.s0 + s.st * idx + s.st, s.st, s.roi⟩) := by
      intro idx
      by_cases hc : s.s0 + s.st * idx < s.s0 ∨ s.s0 + s.st * idx ≥ s.s1
      · rw [if_pos hc, if_pos hc]; rfl
      · rw [if_neg hc, if_neg hc]; rfl
    exact key _
  | slice a b c =>
    have key : ∀ (cv : Int) (ij : Int × Int),
        (if cv = 0 then (Except.error Err.value : Except Err Stack)
          else if s.s0 + s.st * ij.2 = s.s0 + s.st * ij.1 ∨
              (s.s0 + s.st * ij.2 - (s.s0 + s.st * ij.1)).sign ≠ (s.st * cv).sign then .error .empty
          else if s.st * cv < 0 then .error .reverse
          else .ok ⟨s.s0 + s.st * ij.1, s.s0 + s.st * ij.2, s.st * cv, r⟩) =
        Except.map (fun t : Stack => ({ t with roi := r } : Stack))
          (if cv = 0 then (Except.error Err.value : Except Err Stack)
          else if s.s0 + s.st * ij.2 = s.s0 + s.st * ij.1 ∨
              (s.s0 + s.st * ij.2 - (s.s0 + s.st * ij.1)).sign ≠ (s.st * cv).sign then .error .empty
          else if s.st * cv < 0 then .error .reverse
          else .ok ⟨s.s0 + s.st * ij.1, s.s0 + s.st * ij.2, s.st * cv, s.roi⟩) := by
      intro cv ij
      by_cases h0 : cv = 0
      · rw [if_pos h0, if_pos h0]; rfl
      · rw [if_neg h0, if_neg h0]
        by_cases h1 : s.s0 + s.st * ij.2 = s.s0 + s.st * ij.1 ∨
            (s.s0 + s.st * ij.2 - (s.s0 + s.st * ij.1)).sign ≠ (s.st * cv).sign
        · rw [if_pos h1, if_pos h1]; rfl
        · rw [if_neg h1, if_neg h1]
          by_cases h2 : s.st * cv < 0
          · rw [if_pos h2, if_pos h2]; rfl
          · rw [if_neg h2, if_neg h2]; rfl
    exact key _ _

/-- Cropping and frame selection commute: `s.crop(r)[f]` and `s[f].crop(r)` are the same stack, and one
    raises iff the other does. -/
theorem crop_frames_commute (s : Stack) (f : Item) (x0 x1 y0 y1 : Option Int) :
    ((s.cropPixels x0 x1 y0 y1).bind (·.frameItem f)).toOption =
      ((s.frameItem f).bind (·.cropPixels x0 x1 y0 y1)).toOption := by
  unfold Stack.cropPixels
  cases hr : s.roi.crop x0 x1 y0 y1 with
  | error e =>
    cases hf : s.frameItem f with
    | error e' => rfl
    | ok t =>
      have := frames_preserve_roi s t f hf
      simp only [Except.bind, Except.map, this, hr]
  | ok r =>
    simp only [Except.map, Except.bind]
    rw [frameItem_roi_indep]
    cases hf : s.frameItem f with
    | error e' => rfl
    | ok t =>
      have := frames_preserve_roi s t f hf
      simp only [Except.map, this, hr]

/-- A tuple index `s[f, rows, cols]` is the crop followed by the frame selection. -/
theorem getitem_tuple_decomposes (s : Stack) (f : Item) (ra rb ca cb : Option Int) :
    s.getitemTuple [f, .slice ra rb none, .slice ca cb none] =
      (s.cropPixels ca cb ra rb).bind (·.frameItem f) := by
  unfold Stack.getitemTuple Stack.cropPixels
  simp [interpretCrop, bind, Except.bind, Except.map, pure, Except.pure]
  cases hr : s.roi.crop ca cb ra rb with
  | error e => rfl
  | ok r =>
    simp only
    rw [frameItem_roi_indep s r f]
    cases s.frameItem f <;> rfl

/-- Non-vacuity of `crop_frames_commute`: both orders succeed and give frames `[1,3,5]`, ROI `(1,3,0,3)`. -/
example : ((Stack.cropPixels ⟨0, 6, 1, ⟨0, 5, 0, 4⟩⟩ (some 1) (some 3) none (some (-1))).bind
    (·.frameItem (.slice (some 1) none (some 2)))) = .ok ⟨1, 6, 2, ⟨1, 3, 0, 3⟩⟩ := by decide

/-! ## Finding F2: the pinned crop drops the step, kernel-checked -/

/-- `stack[::2].crop_by_pixels(1, 3, None, None)` on the pinned snapshot shows all six frames again. -/
theorem F2_witness :
    (Stack.cropPixelsUnfixed ⟨0, 6, 2, ⟨0, 5, 0, 4⟩⟩ (some 1) (some 3) none none).toOption.map Stack.frames
      ≠ some (Stack.frames ⟨0, 6, 2, ⟨0, 5, 0, 4⟩⟩) := by decide

/-- The same input on the repaired code (instance of `crop_preserves_frames`). -/
example : (Stack.cropPixels ⟨0, 6, 2, ⟨0, 5, 0, 4⟩⟩ (some 1) (some 3) none none).toOption.map Stack.frames
      = some [0, 2, 4] := by decide

/-! ## ROI re-cropping is NumPy slicing of the current image -/

/-- The ROI lies inside a raw image of `H` rows and `W` columns and is not empty. -/
def Roi.Within (r : Roi) (H W : Nat) : Prop :=
  0 ≤ r.xMin ∧ r.xMin < r.xMax ∧ r.xMax ≤ W ∧ 0 ≤ r.yMin ∧ r.yMin < r.yMax ∧ r.yMax ≤ H

/-- `Roi.crop` then `Roi.__call__` on the raw image is the NumPy slice `[y0:y1, x0:x1]` of the currently
    visible image — for `None`, negative and out-of-range bounds; the new ROI stays inside the raw image and
    non-empty; and the code raises (`ValueError`, "Max must be larger than min") exactly when that NumPy
    slice has no pixels. -/
theorem roi_crop_refines {α} (raw : List (List α)) (H W : Nat) (hH : raw.length = H)
    (hW : ∀ row ∈ raw, row.length = W) (r : Roi) (hr : r.Within H W) (x0 x1 y0 y1 : Option Int) :
    match r.crop x0 x1 y0 y1 with
    | .ok r' => r'.apply raw = pySlice2 (r.apply raw) x0 x1 y0 y1 ∧ r'.Within H W
    | .error e => e = .value ∧ (pySlice2 (r.apply raw) x0 x1 y0 y1).flatten = [] := by
  obtain ⟨hx0, hx01, hx1, hy0, hy01, hy1⟩ := hr
  have hrows := crop1 raw r.yMin r.yMax hy0 (by omega) (by omega) y0 y1 0 (r.yMax - r.yMin)
    (fun _ => rfl) (fun _ => rfl)
  have hcols : ∀ row ∈ raw, pySlice row (cropBound (r.xMax - r.xMin) 0 x0 + r.xMin)
      (cropBound (r.xMax - r.xMin) (r.xMax - r.xMin) x1 + r.xMin) = pySliceOpt (pySlice row r.xMin r.xMax) x0 x1 := by
    intro row hrow
    exact crop1 row r.xMin r.xMax hx0 (by omega) (by rw [hW row hrow]; omega) x0 x1 0 (r.xMax - r.xMin)
      (fun _ => rfl) (fun _ => rfl)
  have key : Roi.apply ⟨cropBound (r.xMax - r.xMin) 0 x0 + r.xMin,
        cropBound (r.xMax - r.xMin) (r.xMax - r.xMin) x1 + r.xMin,
        cropBound (r.yMax - r.yMin) 0 y0 + r.yMin,
        cropBound (r.yMax - r.yMin) (r.yMax - r.yMin) y1 + r.yMin⟩ raw
      = pySlice2 (r.apply raw) x0 x1 y0 y1 := by
    unfold Roi.apply pySlice2
    simp only
    rw [hrows, pySliceOpt_map, List.map_map]
    apply List.map_congr_left
    intro row hrow
    exact hcols row (mem_of_mem_pySlice (mem_of_mem_pySliceOpt hrow))
  have bx0 := cropBound_range (r.xMax - r.xMin) 0 x0 (by omega)
  have bx1 := cropBound_range (r.xMax - r.xMin) (r.xMax - r.xMin) x1 (by omega)
  have by0 := cropBound_range (r.yMax - r.yMin) 0 y0 (by omega)
  have by1 := cropBound_range (r.yMax - r.yMin) (r.yMax - r.yMin) y1 (by omega)
  unfold Roi.crop Roi.make Roi.width Roi.height
  simp only
  generalize hX0 : cropBound (r.xMax - r.xMin) 0 x0 + r.xMin = X0 at *
  generalize hX1 : cropBound (r.xMax - r.xMin) (r.xMax - r.xMin) x1 + r.xMin = X1 at *
  generalize hY0 : cropBound (r.yMax - r.yMin) 0 y0 + r.yMin = Y0 at *
  generalize hY1 : cropBound (r.yMax - r.yMin) (r.yMax - r.yMin) y1 + r.yMin = Y1 at *
  rw [if_neg (by omega)]
  by_cases hbad : X1 ≤ X0 ∨ Y1 ≤ Y0
  · rw [if_pos hbad]
    refine ⟨rfl, ?_⟩
    rw [← key]
    exact apply_empty _ _ hbad (by simp only; omega)
  · rw [if_neg hbad]
    refine ⟨key, ?_⟩
    unfold Roi.Within
    simp only
    omega

/-- Non-vacuity: negative and clipped bounds on an already cropped image. -/
example : (Roi.crop ⟨1, 5, 1, 4⟩ (some (-3)) (some 99) none (some (-1))) = .ok ⟨2, 5, 1, 3⟩ := by decide
example : (Roi.crop ⟨1, 5, 1, 4⟩ (some 3) (some 2) none none) = .error .value := by decide
example : Roi.Within ⟨1, 5, 1, 4⟩ 4 5 := by unfold Roi.Within; decide

/-- Shape of the visible image: `height × width` of the ROI. -/
theorem roi_apply_shape {α} (raw : List (List α)) (H W : Nat) (hH : raw.length = H)
    (hW : ∀ row ∈ raw, row.length = W) (r : Roi) (hr : r.Within H W) :
    ((r.apply raw).length : Int) = r.height ∧ ∀ row ∈ r.apply raw, (row.length : Int) = r.width := by
  obtain ⟨hx0, hx01, hx1, hy0, hy01, hy1⟩ := hr
  unfold Roi.apply Roi.height Roi.width
  constructor
  · rw [List.length_map, pySlice_nonneg' _ _ _ hy0 (by omega)]
    simp only [List.length_drop, List.length_take]; omega
  · intro row hrow
    rw [List.mem_map] at hrow
    obtain ⟨row0, h0, rfl⟩ := hrow
    have := hW row0 (mem_of_mem_pySlice h0)
    rw [pySlice_nonneg' _ _ _ hx0 (by omega)]
    simp only [List.length_drop, List.length_take]; omega

/-! ## Legacy frame ranges -/

/-- `_frame_timestamps_from_exposure_timestamps`: as many ranges as frames; every frame but the last
    runs from its own start to the next frame's start (so the ranges are contiguous); the last one is as
    long as the distance of the last two starts (or keeps its stop when it is alone). -/
theorem legacy_frame_ranges (ts : List (Int × Int)) (hne : ts ≠ []) :
    ∃ r, legacyRanges ts = some r ∧ r.length = ts.length ∧
      (∀ i, i + 1 < ts.length → r[i]? = (ts[i]?.bind fun a => ts[i + 1]?.map fun b => (a.1, b.1))) ∧
      r[ts.length - 1]? = (ts.getLast?.map fun last =>
        (last.1, match ts[ts.length - 2]? with
          | some prev => if 2 ≤ ts.length then last.1 + (last.1 - prev.1) else last.2
          | none => last.2)) := by
  obtain ⟨last, hlast⟩ : ∃ last, ts.getLast? = some last := by
    cases h : ts.getLast? with
    | none => exact absurd (List.getLast?_eq_none_iff.mp h) hne
    | some l => exact ⟨l, rfl⟩
  have hlen : 0 < ts.length := List.length_pos_iff.mpr hne
  have hbody : ((ts.zip (ts.drop 1)).map fun (x : (Int × Int) × (Int × Int)) => (x.1.1, x.2.1)).length
      = ts.length - 1 := by
    simp only [List.length_map, List.length_zip, List.length_drop]; omega
  unfold legacyRanges
  rw [hlast]
  refine ⟨_, rfl, ?_, ?_, ?_⟩
  · rw [List.length_append, hbody]; simp; omega
  · intro i hi
    have : (ts.zip (ts.drop 1))[i]? = some (ts[i], ts[i + 1]) := by
      rw [List.getElem?_zip_eq_some]
      refine ⟨List.getElem?_eq_getElem _, ?_⟩
      rw [List.getElem?_drop, List.getElem?_eq_getElem (by omega)]
      congr 2; omega
    rw [List.getElem?_append_left (by rw [hbody]; omega), List.getElem?_map, this,
      List.getElem?_eq_getElem (by omega : i < ts.length),
      List.getElem?_eq_getElem (by omega : i + 1 < ts.length)]
    rfl
  · rw [List.getElem?_append_right (by rw [hbody]; omega), hbody]
    simp only [Nat.sub_self, List.getElem?_cons_zero, Option.map_some, Option.some.injEq, Prod.mk.injEq,
      true_and]
    by_cases h2 : 2 ≤ ts.length
    · rw [if_pos h2]
      rw [List.getElem?_eq_getElem (by omega : ts.length - 2 < ts.length)]
      simp [h2]
    · rw [if_neg h2]
      have : ts.length - 2 = 0 := by omega
      rw [this]
      cases ts[0]? <;> simp [h2]

example : legacyRanges [(10, 18), (20, 28), (35, 43)] = some [(10, 20), (20, 35), (35, 50)] := by decide
example : legacyRanges [(10, 18)] = some [(10, 18)] := by decide

end Verif.C07
