/-
  C07 — property theorems (statements + short proofs; helper lemmas live in Lemmas/C07).
  Every theorem is about the executable model in `Verif.Model.C07`, which the correspondence check ties to
  `lumicks/pylake/image_stack.py`, `detail/widefield.py` and `detail/imaging_mixins.py` on every run.
  The specifications are Python's own list operations from `Verif.Py` (`pySliceStep`, `pyIndex`, `pySlice`).
-/
import Verif.Lemmas.C07
import Verif.Lemmas.C07D

namespace Verif.C07
open Verif.Py

/-! ## Which pages a stack shows -/

/-- `num_frames` is the number of frames the stack iterates over. -/
theorem num_frames_eq_length (s : Stack) (hst : 0 < s.st) : s.numFrames = s.frames.length := by
  rw [length_frames]; have := numFrames_nonneg s hst; omega

/-- Independent description of the visible pages: exactly the pages `p` of `range(s0, s1, st)`. -/
theorem mem_frames_iff (s : Stack) (hst : 0 < s.st) (p : Int) :
    p ∈ s.frames ↔ s.s0 ≤ p ∧ p < s.s1 ∧ (p - s.s0) % s.st = 0 := by
  unfold Stack.frames
  simp only [List.mem_map, List.mem_range]
  constructor
  · rintro ⟨k, hk, rfl⟩
    have hk' : (k : Int) < s.numFrames := by omega
    have h1 := (lt_numFrames_iff s hst k (by omega)).mp hk'
    have h2 : 0 ≤ (k : Int) * s.st := Int.mul_nonneg (by omega) (Int.le_of_lt hst)
    rw [Int.mul_comm] at h1
    refine ⟨by omega, by omega, ?_⟩
    have : s.s0 + (k : Int) * s.st - s.s0 = (k : Int) * s.st := by omega
    rw [this, Int.mul_emod_left]
  · rintro ⟨h0, h1, h2⟩
    have hdvd : s.st ∣ (p - s.s0) := Int.dvd_of_emod_eq_zero h2
    obtain ⟨q, hq⟩ := hdvd
    have hq0 : 0 ≤ q := by
      by_cases h : 0 ≤ q
      · exact h
      · have : s.st * q ≤ s.st * (-1) := Int.mul_le_mul_of_nonneg_left (by omega) (Int.le_of_lt hst)
        omega
    have hlt : q < s.numFrames := (lt_numFrames_iff s hst q hq0).mpr (by omega)
    refine ⟨q.toNat, by omega, ?_⟩
    have : ((q.toNat : Nat) : Int) = q := by omega
    rw [this, Int.mul_comm]; omega

/-- … in increasing order, each once. -/
theorem frames_strictly_increasing (s : Stack) (hst : 0 < s.st) : s.frames.Pairwise (· < ·) := by
  unfold Stack.frames
  rw [List.pairwise_map]
  have : (List.range s.numFrames.toNat).Pairwise (· < ·) := List.pairwise_lt_range
  refine this.imp ?_
  intro a b hab
  have : (a : Int) * s.st < (b : Int) * s.st := Int.mul_lt_mul_of_pos_right (by omega) hst
  omega

example : Stack.frames ⟨1, 6, 2, ⟨0, 5, 0, 4⟩⟩ = [1, 3, 5] := by decide

/-! ## Frame slices -/

/-- `stack[a:b:c]` for every positive step (and `None`): when the code returns a stack its frames are
    exactly `frames[a:b:c]` (never empty), the step stays positive and the ROI is untouched; it raises
    ("Slice is empty") exactly when `frames[a:b:c]` is empty.  Holds for any depth of nesting because
    the hypothesis `0 < st` is re-established. -/
theorem slice_refines (s : Stack) (hst : 0 < s.st) (a b c : Option Int) (hc : 0 < c.getD 1) :
    match s.sliceFrames a b c with
    | .ok s' => s'.frames = pySliceStep s.frames a b (c.getD 1).toNat ∧ s'.frames ≠ [] ∧
        0 < s'.st ∧ s'.roi = s.roi
    | .error e => e = .empty ∧ pySliceStep s.frames a b (c.getD 1).toNat = [] := by
  obtain ⟨N, hN⟩ : ∃ N : Nat, s.numFrames = N :=
    ⟨s.numFrames.toNat, by have := numFrames_nonneg s hst; omega⟩
  have hlen : s.frames.length = N := by rw [length_frames, hN]; simp
  have hle := sliceIndicesPos_le a b N
  unfold Stack.sliceFrames pySliceStep
  simp only
  generalize c.getD 1 = cv at *
  obtain ⟨cn, hcn⟩ : ∃ cn : Nat, cv = cn := ⟨cv.toNat, by omega⟩
  subst hcn
  rw [if_neg (by omega), hN, sliceIndices_pos a b cn hc N, hlen]
  generalize sliceIndicesPos a b N = ij at *
  obtain ⟨i, j⟩ := ij
  simp only [Int.toNat_natCast, Int.ofNat_eq_natCast] at *
  have hstc : 0 < s.st * (cn : Int) := Int.mul_pos hst hc
  have hdiff : s.s0 + s.st * (j : Int) - (s.s0 + s.st * (i : Int)) = s.st * ((j : Int) - (i : Int)) := by
    rw [Int.mul_sub]; omega
  by_cases hij : i < j
  · have hpos : 0 < s.st * ((j : Int) - (i : Int)) := Int.mul_pos hst (by omega)
    have hcond : ¬ (s.s0 + s.st * (j : Int) = s.s0 + s.st * (i : Int) ∨
        (s.s0 + s.st * (j : Int) - (s.s0 + s.st * (i : Int))).sign ≠ (s.st * (cn : Int)).sign) := by
      rw [hdiff, Int.sign_eq_one_of_pos hpos, Int.sign_eq_one_of_pos hstc]
      intro h
      rcases h with h | h
      · omega
      · exact h rfl
    rw [if_neg hcond, if_neg (by omega)]
    simp only
    have hfs := frames_substack s hst N hN i j cn hij hle.2 (by omega)
    refine ⟨hfs, ?_, hstc, trivial⟩
    rw [hfs]
    have hfr : s.frames = (List.range N).map (fun (k : Nat) => s.s0 + (k : Int) * s.st) := by
      unfold Stack.frames; rw [hN]; simp
    rw [hfr, ← List.map_take, ← List.map_drop, take_drop_range, Nat.min_eq_left hle.2]
    obtain ⟨m, hm⟩ : ∃ m, j - i = m + 1 := ⟨j - i - 1, by omega⟩
    rw [hm, List.range'_succ, List.map_cons, everyNth_cons]
    exact List.cons_ne_nil _ _
  · have hnp : s.st * ((j : Int) - (i : Int)) ≤ 0 := by
      have : s.st * ((j : Int) - (i : Int)) ≤ s.st * 0 :=
        Int.mul_le_mul_of_nonneg_left (by omega) (Int.le_of_lt hst)
      omega
    have hcond : (s.s0 + s.st * (j : Int) = s.s0 + s.st * (i : Int) ∨
        (s.s0 + s.st * (j : Int) - (s.s0 + s.st * (i : Int))).sign ≠ (s.st * (cn : Int)).sign) := by
      rw [hdiff, Int.sign_eq_one_of_pos hstc]
      by_cases h0 : s.st * ((j : Int) - (i : Int)) = 0
      · left; omega
      · right
        rw [Int.sign_eq_neg_one_of_neg (by omega)]
        decide
    rw [if_pos hcond]
    refine ⟨rfl, ?_⟩
    have : (s.frames.take j).drop i = [] := by
      apply List.eq_nil_of_length_eq_zero
      simp only [List.length_drop, List.length_take]; omega
    rw [this, everyNth_nil]

/-- Non-vacuity: a stepped slice of a stepped stack, negative bound. -/
example : (Stack.sliceFrames ⟨1, 12, 2, ⟨0, 5, 0, 4⟩⟩ (some 1) (some (-1)) (some 2)).toOption.map Stack.frames
    = some [3, 7] := by decide
example : pySliceStep (Stack.frames ⟨1, 12, 2, ⟨0, 5, 0, 4⟩⟩) (some 1) (some (-1)) 2 = [3, 7] := by
  have h : Stack.frames ⟨1, 12, 2, ⟨0, 5, 0, 4⟩⟩ = [1, 3, 5, 7, 9, 11] := by decide
  rw [h]
  simp [pySliceStep, sliceIndicesPos, pyNorm, everyNth_cons, everyNth_nil]

/-- A zero step is the `ValueError` of `slice.indices`. -/
theorem slice_zero_step (s : Stack) (a b : Option Int) : s.sliceFrames a b (some 0) = .error .value := by
  unfold Stack.sliceFrames; simp

/-- A negative step never returns a stack: the code raises `NotImplementedError` ("Slice is empty" or
    "Reverse slicing is not supported"). -/
theorem slice_negative_step (s : Stack) (hst : 0 < s.st) (a b c : Option Int) (hc : c.getD 1 < 0) :
    s.sliceFrames a b c = .error .empty ∨ s.sliceFrames a b c = .error .reverse := by
  unfold Stack.sliceFrames
  simp only
  rw [if_neg (by omega)]
  generalize sliceIndices a b (c.getD 1) s.numFrames = ij
  obtain ⟨i, j⟩ := ij
  simp only
  have hneg : s.st * c.getD 1 < 0 := Int.mul_neg_of_pos_of_neg hst hc
  split
  · left; rfl
  · right; rfl

example : Stack.sliceFrames ⟨0, 6, 1, ⟨0, 5, 0, 4⟩⟩ (some 4) (some 1) (some (-1)) = .error .reverse := by decide
example : Stack.sliceFrames ⟨0, 6, 1, ⟨0, 5, 0, 4⟩⟩ (some 1) (some 4) (some (-1)) = .error .empty := by decide

/-! ## Integer frame indices -/

/-- `stack[i]` shows exactly the frame `frames[i]` (negative `i` counts from the end) with step and ROI
    unchanged, and raises `IndexError` exactly when Python's `frames[i]` does. -/
theorem index_refines (s : Stack) (hst : 0 < s.st) (i : Int) :
    match s.index i, pyIndex s.frames i with
    | .ok s', some p => s'.frames = [p] ∧ s'.st = s.st ∧ s'.roi = s.roi
    | .error e, none => e = .index
    | _, _ => False := by
  obtain ⟨N, hN⟩ : ∃ N : Nat, s.numFrames = N :=
    ⟨s.numFrames.toNat, by have := numFrames_nonneg s hst; omega⟩
  have hlen : s.frames.length = N := by rw [length_frames, hN]; simp
  unfold Stack.index pyIndex
  simp only
  rw [hN, hlen]
  generalize hidx : (if i ≥ 0 then i else i + (N : Int)) = idx
  have single : ∀ ns : Int, Stack.frames { s with s0 := ns, s1 := ns + s.st } = [ns] := by
    intro ns
    unfold Stack.frames Stack.numFrames
    simp only
    have e : ns + s.st - ns - 1 = s.st - 1 := by omega
    rw [e, Int.max_eq_right (by omega), Int.ediv_eq_zero_of_lt (by omega) (by omega)]
    simp
  by_cases hneg : idx < 0
  · -- out of range below
    have hlow : s.s0 + s.st * idx < s.s0 := by
      have : s.st * idx < 0 := Int.mul_neg_of_pos_of_neg hst hneg
      omega
    rw [if_pos (Or.inl hlow)]
    have : (if i < 0 then (if i + (N : Int) < 0 then none else s.frames[(i + (N : Int)).toNat]?)
        else s.frames[i.toNat]?) = none := by
      split at hidx
      · omega
      · rw [if_pos (by omega), if_pos (by omega)]
    rw [this]
  · have hge : 0 ≤ idx := by omega
    have hiff := lt_numFrames_iff s hst idx hge
    rw [hN] at hiff
    have hnn : 0 ≤ s.st * idx := Int.mul_nonneg (Int.le_of_lt hst) hge
    have hget : (if i < 0 then (if i + (N : Int) < 0 then none else s.frames[(i + (N : Int)).toNat]?)
        else s.frames[i.toNat]?) = s.frames[idx.toNat]? := by
      split at hidx
      · rw [if_neg (by omega), hidx]
      · rw [if_pos (by omega), if_neg (by omega), hidx]
    rw [hget]
    by_cases hin : idx < (N : Int)
    · have h1 := hiff.mp hin
      rw [if_neg (by omega), getElem?_frames s idx.toNat (by rw [hN]; simp; omega)]
      refine ⟨?_, rfl, rfl⟩
      rw [single]
      have : ((idx.toNat : Nat) : Int) = idx := by omega
      rw [this, Int.mul_comm]
    · have h1 : ¬ (s.s0 + s.st * idx < s.s1) := fun h => hin (hiff.mpr h)
      rw [if_pos (Or.inr (by omega)), List.getElem?_eq_none (by rw [hlen]; omega)]

example : (Stack.index ⟨1, 12, 2, ⟨0, 5, 0, 4⟩⟩ (-2)).toOption.map Stack.frames = some [9] := by decide
example : Stack.index ⟨1, 12, 2, ⟨0, 5, 0, 4⟩⟩ 6 = .error .index := by decide
example : Stack.index ⟨1, 12, 2, ⟨0, 5, 0, 4⟩⟩ (-7) = .error .index := by decide

/-! ## Cropping and frame selection are independent -/

/-- `crop_by_pixels` never changes which frames are selected (finding F2 was that it did). -/
theorem crop_preserves_frames (s s' : Stack) (x0 x1 y0 y1 : Option Int)
    (h : s.cropPixels x0 x1 y0 y1 = .ok s') :
    s'.frames = s.frames ∧ s'.s0 = s.s0 ∧ s'.s1 = s.s1 ∧ s'.st = s.st := by
  unfold Stack.cropPixels at h
  cases hr : s.roi.crop x0 x1 y0 y1 with
  | error e => rw [hr] at h; cases h
  | ok r =>
    rw [hr] at h
    injection h with h
    subst h
    exact ⟨rfl, rfl, rfl, rfl⟩

/-- Frame selection (slice or integer) never changes the ROI. -/
theorem frames_preserve_roi (s s' : Stack) (f : Item) (h : s.frameItem f = .ok s') : s'.roi = s.roi := by
  cases f with
  | int i =>
    unfold Stack.frameItem Stack.index at h
    simp only at h
    generalize (if i ≥ 0 then i else i + s.numFrames) = idx at h
    by_cases hc : s.s0 + s.st * idx < s.s0 ∨ s.s0 + s.st * idx ≥ s.s1
    · rw [if_pos hc] at h; cases h
    · rw [if_neg hc] at h; injection h with h; subst h; rfl
  | slice a b c =>
    unfold Stack.frameItem Stack.sliceFrames at h
    simp only at h
    generalize sliceIndices a b (c.getD 1) s.numFrames = ij at h
    by_cases h0 : c.getD 1 = 0
    · rw [if_pos h0] at h; cases h
    · rw [if_neg h0] at h
      split at h
      · cases h
      · split at h
        · cases h
        · injection h with h; subst h; rfl

/-- The frame arithmetic does not look at the ROI. -/
theorem frameItem_roi_indep (s : Stack) (r : Roi) (f : Item) :
    Stack.frameItem { s with roi := r } f = (s.frameItem f).map fun t => { t with roi := r } := by
  cases f with
  | int i =>
    have key : ∀ idx : Int,
        (if s.s0 + s.st * idx < s.s0 ∨ s.s0 + s.st * idx ≥ s.s1 then (Except.error Err.index : Except Err Stack)
          else .ok ⟨s.s0 + s.st * idx, s.s0 + s.st * idx + s.st, s.st, r⟩) =
        Except.map (fun t : Stack => ({ t with roi := r } : Stack))
          (if s.s0 + s.st * idx < s.s0 ∨ s.s0 + s.st * idx ≥ s.s1 then (Except.error Err.index : Except Err Stack)
            else .ok ⟨s.s0 + s.st * idx, s.s0 + s.st * idx + s.st, s.st, s.roi⟩) := by
      intro idx
      by_cases hc : s.s0 + s.st * idx < s.s0 ∨ s.s0 + s.st * idx ≥ s.s1
      · rw [if_pos hc, if_pos hc]; rfl
      · rw [if_neg hc, if_neg hc]; rfl
    exact key _
  | slice a b c =>
    have key : ∀ (cv : Int) (ij : Int × Int),
        (if cv = 0 then (Except.error Err.value : Except Err Stack)
          else if s.s0 + s.st * ij.2 = s.s0 + s.st * ij.1 ∨
              (s.s0 + s.st * ij.2 - (s.s0 + s.st * ij.1)).sign ≠ (s.st * cv).sign then .error .empty
          else if s.st * cv < 0 then .error .reverse
          else .ok ⟨s.s0 + s.st * ij.1, s.s0 + s.st * ij.2, s.st * cv, r⟩) =
        Except.map (fun t : Stack => ({ t with roi := r } : Stack))
          (if cv = 0 then (Except.error Err.value : Except Err Stack)
          else if s.s0 + s.st * ij.2 = s.s0 + s.st * ij.1 ∨
              (s.s0 + s.st * ij.2 - (s.s0 + s.st * ij.1)).sign ≠ (s.st * cv).sign then .error .empty
          else if s.st * cv < 0 then .error .reverse
          else .ok ⟨s.s0 + s.st * ij.1, s.s0 + s.st * ij.2, s.st * cv, s.roi⟩) := by
      intro cv ij
      by_cases h0 : cv = 0
      · rw [if_pos h0, if_pos h0]; rfl
      · rw [if_neg h0, if_neg h0]
        by_cases h1 : s.s0 + s.st * ij.2 = s.s0 + s.st * ij.1 ∨
            (s.s0 + s.st * ij.2 - (s.s0 + s.st * ij.1)).sign ≠ (s.st * cv).sign
        · rw [if_pos h1, if_pos h1]; rfl
        · rw [if_neg h1, if_neg h1]
          by_cases h2 : s.st * cv < 0
          · rw [if_pos h2, if_pos h2]; rfl
          · rw [if_neg h2, if_neg h2]; rfl
    exact key _ _

/-- Cropping and frame selection commute: `s.crop(r)[f]` and `s[f].crop(r)` are the same stack, and one
    raises iff the other does. -/
theorem crop_frames_commute (s : Stack) (f : Item) (x0 x1 y0 y1 : Option Int) :
    ((s.cropPixels x0 x1 y0 y1).bind (·.frameItem f)).toOption =
      ((s.frameItem f).bind (·.cropPixels x0 x1 y0 y1)).toOption := by
  unfold Stack.cropPixels
  cases hr : s.roi.crop x0 x1 y0 y1 with
  | error e =>
    cases hf : s.frameItem f with
    | error e' => rfl
    | ok t =>
      have := frames_preserve_roi s t f hf
      simp only [Except.bind, Except.map, this, hr]
  | ok r =>
    simp only [Except.map, Except.bind]
    rw [frameItem_roi_indep]
    cases hf : s.frameItem f with
    | error e' => rfl
    | ok t =>
      have := frames_preserve_roi s t f hf
      simp only [Except.map, this, hr]

/-- A tuple index `s[f, rows, cols]` is the crop followed by the frame selection. -/
theorem getitem_tuple_decomposes (s : Stack) (f : Item) (ra rb ca cb : Option Int) :
    s.getitemTuple [f, .slice ra rb none, .slice ca cb none] =
      (s.cropPixels ca cb ra rb).bind (·.frameItem f) := by
  unfold Stack.getitemTuple Stack.cropPixels
  simp [interpretCrop, bind, Except.bind, Except.map, pure, Except.pure]
  cases hr : s.roi.crop ca cb ra rb with
  | error e => rfl
  | ok r =>
    simp only
    rw [frameItem_roi_indep s r f]
    cases s.frameItem f <;> rfl

/-- Non-vacuity of `crop_frames_commute`: both orders succeed and give frames `[1,3,5]`, ROI `(1,3,0,3)`. -/
example : ((Stack.cropPixels ⟨0, 6, 1, ⟨0, 5, 0, 4⟩⟩ (some 1) (some 3) none (some (-1))).bind
    (·.frameItem (.slice (some 1) none (some 2)))) = .ok ⟨1, 6, 2, ⟨1, 3, 0, 3⟩⟩ := by decide

/-- Non-vacuity of `frames_preserve_roi`. -/
example : (Stack.frameItem ⟨0, 6, 1, ⟨1, 3, 0, 3⟩⟩ (.int (-1))) = .ok ⟨5, 6, 1, ⟨1, 3, 0, 3⟩⟩ := by decide

/-! ## The step stays positive -/

/-- Every operation that returns a stack keeps the step positive, so the hypothesis `0 < st` of the
    theorems above holds for every stack reachable from `ImageStack(...)` (step 1). -/
theorem step_positive_preserved (s s' : Stack) (hst : 0 < s.st) :
    (∀ f, s.frameItem f = .ok s' → 0 < s'.st) ∧
    (∀ x0 x1 y0 y1, s.cropPixels x0 x1 y0 y1 = .ok s' → 0 < s'.st) ∧
    (∀ items, s.getitemTuple items = .ok s' → 0 < s'.st) := by
  have hframe : ∀ (t : Stack) f, s.frameItem f = .ok t → 0 < t.st := by
    intro t f h
    cases f with
    | int i =>
      have := index_refines s hst i
      simp only [Stack.frameItem] at h
      rw [h] at this
      cases hp : pyIndex s.frames i with
      | none => rw [hp] at this; exact this.elim
      | some p => rw [hp] at this; rw [this.2.1]; exact hst
    | slice a b c =>
      simp only [Stack.frameItem] at h
      rcases Int.lt_trichotomy (c.getD 1) 0 with hc | hc | hc
      · rcases slice_negative_step s hst a b c hc with h' | h' <;> rw [h'] at h <;> cases h
      · unfold Stack.sliceFrames at h
        simp only [hc, if_true] at h
        cases h
      · have := slice_refines s hst a b c hc
        rw [h] at this
        exact this.2.2.1
  refine ⟨hframe s', ?_, ?_⟩
  · intro x0 x1 y0 y1 h
    rw [(crop_preserves_frames s s' x0 x1 y0 y1 h).2.2.2]; exact hst
  · intro items h
    unfold Stack.getitemTuple at h
    cases items with
    | nil => cases h
    | cons f rest =>
      simp only [bind, Except.bind, pure, Except.pure] at h
      repeat' split at h
      all_goals first
        | (cases h; done)
        | (cases h; rename_i t hf; exact hframe t f hf)
/-! ## Finding F2: the pinned crop drops the step, kernel-checked -/

/-- `stack[::2].crop_by_pixels(1, 3, None, None)` on the pinned snapshot shows all six frames again. -/
theorem F2_witness :
    (Stack.cropPixelsUnfixed ⟨0, 6, 2, ⟨0, 5, 0, 4⟩⟩ (some 1) (some 3) none none).toOption.map Stack.frames
      ≠ some (Stack.frames ⟨0, 6, 2, ⟨0, 5, 0, 4⟩⟩) := by decide

/-- The same input on the repaired code (instance of `crop_preserves_frames`). -/
example : (Stack.cropPixels ⟨0, 6, 2, ⟨0, 5, 0, 4⟩⟩ (some 1) (some 3) none none).toOption.map Stack.frames
      = some [0, 2, 4] := by decide

/-! ## Finding F9: a tether whose left end was cropped away wraps around in `to_kymo`, kernel-checked -/

/-- Image of 6 rows × 10 columns, tether from `(1, 2)` to `(8, 2)`, then `crop_by_pixels(4, None, None, None)`: the
    processed ends are `(-3, 2)` and `(4, 2)`.  `_kymo_from_image_stack` hands `xmin = -3` to `crop_by_pixels`,
    where it is read as a negative index (`-3 + 6 = 3`): the kymograph shows columns 7–8 of the raw image
    instead of the part 4–8 of the tether row that lies inside the cropped image. -/
theorem F9_witness :
    (Stack.kymoStackUnfixed ⟨0, 3, 1, ⟨4, 10, 0, 6⟩⟩ (-3) 2 4 2 0).toOption.map Stack.roi = some ⟨7, 9, 2, 3⟩ ∧
    (Stack.kymoStack ⟨0, 3, 1, ⟨4, 10, 0, 6⟩⟩ (-3) 2 4 2 0).toOption.map Stack.roi = some ⟨4, 9, 2, 3⟩ := by decide

/-! ## ROI re-cropping is NumPy slicing of the current image -/

/-- `Roi.crop` then `Roi.__call__` on the raw image is the NumPy slice `[y0:y1, x0:x1]` of the currently
    visible image — for `None`, negative and out-of-range bounds; the new ROI stays inside the raw image and
    non-empty; and the code raises (`ValueError`, "Max must be larger than min") exactly when that NumPy
    slice has no pixels. -/
theorem roi_crop_refines {α} (raw : List (List α)) (H W : Nat) (hH : raw.length = H)
    (hW : ∀ row ∈ raw, row.length = W) (r : Roi) (hr : r.Within H W) (x0 x1 y0 y1 : Option Int) :
    match r.crop x0 x1 y0 y1 with
    | .ok r' => r'.apply raw = pySlice2 (r.apply raw) x0 x1 y0 y1 ∧ r'.Within H W
    | .error e => e = .value ∧ (pySlice2 (r.apply raw) x0 x1 y0 y1).flatten = [] := by
  obtain ⟨hx0, hx01, hx1, hy0, hy01, hy1⟩ := hr
  have hrows := crop1 raw r.yMin r.yMax hy0 (by omega) (by omega) y0 y1 0 (r.yMax - r.yMin)
    (fun _ => rfl) (fun _ => rfl)
  have hcols : ∀ row ∈ raw, pySlice row (cropBound (r.xMax - r.xMin) 0 x0 + r.xMin)
      (cropBound (r.xMax - r.xMin) (r.xMax - r.xMin) x1 + r.xMin) = pySliceOpt (pySlice row r.xMin r.xMax) x0 x1 := by
    intro row hrow
    exact crop1 row r.xMin r.xMax hx0 (by omega) (by rw [hW row hrow]; omega) x0 x1 0 (r.xMax - r.xMin)
      (fun _ => rfl) (fun _ => rfl)
  have key : Roi.apply ⟨cropBound (r.xMax - r.xMin) 0 x0 + r.xMin,
        cropBound (r.xMax - r.xMin) (r.xMax - r.xMin) x1 + r.xMin,
        cropBound (r.yMax - r.yMin) 0 y0 + r.yMin,
        cropBound (r.yMax - r.yMin) (r.yMax - r.yMin) y1 + r.yMin⟩ raw
      = pySlice2 (r.apply raw) x0 x1 y0 y1 := by
    unfold Roi.apply pySlice2
    simp only
    rw [hrows, pySliceOpt_map, List.map_map]
    apply List.map_congr_left
    intro row hrow
    exact hcols row (mem_of_mem_pySlice (mem_of_mem_pySliceOpt hrow))
  have bx0 := cropBound_range (r.xMax - r.xMin) 0 x0 (by omega)
  have bx1 := cropBound_range (r.xMax - r.xMin) (r.xMax - r.xMin) x1 (by omega)
  have by0 := cropBound_range (r.yMax - r.yMin) 0 y0 (by omega)
  have by1 := cropBound_range (r.yMax - r.yMin) (r.yMax - r.yMin) y1 (by omega)
  unfold Roi.crop Roi.make Roi.width Roi.height
  simp only
  generalize hX0 : cropBound (r.xMax - r.xMin) 0 x0 + r.xMin = X0 at *
  generalize hX1 : cropBound (r.xMax - r.xMin) (r.xMax - r.xMin) x1 + r.xMin = X1 at *
  generalize hY0 : cropBound (r.yMax - r.yMin) 0 y0 + r.yMin = Y0 at *
  generalize hY1 : cropBound (r.yMax - r.yMin) (r.yMax - r.yMin) y1 + r.yMin = Y1 at *
  rw [if_neg (by omega)]
  by_cases hbad : X1 ≤ X0 ∨ Y1 ≤ Y0
  · rw [if_pos hbad]
    refine ⟨rfl, ?_⟩
    rw [← key]
    exact apply_empty _ _ hbad (by simp only; omega)
  · rw [if_neg hbad]
    refine ⟨key, ?_⟩
    unfold Roi.Within
    simp only
    omega

/-- Non-vacuity: negative and clipped bounds on an already cropped image. -/
example : (Roi.crop ⟨1, 5, 1, 4⟩ (some (-3)) (some 99) none (some (-1))) = .ok ⟨2, 5, 1, 3⟩ := by decide
example : (Roi.crop ⟨1, 5, 1, 4⟩ (some 3) (some 2) none none) = .error .value := by decide
example : Roi.Within ⟨1, 5, 1, 4⟩ 4 5 := by unfold Roi.Within; decide

/-- Shape of the visible image: `height × width` of the ROI. -/
theorem roi_apply_shape {α} (raw : List (List α)) (H W : Nat) (hH : raw.length = H)
    (hW : ∀ row ∈ raw, row.length = W) (r : Roi) (hr : r.Within H W) :
    ((r.apply raw).length : Int) = r.height ∧ ∀ row ∈ r.apply raw, (row.length : Int) = r.width := by
  obtain ⟨hx0, hx01, hx1, hy0, hy01, hy1⟩ := hr
  unfold Roi.apply Roi.height Roi.width
  constructor
  · rw [List.length_map, pySlice_nonneg' _ _ _ hy0 (by omega)]
    simp only [List.length_drop, List.length_take]; omega
  · intro row hrow
    rw [List.mem_map] at hrow
    obtain ⟨row0, h0, rfl⟩ := hrow
    have := hW row0 (mem_of_mem_pySlice h0)
    rw [pySlice_nonneg' _ _ _ hx0 (by omega)]
    simp only [List.length_drop, List.length_take]; omega

/-! ## Legacy frame ranges -/

/-- `_frame_timestamps_from_exposure_timestamps`: as many ranges as frames; every frame but the last
    runs from its own start to the next frame's start (so the ranges are contiguous); the last one is as
    long as the distance of the last two starts (or keeps its stop when it is alone). -/
theorem legacy_frame_ranges (ts : List (Int × Int)) (hne : ts ≠ []) :
    ∃ r, legacyRanges ts = some r ∧ r.length = ts.length ∧
      (∀ i, i + 1 < ts.length → r[i]? = (ts[i]?.bind fun a => ts[i + 1]?.map fun b => (a.1, b.1))) ∧
      r[ts.length - 1]? = (ts.getLast?.map fun last =>
        (last.1, match ts[ts.length - 2]? with
          | some prev => if 2 ≤ ts.length then last.1 + (last.1 - prev.1) else last.2
          | none => last.2)) := by
  obtain ⟨last, hlast⟩ : ∃ last, ts.getLast? = some last := by
    cases h : ts.getLast? with
    | none => exact absurd (List.getLast?_eq_none_iff.mp h) hne
    | some l => exact ⟨l, rfl⟩
  have hlen : 0 < ts.length := List.length_pos_iff.mpr hne
  have hbody : ((ts.zip (ts.drop 1)).map fun (x : (Int × Int) × (Int × Int)) => (x.1.1, x.2.1)).length
      = ts.length - 1 := by
    simp only [List.length_map, List.length_zip, List.length_drop]; omega
  unfold legacyRanges
  rw [hlast]
  refine ⟨_, rfl, ?_, ?_, ?_⟩
  · rw [List.length_append, hbody]; simp; omega
  · intro i hi
    have : (ts.zip (ts.drop 1))[i]? = some (ts[i], ts[i + 1]) := by
      rw [List.getElem?_zip_eq_some]
      refine ⟨List.getElem?_eq_getElem _, ?_⟩
      rw [List.getElem?_drop, List.getElem?_eq_getElem (by omega)]
      congr 2; omega
    rw [List.getElem?_append_left (by rw [hbody]; omega), List.getElem?_map, this,
      List.getElem?_eq_getElem (by omega : i < ts.length),
      List.getElem?_eq_getElem (by omega : i + 1 < ts.length)]
    rfl
  · rw [List.getElem?_append_right (Nat.le_of_eq hbody), hbody]
    simp only [Nat.sub_self, List.getElem?_cons_zero, Option.map_some, Option.some.injEq, Prod.mk.injEq,
      true_and]
    by_cases h2 : 2 ≤ ts.length
    · rw [if_pos h2]
      rw [List.getElem?_eq_getElem (by omega : ts.length - 2 < ts.length)]
      simp [h2]
    · rw [if_neg h2]
      have : ts.length - 2 = 0 := by omega
      rw [this]
      cases ts[0]? <;> simp [h2]

example : legacyRanges [(10, 18), (20, 28), (35, 43)] = some [(10, 20), (20, 35), (35, 50)] := by decide
example : legacyRanges [(10, 18)] = some [(10, 18)] := by decide

/-! ## Page lookup across files -/

/-- `TiffStack.get_frame`: for `0 ≤ frame < total number of pages` the cumulative-length lookup returns the
    file `f` and page `p` with `0 ≤ p < lens[f]` and `(pages of the files before f) + p = frame` — the
    position of `frame` in the concatenation of the files. -/
theorem get_frame_refines (lens : List Nat) (frame : Int) (h0 : 0 ≤ frame)
    (h1 : frame < (lens.map Int.ofNat).sum) :
    ∃ (f : Nat) (p : Int), getFrame lens frame = some (f, p) ∧ f < lens.length ∧ 0 ≤ p ∧
      p < (lens.getD f 0 : Nat) ∧ ((lens.take f).map Int.ofNat).sum + p = frame := by
  obtain ⟨f, hf, hfo, hlo, hhi⟩ := firstOne_psums frame lens 0 0 h0 (by omega)
  refine ⟨f, frame - ((lens.take f).map Int.ofNat).sum, ?_, hf, by omega, by omega, by omega⟩
  unfold getFrame
  simp only [cumsum_eq_psums, psums, Int.zero_add, List.map_cons]
  have hmask : ∀ y ∈ (psums 0 (lens.map Int.ofNat)).map (fun c => if frame < c then (1 : Int) else 0),
      y = 0 ∨ y = 1 := by
    intro y hy
    rw [List.mem_map] at hy
    obtain ⟨c, _, rfl⟩ := hy
    split <;> simp
  rw [if_neg (by omega), argmaxFirst_zero_head _ hmask, hfo]
  simp only [Nat.zero_add]
  rw [if_neg (by omega)]
  have : 1 + f - 1 = f := by omega
  rw [this, getElem?_psums lens 0 f hf]
  simp

example : getFrame [3, 2, 1] 4 = some (1, 1) := by decide
example : getFrame [3, 2, 1] 5 = some (2, 0) := by decide

/-! ## Time-based bounds (ext) -/

/-- Time windows: with start and stop columns both non-decreasing, the index pair
    `(searchsorted(starts, a), searchsorted(stops, b))` selects exactly the frames that start at or after `a`
    and whose exposure ends before `b`. -/
theorem time_window_refines (r : List (Int × Int))
    (hs : r.Pairwise (fun x y => x.1 ≤ y.1)) (he : r.Pairwise (fun x y => x.2 ≤ y.2)) (a b : Int) :
    pySlice r (searchsortedLeft (r.map (·.1)) a) (searchsortedLeft (r.map (·.2)) b) =
      r.filter (fun x => decide (a ≤ x.1) && decide (x.2 < b)) := by
  unfold searchsortedLeft
  rw [takeWhile_map_length, takeWhile_map_length]
  rw [pySlice_nonneg' _ _ _ (by omega) (by omega)]
  simp only [Int.toNat_natCast]
  have h1 : r.filter (fun x => decide (a ≤ x.1) && decide (x.2 < b)) =
      (r.filter (fun x => decide (x.2 < b))).filter (fun x => decide (a ≤ x.1)) := by
    rw [List.filter_filter]
  rw [h1]
  have hf2 : r.filter (fun x => decide (x.2 < b)) = r.take (r.takeWhile ((fun v => decide (v < b)) ∘ (·.2))).length := by
    rw [filter_eq_takeWhile_of_antitone]
    · exact takeWhile_eq_take_length _ _
    · refine he.imp ?_
      intro x y hxy hy
      simp only [decide_eq_true_eq] at hy ⊢
      omega
  rw [hf2]
  generalize (r.takeWhile ((fun v => decide (v < b)) ∘ (·.2))).length = j
  -- now the start column on the prefix
  have hs' : (r.take j).Pairwise (fun x y => x.1 ≤ y.1) := hs.sublist (List.take_sublist _ _)
  rw [filter_eq_dropWhile_of_monotone _ _ (by
    refine hs'.imp ?_
    intro x y hxy hx
    simp only [decide_eq_true_eq] at hx ⊢
    omega)]
  rw [dropWhile_eq_drop_length]
  -- count of leading `start < a` in the prefix vs in the whole list
  have hcount : ∀ (l : List (Int × Int)) (j : Nat),
      ((l.take j).takeWhile (fun x => !decide (a ≤ x.1))).length =
        min j (l.takeWhile ((fun v => decide (v < a)) ∘ (·.1))).length := by
    intro l
    induction l with
    | nil => intro j; simp
    | cons x xs ih =>
      intro j
      cases j with
      | zero => simp
      | succ j =>
        rw [List.take_succ_cons]
        by_cases hx : x.1 < a
        · rw [List.takeWhile_cons_of_pos (by simp; omega), List.takeWhile_cons_of_pos (by simp; omega)]
          simp only [List.length_cons, ih j]; omega
        · rw [List.takeWhile_cons_of_neg (by simp; omega), List.takeWhile_cons_of_neg (by simp; omega)]
          simp
  rw [hcount]
  generalize (r.takeWhile ((fun v => decide (v < a)) ∘ (·.1))).length = i
  apply List.ext_getElem?
  intro k
  simp only [List.getElem?_drop, List.getElem?_take]
  by_cases h : i ≤ j
  · rw [Nat.min_eq_right h]
  · rw [Nat.min_eq_left (by omega), if_neg (by omega), if_neg (by omega)]

example : pySlice [((10 : Int), (18 : Int)), (20, 28), (30, 38), (40, 48)]
    (searchsortedLeft [10, 20, 30, 40] 20) (searchsortedLeft [18, 28, 38, 48] 39) = [(20, 28), (30, 38)] := by decide

/-! ## Tether geometry at `ℝ` (ext) -/

/-- The two chosen points are mapped onto a horizontal line, left to right, -/
theorem tether_horizontal (ox oy : ℝ) (p q : Pt ℝ) (h : p.x ≠ q.x ∨ p.y ≠ q.y) :
    ∃ a b, ((Tether.new ox oy none).withTether p q).endsProcessed = some (a, b) ∧ a.y = b.y ∧ a.x < b.x := by
  obtain ⟨a, b, hab, hpos, hax, hay, hbx, hby⟩ := fresh_tether ox oy p q h
  exact ⟨a, b, hab, by rw [hay, hby], by rw [hax, hbx]; linarith⟩

/-- … of unchanged length (the distance of the chosen points) -/
theorem tether_length (ox oy : ℝ) (p q : Pt ℝ) (h : p.x ≠ q.x ∨ p.y ≠ q.y) :
    ∃ a b, ((Tether.new ox oy none).withTether p q).endsProcessed = some (a, b) ∧
      b.x - a.x = Real.sqrt ((q.x - p.x) * (q.x - p.x) + (q.y - p.y) * (q.y - p.y)) := by
  obtain ⟨a, b, hab, hpos, hax, hay, hbx, hby⟩ := fresh_tether ox oy p q h
  exact ⟨a, b, hab, by rw [hax, hbx]; ring⟩

/-- … and unchanged midpoint. -/
theorem tether_midpoint (ox oy : ℝ) (p q : Pt ℝ) (h : p.x ≠ q.x ∨ p.y ≠ q.y) :
    ∃ a b, ((Tether.new ox oy none).withTether p q).endsProcessed = some (a, b) ∧
      (a.x + b.x) / 2 = (p.x + q.x) / 2 ∧ (a.y + b.y) / 2 = (p.y + q.y) / 2 := by
  obtain ⟨a, b, hab, hpos, hax, hay, hbx, hby⟩ := fresh_tether ox oy p q h
  exact ⟨a, b, hab, by rw [hax, hbx]; ring, by rw [hay, hby]; ring⟩

/-- Cropping afterwards (`with_new_offsets`, new ROI origin `(ox', oy')`) keeps the tether where it is in the raw
    image: the processed ends just shift by the change of origin. -/
theorem tether_crop_consistent (t : Tether ℝ) (e : Pt ℝ × Pt ℝ) (he : t.ends = some e)
    (h : e.1.x ≠ e.2.x ∨ e.1.y ≠ e.2.y) (ox' oy' : ℝ) :
    ∃ a b a' b', t.endsProcessed = some (a, b) ∧ (t.withNewOffsets ox' oy').endsProcessed = some (a', b') ∧
      a'.x = a.x + t.offX - ox' ∧ a'.y = a.y + t.offY - oy' ∧
      b'.x = b.x + t.offX - ox' ∧ b'.y = b.y + t.offY - oy' := by
  have he' : (t.withNewOffsets ox' oy').ends = some e := by
    unfold Tether.withNewOffsets
    rw [he]
    simp only [Tether.new, Option.map_some]
    congr 1
    rcases e with ⟨⟨a, b⟩, ⟨c, d⟩⟩
    simp
  have ho : (t.withNewOffsets ox' oy').offX = ox' ∧ (t.withNewOffsets ox' oy').offY = oy' := by
    unfold Tether.withNewOffsets
    rw [he]
    exact ⟨rfl, rfl⟩
  obtain ⟨a, b, hab, hax, hay, hbx, hby⟩ := ends_processed t e he h
  obtain ⟨a', b', hab', hax', hay', hbx', hby'⟩ := ends_processed _ e he' h
  refine ⟨a, b, a', b', hab, hab', ?_, ?_, ?_, ?_⟩
  · rw [hax', hax, ho.1]; ring
  · rw [hay', hay, ho.2]; ring
  · rw [hbx', hbx, ho.1]; ring
  · rw [hby', hby, ho.2]; ring

/-- Non-vacuity: a 3-4-5 tether. -/
example : ∃ a b, ((Tether.new (1 : ℝ) 2 none).withTether ⟨0, 0⟩ ⟨3, 4⟩).endsProcessed = some (a, b) ∧ a.y = b.y ∧ a.x < b.x :=
  tether_horizontal 1 2 ⟨0, 0⟩ ⟨3, 4⟩ (Or.inl (by norm_num))

/-- The pixel data follow the tether, in every colour channel: whatever the colour alignment of the channel
    (`alignInv` arbitrary, `none` = not aligned), image content that the un-tethered image shows at the two chosen
    points (`e` = the chosen points in full-image coordinates) is shown by the tethered, cropped image exactly at the
    two tether ends it reports — which lie on a horizontal line of unchanged length and midpoint by the theorems above. -/
theorem tether_maps_chosen_points (t : Tether ℝ) (e : Pt ℝ × Pt ℝ) (he : t.ends = some e)
    (alignInv : Option (Aff ℝ)) (r₁ r₂ : Pt ℝ) (h₁ : shownAt alignInv r₁ = e.1) (h₂ : shownAt alignInv r₂ = e.2) :
    t.endsProcessed = some (t.land alignInv r₁, t.land alignInv r₂) := by
  simp only [Tether.endsProcessed, he, Option.map_some, Tether.land, frameMatrix_apply t e he, h₁, h₂]

/-- Non-vacuity: a 3-4-5 tether on a window with origin (1, 2), channel shifted by (5, −7). -/
example : ∃ a b, ((Tether.new (1 : ℝ) 2 none).withTether ⟨0, 0⟩ ⟨3, 4⟩).endsProcessed = some (a, b) ∧
    a = ((Tether.new (1 : ℝ) 2 none).withTether ⟨0, 0⟩ ⟨3, 4⟩).land (some ⟨1, 0, 5, 0, 1, -7⟩) ⟨-4, 9⟩ :=
  ⟨_, _, tether_maps_chosen_points _ (⟨0 + 1, 0 + 2⟩, ⟨3 + 1, 4 + 2⟩) rfl (some ⟨1, 0, 5, 0, 1, -7⟩) ⟨-4, 9⟩ ⟨-1, 13⟩
    (by simp only [shownAt, Aff.apply]; congr 1 <;> norm_num) (by simp only [shownAt, Aff.apply]; congr 1 <;> norm_num), rfl⟩

/-- The order of the product matters (seeded change C07d-m2): with the operands swapped — rotate the raw channel,
    then align — a channel shifted by one pixel no longer shows the first chosen point of a vertical tether of length 2
    at the tether end `(−1, 1)` but at `(0, 2)`. -/
theorem align_then_rotate_order_matters :
    ∃ (t : Tether ℝ) (e : Pt ℝ × Pt ℝ) (m : Aff ℝ) (r : Pt ℝ), t.ends = some e ∧ shownAt (some m) r = e.1 ∧
      (t.frameMatrix (some m)).apply r = ⟨-1, 1⟩ ∧ (t.frameMatrixSwapped (some m)).apply r = ⟨0, 2⟩ := by
  have hs : Real.sqrt ((0 - 0) * (0 - 0) + (2 - 0) * (2 - 0) : ℝ) = 2 := by
    rw [show ((0 - 0) * (0 - 0) + (2 - 0) * (2 - 0) : ℝ) = 2 * 2 by norm_num]
    exact Real.sqrt_mul_self (by norm_num)
  have hl : tLen ((⟨0, 0⟩, ⟨0, 2⟩) : Pt ℝ × Pt ℝ) = 2 := hs
  refine ⟨⟨0, 0, some (⟨0, 0⟩, ⟨0, 2⟩)⟩, (⟨0, 0⟩, ⟨0, 2⟩), ⟨1, 0, 1, 0, 1, 0⟩, ⟨-1, 0⟩, rfl, ?_, ?_, ?_⟩
  · simp only [shownAt, Aff.apply]; congr 1 <;> norm_num
  · simp only [Tether.frameMatrix, Tether.rotMatrix, Aff.mul, Aff.apply, rotAff, tCos, tSin, tCx, tCy, hl, two_real]
    congr 1 <;> norm_num
  · simp only [Tether.frameMatrixSwapped, Tether.rotMatrix, Aff.mul, Aff.apply, rotAff, tCos, tSin, tCx, tCy, hl, two_real]
    congr 1 <;> norm_num


/-! # Deepening round D -/

/-! ## `to_kymo`: what the kymograph shows (pixels, line time, exposure, start) -/

/-- `ImageStack.to_kymo(half_window = w)`, one colour channel, pages of `H × W` pixels, any reachable stack: when the
    code returns a kymograph, the tether is horizontal (`y1 = y2` = the tether row), the window `y1 - w … y1 + w` lies
    inside the visible image, the kymograph has one position per pixel of the part `max(x1, 0) … min(x2, width - 1)` of
    the tether row that lies inside the image, and the value at position `x` of line `t` is the sum, over the rows
    `y1 - w … y1 + w` of the image the stack currently shows for its `t`-th frame (`roi.apply (raw p)`), of the pixel in
    column `max(x1, 0) + x` — "for each frame, the pixel values along the tether row reduced over the requested half
    window".  Specification side: Python slicing of the VISIBLE image and a plain sum; model side: the window
    arithmetic of `_kymo_from_image_stack`, `Roi.crop` on the raw page, `np.sum(axis=1)` as a fold over rows, swapped axes. -/
theorem kymo_pixels_refine_reduce (s : Stack) (pages : List Page) (raw : Int → List (List Int)) (H W : Nat)
    (hraw : ∀ p, (raw p).length = H ∧ ∀ row ∈ raw p, row.length = W) (hr : s.roi.Within H W)
    (x1 y1 x2 y2 w : Int) (red : Reduce) (k : Kymo)
    (hk : s.toKymo pages raw (some (x1, y1, x2, y2)) w red = some (.ok k)) :
    y1 = y2 ∧ 0 ≤ w ∧ 0 ≤ y1 - w ∧ y1 + w + 1 ≤ s.roi.height ∧ max x1 0 < min (x2 + 1) s.roi.width ∧
    k.image.length = (min (x2 + 1) s.roi.width - max x1 0).toNat ∧
    ∀ (x t : Nat) (p : Int), (x : Int) < min (x2 + 1) s.roi.width - max x1 0 → s.frames[t]? = some p →
      (k.image[x]?.bind (·[t]?)) = some (foldCol red ((pySlice (s.roi.apply (raw p)) (y1 - w) (y1 + w + 1)).map
          fun row => row.getD ((max x1 0).toNat + x) 0)) := by
  obtain ⟨r, r', _, _, hy, hw, hlo, hhi, hc, himg⟩ := toKymo_inv s pages raw x1 y1 x2 y2 w red k hk
  subst hy
  have hW := hr
  obtain ⟨hx0, hx01, hx1, hy0, hy01, hy1'⟩ := hr
  have hinv := roi_crop_some_inv s.roi r' (max x1 0) (max (x2 + 1) 0) (y1 - w) (y1 + w + 1)
    (by omega) (by omega) hlo (by omega) hc
  obtain ⟨e1, e2, e3, e4, hlt, _⟩ := hinv
  have hwd : r'.width = min (x2 + 1) s.roi.width - max x1 0 := by
    unfold Roi.width at *; omega
  have hpos : max x1 0 < min (x2 + 1) s.roi.width := by
    unfold Roi.width at *; omega
  refine ⟨rfl, hw, hlo, hhi, hpos, ?_, ?_⟩
  · rw [himg, swapAxes_length, hwd]
  · intro x t p hx hp
    have hxn : x < r'.width.toNat := by omega
    rw [himg, swapAxes_getElem? _ _ _ hxn]
    simp only [Option.bind_some, List.getElem?_map, hp, Option.map_some]
    congr 1
    -- the window of this frame as a slice of the visible image
    have href := roi_crop_refines (raw p) H W (hraw p).1 (hraw p).2 s.roi hW
      (some (max x1 0)) (some (max (x2 + 1) 0)) (some (y1 - w)) (some (y1 + w + 1))
    rw [hc] at href
    rw [href.1]
    obtain ⟨hvl, hvw⟩ := roi_apply_shape (raw p) H W (hraw p).1 (hraw p).2 s.roi hW
    generalize s.roi.apply (raw p) = vis at *
    unfold pySlice2
    simp only [pySliceOpt_some]
    have hb : max (x2 + 1) 0 = x2 + 1 := by unfold Roi.width at *; omega
    rw [hb]
    have hrow : ∀ row ∈ pySlice vis (y1 - w) (y1 + w + 1),
        (pySlice row (max x1 0) (x2 + 1)).getD x 0 = row.getD ((max x1 0).toNat + x) 0 := by
      intro row _
      exact getD_pySlice row _ _ x (by omega) (by omega) (by omega)
    by_cases hw0 : w > 0
    · unfold kymoLine
      rw [if_pos hw0]
      rw [foldRows_getD red _ (min (x2 + 1) s.roi.width - max x1 0).toNat x ?_ (by omega)]
      · rw [List.map_map]
        congr 1
        apply List.map_congr_left
        intro row hrow'
        exact hrow row hrow'
      · intro q hq
        rw [List.mem_map] at hq
        obtain ⟨row, hrow', rfl⟩ := hq
        have := hvw row (mem_of_mem_pySlice hrow')
        rw [pySlice_nonneg' _ _ _ (by omega) (by omega)]
        simp only [List.length_drop, List.length_take]
        unfold Roi.width at *; omega
    · have hw1 : w = 0 := by omega
      subst hw1
      have hlen : ((pySlice vis (y1 - 0) (y1 + 0 + 1)).length : Int) = 1 := by
        rw [length_pySlice_within _ _ _ (by omega) (by omega) (by unfold Roi.height at *; omega)]; omega
      obtain ⟨row0, h0⟩ := List.length_eq_one_iff.mp (by omega : (pySlice vis (y1 - 0) (y1 + 0 + 1)).length = 1)
      unfold kymoLine
      rw [if_neg (by omega), h0]
      simp only [List.map_cons, List.map_nil, List.headD_cons, foldCol, List.foldl_nil]
      exact hrow row0 (by rw [h0]; simp)

/-- the default of `to_kymo` (`reduce = np.sum`): the sum over the rows of the half window -/
theorem kymo_pixels_refine (s : Stack) (pages : List Page) (raw : Int → List (List Int)) (H W : Nat)
    (hraw : ∀ p, (raw p).length = H ∧ ∀ row ∈ raw p, row.length = W) (hr : s.roi.Within H W)
    (x1 y1 x2 y2 w : Int) (k : Kymo)
    (hk : s.toKymo pages raw (some (x1, y1, x2, y2)) w = some (.ok k)) :
    y1 = y2 ∧ 0 ≤ w ∧ 0 ≤ y1 - w ∧ y1 + w + 1 ≤ s.roi.height ∧ max x1 0 < min (x2 + 1) s.roi.width ∧
    k.image.length = (min (x2 + 1) s.roi.width - max x1 0).toNat ∧
    ∀ (x t : Nat) (p : Int), (x : Int) < min (x2 + 1) s.roi.width - max x1 0 → s.frames[t]? = some p →
      (k.image[x]?.bind (·[t]?)) = some (((pySlice (s.roi.apply (raw p)) (y1 - w) (y1 + w + 1)).map
          fun row => row.getD ((max x1 0).toNat + x) 0).sum) := by
  have h := kymo_pixels_refine_reduce s pages raw H W hraw hr x1 y1 x2 y2 w .sum k hk
  simp only [foldCol_sum] at h
  exact h

/-- `reduce = np.max` / `np.min`: the kymograph value is one of the window's pixels of that column and bounds them all
    (`foldCol .max` / `.min` is the maximum / minimum of a non-empty list). -/
theorem reduce_max_min_spec (l : List Int) (hne : l ≠ []) :
    (foldCol .max l ∈ l ∧ ∀ v ∈ l, v ≤ foldCol .max l) ∧ (foldCol .min l ∈ l ∧ ∀ v ∈ l, foldCol .min l ≤ v) :=
  ⟨foldCol_max l hne, foldCol_min l hne⟩
example : foldCol .max [3, 9, 4] = 9 ∧ foldCol .min [3, 9, 4] = 3 ∧ foldCol .sum [3, 9, 4] = 16 := by decide


/-- Non-vacuity: stack `[::2]` of 4 pages of 4 × 5 pixels cropped to columns 1–4, tether row 1 from x = 0 to 2, half
    window 1: three positions, two lines; position 0 of line 0 is `7 + 12 + 17` (rows 0–2 of raw column 1 of page 0). -/
example : (Stack.toKymo ⟨0, 4, 2, ⟨1, 5, 0, 4⟩⟩ [⟨10, 20, 14⟩, ⟨20, 30, 24⟩, ⟨30, 40, 34⟩, ⟨40, 50, 44⟩] (encPage 4 5 1 0)
    (some (0, 1, 2, 1)) 1) = some (.ok ⟨20, 4, 10, [[21, 141], [24, 144], [27, 147]]⟩) := by decide
example : Roi.Within ⟨1, 5, 0, 4⟩ 4 5 := by unfold Roi.Within; decide

/-- `to_kymo` cuts a window exactly when the tether is horizontal, the half window is not negative, the rows
    `y - w … y + w` exist and at least one pixel of the tether row lies inside the image; every refusal is the
    documented `ValueError`. -/
theorem kymo_stack_ok_iff (s : Stack) (H W : Nat) (hr : s.roi.Within H W) (x1 y1 x2 y2 w : Int) :
    ((∃ ks, s.kymoStack x1 y1 x2 y2 w = .ok ks) ↔
      (y1 = y2 ∧ 0 ≤ w ∧ 0 ≤ y1 - w ∧ y2 + w + 1 ≤ s.roi.height ∧ max x1 0 < min (x2 + 1) s.roi.width)) ∧
    ∀ e, s.kymoStack x1 y1 x2 y2 w = .error e → e = .value := by
  obtain ⟨hx0, hx01, hx1, hy0, hy01, hy1'⟩ := hr
  unfold Stack.kymoStack kymoWindow
  by_cases hy : y1 ≠ y2
  · rw [if_pos hy]
    refine ⟨⟨fun ⟨_, h⟩ => (by cases h), fun h => absurd h.1 hy⟩, fun e h => by cases h; rfl⟩
  · rw [if_neg hy]
    by_cases hw : w < 0
    · rw [if_pos hw]
      refine ⟨⟨fun ⟨_, h⟩ => (by cases h), fun h => by omega⟩, fun e h => by cases h; rfl⟩
    · rw [if_neg hw]
      simp only
      by_cases hwin : y1 - w < 0 ∨ y2 + w + 1 > s.roi.height
      · rw [if_pos hwin]
        refine ⟨⟨fun ⟨_, h⟩ => (by cases h), fun h => by omega⟩, fun e h => by cases h; rfl⟩
      · rw [if_neg hwin]
        simp only [bind, Except.bind]
        unfold Stack.cropPixels Roi.crop Roi.make
        simp only [cropBound_some_nonneg _ _ _ (by omega : 0 ≤ max x1 0),
          cropBound_some_nonneg _ _ _ (by omega : 0 ≤ max (x2 + 1) 0),
          cropBound_some_nonneg _ _ _ (by omega : 0 ≤ y1 - w),
          cropBound_some_nonneg _ _ _ (by omega : 0 ≤ y2 + w + 1)]
        unfold Roi.width Roi.height at *
        rw [if_neg (by omega)]
        by_cases hbad : min (max (x2 + 1) 0) (s.roi.xMax - s.roi.xMin) + s.roi.xMin ≤
              min (max x1 0) (s.roi.xMax - s.roi.xMin) + s.roi.xMin ∨
            min (y2 + w + 1) (s.roi.yMax - s.roi.yMin) + s.roi.yMin ≤
              min (y1 - w) (s.roi.yMax - s.roi.yMin) + s.roi.yMin
        · rw [if_pos hbad]
          refine ⟨⟨fun ⟨_, h⟩ => (by cases h), fun h => by omega⟩, fun e h => by cases h; rfl⟩
        · rw [if_neg hbad]
          refine ⟨⟨fun _ => by omega, fun _ => ⟨_, rfl⟩⟩, fun e h => by cases h⟩

example : Stack.kymoStack ⟨0, 3, 1, ⟨4, 10, 0, 6⟩⟩ (-3) 2 4 2 1 = .ok ⟨0, 3, 1, ⟨4, 9, 1, 4⟩⟩ := by decide

/-- whenever the right tether end is not left of the image the pinned code computes the same window -/
theorem kymoWindow_eq_pinned (x1 y1 x2 y2 w h : Int) (hx : 0 ≤ x2 + 1) :
    kymoWindow x1 y1 x2 y2 w h = kymoWindowPinned x1 y1 x2 y2 w h := by
  unfold kymoWindow kymoWindowPinned
  rw [Int.max_eq_left hx]

theorem F20b_witness :
    (Stack.kymoStackPinned ⟨0, 3, 1, ⟨6, 10, 0, 4⟩⟩ (-5) 2 (-3) 2 0).toOption.map Stack.roi = some ⟨6, 8, 2, 3⟩ ∧
    Stack.kymoStack ⟨0, 3, 1, ⟨6, 10, 0, 4⟩⟩ (-5) 2 (-3) 2 0 = .error .value := by decide

/-- The timing head of `to_kymo`: it goes on exactly when there are at least two frames, all consecutive frame starts
    are `line time` apart and all frames are exposed equally long; line time, exposure and start are those of the frames. -/
theorem kymo_times_spec (r : List (Int × Int)) (lt ex st : Int) :
    kymoTimes r = .ok (lt, ex, st) ↔
      2 ≤ r.length ∧ (∀ i (h : i + 1 < r.length), r[i + 1].1 - r[i].1 = lt) ∧ (∀ x ∈ r, x.2 - x.1 = ex) ∧
        r.head?.map (·.1) = some st := by
  match r with
  | [] => simp [kymoTimes]
  | [a] => simp [kymoTimes]
  | a :: b :: rest =>
    have hall1 := all_zip_drop (b.1 - a.1) (a :: b :: rest)
    unfold kymoTimes
    simp only
    by_cases h1 : ((a :: b :: rest).zip ((a :: b :: rest).drop 1)).all (fun (x, y) => y.1 - x.1 == b.1 - a.1) = true
    · rw [h1]
      simp only [Bool.not_true, Bool.false_eq_true, if_false]
      by_cases h2 : (a :: b :: rest).all (fun r => r.2 - r.1 == a.2 - a.1) = true
      · rw [h2]
        simp only [Bool.not_true, Bool.false_eq_true, if_false, Except.ok.injEq, Prod.mk.injEq]
        rw [List.all_eq_true] at h2
        have h1' := hall1.mp h1
        constructor
        · rintro ⟨rfl, rfl, rfl⟩
          refine ⟨by simp, h1', ?_, rfl⟩
          intro x hx; simpa using h2 x hx
        · rintro ⟨_, hd, he, hs⟩
          refine ⟨?_, ?_, ?_⟩
          · have := hd 0 (by simp); simpa using this
          · exact he a (by simp)
          · simpa using hs
      · simp only [h2, Bool.not_false, if_true]
        constructor
        · intro h; cases h
        · rintro ⟨_, _, he, _⟩
          exfalso; apply h2
          rw [List.all_eq_true]
          intro x hx
          rw [he x hx, he a (by simp)]; simp
    · simp only [h1, Bool.not_false, if_true]
      constructor
      · intro h; cases h
      · rintro ⟨_, hd, _, _⟩
        exfalso; apply h1
        rw [hall1]
        intro i hi
        rw [hd i hi]
        have := hd 0 (by simp); simpa using this.symm

/-- fewer than two frames: the (undocumented) `IndexError`; never another error than these two -/
theorem kymo_times_errors (r : List (Int × Int)) :
    (kymoTimes r = .error .index ↔ r.length < 2) ∧ ∀ e, kymoTimes r = .error e → e = .index ∨ e = .value := by
  match r with
  | [] => simp [kymoTimes]
  | [a] => simp [kymoTimes]
  | a :: b :: rest =>
    unfold kymoTimes
    simp only
    constructor
    · constructor
      · intro h; split at h
        · cases h
        · split at h <;> cases h
      · intro h; simp at h
    · intro e h
      split at h
      · cases h; right; rfl
      · split at h
        · cases h; right; rfl
        · cases h

example : kymoTimes [(10, 14), (30, 34), (50, 54)] = .ok (20, 4, 10) := by decide
example : kymoTimes [(10, 14), (30, 34), (51, 55)] = .error .value := by decide


/-! ## The headline clause on the pixel data: indexing the stack is NumPy indexing of `get_image()` -/

/-- `stack[a:b:c, ra:rb, ca:cb].get_image()` (positive step or `None`, every bound possibly `None`/negative/out of range)
    is exactly `stack.get_image()[a:b:c, ra:rb, ca:cb]` — the frames AND the pixels — for every reachable stack (any
    step, any ROI inside the raw pages); the result is again a stack the theorem applies to (positive step, ROI inside);
    the code raises (`ValueError` of the ROI or "Slice is empty") only if that NumPy result has no pixel. -/
theorem getitem_image_refines {α} (s : Stack) (hst : 0 < s.st) (raw : Int → List (List α)) (H W : Nat)
    (hraw : ∀ p, (raw p).length = H ∧ ∀ row ∈ raw p, row.length = W) (hr : s.roi.Within H W)
    (a b c ra rb ca cb : Option Int) (hc : 0 < c.getD 1) :
    match s.getitemTuple [.slice a b c, .slice ra rb none, .slice ca cb none] with
    | .ok s' => s'.image raw = (pySliceStep (s.image raw) a b (c.getD 1).toNat).map (fun img => pySlice2 img ca cb ra rb) ∧
        0 < s'.st ∧ s'.roi.Within H W
    | .error e => (e = .value ∨ e = .empty) ∧
        ((pySliceStep (s.image raw) a b (c.getD 1).toNat).map (fun img => pySlice2 img ca cb ra rb)).flatten.flatten = [] := by
  rw [getitem_tuple_decomposes]
  unfold Stack.cropPixels
  have hroi := fun p => roi_crop_refines (raw p) H W (hraw p).1 (hraw p).2 s.roi hr ca cb ra rb
  cases hcrop : s.roi.crop ca cb ra rb with
  | error e =>
    simp only [hcrop] at hroi
    simp only [Except.map, Except.bind]
    refine ⟨Or.inl (hroi 0).1, ?_⟩
    unfold Stack.image
    rw [pySliceStep_map, List.map_map]
    rw [List.flatten_eq_nil_iff]
    intro l hl
    rw [List.mem_flatten] at hl
    obtain ⟨img, himg, hl⟩ := hl
    rw [List.mem_map] at himg
    obtain ⟨p, _, rfl⟩ := himg
    have := (hroi p).2
    rw [List.flatten_eq_nil_iff] at this
    exact this l hl
  | ok r' =>
    simp only [hcrop] at hroi
    simp only [Except.map, Except.bind]
    have hs := slice_refines { s with roi := r' } hst a b c hc
    simp only [Stack.frameItem]
    have hfr : Stack.frames { s with roi := r' } = s.frames := rfl
    cases hsl : Stack.sliceFrames { s with roi := r' } a b c with
    | error e =>
      rw [hsl] at hs
      simp only
      refine ⟨Or.inr hs.1, ?_⟩
      unfold Stack.image
      have h2 := hs.2
      rw [hfr] at h2
      rw [pySliceStep_map, h2]
      rfl
    | ok s' =>
      rw [hsl] at hs
      simp only
      obtain ⟨hf, _, hst', hroi'⟩ := hs
      refine ⟨?_, hst', ?_⟩
      · unfold Stack.image
        rw [pySliceStep_map, List.map_map, hf, hfr, hroi']
        apply List.map_congr_left
        intro p _
        exact (hroi p).1
      · rw [hroi']; exact (hroi 0).2

/-- Non-vacuity: the synthetic pages of the harness meet the hypothesis on `raw`, and a stepped, cropped selection succeeds. -/
example : ∀ p, (encPage 4 5 1 0 p).length = 4 ∧ ∀ row ∈ encPage 4 5 1 0 p, row.length = 5 := by
  intro p; simp [encPage]
example : Stack.getitemTuple ⟨0, 6, 1, ⟨0, 5, 0, 4⟩⟩ [.slice (some 1) none (some 2), .slice (some 1) (some 3) none,
    .slice none (some (-1)) none] = .ok ⟨1, 6, 2, ⟨0, 4, 1, 3⟩⟩ := by decide

/-- `shape`: `get_image()` has `num_frames` frames of `roi.height` rows of `roi.width` pixels. -/
theorem image_shape {α} (s : Stack) (hst : 0 < s.st) (raw : Int → List (List α)) (H W : Nat)
    (hraw : ∀ p, (raw p).length = H ∧ ∀ row ∈ raw p, row.length = W) (hr : s.roi.Within H W) :
    ((s.image raw).length : Int) = s.shape.1 ∧
      ∀ img ∈ s.image raw, (img.length : Int) = s.shape.2.1 ∧ ∀ row ∈ img, (row.length : Int) = s.shape.2.2 := by
  unfold Stack.image Stack.shape
  refine ⟨by rw [List.length_map]; exact (num_frames_eq_length s hst).symm, ?_⟩
  intro img himg
  rw [List.mem_map] at himg
  obtain ⟨p, _, rfl⟩ := himg
  exact roi_apply_shape (raw p) H W (hraw p).1 (hraw p).2 s.roi hr

theorem index_image_refines {α} (s : Stack) (hst : 0 < s.st) (raw : Int → List (List α)) (i : Int) :
    match s.index i, pyIndex (s.image raw) i with
    | .ok s', some img => s'.image raw = [img]
    | .error e, none => e = .index
    | _, _ => False := by
  have h := index_refines s hst i
  unfold Stack.image
  rw [pyIndex_map]
  cases hi : s.index i with
  | error e =>
    rw [hi] at h
    cases hp : pyIndex s.frames i with
    | none => rw [hp] at h; simpa using h
    | some p => rw [hp] at h; exact h.elim
  | ok s' =>
    rw [hi] at h
    cases hp : pyIndex s.frames i with
    | none => rw [hp] at h; exact h.elim
    | some p =>
      rw [hp] at h
      simp only [Option.map_some]
      rw [h.1, h.2.2]; rfl

example : Stack.shape ⟨1, 6, 2, ⟨0, 4, 1, 3⟩⟩ = (3, 2, 4) := by decide

/-! ## Per-frame timestamps follow the frames -/

/-- `ImageStack(...)` shows pages of its file(s) only — the hypothesis `Paged` of the theorems below; frame selection
    and cropping preserve it (conclusions of `ranges_slice_refines`, `ranges_index_refines`, `crop_preserves_ranges`). -/
theorem fresh_paged (pages : List Page) (roi : Roi) : Stack.Paged ⟨0, pages.length, 1, roi⟩ pages := by
  intro p hp
  have := (mem_frames_iff ⟨0, pages.length, 1, roi⟩ (by show (0 : Int) < 1; omega) p).mp hp
  simp only at this
  omega

theorem ranges_slice_refines (s s' : Stack) (hst : 0 < s.st) (pages : List Page) (hp : s.Paged pages)
    (a b c : Option Int) (hc : 0 < c.getD 1) (h : s.sliceFrames a b c = .ok s') (dead : Bool) :
    ∃ r, s.ranges pages dead false = some r ∧
      s'.ranges pages dead false = some (pySliceStep r a b (c.getD 1).toNat) ∧ s'.Paged pages := by
  have hs := slice_refines s hst a b c hc
  rw [h] at hs
  have hp' : s'.Paged pages := by
    intro p hpm
    rw [hs.1] at hpm
    exact hp p (mem_pySliceStep hpm)
  refine ⟨_, ranges_eq_map s pages hp dead, ?_, hp'⟩
  rw [ranges_eq_map s' pages hp' dead, hs.1, pySliceStep_map]

theorem ranges_index_refines (s s' : Stack) (hst : 0 < s.st) (pages : List Page) (hp : s.Paged pages)
    (i : Int) (h : s.index i = .ok s') (dead : Bool) :
    ∃ r x, s.ranges pages dead false = some r ∧ pyIndex r i = some x ∧
      s'.ranges pages dead false = some [x] ∧ s'.Paged pages := by
  have hs := index_refines s hst i
  rw [h] at hs
  cases hpi : pyIndex s.frames i with
  | none => rw [hpi] at hs; exact hs.elim
  | some p =>
    rw [hpi] at hs
    have hmem : p ∈ s.frames := by
      unfold pyIndex at hpi
      split at hpi
      · split at hpi
        · cases hpi
        · exact List.mem_of_getElem? hpi
      · exact List.mem_of_getElem? hpi
    have hp' : s'.Paged pages := by
      intro q hq
      rw [hs.1, List.mem_singleton] at hq
      subst hq
      exact hp _ hmem
    refine ⟨_, pageRange pages dead p, ranges_eq_map s pages hp dead, ?_, ?_, hp'⟩
    · rw [pyIndex_map, hpi]; rfl
    · rw [ranges_eq_map s' pages hp' dead, hs.1]; rfl

theorem crop_preserves_ranges (s s' : Stack) (pages : List Page) (x0 x1 y0 y1 : Option Int)
    (h : s.cropPixels x0 x1 y0 y1 = .ok s') (dead legacy : Bool) :
    s'.ranges pages dead legacy = s.ranges pages dead legacy ∧ s'.start pages = s.start pages ∧
      s'.stop pages = s.stop pages ∧ s'.shape.1 = s.shape.1 ∧ (s.Paged pages → s'.Paged pages) := by
  have hf := crop_preserves_frames s s' x0 x1 y0 y1 h
  unfold Stack.ranges Stack.start Stack.stop Stack.shape Stack.numFrames Stack.Paged
  rw [hf.1, hf.2.1, hf.2.2.1, hf.2.2.2]
  exact ⟨rfl, rfl, rfl, rfl, id⟩

theorem start_stop_refine (s : Stack) (pages : List Page) (hp : s.Paged pages) :
    ∃ r, s.ranges pages false false = some r ∧ s.start pages = r.head?.map (·.1) ∧
      s.stop pages = r.getLast?.map (·.2) := by
  refine ⟨_, ranges_eq_map s pages hp false, ?_, ?_⟩
  · unfold Stack.start
    cases hfr : s.frames with
    | nil => rfl
    | cons p ps =>
      obtain ⟨h0, h1⟩ := hp p (by rw [hfr]; simp)
      simp only [List.head?_cons, Option.bind_some, List.map_cons, Option.map_some, pageRange]
      unfold pageAt
      rw [if_neg (by omega), List.getElem?_eq_getElem (by omega)]
      rfl
  · unfold Stack.stop
    rw [List.getLast?_map]
    cases hl : s.frames.getLast? with
    | none => rfl
    | some p =>
      obtain ⟨h0, h1⟩ := hp p (List.mem_of_getLast? hl)
      simp only [Option.bind_some, Option.map_some, pageRange]
      unfold pageAt
      rw [if_neg (by omega), List.getElem?_eq_getElem (by omega)]
      rfl


theorem ranges_sorted (s : Stack) (hst : 0 < s.st) (pages : List Page) (hp : s.Paged pages)
    (hsorted : pages.Pairwise (fun x y => x.start ≤ y.start ∧ x.expStop ≤ y.expStop)) :
    (s.frames.map (pageRange pages false)).Pairwise (fun x y => x.1 ≤ y.1 ∧ x.2 ≤ y.2) := by
  rw [List.pairwise_map]
  refine List.Pairwise.imp_of_mem ?_ (frames_strictly_increasing s hst)
  intro p q hpm hqm hpq
  obtain ⟨p0, p1⟩ := hp p hpm
  obtain ⟨q0, q1⟩ := hp q hqm
  have hlt : p.toNat < q.toNat := by omega
  have := (List.pairwise_iff_getElem.mp hsorted) p.toNat q.toNat (by omega) (by omega) hlt
  unfold pageRange pageAt
  rw [if_neg (by omega), if_neg (by omega), List.getElem?_eq_getElem (by omega), List.getElem?_eq_getElem (by omega)]
  exact this

theorem slice_time_refines (s : Stack) (hst : 0 < s.st) (pages : List Page) (hp : s.Paged pages)
    (hsorted : pages.Pairwise (fun x y => x.start ≤ y.start ∧ x.expStop ≤ y.expStop))
    (ta tb : Int) (ha : firstTimestamp ≤ ta) (hb : firstTimestamp ≤ tb) :
    ∃ r, s.ranges pages false false = some r ∧
      match s.sliceTime pages (.int ta) (.int tb) none with
      | some (.ok s') =>
        s'.ranges pages false false = some (r.filter fun x => decide (ta ≤ x.1) && decide (x.2 < tb)) ∧
          s'.Paged pages ∧ 0 < s'.st ∧ s'.roi = s.roi
      | some (.error e) => e = .empty ∧ (r.filter fun x => decide (ta ≤ x.1) && decide (x.2 < tb)) = []
      | none => False := by
  have hr := ranges_eq_map s pages hp false
  refine ⟨_, hr, ?_⟩
  have hso := ranges_sorted s hst pages hp hsorted
  generalize hrdef : s.frames.map (pageRange pages false) = r at *
  have hwin := time_window_refines r (hso.imp fun h => h.1) (hso.imp fun h => h.2) ta tb
  have key : ∀ A B, pySliceStep r A B 1 = (pySliceStep s.frames A B 1).map (pageRange pages false) := by
    intro A B; rw [← hrdef, pySliceStep_map]
  unfold Stack.sliceTime Stack.timeToIndex
  simp only [Option.bind_eq_bind, Option.bind_some, hr, if_neg (by omega : ¬ ta < firstTimestamp),
    if_neg (by omega : ¬ tb < firstTimestamp), if_true, Bool.false_eq_true, if_false]
  have hs := slice_refines s hst (some ((searchsortedLeft (r.map (·.1)) ta : Nat) : Int))
    (some ((searchsortedLeft (r.map (·.2)) tb : Nat) : Int)) none (by simp)
  simp only [Option.getD_none, Int.toNat_one] at hs
  cases hsl : s.sliceFrames (some ((searchsortedLeft (r.map (·.1)) ta : Nat) : Int))
      (some ((searchsortedLeft (r.map (·.2)) tb : Nat) : Int)) none with
  | error e =>
    rw [hsl] at hs
    simp only
    refine ⟨hs.1, ?_⟩
    rw [← hwin, ← pySliceStep_one, key, hs.2]; rfl
  | ok s' =>
    rw [hsl] at hs
    simp only
    obtain ⟨hf, _, hst', hroi'⟩ := hs
    have hp' : s'.Paged pages := by
      intro p hpm
      rw [hf] at hpm
      exact hp p (mem_pySliceStep hpm)
    refine ⟨?_, hp', hst', hroi'⟩
    rw [ranges_eq_map s' pages hp' false, hf, ← key, pySliceStep_one, hwin]

/-- Non-vacuity of `slice_time_refines`: three pages 0.1 s apart, exposure 40 ms; `stack[t0+50ms : t0+250ms]` keeps the
    second frame only (the third one's exposure ends after the upper bound). -/
example : (Stack.sliceTime ⟨0, 3, 1, ⟨0, 5, 0, 4⟩⟩
    [⟨1600000000000000000, 1600000000100000000, 1600000000040000000⟩,
     ⟨1600000000100000000, 1600000000200000000, 1600000000140000000⟩,
     ⟨1600000000200000000, 1600000000300000000, 1600000000240000000⟩]
    (.int 1600000000050000000) (.int 1600000000240000000) none).map (·.toOption.map Stack.frames) = some (some [1]) := by
  decide
example : List.Pairwise (fun (x y : Page) => x.start ≤ y.start ∧ x.expStop ≤ y.expStop)
    [⟨10, 20, 14⟩, ⟨20, 30, 24⟩, ⟨30, 40, 34⟩] := by decide

/-- the three kinds of bound of a frame slice: `None`; an integer below 2014-01-01 in ns is a frame index; a time
    string is an offset from the stack's start (`≥ 0`) or stop (`< 0`) -/
theorem time_bound_cases (s : Stack) (pages : List Page) (isStart : Bool) (v ns t0 : Int) :
    s.timeToIndex pages isStart .none = some none ∧
    (v < firstTimestamp → s.timeToIndex pages isStart (.int v) = some (some v)) ∧
    ((if ns ≥ 0 then s.start pages else s.stop pages) = some t0 →
      s.timeToIndex pages isStart (.rel ns) = s.timeToIndex pages isStart (.int (t0 + ns))) := by
  refine ⟨by unfold Stack.timeToIndex; rfl, ?_, ?_⟩
  · intro hv
    unfold Stack.timeToIndex
    simp only [Option.bind_eq_bind, Option.bind_some, if_pos hv]
  · intro h
    unfold Stack.timeToIndex
    by_cases hn : ns ≥ 0
    · rw [if_pos hn] at h
      simp only [Option.bind_eq_bind, if_pos hn, h, Option.map_some, Option.bind_some]
    · rw [if_neg hn] at h
      simp only [Option.bind_eq_bind, if_neg hn, h, Option.map_some, Option.bind_some]

/-! ## Index tuples of every shape -/

/-- cropping with all bounds `None` is the identity -/
theorem crop_none_id (s : Stack) (H W : Nat) (hr : s.roi.Within H W) :
    s.cropPixels none none none none = .ok s := by
  obtain ⟨hx0, hx01, hx1, hy0, hy01, hy1⟩ := hr
  unfold Stack.cropPixels Roi.crop Roi.make Roi.width Roi.height
  simp only
  rw [cropBound_none _ _ (by omega) (by omega), cropBound_none _ _ (by omega) (by omega),
    cropBound_none _ _ (by omega) (by omega), cropBound_none _ _ (by omega) (by omega)]
  rw [if_neg (by omega), if_neg (by omega)]
  simp only [Except.map]
  have e2 : s.roi.xMax - s.roi.xMin + s.roi.xMin = s.roi.xMax := by omega
  have e4 : s.roi.yMax - s.roi.yMin + s.roi.yMin = s.roi.yMax := by omega
  rw [e2, e4, Int.zero_add, Int.zero_add]

/-- every shape of index tuple: one to three entries are crop-then-select with `None` for the missing spatial
    entries, an integer in a spatial position is the one-pixel slice `i:i+1`, a spatial slice with a step and a
    fourth entry are `IndexError`s. -/
theorem getitem_tuple_cases (s : Stack) (f : Item) (rest : List Item) :
    s.getitemTuple (f :: rest) =
      match rest with
      | [] => (s.cropPixels none none none none).bind (·.frameItem f)
      | [r] => (interpretCrop r).bind fun rows => (s.cropPixels none none rows.1 rows.2).bind (·.frameItem f)
      | [r, c] => (interpretCrop r).bind fun rows => (interpretCrop c).bind fun cols =>
          (s.cropPixels cols.1 cols.2 rows.1 rows.2).bind (·.frameItem f)
      | _ => .error .index := by
  have key : ∀ (ra rb ca cb : Option Int),
      (do let r ← s.roi.crop ca cb ra rb; let t ← s.frameItem f; pure ({ t with roi := r } : Stack)) =
        (s.cropPixels ca cb ra rb).bind (·.frameItem f) := by
    intro ra rb ca cb
    unfold Stack.cropPixels
    cases hr : s.roi.crop ca cb ra rb with
    | error e => rfl
    | ok r =>
      simp only [bind, Except.bind, Except.map, pure, Except.pure]
      rw [frameItem_roi_indep s r f]
      cases s.frameItem f <;> rfl
  match rest with
  | [] => exact key none none none none
  | [r] =>
    unfold Stack.getitemTuple
    simp only [List.length_cons, List.length_nil]
    rw [if_neg (by omega)]
    cases hi : interpretCrop r with
    | error e => simp [hi, bind, Except.bind]
    | ok rows =>
      have := key rows.1 rows.2 none none
      simp only [List.getElem?_cons_zero, List.getElem?_cons_succ, List.getElem?_nil, hi, bind, Except.bind, pure, Except.pure] at this ⊢
      exact this
  | [r, c] =>
    unfold Stack.getitemTuple
    simp only [List.length_cons, List.length_nil]
    rw [if_neg (by omega)]
    cases hi : interpretCrop r with
    | error e => simp [hi, bind, Except.bind]
    | ok rows =>
      cases hj : interpretCrop c with
      | error e => simp [hi, hj, bind, Except.bind]
      | ok cols =>
        have := key rows.1 rows.2 cols.1 cols.2
        simp only [List.getElem?_cons_zero, List.getElem?_cons_succ, hi, hj, bind, Except.bind, pure, Except.pure] at this ⊢
        exact this
  | _ :: _ :: _ :: _ =>
    unfold Stack.getitemTuple
    simp only [List.length_cons]
    rw [if_pos (by omega)]

theorem interpret_crop_cases (i : Int) (a b : Option Int) (c : Int) :
    interpretCrop (.int i) = .ok (some i, some (i + 1)) ∧ interpretCrop (.slice a b none) = .ok (a, b) ∧
      interpretCrop (.slice a b (some c)) = .error .index := ⟨rfl, rfl, rfl⟩


/-! ## Re-defining a tether on a stack that has one (at `ℝ`) -/

/-- `define_tether` on an already rotated (and cropped) stack: the two chosen points of the CURRENT image are again
    mapped onto a horizontal left-to-right line whose length is their distance (the old rotation is undone first,
    `TiffStack.with_tether`). -/
theorem retether_horizontal_length (t : Tether ℝ) (e : Pt ℝ × Pt ℝ) (he : t.ends = some e)
    (h : e.1.x ≠ e.2.x ∨ e.1.y ≠ e.2.y) (p q : Pt ℝ) (hpq : p.x ≠ q.x ∨ p.y ≠ q.y) :
    ∃ a b, (t.withTether p q).endsProcessed = some (a, b) ∧ a.y = b.y ∧ a.x < b.x ∧
      b.x - a.x = Real.sqrt ((q.x - p.x) * (q.x - p.x) + (q.y - p.y) * (q.y - p.y)) := by
  obtain ⟨he', hox, hoy⟩ := withTether_ends t e he p q
  have hcs := cos_sq_add_sin_sq e h
  generalize he'def : (unrotate e ⟨p.x + t.offX, p.y + t.offY⟩, unrotate e ⟨q.x + t.offX, q.y + t.offY⟩) = e' at he'
  have hdx : e'.2.x - e'.1.x = tCos e * (q.x - p.x) - tSin e * (q.y - p.y) := by
    rw [← he'def]; simp only [unrotate]; ring
  have hdy : e'.2.y - e'.1.y = tSin e * (q.x - p.x) + tCos e * (q.y - p.y) := by
    rw [← he'def]; simp only [unrotate]; ring
  have hnorm : (e'.2.x - e'.1.x) * (e'.2.x - e'.1.x) + (e'.2.y - e'.1.y) * (e'.2.y - e'.1.y) =
      (q.x - p.x) * (q.x - p.x) + (q.y - p.y) * (q.y - p.y) := by
    rw [hdx, hdy]
    linear_combination ((q.x - p.x) * (q.x - p.x) + (q.y - p.y) * (q.y - p.y)) * hcs
  have hposq : 0 < (q.x - p.x) * (q.x - p.x) + (q.y - p.y) * (q.y - p.y) := by
    rcases hpq with h1 | h1
    · have : q.x - p.x ≠ 0 := sub_ne_zero.mpr (Ne.symm h1)
      nlinarith [mul_self_pos.mpr this, mul_self_nonneg (q.y - p.y)]
    · have : q.y - p.y ≠ 0 := sub_ne_zero.mpr (Ne.symm h1)
      nlinarith [mul_self_pos.mpr this, mul_self_nonneg (q.x - p.x)]
  have h' : e'.1.x ≠ e'.2.x ∨ e'.1.y ≠ e'.2.y := by
    by_contra hc
    rw [not_or, not_not, not_not] at hc
    have : (e'.2.x - e'.1.x) * (e'.2.x - e'.1.x) + (e'.2.y - e'.1.y) * (e'.2.y - e'.1.y) = 0 := by
      rw [hc.1, hc.2]; ring
    rw [hnorm] at this
    linarith
  obtain ⟨a, b, hab, hax, hay, hbx, hby⟩ := ends_processed _ e' he' h'
  have hL : tLen e' = Real.sqrt ((q.x - p.x) * (q.x - p.x) + (q.y - p.y) * (q.y - p.y)) := by
    unfold tLen; rw [hnorm]; rfl
  have hpos := tLen_pos e' h'
  refine ⟨a, b, hab, by rw [hay, hby], by rw [hax, hbx]; linarith, ?_⟩
  rw [hax, hbx, ← hL]; ring

/-- choosing the new tether through the points where the current image shows the content of raw points `r₁`, `r₂`:
    that content is shown exactly at the ends of the new tether -/
theorem retether_maps_content (t : Tether ℝ) (e : Pt ℝ × Pt ℝ) (he : t.ends = some e)
    (h : e.1.x ≠ e.2.x ∨ e.1.y ≠ e.2.y) (alignInv : Option (Aff ℝ)) (r₁ r₂ : Pt ℝ) :
    (t.withTether (t.land alignInv r₁) (t.land alignInv r₂)).endsProcessed =
      some ((t.withTether (t.land alignInv r₁) (t.land alignInv r₂)).land alignInv r₁,
            (t.withTether (t.land alignInv r₁) (t.land alignInv r₂)).land alignInv r₂) := by
  obtain ⟨he', _, _⟩ := withTether_ends t e he (t.land alignInv r₁) (t.land alignInv r₂)
  have hback : ∀ r : Pt ℝ, unrotate e ⟨(t.land alignInv r).x + t.offX, (t.land alignInv r).y + t.offY⟩ =
      shownAt alignInv r := by
    intro r
    have : (⟨(t.land alignInv r).x + t.offX, (t.land alignInv r).y + t.offY⟩ : Pt ℝ) = rotate e (shownAt alignInv r) := by
      rw [← frameMatrix_apply t e he alignInv r]
      cases hm : (t.frameMatrix alignInv).apply r with
      | mk ax ay =>
        simp only [Tether.land, hm]
        congr 1 <;> ring
    rw [this, unrotate_rotate e h]
  rw [hback, hback] at he'
  exact tether_maps_chosen_points _ _ he' alignInv r₁ r₂ rfl rfl

example : ∃ a b, ((⟨1, 2, some (⟨1, 2⟩, ⟨4, 6⟩)⟩ : Tether ℝ).withTether ⟨0, 0⟩ ⟨0, 2⟩).endsProcessed = some (a, b) ∧
    a.y = b.y ∧ a.x < b.x ∧ b.x - a.x = Real.sqrt ((0 - 0) * (0 - 0) + (2 - 0) * (2 - 0)) :=
  retether_horizontal_length _ (⟨1, 2⟩, ⟨4, 6⟩) rfl (Or.inl (by norm_num)) ⟨0, 0⟩ ⟨0, 2⟩ (Or.inr (by norm_num))


/-! ## The hypotheses of the theorems hold for every reachable stack -/

theorem good_init (pages : List Page) (H W : Nat) (hH : 0 < H) (hW : 0 < W) :
    Stack.Good ⟨0, pages.length, 1, ⟨0, W, 0, H⟩⟩ H W pages := by
  refine ⟨by show (0 : Int) < 1; omega, ?_, fresh_paged pages _⟩
  unfold Roi.Within
  simp only
  omega

theorem good_frameItem (s s' : Stack) (H W : Nat) (pages : List Page) (hg : s.Good H W pages) (f : Item)
    (h : s.frameItem f = .ok s') : s'.Good H W pages := by
  obtain ⟨hst, hr, hp⟩ := hg
  have hroi := frames_preserve_roi s s' f h
  have hst' := (step_positive_preserved s s' hst).1 f h
  refine ⟨hst', by rw [hroi]; exact hr, ?_⟩
  cases f with
  | int i =>
    exact (ranges_index_refines s s' hst pages hp i h false).choose_spec.choose_spec.2.2.2
  | slice a b c =>
    simp only [Stack.frameItem] at h
    rcases Int.lt_trichotomy (c.getD 1) 0 with hc | hc | hc
    · rcases slice_negative_step s hst a b c hc with h' | h' <;> rw [h'] at h <;> cases h
    · unfold Stack.sliceFrames at h
      simp only [hc, if_true] at h
      cases h
    · exact (ranges_slice_refines s s' hst pages hp a b c hc h false).choose_spec.2.2

theorem good_crop (s s' : Stack) (H W : Nat) (pages : List Page) (hg : s.Good H W pages) (x0 x1 y0 y1 : Option Int)
    (h : s.cropPixels x0 x1 y0 y1 = .ok s') : s'.Good H W pages := by
  obtain ⟨hst, hr, hp⟩ := hg
  have hf := crop_preserves_frames s s' x0 x1 y0 y1 h
  refine ⟨by rw [hf.2.2.2]; exact hst, ?_, (crop_preserves_ranges s s' pages x0 x1 y0 y1 h false false).2.2.2.2 hp⟩
  have href := roi_crop_refines (List.replicate H (List.replicate W ())) H W (by simp)
    (by intro row hrow; rw [List.eq_of_mem_replicate hrow]; simp) s.roi hr x0 x1 y0 y1
  unfold Stack.cropPixels at h
  cases hc : s.roi.crop x0 x1 y0 y1 with
  | error e => rw [hc] at h; cases h
  | ok r =>
    rw [hc] at h href
    injection h with h
    subst h
    exact href.2

/-- Every operation of the model that returns a stack returns one the theorems apply to again: the hypotheses
    `0 < st`, `roi.Within`, `Paged` of the theorems above hold for `ImageStack(...)` (`good_init`) and are preserved by
    frame slices (index or time bounds), integer indices, `crop_by_pixels`, index tuples and the stack behind `to_kymo`
    — so they hold for every stack reachable by any program. -/
theorem good_preserved (s s' : Stack) (H W : Nat) (pages : List Page) (hg : s.Good H W pages) :
    (∀ f, s.frameItem f = .ok s' → s'.Good H W pages) ∧
    (∀ x0 x1 y0 y1, s.cropPixels x0 x1 y0 y1 = .ok s' → s'.Good H W pages) ∧
    (∀ items, s.getitemTuple items = .ok s' → s'.Good H W pages) ∧
    (∀ a b c, s.sliceTime pages a b c = some (.ok s') → s'.Good H W pages) ∧
    (∀ x1 y1 x2 y2 w, s.kymoStack x1 y1 x2 y2 w = .ok s' → s'.Good H W pages) := by
  have hcf : ∀ (t : Stack) (x0 x1 y0 y1 : Option Int) (f : Item),
      (s.cropPixels x0 x1 y0 y1).bind (·.frameItem f) = .ok t → t.Good H W pages := by
    intro t x0 x1 y0 y1 f h
    cases hc : s.cropPixels x0 x1 y0 y1 with
    | error e => rw [hc] at h; cases h
    | ok u =>
      rw [hc] at h
      exact good_frameItem u t H W pages (good_crop s u H W pages hg x0 x1 y0 y1 hc) f h
  refine ⟨fun f h => good_frameItem s s' H W pages hg f h,
    fun x0 x1 y0 y1 h => good_crop s s' H W pages hg x0 x1 y0 y1 h, ?_, ?_, ?_⟩
  · intro items h
    cases items with
    | nil => unfold Stack.getitemTuple at h; cases h
    | cons f rest =>
      rw [getitem_tuple_cases] at h
      match rest, h with
      | [], h => exact hcf s' _ _ _ _ f h
      | [r], h =>
        simp only at h
        cases hi : interpretCrop r with
        | error e => rw [hi] at h; cases h
        | ok rows => rw [hi] at h; exact hcf s' _ _ _ _ f h
      | [r, c], h =>
        simp only at h
        cases hi : interpretCrop r with
        | error e => rw [hi] at h; cases h
        | ok rows =>
          rw [hi] at h
          cases hj : interpretCrop c with
          | error e => simp only [Except.bind] at h; rw [hj] at h; cases h
          | ok cols => simp only [Except.bind] at h; rw [hj] at h; exact hcf s' _ _ _ _ f h
      | _ :: _ :: _ :: _, h => cases h
  · intro a b c h
    unfold Stack.sliceTime at h
    cases ha : s.timeToIndex pages true a with
    | none => rw [ha] at h; cases h
    | some a' =>
      rw [ha] at h
      cases hb : s.timeToIndex pages false b with
      | none => rw [hb] at h; cases h
      | some b' =>
        rw [hb] at h
        simp only [Option.bind_eq_bind, Option.bind_some, Option.some.injEq] at h
        exact good_frameItem s s' H W pages hg (.slice a' b' c) h
  · intro x1 y1 x2 y2 w h
    unfold Stack.kymoStack at h
    cases hw : kymoWindow x1 y1 x2 y2 w s.roi.height with
    | error e => rw [hw] at h; cases h
    | ok v =>
      obtain ⟨a, b, c, d⟩ := v
      rw [hw] at h
      exact good_crop s s' H W pages hg _ _ _ _ h

example : ∃ pages : List Page, Stack.Good ⟨0, pages.length, 1, ⟨0, (5 : Nat), 0, (4 : Nat)⟩⟩ 4 5 pages :=
  ⟨[⟨1, 2, 2⟩, ⟨2, 3, 3⟩], good_init _ 4 5 (by omega) (by omega)⟩


/-! ## `to_kymo`: timing of the lines; the flat tether; frames resolve to pages of the files -/

/-- line time, exposure and start of the kymograph are those of the visible frames -/
theorem kymo_times_refine (s : Stack) (pages : List Page) (raw : Int → List (List Int))
    (x1 y1 x2 y2 w : Int) (red : Reduce) (k : Kymo)
    (hk : s.toKymo pages raw (some (x1, y1, x2, y2)) w red = some (.ok k)) :
    ∃ r, s.ranges pages false false = some r ∧ 2 ≤ r.length ∧
      (∀ i (h : i + 1 < r.length), r[i + 1].1 - r[i].1 = k.lineTime) ∧ (∀ x ∈ r, x.2 - x.1 = k.exposure) ∧
      r.head?.map (·.1) = some k.start ∧ ∀ img ∈ k.image, img.length = r.length := by
  obtain ⟨r, r', hr, ht, _, _, _, _, _, himg⟩ := toKymo_inv s pages raw x1 y1 x2 y2 w red k hk
  obtain ⟨h2, hd, he, hs⟩ := (kymo_times_spec r _ _ _).mp ht
  refine ⟨r, hr, h2, hd, he, hs, ?_⟩
  intro img himg'
  rw [himg] at himg'
  unfold swapAxes at himg'
  rw [List.mem_map] at himg'
  obtain ⟨x, _, rfl⟩ := himg'
  simp only [List.length_map]
  -- number of ranges = number of frames
  unfold Stack.ranges at hr
  simp only [Bool.false_eq_true, if_false] at hr
  split at hr
  · cases hr
  · rename_i hlen
    injection hr with hr
    rw [← hr, List.length_map]
    omega

/-- A tether that is horizontal and left-to-right already is the identity: the two chosen points are reported as they
    were chosen and every channel is warped with the identity (pixel values untouched) — the situation of `to_kymo`. -/
theorem flat_tether_is_identity (ox oy : ℝ) (p q : Pt ℝ) (hy : p.y = q.y) (hx : p.x < q.x) :
    ((Tether.new ox oy none).withTether p q).endsProcessed = some (p, q) ∧
      ∀ r : Pt ℝ, ((Tether.new ox oy none).withTether p q).land none r = ⟨r.x - ox, r.y - oy⟩ := by
  obtain ⟨e, hedef⟩ : ∃ e : Pt ℝ × Pt ℝ, e = (⟨p.x + ox, p.y + oy⟩, ⟨q.x + ox, q.y + oy⟩) := ⟨_, rfl⟩
  have he : ((Tether.new ox oy none).withTether p q).ends = some e := by rw [hedef]; rfl
  have hdx : e.2.x - e.1.x = q.x - p.x := by rw [hedef]; ring
  have hdy : e.2.y - e.1.y = 0 := by rw [hedef]; simp only; rw [hy]; ring
  have hL : tLen e = q.x - p.x := by
    unfold tLen
    rw [hdx, hdy]
    show Real.sqrt _ = _
    rw [mul_zero, add_zero]
    exact Real.sqrt_mul_self (by linarith)
  have hpos : q.x - p.x ≠ 0 := by linarith
  have hc : tCos e = 1 := by unfold tCos; rw [hdx, hL]; exact div_self hpos
  have hs : tSin e = 0 := by unfold tSin; rw [hdy]; exact zero_div _
  have hrot : ∀ r : Pt ℝ, rotate e r = r := by
    intro r
    cases r with
    | mk rx ry =>
      simp only [rotate, hc, hs]
      congr 1 <;> ring
  have hox : ((Tether.new ox oy none).withTether p q).offX = ox := rfl
  have hoy : ((Tether.new ox oy none).withTether p q).offY = oy := rfl
  constructor
  · simp only [Tether.endsProcessed, he, Option.map_some, hrot, hox, hoy]
    rw [hedef]
    simp only
    obtain ⟨px, py⟩ := p
    obtain ⟨qx, qy⟩ := q
    simp only
    congr 2 <;> (congr 1 <;> ring)
  · intro r
    have := frameMatrix_apply _ e he none r
    simp only [Tether.land, this, shownAt, hrot, hox, hoy]

/-- every visible frame of a reachable stack resolves to a page of one of the files -/
theorem visible_frames_resolve (s : Stack) (pages : List Page) (hp : s.Paged pages) (lens : List Nat)
    (hl : (pages.length : Int) = (lens.map Int.ofNat).sum) (p : Int) (hpm : p ∈ s.frames) :
    ∃ (f : Nat) (q : Int), getFrame lens p = some (f, q) ∧ f < lens.length ∧ 0 ≤ q ∧ q < (lens.getD f 0 : Nat) ∧
      ((lens.take f).map Int.ofNat).sum + q = p := by
  obtain ⟨h0, h1⟩ := hp p hpm
  exact get_frame_refines lens p h0 (by omega)

example : ((Tether.new (1 : ℝ) 2 none).withTether ⟨1, 1⟩ ⟨3, 1⟩).endsProcessed = some (⟨1, 1⟩, ⟨3, 1⟩) :=
  (flat_tether_is_identity 1 2 ⟨1, 1⟩ ⟨3, 1⟩ rfl (by norm_num)).1


/-! ## `define_tether` on a pixel-calibrated stack (points in image units) -/

/-- With `cal` µm per pixel: the two points chosen in µm are mapped onto a horizontal left-to-right line — as
    `plot_tether` reports it, in µm — of unchanged length and midpoint (the division by the calibration factor before the
    rotation and the multiplication afterwards cancel). -/
theorem define_tether_calibrated (ox oy cal : ℝ) (hcal : 0 < cal) (p q : Pt ℝ) (h : p.x ≠ q.x ∨ p.y ≠ q.y) :
    ∃ a b, (((Tether.new ox oy none).defineCal cal p q).endsCal cal) = some (a, b) ∧ a.y = b.y ∧ a.x < b.x ∧
      b.x - a.x = Real.sqrt ((q.x - p.x) * (q.x - p.x) + (q.y - p.y) * (q.y - p.y)) ∧
      (a.x + b.x) / 2 = (p.x + q.x) / 2 ∧ (a.y + b.y) / 2 = (p.y + q.y) / 2 := by
  have hne : cal ≠ 0 := ne_of_gt hcal
  have h' : (⟨p.x / cal, p.y / cal⟩ : Pt ℝ).x ≠ (⟨q.x / cal, q.y / cal⟩ : Pt ℝ).x ∨
      (⟨p.x / cal, p.y / cal⟩ : Pt ℝ).y ≠ (⟨q.x / cal, q.y / cal⟩ : Pt ℝ).y := by
    rcases h with h | h
    · left; simp only; intro hh; exact h ((div_left_inj' hne).mp hh)
    · right; simp only; intro hh; exact h ((div_left_inj' hne).mp hh)
  obtain ⟨a, b, hab, hpos, hax, hay, hbx, hby⟩ := fresh_tether ox oy ⟨p.x / cal, p.y / cal⟩ ⟨q.x / cal, q.y / cal⟩ h'
  simp only at hpos hax hay hbx hby
  have hD : (q.x / cal - p.x / cal) * (q.x / cal - p.x / cal) + (q.y / cal - p.y / cal) * (q.y / cal - p.y / cal) =
      ((q.x - p.x) * (q.x - p.x) + (q.y - p.y) * (q.y - p.y)) / (cal * cal) := by
    field_simp
  have hsq : Real.sqrt (((q.x - p.x) * (q.x - p.x) + (q.y - p.y) * (q.y - p.y)) / (cal * cal)) * cal =
      Real.sqrt ((q.x - p.x) * (q.x - p.x) + (q.y - p.y) * (q.y - p.y)) := by
    rw [Real.sqrt_div' _ (le_of_lt (mul_pos hcal hcal)), Real.sqrt_mul_self (le_of_lt hcal)]
    field_simp
  rw [hD] at hpos hax hbx
  refine ⟨⟨a.x * cal, a.y * cal⟩, ⟨b.x * cal, b.y * cal⟩, ?_, ?_, ?_, ?_, ?_, ?_⟩
  · simp only [Tether.endsCal, Tether.defineCal, hab, Option.map_some]
  · simp only; rw [hay, hby]
  · simp only; rw [hax, hbx]; nlinarith
  · simp only; rw [hax, hbx, ← hsq]; ring
  · simp only; rw [hax, hbx]; field_simp; ring
  · simp only; rw [hay, hby]; field_simp; ring

example : ∃ a b, (((Tether.new (0 : ℝ) 0 none).defineCal 0.1 ⟨0, 0⟩ ⟨0.3, 0.4⟩).endsCal 0.1) = some (a, b) ∧ a.y = b.y ∧
    a.x < b.x ∧ b.x - a.x = Real.sqrt ((0.3 - 0) * (0.3 - 0) + (0.4 - 0) * (0.4 - 0)) ∧
    (a.x + b.x) / 2 = (0 + 0.3) / 2 ∧ (a.y + b.y) / 2 = (0 + 0.4) / 2 :=
  define_tether_calibrated 0 0 0.1 (by norm_num) ⟨0, 0⟩ ⟨0.3, 0.4⟩ (Or.inl (by norm_num))


/-! ## Non-vacuity of the hypotheses of the round-D theorems (instances) -/

example : kymoWindow (-3) 2 4 2 0 6 = kymoWindowPinned (-3) 2 4 2 0 6 :=
  kymoWindow_eq_pinned _ _ _ _ _ _ (by decide)

/-- `index_image_refines` on a stepped stack of the harness' pages: `stack[::2][-1].get_image()` is the last frame. -/
example : (Stack.index ⟨0, 5, 2, ⟨0, 5, 0, 4⟩⟩ (-1)).toOption.map (·.image (encPage 4 5 1 0)) =
    (pyIndex (Stack.image ⟨0, 5, 2, ⟨0, 5, 0, 4⟩⟩ (encPage 4 5 1 0)) (-1)).map ([·]) := by decide

/-- `Paged` holds for the stack `ImageStack(...)` builds, hence (by `ranges_slice_refines`) for `stack[1::2]`: its ranges
    are the slice of the ranges. -/
example : ∃ r, Stack.ranges ⟨0, 4, 1, ⟨0, 5, 0, 4⟩⟩ [⟨10, 20, 14⟩, ⟨20, 30, 24⟩, ⟨30, 40, 34⟩, ⟨40, 50, 44⟩] false false = some r ∧
    Stack.ranges ⟨1, 4, 2, ⟨0, 5, 0, 4⟩⟩ [⟨10, 20, 14⟩, ⟨20, 30, 24⟩, ⟨30, 40, 34⟩, ⟨40, 50, 44⟩] false false =
      some (pySliceStep r (some 1) none 2) := by
  obtain ⟨r, h1, h2, _⟩ := ranges_slice_refines ⟨0, 4, 1, ⟨0, 5, 0, 4⟩⟩ ⟨1, 4, 2, ⟨0, 5, 0, 4⟩⟩ (by decide)
    [⟨10, 20, 14⟩, ⟨20, 30, 24⟩, ⟨30, 40, 34⟩, ⟨40, 50, 44⟩]
    (fresh_paged [⟨10, 20, 14⟩, ⟨20, 30, 24⟩, ⟨30, 40, 34⟩, ⟨40, 50, 44⟩] ⟨0, 5, 0, 4⟩) (some 1) none (some 2) (by decide) (by decide) false
  exact ⟨r, h1, h2⟩

/-- `visible_frames_resolve`: 6 pages in files of 3, 2 and 1 pages; frame 4 of the fresh stack is page 1 of file 1. -/
example : ∃ (f : Nat) (q : Int), getFrame [3, 2, 1] 4 = some (f, q) ∧ f < 3 ∧ 0 ≤ q ∧
    q < (([3, 2, 1] : List Nat).getD f 0 : Nat) ∧ ((([3, 2, 1] : List Nat).take f).map Int.ofNat).sum + q = 4 :=
  visible_frames_resolve ⟨0, 6, 1, ⟨0, 5, 0, 4⟩⟩
    [⟨1, 2, 2⟩, ⟨2, 3, 3⟩, ⟨3, 4, 4⟩, ⟨4, 5, 5⟩, ⟨5, 6, 6⟩, ⟨6, 7, 7⟩]
    (fresh_paged [⟨1, 2, 2⟩, ⟨2, 3, 3⟩, ⟨3, 4, 4⟩, ⟨4, 5, 5⟩, ⟨5, 6, 6⟩, ⟨6, 7, 7⟩] ⟨0, 5, 0, 4⟩) [3, 2, 1] (by decide) 4 (by decide)

/-- `retether_maps_content` needs a non-degenerate existing tether only. -/
example : ∃ t : Tether ℝ, ∃ e, t.ends = some e ∧ (e.1.x ≠ e.2.x ∨ e.1.y ≠ e.2.y) :=
  ⟨⟨1, 2, some (⟨1, 2⟩, ⟨4, 6⟩)⟩, (⟨1, 2⟩, ⟨4, 6⟩), rfl, Or.inl (by norm_num)⟩


/-! ## Legacy exports: frame ranges of a selection -/

/-- For legacy Pylake exports the ranges with dead time of ANY stack (sliced, indexed, cropped) are the legacy rule
    (`legacy_frame_ranges`) applied to the DateTime ranges of the frames it shows — which are the slice of the full
    stack's by `ranges_slice_refines`. -/
theorem ranges_legacy_eq (s : Stack) (pages : List Page) :
    s.ranges pages true true = (s.ranges pages true false).bind legacyRanges ∧
      s.ranges pages false true = s.ranges pages false false := by
  unfold Stack.ranges
  simp only
  constructor
  · split
    · rfl
    · simp
  · split <;> rfl


/-! ## Programs -/

/-- Any program of indexing operations (frame slices and integers, `crop_by_pixels`, index tuples, time-like slices), of
    any length, run on a stack the code builds ends — if no operation raises — in a stack that again satisfies the
    hypotheses of all theorems of this file: they apply at every step of every program. -/
theorem good_runOps (H W : Nat) (pages : List Page) : ∀ (ops : List Op) (s s' : Stack), s.Good H W pages →
    Stack.runOps pages s ops = some (.ok s') → s'.Good H W pages
  | [], s, s', hg, h => by
    simp only [Stack.runOps, Option.some.injEq, Except.ok.injEq] at h
    rw [← h]; exact hg
  | op :: rest, s, s', hg, h => by
    unfold Stack.runOps at h
    cases ha : s.applyOp pages op with
    | none => rw [ha] at h; cases h
    | some r =>
      rw [ha] at h
      cases r with
      | error e => simp only at h; cases h
      | ok t =>
        simp only at h
        have ht : t.Good H W pages := by
          obtain ⟨h1, h2, h3, h4, _⟩ := good_preserved s t H W pages hg
          cases op with
          | frame f => exact h1 f (by simpa [Stack.applyOp] using ha)
          | crop x0 x1 y0 y1 => exact h2 x0 x1 y0 y1 (by simpa [Stack.applyOp] using ha)
          | tuple items => exact h3 items (by simpa [Stack.applyOp] using ha)
          | time a b c => exact h4 a b c (by simpa [Stack.applyOp] using ha)
        exact good_runOps H W pages rest t s' ht h

/-- Non-vacuity: `stack[1::2][:, :-1, 1:4]["0.1s":]` on six pages 0.1 s apart. -/
example : Stack.runOps
    [⟨1600000000000000000, 1600000000100000000, 1600000000040000000⟩, ⟨1600000000100000000, 1600000000200000000, 1600000000140000000⟩,
     ⟨1600000000200000000, 1600000000300000000, 1600000000240000000⟩, ⟨1600000000300000000, 1600000000400000000, 1600000000340000000⟩,
     ⟨1600000000400000000, 1600000000500000000, 1600000000440000000⟩, ⟨1600000000500000000, 1600000000600000000, 1600000000540000000⟩]
    ⟨0, 6, 1, ⟨0, 5, 0, 4⟩⟩
    [.frame (.slice (some 1) none (some 2)), .tuple [.slice none none none, .slice none (some (-1)) none, .slice (some 1) (some 4) none],
     .time (.rel 100000000) .none none] = some (.ok ⟨3, 7, 2, ⟨1, 4, 0, 3⟩⟩) := by decide


/-- Successive indexing operations compose like their array counterparts: a program `stack[i₁][i₂]…[iₙ]` of index
    expressions `[a:b:c, ra:rb, ca:cb]` (positive steps or `None`, any bounds) that does not raise shows exactly
    `get_image()[i₁][i₂]…[iₙ]`, for any number of steps, starting from any stack the code builds. -/
theorem program_image_refines {α} (H W : Nat) (pages : List Page) (raw : Int → List (List α))
    (hraw : ∀ p, (raw p).length = H ∧ ∀ row ∈ raw p, row.length = W) :
    ∀ (prog : List Idx) (s s' : Stack), (∀ i ∈ prog, 0 < i.c.getD 1) → s.Good H W pages →
      Stack.runOps pages s (prog.map Idx.toOp) = some (.ok s') →
      s'.image raw = prog.foldl Idx.np (s.image raw) ∧ s'.Good H W pages
  | [], s, s', _, hg, h => by
    simp only [List.map_nil, Stack.runOps, Option.some.injEq, Except.ok.injEq] at h
    rw [← h]; exact ⟨rfl, hg⟩
  | i :: rest, s, s', hc, hg, h => by
    simp only [List.map_cons] at h
    unfold Stack.runOps at h
    simp only [Stack.applyOp, Idx.toOp] at h
    have href := getitem_image_refines s hg.1 raw H W hraw hg.2.1 i.a i.b i.c i.ra i.rb i.ca i.cb (hc i (by simp))
    cases ht : s.getitemTuple [.slice i.a i.b i.c, .slice i.ra i.rb none, .slice i.ca i.cb none] with
    | error e => rw [ht] at h; simp only at h; cases h
    | ok t =>
      rw [ht] at h href
      simp only at h href
      have hgt : t.Good H W pages := (good_preserved s t H W pages hg).2.2.1 _ ht
      have ih := program_image_refines H W pages raw hraw rest t s' (fun j hj => hc j (by simp [hj])) hgt h
      refine ⟨?_, ih.2⟩
      rw [ih.1, List.foldl_cons, href.1]
      rfl

/-- Non-vacuity: `stack[1::2, :-1][:, :, 1:4]` of six 4 × 5 pages succeeds. -/
example : Stack.runOps [⟨1, 2, 2⟩, ⟨2, 3, 3⟩, ⟨3, 4, 4⟩, ⟨4, 5, 5⟩, ⟨5, 6, 6⟩, ⟨6, 7, 7⟩] ⟨0, 6, 1, ⟨0, 5, 0, 4⟩⟩
    ([⟨some 1, none, some 2, none, some (-1), none, none⟩, ⟨none, none, none, none, none, some 1, some 4⟩].map Idx.toOp) =
      some (.ok ⟨1, 7, 2, ⟨1, 4, 0, 3⟩⟩) := by decide

end Verif.C07
