/-
  C02 — property theorems (statements + short proofs; helper lemmas live in Lemmas/C02).
  Every theorem is about the executable model in `Verif.Model.C02`, which the correspondence check
  ties to `lumicks/pylake/detail/image.py`, `detail/confocal.py`, `kymo.py`, `scan.py` on every run.
-/
import Verif.Lemmas.C02

namespace Verif.C02
open Verif.Py

/-! ## 1. Differences of cumulative sums are per-pixel sums -/

/-- The code's algorithm (cumulative sum of the used samples, read at the boundaries, differenced)
    returns exactly the pixels of the single specification walk — for every length, any number of
    samples per pixel (constant or not), any dead time, any counts in discarded samples; it fails
    (`IndexError`) exactly when the walk emits no pixel. -/
theorem pixels_cumsum_eq_spec (data : List Int) (iw : List Nat) (h : data.length = iw.length) :
    pixelsCumsum data iw = if pixelsSpec data iw = [] then none else some (pixelsSpec data iw) := by
  unfold pixelsCumsum pixelsSpec
  rw [pixelEnds_eq data iw h]
  have key := diffFrom_ends (data.zip iw) 0 0
  rw [show (0 : Int) - 0 = 0 from rfl] at key
  cases he : endsFrom 0 (data.zip iw) with
  | nil => rw [he] at key; simp [← key, diffFrom]
  | cons e es =>
    rw [he] at key
    simp only [hstack_diff, key]
    have : pixelsSpecAux 0 (data.zip iw) ≠ [] := by rw [← key]; simp [diffFrom]
    simp [this]

example : pixelsCumsum [9, 1, 2, 7, 3, 4, 5] [0, 1, 2, 0, 1, 2, 1] = some [3, 7] := by decide
example := pixels_cumsum_eq_spec [9, 1, 2, 7, 3, 4, 5] [0, 1, 2, 0, 1, 2, 1] rfl

/-- One pixel per boundary code of the info wave. -/
theorem pixels_count (data : List Int) (iw : List Nat) (h : data.length = iw.length) :
    (pixelsSpec data iw).length = iw.count 2 := by
  unfold pixelsSpec
  rw [spec_length, List.map_snd_zip (by omega)]

example : (pixelsSpec [9, 1, 2, 7, 3] [0, 1, 2, 2, 1]).length = 2 := pixels_count _ _ rfl

/-- `reconstruct_image_sum`, complete behaviour: size check, no boundary, otherwise the walk. -/
theorem reconstructSum_spec (data : List Int) (iw : List Nat) :
    reconstructSum data iw =
      if data.length ≠ iw.length then .err "ValueError"
      else if iw.count 2 = 0 then .err "IndexError"
      else .ok (pixelsSpec data iw) := by
  unfold reconstructSum
  by_cases h : data.length = iw.length
  · simp only [h, ne_eq, not_true_eq_false, if_false]
    rw [pixels_cumsum_eq_spec data iw h]
    have hl := pixels_count data iw h
    by_cases hc : iw.count 2 = 0
    · have : pixelsSpec data iw = [] := List.length_eq_zero_iff.mp (by omega)
      simp [this, hc]
    · have : pixelsSpec data iw ≠ [] := by
        intro he; rw [he] at hl; simp at hl; omega
      simp [this, hc]
  · simp [h]

/-! ## 2. Which samples make up which pixel (declarative reading of the walk) -/

theorem pixelsSpec_unzip (s : List Sample) :
    pixelsSpec (s.map (·.1)) (s.map (·.2)) = pixelsSpecAux 0 s := by
  unfold pixelsSpec
  congr 1
  induction s with
  | nil => rfl
  | cons x xs ih => simp [ih]

/-- Cut the timeline after every boundary sample: pixel `j` is the total count of the non-discarded
    samples of segment `j` — the samples after the previous boundary up to and including its own —
    and the samples after the last boundary belong to no pixel. -/
theorem pixel_is_segment_sum (segs : List (List Sample)) (tail : List Sample)
    (hs : ∀ seg ∈ segs, IsSegment seg) (ht : ∀ x ∈ tail, x.2 ≠ 2) :
    pixelsSpecAux 0 (segs.flatten ++ tail) = segs.map usedSum :=
  spec_segments segs tail hs ht

example : IsSegment [(4, 0), (1, 1), (5, 0), (2, 2)] := ⟨[(4, 0), (1, 1), (5, 0)], 2, rfl, by decide⟩
example : pixelsSpecAux 0 ([[(4, 0), (1, 1), (5, 0), (2, 2)], [(7, 2)]].flatten ++ [(3, 1), (8, 0)])
    = [3, 7] := by decide
example := pixel_is_segment_sum [[(4, 0), (1, 1), (5, 0), (2, 2)], [(7, 2)]] [(3, 1), (8, 0)]
  (by intro seg h
      rcases List.mem_cons.mp h with rfl | h
      · exact ⟨[(4, 0), (1, 1), (5, 0)], 2, rfl, by decide⟩
      · rcases List.mem_cons.mp h with rfl | h
        · exact ⟨[], 7, rfl, by decide⟩
        · cases h)
  (by decide)

/-- The segmentation always exists (so `pixel_is_segment_sum` speaks about every stream). -/
theorem stream_decomposes (s : List Sample) :
    ∃ (segs : List (List Sample)) (tail : List Sample),
      s = segs.flatten ++ tail ∧ (∀ seg ∈ segs, IsSegment seg) ∧ ∀ x ∈ tail, x.2 ≠ 2 :=
  exists_segments s

/-! ## 3. Conservation -/

/-- The pixels add up to the total count of the used samples up to the last boundary. -/
theorem pixel_sum_conserved (body tail : List Sample)
    (hb : body = [] ∨ ∃ init d, body = init ++ [(d, 2)]) (ht : ∀ x ∈ tail, x.2 ≠ 2) :
    (pixelsSpecAux 0 (body ++ tail)).sum = usedSum body := by
  rw [spec_append, spec_no_boundary tail _ ht, List.append_nil]
  have hbal := spec_balance body 0
  have hc : carry 0 body = 0 := by
    rcases hb with rfl | ⟨init, d, rfl⟩
    · rfl
    · exact carry_boundary_last init d 0
  omega

example : (pixelsSpecAux 0 ([(9, 0), (1, 1), (2, 2), (7, 0), (3, 2)] ++ [(5, 1), (6, 0)])).sum
    = usedSum [(9, 0), (1, 1), (2, 2), (7, 0), (3, 2)] := by decide
example := pixel_sum_conserved [(9, 0), (1, 1), (2, 2), (7, 0), (3, 2)] [(5, 1), (6, 0)]
  (Or.inr ⟨[(9, 0), (1, 1), (2, 2), (7, 0)], 3, rfl⟩) (by decide)

/-- Zero padding, reshaping and transposing keep the total: kymograph. -/
theorem image_total_kymo (P : Nat) (hP : 0 < P) (px : List Int) :
    (kymoImage P px).flatten.sum = px.sum := by
  unfold kymoImage reshapeLines
  have hr := roundUp_spec px.length P hP
  have hlen := padTo_length px (roundUp px.length P) hr.2.1
  have hsh := chunks_shape P hP ((px.length + P - 1) / P) (padTo px (roundUp px.length P))
    (by rw [hlen]; exact hr.1)
  rw [transposeN_sum P _ hsh.2, chunks_flatten P hP, padTo_sum]

example : (kymoImage 3 [1, 2, 3, 4]).flatten.sum = 10 := by decide
example := image_total_kymo 3 (by decide) [1, 2, 3, 4]

theorem reshapeFrames_shape (L P : Nat) (hL : 0 < L) (hP : 0 < P) (px : List Int) :
    (reshapeFrames L P px).length = (px.length + L * P - 1) / (L * P) ∧
    ∀ fr ∈ reshapeFrames L P px, fr.length = L ∧ ∀ row ∈ fr, row.length = P := by
  unfold reshapeFrames
  have hLP : 0 < L * P := Nat.mul_pos hL hP
  have hr := roundUp_spec px.length (L * P) hLP
  have hlen := padTo_length px (roundUp px.length (L * P)) hr.2.1
  let q := (px.length + L * P - 1) / (L * P)
  have h1 := chunks_shape P hP (q * L) (padTo px (roundUp px.length (L * P)))
    (by rw [hlen, hr.1, Nat.mul_assoc])
  have h2 := chunks_shape L hL q (chunks P (padTo px (roundUp px.length (L * P)))) h1.1
  refine ⟨h2.1, ?_⟩
  intro fr hfr
  refine ⟨h2.2 fr hfr, ?_⟩
  intro row hrow
  apply h1.2
  rw [← chunks_flatten L hL (chunks P (padTo px (roundUp px.length (L * P))))]
  exact List.mem_flatten.mpr ⟨fr, hfr, hrow⟩

/-- Zero padding, reshaping and swapping axes keep the total: scan (either axis order). -/
theorem image_total_scan (L P : Nat) (hL : 0 < L) (hP : 0 < P) (flip : Bool) (px : List Int) :
    (scanFrames L P flip px).flatten.flatten.sum = px.sum := by
  have hsh := reshapeFrames_shape L P hL hP px
  have hraw : (reshapeFrames L P px).flatten.flatten.sum = px.sum := by
    unfold reshapeFrames
    rw [chunks_flatten L hL, chunks_flatten P hP, padTo_sum]
  unfold scanFrames
  cases flip with
  | false => simpa using hraw
  | true =>
    simp only [if_true]
    rw [← hraw]
    exact sum_flatten_flatten_map _ _ (fun fr hfr => transposeN_sum P fr (hsh.2 fr hfr).2)

example : (scanFrames 2 2 true [1, 2, 3, 4, 5]).flatten.flatten.sum = 15 := by decide
example := image_total_scan 2 2 (by decide) (by decide) true [1, 2, 3, 4, 5]

/-! ## 4. Placement and shape -/

/-- Kymograph: row `r` (position), column `ℓ` (line) holds pixel `ℓ·P + r` of the acquisition order,
    0 where the last line is unfinished — nothing is dropped, shifted or wrapped. -/
theorem kymo_placement (P : Nat) (hP : 0 < P) (px : List Int) (r ℓ : Nat) (hr : r < P) :
    at2 (kymoImage P px) r ℓ = px.getD (ℓ * P + r) 0 := by
  unfold kymoImage reshapeLines
  rw [transposeN_at2 P _ r ℓ hr]
  unfold at2
  rw [chunks_getD P hP, if_pos hr, padTo_getD]

example : at2 (kymoImage 3 [10, 11, 12, 13]) 0 1 = 13 ∧ at2 (kymoImage 3 [10, 11, 12, 13]) 1 1 = 0 := by
  decide
example := kymo_placement 3 (by decide) [10, 11, 12, 13] 1 1 (by decide)

/-- Kymograph shape: `P` rows, `⌈#pixels / P⌉` columns. -/
theorem kymo_shape (P : Nat) (hP : 0 < P) (px : List Int) :
    (kymoImage P px).length = P ∧
    ∀ row ∈ kymoImage P px, row.length = (px.length + P - 1) / P := by
  unfold kymoImage reshapeLines
  have hr := roundUp_spec px.length P hP
  have hlen := padTo_length px (roundUp px.length P) hr.2.1
  have hsh := chunks_shape P hP ((px.length + P - 1) / P) (padTo px (roundUp px.length P))
    (by rw [hlen]; exact hr.1)
  have ht := transposeN_shape P (chunks P (padTo px (roundUp px.length P)))
  exact ⟨ht.1, fun row hrow => by rw [ht.2 row hrow, hsh.1]⟩

example : (kymoImage 3 [10, 11, 12, 13]).map List.length = [2, 2, 2] := by decide

/-- `⌈n / m⌉` written with floor division is the least number of blocks of `m` that hold `n`. -/
theorem ceil_div_spec (n m : Nat) (hm : 0 < m) :
    n ≤ (n + m - 1) / m * m ∧ (n + m - 1) / m * m < n + m := by
  have := roundUp_spec n m hm
  unfold roundUp at this
  exact this.2

theorem reshapeFrames_at3 (L P : Nat) (hL : 0 < L) (hP : 0 < P) (px : List Int) (f l p : Nat)
    (hl : l < L) (hp : p < P) :
    at3 (reshapeFrames L P px) f l p = px.getD ((f * L + l) * P + p) 0 := by
  unfold at3 at2 reshapeFrames
  rw [chunks_getD L hL, if_pos hl, chunks_getD P hP, if_pos hp, padTo_getD]

/-- Scan, fast axis = lower physical axis (X fast): frame `f`, row `l` (slow), column `p` (fast)
    holds pixel `(f·L + l)·P + p`; 0 past the end (unfinished last line/frame). -/
theorem scan_placement_fast_lower (L P : Nat) (hL : 0 < L) (hP : 0 < P) (px : List Int)
    (f l p : Nat) (hl : l < L) (hp : p < P) :
    at3 (scanFrames L P false px) f l p = px.getD ((f * L + l) * P + p) 0 := by
  unfold scanFrames
  simpa using reshapeFrames_at3 L P hL hP px f l p hl hp

/-- Scan, fast axis = higher physical axis (Y fast): the same pixel sits at row `p` (fast), column
    `l` (slow). -/
theorem scan_placement_fast_higher (L P : Nat) (hL : 0 < L) (hP : 0 < P) (px : List Int)
    (f l p : Nat) (hl : l < L) (hp : p < P) :
    at3 (scanFrames L P true px) f p l = px.getD ((f * L + l) * P + p) 0 := by
  rw [← reshapeFrames_at3 L P hL hP px f l p hl hp]
  unfold scanFrames at3
  simp only [if_true, List.getD_eq_getElem?_getD, List.getElem?_map]
  cases h : (reshapeFrames L P px)[f]? with
  | none => simp [at2]
  | some fr => simpa using transposeN_at2 P fr p l hp

example : at3 (scanFrames 2 3 false [1, 2, 3, 4, 5, 6, 7]) 1 0 0 = 7 ∧
    at3 (scanFrames 2 3 true [1, 2, 3, 4, 5, 6, 7]) 0 2 1 = 6 ∧
    at3 (scanFrames 2 3 true [1, 2, 3, 4, 5, 6, 7]) 1 1 0 = 0 := by decide
example := scan_placement_fast_lower 2 3 (by decide) (by decide) [1, 2, 3, 4, 5, 6, 7] 1 0 0 (by decide) (by decide)
example := scan_placement_fast_higher 2 3 (by decide) (by decide) [1, 2, 3, 4, 5, 6, 7] 0 1 2 (by decide) (by decide)

/-- Scan shape: `⌈#pixels / (L·P)⌉` frames of `L × P` (or `P × L` when the axes are swapped). -/
theorem scan_shape (L P : Nat) (hL : 0 < L) (hP : 0 < P) (flip : Bool) (px : List Int) :
    (scanFrames L P flip px).length = (px.length + L * P - 1) / (L * P) ∧
    ∀ fr ∈ scanFrames L P flip px,
      fr.length = (if flip then P else L) ∧ ∀ row ∈ fr, row.length = (if flip then L else P) := by
  have hsh := reshapeFrames_shape L P hL hP px
  unfold scanFrames
  cases flip with
  | false => simpa using hsh
  | true =>
    simp only [if_true, List.length_map]
    refine ⟨hsh.1, ?_⟩
    intro fr hfr
    obtain ⟨raw, hraw, rfl⟩ := List.mem_map.mp hfr
    have ht := transposeN_shape P raw
    exact ⟨ht.1, fun row hrow => by rw [ht.2 row hrow, (hsh.2 raw hraw).1]⟩

example : (scanFrames 2 3 true [1, 2, 3, 4, 5, 6, 7]).map (·.map List.length) = [[2, 2, 2], [2, 2, 2]] := by
  decide

/-- Scan-axis metadata (two distinct physical axes, fast axis listed first): pixels per line and
    lines per frame are the pixel counts of the fast and the slow axis, the image axes are swapped
    exactly when the fast axis has the higher axis number, and `_num_pixels` lists the lower axis
    first (so `shape[-2:]` = pixels of the higher axis × pixels of the lower axis). -/
theorem scan_axes_meta (fa fp sa sp : Nat) (h : fa ≠ sa) :
    pixelsPerLine [(fa, fp), (sa, sp)] = fp ∧ linesPerFrame [(fa, fp), (sa, sp)] = sp ∧
    flipAxes [(fa, fp), (sa, sp)] = decide (sa < fa) ∧
    numPixels [(fa, fp), (sa, sp)] = if fa < sa then [fp, sp] else [sp, fp] := by
  by_cases hlt : fa < sa
  · have hle : fa ≤ sa := by omega
    have hn : ¬ sa < fa := by omega
    simp [pixelsPerLine, linesPerFrame, flipAxes, numPixels, scanOrder, sortByKey, insertKey,
      List.zipIdx, hle, hlt, hn]
  · have hle : ¬ fa ≤ sa := by omega
    have hn : sa < fa := by omega
    simp [pixelsPerLine, linesPerFrame, flipAxes, numPixels, scanOrder, sortByKey, insertKey,
      List.zipIdx, hle, hlt, hn]

example : pixelsPerLine [(1, 5), (0, 7)] = 5 ∧ flipAxes [(1, 5), (0, 7)] = true ∧
    numPixels [(1, 5), (0, 7)] = [7, 5] := by decide
example := scan_axes_meta 1 5 0 7 (by decide)

/-- A kymograph has one axis: its pixel count is the number of pixels per line. -/
theorem kymo_axes_meta (a p : Nat) : pixelsPerLine [(a, p)] = p := by
  simp [pixelsPerLine, numPixels, scanOrder, sortByKey, insertKey, List.zipIdx]

/-- `num_frames`: the metadata value when it is not zero; otherwise the least `F` such that `F`
    frames of `P·L` pixels hold all pixel boundaries of the info wave. -/
theorem num_frames_spec (mf : Nat) (iw : List Nat) (P L : Nat) (hPL : 0 < P * L) :
    (mf ≠ 0 → numFrames mf iw P L = mf) ∧
    (mf = 0 → iw.count 2 ≤ numFrames mf iw P L * (P * L) ∧
              numFrames mf iw P L * (P * L) < iw.count 2 + P * L) := by
  refine ⟨fun h => by simp [numFrames, h], ?_⟩
  intro h
  subst h
  simp only [numFrames, if_true, reconstructNumFrames]
  exact ceil_div_spec (iw.count 2) (P * L) hPL

example : numFrames 0 [1, 2, 0, 2, 2, 1, 2, 2] 2 2 = 2 ∧ numFrames 7 [1, 2] 2 2 = 7 := by decide
example := num_frames_spec 0 [1, 2, 0, 2, 2, 1, 2, 2] 2 2 (by decide)

/-- The number of frames in the reconstructed image of a full-length channel is the number
    `reconstruct_num_frames` reads off the info wave. -/
theorem num_frames_image (data : List Int) (iw : List Nat) (h : data.length = iw.length)
    (L P : Nat) (hL : 0 < L) (hP : 0 < P) (flip : Bool) :
    (scanFrames L P flip (pixelsSpec data iw)).length = numFrames 0 iw P L := by
  rw [(scan_shape L P hL hP flip _).1, pixels_count data iw h]
  simp [numFrames, reconstructNumFrames, Nat.mul_comm]

example : (scanFrames 2 2 true (pixelsSpec [1, 1, 1, 1, 1, 1] [2, 2, 0, 2, 2, 2])).length = numFrames 0 [2, 2, 0, 2, 2, 2] 2 2 :=
  num_frames_image _ _ rfl 2 2 (by decide) (by decide) true

/-! ## 5. Discarded samples, missing colours, truncated streams -/

/-- Changing the counts of samples flagged as discard changes nothing. -/
theorem discard_irrelevant (iw : List Nat) (d d' : List Int) (h : d.length = iw.length)
    (h' : d'.length = iw.length)
    (hyp : ∀ i (h1 : i < d.length) (h2 : i < d'.length) (h3 : i < iw.length),
      iw[i] ≠ 0 → d[i] = d'[i]) :
    reconstructSum d iw = reconstructSum d' iw := by
  unfold reconstructSum pixelsCumsum pixelEnds
  rw [usedData_congr iw d d' h h' hyp, h, h']

example : reconstructSum [5, 1, 2, 9] [0, 1, 2, 0] = reconstructSum [0, 1, 2, 0] [0, 1, 2, 0] := by
  decide
example := discard_irrelevant [0, 1, 2, 0] [5, 1, 2, 9] [0, 1, 2, 0] rfl rfl (by decide)

/-- A colour without data: every pixel is 0 and there are as many pixels as for a full-length
    channel (one per boundary), hence the same image shape (`kymo_shape`, `scan_shape` depend on the
    number of pixels only). -/
theorem missing_colour_zero (iw : List Nat) (hb : iw.count 2 ≠ 0) :
    channelPixels iw [] = .ok (List.replicate (iw.count 2) 0) := by
  unfold channelPixels
  simp only [List.length_nil, if_true]
  rw [reconstructSum_spec]
  simp only [List.length_replicate, ne_eq, not_true_eq_false, if_false, hb]
  unfold pixelsSpec
  rw [spec_zeros]
  obtain ⟨k, hk⟩ : ∃ k, iw.count 2 = k + 1 := ⟨iw.count 2 - 1, by omega⟩
  simp [hk, List.replicate_succ]

example : channelPixels [0, 1, 2, 2, 0, 1] [] = .ok [0, 0] := by decide
example := missing_colour_zero [0, 1, 2, 2, 0, 1] (by decide)

/-- A full-length channel goes to the reconstruction unchanged. -/
theorem full_channel (iw : List Nat) (chan : List Int) (h : chan.length = iw.length)
    (h0 : chan.length ≠ 0) : channelPixels iw chan = reconstructSum chan iw := by
  unfold channelPixels align
  rw [if_neg h0]
  simp [h]

example : channelPixels [0, 1, 2] [7, 1, 2] = reconstructSum [7, 1, 2] [0, 1, 2] :=
  full_channel _ _ rfl (by decide)

/-- A photon stream that ends early: both streams are cut to the shared prefix, and the pixels are
    the leading pixels of the full reconstruction — those whose boundary lies in the shared span.
    (`full` is any continuation of the truncated stream.) -/
theorem truncated_prefix (iw : List Nat) (chan full : List Int) (h0 : chan.length ≠ 0)
    (hlt : chan.length < iw.length) (hfull : full.length = iw.length)
    (hpre : full.take chan.length = chan) :
    channelPixels iw chan = reconstructSum chan (iw.take chan.length) ∧
    pixelsSpec chan (iw.take chan.length)
      = (pixelsSpec full iw).take ((iw.take chan.length).count 2) := by
  constructor
  · unfold channelPixels align
    have : min chan.length iw.length = chan.length := by omega
    simp [h0, Nat.ne_of_lt hlt, this]
  · have hlen : chan.length = (iw.take chan.length).length := by simp; omega
    have hcnt := pixels_count chan (iw.take chan.length) hlen
    unfold pixelsSpec at hcnt ⊢
    have hz : full.zip iw = chan.zip (iw.take chan.length) ++ (full.drop chan.length).zip (iw.drop chan.length) := by
      rw [← hpre]
      simp only [List.length_take, hfull, Nat.min_eq_left (Nat.le_of_lt hlt)]
      rw [← List.zip_append (by simp [hfull]), List.take_append_drop, List.take_append_drop]
    rw [hz, spec_append, ← hcnt, List.take_left']
    rfl

example : pixelsSpec [1, 2, 3] ([1, 2, 1, 1, 2].take 3) = (pixelsSpec [1, 2, 3, 4, 5] [1, 2, 1, 1, 2]).take 1 := by
  decide
example := truncated_prefix [1, 2, 1, 1, 2] [1, 2, 3] [1, 2, 3, 4, 5] (by decide) (by decide) rfl rfl

/-! ## 5b. The functions the driver runs, end to end -/

theorem rowLen_kymoImage (P : Nat) (hP : 0 < P) (px : List Int) :
    (kymoImage P px).length = P ∧ rowLen (kymoImage P px) = (px.length + P - 1) / P := by
  have hsh := kymo_shape P hP px
  refine ⟨hsh.1, ?_⟩
  unfold rowLen
  cases hk : kymoImage P px with
  | nil => rw [hk] at hsh; simp at hsh; omega
  | cons row rest => rw [hk] at hsh; simpa using hsh.2 row (by simp)

/-- The image `Scan._to_spatial` makes of a non-empty pixel list (two distinct axes, ≥ 2 pixels each). -/
theorem scan_image_of_pixels (fa P sa L : Nat) (hax : fa ≠ sa) (hP : 2 ≤ P) (hL : 2 ≤ L)
    (px : List Int) (hpx : px.length ≠ 0) :
    imageOfPixels (.scan [(fa, P), (sa, L)]) (.ok px) =
      .ok ⟨(if (px.length + L * P - 1) / (L * P) = 1 then [] else [(px.length + L * P - 1) / (L * P)])
            ++ (if sa < fa then [P, L] else [L, P]),
          (scanFrames L P (decide (sa < fa)) px).flatten.flatten⟩ := by
  obtain ⟨m1, m2, m3, _⟩ := scan_axes_meta fa P sa L hax
  unfold imageOfPixels
  simp only [m1, m2, m3]
  have hsh := scan_shape L P (by omega) (by omega) (decide (sa < fa)) px
  congr 1
  cases hk : scanFrames L P (decide (sa < fa)) px with
  | nil =>
    rw [hk] at hsh
    have hLP : 0 < L * P := Nat.mul_pos (by omega) (by omega)
    have := ceil_div_spec px.length (L * P) hLP
    have h1 := hsh.1
    simp only [List.length_nil] at h1
    rw [← h1] at this
    omega
  | cons fr rest =>
    rw [hk] at hsh
    obtain ⟨hlen, hfr⟩ := hsh
    have hfr0 := hfr fr (by simp)
    have hrows : fr.length = if sa < fa then P else L := by simpa using hfr0.1
    have hcols : rowLen fr = if sa < fa then L else P := by
      unfold rowLen
      cases hf : fr with
      | nil => rw [hf] at hrows; simp at hrows; split at hrows <;> omega
      | cons row _ =>
        have := hfr0.2 row (by rw [hf]; simp)
        simpa using this
    simp only [List.head?_cons, Option.map_some, Option.getD_some, hrows, hcols, ← hlen]
    unfold squeezeShape
    have hP1 : (P != 1) = true := by rw [bne_iff_ne]; omega
    have hL1 : (L != 1) = true := by rw [bne_iff_ne]; omega
    generalize (fr :: rest).length = F
    by_cases hflip : sa < fa <;> by_cases hF : F = 1
    · subst hF; simp [hflip, hP1, hL1]
    · have hF1 : (F != 1) = true := by rw [bne_iff_ne]; exact hF
      simp [hflip, hP1, hL1, hF1, hF]
    · subst hF; simp [hflip, hP1, hL1]
    · have hF1 : (F != 1) = true := by rw [bne_iff_ne]; exact hF
      simp [hflip, hP1, hL1, hF1, hF]

/-- `Kymo.get_image(colour)` for a full-length channel: shape `P × ⌈#boundaries / P⌉`, entries those
    of `kymoImage` applied to the specification pixels (see `kymo_placement`). -/
theorem kymo_get_image (P : Nat) (hP : 0 < P) (iw : List Nat) (chan : List Int)
    (h : chan.length = iw.length) (h0 : chan.length ≠ 0) (hb : iw.count 2 ≠ 0) :
    kymoGetImage P iw chan =
      .ok ⟨[P, (iw.count 2 + P - 1) / P], (kymoImage P (pixelsSpec chan iw)).flatten⟩ := by
  unfold kymoGetImage
  rw [full_channel iw chan h h0, reconstructSum_spec]
  simp only [h, ne_eq, not_true_eq_false, if_false, hb]
  have hsh := kymo_shape P hP (pixelsSpec chan iw)
  rw [pixels_count chan iw h] at hsh
  have hrow : rowLen (kymoImage P (pixelsSpec chan iw)) = (iw.count 2 + P - 1) / P := by
    unfold rowLen
    cases hk : kymoImage P (pixelsSpec chan iw) with
    | nil => rw [hk] at hsh; simp at hsh; omega
    | cons row rest => rw [hk] at hsh; simpa using hsh.2 row (by simp)
  rw [hsh.1, hrow]

example : kymoGetImage 2 [0, 1, 2, 2, 0, 1, 2] [9, 1, 2, 3, 9, 4, 5] = .ok ⟨[2, 2], [3, 9, 3, 0]⟩ := by
  decide
example := kymo_get_image 2 (by decide) [0, 1, 2, 2, 0, 1, 2] [9, 1, 2, 3, 9, 4, 5] rfl (by decide) (by decide)

/-- `Scan.get_image(colour)` for a full-length channel and two distinct scan axes with at least two
    pixels each: `F = ⌈#boundaries / (L·P)⌉` frames (the frame axis is squeezed away when `F = 1`),
    each `L × P`, or `P × L` when the fast axis is the higher one; entries those of `scanFrames`
    applied to the specification pixels (see `scan_placement_*`). -/
theorem scan_get_image (fa P sa L : Nat) (hax : fa ≠ sa) (hP : 2 ≤ P) (hL : 2 ≤ L) (iw : List Nat)
    (chan : List Int) (h : chan.length = iw.length) (h0 : chan.length ≠ 0) (hb : iw.count 2 ≠ 0) :
    scanGetImage [(fa, P), (sa, L)] iw chan =
      .ok ⟨(if (iw.count 2 + L * P - 1) / (L * P) = 1 then [] else [(iw.count 2 + L * P - 1) / (L * P)])
            ++ (if sa < fa then [P, L] else [L, P]),
          (scanFrames L P (decide (sa < fa)) (pixelsSpec chan iw)).flatten.flatten⟩ := by
  rw [scanGetImage_eq, full_channel iw chan h h0, reconstructSum_spec]
  simp only [h, ne_eq, not_true_eq_false, if_false, hb]
  have := scan_image_of_pixels fa P sa L hax hP hL (pixelsSpec chan iw)
    (by rw [pixels_count chan iw h]; exact hb)
  rw [pixels_count chan iw h] at this
  exact this

example : scanGetImage [(1, 2), (0, 2)] [1, 2, 2, 0, 2, 2, 2] [1, 2, 3, 9, 4, 5, 6]
    = .ok ⟨[2, 2, 2], [3, 4, 3, 5, 6, 0, 0, 0]⟩ := by decide
example := scan_get_image 1 2 0 2 (by decide) (by decide) (by decide) [1, 2, 2, 0, 2, 2, 2] [1, 2, 3, 9, 4, 5, 6]
  rfl (by decide) (by decide)

/-! ## 6. (ext) Cutting the stream at a pixel boundary cuts the pixel list at the same place -/

theorem segment_reconstruct (s₁ s₂ : List Sample) (h : s₁ = [] ∨ ∃ init d, s₁ = init ++ [(d, 2)]) :
    pixelsSpecAux 0 (s₁ ++ s₂) = pixelsSpecAux 0 s₁ ++ pixelsSpecAux 0 s₂ := by
  rw [spec_append]
  rcases h with rfl | ⟨init, d, rfl⟩
  · rfl
  · rw [carry_boundary_last]

example : pixelsSpecAux 0 ([(1, 1), (2, 2)] ++ [(3, 1), (4, 2)])
    = pixelsSpecAux 0 [(1, 1), (2, 2)] ++ pixelsSpecAux 0 [(3, 1), (4, 2)] := by decide
example := segment_reconstruct [(1, 1), (2, 2)] [(3, 1), (4, 2)] (Or.inr ⟨[(1, 1)], 2, rfl⟩)

/-- More generally the cut may fall anywhere in the dead time that follows a boundary. -/
theorem segment_reconstruct_dead (s₁ dead s₂ : List Sample)
    (h : s₁ = [] ∨ ∃ init d, s₁ = init ++ [(d, 2)]) (hd : ∀ x ∈ dead, x.2 = 0) :
    pixelsSpecAux 0 ((s₁ ++ dead) ++ s₂) = pixelsSpecAux 0 (s₁ ++ dead) ++ pixelsSpecAux 0 s₂ := by
  rw [spec_append (s₁ ++ dead), carry_append]
  have hc : carry 0 s₁ = 0 := by
    rcases h with rfl | ⟨init, d, rfl⟩
    · rfl
    · exact carry_boundary_last init d 0
  have hnb : ∀ x ∈ dead, x.2 ≠ 2 := fun x hx => by rw [hd x hx]; decide
  have hu : usedSum dead = 0 := by
    unfold usedSum
    have : dead.filter (fun x => decide (x.2 ≠ 0)) = [] := by
      apply List.filter_eq_nil_iff.mpr
      intro x hx; simp [hd x hx]
    rw [this]; rfl
  rw [hc, carry_no_boundary dead 0 hnb, hu]
  rfl

example := segment_reconstruct_dead [(1, 1), (2, 2)] [(9, 0), (8, 0)] [(3, 1), (4, 2)]
  (Or.inr ⟨[(1, 1)], 2, rfl⟩) (by decide)

/-! ## 7. Sequences of queries on one object: every answer describes the object's current window

The item a colour image belongs to is the object with its CURRENT start (`self.start` is moved past a
truncated first line the first time a photon stream that starts inside the kymograph is read).  What
the property says about "the" image of a colour therefore has to hold for whatever `get_image`
answers after any history of queries: no image memoised for an earlier start may survive. -/

/-- The end-to-end functions of section 5b are `imageOfPixels` applied to the channel's pixels (the
    form used by the stateful model below). -/
theorem get_image_factors (P : Nat) (axes : Axes) (iw : List Nat) (chan : List Int) :
    kymoGetImage P iw chan = imageOfPixels (.kymo P) (channelPixels iw chan) ∧
    scanGetImage axes iw chan = imageOfPixels (.scan axes) (channelPixels iw chan) :=
  ⟨kymoGetImage_eq P iw chan, scanGetImage_eq axes iw chan⟩

/-- One `get_image(colour)`: if every memoised image is the reconstruction for the current start,
    this stays so, and an image that is answered is the reconstruction for the start the query leaves
    behind (never one for a start the object has abandoned). -/
theorem query_colour_current (k : Kind) (iw : List Nat) (ss : Streams) (c : Nat) (st : ObjState)
    (h : Coherent k iw ss st) :
    Coherent k iw ss (queryColour k iw (streamOf ss c) c st).1 ∧
    ∀ im, (queryColour k iw (streamOf ss c) c st).2 = .ok im →
      freshImage k iw (streamOf ss c) (queryColour k iw (streamOf ss c) c st).1.off = .ok im :=
  queryColour_current k iw ss c st h

example : Coherent (.kymo 2) [0, 1, 2, 2] [⟨0, []⟩, ⟨-1, [5, 6, 7]⟩, ⟨0, []⟩] ObjState.fresh :=
  coherent_fresh _ _ _

/-- After any sequence of queries (colours, rgb, `Kymo.shape`) on a new object every memoised image is
    the reconstruction for the start the object has by then. -/
theorem seq_coherent (k : Kind) (iw : List Nat) (ss : Streams) (qs : List Nat) :
    Coherent k iw ss (stateAfter k iw ss ObjState.fresh qs) := by
  suffices h : ∀ st, Coherent k iw ss st → Coherent k iw ss (stateAfter k iw ss st qs) from
    h _ (coherent_fresh k iw ss)
  induction qs with
  | nil => exact fun st h => h
  | cons q qs ih => exact fun st h => ih _ (query_coherent k iw ss st q h)

/-- A query that replaces the cache dict or moves the object's start leaves nothing memoised behind
    (`Kymo._fix_incorrect_start`: `self._cache = {}`). -/
theorem repair_discards_cache (k : Kind) (iw : List Nat) (s : Stream) (c : Nat) (st : ObjState)
    (h : (queryColour k iw s c st).1.gen ≠ st.gen ∨ (queryColour k iw s c st).1.off ≠ st.off) :
    (queryColour k iw s c st).1.cache = [] := by
  unfold queryColour at h ⊢
  split
  · simp_all
  · split
    · simp_all
    · next st' hp =>
      rcases photonAccess_cases k iw s st st' hp with rfl | ⟨hc, hg⟩
      · split <;> simp_all
      · split
        · exact hc
        · have : st'.gen ≠ st.gen := by omega
          simp [this, hc]

/-- Kernel-checked run of the scenario of seeded change C02c-m2 (P = 2, three lines, green starts two
    samples late, red has no channel): red first (3 lines of zeros, memoised), green (the first line is
    dropped: start moves to sample 7, the cache is emptied, 2 lines), red again (2 lines of zeros). -/
example :
    let iw := [0, 1, 2, 1, 2, 0, 0, 1, 2, 1, 2, 0, 0, 1, 2, 1, 2, 0]
    let red : Stream := ⟨0, []⟩
    let green : Stream := ⟨-2, [1, 1, 1, 9, 9, 2, 2, 2, 2, 9, 9, 3, 3, 3, 3, 9]⟩
    let s1 := queryColour (.kymo 2) iw red 0 ObjState.fresh
    let s2 := queryColour (.kymo 2) iw green 1 s1.1
    let s3 := queryColour (.kymo 2) iw red 0 s2.1
    s1 = (⟨0, 0, [(0, ⟨[2, 3], [0, 0, 0, 0, 0, 0]⟩)]⟩, .ok ⟨[2, 3], [0, 0, 0, 0, 0, 0]⟩) ∧
    s2 = (⟨7, 1, []⟩, .ok ⟨[2, 2], [4, 6, 4, 6]⟩) ∧
    s3.2 = .ok ⟨[2, 2], [0, 0, 0, 0]⟩ ∧ s3.1.off = 7 := by decide

example :
    let iw := [0, 1, 2, 1, 2, 0, 0, 1, 2, 1, 2, 0, 0, 1, 2, 1, 2, 0]
    let green : Stream := ⟨-2, [1, 1, 1, 9, 9, 2, 2, 2, 2, 9, 9, 3, 3, 3, 3, 9]⟩
    (queryColour (.kymo 2) iw green 1 ⟨0, 0, [(0, ⟨[2, 3], [0, 0, 0, 0, 0, 0]⟩)]⟩).1.cache = [] :=
  repair_discards_cache _ _ _ _ _ (by decide)

/-- A colour whose slice of the current window is empty (no channel, a channel recorded only after the
    item ended or one that stopped before it began): the image of all-zero pixels, one per boundary
    of the current window. -/
theorem no_data_zero_current (k : Kind) (iw : List Nat) (s : Stream) (off : Nat)
    (h0 : (chanSlice iw.length off s).2 = []) (hb : (iw.drop off).count 2 ≠ 0) :
    freshImage k iw s off = imageOfPixels k (.ok (List.replicate ((iw.drop off).count 2) 0)) := by
  unfold freshImage channelPixelsAt
  rw [h0]
  simp only [List.length_nil, or_true, if_true]
  rw [missing_colour_zero _ hb]

-- a channel that exists but starts at the end of the info wave (seeded change C02c-m1), one that ended before it
example : freshImage (.kymo 2) [0, 1, 2, 2, 0, 2] ⟨-6, [5, 6, 7]⟩ 0 = .ok ⟨[2, 2], [0, 0, 0, 0]⟩ := by decide
example : freshImage (.kymo 2) [0, 1, 2, 2, 0, 2] ⟨2, [5, 6]⟩ 0 = .ok ⟨[2, 2], [0, 0, 0, 0]⟩ := by decide
example := no_data_zero_current (.kymo 2) [0, 1, 2, 2, 0, 2] ⟨-6, [5, 6, 7]⟩ 0 (by decide) (by decide)

/-- Shape of a kymograph image: a function of the number of pixels only. -/
theorem kymo_image_shape (P : Nat) (hP : 0 < P) (px : List Int) :
    ∃ flat, imageOfPixels (.kymo P) (.ok px) = .ok ⟨[P, (px.length + P - 1) / P], flat⟩ := by
  refine ⟨(kymoImage P px).flatten, ?_⟩
  have hsh := kymo_shape P hP px
  have hrow : rowLen (kymoImage P px) = (px.length + P - 1) / P := by
    unfold rowLen
    cases hk : kymoImage P px with
    | nil => rw [hk] at hsh; simp at hsh; omega
    | cons row rest => rw [hk] at hsh; simpa using hsh.2 row (by simp)
  show Res.ok (Image.mk [(kymoImage P px).length, rowLen (kymoImage P px)] _) = _
  rw [hsh.1, hrow]

example := kymo_image_shape 3 (by decide) [1, 2, 3, 4]

/-- For one and the same start of the kymograph, a colour without data in the window and a colour whose
    stream covers the whole window are both reconstructed, with the same shape. -/
theorem kymo_no_data_same_shape (P : Nat) (hP : 0 < P) (iw : List Nat) (s0 s1 : Stream) (off : Nat)
    (h0 : (chanSlice iw.length off s0).2 = [])
    (h1 : (chanSlice iw.length off s1).1 = 0)
    (h1' : (chanSlice iw.length off s1).2.length = (iw.drop off).length)
    (hb : (iw.drop off).count 2 ≠ 0) :
    ∃ im0 im1, freshImage (.kymo P) iw s0 off = .ok im0 ∧ freshImage (.kymo P) iw s1 off = .ok im1 ∧
      im0.shape = im1.shape := by
  have hne : (chanSlice iw.length off s1).2.length ≠ 0 := by
    rw [h1']; intro hz
    have : iw.drop off = [] := List.length_eq_zero_iff.mp hz
    rw [this] at hb; simp at hb
  obtain ⟨f0, hf0⟩ := kymo_image_shape P hP (List.replicate ((iw.drop off).count 2) 0)
  obtain ⟨f1, hf1⟩ := kymo_image_shape P hP (pixelsSpec (chanSlice iw.length off s1).2 (iw.drop off))
  refine ⟨⟨[P, ((List.replicate ((iw.drop off).count 2) (0 : Int)).length + P - 1) / P], f0⟩,
    ⟨[P, ((pixelsSpec (chanSlice iw.length off s1).2 (iw.drop off)).length + P - 1) / P], f1⟩, ?_, ?_, ?_⟩
  · rw [no_data_zero_current _ iw s0 off h0 hb, hf0]
  · unfold freshImage channelPixelsAt
    rw [h1]
    simp only [true_or, if_true]
    rw [full_channel _ _ h1' hne, reconstructSum_spec]
    simp only [h1', ne_eq, not_true_eq_false, if_false, hb]
    exact hf1
  · simp [pixels_count _ _ h1']

-- after the first-line repair (start = sample 4) of a kymograph whose green stream starts one sample late
example := kymo_no_data_same_shape 2 (by decide) [1, 2, 2, 0, 2, 2, 0, 2, 2] ⟨0, []⟩ ⟨-1, [1, 2, 3, 4, 5, 6, 7, 8]⟩ 4
  (by decide) (by decide) (by decide) (by decide)

/-! ## 8. Deepening round D: every channel length, conservation end to end, history independence -/

/-- Conservation without hypotheses: the pixels of ANY stream add up to the total count of its used
    samples up to the last pixel boundary (`uptoLastBoundary` strips the trailing non-boundary samples). -/
theorem pixel_sum_total (s : List Sample) :
    (pixelsSpecAux 0 s).sum = usedSum (uptoLastBoundary s) := by
  obtain ⟨tail, hs, ht, hb⟩ := uptoLast_split s
  have := pixel_sum_conserved (uptoLastBoundary s) tail hb ht
  rw [← hs] at this
  exact this


example : (pixelsSpecAux 0 [(9, 0), (1, 1), (2, 2), (7, 0), (3, 2), (5, 1), (6, 0)]).sum = 6 ∧
    usedSum (uptoLastBoundary [(9, 0), (1, 1), (2, 2), (7, 0), (3, 2), (5, 1), (6, 0)]) = 6 := by decide

/-- `_get_confocal_data` + `reconstruct_image_sum`, complete behaviour for ANY photon slice (absent, shorter or
    longer than the info wave, of equal length): the specification walk over the shared span. -/
theorem channelPixels_spec (iw : List Nat) (chan : List Int) :
    channelPixels iw chan = match colourPixelsSpec iw chan with
      | none => .err "IndexError"
      | some px => .ok px := by
  unfold colourPixelsSpec
  by_cases h0 : chan.length = 0
  · rw [if_pos h0]
    have : chan = [] := List.length_eq_zero_iff.mp h0
    subst this
    by_cases hb : iw.count 2 = 0
    · rw [if_pos hb]
      unfold channelPixels
      simp only [List.length_nil, if_true]
      rw [reconstructSum_spec]
      simp [hb]
    · rw [if_neg hb, missing_colour_zero iw hb]
  · rw [if_neg h0, map_snd_zip_min]
    unfold channelPixels
    rw [if_neg h0]
    have hal : align chan iw = (chan.take (min chan.length iw.length), iw.take (min chan.length iw.length)) := by
      unfold align
      by_cases hl : chan.length = iw.length
      · rw [if_neg (by simpa using hl), hl, Nat.min_self, List.take_length, ← hl, List.take_length]
      · simp [hl]
    rw [hal, reconstructSum_spec]
    simp only
    have hlen : (chan.take (min chan.length iw.length)).length = (iw.take (min chan.length iw.length)).length := by
      simp only [List.length_take]; omega
    rw [if_neg (by simp [hlen])]
    unfold pixelsSpec
    rw [zip_take_min]
    by_cases hb : (iw.take (min chan.length iw.length)).count 2 = 0
    · rw [if_pos hb, if_pos hb]
    · rw [if_neg hb, if_neg hb]

example : channelPixels [0, 1, 2, 2, 0, 1, 2] [9, 1, 2, 3, 9] = .ok [3, 3] := by decide
example : colourPixelsSpec [0, 1, 2, 2, 0, 1, 2] [9, 1, 2, 3, 9] = some [3, 3] := by decide

theorem colour_pixels_count (iw : List Nat) (chan : List Int) (px : List Int)
    (h : colourPixelsSpec iw chan = some px) :
    px.length = (if chan.length = 0 then iw.count 2 else ((chan.zip iw).map (·.2)).count 2) ∧
    px.length ≠ 0 := by
  unfold colourPixelsSpec at h
  by_cases h0 : chan.length = 0
  · rw [if_pos h0] at h ⊢
    by_cases hb : iw.count 2 = 0
    · rw [if_pos hb] at h; cases h
    · rw [if_neg hb] at h; cases h; simp [hb]
  · rw [if_neg h0] at h ⊢
    by_cases hb : ((chan.zip iw).map (·.2)).count 2 = 0
    · rw [if_pos hb] at h; cases h
    · rw [if_neg hb] at h; cases h
      rw [spec_length]; exact ⟨rfl, hb⟩

theorem colour_pixels_sum (iw : List Nat) (chan : List Int) (px : List Int)
    (h : colourPixelsSpec iw chan = some px) :
    px.sum = usedSum (uptoLastBoundary (chan.zip iw)) := by
  unfold colourPixelsSpec at h
  by_cases h0 : chan.length = 0
  · rw [if_pos h0] at h
    have : chan = [] := List.length_eq_zero_iff.mp h0
    subst this
    by_cases hb : iw.count 2 = 0
    · rw [if_pos hb] at h; cases h
    · rw [if_neg hb] at h; cases h
      rw [sum_replicate_zero]; rfl
  · rw [if_neg h0] at h
    by_cases hb : ((chan.zip iw).map (·.2)).count 2 = 0
    · rw [if_pos hb] at h; cases h
    · rw [if_neg hb] at h; cases h
      exact pixel_sum_total _

/-- `Kymo.get_image(colour)` for ANY channel (absent, shorter or longer than the info wave, full). -/
theorem kymo_get_image_any (P : Nat) (hP : 0 < P) (iw : List Nat) (chan : List Int) :
    kymoGetImage P iw chan = match colourPixelsSpec iw chan with
      | none => .err "IndexError"
      | some px => .ok ⟨[P, (px.length + P - 1) / P], (kymoImage P px).flatten⟩ := by
  rw [kymoGetImage_eq, channelPixels_spec]
  cases colourPixelsSpec iw chan with
  | none => rfl
  | some px =>
    show Res.ok (Image.mk [(kymoImage P px).length, rowLen (kymoImage P px)] _) = _
    rw [(rowLen_kymoImage P hP px).1, (rowLen_kymoImage P hP px).2]

/-- `Scan.get_image(colour)` for ANY channel. -/
theorem scan_get_image_any (fa P sa L : Nat) (hax : fa ≠ sa) (hP : 2 ≤ P) (hL : 2 ≤ L) (iw : List Nat)
    (chan : List Int) :
    scanGetImage [(fa, P), (sa, L)] iw chan = match colourPixelsSpec iw chan with
      | none => .err "IndexError"
      | some px =>
        .ok ⟨(if (px.length + L * P - 1) / (L * P) = 1 then [] else [(px.length + L * P - 1) / (L * P)])
              ++ (if sa < fa then [P, L] else [L, P]),
            (scanFrames L P (decide (sa < fa)) px).flatten.flatten⟩ := by
  rw [scanGetImage_eq, channelPixels_spec]
  cases h : colourPixelsSpec iw chan with
  | none => rfl
  | some px => exact scan_image_of_pixels fa P sa L hax hP hL px (colour_pixels_count iw chan px h).2

/-- Conservation, end to end: the total of the image `Kymo.get_image(colour)` returns is the total count of
    the non-discarded samples of the span the info wave shares with the photon stream, up to its last
    pixel boundary. -/
theorem kymo_image_total (P : Nat) (hP : 0 < P) (iw : List Nat) (chan : List Int) (im : Image)
    (h : kymoGetImage P iw chan = .ok im) :
    im.flat.sum = usedSum (uptoLastBoundary (chan.zip iw)) := by
  rw [kymo_get_image_any P hP] at h
  cases hs : colourPixelsSpec iw chan with
  | none => rw [hs] at h; cases h
  | some px =>
    rw [hs] at h
    cases h
    show (kymoImage P px).flatten.sum = _
    rw [image_total_kymo P hP, colour_pixels_sum iw chan px hs]

theorem scan_image_total (fa P sa L : Nat) (hax : fa ≠ sa) (hP : 2 ≤ P) (hL : 2 ≤ L) (iw : List Nat)
    (chan : List Int) (im : Image) (h : scanGetImage [(fa, P), (sa, L)] iw chan = .ok im) :
    im.flat.sum = usedSum (uptoLastBoundary (chan.zip iw)) := by
  rw [scan_get_image_any fa P sa L hax hP hL] at h
  cases hs : colourPixelsSpec iw chan with
  | none => rw [hs] at h; cases h
  | some px =>
    rw [hs] at h
    cases h
    show (scanFrames L P _ px).flatten.flatten.sum = _
    rw [image_total_scan L P (by omega) (by omega), colour_pixels_sum iw chan px hs]

example : kymoGetImage 2 [0, 1, 2, 2, 0, 1, 2, 1] [9, 1, 2, 3, 9, 4] = .ok ⟨[2, 1], [3, 3]⟩ := by decide
example : usedSum (uptoLastBoundary ([9, 1, 2, 3, 9, 4].zip [0, 1, 2, 2, 0, 1, 2, 1])) = 6 := by decide
example := kymo_image_total 2 (by decide) [0, 1, 2, 2, 0, 1, 2, 1] [9, 1, 2, 3, 9, 4] _ rfl

/-- The function behind the protocol op `c02.total` is the total of the image `get_image` returns. -/
theorem expected_total_kymo (P : Nat) (hP : 0 < P) (iw : List Nat) (chan : List Int) :
    expectedTotal iw chan = match kymoGetImage P iw chan with
      | .err e => .err e
      | .ok im => .ok im.flat.sum := by
  cases hk : kymoGetImage P iw chan with
  | err e =>
    rw [kymo_get_image_any P hP] at hk
    unfold expectedTotal
    cases hs : colourPixelsSpec iw chan with
    | none => rw [hs] at hk; cases hk; rfl
    | some px => rw [hs] at hk; cases hk
  | ok im =>
    have ht := kymo_image_total P hP iw chan im hk
    rw [kymo_get_image_any P hP] at hk
    unfold expectedTotal
    cases hs : colourPixelsSpec iw chan with
    | none => rw [hs] at hk; cases hk
    | some px => simp only [ht]

example : expectedTotal [0, 1, 2, 2, 0, 1, 2, 1] [9, 1, 2, 3, 9, 4] = .ok 6 := by decide

theorem settled_fresh (k : Kind) (iw : List Nat) (ss : Streams)
    (h : ∀ c, startsLate iw.length 0 (streamOf ss c) = false) : Settled k iw ss ObjState.fresh :=
  ⟨coherent_fresh k iw ss, h⟩

/-- An object none of whose photon streams starts inside it: every answer of ANY sequence of queries
    (colours, rgb, `Kymo.shape`) is the answer a new object gives to that query asked first — THE image of
    a colour does not depend on what was asked before — and the object's start never moves. -/
theorem answers_history_independent (k : Kind) (iw : List Nat) (ss : Streams) (qs : List Nat)
    (h : ∀ c, startsLate iw.length 0 (streamOf ss c) = false) :
    runSeq k iw ss ObjState.fresh qs = qs.map (fun q => (query k iw ss ObjState.fresh q).2) ∧
    (stateAfter k iw ss ObjState.fresh qs).off = 0 := by
  have hs := settled_fresh k iw ss h
  obtain ⟨h1, h2⟩ := runSeq_settled k iw ss qs _ hs
  refine ⟨?_, h2⟩
  rw [h1]
  apply List.map_congr_left
  intro q _
  exact (query_settled k iw ss _ q hs).1.symm

example : ∀ c, startsLate 7 0 (streamOf [⟨0, []⟩, ⟨1, [5, 1, 2, 3, 4, 5, 6]⟩, ⟨-7, [1, 2]⟩] c) = false := by
  intro c
  match c with
  | 0 => decide
  | 1 => decide
  | 2 => decide
  | n + 3 => rfl


/-- The one-shot functions of section 5b (`c02.kymo`, `c02.scan`) are the first answer of the stateful
    model: the photon slice `photonCount` hands over exists exactly when the stream does not start inside
    the item, and then the first `get_image(colour)` of a new object is the image of that slice. -/
theorem first_query_is_get_image (k : Kind) (iw : List Nat) (s : Stream) (c : Nat) :
    (photonCount iw.length s.lead s.data = none ↔ startsLate iw.length 0 s = true) ∧
    ∀ pc, photonCount iw.length s.lead s.data = some pc →
      (queryColour k iw s c ObjState.fresh).2 = imageOfPixels k (channelPixels iw pc) ∧
      (queryColour k iw s c ObjState.fresh).1.off = 0 :=
  first_query_lemma k iw s c

example : photonCount 7 1 [5, 1, 2, 3, 4, 5, 6] = some [1, 2, 3, 4, 5, 6] := by decide
example := (first_query_is_get_image (.kymo 2) [0, 1, 2, 2, 0, 1, 2] ⟨1, [5, 1, 2, 3, 4, 5, 6]⟩ 1).2 _ rfl

/-- Asking the same colour again on an object whose cache dict was not replaced by the first call returns
    the same image and changes nothing (`method_cache`). -/
theorem query_colour_idempotent (k : Kind) (iw : List Nat) (s : Stream) (c : Nat) (st : ObjState) (im : Image)
    (h : (queryColour k iw s c st).2 = .ok im) (hg : (queryColour k iw s c st).1.gen = st.gen) :
    queryColour k iw s c (queryColour k iw s c st).1 = ((queryColour k iw s c st).1, .ok im) :=
  queryColour_idempotent k iw s c st im h hg

example := query_colour_idempotent (.kymo 2) [0, 1, 2, 2] ⟨0, [5, 6, 7, 8]⟩ 1 ObjState.fresh ⟨[2, 1], [13, 8]⟩
  (by decide) (by decide)

/-! ## 9. Deepening round D: the first-line repair on regular info waves

`regWave lead k d P n`: `lead` discarded samples, then `n` lines of `P` pixels of `k` samples (`k − 1` × use, then the
boundary), each line followed by `d` discarded samples.  Which lines a kymograph keeps when a photon stream starts
inside its first line was compared with the model only; on this family it is now a theorem. -/

/-- `seek_timestamp_next_line` (pixel starts = followers of all boundaries but the last, distances, threshold
    `(max + min) / 2`, first distance above it) lands on the first sample of the SECOND line — for every lead-in,
    `k ≥ 1` samples per pixel, `d ≥ 1` dead samples, `P ≥ 2` pixels per line and `n ≥ 2` lines. -/
theorem seek_regular_second_line (lead k d P n : Nat) (hk : 1 ≤ k) (hd : 1 ≤ d) :
    seekNextLine (regWave lead k d (P + 2) (n + 2)) = some (lead + (P + 2) * k + d) :=
  seek_regular lead k d P n hk hd

example : seekNextLine (regWave 1 2 1 2 2) = some 6 := by decide
example := seek_regular_second_line 1 2 1 0 0 (by decide) (by decide)

/-- Each hypothesis is needed (kernel-checked): with ONE pixel per line the code lands on the THIRD line; without
    dead time between the lines it lands on the third pixel (inside the first line); with a single line it fails
    (`ValueError`: `np.max` of an empty array). -/
example : seekNextLine (regWave 0 1 1 1 3) = some 4 ∧ (0 + 1 * 1 + 1 = 2) := by decide
example : seekNextLine (regWave 0 2 0 3 2) = some 4 ∧ (0 + 3 * 2 + 0 = 6) := by decide
example : seekNextLine (regWave 0 2 1 2 1) = none := by decide

/-- First `get_image` of a colour whose photon stream starts inside the first line (any number of pixels per
    line `Pp` in the metadata): the object's start moves to the second line, the cache dict is replaced, and -
    when no stream starts later than that - the object is settled: by `runSeq_settled` every later answer is the
    from-scratch answer for that start. -/
theorem first_line_repair (Pp lead k d P n : Nat) (hk : 1 ≤ k) (hd : 1 ≤ d) (ss : Streams) (c : Nat)
    (hlate : startsLate (regWave lead k d (P + 2) (n + 2)).length 0 (streamOf ss c) = true)
    (hin : ∀ c', 0 ≤ (streamOf ss c').lead + ((lead + (P + 2) * k + d : Nat) : Int)) (qs : List Nat) :
    (queryColour (.kymo Pp) (regWave lead k d (P + 2) (n + 2)) (streamOf ss c) c ObjState.fresh).1
      = ⟨lead + (P + 2) * k + d, 1, []⟩ ∧
    runSeq (.kymo Pp) (regWave lead k d (P + 2) (n + 2)) ss ⟨lead + (P + 2) * k + d, 1, []⟩ qs
      = qs.map (pureAnswer (.kymo Pp) (regWave lead k d (P + 2) (n + 2)) ss (lead + (P + 2) * k + d)) := by
  obtain ⟨h1, h2⟩ := first_line_repair_lemma Pp lead k d P n hk hd ss c hlate hin
  exact ⟨h1, (runSeq_settled _ _ ss qs _ h2).1⟩

example : startsLate (regWave 1 2 1 2 2).length 0 (streamOf [⟨0, []⟩, ⟨-2, [1, 2, 3, 4, 5, 6, 7, 8, 9]⟩] 1) = true := by
  decide
example : (queryColour (.kymo 2) (regWave 1 2 1 2 2) (streamOf [⟨0, []⟩, ⟨-2, [1, 2, 3, 4, 5, 6, 7, 8, 9]⟩] 1) 1
    ObjState.fresh).1 = ⟨6, 1, []⟩ := by decide

/-- What the repaired kymograph shows for a colour whose stream covers the whole info wave: the pixels of the
    full reconstruction with the first line's `P` pixels removed, nothing else dropped or shifted. -/
theorem fresh_after_repair (Pp lead k d P n : Nat) (hk : 1 ≤ k) (data : List Int)
    (h : data.length = (regWave lead k d (P + 1) (n + 2)).length) :
    freshImage (.kymo Pp) (regWave lead k d (P + 1) (n + 2)) ⟨0, data⟩ (lead + (P + 1) * k + d)
      = imageOfPixels (.kymo Pp) (.ok ((pixelsSpec data (regWave lead k d (P + 1) (n + 2))).drop (P + 1))) := by
  have haux := pixels_after_first_line_aux lead k d P (n + 1) hk data h
  have hlenA : (List.replicate lead 0 ++ regLine k (P + 1) ++ List.replicate d 0).length = lead + (P + 1) * k + d := by
    simp [regLine_length k hk]; omega
  have hdrop : (regWave lead k d (P + 1) (n + 2)).drop (lead + (P + 1) * k + d) = regLines k d (P + 1) (n + 1) := by
    rw [regWave_split, ← hlenA, List.drop_left' rfl]
  have hle : lead + (P + 1) * k + d ≤ (regWave lead k d (P + 1) (n + 2)).length := by
    rw [regWave_split, List.length_append, hlenA]; omega
  clear hlenA
  generalize hiw : regWave lead k d (P + 1) (n + 2) = iw at *
  generalize hs : lead + (P + 1) * k + d = s' at *
  unfold freshImage channelPixelsAt chanSlice
  have hrel : ((0 : Int) + (s' : Int)) ≥ 0 := by omega
  simp only [ge_iff_le] at hrel
  simp only [ge_iff_le, hrel, if_true, true_or]
  have htn : ((0 : Int) + (s' : Int)).toNat = s' := by omega
  rw [htn]
  have htake : (data.drop s').take (iw.length - s') = data.drop s' := by
    apply List.take_of_length_le; simp; omega
  rw [htake]
  have hlen : (data.drop s').length = (iw.drop s').length := by simp; omega
  have hne : (data.drop s').length ≠ 0 := by
    rw [hlen, hdrop]
    intro hz
    have := regLines_count_pos k d P n
    rw [List.length_eq_zero_iff.mp hz] at this
    simp at this
  rw [full_channel _ _ hlen hne, reconstructSum_spec]
  have hb : (iw.drop s').count 2 ≠ 0 := by rw [hdrop]; exact regLines_count_pos k d P n
  simp only [hlen, ne_eq, not_true_eq_false, if_false, hb]
  rw [haux]

example : freshImage (.kymo 2) (regWave 1 2 1 2 2) ⟨0, [9, 1, 2, 3, 4, 9, 5, 6, 7, 8, 9]⟩ 6 = .ok ⟨[2, 1], [11, 15]⟩ := by
  decide
example := fresh_after_repair 2 1 2 1 1 0 (by decide) [9, 1, 2, 3, 4, 9, 5, 6, 7, 8, 9] rfl

/-! ## 10. Deepening round D: the property's sentence in index form; `Scan.shape` and the image; side conditions -/

/-- Pixel `j` is the sum of the photon counts of EXACTLY the samples the info wave assigns to it: the samples that
    are not flagged discard and have `j` pixel boundaries before them - and 0 when pixel `j` is not completed
    (fewer than `j + 1` boundaries).  All lengths, any samples per pixel, any dead time, any discarded counts. -/
theorem pixel_is_assigned_samples (data : List Int) (iw : List Nat) (h : data.length = iw.length) (j : Nat) :
    (pixelsSpec data iw).getD j 0 = assignedSum data iw j := by
  have := spec_getD_assigned iw data 0 j h
  unfold pixelsSpec
  rw [this]
  simp

example : (pixelsSpec [9, 1, 2, 7, 3, 4, 5] [0, 1, 2, 0, 1, 2, 1]).getD 1 0 = 7 ∧
    assignedSum [9, 1, 2, 7, 3, 4, 5] [0, 1, 2, 0, 1, 2, 1] 1 = 7 := by decide
example := pixel_is_assigned_samples [9, 1, 2, 7, 3, 4, 5] [0, 1, 2, 0, 1, 2, 1] rfl 1

/-- ... and it sits where the scan-axis metadata says: kymograph entry (row `r`, column `ℓ`) of a full-length
    channel is the total of the samples assigned to pixel `ℓ·P + r`. -/
theorem kymo_entry_is_assigned (P : Nat) (hP : 0 < P) (iw : List Nat) (chan : List Int)
    (h : chan.length = iw.length) (r ℓ : Nat) (hr : r < P) :
    at2 (kymoImage P (pixelsSpec chan iw)) r ℓ = assignedSum chan iw (ℓ * P + r) := by
  rw [kymo_placement P hP _ r ℓ hr, pixel_is_assigned_samples chan iw h]

example := kymo_entry_is_assigned 2 (by decide) [0, 1, 2, 2, 0, 1, 2] [9, 1, 2, 3, 9, 4, 5] rfl 0 1 (by decide)

/-- the same for a scan, in either axis order -/
theorem scan_entry_is_assigned (L P : Nat) (hL : 0 < L) (hP : 0 < P) (iw : List Nat) (chan : List Int)
    (h : chan.length = iw.length) (f l p : Nat) (hl : l < L) (hp : p < P) :
    at3 (scanFrames L P false (pixelsSpec chan iw)) f l p = assignedSum chan iw ((f * L + l) * P + p) ∧
    at3 (scanFrames L P true (pixelsSpec chan iw)) f p l = assignedSum chan iw ((f * L + l) * P + p) := by
  rw [scan_placement_fast_lower L P hL hP _ f l p hl hp, scan_placement_fast_higher L P hL hP _ f l p hl hp,
    pixel_is_assigned_samples chan iw h]
  exact ⟨rfl, rfl⟩

example := scan_entry_is_assigned 2 2 (by decide) (by decide) [1, 2, 2, 0, 2, 2, 2] [1, 2, 3, 9, 4, 5, 6] rfl 1 0 0
  (by decide) (by decide)

/-- `Scan.shape` (metadata + `num_frames` reconstructed from the info wave) is the shape of the image
    `Scan.get_image(colour)` returns, plus the colour axis — for every colour that is absent or reaches the end of
    the info wave. -/
theorem scan_shape_matches_image (fa P sa L : Nat) (hax : fa ≠ sa) (hP : 2 ≤ P) (hL : 2 ≤ L) (iw : List Nat)
    (chan : List Int) (hc : chan.length = 0 ∨ iw.length ≤ chan.length) (im : Image)
    (h : scanGetImage [(fa, P), (sa, L)] iw chan = .ok im) :
    scanShape [(fa, P), (sa, L)] 0 iw = im.shape ++ [3] := by
  rw [scan_get_image_any fa P sa L hax hP hL] at h
  cases hs : colourPixelsSpec iw chan with
  | none => rw [hs] at h; cases h
  | some px =>
    rw [hs] at h
    cases h
    obtain ⟨hlen, hne⟩ := colour_pixels_count iw chan px hs
    have hcount : px.length = iw.count 2 := by
      rcases hc with h0 | hge
      · rw [hlen, if_pos h0]
      · have h0 : chan.length ≠ 0 := by
          intro h0
          have : iw = [] := List.length_eq_zero_iff.mp (by omega)
          rw [if_pos h0, this] at hlen
          simp at hlen; subst hlen; exact hne rfl
        rw [hlen, if_neg h0, map_snd_zip_min, Nat.min_eq_right hge, List.take_length]
    have hLP : 0 < L * P := Nat.mul_pos (by omega) (by omega)
    obtain ⟨m1, m2, _, m4⟩ := scan_axes_meta fa P sa L hax
    unfold scanShape
    simp only [m1, m2, m4, numFrames, if_true, reconstructNumFrames, ← hcount, Nat.mul_comm P L]
    have hF := ceil_div_spec px.length (L * P) hLP
    generalize (px.length + L * P - 1) / (L * P) = F at hF ⊢
    have hF1 : 1 ≤ F := by
      cases F with
      | zero => have := hF.1; simp only [Nat.zero_mul] at this; omega
      | succ F => omega
    by_cases h1 : F = 1
    · subst h1
      by_cases hlt : fa < sa
      · have : ¬ sa < fa := by omega
        simp [hlt, this]
      · have : sa < fa := by omega
        simp [hlt, this]
    · have hgt : F > 1 := by omega
      by_cases hlt : fa < sa
      · have : ¬ sa < fa := by omega
        simp [hlt, this, h1, hgt]
      · have : sa < fa := by omega
        simp [hlt, this, h1, hgt]

example : scanShape [(1, 2), (0, 2)] 0 [1, 2, 2, 0, 2, 2, 2] = [2, 2, 2, 3] := by decide
example := scan_shape_matches_image 1 2 0 2 (by decide) (by decide) (by decide) [1, 2, 2, 0, 2, 2, 2]
  [1, 2, 3, 9, 4, 5, 6] (Or.inr (by decide)) ⟨[2, 2, 2], [3, 4, 3, 5, 6, 0, 0, 0]⟩ (by decide)

/-- The hypothesis is needed: a colour that ends before the last frame gives a smaller image than `Scan.shape` says. -/
example : scanShape [(0, 2), (1, 2)] 0 [2, 2, 2, 2, 2] = [2, 2, 2, 3] ∧
    scanGetImage [(0, 2), (1, 2)] [2, 2, 2, 2, 2] [1, 1, 1] = .ok ⟨[2, 2], [1, 1, 1, 0]⟩ := by decide

/-! kernel-checked witnesses: the side conditions of the placement / metadata theorems are needed -/
-- `scan_axes_meta` needs two DISTINCT physical axes (`sorted` is stable: equal axis numbers keep the scan order)
example : numPixels [(1, 5), (1, 7)] = [5, 7] ∧ ¬ ((1 : Nat) < 1) := by decide
-- `kymo_placement` needs `r < P`: outside the image the entry is 0, whatever the pixel list holds there
example : at2 (kymoImage 2 [10, 11, 12, 13]) 2 0 = 0 ∧ [10, 11, 12, 13].getD (0 * 2 + 2) 0 = 12 := by decide
-- `scan_placement_fast_lower` needs `p < P`
example : at3 (scanFrames 2 2 false [1, 2, 3, 4]) 0 0 2 = 0 ∧ [1, 2, 3, 4].getD ((0 * 2 + 0) * 2 + 2) 0 = 3 := by decide
-- `image_total_kymo` needs `0 < P`
example : (kymoImage 0 [1, 2]).flatten.sum = 0 := by decide

/-! ## Round H: `Scan.shape` / `Scan.num_frames` do not depend on what was asked before

`Scan.num_frames` stores the reconstructed frame count in the metadata (`ScanState.mf`); `Scan.shape` goes through
it, `get_image` does not.  Whatever sequence of queries an object has answered, its shape / frame count are the ones
a NEW object reports — those the property states (metadata; reconstructed from the info wave when it says zero). -/

/-- `Scan.shape` and `Scan.num_frames` asked of a scan in ANY state reachable by queries answer what a new scan
    answers: `scanShape` / `numFrames` of the metadata and the info wave. -/
theorem scan_meta_history_independent (axes : Axes) (iw : List Nat) (ss : Streams) (st : ScanState) (qs : List Nat)
    (q : Nat) (hq : q = 4 ∨ q = 5) :
    (scanQuery axes iw ss (scanStateAfter axes iw ss st qs) q).2 = scanPureAnswer axes st.mf iw ss q := by
  have key := scanStateAfter_numFrames axes iw ss qs st
  rcases hq with rfl | rfl
  · simp only [scanQuery, scanPureAnswer, queryScanShape_eq, if_true]
    rw [scanShape_congr axes iw _ _ key]
  · simp only [scanQuery, scanPureAnswer, queryNumFrames_eq, if_true, show ¬ (5 = 4) by decide, if_false, key]

/-- A metadata query leaves the confocal state (start, memoised images) alone; an image query leaves the metadata
    alone and is answered as `query` answers it. -/
theorem scan_meta_queries_separate (axes : Axes) (iw : List Nat) (ss : Streams) (st : ScanState) (q : Nat) :
    ((q = 4 ∨ q = 5) → (scanQuery axes iw ss st q).1.obj = st.obj) ∧
    (q < 4 → (scanQuery axes iw ss st q).1.mf = st.mf ∧
      (scanQuery axes iw ss st q).2 = (query (.scan axes) iw ss st.obj q).2 ∧
      (scanQuery axes iw ss st q).1.obj = (query (.scan axes) iw ss st.obj q).1) := by
  constructor
  · rintro (rfl | rfl) <;> simp [scanQuery]
  · intro h
    have h4 : q ≠ 4 := by omega
    have h5 : q ≠ 5 := by omega
    simp [scanQuery, h4, h5]

/-- For a continuous scan (metadata frame count 0) the shape reported after ANY sequence of queries is the shape of
    the image `get_image` returns for a colour that is absent or reaches the end of the info wave, plus the colour
    axis (with `scan_shape_matches_image`). -/
theorem scan_shape_query_matches_image (fa P sa L : Nat) (hax : fa ≠ sa) (hP : 2 ≤ P) (hL : 2 ≤ L) (iw : List Nat)
    (chan : List Int) (hc : chan.length = 0 ∨ iw.length ≤ chan.length) (im : Image)
    (h : scanGetImage [(fa, P), (sa, L)] iw chan = .ok im) (ss : Streams) (st : ObjState) (qs : List Nat) :
    (scanQuery [(fa, P), (sa, L)] iw ss (scanStateAfter [(fa, P), (sa, L)] iw ss ⟨0, st⟩ qs) 4).2
      = Verif.Proto.showNatList (im.shape ++ [3]) := by
  rw [scan_meta_history_independent _ _ _ _ _ 4 (Or.inl rfl)]
  simp only [scanPureAnswer, if_true]
  rw [scan_shape_matches_image fa P sa L hax hP hL iw chan hc im h]

-- a continuous two-frame scan asked its shape first, after `num_frames`, and after an image: always [2,2,2,3]
example : runScanSeq [(1, 2), (0, 2)] [1, 2, 2, 0, 2, 2, 2] [⟨0, [1, 2, 3, 9, 4, 5, 6]⟩, ⟨0, []⟩, ⟨0, []⟩]
    ⟨0, ObjState.fresh⟩ [4, 5, 4] = ["[2,2,2,3]", "2", "[2,2,2,3]"] := by decide
example := scan_shape_query_matches_image 1 2 0 2 (by decide) (by decide) (by decide) [1, 2, 2, 0, 2, 2, 2]
  [1, 2, 3, 9, 4, 5, 6] (Or.inr (by decide)) ⟨[2, 2, 2], [3, 4, 3, 5, 6, 0, 0, 0]⟩ (by decide)
  [⟨0, [1, 2, 3, 9, 4, 5, 6]⟩] ObjState.fresh [0, 5]
/-- the memo is real state: `num_frames` changes the metadata value of a continuous scan (0 -> 2), `get_image` does not -/
example : (scanStateAfter [(1, 2), (0, 2)] [1, 2, 2, 0, 2, 2, 2] [] ⟨0, ObjState.fresh⟩ [5]).mf = 2 ∧
    (scanStateAfter [(1, 2), (0, 2)] [1, 2, 2, 0, 2, 2, 2] [] ⟨0, ObjState.fresh⟩ [0]).mf = 0 := by decide

end Verif.C02
