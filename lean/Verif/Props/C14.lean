/-
  C14 — property theorems (statements + short proofs; helper lemmas live in Lemmas/C14).
  Every theorem is about the executable model in `Verif.Model.C14`, which the correspondence check ties to
  `lumicks/pylake/fitting/{fit,datasets,fitdata,parameters,model}.py` and `detail/link_functions.py` on every run.
  The optimiser is a parameter `opt`; the only assumption made about it is `OptInBox` (it answers a point of the box).
  The clause "fits recover the generating parameters" is NOT a theorem (it is explored by seeded fits on noise-free
  data in harness/c14.py).
-/
import Verif.Lemmas.C14

namespace Verif.C14

/-! ## The global parameter table -/

/-- `unique` against an independent reading: no duplicates, the same members, in first-occurrence order (a sublist
    of the input). -/
theorem unique_spec (l : List String) :
    (unique l).Nodup ∧ (∀ x, x ∈ unique l ↔ x ∈ l) ∧ (unique l).Sublist l :=
  ⟨unique_nodup l, mem_unique l, unique_sublist l⟩

/-- The global names are exactly the names some dataset maps a model parameter to — each once; numeric overrides
    contribute nothing. -/
theorem globalNames_spec (ms : List ModelData) :
    (globalNames ms).Nodup ∧
    ∀ n, n ∈ globalNames ms ↔ ∃ m ∈ ms, ∃ d ∈ m.data, ∃ e ∈ d.trans, e.2 = .name n :=
  ⟨unique_nodup _, mem_globalNames ms⟩

/-- After `_build_fit` the keys of the parameter table are the global names, in that order. -/
theorem build_table_keys (r : Bool) (F : Fit) :
    (F.build r).table.map (·.1) = globalNames F.models :=
  setParams_keys _ _ _ (buildDefaults_length r F.models)

/-! ## What a dataset sees -/

/-- The index route of the code (condition strings → groups → the FIRST dataset's `Condition` → index table →
    `get_local_params`) gives every dataset exactly its own direct reading: each model parameter is the global entry
    of the name it is mapped to, or its constant.  Hypothesis `CondInj`: condition strings identify target lists. -/
theorem condition_route_correct (ms : List ModelData) (m : ModelData) (hm : m ∈ ms) (hinj : CondInj m)
    (g : List Rat) (n : String) (v : List Rat) :
    (n, v) ∈ localsByIndex m (globalNames ms) g ↔
      ∃ d ∈ m.data, d.name = n ∧ v = localDirect d.trans (globalNames ms) g :=
  mem_localsByIndex m _ g hinj (fun d hd => namesIn_globalNames ms m hm d hd) n v

/-- non-vacuity: a model with three datasets (shared, renamed, constant) satisfies `CondInj`, and the route theorem
    pins down all three vectors -/
example :
    let d1 : Data := ⟨"d1", [("M/a", .name "M/a"), ("M/b", .name "M/b")], 3, [], []⟩
    let d2 : Data := ⟨"d2", [("M/a", .name "M/a2"), ("M/b", .name "M/b")], 3, [], []⟩
    let d3 : Data := ⟨"d3", [("M/a", .const 5 "5"), ("M/b", .name "M/b")], 3, [], []⟩
    let m : ModelData := ⟨[("M/a", none), ("M/b", none)], [d1, d2, d3], true⟩
    CondInj m ∧
    localsByIndex m (globalNames [m]) [1, 2, 3] = [("d1", [1, 2]), ("d2", [3, 2]), ("d3", [5, 2])] := by
  refine ⟨?_, by decide⟩
  intro a ha b hb
  simp only [List.mem_cons, List.not_mem_nil, or_false] at ha hb
  rcases ha with rfl | rfl | rfl <;> rcases hb with rfl | rfl | rfl <;> decide

/-- `CondInj` cannot be dropped: a parameter NAMED "5" and the constant 5 print the same condition string, and the
    second dataset is then evaluated with the first one's constant instead of its own parameter (observation
    O-C14-A; kernel-checked). -/
theorem collision_witness :
    let d1 : Data := ⟨"d1", [("M/a", .const 5 "5"), ("M/b", .name "M/b")], 3, [], []⟩
    let d2 : Data := ⟨"d2", [("M/a", .name "5"), ("M/b", .name "M/b")], 3, [], []⟩
    let m : ModelData := ⟨[("M/a", none), ("M/b", none)], [d1, d2], true⟩
    globalNames [m] = ["M/b", "5"] ∧
    localsByIndex m (globalNames [m]) [2, 7] = [("d1", [5, 2]), ("d2", [5, 2])] ∧
    localDirect d2.trans (globalNames [m]) [2, 7] = [7, 2] := by decide

/-- **shared_one_value.** Two datasets (of the same or of different models) that map a model parameter to the same
    global name read the same entry of the global vector — whatever the vector is. -/
theorem shared_one_value (ms : List ModelData) (m1 m2 : ModelData) (h1 : m1 ∈ ms) (h2 : m2 ∈ ms)
    (i1 : CondInj m1) (i2 : CondInj m2) (g : List Rat)
    (d1 d2 : Data) (hd1 : d1 ∈ m1.data) (hd2 : d2 ∈ m2.data) (j1 j2 : Nat) (k1 k2 n : String)
    (e1 : d1.trans[j1]? = some (k1, .name n)) (e2 : d2.trans[j2]? = some (k2, .name n)) :
    ∃ v1 v2, (d1.name, v1) ∈ localsByIndex m1 (globalNames ms) g ∧
      (d2.name, v2) ∈ localsByIndex m2 (globalNames ms) g ∧
      v1[j1]? = some (g.getD ((globalNames ms).idxOf n) 0) ∧ v2[j2]? = v1[j1]? := by
  refine ⟨localDirect d1.trans (globalNames ms) g, localDirect d2.trans (globalNames ms) g,
    (condition_route_correct ms m1 h1 i1 g _ _).mpr ⟨d1, hd1, rfl, rfl⟩,
    (condition_route_correct ms m2 h2 i2 g _ _).mpr ⟨d2, hd2, rfl, rfl⟩, ?_, ?_⟩
  · exact localDirect_getElem_name _ _ _ _ _ _ e1
  · rw [localDirect_getElem_name _ _ _ _ _ _ e1, localDirect_getElem_name _ _ _ _ _ _ e2]

/-- non-vacuity: two datasets sharing `M/b`, the second with its own `M/a2` -/
example :
    let d1 : Data := ⟨"d1", [("M/a", .name "M/a"), ("M/b", .name "M/b")], 3, [], []⟩
    let d2 : Data := ⟨"d2", [("M/a", .name "M/a2"), ("M/b", .name "M/b")], 3, [], []⟩
    let m : ModelData := ⟨[("M/a", none), ("M/b", none)], [d1, d2], true⟩
    globalNames [m] = ["M/a", "M/b", "M/a2"] ∧
    localsByIndex m (globalNames [m]) [1, 2, 3] = [("d1", [1, 2]), ("d2", [3, 2])] := by decide

/-- **renamed_independent (1).** Different names have different indices in the table. -/
theorem renamed_distinct_index (ms : List ModelData) (n1 n2 : String) (h1 : n1 ∈ globalNames ms) (hne : n1 ≠ n2) :
    (globalNames ms).idxOf n1 ≠ (globalNames ms).idxOf n2 :=
  fun h => hne (idxOf_inj_of_mem _ n1 n2 h1 h)

/-- **renamed_independent (2).** Changing the global entry of a name leaves the vector of every dataset that does
    not use this name unchanged (in particular: a dataset-specific parameter of another dataset). -/
theorem renamed_independent (ms : List ModelData) (m : ModelData) (hm : m ∈ ms) (hinj : CondInj m)
    (g : List Rat) (n : String) (x : Rat) (d : Data) (hd : d ∈ m.data)
    (hn : n ∉ parameterNames d) (v : List Rat) :
    (d.name, v) ∈ localsByIndex m (globalNames ms) (g.set ((globalNames ms).idxOf n) x) →
    ∃ d' ∈ m.data, d'.name = d.name ∧
      ((d.name, localDirect d.trans (globalNames ms) g) ∈ localsByIndex m (globalNames ms) g) ∧
      localDirect d.trans (globalNames ms) (g.set ((globalNames ms).idxOf n) x)
        = localDirect d.trans (globalNames ms) g := by
  intro _
  refine ⟨d, hd, rfl, (condition_route_correct ms m hm hinj g _ _).mpr ⟨d, hd, rfl, rfl⟩, ?_⟩
  apply localDirect_set_other _ _ _ _ _ (namesIn_globalNames ms m hm d hd)
  intro e he h
  exact hn ((mem_parameterNames d n).mpr ⟨e, he, h⟩)

/-- non-vacuity: moving `M/a2` (index 2) leaves the dataset that does not use it where it was -/
example :
    let d1 : Data := ⟨"d1", [("M/a", .name "M/a"), ("M/b", .name "M/b")], 3, [], []⟩
    let d2 : Data := ⟨"d2", [("M/a", .name "M/a2"), ("M/b", .name "M/b")], 3, [], []⟩
    let m : ModelData := ⟨[("M/a", none), ("M/b", none)], [d1, d2], true⟩
    "M/a2" ∉ parameterNames d1 ∧ (globalNames [m]).idxOf "M/a2" = 2 ∧
    localsByIndex m (globalNames [m]) ([1, 2, 3].set 2 9) = [("d1", [1, 2]), ("d2", [9, 2])] := by decide

/-- **constants_stay_local.** A numeric override is what the dataset sees at that position for EVERY global vector
    (so no fit can change it), and it adds no entry to the table (`globalNames_spec`). -/
theorem constants_stay_local (ms : List ModelData) (m : ModelData) (hm : m ∈ ms) (hinj : CondInj m)
    (d : Data) (hd : d ∈ m.data) (j : Nat) (k r : String) (c : Rat) (e : d.trans[j]? = some (k, .const c r))
    (g : List Rat) :
    ∃ v, (d.name, v) ∈ localsByIndex m (globalNames ms) g ∧ v[j]? = some c :=
  ⟨_, (condition_route_correct ms m hm hinj g _ _).mpr ⟨d, hd, rfl, rfl⟩,
    localDirect_getElem_const _ _ _ _ _ _ _ e⟩

example :
    let d : Data := ⟨"d", [("M/a", .const 5 "5"), ("M/b", .name "M/b")], 3, [], []⟩
    let m : ModelData := ⟨[("M/a", none), ("M/b", none)], [d], true⟩
    globalNames [m] = ["M/b"] ∧ localsByIndex m (globalNames [m]) [2] = [("d", [5, 2])] := by decide

/-! ## Rebuilding -/

/-- **rebuild_idempotent.** Building a built fit again changes nothing: same names, and every `Parameter` (value,
    bounds, fixed flag — including everything the user set) is kept. -/
theorem rebuild_idempotent (r : Bool) (F : Fit) : (F.build r).build r = F.build r := by
  have e1 := build_models_names r F
  have e2 := build_models_defaults r F
  show Fit.mk _ _ _ = Fit.mk _ _ _
  congr 1
  · simp [Fit.build, List.map_map]
  · rw [e1, e2]
    exact setParams_idem _ _ _ (unique_nodup _)

/-- non-vacuity: a user-set bound and value survive a second build; a new name gets its default -/
example :
    let d : Data := ⟨"d", [("a", .name "a"), ("b", .name "b2")], 4, [], []⟩
    let m : ModelData := ⟨[("a", some ⟨1, none, none, false⟩), ("b", some ⟨2, some 0, some 5, true⟩)], [d], false⟩
    let F : Fit := ⟨[m], [("a", ⟨7, some 6, none, false⟩)], false⟩
    (F.build false).table = [("a", ⟨7, some 6, none, false⟩), ("b2", ⟨2, some 0, some 5, true⟩)] ∧
    ((F.build false).build false) = F.build false := by decide

/-- The lazy `_rebuild` is unobservable on a built fit: nothing is dirty, nothing is rebuilt. -/
theorem rebuild_of_built (r : Bool) (F : Fit) : (F.build r).rebuild r = F.build r := by
  have : (F.build r).dirty = false := by
    simp [Fit.dirty, Fit.build]
  simp [Fit.rebuild, this]

/-- …and forcing a rebuild of a clean fit would not change it either. -/
theorem forced_rebuild_same (r : Bool) (F : Fit) : ((F.build r).rebuild r).build r = (F.build r).rebuild r := by
  rw [rebuild_of_built, rebuild_idempotent]

/-! ## Adding data -/

/-- `add_data` in the good case: the dataset is appended to its model, that model is marked dirty, nothing else. -/
theorem addData_ok (F : Fit) (pre post : List ModelData) (m : ModelData) (hF : F.models = pre ++ m :: post)
    (name : String) (ov : List (String × Target)) (nx ny : List Bool) (xs ys : List Nat)
    (tr : List (String × Target))
    (hname : m.data.any (fun d => d.name == name) = false) (hlen : nx.length = ny.length)
    (htr : parseTransformation (m.params.map (·.1)) ov = some tr) :
    F.addData pre.length name ov nx ny xs ys =
      ({ F with models :=
          withData pre m post ⟨name, tr, countValid nx ny, keepValid nx ny xs, keepValid nx ny ys⟩ }, none) := by
  unfold Fit.addData withData
  simp [hF, hname, hlen, htr]

example :
    let m : ModelData := ⟨[("a", none), ("b", none)], [], true⟩
    (Fit.mk [m] [] true).addData 0 "d" [("b", .const 3 "3")] [false, true, false] [false, false, false]
        [10, 0, 12] [20, 21, 22] =
      (⟨withData [] m [] ⟨"d", [("a", .name "a"), ("b", .const 3 "3")], 2, [10, 12], [20, 22]⟩, [], true⟩, none) := by
  decide

/-- What the new dataset holds: one sample pair per valid point (so `npoints` IS the number of samples held), and
    when nothing is NaN exactly the samples that were handed over — as its own values (`keepValid` builds a list). -/
theorem add_data_holds (nx ny : List Bool) (xs ys : List Nat) (hlen : nx.length = ny.length)
    (hx : xs.length = nx.length) (hy : ys.length = ny.length) :
    (keepValid nx ny xs).length = countValid nx ny ∧ (keepValid nx ny ys).length = countValid nx ny ∧
    ((∀ b ∈ nx, b = false) → (∀ b ∈ ny, b = false) → keepValid nx ny xs = xs ∧ keepValid nx ny ys = ys) :=
  ⟨keepValid_length nx ny xs hlen hx, keepValid_length nx ny ys hlen (hy.trans hlen.symm),
    fun h1 h2 => ⟨keepValid_no_nan nx ny xs hlen hx h1 h2, keepValid_no_nan nx ny ys hlen (hy.trans hlen.symm) h1 h2⟩⟩

example : keepValid [false, true, false] [false, false, false] [10, 0, 12] = [10, 12] ∧
    countValid [false, true, false] [false, false, false] = 2 ∧
    keepValid [false, false] [false, false] [7, 8] = [7, 8] := by decide

/-- **held_data_kept.** The data of a dataset belongs to the fit from the moment it is added: whatever the user does
    afterwards — further data for this or any other model (accepted or refused), values, bounds, fixed flags, fits
    (whatever the optimiser answers or raises), queries, Jacobian probes — the dataset is still there, at its place,
    with the transformations and exactly the samples it was added with.  Nothing outside `add_data` writes data, so
    "adding further data leaves the data that is already there alone" and a fit always looks at what was handed over.
    (The harness reads `fit[model].data[name].x / .y` at every query, after the caller has re-used / overwritten the
    arrays it handed over.) -/
theorem held_data_kept (r : Bool) (F : Fit) (acts : List Action) (mi : Nat) (m : ModelData) (k : Nat) (d : Data)
    (hm : F.models[mi]? = some m) (hd : m.data[k]? = some d) :
    ∃ m' : ModelData, (exec r F acts).models[mi]? = some m' ∧ m'.data[k]? = some d := by
  obtain ⟨m', h', t, ht⟩ := keeps_exec r F acts mi m hm
  refine ⟨m', h', ?_⟩
  rw [← ht, List.getElem?_append_left (by
    rcases Nat.lt_or_ge k m.data.length with h | h
    · exact h
    · rw [List.getElem?_eq_none h] at hd; cases hd)]
  exact hd

/-- non-vacuity: a fit with one dataset, then further data, a set, a fit and a query -/
example :
    let d : Data := ⟨"d0", [("a", .name "a")], 2, [10, 12], [20, 22]⟩
    let m : ModelData := ⟨[("a", none)], [d], true⟩
    let acts : List Action := [.add 0 "more" [] [false] [false] [5] [6], .set "a" (.value 3), .fit (.ok [4]), .query]
    ∃ m' : ModelData, (exec false ⟨[m], [], false⟩ acts).models[0]? = some m' ∧ m'.data[0]? = some d :=
  held_data_kept false _ _ 0 _ 0 _ rfl rfl

/-- `exec` is the state `run` threads through: the observations of a script continued by another are the first
    script's, then those of the continuation made on the state the first one left. -/
theorem run_exec (r : Bool) (F : Fit) (as bs : List Action) :
    run r F (as ++ bs) = run r F as ++ run r (exec r F as) bs := run_append r F as bs

/-- Further data is SEEN by the fit: the residual vector the fit evaluates (its length is `n_residuals`) grows by
    exactly the valid points of the added dataset, whatever model it goes to and whether or not it introduces a new
    parameter; nothing evaluated before the addition can still be the residual afterwards unless the dataset is
    empty. (The harness reads the length of `Fit._calculate_residual()` at every query.) -/
theorem add_data_residuals (pre post : List ModelData) (m : ModelData) (d : Data)
    (table : List (String × Param)) (b b' : Bool) :
    (Fit.mk (withData pre m post d) table b').nResiduals =
      (Fit.mk (pre ++ m :: post) table b).nResiduals + d.npoints := by
  simp only [Fit.nResiduals, withData, ModelData.nResiduals, List.map_append, List.map_cons, List.sum_append,
    List.sum_cons, List.map_nil, List.sum_nil]
  omega

example :
    let m : ModelData := ⟨[("a", none)], [⟨"d0", [("a", .name "a")], 3, [], []⟩], true⟩
    (Fit.mk ([] ++ m :: []) [] true).nResiduals = 3 ∧
    (Fit.mk (withData [] m [] ⟨"more", [("a", .name "a")], 5, [], []⟩) [] true).nResiduals = 8 := by decide

/-- **add_data_monotone (1).** No global name is ever lost by adding data. -/
theorem add_data_names_mono (pre post : List ModelData) (m : ModelData) (d : Data) (n : String)
    (h : n ∈ globalNames (pre ++ m :: post)) : n ∈ globalNames (withData pre m post d) := by
  simp only [globalNames, mem_unique] at h ⊢
  rw [allNames_withData]
  simp only [allNames, List.flatMap_append, List.flatMap_cons, List.mem_append] at h ⊢
  rcases h with h | h | h
  · exact .inl (.inl h)
  · exact .inl (.inr (.inl h))
  · exact .inr h

/-- **add_data_monotone (2).** Adding a dataset to the last model that has data (in particular: to the only model)
    APPENDS the new names: the old table order is a prefix of the new one. -/
theorem add_data_appends (pre post : List ModelData) (m : ModelData) (d : Data) (hpost : allNames post = []) :
    globalNames (pre ++ m :: post) <+: globalNames (withData pre m post d) := by
  have e1 : allNames (pre ++ m :: post) = allNames pre ++ m.transformedParams := by
    have : allNames (pre ++ m :: post) = allNames pre ++ m.transformedParams ++ allNames post := by
      simp [allNames, List.flatMap_append]
    rw [this, hpost, List.append_nil]
  have e2 : allNames (withData pre m post d) = (allNames pre ++ m.transformedParams) ++ parameterNames d := by
    rw [allNames_withData, hpost]; simp
  simp only [globalNames, e1, e2]
  exact unique_append_prefix _ _

example :
    let m : ModelData := ⟨[("a", none), ("b", none)], [⟨"d0", [("a", .name "a"), ("b", .name "b")], 1, [], []⟩], true⟩
    let d : Data := ⟨"d1", [("a", .name "a_1"), ("b", .name "b")], 1, [], []⟩
    globalNames ([] ++ m :: []) = ["a", "b"] ∧ globalNames (withData [] m [] d) = ["a", "b", "a_1"] := by decide

/-- The prefix statement needs its hypothesis: a dataset added to an EARLIER model can change the relative order of
    names that a later model introduced (only the order; entries are kept by name, see `add_data_keeps_entries`). -/
theorem add_data_reorder_witness :
    let m1 : ModelData := ⟨[("p", none), ("q", none)], [⟨"a", [("p", .name "p"), ("q", .name "p")], 1, [], []⟩], true⟩
    let m2 : ModelData := ⟨[("r", none), ("q", none)], [⟨"c", [("r", .name "r"), ("q", .name "q")], 1, [], []⟩], true⟩
    let d : Data := ⟨"b", [("p", .name "q"), ("q", .name "r")], 1, [], []⟩
    globalNames ([] ++ m1 :: [m2]) = ["p", "r", "q"] ∧ globalNames (withData [] m1 [m2] d) = ["p", "q", "r"] := by
  decide

/-- **add_data_monotone (3).** Whatever model the dataset is added to, after the rebuild every parameter that was
    in the table is still there with the same `Parameter` (value, bounds, fixed flag). -/
theorem add_data_keeps_entries (r : Bool) (F : Fit) (pre post : List ModelData) (m : ModelData)
    (hF : F.models = pre ++ m :: post) (hkeys : F.table.map (·.1) = globalNames F.models) (d : Data)
    (n : String) (hn : n ∈ F.table.map (·.1)) :
    (Fit.build r { F with models := withData pre m post d }).table.lookup n = F.table.lookup n := by
  apply lookup_setParams_old _ _ _ (unique_nodup _) (buildDefaults_length r _) n _ hn
  rw [hkeys, hF] at hn
  exact add_data_names_mono pre post m d n hn

/-! ## Fitting -/

/-- The single assumption about the optimiser: when it answers a vector, the vector is a point of the box it was
    given (SciPy's contract for `least_squares(..., bounds=…)`; asserted by the harness on every call). -/
def OptInBox (opt : Opt) : Prop := ∀ lb ub x0 x, opt lb ub x0 = .ok x → inBox lb ub x = true

/-- What `Fit.fit` does, case by case (`G` = the rebuilt fit). -/
theorem fit_spec (r : Bool) (opt : Opt) (F : Fit) :
    let G := F.rebuild r
    let lb := maskSel G.fitted G.lbs
    let ub := maskSel G.fitted G.ubs
    let x0 := maskSel G.fitted G.values
    (F.fit r opt = (G, .raised "RuntimeError") ∧ (G.nResiduals = 0 ∨ G.fitted.any id = false)) ∨
    (F.fit r opt = (G, .raised "ValueError") ∧ G.nResiduals ≠ 0 ∧ G.fitted.any id = true ∧
      inBox lb ub x0 = false) ∨
    (∃ e, opt lb ub x0 = .err e ∧ F.fit r opt = (G, .optRaised lb ub x0 e) ∧ inBox lb ub x0 = true ∧
      G.nResiduals ≠ 0 ∧ G.fitted.any id = true) ∨
    (∃ x, opt lb ub x0 = .ok x ∧ inBox lb ub x0 = true ∧ G.nResiduals ≠ 0 ∧ G.fitted.any id = true ∧
      F.fit r opt = ({ G with table := tableAfter G.table x }, .done lb ub x0 x)) := by
  intro G lb ub x0
  unfold Fit.fit
  by_cases h1 : (F.rebuild r).nResiduals = 0
  · left; simp only [h1, ↓reduceIte]; exact ⟨rfl, .inl h1⟩
  · by_cases h2 : ((F.rebuild r).fitted.any id) = true
    · by_cases h3 : inBox lb ub x0 = true
      · right; right
        cases h4 : opt lb ub x0 with
        | err e =>
          left
          refine ⟨e, rfl, ?_, h3, h1, h2⟩
          simp only [h1, ↓reduceIte, h2, Bool.not_true, Bool.false_eq_true]
          have h3' : inBox (maskSel (F.rebuild r).fitted (F.rebuild r).lbs)
            (maskSel (F.rebuild r).fitted (F.rebuild r).ubs)
            (maskSel (F.rebuild r).fitted (F.rebuild r).values) = true := h3
          have h4' : opt (maskSel (F.rebuild r).fitted (F.rebuild r).lbs)
            (maskSel (F.rebuild r).fitted (F.rebuild r).ubs)
            (maskSel (F.rebuild r).fitted (F.rebuild r).values) = .err e := h4
          simp only [h3', h4']; rfl
        | ok x =>
          right
          refine ⟨x, rfl, h3, h1, h2, ?_⟩
          simp only [h1, ↓reduceIte, h2, Bool.not_true, Bool.false_eq_true]
          have h3' : inBox (maskSel (F.rebuild r).fitted (F.rebuild r).lbs)
            (maskSel (F.rebuild r).fitted (F.rebuild r).ubs)
            (maskSel (F.rebuild r).fitted (F.rebuild r).values) = true := h3
          have h4' : opt (maskSel (F.rebuild r).fitted (F.rebuild r).lbs)
            (maskSel (F.rebuild r).fitted (F.rebuild r).ubs)
            (maskSel (F.rebuild r).fitted (F.rebuild r).values) = .ok x := h4
          simp only [h3', h4']; rfl
      · right; left
        have h3' : inBox (maskSel (F.rebuild r).fitted (F.rebuild r).lbs)
            (maskSel (F.rebuild r).fitted (F.rebuild r).ubs)
            (maskSel (F.rebuild r).fitted (F.rebuild r).values) = false := by simpa using h3
        simp only [h1, ↓reduceIte, h2, Bool.not_true, Bool.false_eq_true, h3', Bool.not_false]
        exact ⟨rfl, h1, h2, h3'⟩
    · left
      have h2' : ((F.rebuild r).fitted.any id) = false := by simpa using h2
      simp only [h1, ↓reduceIte, h2', Bool.not_false]
      exact ⟨rfl, .inr h2'⟩


/-- **fixed_unchanged.** Whatever the optimiser answers and however `fit` ends, position by position the table keeps
    its names, bounds and fixed flags; only values can change, and the value of a FIXED parameter does not. -/
theorem fixed_unchanged (r : Bool) (opt : Opt) (F : Fit) (i : Nat) (e : String × Param)
    (h : (F.rebuild r).table[i]? = some e) :
    ∃ v, (F.fit r opt).1.table[i]? = some (e.1, { e.2 with value := v }) ∧ (e.2.fixed = true → v = e.2.value) := by
  have same : ∃ v, (F.rebuild r).table[i]? = some (e.1, { e.2 with value := v }) ∧
      (e.2.fixed = true → v = e.2.value) := ⟨e.2.value, by rw [h], fun _ => rfl⟩
  rcases fit_spec r opt F with ⟨h1, _⟩ | ⟨h1, _⟩ | ⟨_, _, h1, _⟩ | ⟨x, _, _, _, _, h1⟩
  · rw [h1]; exact same
  · rw [h1]; exact same
  · rw [h1]; exact same
  · rw [h1]; exact tableAfter_getElem _ x i e h

theorem fit_table_length (r : Bool) (opt : Opt) (F : Fit) :
    (F.fit r opt).1.table.length = (F.rebuild r).table.length := by
  rcases fit_spec r opt F with ⟨h1, _⟩ | ⟨h1, _⟩ | ⟨_, _, h1, _⟩ | ⟨x, _, _, _, _, h1⟩
  · rw [h1]
  · rw [h1]
  · rw [h1]
  · rw [h1]; exact tableAfter_length _ x

/-- non-vacuity: a fit with one fixed and two free parameters; the optimiser answers `[7, 9]` -/
example :
    let d : Data := ⟨"d", [("a", .name "a"), ("b", .name "b"), ("c", .name "c")], 4, [], []⟩
    let m : ModelData := ⟨[("a", some ⟨1, none, none, false⟩), ("b", some ⟨2, some 0, some 5, true⟩),
      ("c", some ⟨3, some 0, none, false⟩)], [d], false⟩
    ((Fit.mk [m] [] false).fit false (fun _ _ _ => .ok [7, 9])).1.table =
      [("a", ⟨7, none, none, false⟩), ("b", ⟨2, some 0, some 5, true⟩), ("c", ⟨9, some 0, none, false⟩)] := by
  decide

/-- **within_bounds.** If the optimiser honours its box, then after a fit that ran every free parameter lies within
    its own bounds (fixed parameters are not constrained by the code). -/
theorem within_bounds (r : Bool) (opt : Opt) (hopt : OptInBox opt) (F : Fit)
    (lb ub : List (Option Rat)) (x0 x : List Rat) (hdone : (F.fit r opt).2 = .done lb ub x0 x) :
    ∀ e ∈ (F.fit r opt).1.table, e.2.fixed = false → e.2.inBounds = true := by
  rcases fit_spec r opt F with ⟨h1, _⟩ | ⟨h1, _⟩ | ⟨_, _, h1, _⟩ | ⟨x', hx, _, _, _, h1⟩
  · rw [h1] at hdone; cases hdone
  · rw [h1] at hdone; cases hdone
  · rw [h1] at hdone; cases hdone
  · rw [h1]
    exact tableAfter_inBounds _ x' (hopt _ _ _ _ hx)

/-- …and the free entries carry exactly the optimiser's answer, in table order. -/
theorem free_values_are_answer (r : Bool) (opt : Opt) (hopt : OptInBox opt) (F : Fit)
    (lb ub : List (Option Rat)) (x0 x : List Rat) (hdone : (F.fit r opt).2 = .done lb ub x0 x) :
    (((F.fit r opt).1.table.filter (!·.2.fixed)).map (·.2.value)) = x := by
  rcases fit_spec r opt F with ⟨h1, _⟩ | ⟨h1, _⟩ | ⟨_, _, h1, _⟩ | ⟨x', hx, _, _, _, h1⟩
  · rw [h1] at hdone; cases hdone
  · rw [h1] at hdone; cases hdone
  · rw [h1] at hdone; cases hdone
  · rw [h1] at hdone ⊢
    have hxx : x' = x := by
      simp only [FitOutcome.done.injEq] at hdone; exact hdone.2.2.2
    subst hxx
    apply tableAfter_free_values
    rw [inBox_length _ _ _ (hopt _ _ _ _ hx)]
    exact maskSel_length _ _

/-- non-vacuity of `OptInBox`: the optimiser that stays at a feasible start -/
example : OptInBox (fun lb ub x0 => if inBox lb ub x0 = true then .ok x0 else .err "infeasible") := by
  intro lb ub x0 x h
  by_cases e : inBox lb ub x0 = true
  · simp only [e, ↓reduceIte, OptOut.ok.injEq] at h
    subst h; exact e
  · simp [e] at h

/-- **initial_out_of_bounds_rejected.** With data present, a free parameter whose start value is outside its bounds
    makes `fit` raise `ValueError` before the optimiser is called, and nothing is written. -/
theorem initial_out_of_bounds_rejected (r : Bool) (opt : Opt) (F : Fit) (e : String × Param)
    (he : e ∈ (F.rebuild r).table) (hfree : e.2.fixed = false) (hout : e.2.inBounds = false)
    (hdata : (F.rebuild r).nResiduals ≠ 0) :
    F.fit r opt = (F.rebuild r, .raised "ValueError") := by
  have hbox : inBox (maskSel (F.rebuild r).fitted (F.rebuild r).lbs)
      (maskSel (F.rebuild r).fitted (F.rebuild r).ubs)
      (maskSel (F.rebuild r).fitted (F.rebuild r).values) = false := by
    cases hb : inBox (maskSel (F.rebuild r).fitted (F.rebuild r).lbs)
      (maskSel (F.rebuild r).fitted (F.rebuild r).ubs)
      (maskSel (F.rebuild r).fitted (F.rebuild r).values) with
    | false => rfl
    | true =>
      have := (inBox_start_iff (F.rebuild r).table).mp hb e he hfree
      rw [hout] at this; cases this
  have hany : (F.rebuild r).fitted.any id = true := by
    simp only [Fit.fitted, List.any_map, List.any_eq_true]
    exact ⟨e, he, by simp [hfree]⟩
  rcases fit_spec r opt F with ⟨_, h | h⟩ | ⟨h1, _⟩ | ⟨_, _, _, h, _⟩ | ⟨_, _, h, _⟩
  · exact absurd h hdata
  · rw [hany] at h; cases h
  · exact h1
  · rw [hbox] at h; cases h
  · rw [hbox] at h; cases h

/-- Conversely `ValueError` before the optimiser means exactly that: some free parameter starts outside its
    bounds. -/
theorem valueError_iff_start_outside (r : Bool) (opt : Opt) (F : Fit)
    (h : (F.fit r opt).2 = .raised "ValueError") :
    ∃ e ∈ (F.rebuild r).table, e.2.fixed = false ∧ e.2.inBounds = false := by
  rcases fit_spec r opt F with ⟨h1, _⟩ | ⟨_, _, _, hb⟩ | ⟨_, _, h1, _⟩ | ⟨_, _, _, _, _, h1⟩
  · rw [h1] at h; simp at h
  · apply Classical.byContradiction
    intro hne
    have : inBox (maskSel (F.rebuild r).fitted (F.rebuild r).lbs)
      (maskSel (F.rebuild r).fitted (F.rebuild r).ubs)
      (maskSel (F.rebuild r).fitted (F.rebuild r).values) = true := by
      apply (inBox_start_iff (F.rebuild r).table).mpr
      intro e he hf
      cases hi : e.2.inBounds with
      | true => rfl
      | false => exact absurd ⟨e, he, hf, hi⟩ hne
    rw [this] at hb; cases hb
  · rw [h1] at h; cases h
  · rw [h1] at h; cases h

example :
    let d : Data := ⟨"d", [("a", .name "a")], 4, [], []⟩
    let m : ModelData := ⟨[("a", some ⟨6, some 0, some 5, false⟩)], [d], false⟩
    ((Fit.mk [m] [] false).fit false (fun _ _ _ => .ok [1])).2 = .raised "ValueError" := by decide

/-- A fit that does not run to the end writes nothing: the state is the rebuilt state. -/
theorem failed_fit_no_change (r : Bool) (opt : Opt) (F : Fit)
    (h : ∀ lb ub x0 x, (F.fit r opt).2 ≠ .done lb ub x0 x) : (F.fit r opt).1 = F.rebuild r := by
  rcases fit_spec r opt F with ⟨h1, _⟩ | ⟨h1, _⟩ | ⟨_, _, h1, _⟩ | ⟨x, _, _, _, _, h1⟩
  · rw [h1]
  · rw [h1]
  · rw [h1]
  · rw [h1] at h; exact absurd rfl (h _ _ _ _)

/-- An empty fit / a fit without free parameters raises `RuntimeError`. -/
theorem nothing_to_fit (r : Bool) (opt : Opt) (F : Fit)
    (h : (F.rebuild r).nResiduals = 0 ∨ (F.rebuild r).fitted.any id = false) :
    F.fit r opt = (F.rebuild r, .raised "RuntimeError") := by
  rcases fit_spec r opt F with ⟨h1, _⟩ | ⟨_, h1, h2, _⟩ | ⟨_, _, _, _, h1, h2⟩ | ⟨_, _, _, h1, h2, _⟩
  · exact h1
  · rcases h with h | h
    · exact absurd h h1
    · rw [h2] at h; cases h
  · rcases h with h | h
    · exact absurd h h1
    · rw [h2] at h; cases h
  · rcases h with h | h
    · exact absurd h h1
    · rw [h2] at h; cases h

/-! ## The two routes to a dataset's parameters agree -/

/-- After a build, what the user reads through `fit[dataset]` / `FitData.get_params` (by NAME in the table) is what
    the residual function is evaluated with (by INDEX in the value vector). -/
theorem routes_agree (r : Bool) (F : Fit) (m : ModelData) (hm : m ∈ F.models) (d : Data) (hd : d ∈ m.data) :
    getParams d (F.build r).table =
      (localDirect d.trans (globalNames F.models) (F.build r).values).map some := by
  unfold getParams localDirect
  rw [List.map_map]
  apply List.map_congr_left
  intro e he
  cases ht : e.2 with
  | const v rr => simp [ht]
  | name s =>
    have hs : s ∈ globalNames F.models := namesIn_globalNames F.models m hm d hd e he s ht
    have hk := build_table_keys r F
    have := lookup_eq_getD (F.build r).table s (by rw [hk]; exact hs)
    simp only [Function.comp, ht, this, Fit.values, hk]


/-! ## Defaults and the Jacobian scatter (ext) -/

/-- **defaults_first_occurrence (ext).** When every model of the fit has data, a name that is new to the table is
    initialised with the model default of the FIRST (model, dataset, model parameter) that is mapped to it
    (`allPairs` lists them in that order; `none` = `Parameter()`), and a name that was in the table keeps its entry. -/
theorem defaults_first_occurrence (F : Fit) (h : ∀ m ∈ F.models, m.data ≠ []) (n : String)
    (hn : n ∈ globalNames F.models) :
    (F.build false).table.lookup n =
      some ((F.table.lookup n).getD ((((allPairs F.models).lookup n).join).getD Param.dflt)) := by
  have hd : buildDefaults false F.models =
      (globalNames F.models).map fun n => ((allPairs F.models).lookup n).join := by
    rw [← buildDefaults_aligned]
    unfold buildDefaults
    rw [allDefaults_of_all_data F.models h]
  show (setParams F.table (globalNames F.models) (buildDefaults false F.models)).lookup n = _
  rw [hd]
  exact lookup_setParams_zip _ _ _ (unique_nodup _) n _ (mem_zip_map_self _ _ n hn)

/-- The aligned variant of `_build_fit` (a model without data contributes no defaults) has this property without
    the hypothesis. -/
theorem defaults_first_occurrence_aligned (F : Fit) (n : String) (hn : n ∈ globalNames F.models) :
    (F.build true).table.lookup n =
      some ((F.table.lookup n).getD ((((allPairs F.models).lookup n).join).getD Param.dflt)) := by
  show (setParams F.table (globalNames F.models) (buildDefaults true F.models)).lookup n = _
  rw [buildDefaults_aligned]
  exact lookup_setParams_zip _ _ _ (unique_nodup _) n _ (mem_zip_map_self _ _ n hn)

example :
    let d : Data := ⟨"d", [("a", .name "x"), ("b", .name "b")], 4, [], []⟩
    let m : ModelData := ⟨[("a", some ⟨1, none, none, false⟩), ("b", some ⟨2, some 0, some 5, true⟩)], [d], false⟩
    allPairs [m] = [("x", some ⟨1, none, none, false⟩), ("b", some ⟨2, some 0, some 5, true⟩)] := by decide

/-- **jacobian_scatter_correct (ext).** When the names one dataset maps its parameters to are pairwise different,
    the code's scatter `row[p_indices] -= sens[p_external]` is the chain-rule sum (every local sensitivity is
    subtracted from the column of its global parameter). -/
theorem jacobian_scatter_correct (ms : List ModelData) (m : ModelData) (hm : m ∈ ms) (d : Data) (hd : d ∈ m.data)
    (hnd : (parameterNames d).Nodup) (row sens : List Rat) :
    scatterRow (mkCondition d.trans (globalNames ms)) row sens =
      scatterRowSum (mkCondition d.trans (globalNames ms)) row sens := by
  apply scatterRow_eq_sum
  rw [pIndices_eq _ _ (namesIn_globalNames ms m hm d hd)]
  apply nodup_map_idxOf _ _ _ hnd
  intro n hn
  obtain ⟨e, he, h⟩ := (mem_parameterNames d n).mp hn
  exact namesIn_globalNames ms m hm d hd e he n h

example :
    let c := mkCondition [("M/a", .name "x"), ("M/b", .const 2 "2"), ("M/c", .name "y")] ["y", "x"]
    c.pIndices = [1, 0] ∧ c.pExternal = [0, 2] ∧ scatterRow c [0, 0] [1, 5, 3] = [-3, -1] := by decide +kernel

/-! ## Observations about the code as it is (kernel-checked on the model; the correspondence shows the code agrees) -/

/-- O-C14-B: `Datasets._defaults` of a model WITHOUT data answers the defaults of all its parameters while its
    `_transformed_params` is empty, so when such a model precedes one with data the defaults are misaligned: here
    `B/Lp` is initialised with the default of `A/off`, `B/Lc` with that of `B/Lp`.  The aligned variant
    (`repaired = true`) gives every parameter its own default. -/
theorem defaults_misaligned_witness :
    let mA : ModelData := ⟨[("A/off", some ⟨1, some (-1), some 1, false⟩)], [], false⟩
    let d : Data := ⟨"d", [("B/Lp", .name "B/Lp"), ("B/Lc", .name "B/Lc")], 3, [], []⟩
    let mB : ModelData := ⟨[("B/Lp", some ⟨40, some 0, some 100, false⟩), ("B/Lc", some ⟨16, some 0, none, true⟩)],
      [d], false⟩
    (Fit.build false ⟨[mA, mB], [], false⟩).table =
      [("B/Lp", ⟨1, some (-1), some 1, false⟩), ("B/Lc", ⟨40, some 0, some 100, false⟩)] ∧
    (Fit.build true ⟨[mA, mB], [], false⟩).table =
      [("B/Lp", ⟨40, some 0, some 100, false⟩), ("B/Lc", ⟨16, some 0, none, true⟩)] ∧
    (Fit.build false ⟨[mB, mA], [], false⟩).table = (Fit.build true ⟨[mB, mA], [], false⟩).table := by decide

/-- O-C14-C: when one dataset maps two model parameters to the SAME global name, NumPy's
    `jacobian[:, p_indices] -= sensitivities` keeps only the last of the two contributions (here −3) instead of
    their sum (−4): the analytic Jacobian handed to the optimiser is not the derivative of the residual. -/
theorem scatter_duplicate_witness :
    let c := mkCondition [("M/a", .name "x"), ("M/b", .name "x")] ["x"]
    c.pIndices = [0, 0] ∧ scatterRow c [0] [1, 3] = [-3] ∧ scatterRowSum c [0] [1, 3] = [-4] := by decide +kernel

/-! ## The numbers the fit minimises: residual, sum of squares, recovery (deepening round D) -/

/-- **noise_free_residual_zero.** If every dataset of a built fit is noise-free data of its model's function at the
    dataset's own direct reading of a global vector `g` (each model parameter = the entry of the name it is mapped to,
    or its constant), then the residual the CODE evaluates at `g` (condition strings → groups → the first dataset's
    `Condition` → index table → `get_local_params`, concatenated over conditions, datasets, models) vanishes. -/
theorem noise_free_residual_zero (fs : List ModelFn) (F : Fit) (hkeys : F.table.map (·.1) = globalNames F.models)
    (hinj : ∀ m ∈ F.models, CondInj m) (g : List Rat)
    (hnf : ∀ mf ∈ F.models.zip fs, ∀ d ∈ mf.1.data,
      NoiseFree mf.2 (localDirect d.trans (globalNames F.models) g) d) :
    ∀ r ∈ F.residualAt fs g, r = 0 := by
  intro r hr
  obtain ⟨mf, hmf, hr⟩ := mem_residualAt fs F g r hr
  have hm : mf.1 ∈ F.models := (List.of_mem_zip hmf).1
  rw [hkeys] at hr
  obtain ⟨d, hd, hr⟩ := mem_residual mf.2 mf.1 _ (hinj _ hm)
    (fun d hd => namesIn_globalNames F.models mf.1 hm d hd) g r hr
  exact dataResidual_zero _ _ d (hnf mf hmf d hd) r hr

/-- what a fit that ran to the end leaves behind (`G` = the rebuilt fit) -/
theorem fit_done (r : Bool) (opt : Opt) (F : Fit) (lb ub : List (Option Rat)) (x0 x : List Rat)
    (hdone : (F.fit r opt).2 = .done lb ub x0 x) :
    let G := F.rebuild r
    lb = maskSel G.fitted G.lbs ∧ ub = maskSel G.fitted G.ubs ∧ x0 = maskSel G.fitted G.values ∧
    opt lb ub x0 = .ok x ∧ (F.fit r opt).1 = { G with table := tableAfter G.table x } := by
  intro G
  rcases fit_spec r opt F with ⟨h1, _⟩ | ⟨h1, _⟩ | ⟨_, _, h1, _⟩ | ⟨x', hx, _, _, _, h1⟩
  · rw [h1] at hdone; cases hdone
  · rw [h1] at hdone; cases hdone
  · rw [h1] at hdone; cases hdone
  · rw [h1] at hdone ⊢
    simp only [FitOutcome.done.injEq] at hdone
    obtain ⟨e1, e2, e3, e4⟩ := hdone
    subst e1 e2 e3 e4
    exact ⟨rfl, rfl, rfl, hx, rfl⟩

/-- **generating_values_minimise.** Twice the cost `least_squares` minimises is a sum of squares: it is never
    negative, so a parameter vector at which the residual vanishes (noise-free data at its generating values, however
    many datasets and models there are) is a GLOBAL minimiser of what the fit minimises. -/
theorem generating_values_minimise (fs : List ModelFn) (F : Fit) (gstar : List Rat)
    (hzero : ∀ ρ ∈ F.residualAt fs gstar, ρ = 0) (g : List Rat) :
    sumSq (F.residualAt fs gstar) = 0 ∧ sumSq (F.residualAt fs gstar) ≤ sumSq (F.residualAt fs g) := by
  have h0 := (sumSq_eq_zero_iff _).mpr hzero
  exact ⟨h0, h0 ▸ sumSq_nonneg _⟩

/-- **refit_from_optimum_unchanged.** Re-fitting from a point where the residual vanishes (noise-free data at the
    optimum) leaves the fit exactly as it was, for ANY optimiser that (a) answers a point of its box and (b) does not
    answer a point with a larger sum of squares than its start (both asserted on every recorded call of
    `least_squares`), whenever the free parameters are identifiable from the data (`hident`: inside the box the
    residual vanishes only at the start). -/
theorem refit_from_optimum_unchanged (r : Bool) (opt : Opt) (fs : List ModelFn) (F : Fit)
    (hzero : ∀ ρ ∈ (F.rebuild r).residualAt fs (F.rebuild r).values, ρ = 0)
    (lb ub : List (Option Rat)) (x0 x : List Rat) (hdone : (F.fit r opt).2 = .done lb ub x0 x)
    (hbox : inBox lb ub x = true)
    (hdesc : sumSq ((F.rebuild r).objective fs x) ≤ sumSq ((F.rebuild r).objective fs x0))
    (hident : ∀ z, inBox lb ub z = true → (∀ ρ ∈ (F.rebuild r).objective fs z, ρ = 0) → z = x0) :
    x = x0 ∧ (F.fit r opt).1 = F.rebuild r := by
  obtain ⟨_, _, e3, _, e5⟩ := fit_done r opt F lb ub x0 x hdone
  have h0 : sumSq ((F.rebuild r).objective fs x0) = 0 := by
    rw [e3, objective_start]; exact (sumSq_eq_zero_iff _).mpr hzero
  have h1 : sumSq ((F.rebuild r).objective fs x) = 0 :=
    le_antisymm (h0 ▸ hdesc) (sumSq_nonneg _)
  have hx : x = x0 := hident x hbox ((sumSq_eq_zero_iff _).mp h1)
  refine ⟨hx, ?_⟩
  rw [e5, hx, e3]
  show Fit.mk _ _ _ = _
  rw [show (F.rebuild r).fitted = (F.rebuild r).table.map (!·.2.fixed) from rfl,
    show (F.rebuild r).values = (F.rebuild r).table.map (·.2.value) from rfl, tableAfter_start]

/-- **recovers_generating_parameters.** Noise-free data: every dataset of the (rebuilt) fit is generated by its
    model's function at the dataset's own reading of a global vector `gstar` that agrees with the table on the fixed
    positions (`gstar = writeBack fitted zs values`: the fixed parameters sit at their generating values) and whose free
    part `zs` lies in the box.  If the free parameters are identifiable from the data (`hident`: inside the box the
    residual vanishes only at `zs`) and the optimiser answers a minimiser of the sum of squares over its box (`hmin` -
    the part that is NOT proved of `least_squares`: convergence of TRF is explored by the harness), then the fit returns
    the generating values: the optimiser's answer is `zs` and the table holds `gstar`. -/
theorem recovers_generating_parameters (r : Bool) (opt : Opt) (fs : List ModelFn) (F : Fit)
    (hkeys : (F.rebuild r).table.map (·.1) = globalNames (F.rebuild r).models)
    (hinj : ∀ m ∈ (F.rebuild r).models, CondInj m)
    (lb ub : List (Option Rat)) (x0 x : List Rat) (hdone : (F.fit r opt).2 = .done lb ub x0 x)
    (hbox : inBox lb ub x = true)
    (hmin : ∀ z, inBox lb ub z = true →
      sumSq ((F.rebuild r).objective fs x) ≤ sumSq ((F.rebuild r).objective fs z))
    (zs : List Rat) (hzs : inBox lb ub zs = true)
    (hnf : ∀ mf ∈ (F.rebuild r).models.zip fs, ∀ d ∈ mf.1.data,
      NoiseFree mf.2 (localDirect d.trans (globalNames (F.rebuild r).models)
        (writeBack (F.rebuild r).fitted zs (F.rebuild r).values)) d)
    (hident : ∀ z, inBox lb ub z = true → (∀ ρ ∈ (F.rebuild r).objective fs z, ρ = 0) → z = zs) :
    x = zs ∧ (F.fit r opt).1.values = writeBack (F.rebuild r).fitted zs (F.rebuild r).values := by
  obtain ⟨_, _, _, _, e5⟩ := fit_done r opt F lb ub x0 x hdone
  have hz : ∀ ρ ∈ (F.rebuild r).objective fs zs, ρ = 0 :=
    noise_free_residual_zero fs (F.rebuild r) hkeys hinj _ hnf
  have h1 : sumSq ((F.rebuild r).objective fs x) = 0 :=
    le_antisymm (((sumSq_eq_zero_iff _).mpr hz) ▸ hmin zs hzs) (sumSq_nonneg _)
  have hx : x = zs := hident x hbox ((sumSq_eq_zero_iff _).mp h1)
  refine ⟨hx, ?_⟩
  rw [e5, hx]
  exact tableAfter_values _ _

/-! ### a worked instance: model y = a + b·x, two datasets sharing `a`, the second with its own `b2` -/

def exD1 : Data := ⟨"d1", [("M/a", .name "M/a"), ("M/b", .name "M/b")], 2,
  [0, 4607182418800017408], [4607182418800017408, 4613937818241073152]⟩   -- x = 0, 1   y = 1, 3   (a = 1, b = 2)
def exD2 : Data := ⟨"d2", [("M/a", .name "M/a"), ("M/b", .name "M/b2")], 2,
  [0, 4607182418800017408], [4607182418800017408, 4618441417868443648]⟩   -- x = 0, 1   y = 1, 6   (a = 1, b2 = 5)
def exM (built : Bool) : ModelData := ⟨[("M/a", none), ("M/b", none)], [exD1, exD2], built⟩
/-- the built fit with the table values `v1 v2 v3` (all free, unbounded) -/
def exG (v1 v2 v3 : Rat) : Fit := ⟨[exM true],
  [("M/a", ⟨v1, none, none, false⟩), ("M/b", ⟨v2, none, none, false⟩), ("M/b2", ⟨v3, none, none, false⟩)], true⟩

theorem ex_rebuild : (Fit.mk [exM false] [] false).rebuild false = exG 0 0 0 := by decide +kernel

theorem ex_conds : generateConditions (exM true) ["M/a", "M/b", "M/b2"] =
    [(⟨[some 0, some 1], [none, none], [0, 1], [0, 1]⟩, [exD1]),
     (⟨[some 0, some 2], [none, none], [0, 1], [0, 2]⟩, [exD2])] := by decide +kernel

theorem ex_bits : bitsToRat 4607182418800017408 = 1 ∧ bitsToRat 0 = 0 ∧ bitsToRat 4613937818241073152 = 3 ∧
    bitsToRat 4618441417868443648 = 6 := by decide +kernel

theorem ex_objective (v1 v2 v3 a b c : Rat) :
    (exG v1 v2 v3).objective [polyFn] [a, b, c] = [1 - a, 3 - (a + b), 1 - a, 6 - (a + c)] := by
  unfold Fit.objective Fit.residualAt
  simp only [exG, Fit.fitted, Fit.values, List.map, Bool.not_false, writeBack, List.zipWith,
    ModelData.residual, List.flatten]
  rw [ex_conds]
  obtain ⟨h1, h0, h3, h6⟩ := ex_bits
  simp [residualOf, dataResidual, getLocalParams, exD1, exD2, h1, h0, h3, h6, polyFn, polyAux]

theorem ex_condInj : ∀ m ∈ (exG 0 0 0).models, CondInj m := by
  intro m hm
  simp only [exG, List.mem_cons, List.not_mem_nil, or_false] at hm
  subst hm
  intro a ha b hb
  simp only [exM, List.mem_cons, List.not_mem_nil, or_false] at ha hb
  rcases ha with rfl | rfl <;> rcases hb with rfl | rfl <;> decide

theorem ex_three (lb ub : List (Option Rat)) (z : List Rat) (h : inBox lb ub z = true) (hl : lb.length = 3) :
    ∃ a b c, z = [a, b, c] := by
  have := inBox_length lb ub z h
  match z, this with
  | [a, b, c], _ => exact ⟨a, b, c, rfl⟩
  | [], h' => simp [hl] at h'
  | [_], h' => simp [hl] at h'
  | [_, _], h' => simp [hl] at h'
  | _ :: _ :: _ :: _ :: _, h' => simp [hl] at h'

/-- non-vacuity of `recovers_generating_parameters`: start (0, 0, 0), generating values (1, 2, 5), an optimiser that
    answers the minimiser; all hypotheses hold and the theorem yields the table (1, 2, 5) -/
example : ((Fit.mk [exM false] [] false).fit false (fun _ _ _ => .ok [1, 2, 5])).1.values = [1, 2, 5] := by
  have hdone : ((Fit.mk [exM false] [] false).fit false (fun _ _ _ => .ok [1, 2, 5])).2 =
      .done [none, none, none] [none, none, none] [0, 0, 0] [1, 2, 5] := by decide +kernel
  have h := recovers_generating_parameters false (fun _ _ _ => .ok [1, 2, 5]) [polyFn] (Fit.mk [exM false] [] false)
    (by rw [ex_rebuild]; decide +kernel) (by rw [ex_rebuild]; exact ex_condInj)
    _ _ _ _ hdone (by decide)
    (by
      intro z _
      rw [ex_rebuild, ex_objective]
      have : sumSq [1 - 1, 3 - (1 + 2), 1 - 1, 6 - (1 + 5)] = 0 := by decide +kernel
      rw [this]; exact sumSq_nonneg _)
    [1, 2, 5] (by decide)
    (by
      rw [ex_rebuild]
      intro mf hmf d hd
      simp only [exG, List.zip_cons_cons, List.zip_nil_right, List.mem_cons, List.not_mem_nil, or_false] at hmf
      subst hmf
      simp only [exM, List.mem_cons, List.not_mem_nil, or_false] at hd
      rcases hd with rfl | rfl <;> (unfold NoiseFree; decide +kernel))
    (by
      intro z hz h0
      obtain ⟨a, b, c, rfl⟩ := ex_three _ _ z hz rfl
      rw [ex_rebuild, ex_objective] at h0
      simp only [List.mem_cons, List.not_mem_nil, or_false, forall_eq_or_imp, forall_eq] at h0
      obtain ⟨e1, e2, _, e4⟩ := h0
      have ha : a = 1 := by linarith
      have hb : b = 2 := by linarith
      have hc : c = 5 := by linarith
      rw [ha, hb, hc])
  rw [h.2, ex_rebuild]; decide +kernel

/-- non-vacuity of `refit_from_optimum_unchanged`: the table already holds (1, 2, 5), the optimiser stays where it
    started (TRF at a zero gradient) -/
example : ((exG 1 2 5).fit false (fun _ _ x0 => .ok x0)).1 = exG 1 2 5 := by
  have hr : (exG 1 2 5).rebuild false = exG 1 2 5 := by decide +kernel
  have hdone : ((exG 1 2 5).fit false (fun _ _ x0 => .ok x0)).2 =
      .done [none, none, none] [none, none, none] [1, 2, 5] [1, 2, 5] := by decide +kernel
  have h := refit_from_optimum_unchanged false (fun _ _ x0 => .ok x0) [polyFn] (exG 1 2 5)
    (by
      rw [hr, ← objective_start]
      show ∀ ρ ∈ (exG 1 2 5).objective [polyFn] [1, 2, 5], ρ = 0
      rw [ex_objective]; decide +kernel)
    _ _ _ _ hdone (by decide) (le_refl _)
    (by
      intro z hz h0
      obtain ⟨a, b, c, rfl⟩ := ex_three _ _ z hz rfl
      rw [hr, ex_objective] at h0
      simp only [List.mem_cons, List.not_mem_nil, or_false, forall_eq_or_imp, forall_eq] at h0
      obtain ⟨e1, e2, _, e4⟩ := h0
      have ha : a = 1 := by linarith
      have hb : b = 2 := by linarith
      have hc : c = 5 := by linarith
      rw [ha, hb, hc])
  rw [h.2, hr]

/-- **noise_free_by_name_residual_zero.** The generating values given by NAME (`gen`): when the table of a built fit
    holds `gen` and every dataset is noise-free data of its model at its own by-name reading of `gen` (a shared name:
    one value, a renamed one: its own, a constant: itself), the residual the fit evaluates at its table values
    vanishes — for any number of models, datasets, renamings and constants. -/
theorem noise_free_by_name_residual_zero (fs : List ModelFn) (F : Fit)
    (hkeys : F.table.map (·.1) = globalNames F.models) (hinj : ∀ m ∈ F.models, CondInj m)
    (gen : String → Rat) (hgen : ∀ e ∈ F.table, e.2.value = gen e.1)
    (hnf : ∀ mf ∈ F.models.zip fs, ∀ d ∈ mf.1.data, NoiseFree mf.2 (localByName d.trans gen) d) :
    ∀ ρ ∈ F.residualAt fs F.values, ρ = 0 := by
  apply noise_free_residual_zero fs F hkeys hinj
  intro mf hmf d hd
  have hm : mf.1 ∈ F.models := (List.of_mem_zip hmf).1
  have := localDirect_of_table F.table gen hgen d.trans
    (by rw [hkeys]; exact namesIn_globalNames F.models mf.1 hm d hd)
  rw [hkeys] at this
  show NoiseFree mf.2 (localDirect d.trans (globalNames F.models) (F.table.map (·.2.value))) d
  rw [this]
  exact hnf mf hmf d hd

/-- **more_noise_free_data_keeps_optimum.** A fit whose table holds the generating values `gen` gets a further
    dataset that introduces no new parameter (whatever model it goes to, whatever it shares, renames to existing names
    or overrides): after the rebuild the table still holds `gen` (the ORDER of the table may have changed —
    `add_data_reorder_witness` — the values by name have not), and if the new dataset too is noise-free data of `gen`
    the residual of the enlarged fit still vanishes there: the optimum stays a global minimiser
    (`generating_values_minimise`) and a refit leaves it unchanged (`refit_from_optimum_unchanged`). -/
theorem more_noise_free_data_keeps_optimum (r : Bool) (fs : List ModelFn) (F : Fit) (pre post : List ModelData)
    (m : ModelData) (hF : F.models = pre ++ m :: post) (hkeys : F.table.map (·.1) = globalNames F.models)
    (gen : String → Rat) (hgen : ∀ e ∈ F.table, e.2.value = gen e.1)
    (d : Data) (hold : ∀ n ∈ parameterNames d, n ∈ F.table.map (·.1)) :
    let F' := Fit.build r { F with models := withData pre m post d }
    (∀ e ∈ F'.table, e.2.value = gen e.1) ∧
    ((∀ m' ∈ F'.models, CondInj m') →
     (∀ mf ∈ F'.models.zip fs, ∀ d' ∈ mf.1.data, NoiseFree mf.2 (localByName d'.trans gen) d') →
     ∀ ρ ∈ F'.residualAt fs F'.values, ρ = 0) := by
  intro F'
  have hg : ∀ e ∈ F'.table, e.2.value = gen e.1 := by
    apply setParams_gen F.table _ _ gen hgen
    intro n hn
    simp only [globalNames, mem_unique] at hn
    rw [allNames_withData] at hn
    rw [hkeys, hF]
    simp only [globalNames, mem_unique, allNames, List.flatMap_append, List.flatMap_cons, List.mem_append]
    simp only [allNames, List.mem_append] at hn
    rcases hn with (h | h | h) | h
    · exact .inl h
    · exact .inr (.inl h)
    · have := hold n h
      rw [hkeys, hF] at this
      simpa only [globalNames, mem_unique, allNames, List.flatMap_append, List.flatMap_cons, List.mem_append]
        using this
    · exact .inr (.inr h)
  refine ⟨hg, fun hinj hnf => ?_⟩
  have hk : F'.table.map (·.1) = globalNames F'.models := by
    rw [build_table_keys, build_models_names]
  exact noise_free_by_name_residual_zero fs F' hk hinj gen hg hnf

/-- the generating values of the worked instance, by name -/
def exGen (n : String) : Rat := if n = "M/a" then 1 else if n = "M/b" then 2 else 5

/-- a further dataset with the layout of `d2` (shares `M/a`, uses `M/b2`): x = 2, y = 1 + 5·2 = 11 -/
def exD3 : Data := ⟨"d3", [("M/a", .name "M/a"), ("M/b", .name "M/b2")], 1, [4611686018427387904], [4622382067542392832]⟩

/-- non-vacuity of `noise_free_by_name_residual_zero` and `more_noise_free_data_keeps_optimum`: the worked instance at
    its generating values, then a third noise-free dataset without a new parameter -/
example :
    (∀ ρ ∈ (exG 1 2 5).residualAt [polyFn] (exG 1 2 5).values, ρ = 0) ∧
    (let F' := Fit.build false { exG 1 2 5 with models := withData [] (exM true) [] exD3 }
     ∀ ρ ∈ F'.residualAt [polyFn] F'.values, ρ = 0) := by
  have hgen : ∀ e ∈ (exG 1 2 5).table, e.2.value = exGen e.1 := by decide +kernel
  have hkeys : (exG 1 2 5).table.map (·.1) = globalNames (exG 1 2 5).models := by decide +kernel
  constructor
  · apply noise_free_by_name_residual_zero [polyFn] (exG 1 2 5) hkeys ex_condInj exGen hgen
    intro mf hmf d hd
    simp only [exG, List.zip_cons_cons, List.zip_nil_right, List.mem_cons, List.not_mem_nil, or_false] at hmf
    subst hmf
    simp only [exM, List.mem_cons, List.not_mem_nil, or_false] at hd
    rcases hd with rfl | rfl <;> (unfold NoiseFree; decide +kernel)
  · have h := (more_noise_free_data_keeps_optimum false [polyFn] (exG 1 2 5) [] [] (exM true) rfl hkeys exGen hgen
      exD3 (by decide +kernel)).2
    apply h
    · intro m' hm'
      simp only [Fit.build, withData, exM, List.nil_append, List.map_cons, List.map_nil, List.mem_cons,
        List.not_mem_nil, or_false] at hm'
      subst hm'
      intro a ha b hb
      simp only [List.cons_append, List.nil_append, List.mem_cons, List.not_mem_nil, or_false] at ha hb
      rcases ha with rfl | rfl | rfl <;> rcases hb with rfl | rfl | rfl <;> decide
    · intro mf hmf d hd
      simp only [Fit.build, withData, exM, List.nil_append, List.map_cons, List.map_nil, List.zip_cons_cons,
        List.zip_nil_right, List.mem_cons, List.not_mem_nil, or_false] at hmf
      subst hmf
      simp only [List.cons_append, List.nil_append, List.mem_cons, List.not_mem_nil, or_false] at hd
      rcases hd with rfl | rfl | rfl <;> (unfold NoiseFree; decide +kernel)

/-- `CondInj` cannot be dropped from the recovery theorems: with the condition-string collision of O-C14-A (a
    parameter NAMED "5" next to the constant 5) the second dataset is noise-free data of its own parameter "5" = 7
    (y = 7 + 2·x at x = 0, 1), the table holds the generating values (M/b = 2, "5" = 7) — and the residual the code
    evaluates there is (0, 0, 2, 2), not zero: the generating values are not a minimiser of what the fit minimises
    (kernel-checked). -/
theorem collision_breaks_recovery :
    let d1 : Data := ⟨"d1", [("M/a", .const 5 "5"), ("M/b", .name "M/b")], 2,
      [0, 4607182418800017408], [4617315517961601024, 4619567317775286272]⟩      -- y = 5 + 2x : 5, 7
    let d2 : Data := ⟨"d2", [("M/a", .name "5"), ("M/b", .name "M/b")], 2,
      [0, 4607182418800017408], [4619567317775286272, 4621256167635550208]⟩      -- y = 7 + 2x : 7, 9
    let m : ModelData := ⟨[("M/a", none), ("M/b", none)], [d1, d2], true⟩
    let F : Fit := ⟨[m], [("M/b", ⟨2, none, none, false⟩), ("5", ⟨7, none, none, false⟩)], true⟩
    F.table.map (·.1) = globalNames F.models ∧
    NoiseFree polyFn (localDirect d1.trans (globalNames F.models) F.values) d1 ∧
    NoiseFree polyFn (localDirect d2.trans (globalNames F.models) F.values) d2 ∧
    F.residualAt [polyFn] F.values = [0, 0, 2, 2] := by
  unfold NoiseFree
  decide +kernel

/-- The residual the driver answers for the tie (`c14.resid`, as-is variant) IS the residual the theorems are about,
    with the polynomial toy function for every model. -/
theorem residualV_eq (F : Fit) (g : List Rat) :
    (F.residualV false g).1 = F.residualAt (F.models.map fun _ => polyFn) g := by
  unfold Fit.residualV Fit.residualAt
  simp only [condsVariant, Bool.false_eq_true, ↓reduceIte, ModelData.residual]
  congr 1
  generalize F.models = ms
  induction ms with
  | nil => rfl
  | cons m ms ih => simp only [List.map_cons, List.zipWith_cons_cons, ih]

/-- **cost_is_sum_over_datasets (one model).** The sum of squares of the residual the code evaluates — grouped by
    condition strings, each group evaluated with its first dataset's `Condition` — is the sum over ALL datasets of the
    model, each once, of the sum of squares of its own block evaluated at its own direct reading of the global vector. -/
theorem model_cost_is_sum_over_datasets (f : ModelFn) (m : ModelData) (uniq : List String) (hinj : CondInj m)
    (hin : ∀ d ∈ m.data, NamesIn d.trans uniq) (g : List Rat) :
    sumSq (m.residual f uniq g) =
      (m.data.map fun d => sumSq (dataResidual f (localDirect d.trans uniq g) d)).sum := by
  unfold ModelData.residual generateConditions
  refine (sumSq_residualOf_filterMap f uniq g (groups m)).trans ?_
  have hB : ∀ grp ∈ groups m, groupCost f uniq g grp =
      (grp.map fun d => sumSq (dataResidual f (localDirect d.trans uniq g) d)).sum := by
    intro grp hgrp
    cases grp with
    | nil => rfl
    | cons r rest =>
      show ((r :: rest).map fun d => sumSq (dataResidual f (getLocalParams (mkCondition r.trans uniq) g) d)).sum = _
      congr 1
      apply List.map_congr_left
      intro d hd
      obtain ⟨hr, hdm, hs⟩ := mem_groups m _ r d hgrp List.mem_cons_self hd
      rw [mkCondition_congr _ _ uniq (hinj r hr d hdm hs), getLocalParams_mkCondition _ _ _ (hin d hdm)]
  rw [List.map_congr_left hB]
  unfold groups
  rw [List.map_map]
  exact sum_by_key m.data (fun d => (unique (m.data.map condString)).idxOf (condString d)) _ _
    (fun d hd => List.idxOf_lt_length_of_mem ((mem_unique _ _).mpr (List.mem_map_of_mem hd)))

/-- **cost_is_sum_over_datasets.** What the fit minimises is the sum over ALL datasets of ALL models — each exactly
    once, whatever the grouping into conditions — of the squared residuals of that dataset evaluated at ITS OWN
    reading of the global vector (shared name: the one entry; renamed: its own entry; constant: itself). -/
theorem cost_is_sum_over_datasets (fs : List ModelFn) (F : Fit)
    (hkeys : F.table.map (·.1) = globalNames F.models) (hinj : ∀ m ∈ F.models, CondInj m) (g : List Rat) :
    sumSq (F.residualAt fs g) =
      ((F.models.zip fs).map fun mf =>
        (mf.1.data.map fun d =>
          sumSq (dataResidual mf.2 (localDirect d.trans (globalNames F.models) g) d)).sum).sum := by
  unfold Fit.residualAt
  rw [sumSq_flatten, zipWith_eq_map_zip', List.map_map, hkeys]
  congr 1
  apply List.map_congr_left
  intro mf hmf
  have hm : mf.1 ∈ F.models := (List.of_mem_zip hmf).1
  exact model_cost_is_sum_over_datasets mf.2 mf.1 _ (hinj _ hm)
    (fun d hd => namesIn_globalNames F.models mf.1 hm d hd) g

/-- …and when the table holds values given by NAME (`gen`), the cost at the table values is the sum over all datasets
    of the squared residuals at the dataset's by-name reading of `gen`. -/
theorem cost_by_name (fs : List ModelFn) (F : Fit)
    (hkeys : F.table.map (·.1) = globalNames F.models) (hinj : ∀ m ∈ F.models, CondInj m)
    (gen : String → Rat) (hgen : ∀ e ∈ F.table, e.2.value = gen e.1) :
    sumSq (F.residualAt fs F.values) =
      ((F.models.zip fs).map fun mf =>
        (mf.1.data.map fun d => sumSq (dataResidual mf.2 (localByName d.trans gen) d)).sum).sum := by
  rw [cost_is_sum_over_datasets fs F hkeys hinj]
  congr 1
  apply List.map_congr_left
  intro mf hmf
  have hm : mf.1 ∈ F.models := (List.of_mem_zip hmf).1
  congr 1
  apply List.map_congr_left
  intro d hd
  have := localDirect_of_table F.table gen hgen d.trans
    (by rw [hkeys]; exact namesIn_globalNames F.models mf.1 hm d hd)
  rw [hkeys] at this
  show sumSq (dataResidual mf.2 (localDirect d.trans (globalNames F.models) (F.table.map (·.2.value))) d) = _
  rw [this]

/-- non-vacuity: the worked instance at the start (0, 0, 0): 1² + 3² from `d1`, 1² + 6² from `d2` -/
example : sumSq ((exG 0 0 0).residualAt [polyFn] [0, 0, 0]) = (1 + 9) + (1 + 36) := by
  rw [cost_is_sum_over_datasets [polyFn] (exG 0 0 0) (by decide +kernel) ex_condInj]
  decide +kernel

/-! ## The Jacobian the fit hands to its optimiser -/

/-- **jacobian_entry_chain_rule (one row).** In the row the code builds for a sample of a dataset — a zero row of the
    width of the table, `np.subtract.at(row, p_indices, sensitivities[p_external])` — the column of the global parameter
    `n` holds minus the SUM, over all model parameters the dataset maps to the name `n` (one term per path: none, one,
    or several), of their local sensitivities; in particular 0 for a parameter the dataset does not use. -/
theorem scatter_entry_chain_rule (tr : List (String × Target)) (uniq : List String) (h : NamesIn tr uniq)
    (sens : List Rat) (n : String) (hn : n ∈ uniq) :
    (scatterRowSum (mkCondition tr uniq) (List.replicate uniq.length 0) sens).getD (uniq.idxOf n) 0 =
      -((tr.zipIdx.filter fun ek => ek.1.2 = .name n).map fun ek => sens.getD ek.2 0).sum := by
  rw [scatterRowSum_eq_fold tr uniq h, foldl_subAt_getD _ _ _ (by
    rw [List.length_replicate]; exact List.idxOf_lt_length_of_mem hn)]
  unfold pathPairs
  rw [pathPairs_column_sum tr.zipIdx uniq sens (fun ek he s hs =>
    h ek.1 (by
      have := List.mem_zipIdx he  -- may need adjusting
      exact this.2.2 ▸ List.getElem_mem _) s hs) n]
  have hz : (List.replicate uniq.length (0 : Rat)).getD (uniq.idxOf n) 0 = 0 := by
    rw [List.getD_eq_getElem?_getD, List.getElem?_replicate]
    split <;> rfl
  rw [hz, zero_sub]

/-- **jacobian_entry_chain_rule.** Every row of the Jacobian the fit evaluates (`Fit._calculate_jacobian`: condition
    strings → groups → the first dataset's `Condition` → `p_indices` / `p_external` → unbuffered scatter, over all
    models) belongs to a sample `x` of a dataset `d`, and its entry in the column of ANY global parameter `n` is minus the
    sum, over all model parameters that `d` maps to `n`, of the model's sensitivities at `d`'s own reading of the
    global vector. -/
theorem jacobian_entry_chain_rule (Js : List SensFn) (F : Fit)
    (hkeys : F.table.map (·.1) = globalNames F.models) (hinj : ∀ m ∈ F.models, CondInj m) (g : List Rat)
    (row : List Rat) (h : row ∈ F.jacobianAt Js g) :
    ∃ mf ∈ F.models.zip Js, ∃ d ∈ mf.1.data, ∃ x ∈ d.x, ∀ n ∈ globalNames F.models,
      row.getD ((globalNames F.models).idxOf n) 0 =
        -((d.trans.zipIdx.filter fun ek => ek.1.2 = .name n).map fun ek =>
            (mf.2 (localDirect d.trans (globalNames F.models) g) (bitsToRat x)).getD ek.2 0).sum := by
  unfold Fit.jacobianAt at h
  simp only [List.mem_flatten] at h
  obtain ⟨blk, hblk, hrow⟩ := h
  obtain ⟨mf, hmf, e⟩ := mem_zipWith_zip _ _ _ _ hblk
  subst e
  have hm : mf.1 ∈ F.models := (List.of_mem_zip hmf).1
  rw [hkeys] at hrow
  have hin := fun d hd => namesIn_globalNames F.models mf.1 hm d hd
  obtain ⟨d, hd, x, hx, rfl⟩ := mem_model_jacobian mf.2 mf.1 _ (hinj _ hm) hin g row hrow
  exact ⟨mf, hmf, d, hd, x, hx, fun n hn => scatter_entry_chain_rule d.trans _ (hin d hd) _ n hn⟩

/-- …in particular the column of a parameter the dataset does not use (another dataset's own, renamed parameter) is
    zero in all rows of that dataset: dataset-specific parameters are independent to first order too. -/
theorem unused_parameter_column_zero (tr : List (String × Target)) (uniq : List String) (h : NamesIn tr uniq)
    (sens : List Rat) (n : String) (hn : n ∈ uniq) (hun : ∀ e ∈ tr, e.2 ≠ .name n) :
    (scatterRowSum (mkCondition tr uniq) (List.replicate uniq.length 0) sens).getD (uniq.idxOf n) 0 = 0 := by
  rw [scatter_entry_chain_rule tr uniq h sens n hn]
  have : (tr.zipIdx.filter fun ek => ek.1.2 = .name n) = [] := by
    rw [List.filter_eq_nil_iff]
    intro ek hek
    have hm : ek.1 ∈ tr := by
      have := List.mem_zipIdx hek
      exact this.2.2 ▸ List.getElem_mem _
    simpa using hun ek.1 hm
  rw [this]; simp

/-- non-vacuity: `d2` of the worked instance (M/a shared, M/b → M/b2) at x = 1: row (−1, 0, −1) over (M/a, M/b, M/b2);
    and a dataset that maps BOTH model parameters to one name gets the sum of both sensitivities in that column -/
example :
    (exG 0 0 0).jacobianAt [polySens] [0, 0, 0] = [[-1, 0, 0], [-1, -1, 0], [-1, 0, 0], [-1, 0, -1]] ∧
    scatterRowSum (mkCondition [("M/a", .name "x"), ("M/b", .name "x")] ["x"]) [0] (polySens [0, 0] 3) = [-4] := by
  decide +kernel

/-- The Jacobian the driver answers for the tie (`c14.fjac`, as-is variant) IS the Jacobian the theorems are about,
    with the sensitivities of the polynomial toy for every model. -/
theorem jacobianV_eq (F : Fit) (g : List Rat) :
    F.jacobianV false g = F.jacobianAt (F.models.map fun _ => polySens) g := by
  unfold Fit.jacobianV Fit.jacobianAt
  simp only [condsVariant, Bool.false_eq_true, ↓reduceIte, ModelData.jacobian, List.length_map]
  congr 1
  generalize F.models = ms
  induction ms with
  | nil => rfl
  | cons m ms ih => simp only [List.map_cons, List.zipWith_cons_cons, ih]

/-! ## Action sequences and the length of the residual vector -/

/-- **add_noise_free_data_then_refit_unchanged.** The sequence of user actions "add a further dataset, fit again" on
    a fit whose table holds the generating values `gen`: if the dataset is accepted, introduces no new parameter and
    all data (old and new) is noise-free data of `gen`, then for any optimiser that stays in its box and does not
    increase the sum of squares, and identifiable free parameters, the second fit returns the table of the rebuilt fit
    unchanged — it still holds `gen`. -/
theorem add_noise_free_data_then_refit_unchanged (r : Bool) (opt : Opt) (fs : List ModelFn) (F : Fit)
    (pre post : List ModelData) (m : ModelData) (hF : F.models = pre ++ m :: post)
    (hkeys : F.table.map (·.1) = globalNames F.models)
    (gen : String → Rat) (hgen : ∀ e ∈ F.table, e.2.value = gen e.1)
    (name : String) (ov : List (String × Target)) (nx ny : List Bool) (xs ys : List Nat)
    (tr : List (String × Target))
    (hname : m.data.any (fun d => d.name == name) = false) (hlen : nx.length = ny.length)
    (htr : parseTransformation (m.params.map (·.1)) ov = some tr)
    (hold : ∀ n ∈ tr.filterMap (·.2.name?), n ∈ F.table.map (·.1)) :
    let F1 := (F.addData pre.length name ov nx ny xs ys).1
    (∀ m' ∈ (F1.rebuild r).models, CondInj m') →
    (∀ mf ∈ (F1.rebuild r).models.zip fs, ∀ d' ∈ mf.1.data, NoiseFree mf.2 (localByName d'.trans gen) d') →
    ∀ (lb ub : List (Option Rat)) (x0 x : List Rat), (F1.fit r opt).2 = .done lb ub x0 x →
    inBox lb ub x = true →
    sumSq ((F1.rebuild r).objective fs x) ≤ sumSq ((F1.rebuild r).objective fs x0) →
    (∀ z, inBox lb ub z = true → (∀ ρ ∈ (F1.rebuild r).objective fs z, ρ = 0) → z = x0) →
    (F1.fit r opt).1 = F1.rebuild r ∧ ∀ e ∈ (F1.fit r opt).1.table, e.2.value = gen e.1 := by
  intro F1 hinj hnf lb ub x0 x hdone hbox hdesc hident
  have e1 : F1 = { F with models := (withData pre m post
      ⟨name, tr, countValid nx ny, keepValid nx ny xs, keepValid nx ny ys⟩) } := by
    show (F.addData pre.length name ov nx ny xs ys).1 = _
    rw [addData_ok F pre post m hF name ov nx ny xs ys tr hname hlen htr]
  have e2 : F1.rebuild r = Fit.build r { F with models := (withData pre m post
      ⟨name, tr, countValid nx ny, keepValid nx ny xs, keepValid nx ny ys⟩) } := by
    rw [e1]; unfold Fit.rebuild; rw [dirty_withData]; rfl
  obtain ⟨hg, hz⟩ := more_noise_free_data_keeps_optimum r fs F pre post m hF hkeys gen hgen
    ⟨name, tr, countValid nx ny, keepValid nx ny xs, keepValid nx ny ys⟩ hold
  rw [← e2] at hg hz
  have h := refit_from_optimum_unchanged r opt fs F1 (hz hinj hnf) lb ub x0 x hdone hbox hdesc hident
  exact ⟨h.2, by rw [h.2]; exact hg⟩

/-- the worked instance after `d3` was added (through `add_data`) and the fit rebuilt -/
def exG3 : Fit := ⟨[⟨[("M/a", none), ("M/b", none)], [exD1, exD2, exD3], true⟩],
  [("M/a", ⟨1, none, none, false⟩), ("M/b", ⟨2, none, none, false⟩), ("M/b2", ⟨5, none, none, false⟩)], true⟩

theorem ex3_rebuild :
    (((exG 1 2 5).addData 0 "d3" [("M/b", .name "M/b2")] [false] [false] [4611686018427387904]
      [4622382067542392832]).1).rebuild false = exG3 := by decide +kernel

theorem ex3_conds : generateConditions ⟨[("M/a", none), ("M/b", none)], [exD1, exD2, exD3], true⟩
    ["M/a", "M/b", "M/b2"] =
    [(⟨[some 0, some 1], [none, none], [0, 1], [0, 1]⟩, [exD1]),
     (⟨[some 0, some 2], [none, none], [0, 1], [0, 2]⟩, [exD2, exD3])] := by decide +kernel

theorem ex3_objective (a b c : Rat) :
    exG3.objective [polyFn] [a, b, c] = [1 - a, 3 - (a + b), 1 - a, 6 - (a + c), 11 - (a + c * 2)] := by
  unfold Fit.objective Fit.residualAt
  simp only [exG3, Fit.fitted, Fit.values, List.map, Bool.not_false, writeBack, List.zipWith,
    ModelData.residual, List.flatten]
  rw [ex3_conds]
  obtain ⟨h1, h0, h3, h6⟩ := ex_bits
  have h2 : bitsToRat 4611686018427387904 = 2 ∧ bitsToRat 4622382067542392832 = 11 := by decide +kernel
  simp [residualOf, dataResidual, getLocalParams, exD1, exD2, exD3, h1, h0, h3, h6, h2.1, h2.2, polyFn, polyAux]

/-- non-vacuity of `add_noise_free_data_then_refit_unchanged`: the worked instance at (1, 2, 5), `d3` added through
    `add_data` with the override `M/b → M/b2`, refit with an optimiser that stays at its start -/
example :
    let F1 := ((exG 1 2 5).addData 0 "d3" [("M/b", .name "M/b2")] [false] [false] [4611686018427387904]
      [4622382067542392832]).1
    (F1.fit false (fun _ _ x0 => .ok x0)).1 = exG3 := by
  intro F1
  have hdone : (F1.fit false (fun _ _ x0 => .ok x0)).2 =
      .done [none, none, none] [none, none, none] [1, 2, 5] [1, 2, 5] := by decide +kernel
  have h := add_noise_free_data_then_refit_unchanged false (fun _ _ x0 => .ok x0) [polyFn] (exG 1 2 5) [] []
    (exM true) rfl (by decide +kernel) exGen (by decide +kernel) "d3" [("M/b", .name "M/b2")] [false] [false]
    [4611686018427387904] [4622382067542392832] [("M/a", .name "M/a"), ("M/b", .name "M/b2")]
    (by decide) rfl (by decide) (by decide +kernel)
    (by
      show ∀ m' ∈ (F1.rebuild false).models, CondInj m'
      rw [ex3_rebuild]
      intro m' hm'
      simp only [exG3, List.mem_cons, List.not_mem_nil, or_false] at hm'
      subst hm'
      intro a ha b hb
      simp only [List.mem_cons, List.not_mem_nil, or_false] at ha hb
      rcases ha with rfl | rfl | rfl <;> rcases hb with rfl | rfl | rfl <;> decide)
    (by
      show ∀ mf ∈ (F1.rebuild false).models.zip [polyFn], ∀ d' ∈ mf.1.data, NoiseFree mf.2 (localByName d'.trans exGen) d'
      rw [ex3_rebuild]
      intro mf hmf d hd
      simp only [exG3, List.zip_cons_cons, List.zip_nil_right, List.mem_cons, List.not_mem_nil, or_false] at hmf
      subst hmf
      simp only [List.mem_cons, List.not_mem_nil, or_false] at hd
      rcases hd with rfl | rfl | rfl <;> (unfold NoiseFree; decide +kernel))
    _ _ _ _ hdone (by decide) (le_refl _)
    (by
      show ∀ z, inBox _ _ z = true → (∀ ρ ∈ (F1.rebuild false).objective [polyFn] z, ρ = 0) → z = [1, 2, 5]
      intro z hz h0
      obtain ⟨a, b, c, rfl⟩ := ex_three _ _ z hz rfl
      rw [ex3_rebuild, ex3_objective] at h0
      simp only [List.mem_cons, List.not_mem_nil, or_false, forall_eq_or_imp, forall_eq] at h0
      obtain ⟨e1, e2, _, e4, _⟩ := h0
      have ha : a = 1 := by linarith
      have hb : b = 2 := by linarith
      have hc : c = 5 := by linarith
      rw [ha, hb, hc])
  exact h.1.trans ex3_rebuild

/-- **residual_length.** The residual vector the fit evaluates has exactly one entry per valid sample pair of every
    dataset of every model (`n_residuals`), whatever the grouping into conditions: no dataset is left out, none is
    evaluated twice. -/
theorem model_residual_length (f : ModelFn) (m : ModelData) (uniq : List String) (g : List Rat)
    (hok : ∀ d ∈ m.data, DataOk d) : (m.residual f uniq g).length = m.nResiduals := by
  unfold ModelData.residual generateConditions
  refine (length_residualOf_filterMap f uniq g (groups m) ?_).trans ?_
  · intro grp hgrp d hd
    cases grp with
    | nil => cases hd
    | cons r rest => exact hok d (mem_groups m _ r d hgrp List.mem_cons_self hd).2.1
  · unfold groups ModelData.nResiduals
    rw [List.map_map]
    exact nsum_by_key m.data (fun d => (unique (m.data.map condString)).idxOf (condString d)) _ _
      (fun d hd => List.idxOf_lt_length_of_mem ((mem_unique _ _).mpr (List.mem_map_of_mem hd)))

theorem residual_length (fs : List ModelFn) (F : Fit) (g : List Rat) (hfs : fs.length = F.models.length)
    (hok : ∀ m ∈ F.models, ∀ d ∈ m.data, DataOk d) : (F.residualAt fs g).length = F.nResiduals := by
  unfold Fit.residualAt Fit.nResiduals
  rw [List.length_flatten, zipWith_eq_map_zip', List.map_map]
  have : ∀ mf ∈ F.models.zip fs, ((fun l : List Rat => l.length) ∘ fun p : ModelData × ModelFn =>
      p.1.residual p.2 (F.table.map (·.1)) g) mf = mf.1.nResiduals := by
    intro mf hmf
    exact model_residual_length mf.2 mf.1 _ g (hok _ (List.of_mem_zip hmf).1)
  rw [List.map_congr_left this]
  have hz : (F.models.zip fs).map (fun mf => mf.1.nResiduals) = F.models.map (·.nResiduals) := by
    rw [show (fun mf : ModelData × ModelFn => mf.1.nResiduals) = (fun m : ModelData => m.nResiduals) ∘ Prod.fst from rfl,
      ← List.map_map, List.map_fst_zip (by omega)]
  rw [hz]

/-- `add_data` ESTABLISHES `DataOk`: when the caller hands over as many samples as mask entries, every dataset of the
    fit holds exactly `npoints` pairs afterwards (accepted or refused). -/
theorem addData_dataOk (F : Fit) (mi : Nat) (name : String) (ov : List (String × Target)) (nx ny : List Bool)
    (xs ys : List Nat) (hx : xs.length = nx.length) (hy : ys.length = ny.length)
    (hok : ∀ m ∈ F.models, ∀ d ∈ m.data, DataOk d) :
    ∀ m ∈ (F.addData mi name ov nx ny xs ys).1.models, ∀ d ∈ m.data, DataOk d := by
  unfold Fit.addData
  cases hm : F.models[mi]? with
  | none => exact hok
  | some m =>
    simp only
    have hmm : m ∈ F.models := List.mem_of_getElem? hm
    split
    · exact hok
    · split
      · exact hok
      · rename_i hlen
        have hlen' : nx.length = ny.length := by simpa using hlen
        cases htr : parseTransformation (m.params.map (·.1)) ov with
        | none =>
          simp only
          intro m' hm' d hd
          rcases List.mem_or_eq_of_mem_set hm' with h | h
          · exact hok m' h d hd
          · subst h; exact hok m hmm d hd
        | some tr =>
          simp only
          intro m' hm' d hd
          rcases List.mem_or_eq_of_mem_set hm' with h | h
          · exact hok m' h d hd
          · subst h
            simp only [List.mem_append, List.mem_cons, List.not_mem_nil, or_false] at hd
            rcases hd with hd | rfl
            · exact hok m hmm d hd
            · exact ⟨keepValid_length nx ny xs hlen' hx, keepValid_length nx ny ys hlen' (hy.trans hlen'.symm)⟩

/-- non-vacuity of `residual_length` / `addData_dataOk`: the worked instance (its datasets hold as many samples as
    `npoints` says), before and after a third dataset went through `add_data` -/
example (g : List Rat) :
    ((exG 0 0 0).residualAt [polyFn] g).length = 4 ∧
    (∀ m ∈ ((exG 1 2 5).addData 0 "d3" [("M/b", .name "M/b2")] [false] [false] [4611686018427387904]
      [4622382067542392832]).1.models, ∀ d ∈ m.data, DataOk d) := by
  have hok : ∀ v1 v2 v3, ∀ m ∈ (exG v1 v2 v3).models, ∀ d ∈ m.data, DataOk d := by
    intro v1 v2 v3 m hm d hd
    simp only [exG, exM, List.mem_cons, List.not_mem_nil, or_false] at hm
    subst hm
    simp only [List.mem_cons, List.not_mem_nil, or_false] at hd
    rcases hd with rfl | rfl <;> exact ⟨rfl, rfl⟩
  exact ⟨residual_length [polyFn] (exG 0 0 0) g rfl (hok 0 0 0), addData_dataOk _ _ _ _ _ _ _ _ rfl rfl (hok 1 2 5)⟩

end Verif.C14
