/-
  C12 — property theorems (statements + short proofs; helper lemmas live in Lemmas/C12).
  Every theorem is about the executable model in `Verif.Model.C12` read at `ℝ` (the formulas are
  the same definitions the driver executes at `Float`), which the correspondence check ties to
  `lumicks/pylake/fitting/{models,model}.py` and `fitting/detail/model_implementation.py` on every run.
-/
import Verif.Lemmas.C12

namespace Verif.C12

/-! ## `calc_cubic_root` returns a root, on both sides of `det = 0`, for every selected root -/

/-- For **all** real coefficients and every `selected_root` the value computed by the code's
    algorithm — Cardano's `cbrt(-q/2+√det) + cbrt(-q/2-√det)` when `det ≥ 0`, the `arcsin`-based
    trigonometric value number `k` when `det < 0`, shifted back by `a/3` — satisfies
    `y³ + a y² + b y + c = 0`. -/
theorem cubic_root_is_root (a b c : ℝ) (k : ℕ) :
    calcCubicRoot a b c k ^ 3 + a * calcCubicRoot a b c k ^ 2 + b * calcCubicRoot a b c k + c = 0 :=
  calcCubicRoot_is_root a b c k

/-- Where the trigonometric branch is taken (`det < 0`) the `np.clip(·, -1, 1)` in front of the
    `arcsin` is the identity — a silently active clip would make the formula wrong. -/
theorem cubic_clip_inactive (p q : ℝ) (hdet : disc p q < 0) : asinArg p q = asinArgRaw p q := by
  rw [disc_real] at hdet
  rw [asinArg_real p q hdet, asinArgRaw_real]

-- both branches are inhabited: `t³ - 3t + 1` has `det = -3/4`, `t³ + t + 1` has `det = 31/108`
example : disc (-3 : ℝ) 1 < 0 := by rw [disc_real]; norm_num
example : ¬ disc (1 : ℝ) 1 < 0 := by rw [disc_real]; norm_num
example : ∃ p q : ℝ, disc p q < 0 ∧ asinArgRaw p q ≠ 0 :=
  ⟨-3, 1, by rw [disc_real]; norm_num, by
    rw [asinArgRaw_real]
    have : (0 : ℝ) < √3 := Real.sqrt_pos.mpr (by norm_num)
    have : (0 : ℝ) < √(- -3) := Real.sqrt_pos.mpr (by norm_num)
    positivity⟩

/-! ## `calc_cubic_root` on arrays: the boolean-mask bookkeeping is position-wise -/

/-- The code works on whole arrays: `mask = det >= 0`, the Cardano values are computed from `q[mask]`,
    `det[mask]` and written to `sol[mask]`, the trigonometric ones from `p[~mask]`, `q[~mask]` and written to
    `sol[~mask]`. For arrays of ANY length and any pattern of branches, the result holds at every position the
    scalar `calcCubicRoot` of that position's coefficients — no value lands in another row. Over `ℝ`: -/
theorem cubic_vec_pointwise (l : List (ℝ × ℝ × ℝ)) (k : ℕ) :
    calcCubicRootVec (l.map (·.1)) (l.map (·.2.1)) (l.map (·.2.2)) k
      = l.map fun t => calcCubicRoot t.1 t.2.1 t.2.2 k :=
  calcCubicRootVec_pointwise (fun det A B => by
    simp only [selGe0_real, RealLike.le]
    norm_num) l k

/-- …and for the very `Float` instance the driver executes and the harness compares with NumPy
    (a statement about the bookkeeping only; no property of floating-point arithmetic is used). -/
theorem cubic_vec_pointwise_float (l : List (Float × Float × Float)) (k : ℕ) :
    calcCubicRootVec (l.map (·.1)) (l.map (·.2.1)) (l.map (·.2.2)) k
      = l.map fun t => calcCubicRoot t.1 t.2.1 t.2.2 k :=
  calcCubicRootVec_pointwise (fun _ _ _ => rfl) l k

/-- hence every entry of the array result is a root of its own cubic -/
theorem cubic_vec_roots (l : List (ℝ × ℝ × ℝ)) (k : ℕ) :
    List.Forall₂ (fun (t : ℝ × ℝ × ℝ) y => y ^ 3 + t.1 * y ^ 2 + t.2.1 * y + t.2.2 = 0) l
      (calcCubicRootVec (l.map (·.1)) (l.map (·.2.1)) (l.map (·.2.2)) k) := by
  rw [cubic_vec_pointwise]
  induction l with
  | nil => exact List.Forall₂.nil
  | cons t ts ih => exact List.Forall₂.cons (calcCubicRoot_is_root t.1 t.2.1 t.2.2 k) ih

/-! ## the model equations and the cubics the code solves have the same solutions -/

/-- Odijk. For a positive force and positive parameters, `d` is the Odijk extension of `F` iff `F`
    is a root of the cubic with the coefficients of `ewlc_odijk_force` **and** `F ≥ α·S_t`
    (`α = d/L_c - 1`): the cubic is the square of the model equation, the inequality removes the
    roots of the mirrored equation. -/
theorem odijk_cubic_iff (F d Lp Lc St kT : ℝ) (hF : 0 < F) (hLp : 0 < Lp) (hLc : 0 < Lc)
    (hSt : 0 < St) (hkT : 0 < kT) :
    d = odijkDistance F Lp Lc St kT ↔
      (F ^ 3 + (odijkForceCoeffs d Lp Lc St kT).1 * F ^ 2 + (odijkForceCoeffs d Lp Lc St kT).2.1 * F
          + (odijkForceCoeffs d Lp Lc St kT).2.2 = 0 ∧ (d / Lc - 1) * St ≤ F) := by
  rw [odijkDistance_real, odijkForceCoeffs_real]
  exact odijk_iff_aux F d Lp Lc St kT hF hLp hLc hSt hkT

example : ∃ F d Lp Lc St kT : ℝ, 0 < F ∧ 0 < Lp ∧ 0 < Lc ∧ 0 < St ∧ 0 < kT ∧
    d = odijkDistance F Lp Lc St kT :=
  ⟨10, _, 40, 16, 1500, 4.11, by norm_num, by norm_num, by norm_num, by norm_num, by norm_num, rfl⟩

/-- Marko–Siggia (inextensible). Below the contour length, `F` is the Marko–Siggia force at `d` iff
    `d` is a root of the cubic with the coefficients of `wlc_marko_siggia_distance`. -/
theorem ms_cubic_iff (F d Lp Lc kT : ℝ) (hLp : 0 < Lp) (hLc : 0 < Lc) (hkT : 0 < kT) (hd : d < Lc) :
    F = msForce d Lp Lc kT ↔
      d ^ 3 + (msDistanceCoeffs F Lp Lc kT).1 * d ^ 2 + (msDistanceCoeffs F Lp Lc kT).2.1 * d
        + (msDistanceCoeffs F Lp Lc kT).2.2 = 0 := by
  have hid := ms_identity F d Lp Lc kT hLp.ne' hLc.ne' hkT.ne' hd.ne
  have hK : Lp * Lc * (Lc - d) ^ 2 ≠ 0 := by
    have : 0 < Lc - d := by linarith
    positivity
  constructor
  · intro h
    have h0 : F - msForce d Lp Lc kT = 0 := by linarith
    rw [h0, zero_mul] at hid
    rcases mul_eq_zero.mp hid.symm with h1 | h1
    · exact absurd (neg_eq_zero.mp h1) hkT.ne'
    · exact h1
  · intro h
    rw [h, mul_zero] at hid
    rcases mul_eq_zero.mp hid with h1 | h1
    · linarith
    · exact absurd h1 hK

example : ∃ F d Lp Lc kT : ℝ, 0 < Lp ∧ 0 < Lc ∧ 0 < kT ∧ d < Lc ∧ F = msForce d Lp Lc kT :=
  ⟨_, 12, 40, 16, 4.11, by norm_num, by norm_num, by norm_num, by norm_num, rfl⟩

/-- Extensible Marko–Siggia, force direction. Where the published relation
    `F Lp/kT = ¼(1 - d/Lc + F/St)⁻² - ¼ + d/Lc - F/St` is defined (`1 - d/Lc + F/St > 0`: the
    extension is below the stretched contour length) it holds iff `F` is a root of the cubic with
    the coefficients of `ewlc_marko_siggia_force`. -/
theorem ems_force_cubic_iff (F d Lp Lc St kT : ℝ) (hLp : 0 < Lp) (hLc : 0 < Lc) (hSt : 0 < St)
    (hkT : 0 < kT) (hy : 0 < 1 - d / Lc + F / St) :
    emsResidual F d Lp Lc St kT = 0 ↔
      F ^ 3 + (emsForceCoeffs d Lp Lc St kT).1 * F ^ 2 + (emsForceCoeffs d Lp Lc St kT).2.1 * F
        + (emsForceCoeffs d Lp Lc St kT).2.2 = 0 := by
  have hden : 0 < Lp * St + kT := by positivity
  have hid := ems_identity_force F d Lp Lc St kT hLc.ne' hSt.ne' hkT.ne' hden.ne' hy.ne'
  have hK : (1 - d / Lc + F / St) ^ 2 * (St ^ 3 * kT) ≠ 0 := by positivity
  constructor
  · intro h
    rw [h, zero_mul] at hid
    rcases mul_eq_zero.mp hid.symm with h1 | h1
    · exact absurd (neg_eq_zero.mp h1) hden.ne'
    · exact h1
  · intro h
    rw [h, mul_zero] at hid
    rcases mul_eq_zero.mp hid with h1 | h1
    · exact h1
    · exact absurd h1 hK

/-- Extensible Marko–Siggia, distance direction: same relation, cubic in `d` with the
    coefficients of `ewlc_marko_siggia_distance`. -/
theorem ems_distance_cubic_iff (F d Lp Lc St kT : ℝ) (hLc : 0 < Lc) (hSt : 0 < St)
    (hkT : 0 < kT) (hy : 0 < 1 - d / Lc + F / St) :
    emsResidual F d Lp Lc St kT = 0 ↔
      d ^ 3 + (emsDistanceCoeffs F Lp Lc St kT).1 * d ^ 2 + (emsDistanceCoeffs F Lp Lc St kT).2.1 * d
        + (emsDistanceCoeffs F Lp Lc St kT).2.2 = 0 := by
  have hid := ems_identity_distance F d Lp Lc St kT hLc.ne' hSt.ne' hkT.ne' hy.ne'
  have hK : (1 - d / Lc + F / St) ^ 2 * Lc ^ 3 ≠ 0 := by positivity
  constructor
  · intro h
    rw [h, zero_mul] at hid
    exact hid.symm
  · intro h
    rw [h] at hid
    rcases mul_eq_zero.mp hid with h1 | h1
    · exact h1
    · exact absurd h1 hK

example : ∃ F d Lp Lc St kT : ℝ, 0 < Lp ∧ 0 < Lc ∧ 0 < St ∧ 0 < kT ∧ 0 < 1 - d / Lc + F / St :=
  ⟨10, 15, 40, 16, 1500, 4.11, by norm_num, by norm_num, by norm_num, by norm_num, by norm_num⟩

/-- Consequently the closed-form inverses solve the published relation: what `ewlc_marko_siggia_force`
    returns for `d` (resp. `ewlc_marko_siggia_distance` for `F`) satisfies the extensible
    Marko–Siggia relation wherever that relation is defined at the returned point. -/
theorem ems_force_solves (d Lp Lc St kT : ℝ) (hLp : 0 < Lp) (hLc : 0 < Lc) (hSt : 0 < St)
    (hkT : 0 < kT) (hy : 0 < 1 - d / Lc + emsForce d Lp Lc St kT / St) :
    emsResidual (emsForce d Lp Lc St kT) d Lp Lc St kT = 0 :=
  (ems_force_cubic_iff _ d Lp Lc St kT hLp hLc hSt hkT hy).mpr (calcCubicRoot_is_root _ _ _ 2)

theorem ems_distance_solves (F Lp Lc St kT : ℝ) (hLc : 0 < Lc) (hSt : 0 < St)
    (hkT : 0 < kT) (hy : 0 < 1 - emsDistance F Lp Lc St kT / Lc + F / St) :
    emsResidual F (emsDistance F Lp Lc St kT) Lp Lc St kT = 0 :=
  (ems_distance_cubic_iff F _ Lp Lc St kT hLc hSt hkT hy).mpr (calcCubicRoot_is_root _ _ _ 1)

/-- what `wlc_marko_siggia_distance` returns is mapped back to `F` by `wlc_marko_siggia_force`
    whenever it lies below the contour length -/
theorem ms_force_distance (F Lp Lc kT : ℝ) (hLp : 0 < Lp) (hLc : 0 < Lc) (hkT : 0 < kT)
    (hd : msDistance F Lp Lc kT < Lc) :
    msForce (msDistance F Lp Lc kT) Lp Lc kT = F :=
  ((ms_cubic_iff F _ Lp Lc kT hLp hLc hkT hd).mpr (calcCubicRoot_is_root _ _ _ 1)).symm

/-- what `ewlc_odijk_force` returns is mapped back to `d` by `ewlc_odijk_distance` whenever it is
    positive and at least `α·S_t` -/
theorem odijk_distance_force (d Lp Lc St kT : ℝ) (hLp : 0 < Lp) (hLc : 0 < Lc) (hSt : 0 < St)
    (hkT : 0 < kT) (hF : 0 < odijkForce d Lp Lc St kT)
    (hsel : (d / Lc - 1) * St ≤ odijkForce d Lp Lc St kT) :
    odijkDistance (odijkForce d Lp Lc St kT) Lp Lc St kT = d :=
  ((odijk_cubic_iff _ d Lp Lc St kT hF hLp hLc hSt hkT).mpr
    ⟨calcCubicRoot_is_root _ _ _ 2, hsel⟩).symm

/-! ## the selected root is the physical one (ext) -/

/-- Odijk: for every distance (also beyond the contour length, also negative) and positive
    parameters, the root `ewlc_odijk_force` selects (index 2: Cardano's value when `det ≥ 0`, the
    largest trigonometric root when `det < 0`) is positive and at least `α·S_t`. -/
theorem odijk_selected_root (d Lp Lc St kT : ℝ) (hLp : 0 < Lp) (hSt : 0 < St) (hkT : 0 < kT) :
    0 < odijkForce d Lp Lc St kT ∧ (d / Lc - 1) * St ≤ odijkForce d Lp Lc St kT :=
  odijk_selected_root_aux d Lp Lc St kT hLp hSt hkT

/-- …which upgrades `odijk_cubic_iff` to the round trips outright:
    `distance(force(d)) = d` for **every** real `d`, -/
theorem odijk_distance_of_force (d Lp Lc St kT : ℝ) (hLp : 0 < Lp) (hLc : 0 < Lc) (hSt : 0 < St)
    (hkT : 0 < kT) :
    odijkDistance (odijkForce d Lp Lc St kT) Lp Lc St kT = d :=
  odijk_distance_force d Lp Lc St kT hLp hLc hSt hkT
    (odijk_selected_root d Lp Lc St kT hLp hSt hkT).1 (odijk_selected_root d Lp Lc St kT hLp hSt hkT).2

/-- and `force(distance(F)) = F` for every positive force. -/
theorem odijk_force_of_distance (F Lp Lc St kT : ℝ) (hF : 0 < F) (hLp : 0 < Lp) (hLc : 0 < Lc)
    (hSt : 0 < St) (hkT : 0 < kT) :
    odijkForce (odijkDistance F Lp Lc St kT) Lp Lc St kT = F := by
  have hsel := odijk_selected_root (odijkDistance F Lp Lc St kT) Lp Lc St kT hLp hSt hkT
  exact odijkDistance_injective _ F Lp Lc St kT hsel.1 hF hLp hLc hSt hkT
    (odijk_distance_of_force (odijkDistance F Lp Lc St kT) Lp Lc St kT hLp hLc hSt hkT)

example : ∃ F Lp Lc St kT : ℝ, 0 < F ∧ 0 < Lp ∧ 0 < Lc ∧ 0 < St ∧ 0 < kT :=
  ⟨10, 40, 16, 1500, 4.11, by norm_num, by norm_num, by norm_num, by norm_num, by norm_num⟩

/-- `calc_cubic_root` with three real roots (`det < 0`): index 1 is the smallest and index 2 the
    largest real root of the depressed cubic. -/
theorem trig_root_order (p q : ℝ) (hdet : disc p q < 0) (r : ℝ) (hr : r ^ 3 + p * r + q = 0) :
    trigRoot p q 1 ≤ r ∧ r ≤ trigRoot p q 2 := by
  rw [disc_real] at hdet
  exact trig_root_order_aux p q hdet r hr

example : ∃ p q r : ℝ, disc p q < 0 ∧ r ^ 3 + p * r + q = 0 :=
  ⟨-1, 0, 1, by rw [disc_real]; norm_num, by norm_num⟩

/-
  Fragment of `ms_selected_root` kept from round 1 (the full statement is proved below, deepening round D):
  in the three-real-root regime (`det < 0`) the value `wlc_marko_siggia_distance` selects is the SMALLEST real
  root of the Marko–Siggia cubic.
-/
theorem ms_selected_root_partial (F Lp Lc kT : ℝ)
    (hdet : disc (depP (msDistanceCoeffs F Lp Lc kT).1 (msDistanceCoeffs F Lp Lc kT).2.1)
                 (depQ (msDistanceCoeffs F Lp Lc kT).1 (msDistanceCoeffs F Lp Lc kT).2.1
                       (msDistanceCoeffs F Lp Lc kT).2.2) < 0)
    (r : ℝ)
    (hr : r ^ 3 + (msDistanceCoeffs F Lp Lc kT).1 * r ^ 2 + (msDistanceCoeffs F Lp Lc kT).2.1 * r
            + (msDistanceCoeffs F Lp Lc kT).2.2 = 0) :
    msDistance F Lp Lc kT ≤ r := by
  set a := (msDistanceCoeffs F Lp Lc kT).1 with ha
  set b := (msDistanceCoeffs F Lp Lc kT).2.1 with hb
  set c := (msDistanceCoeffs F Lp Lc kT).2.2 with hc
  have hms : msDistance F Lp Lc kT = calcCubicRoot a b c 1 := rfl
  rw [hms, calcCubicRoot_real, depressedRoot_real, if_neg (not_le.mpr hdet)]
  have hr' : (r + a / 3) ^ 3 + depP a b * (r + a / 3) + depQ a b c = 0 := by
    rw [depP_real, depQ_real]; linear_combination hr
  have := (trig_root_order (depP a b) (depQ a b c) hdet (r + a / 3) hr').1
  linarith

-- the three-real-root regime occurs for the Marko–Siggia cubic (F Lp/kT = 10: roots ≈ 0.86, 1.17, 10.2)
example : disc (depP (msDistanceCoeffs (10 : ℝ) 1 1 1).1 (msDistanceCoeffs (10 : ℝ) 1 1 1).2.1)
               (depQ (msDistanceCoeffs (10 : ℝ) 1 1 1).1 (msDistanceCoeffs (10 : ℝ) 1 1 1).2.1
                     (msDistanceCoeffs (10 : ℝ) 1 1 1).2.2) < 0 := by
  simp only [msDistanceCoeffs]
  rw [disc_real, depP_real, depQ_real]
  norm_num

/-! ## deepening round D: which real root is returned; Marko–Siggia family round trips outright -/

/-- `calc_cubic_root`, Cardano regime, strictly positive discriminant: the returned value is THE real
    root of the cubic, whatever `selected_root` was asked for — every real root equals it. -/
theorem cubic_cardano_unique (a b c R : ℝ) (k : ℕ) (hdet : 0 < disc (depP a b) (depQ a b c))
    (hR : R ^ 3 + a * R ^ 2 + b * R + c = 0) : R = calcCubicRoot a b c k := by
  by_contra hne
  have := (calcCubicRoot_other_root_double a b c R k hdet.le hR hne).1
  linarith

/-- on the boundary `det = 0` (still the Cardano formula) a real root other than the returned value is
    a double root: the cubic factors as `(x - R)² (x - returned)` — Cardano's value is the SIMPLE root. -/
theorem cubic_cardano_boundary (a b c R : ℝ) (k : ℕ) (hdet : 0 ≤ disc (depP a b) (depQ a b c))
    (hR : R ^ 3 + a * R ^ 2 + b * R + c = 0) (hne : R ≠ calcCubicRoot a b c k) :
    disc (depP a b) (depQ a b c) = 0 ∧
    ∀ x : ℝ, x ^ 3 + a * x ^ 2 + b * x + c = (x - R) ^ 2 * (x - calcCubicRoot a b c k) :=
  calcCubicRoot_other_root_double a b c R k hdet hR hne

-- non-vacuity: x³ + x + 1 has det = 31/108 > 0 and a real root (its Cardano value);
-- x³ - 3x + 2 = (x - 1)²(x + 2) has det = 0, the root R = 1 is not the returned value -2
example : 0 < disc (depP (0 : ℝ) 1) (depQ (0 : ℝ) 1 1) := by
  rw [disc_real, depP_real, depQ_real]; norm_num
example : ∃ a b c R : ℝ, 0 ≤ disc (depP a b) (depQ a b c) ∧ R ^ 3 + a * R ^ 2 + b * R + c = 0 ∧
    R ≠ calcCubicRoot a b c 1 := by
  refine ⟨0, -3, 2, 1, ?_, by norm_num, ?_⟩
  · rw [disc_real, depP_real, depQ_real]; norm_num
  · intro h
    have hd : disc (depP (0 : ℝ) (-3)) (depQ (0 : ℝ) (-3) 2) = 0 := by
      rw [disc_real, depP_real, depQ_real]; norm_num
    have hq : depQ (0 : ℝ) (-3) 2 = 2 := by rw [depQ_real]; norm_num
    rw [calcCubicRoot_real, depressedRoot_real, if_pos hd.ge, hd, hq, cardano_real] at h
    have hc : Real.cbrt (-2 / 2 + √0) = -1 := by
      apply cube_inj; rw [cbrt_pow3]; norm_num
    have hc' : Real.cbrt (-2 / 2 - √0) = -1 := by
      apply cube_inj; rw [cbrt_pow3]; norm_num
    rw [hc, hc'] at h
    norm_num at h

/-- **ms_selected_root** (was NOT proved; `ms_selected_root_partial` was its fragment): for every positive
    force and positive parameters the root `wlc_marko_siggia_distance` selects (index 1: Cardano's value when
    `det ≥ 0`, the smallest of the three real roots when `det < 0`) lies strictly between 0 and the contour
    length. -/
theorem ms_selected_root (F Lp Lc kT : ℝ) (hF : 0 < F) (hLp : 0 < Lp) (hLc : 0 < Lc) (hkT : 0 < kT) :
    0 < msDistance F Lp Lc kT ∧ msDistance F Lp Lc kT < Lc :=
  ms_selected_root_aux F Lp Lc kT hF hLp hLc hkT

/-- …which upgrades `ms_force_distance` to the round trip outright: `force(distance(F)) = F` for every `F > 0`, -/
theorem ms_force_of_distance (F Lp Lc kT : ℝ) (hF : 0 < F) (hLp : 0 < Lp) (hLc : 0 < Lc) (hkT : 0 < kT) :
    msForce (msDistance F Lp Lc kT) Lp Lc kT = F :=
  ms_force_distance F Lp Lc kT hLp hLc hkT (ms_selected_root F Lp Lc kT hF hLp hLc hkT).2

/-- and `distance(force(d)) = d` for every extension strictly between 0 and the contour length. -/
theorem ms_distance_of_force (d Lp Lc kT : ℝ) (hd0 : 0 < d) (hd : d < Lc) (hLp : 0 < Lp) (hLc : 0 < Lc)
    (hkT : 0 < kT) : msDistance (msForce d Lp Lc kT) Lp Lc kT = d := by
  have hF := msForce_pos d Lp Lc kT hLp hLc hkT hd0 hd
  have hsel := ms_selected_root (msForce d Lp Lc kT) Lp Lc kT hF hLp hLc hkT
  have hback := ms_force_of_distance (msForce d Lp Lc kT) Lp Lc kT hF hLp hLc hkT
  rcases lt_trichotomy (msDistance (msForce d Lp Lc kT) Lp Lc kT) d with h | h | h
  · have := msForce_strictMono _ d Lp Lc kT hLp hLc hkT h hd; linarith
  · exact h
  · have := msForce_strictMono d _ Lp Lc kT hLp hLc hkT h hsel.2; linarith

example : ∃ d Lp Lc kT : ℝ, 0 < d ∧ d < Lc ∧ 0 < Lp ∧ 0 < Lc ∧ 0 < kT :=
  ⟨12, 40, 16, 4.11, by norm_num, by norm_num, by norm_num, by norm_num, by norm_num⟩

/-- `ewlc_marko_siggia_distance` is `wlc_marko_siggia_distance` plus the elastic stretch `Lc·F/St`: the two
    coefficient tables describe the same cubic shifted by `Lc·F/St`, the depressed cubics coincide. -/
theorem ems_distance_is_shifted_ms (F Lp Lc St kT : ℝ) (hSt : St ≠ 0) (hkT : kT ≠ 0) :
    emsDistance F Lp Lc St kT = msDistance F Lp Lc kT + Lc * F / St :=
  emsDistance_eq_shift F Lp Lc St kT hSt hkT

example : ∃ St kT : ℝ, St ≠ 0 ∧ kT ≠ 0 := ⟨1500, 4.11, by norm_num, by norm_num⟩

/-- extensible Marko–Siggia, distance direction: for every positive force the returned distance lies in the
    domain of the published relation (`1 - d/Lc + F/St > 0`) and beyond the purely elastic stretch. -/
theorem ems_distance_selected_root (F Lp Lc St kT : ℝ) (hF : 0 < F) (hLp : 0 < Lp) (hLc : 0 < Lc)
    (hSt : 0 < St) (hkT : 0 < kT) :
    Lc * F / St < emsDistance F Lp Lc St kT ∧ 0 < 1 - emsDistance F Lp Lc St kT / Lc + F / St := by
  have hsel := ms_selected_root F Lp Lc kT hF hLp hLc hkT
  rw [ems_distance_is_shifted_ms F Lp Lc St kT hSt.ne' hkT.ne']
  refine ⟨by linarith [hsel.1], ?_⟩
  have : (msDistance F Lp Lc kT + Lc * F / St) / Lc = msDistance F Lp Lc kT / Lc + F / St := by
    field_simp
  rw [this]
  have : msDistance F Lp Lc kT / Lc < 1 := (div_lt_one hLc).mpr hsel.2
  linarith

/-- extensible Marko–Siggia, force direction: for EVERY distance the root `ewlc_marko_siggia_force` selects
    (index 2) lies in the domain of the published relation. -/
theorem ems_force_selected_root (d Lp Lc St kT : ℝ) (hLp : 0 < Lp) (hLc : 0 < Lc) (hSt : 0 < St)
    (hkT : 0 < kT) : 0 < 1 - d / Lc + emsForce d Lp Lc St kT / St := by
  have h := ems_force_selected_root_aux d Lp Lc St kT hLp hLc hSt hkT
  have : d / Lc - 1 < emsForce d Lp Lc St kT / St := by
    rw [lt_div_iff₀ hSt]; exact h
  linarith

/-- hence both closed forms solve the published extensible Marko–Siggia relation outright
    (`ems_force_solves` / `ems_distance_solves` without their domain hypothesis) -/
theorem ems_force_solves_all (d Lp Lc St kT : ℝ) (hLp : 0 < Lp) (hLc : 0 < Lc) (hSt : 0 < St)
    (hkT : 0 < kT) : emsResidual (emsForce d Lp Lc St kT) d Lp Lc St kT = 0 :=
  ems_force_solves d Lp Lc St kT hLp hLc hSt hkT (ems_force_selected_root d Lp Lc St kT hLp hLc hSt hkT)

theorem ems_distance_solves_all (F Lp Lc St kT : ℝ) (hF : 0 < F) (hLp : 0 < Lp) (hLc : 0 < Lc)
    (hSt : 0 < St) (hkT : 0 < kT) : emsResidual F (emsDistance F Lp Lc St kT) Lp Lc St kT = 0 :=
  ems_distance_solves F Lp Lc St kT hLc hSt hkT (ems_distance_selected_root F Lp Lc St kT hF hLp hLc hSt hkT).2

/-- `force(distance(F)) = F` for every positive force, -/
theorem ems_force_of_distance (F Lp Lc St kT : ℝ) (hF : 0 < F) (hLp : 0 < Lp) (hLc : 0 < Lc)
    (hSt : 0 < St) (hkT : 0 < kT) :
    emsForce (emsDistance F Lp Lc St kT) Lp Lc St kT = F := by
  set D := emsDistance F Lp Lc St kT with hD
  have h1 := ems_distance_solves_all F Lp Lc St kT hF hLp hLc hSt hkT
  have y1 := (ems_distance_selected_root F Lp Lc St kT hF hLp hLc hSt hkT).2
  have h2 := ems_force_solves_all D Lp Lc St kT hLp hLc hSt hkT
  have y2 := ems_force_selected_root D Lp Lc St kT hLp hLc hSt hkT
  rw [← hD] at h1 y1
  rcases lt_trichotomy (emsForce D Lp Lc St kT) F with h | h | h
  · have := emsResidual_strictAnti_F _ F D Lp Lc St kT hLp hSt hkT h y2; linarith
  · exact h
  · have := emsResidual_strictAnti_F F _ D Lp Lc St kT hLp hSt hkT h y1; linarith

/-- and `distance(force(d)) = d` for every positive distance (also beyond the contour length). -/
theorem ems_distance_of_force (d Lp Lc St kT : ℝ) (hd : 0 < d) (hLp : 0 < Lp) (hLc : 0 < Lc)
    (hSt : 0 < St) (hkT : 0 < kT) :
    emsDistance (emsForce d Lp Lc St kT) Lp Lc St kT = d := by
  set F := emsForce d Lp Lc St kT with hFd
  have h1 := ems_force_solves_all d Lp Lc St kT hLp hLc hSt hkT
  have y1 := ems_force_selected_root d Lp Lc St kT hLp hLc hSt hkT
  rw [← hFd] at h1 y1
  have hF : 0 < F := ems_force_pos_of_solves F d Lp Lc St kT hLp hLc hSt hkT hd y1 h1
  have h2 := ems_distance_solves_all F Lp Lc St kT hF hLp hLc hSt hkT
  have y2 := (ems_distance_selected_root F Lp Lc St kT hF hLp hLc hSt hkT).2
  rcases lt_trichotomy (emsDistance F Lp Lc St kT) d with h | h | h
  · have := emsResidual_strictMono_d F _ d Lp Lc St kT hLc h y1; linarith
  · exact h
  · have := emsResidual_strictMono_d F d _ Lp Lc St kT hLc h y2; linarith

example : ∃ d Lp Lc St kT : ℝ, 0 < d ∧ 0 < Lp ∧ 0 < Lc ∧ 0 < St ∧ 0 < kT :=
  ⟨17, 40, 16, 1500, 4.11, by norm_num, by norm_num, by norm_num, by norm_num, by norm_num⟩

/-! ## the closed-form pairs characterised without reference to the branch; monotonicity -/

/-- Odijk's extension is strictly increasing in the force -/
theorem odijk_distance_strictMono (F1 F2 Lp Lc St kT : ℝ) (h1 : 0 < F1) (h12 : F1 < F2) (hLp : 0 < Lp)
    (hLc : 0 < Lc) (hSt : 0 < St) (hkT : 0 < kT) :
    odijkDistance F1 Lp Lc St kT < odijkDistance F2 Lp Lc St kT := by
  rw [odijkDistance_real, odijkDistance_real]
  have h2 : 0 < F2 := lt_trans h1 h12
  have hlt : kT / (F2 * Lp) < kT / (F1 * Lp) := by
    apply div_lt_div_of_pos_left hkT (by positivity)
    exact mul_lt_mul_of_pos_right h12 hLp
  have hs : √(kT / (F2 * Lp)) < √(kT / (F1 * Lp)) := Real.sqrt_lt_sqrt (by positivity) hlt
  have hd : F1 / St < F2 / St := div_lt_div_of_pos_right h12 hSt
  apply mul_lt_mul_of_pos_left _ hLc
  linarith

/-- Odijk: for positive forces, `F` is the force of `d` iff `d` is the extension of `F` — whatever side of
    `det = 0` the cubic of `d` lies on. -/
theorem odijk_pair_characterised (F d Lp Lc St kT : ℝ) (hF : 0 < F) (hLp : 0 < Lp) (hLc : 0 < Lc)
    (hSt : 0 < St) (hkT : 0 < kT) :
    d = odijkDistance F Lp Lc St kT ↔ F = odijkForce d Lp Lc St kT := by
  constructor
  · intro h; rw [h]; exact (odijk_force_of_distance F Lp Lc St kT hF hLp hLc hSt hkT).symm
  · intro h; rw [h]; exact (odijk_distance_of_force d Lp Lc St kT hLp hLc hSt hkT).symm

/-- Marko–Siggia: below the contour length, `F > 0` is the force at `d` iff `d` is what
    `wlc_marko_siggia_distance` returns for `F`. -/
theorem ms_pair_characterised (F d Lp Lc kT : ℝ) (hF : 0 < F) (hd : d < Lc) (hLp : 0 < Lp) (hLc : 0 < Lc)
    (hkT : 0 < kT) :
    F = msForce d Lp Lc kT ↔ d = msDistance F Lp Lc kT := by
  have hsel := ms_selected_root F Lp Lc kT hF hLp hLc hkT
  have hback := ms_force_of_distance F Lp Lc kT hF hLp hLc hkT
  constructor
  · intro h
    rcases lt_trichotomy d (msDistance F Lp Lc kT) with h' | h' | h'
    · have := msForce_strictMono d _ Lp Lc kT hLp hLc hkT h' hsel.2; linarith
    · exact h'
    · have := msForce_strictMono _ d Lp Lc kT hLp hLc hkT h' hd; linarith
  · intro h; rw [h]; exact hback.symm

/-- extensible Marko–Siggia: on the domain of the published relation, `(F, d)` satisfies it iff `d` is what
    `ewlc_marko_siggia_distance` returns for `F` (`F > 0`) … -/
theorem ems_distance_characterised (F d Lp Lc St kT : ℝ) (hF : 0 < F) (hLp : 0 < Lp) (hLc : 0 < Lc)
    (hSt : 0 < St) (hkT : 0 < kT) (hy : 0 < 1 - d / Lc + F / St) :
    emsResidual F d Lp Lc St kT = 0 ↔ d = emsDistance F Lp Lc St kT := by
  have h2 := ems_distance_solves_all F Lp Lc St kT hF hLp hLc hSt hkT
  have y2 := (ems_distance_selected_root F Lp Lc St kT hF hLp hLc hSt hkT).2
  constructor
  · intro h
    rcases lt_trichotomy d (emsDistance F Lp Lc St kT) with h' | h' | h'
    · have := emsResidual_strictMono_d F d _ Lp Lc St kT hLc h' y2; linarith
    · exact h'
    · have := emsResidual_strictMono_d F _ d Lp Lc St kT hLc h' hy; linarith
  · intro h; rw [h]; exact h2

/-- … and iff `F` is what `ewlc_marko_siggia_force` returns for `d` (every `d`). -/
theorem ems_force_characterised (F d Lp Lc St kT : ℝ) (hLp : 0 < Lp) (hLc : 0 < Lc)
    (hSt : 0 < St) (hkT : 0 < kT) (hy : 0 < 1 - d / Lc + F / St) :
    emsResidual F d Lp Lc St kT = 0 ↔ F = emsForce d Lp Lc St kT := by
  have h2 := ems_force_solves_all d Lp Lc St kT hLp hLc hSt hkT
  have y2 := ems_force_selected_root d Lp Lc St kT hLp hLc hSt hkT
  constructor
  · intro h
    rcases lt_trichotomy F (emsForce d Lp Lc St kT) with h' | h' | h'
    · have := emsResidual_strictAnti_F F _ d Lp Lc St kT hLp hSt hkT h' hy; linarith
    · exact h'
    · have := emsResidual_strictAnti_F _ F d Lp Lc St kT hLp hSt hkT h' y2; linarith
  · intro h; rw [h]; exact h2

example : ∃ F d Lp Lc St kT : ℝ, 0 < F ∧ 0 < Lp ∧ 0 < Lc ∧ 0 < St ∧ 0 < kT ∧ 0 < 1 - d / Lc + F / St ∧ d < Lc :=
  ⟨10, 15, 40, 16, 1500, 4.11, by norm_num, by norm_num, by norm_num, by norm_num, by norm_num, by norm_num,
    by norm_num⟩

/-- Every closed-form model is strictly increasing on its domain (so each is a legitimate problem for
    `Model.invert()`, and the pairs above are inverse BIJECTIONS): the four inverses. -/
theorem ms_force_strictMono (d1 d2 Lp Lc kT : ℝ) (hLp : 0 < Lp) (hLc : 0 < Lc) (hkT : 0 < kT)
    (h12 : d1 < d2) (h2 : d2 < Lc) : msForce d1 Lp Lc kT < msForce d2 Lp Lc kT :=
  msForce_strictMono d1 d2 Lp Lc kT hLp hLc hkT h12 h2

theorem ms_distance_strictMono (F1 F2 Lp Lc kT : ℝ) (h1 : 0 < F1) (h12 : F1 < F2) (hLp : 0 < Lp) (hLc : 0 < Lc)
    (hkT : 0 < kT) : msDistance F1 Lp Lc kT < msDistance F2 Lp Lc kT := by
  have h2 : 0 < F2 := lt_trans h1 h12
  have s1 := ms_selected_root F1 Lp Lc kT h1 hLp hLc hkT
  have s2 := ms_selected_root F2 Lp Lc kT h2 hLp hLc hkT
  have b1 := ms_force_of_distance F1 Lp Lc kT h1 hLp hLc hkT
  have b2 := ms_force_of_distance F2 Lp Lc kT h2 hLp hLc hkT
  by_contra hc
  rcases lt_or_eq_of_le (not_lt.mp hc) with h | h
  · have := msForce_strictMono _ _ Lp Lc kT hLp hLc hkT h s1.2; linarith
  · rw [h] at b2; linarith

theorem odijk_force_strictMono (d1 d2 Lp Lc St kT : ℝ) (h12 : d1 < d2) (hLp : 0 < Lp) (hLc : 0 < Lc)
    (hSt : 0 < St) (hkT : 0 < kT) : odijkForce d1 Lp Lc St kT < odijkForce d2 Lp Lc St kT := by
  have p1 := (odijk_selected_root d1 Lp Lc St kT hLp hSt hkT).1
  have p2 := (odijk_selected_root d2 Lp Lc St kT hLp hSt hkT).1
  have b1 := odijk_distance_of_force d1 Lp Lc St kT hLp hLc hSt hkT
  have b2 := odijk_distance_of_force d2 Lp Lc St kT hLp hLc hSt hkT
  by_contra hc
  rcases lt_or_eq_of_le (not_lt.mp hc) with h | h
  · have := odijk_distance_strictMono _ _ Lp Lc St kT p2 h hLp hLc hSt hkT; linarith
  · rw [h] at b2; linarith

theorem ems_distance_strictMono (F1 F2 Lp Lc St kT : ℝ) (h1 : 0 < F1) (h12 : F1 < F2) (hLp : 0 < Lp)
    (hLc : 0 < Lc) (hSt : 0 < St) (hkT : 0 < kT) :
    emsDistance F1 Lp Lc St kT < emsDistance F2 Lp Lc St kT := by
  rw [ems_distance_is_shifted_ms F1 Lp Lc St kT hSt.ne' hkT.ne',
    ems_distance_is_shifted_ms F2 Lp Lc St kT hSt.ne' hkT.ne']
  have := ms_distance_strictMono F1 F2 Lp Lc kT h1 h12 hLp hLc hkT
  have : Lc * F1 / St < Lc * F2 / St :=
    div_lt_div_of_pos_right (mul_lt_mul_of_pos_left h12 hLc) hSt
  linarith

theorem ems_force_strictMono (d1 d2 Lp Lc St kT : ℝ) (h12 : d1 < d2) (hLp : 0 < Lp) (hLc : 0 < Lc)
    (hSt : 0 < St) (hkT : 0 < kT) : emsForce d1 Lp Lc St kT < emsForce d2 Lp Lc St kT := by
  have r1 := ems_force_solves_all d1 Lp Lc St kT hLp hLc hSt hkT
  have r2 := ems_force_solves_all d2 Lp Lc St kT hLp hLc hSt hkT
  have y2 := ems_force_selected_root d2 Lp Lc St kT hLp hLc hSt hkT
  by_contra hc
  have hle : emsForce d2 Lp Lc St kT ≤ emsForce d1 Lp Lc St kT := not_lt.mp hc
  have y12 : 0 < 1 - d2 / Lc + emsForce d1 Lp Lc St kT / St := by
    have : emsForce d2 Lp Lc St kT / St ≤ emsForce d1 Lp Lc St kT / St := div_le_div_of_nonneg_right hle hSt.le
    linarith
  have a := emsResidual_strictMono_d (emsForce d1 Lp Lc St kT) d1 d2 Lp Lc St kT hLc h12 y12
  rcases lt_or_eq_of_le hle with h | h
  · have b := emsResidual_strictAnti_F _ _ d2 Lp Lc St kT hLp hSt hkT h y2
    linarith
  · rw [h] at r2; linarith

/-! ## eFJC and tWLC evaluate their published closed forms (the guards and masks are harmless) -/

/-- tWLC: the three-way mask of the code (`g[f < Fc] = g0 + g1·Fc`, `g[f ≥ Fc] = g0 + g1·f`, zeros otherwise) is
    the published twist–stretch coupling `g(F) = g0 + g1·max(F, Fc)` — continuous at the critical force, and the
    "zeros otherwise" entry is never left in place for a real force. -/
theorem twlc_g_published (f g0 g1 Fc : ℝ) : twlcG f g0 g1 Fc = g0 + g1 * max f Fc :=
  twlcG_real f g0 g1 Fc

/-- `twlc_distance` evaluates `Lc·(1 - ½√(kT/(F·Lp)) + C·F/(-g(F)² + St·C))`, Gross et al. (2011), for every input -/
theorem twlc_distance_published (f Lp Lc St C g0 g1 Fc kT : ℝ) :
    twlcDistance f Lp Lc St C g0 g1 Fc kT =
      Lc * (1 - 1 / 2 * √(kT / (f * Lp)) + C / (-(g0 + g1 * max f Fc) ^ 2 + St * C) * f) :=
  twlcDistance_real f Lp Lc St C g0 g1 Fc kT

/-- eFJC: the "crude overflow protection" of `coth` (`1.0` for `|x| ≥ 500`) moves the value by less than
    `2/(e¹⁰⁰⁰ - 1)` (< 1e-434) for every positive argument; below 500 it is `cosh x / sinh x` itself. -/
theorem coth_guard_error (x : ℝ) (hx : 0 < x) :
    |coth x - Real.cosh x / Real.sinh x| ≤ 2 / (Real.exp 1000 - 1) :=
  coth_guard_error_aux x hx

example : ∃ x : ℝ, 0 < x ∧ ¬ |x| < 500 := ⟨600, by norm_num, by norm_num⟩

/-- `efjc_distance` evaluates the published `Lc·(coth(2F·Lp/kT) - kT/(2F·Lp))·(1 + F/St)`, Smith et al. (1996), for
    every positive force and positive parameters, up to that guard error times `Lc·(1 + F/St)`. -/
theorem efjc_distance_published (F Lp Lc St kT : ℝ) (hF : 0 < F) (hLp : 0 < Lp) (hLc : 0 < Lc) (hSt : 0 < St)
    (hkT : 0 < kT) :
    |efjcDistance F Lp Lc St kT
        - Lc * (Real.cosh (2 * F * Lp / kT) / Real.sinh (2 * F * Lp / kT) - kT / (2 * F * Lp)) * (1 + F / St)|
      ≤ Lc * (1 + F / St) * (2 / (Real.exp 1000 - 1)) := by
  have hx : 0 < 2 * F * Lp / kT := by positivity
  have hg := coth_guard_error (2 * F * Lp / kT) hx
  have hform : efjcDistance F Lp Lc St kT = Lc * (coth (2 * F * Lp / kT) - kT / (2 * F * Lp)) * (1 + F / St) := by
    simp only [efjcDistance]
    have e1 : (1.0 : ℝ) = 1 := by norm_num
    have e2 : (2.0 : ℝ) = 2 := by norm_num
    rw [e1, e2]
  rw [hform]
  have hfac : 0 < Lc * (1 + F / St) := by positivity
  have : Lc * (coth (2 * F * Lp / kT) - kT / (2 * F * Lp)) * (1 + F / St)
        - Lc * (Real.cosh (2 * F * Lp / kT) / Real.sinh (2 * F * Lp / kT) - kT / (2 * F * Lp)) * (1 + F / St)
      = Lc * (1 + F / St) * (coth (2 * F * Lp / kT) - Real.cosh (2 * F * Lp / kT) / Real.sinh (2 * F * Lp / kT)) := by
    ring
  rw [this, abs_mul, abs_of_pos hfac]
  exact mul_le_mul_of_nonneg_left hg hfac.le

example : ∃ F Lp Lc St kT : ℝ, 0 < F ∧ 0 < Lp ∧ 0 < Lc ∧ 0 < St ∧ 0 < kT :=
  ⟨10, 0.7, 16, 750, 4.11, by norm_num, by norm_num, by norm_num, by norm_num, by norm_num⟩

/-- The Langevin function `coth x - 1/x` is strictly increasing on `x > 0` (derivative `1/x² - 1/sinh² x > 0`
    because `sinh x > x`), so `efjc_distance` — below its overflow guard, `2·F·Lp/kT < 500` — is strictly
    increasing in the force: there the model IS a monotone problem for `efjc_force = invert(efjc_distance)`.
    (At the guard itself the code's value steps DOWN by `2/(e¹⁰⁰⁰-1)·Lc·(1+F/St)`, see `coth_guard_error`.) -/
theorem efjc_distance_strictMono_below_guard (F1 F2 Lp Lc St kT : ℝ) (h1 : 0 < F1) (h12 : F1 < F2) (hLp : 0 < Lp)
    (hLc : 0 < Lc) (hSt : 0 < St) (hkT : 0 < kT) (hg : 2 * F2 * Lp / kT < 500) :
    efjcDistance F1 Lp Lc St kT < efjcDistance F2 Lp Lc St kT :=
  efjc_distance_strictMono_aux F1 F2 Lp Lc St kT h1 h12 hLp hLc hSt hkT hg

example : ∃ F1 F2 Lp Lc St kT : ℝ, 0 < F1 ∧ F1 < F2 ∧ 0 < Lp ∧ 0 < Lc ∧ 0 < St ∧ 0 < kT ∧ 2 * F2 * Lp / kT < 500 :=
  ⟨1, 100, 0.7, 16, 750, 4.11, by norm_num, by norm_num, by norm_num, by norm_num, by norm_num, by norm_num,
    by norm_num⟩

/-- `twlc_distance` below the critical force, inside the validity region `(g0 + g1·Fc)² < St·C`, is strictly
    increasing in the force (above `Fc` monotonicity depends on the twist parameters and is NOT proved). -/
theorem twlc_distance_strictMono_below_Fc (F1 F2 Lp Lc St C g0 g1 Fc kT : ℝ) (h1 : 0 < F1) (h12 : F1 < F2)
    (h2 : F2 ≤ Fc) (hLp : 0 < Lp) (hLc : 0 < Lc) (hkT : 0 < kT) (hC : 0 < C)
    (hval : (g0 + g1 * Fc) ^ 2 < St * C) :
    twlcDistance F1 Lp Lc St C g0 g1 Fc kT < twlcDistance F2 Lp Lc St C g0 g1 Fc kT :=
  twlc_distance_strictMono_below_Fc_aux F1 F2 Lp Lc St C g0 g1 Fc kT h1 h12 h2 hLp hLc hkT hC hval

-- the published DNA values meet the hypotheses
example : ((-637 : ℝ) + 17 * 30.6) ^ 2 < 1500 * 440 := by norm_num

/-- Note (outside the property's range, forces are positive there): the second guard of the code, `abs(x) < -500`,
    never holds, so for arguments `≤ -500` the code's `coth` is `+1` although the function tends to `-1`. -/
theorem coth_negative_guard_dead : coth (-600 : ℝ) = 1 := by
  rw [coth_real]; norm_num

/-- `twlc_force` (and, through `inverse_round_trip`, `efjc_force`): the model hands the solver exactly
    `twlc_distance` with its own eight parameters and the limits `(0, f_max)`, so a solver that answers within `tol`
    on such problems makes `twlc_distance(twlc_force(d))` lie within `tol` of `d`. -/
theorem twlc_force_round_trip (S : Solver ℝ) (tol : ℝ) (P : (ℝ → ℝ) → ℝ → ℝ → ℝ → Prop)
    (hS : ∀ (i : Bool) (f : ℝ → ℝ) (lo hi y : ℝ), P f lo hi y → |f (S i f lo hi y) - y| ≤ tol)
    (d Lp Lc St C g0 g1 Fc kT : ℝ)
    (hP : P (fun f => twlcDistance f Lp Lc St C g0 g1 Fc kT) 0 (twlcFmax St C g0 g1) d) :
    |twlcDistance (Kind.val S .twlcF d [Lp, Lc, St, C, g0, g1, Fc, kT]) Lp Lc St C g0 g1 Fc kT - d| ≤ tol := by
  have := hS true (fun f => twlcDistance f Lp Lc St C g0 g1 Fc kT) 0 (twlcFmax St C g0 g1) d hP
  simp only [Kind.val]
  have e0 : (0.0 : ℝ) = 0 := by norm_num
  rw [e0]
  exact this

example : ∃ (S : Solver ℝ) (tol : ℝ) (P : (ℝ → ℝ) → ℝ → ℝ → ℝ → Prop),
    (∀ (i : Bool) (f : ℝ → ℝ) (lo hi y : ℝ), P f lo hi y → |f (S i f lo hi y) - y| ≤ tol) ∧
    P (fun f => twlcDistance f 40 16 1500 440 (-637) 17 30.6 4.11) 0 (twlcFmax 1500 440 (-637) 17)
      (twlcDistance 10 40 16 1500 440 (-637) 17 30.6 4.11) :=
  ⟨fun _ _ _ _ _ => 10, 0, fun f _ _ y => f 10 = y, by
    intro i f lo hi y h; simp [h], rfl⟩

/-! ## model algebra: composites, offsets, inverses, DNA parametrisations -/

section algebra
variable {α : Type} [RealLike α] [Ops α]

/-- `CompositeModel`: called with the vector of its (ordered, de-duplicated) parameters taken from a
    dictionary, the composite evaluates to the SUM of its parts, each evaluated with ITS OWN
    parameters from the same dictionary — the `lhs_params/rhs_params` index routing never mixes
    parameters up, also when the two sides share names (`kT`). Holds for every number type. -/
theorem composite_is_sum (S : Solver α) (env : String → α) (l r : M α) (x : α) :
    (M.add l r).val S x ((M.add l r).params.map env)
      = l.val S x (l.params.map env) + r.val S x (r.params.map env) := by
  rw [val_eq_spec, val_eq_spec, val_eq_spec]; rfl

/-- `SubtractIndependentOffset`: the model is its parent evaluated at `x - offset` with the parent's
    own parameters. -/
theorem offset_shifts_independent (S : Solver α) (env : String → α) (m : M α) (x : α) :
    (M.off m).val S x ((M.off m).params.map env)
      = m.val S (x - env m.offsetName) (m.params.map env) := by
  rw [val_eq_spec, val_eq_spec]; rfl

/-- routing in general: for every expression the code's evaluation equals the by-name reading -/
theorem routing_by_name (S : Solver α) (env : String → α) (m : M α) (x : α) :
    m.val S x (m.params.map env) = m.spec S env x := val_eq_spec S env m x

/-- the same routing law for the VALIDATION of the parameters (`ValueError` for a non-positive `Lp`, `Lc`, `St`, `kT`;
    empty inversion limits): a composite / offset / inverted model raises iff one of its parts does on ITS OWN
    parameters (looked up by name), the left part first. -/
theorem validation_by_name (env : String → α) (m : M α) :
    m.check (m.params.map env) = m.checkSpec env := check_eq_spec env m

end algebra

/-- `InverseModel`: whatever solver is plugged in, IF it answers within `tol` on the class `P` of
    problems it is specified for (the one assumption standing in for SciPy; e.g. `P f lo hi y` =
    "`f` is continuous and increasing on `[lo, hi]` and takes the value `y` there"), and the
    parent's function — evaluated with the parent's own parameters — is such a problem, then
    `model(inverse(y))` is within `tol` of `y`: the inverse node hands the solver exactly the
    parent's function and the same parameter dictionary. Every expression, both solver flavours. -/
theorem inverse_round_trip (S : Solver ℝ) (tol : ℝ) (P : (ℝ → ℝ) → ℝ → ℝ → ℝ → Prop)
    (hS : ∀ (i : Bool) (f : ℝ → ℝ) (lo hi y : ℝ), P f lo hi y → |f (S i f lo hi y) - y| ≤ tol)
    (env : String → ℝ) (m : M ℝ) (lo hi : ℝ) (i : Bool) (y : ℝ)
    (hP : P (fun x => m.val S x (m.params.map env)) lo hi y) :
    |m.val S ((M.inv m lo hi i).val S y ((M.inv m lo hi i).params.map env)) (m.params.map env) - y| ≤ tol := by
  have hfun : (fun x => m.val S x (m.params.map env)) = fun x => m.spec S env x := by
    funext x; exact val_eq_spec S env m x
  rw [hfun] at hP
  rw [val_eq_spec, val_eq_spec]
  exact hS i (fun f => m.spec S env f) lo hi y hP

-- the assumption is satisfiable: a solver that is exact on the problems `f = id`
example : ∃ (S : Solver ℝ) (tol : ℝ) (P : (ℝ → ℝ) → ℝ → ℝ → ℝ → Prop),
    (∀ (i : Bool) (f : ℝ → ℝ) (lo hi y : ℝ), P f lo hi y → |f (S i f lo hi y) - y| ≤ tol) ∧
    P (fun x => x) 0 1 0.5 :=
  ⟨fun _ _ _ _ y => y, 0, fun f _ _ _ => f = fun x => x, by
    intro i f lo hi y hf; subst hf; simp, rfl⟩

/-- `InverseModel`, the other direction: `inverse(model(x))` is within `tol / s` of `x` when the solver answers
    within `tol` (in the dependent variable) INSIDE its bounds and the parent's function — evaluated with the
    parent's own parameters — rises at least with slope `s > 0` from `x` on `[lo, hi]`. Every expression,
    both solver flavours. -/
theorem inverse_of_model (S : Solver ℝ) (tol s : ℝ) (P : (ℝ → ℝ) → ℝ → ℝ → ℝ → Prop)
    (hS : ∀ (i : Bool) (f : ℝ → ℝ) (lo hi y : ℝ), P f lo hi y →
      |f (S i f lo hi y) - y| ≤ tol ∧ lo ≤ S i f lo hi y ∧ S i f lo hi y ≤ hi)
    (env : String → ℝ) (m : M ℝ) (lo hi : ℝ) (i : Bool) (x : ℝ) (hs : 0 < s)
    (hslope : ∀ a, lo ≤ a → a ≤ hi →
      s * |a - x| ≤ |m.val S a (m.params.map env) - m.val S x (m.params.map env)|)
    (hP : P (fun a => m.val S a (m.params.map env)) lo hi (m.val S x (m.params.map env))) :
    |(M.inv m lo hi i).val S (m.val S x (m.params.map env)) ((M.inv m lo hi i).params.map env) - x|
      ≤ tol / s := by
  have hfun : (fun a => m.val S a (m.params.map env)) = fun a => m.spec S env a := by
    funext a; exact val_eq_spec S env m a
  have hval : ∀ a, m.val S a (m.params.map env) = m.spec S env a := fun a => val_eq_spec S env m a
  rw [hfun] at hP
  simp only [hval] at hslope hP ⊢
  rw [val_eq_spec]
  show |S i (fun f => m.spec S env f) lo hi (m.spec S env x) - x| ≤ tol / s
  obtain ⟨h1, h2, h3⟩ := hS i (fun f => m.spec S env f) lo hi (m.spec S env x) hP
  have := hslope _ h2 h3
  rw [le_div_iff₀ hs]
  calc |S i (fun f => m.spec S env f) lo hi (m.spec S env x) - x| * s
      = s * |S i (fun f => m.spec S env f) lo hi (m.spec S env x) - x| := by ring
    _ ≤ _ := this
    _ ≤ tol := h1

/-- Odijk's extension rises at least with slope `Lc/St` on positive forces: the slope hypothesis of
    `inverse_of_model` holds for `invert(ewlc_odijk_distance)` on every `[lo, hi]` with `0 < lo`. -/
theorem odijk_distance_slope (a x Lp Lc St kT : ℝ) (ha : 0 < a) (hx : 0 < x) (hLp : 0 < Lp) (hLc : 0 < Lc)
    (hSt : 0 < St) (hkT : 0 < kT) :
    Lc / St * |a - x| ≤ |odijkDistance a Lp Lc St kT - odijkDistance x Lp Lc St kT| := by
  have key : ∀ u v : ℝ, 0 < u → u ≤ v →
      Lc / St * (v - u) ≤ odijkDistance v Lp Lc St kT - odijkDistance u Lp Lc St kT := by
    intro u v hu huv
    rw [odijkDistance_real, odijkDistance_real]
    have hv : 0 < v := lt_of_lt_of_le hu huv
    have hle : kT / (v * Lp) ≤ kT / (u * Lp) := by
      apply div_le_div_of_nonneg_left hkT.le (by positivity)
      exact mul_le_mul_of_nonneg_right huv hLp.le
    have hs : √(kT / (v * Lp)) ≤ √(kT / (u * Lp)) := Real.sqrt_le_sqrt hle
    have e : Lc / St * (v - u) = Lc * (v / St - u / St) := by field_simp
    rw [e]
    nlinarith
  rcases le_total a x with h | h
  · have := key a x ha h
    rw [abs_of_nonpos (by linarith), abs_of_nonpos (by nlinarith [div_pos hLc hSt])]
    linarith
  · have := key x a hx h
    rw [abs_of_nonneg (by linarith), abs_of_nonneg (by nlinarith [div_pos hLc hSt])]
    linarith


-- non-vacuity of `inverse_of_model`: `invert(ewlc_odijk_distance)` on `[1, 100]` (all parameters 1), a solver that
-- knows the answer 10; the slope hypothesis is `odijk_distance_slope`
example : ∃ (S : Solver ℝ) (tol s : ℝ) (P : (ℝ → ℝ) → ℝ → ℝ → ℝ → Prop) (env : String → ℝ) (m : M ℝ)
    (lo hi x : ℝ),
    (∀ (i : Bool) (f : ℝ → ℝ) (lo hi y : ℝ), P f lo hi y →
      |f (S i f lo hi y) - y| ≤ tol ∧ lo ≤ S i f lo hi y ∧ S i f lo hi y ≤ hi) ∧ 0 < s ∧
    (∀ a, lo ≤ a → a ≤ hi →
      s * |a - x| ≤ |m.val S a (m.params.map env) - m.val S x (m.params.map env)|) ∧
    P (fun a => m.val S a (m.params.map env)) lo hi (m.val S x (m.params.map env)) := by
  refine ⟨fun _ _ _ _ _ => 10, 0, 1 / 1, fun f lo hi y => y = f 10 ∧ lo ≤ 10 ∧ 10 ≤ hi, fun _ => 1,
    M.base .odijkD "m", 1, 100, 10, ?_, by norm_num, ?_, ⟨rfl, by norm_num, by norm_num⟩⟩
  · intro i f lo hi y ⟨hy, h1, h2⟩
    refine ⟨by rw [hy]; simp, h1, h2⟩
  · intro a ha _
    have hv : ∀ t : ℝ, (M.base Kind.odijkD "m").val (fun _ _ _ _ _ => (10 : ℝ)) t
        ((M.base Kind.odijkD "m" : M ℝ).params.map fun _ => (1 : ℝ)) = odijkDistance t 1 1 1 1 := fun t => rfl
    rw [hv, hv]
    exact odijk_distance_slope a 10 1 1 1 1 (by linarith) (by norm_num) one_pos one_pos one_pos one_pos

/-- DNA convenience parametrisations: contour length `kbp · µm/kbp`; `kT` in pN·nm is `10²¹·k_B·T`
    (1 pN·nm = 10⁻²¹ J, `T` in kelvin); at the default temperature 24.53608821 °C this is the
    library default 4.11 pN·nm. -/
theorem dna_parametrisation (kbp um T : ℝ) :
    dnaLc kbp um = kbp * um ∧
    dnaKT T = 10 ^ 21 * ((1.380649 * 10⁻¹ ^ 23) * (T + 273.15)) ∧
    |dnaKT (24.53608821 : ℝ) - 4.11| < 10⁻¹ ^ 10 := by
  refine ⟨rfl, ?_, ?_⟩
  · simp only [dnaKT, kB]; norm_num; ring
  · simp only [dnaKT, kB]; norm_num [abs_lt]


/-! ## finding F9: the inversion's initial guess is the constant 1.0 -/

/-- Witness for finding F19 (the pinned code, kept as `guessOutside`): SciPy was started from the
    hard-coded guess `1.0`, so inversion limits `[0, 0.45]` — the physical range of a 0.5 µm tether, on
    which the Marko–Siggia force model is increasing — were refused with `ValueError`. -/
theorem F9_witness : guessOutside (0 : ℝ) 0.45 = some Err.value := by
  simp only [guessOutside, RealLike.le, RealLike.lt]
  norm_num

/-- …whereas the repaired call (initial guess clipped into the limits) accepts them. -/
example :
    (M.inv (M.base Kind.msF "m") (0 : ℝ) 0.45 false).check [(40 : ℝ), 0.5, 4.11] = none := by
  simp only [M.check, Kind.check, anyLe0, limitsEmpty, RealLike.le, RealLike.lt, List.any_cons,
    List.any_nil]
  norm_num

/-- Empty limits are still refused. -/
example :
    (M.inv (M.base Kind.msF "m") (2 : ℝ) 1 false).check [(40 : ℝ), 0.5, 4.11] = some Err.value := by
  simp only [M.check, Kind.check, anyLe0, limitsEmpty, RealLike.le, RealLike.lt, List.any_cons,
    List.any_nil]
  norm_num

end Verif.C12
