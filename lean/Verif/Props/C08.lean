/-
  C08 — property theorems (statements + short proofs; helper lemmas live in Lemmas/C08).
  Every theorem is about the executable model in `Verif.Model.C08`, which the correspondence check
  ties to `lumicks/pylake/kymotracker/*` on every run.

  The structural theorems hold for EVERY score function, every `argmax` comparison, every ordering of
  the starting points and every integer `window` (also ≤ 0): they are consequences of the
  `unassigned`-flag bookkeeping and of the frame walk of `extend_line` alone.
-/
import Verif.Lemmas.C08
import Verif.NumReal

namespace Verif.C08
open Verif.Py

variable {P α κ : Type}

/-! ## The greedy linker, for every score function -/

/-- **Every detected peak ends in exactly one track, exactly once**: the concatenation of all tracks
    has no repetition and contains precisely the (frame, index) pairs that address a peak. -/
theorem link_partition (pr : Params P α κ) (peaks : List (List P)) :
    (link pr peaks).flatten.Nodup ∧
    ∀ n : Node, n ∈ (link pr peaks).flatten ↔ (peakAt peaks n).isSome :=
  ⟨(link_spec pr peaks).1, (link_spec pr peaks).2.1⟩

/-- the same, track by track: no track repeats a peak and two different tracks share none -/
theorem link_tracks_disjoint (pr : Params P α κ) (peaks : List (List P)) :
    (∀ t ∈ link pr peaks, t.Nodup) ∧ (link pr peaks).Pairwise List.Disjoint :=
  List.nodup_flatten.1 (link_partition pr peaks).1

/-- the number of track points equals the number of detected peaks -/
theorem link_count (pr : Params P α κ) (peaks : List (List P)) (n : Node) (h : (peakAt peaks n).isSome) :
    (link pr peaks).flatten.count n = 1 :=
  List.count_eq_one_of_mem (link_partition pr peaks).1 (((link_partition pr peaks).2 n).2 h)

/-- no track is empty -/
theorem track_nonempty (pr : Params P α κ) (peaks : List (List P)) :
    ∀ t ∈ link pr peaks, t ≠ [] :=
  fun t ht => ((link_spec pr peaks).2.2 t ht).1

/-- **Strictly increasing scan-line indices** (hence at most one point per line). -/
theorem track_strictly_increasing (pr : Params P α κ) (peaks : List (List P)) :
    ∀ t ∈ link pr peaks, (t.map (·.1)).Pairwise (· < ·) := by
  intro t ht
  have h := ((link_spec pr peaks).2.2 t ht).2
  rw [chainR_iff, List.reverse_reverse] at h
  exact chainF_pairwise _ (fun a b hab => hab.1) t h

/-- every track point lies inside the kymograph: its line index addresses an existing frame -/
theorem track_inside (pr : Params P α κ) (peaks : List (List P)) :
    ∀ t ∈ link pr peaks, ∀ n ∈ t, n.1 < peaks.length ∧ n.2 < (peaks.getD n.1 []).length := by
  intro t ht n hn
  have h := ((link_partition pr peaks).2 n).1 (List.mem_flatten.2 ⟨t, ht, hn⟩)
  unfold peakAt at h
  simp only [Option.isSome_iff_exists, List.getElem?_eq_some_iff] at h
  obtain ⟨_, h, _⟩ := h
  refine ⟨?_, h⟩
  simp only [List.getD_eq_getElem?_getD] at h
  cases hf : peaks[n.1]? with
  | none => rw [hf] at h; simp at h
  | some fr => exact (List.getElem?_eq_some_iff.1 hf).1

/-- **No gap longer than the window**: two consecutive points of a track are at most
    `max window 1` lines apart (the code's `frames_without_peak >= window` test lets a track advance
    by one line even for `window ≤ 0`). -/
theorem gap_le_window (pr : Params P α κ) (peaks : List (List P)) :
    ∀ t ∈ link pr peaks, ∀ ab ∈ t.zip t.tail, ((ab.2.1 : Int) - (ab.1.1 : Int)) ≤ max pr.window 1 := by
  intro t ht ab hab
  exact (((good_iff pr peaks t).1 ((link_spec pr peaks).2.2 t ht)).2 ab hab).2.1

/-- for the admissible windows (`window ≥ 1`) the bound is the window itself -/
theorem gap_le_window' (pr : Params P α κ) (peaks : List (List P)) (hw : 1 ≤ pr.window) :
    ∀ t ∈ link pr peaks, ∀ ab ∈ t.zip t.tail, ((ab.2.1 : Int) - (ab.1.1 : Int)) ≤ pr.window := by
  intro t ht ab hab
  have := gap_le_window pr peaks t ht ab hab
  omega

/-- **A link is made only if the score is finite**: for two consecutive points of a track the score
    function, evaluated with the earlier point as the tip, accepted the later one. -/
theorem linked_implies_accepted (pr : Params P α κ) (peaks : List (List P)) :
    ∀ t ∈ link pr peaks, ∀ ab ∈ t.zip t.tail,
      ∃ p q s, peakAt peaks ab.1 = some p ∧ peakAt peaks ab.2 = some q ∧
        pr.score ab.1.1 p ab.2.1 q = some s := by
  intro t ht ab hab
  exact (((good_iff pr peaks t).1 ((link_spec pr peaks).2.2 t ht)).2 ab hab).2.2

-- the window: a peak that disappears for one line is re-linked with `window = 2`, not with `window = 1`
example : link (⟨fun _ x _ y => if x = y then some 0 else none, fun a b => decide (a > b), fun p _ => p,
      fun a b => decide (a ≤ b), 2⟩ : Params Nat Nat Nat) [[5], [], [5]] = [[(0, 0), (2, 0)]] := by
  decide +kernel
example : link (⟨fun _ x _ y => if x = y then some 0 else none, fun a b => decide (a > b), fun p _ => p,
      fun a b => decide (a ≤ b), 1⟩ : Params Nat Nat Nat) [[5], [], [5]] = [[(0, 0)], [(2, 0)]] := by
  decide +kernel
-- why the bound is `max window 1`: with `window = 0` the code still links to the very next line (once)
example : link (⟨fun _ x _ y => if x = y then some 0 else none, fun a b => decide (a > b), fun p _ => p,
      fun a b => decide (a ≤ b), 0⟩ : Params Nat Nat Nat) [[5], [5], [5]] = [[(0, 0), (1, 0)], [(2, 0)]] := by
  decide +kernel

-- non-vacuity of the three statements above: a two-frame input on which a link is made
example :
    link (⟨fun _ x _ y => if x = y then some 0 else none, fun a b => decide (a > b), fun p _ => p,
      fun a b => decide (a ≤ b), 1⟩ : Params Nat Nat Nat) [[5, 7], [7]] = [[(0, 0)], [(0, 1), (1, 0)]] := by
  decide +kernel

/-- **The greedy choice**: the point that is appended has a score that no other free candidate of
    that line beats (`np.argmax`; for any comparison that is asymmetric and negatively transitive,
    e.g. `>` on the finite doubles). -/
theorem link_best (pr : Params P α κ)
    (asymm : ∀ a b, pr.gt a b = true → pr.gt b a = false)
    (ntrans : ∀ a b c, pr.gt a b = false → pr.gt b c = false → pr.gt a c = false)
    (tipF : Nat) (tip : P) (fi : Nat) (frP : List P) (frU : List Bool) (j : Nat) (p : P) (s : α)
    (h : appendNext pr tipF tip fi frP frU = some (j, p, s)) :
    ∀ j' p', frP[j']? = some p' → frU.getD j' false = true →
      ∀ s', pr.score tipF tip fi p' = some s' → pr.gt s' s = false := by
  intro j' p' hp hu s' hs
  unfold appendNext at h
  have := (argmaxFirst_best pr.gt asymm ntrans _ none j p s h).2
    (j', p', pr.score tipF tip fi p') (by
      simp only [List.mem_map, Prod.mk.injEq, Prod.exists]
      exact ⟨j', p', (mem_candidates frP frU j' p').2 ⟨hp, hu⟩, rfl, rfl, rfl⟩) s' hs
  exact this

/-- a line is not extended on a frame only if **no** free peak of that frame is accepted -/
theorem link_stops_without_candidate (pr : Params P α κ) (tipF : Nat) (tip : P) (fi : Nat) (frP : List P)
    (frU : List Bool) (h : appendNext pr tipF tip fi frP frU = none) :
    ∀ j' p', frP[j']? = some p' → frU.getD j' false = true → pr.score tipF tip fi p' = none := by
  intro j' p' hp hu
  unfold appendNext at h
  exact (argmaxFirst_none pr.gt _ none h).2 (j', p', pr.score tipF tip fi p') (by
    simp only [List.mem_map, Prod.mk.injEq, Prod.exists]
    exact ⟨j', p', (mem_candidates frP frU j' p').2 ⟨hp, hu⟩, rfl, rfl, rfl⟩)

-- the hypotheses are those of a strict weak order; `>` on ℕ (and on the finite doubles) is one
example : (∀ a b : Nat, decide (a > b) = true → decide (b > a) = false) ∧
    (∀ a b c : Nat, decide (a > b) = false → decide (b > c) = false → decide (a > c) = false) := by
  refine ⟨?_, ?_⟩ <;> intros <;> simp_all <;> omega

example : appendNext (⟨fun _ x _ y => if y < x + 3 then some (10 - (y - x)) else none, fun a b => decide (a > b),
    fun p _ => p, fun a b => decide (a ≤ b), 1⟩ : Params Nat Nat Nat) 0 5 1 [9, 7, 6, 6, 6] [true, true, false, true, true]
    = some (3, 6, 9) := by decide

/-- **Start order**: the tracks are returned in the order of their first line, and the tracks that
    start on the same line in the order of `-amplitude` (brightest first) — for every key order that
    is transitive and total. -/
theorem start_order (pr : Params P α κ) (peaks : List (List P))
    (trans : ∀ a b c, pr.kle a b = true → pr.kle b c = true → pr.kle a c = true)
    (total : ∀ a b, pr.kle a b = true ∨ pr.kle b a = true) :
    (link pr peaks).Pairwise (fun t1 t2 => ∃ a b, t1.head? = some a ∧ t2.head? = some b ∧
      (a.1 < b.1 ∨ (a.1 = b.1 ∧ ∃ p q, peakAt peaks a = some p ∧ peakAt peaks b = some q ∧
        pr.kle (pr.key p true) (pr.key q true) = true))) := by
  unfold link
  rw [List.pairwise_reverse]
  exact linkFrom_order pr peaks trans total _ _ [] 0 peaks.length List.range_eq_range'
    List.Pairwise.nil (by simp)

example : (∀ a b c : Int, decide (a ≤ b) = true → decide (b ≤ c) = true → decide (a ≤ c) = true) ∧
    (∀ a b : Int, decide (a ≤ b) = true ∨ decide (b ≤ a) = true) := by
  refine ⟨?_, ?_⟩ <;> intros <;> simp_all <;> omega

-- three peaks on one line, amplitudes 3, 9, 5 (keys are the negated amplitudes): brightest first
example : link (⟨fun _ _ _ _ => (none : Option Nat), fun a b => decide (a > b), fun p _ => -p,
    fun a b => decide (a ≤ b), 1⟩ : Params Int Nat Int) [[3, 9, 5]] = [[(0, 1)], [(0, 2)], [(0, 0)]] := by
  decide +kernel

/-! ## The cone -/

/-- the executed accept test of `build_score_matrix`, for every number type -/
theorem accepted_in_cone {β : Type} [RealLike β] (vel sigma sd cutoff x dt c s : β)
    (h : coneScore vel sigma sd cutoff x dt c = some s) :
    RealLike.lt (x + vel * dt - cutoff * (sigma + sd * RealLike.sqrt dt)) c = true ∧
    RealLike.lt c (x + vel * dt + cutoff * (sigma + sd * RealLike.sqrt dt)) = true := by
  unfold coneScore at h
  simp only at h
  split at h
  · rename_i hc
    simpa [Bool.and_eq_true] using hc
  · cases h

/-- **ext `cone_real`**: at `ℝ` a candidate is accepted iff it lies strictly within
    `sigma_cutoff · (sigma + sqrt(2 D) · sqrt(Δt))` of the position predicted with the velocity. -/
theorem cone_real (vel sigma D cutoff x dt c : ℝ) :
    (coneScore vel sigma (sigmaDiffusion D) cutoff x dt c).isSome ↔
      |c - (x + vel * dt)| < cutoff * (sigma + Real.sqrt (2 * D) * Real.sqrt dt) := by
  unfold coneScore sigmaDiffusion
  simp only [RealLike.lt, RealLike.sqrt]
  have h2 : (2.0 : ℝ) = 2 := by norm_num
  rw [h2, abs_lt]
  split
  · rename_i h
    simp only [Bool.and_eq_true, decide_eq_true_eq] at h
    simp only [Option.isSome_some, true_iff]
    constructor <;> linarith [h.1, h.2]
  · rename_i h
    simp only [Bool.and_eq_true, decide_eq_true_eq, not_and] at h
    simp only [Option.isSome_none, Bool.false_eq_true, false_iff, not_and]
    intro h1 h2
    exact h (by linarith) (by linarith)

/-- the documented form `sigma + sqrt(2 D Δt)` -/
theorem cone_real' (vel sigma D cutoff x dt c : ℝ) (hD : 0 ≤ D) :
    (coneScore vel sigma (sigmaDiffusion D) cutoff x dt c).isSome ↔
      |c - (x + vel * dt)| < cutoff * (sigma + Real.sqrt (2 * D * dt)) := by
  rw [cone_real, Real.sqrt_mul (by linarith : (0:ℝ) ≤ 2 * D)]

example : (coneScore (0.5 : ℝ) 1 (sigmaDiffusion 2) 2 10 4 13).isSome := by
  rw [cone_real' _ _ _ _ _ _ _ (by norm_num)]
  have : Real.sqrt (2 * 2 * 4) = 4 := by
    rw [show (2 * 2 * 4 : ℝ) = 4 ^ 2 by norm_num]; exact Real.sqrt_sq (by norm_num)
  rw [this]; norm_num [abs_lt]

/-- conversion of the physical parameters: the pixel-unit cone is the physical cone divided by the
    pixel size (`ps > 0`, line time `lt > 0`, `Δt = lt · Δline`). -/
theorem cone_units (v sigma D cutoff ps lt x c dl : ℝ) (hps : 0 < ps) (hlt : 0 < lt) (hD : 0 ≤ D) (hdl : 0 ≤ dl) :
    (coneScore (velocityPixels v lt ps) (sigmaPixels sigma ps) (sigmaDiffusion (diffusionPixels D lt ps)) cutoff
        (x / ps) dl (c / ps)).isSome ↔
      |c - (x + v * (lt * dl))| < cutoff * (sigma + Real.sqrt (2 * D * (lt * dl))) := by
  rw [cone_real']
  · unfold velocityPixels sigmaPixels diffusionPixels
    have e1 : c / ps - (x / ps + v * lt / ps * dl) = (c - (x + v * (lt * dl))) / ps := by
      field_simp
    have e2 : 2 * (D / (ps * ps / lt)) * dl = (2 * D * (lt * dl)) / ps ^ 2 := by
      field_simp
    rw [e1, e2, abs_div, abs_of_pos hps, Real.sqrt_div (by positivity), Real.sqrt_sq hps.le]
    have e3 : cutoff * (sigma / ps + Real.sqrt (2 * D * (lt * dl)) / ps)
        = cutoff * (sigma + Real.sqrt (2 * D * (lt * dl))) / ps := by field_simp
    rw [e3, div_lt_div_iff_of_pos_right hps]
  · unfold diffusionPixels; positivity

example := cone_units 1 1 1 2 (1/2) (1/4) 3 4 2 (by norm_num) (by norm_num) (by norm_num) (by norm_num)

/-! ## Rectangle -/

/-- the mask keeps exactly the detections inside the pixel rectangle, in their order -/
theorem rect_filter (r : PixelRect) (dets : List (Nat × Rat)) :
    rectFilter r dets = dets.filter (fun d =>
      decide ((r.p0 : Rat) ≤ d.2 ∧ d.2 < (r.p1 : Rat) ∧ r.t0 ≤ (d.1 : Int) ∧ (d.1 : Int) < r.t1)) := by
  unfold rectFilter
  rw [applyMask_map]
  congr 1
  funext d
  simp only [rectMask, Bool.decide_and, Bool.and_assoc]

theorem rect_filter_mem (r : PixelRect) (dets : List (Nat × Rat)) (d : Nat × Rat) :
    d ∈ rectFilter r dets ↔
      d ∈ dets ∧ (r.p0 : Rat) ≤ d.2 ∧ d.2 < (r.p1 : Rat) ∧ r.t0 ≤ (d.1 : Int) ∧ (d.1 : Int) < r.t1 := by
  rw [rect_filter, List.mem_filter, decide_eq_true_eq]

theorem rect_filter_sublist (r : PixelRect) (dets : List (Nat × Rat)) : (rectFilter r dets).Sublist dets := by
  rw [rect_filter]; exact List.filter_sublist

/-- grouping into frames loses and invents nothing: frame `f` holds exactly the detections of line `f` -/
theorem frames_mem (dets : List (Nat × Rat)) (f : Nat) (p : Rat) :
    p ∈ (toFrames dets).getD f [] ↔ (f, p) ∈ dets := mem_toFrames dets f p

/-- **All points of all tracks lie inside the requested rectangle**: linking the detections that
    survive the mask (for every score function) yields only points inside the pixel rectangle. -/
theorem rect_tracks (pr : Params Rat α κ) (r : PixelRect) (dets : List (Nat × Rat)) :
    ∀ t ∈ link pr (toFrames (rectFilter r dets)), ∀ n ∈ t,
      ∃ x, peakAt (toFrames (rectFilter r dets)) n = some x ∧
        (r.p0 : Rat) ≤ x ∧ x < (r.p1 : Rat) ∧ r.t0 ≤ (n.1 : Int) ∧ (n.1 : Int) < r.t1 := by
  intro t ht n hn
  have h := ((link_partition pr _).2 n).1 (List.mem_flatten.2 ⟨t, ht, hn⟩)
  obtain ⟨x, hx⟩ := Option.isSome_iff_exists.1 h
  refine ⟨x, hx, ?_⟩
  have hm : x ∈ (toFrames (rectFilter r dets)).getD n.1 [] := List.mem_of_getElem? hx
  have := (rect_filter_mem r dets (n.1, x)).1 ((frames_mem _ _ _).1 hm)
  exact this.2

/-- `_to_pixel_rect` truncates toward zero; in physical units a kept point is inside the requested
    rectangle up to one line time / one pixel at the lower edges and exactly at the upper edges. -/
theorem rect_physical (lt ps s0 x0 s1 x1 : Rat) (hlt : 0 < lt) (hps : 0 < ps) (hx1 : 0 ≤ x1) (t : Int) (c : Rat)
    (ht0 : (toPixelRect lt ps s0 x0 s1 x1).t0 ≤ t) (ht1 : t < (toPixelRect lt ps s0 x0 s1 x1).t1)
    (hp0 : ((toPixelRect lt ps s0 x0 s1 x1).p0 : Rat) ≤ c) (hp1 : c < ((toPixelRect lt ps s0 x0 s1 x1).p1 : Rat)) :
    s0 - lt < lt * t ∧ lt * t < s1 ∧ x0 - ps < c * ps ∧ c * ps < x1 := by
  simp only [toPixelRect] at ht0 ht1 hp0 hp1
  have a0 := pyInt_gt (s0 / lt)
  have a1 := pyInt_lt (s1 / lt)
  have b0 := pyInt_gt (x0 / ps)
  have b1 : ((pyInt (x1 / ps) : Int) : Rat) ≤ x1 / ps := by
    rw [pyInt_nonneg _ (div_nonneg hx1 hps.le)]; exact Rat.floor_le _
  have ht0' : ((pyInt (s0 / lt) : Int) : Rat) ≤ (t : Rat) := by exact_mod_cast ht0
  have ht1' : ((t + 1 : Int) : Rat) ≤ ((pyInt (s1 / lt) : Int) : Rat) := by exact_mod_cast ht1
  push_cast at ht1'
  have e0 : s0 / lt < (t : Rat) + 1 := by linarith
  have e1 : (t : Rat) < s1 / lt := by linarith
  have f0 : x0 / ps < c + 1 := by linarith
  have f1 : c < x1 / ps := by linarith
  rw [div_lt_iff₀ hlt] at e0
  rw [lt_div_iff₀ hlt] at e1
  rw [div_lt_iff₀ hps] at f0
  rw [lt_div_iff₀ hps] at f1
  refine ⟨by linarith, by linarith, by linarith, by linarith⟩

example : toPixelRect (1/2) (1/10) (5/4) (3/10) 5 2 = ⟨2, 3, 10, 20⟩ := by decide +kernel
-- the lower edge is only kept up to one line time: line 2 starts at 1.0 s < 1.25 s, yet it is inside the pixel rectangle
example : (5/4 : Rat) - 1/2 < 1/2 * (2 : Int) ∧ ¬ ((5/4 : Rat) ≤ 1/2 * (2 : Int)) :=
  ⟨(rect_physical (1/2) (1/10) (5/4) (3/10) 5 2 (by norm_num) (by norm_num) (by norm_num) 2 3
      (by decide +kernel) (by decide +kernel) (by decide +kernel) (by decide +kernel)).1, by norm_num⟩

/-! ## Photon counts -/

/-- **The photon count of a point is the sum of its image column over the rows within `w` of the
    pixel that contains the point** (rows outside the image do not exist): for a point at `c ≥ −½`
    (pixel centres at integers) the pixel is `k` with `k − ½ ≤ c < k + ½`. -/
theorem sum_window_spec (col : List Int) (w : Int) (c : Rat) (hw : 0 ≤ w) (hc : -(1/2 : Rat) ≤ c) :
    ∃ k : Int, ((k : Rat) - 1/2 ≤ c ∧ c < (k : Rat) + 1/2) ∧
      sumWindow col w c (1/2) =
        ((col.zipIdx.filter (fun x => decide (k - w ≤ (x.2 : Int)) && decide ((x.2 : Int) ≤ k + w))).map (·.1)).sum := by
  refine ⟨(c + 1/2).floor, ⟨?_, ?_⟩, ?_⟩
  · have := Rat.floor_le (c + 1/2); linarith
  · have := Rat.lt_floor_add_one (c + 1/2); push_cast at this; linarith
  · have hk : 0 ≤ (c + 1/2).floor := Rat.le_floor_iff.2 (by push_cast; linarith)
    unfold sumWindow sumWindowAt
    rw [pyInt_nonneg _ (by linarith)]
    generalize (c + 1/2).floor = k at hk
    rw [pySlice_nonneg _ _ _ (by omega) (by omega)]
    have := take_drop_eq_filter col 0 (max (k - w) 0).toNat (k + w + 1).toNat
    simp only [Nat.sub_zero] at this
    rw [this]
    congr 2
    apply List.filter_congr
    intro x _
    congr 1 <;> (rw [decide_eq_decide]; omega)

example : sumWindow [1, 2, 4, 8, 16] 1 (27/10) (1/2) = 4 + 8 + 16 := by decide +kernel
example : sumWindow [1, 2, 4, 8, 16] 1 (1/4) (1/2) = 1 + 2 := by decide +kernel

/-! ## Units -/

/-- times in seconds are the line indices times the line time -/
theorem units_seconds (lt : Rat) (idx : List Int) (i : Nat) :
    (seconds lt idx)[i]? = (idx[i]?).map fun (t : Int) => lt * (t : Rat) := by
  unfold seconds
  rw [List.getElem?_map]

/-- positions are the pixel coordinates times the pixel size, and `coordinate_idx` undoes it -/
theorem units_position (ps : Rat) (hps : ps ≠ 0) (cs : List Rat) :
    (∀ i : Nat, (position ps cs)[i]? = (cs[i]?).map fun c => c * ps) ∧
      coordinateIdx ps (position ps cs) = cs := by
  refine ⟨fun i => by unfold position; rw [List.getElem?_map], ?_⟩
  unfold coordinateIdx position
  rw [List.map_map]
  conv => rhs; rw [← List.map_id cs]
  apply List.map_congr_left
  intro c _
  simp only [Function.comp, id]
  field_simp

/-- the duration is the last minus the first time, i.e. `line_time · (last index − first index)` -/
theorem units_duration (lt : Rat) (idx : List Int) (f l : Int) (hf : idx.head? = some f)
    (hl : idx.getLast? = some l) : duration lt idx = some (lt * ((l - f : Int) : Rat)) := by
  unfold duration seconds
  rw [List.getLast?_map, List.head?_map, hf, hl]
  simp only [Option.map_some]
  congr 1
  push_cast; ring

example : duration (1/4) [3, 4, 7] = some (1 : Rat) := by decide +kernel

end Verif.C08
