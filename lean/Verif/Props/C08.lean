/-
  C08 — property theorems (statements + short proofs; helper lemmas live in Lemmas/C08).
  Every theorem is about the executable model in `Verif.Model.C08`, which the correspondence check
  ties to `lumicks/pylake/kymotracker/*` on every run.

  The structural theorems hold for EVERY score function, every `argmax` comparison, every ordering of
  the starting points and every integer `window` (also ≤ 0): they are consequences of the
  `unassigned`-flag bookkeeping and of the frame walk of `extend_line` alone.
-/
import Verif.Lemmas.C08
import Verif.NumReal

namespace Verif.C08
open Verif.Py

variable {P α κ : Type}

/-! ## The greedy linker, for every score function -/

/-- **Every detected peak ends in exactly one track, exactly once**: the concatenation of all tracks
    has no repetition and contains precisely the (frame, index) pairs that address a peak. -/
theorem link_partition (pr : Params P α κ) (peaks : List (List P)) :
    (link pr peaks).flatten.Nodup ∧
    ∀ n : Node, n ∈ (link pr peaks).flatten ↔ (peakAt peaks n).isSome :=
  ⟨(link_spec pr peaks).1, (link_spec pr peaks).2.1⟩

/-- the same, track by track: no track repeats a peak and two different tracks share none -/
theorem link_tracks_disjoint (pr : Params P α κ) (peaks : List (List P)) :
    (∀ t ∈ link pr peaks, t.Nodup) ∧ (link pr peaks).Pairwise List.Disjoint :=
  List.nodup_flatten.1 (link_partition pr peaks).1

/-- the number of track points equals the number of detected peaks -/
theorem link_count (pr : Params P α κ) (peaks : List (List P)) (n : Node) (h : (peakAt peaks n).isSome) :
    (link pr peaks).flatten.count n = 1 :=
  List.count_eq_one_of_mem (link_partition pr peaks).1 (((link_partition pr peaks).2 n).2 h)

/-- no track is empty -/
theorem track_nonempty (pr : Params P α κ) (peaks : List (List P)) :
    ∀ t ∈ link pr peaks, t ≠ [] :=
  fun t ht => ((link_spec pr peaks).2.2 t ht).1

/-- **Strictly increasing scan-line indices** (hence at most one point per line). -/
theorem track_strictly_increasing (pr : Params P α κ) (peaks : List (List P)) :
    ∀ t ∈ link pr peaks, (t.map (·.1)).Pairwise (· < ·) := by
  intro t ht
  have h := ((link_spec pr peaks).2.2 t ht).2
  rw [chainR_iff, List.reverse_reverse] at h
  exact chainF_pairwise _ (fun a b hab => hab.1) t h

/-- every track point lies inside the kymograph: its line index addresses an existing frame -/
theorem track_inside (pr : Params P α κ) (peaks : List (List P)) :
    ∀ t ∈ link pr peaks, ∀ n ∈ t, n.1 < peaks.length ∧ n.2 < (peaks.getD n.1 []).length := by
  intro t ht n hn
  have h := ((link_partition pr peaks).2 n).1 (List.mem_flatten.2 ⟨t, ht, hn⟩)
  unfold peakAt at h
  simp only [Option.isSome_iff_exists, List.getElem?_eq_some_iff] at h
  obtain ⟨_, h, _⟩ := h
  refine ⟨?_, h⟩
  simp only [List.getD_eq_getElem?_getD] at h
  cases hf : peaks[n.1]? with
  | none => rw [hf] at h; simp at h
  | some fr => exact (List.getElem?_eq_some_iff.1 hf).1

/-- **No gap longer than the window**: two consecutive points of a track are at most
    `max window 1` lines apart (the code's `frames_without_peak >= window` test lets a track advance
    by one line even for `window ≤ 0`). -/
theorem gap_le_window (pr : Params P α κ) (peaks : List (List P)) :
    ∀ t ∈ link pr peaks, ∀ ab ∈ t.zip t.tail, ((ab.2.1 : Int) - (ab.1.1 : Int)) ≤ max pr.window 1 := by
  intro t ht ab hab
  exact (((good_iff pr peaks t).1 ((link_spec pr peaks).2.2 t ht)).2 ab hab).2.1

/-- for the admissible windows (`window ≥ 1`) the bound is the window itself -/
theorem gap_le_window' (pr : Params P α κ) (peaks : List (List P)) (hw : 1 ≤ pr.window) :
    ∀ t ∈ link pr peaks, ∀ ab ∈ t.zip t.tail, ((ab.2.1 : Int) - (ab.1.1 : Int)) ≤ pr.window := by
  intro t ht ab hab
  have := gap_le_window pr peaks t ht ab hab
  omega

/-- **A link is made only if the score is finite**: for two consecutive points of a track the score
    function, evaluated with the earlier point as the tip, accepted the later one. -/
theorem linked_implies_accepted (pr : Params P α κ) (peaks : List (List P)) :
    ∀ t ∈ link pr peaks, ∀ ab ∈ t.zip t.tail,
      ∃ p q s, peakAt peaks ab.1 = some p ∧ peakAt peaks ab.2 = some q ∧
        pr.score ab.1.1 p ab.2.1 q = some s := by
  intro t ht ab hab
  exact (((good_iff pr peaks t).1 ((link_spec pr peaks).2.2 t ht)).2 ab hab).2.2

-- the window: a peak that disappears for one line is re-linked with `window = 2`, not with `window = 1`
example : link (⟨fun _ x _ y => if x = y then some 0 else none, fun a b => decide (a > b), fun p _ => p,
      fun a b => decide (a ≤ b), 2⟩ : Params Nat Nat Nat) [[5], [], [5]] = [[(0, 0), (2, 0)]] := by
  decide +kernel
example : link (⟨fun _ x _ y => if x = y then some 0 else none, fun a b => decide (a > b), fun p _ => p,
      fun a b => decide (a ≤ b), 1⟩ : Params Nat Nat Nat) [[5], [], [5]] = [[(0, 0)], [(2, 0)]] := by
  decide +kernel
-- why the bound is `max window 1`: with `window = 0` the code still links to the very next line (once)
example : link (⟨fun _ x _ y => if x = y then some 0 else none, fun a b => decide (a > b), fun p _ => p,
      fun a b => decide (a ≤ b), 0⟩ : Params Nat Nat Nat) [[5], [5], [5]] = [[(0, 0), (1, 0)], [(2, 0)]] := by
  decide +kernel

-- non-vacuity of the three statements above: a two-frame input on which a link is made
example :
    link (⟨fun _ x _ y => if x = y then some 0 else none, fun a b => decide (a > b), fun p _ => p,
      fun a b => decide (a ≤ b), 1⟩ : Params Nat Nat Nat) [[5, 7], [7]] = [[(0, 0)], [(0, 1), (1, 0)]] := by
  decide +kernel

/-- **The greedy choice**: the point that is appended has a score that no other free candidate of
    that line beats (`np.argmax`; for any comparison that is asymmetric and negatively transitive,
    e.g. `>` on the finite doubles). -/
theorem link_best (pr : Params P α κ)
    (asymm : ∀ a b, pr.gt a b = true → pr.gt b a = false)
    (ntrans : ∀ a b c, pr.gt a b = false → pr.gt b c = false → pr.gt a c = false)
    (tipF : Nat) (tip : P) (fi : Nat) (frP : List P) (frU : List Bool) (j : Nat) (p : P) (s : α)
    (h : appendNext pr tipF tip fi frP frU = some (j, p, s)) :
    ∀ j' p', frP[j']? = some p' → frU.getD j' false = true →
      ∀ s', pr.score tipF tip fi p' = some s' → pr.gt s' s = false := by
  intro j' p' hp hu s' hs
  unfold appendNext at h
  have := (argmaxFirst_best pr.gt asymm ntrans _ none j p s h).2
    (j', p', pr.score tipF tip fi p') (by
      simp only [List.mem_map, Prod.mk.injEq, Prod.exists]
      exact ⟨j', p', (mem_candidates frP frU j' p').2 ⟨hp, hu⟩, rfl, rfl, rfl⟩) s' hs
  exact this

/-- a line is not extended on a frame only if **no** free peak of that frame is accepted -/
theorem link_stops_without_candidate (pr : Params P α κ) (tipF : Nat) (tip : P) (fi : Nat) (frP : List P)
    (frU : List Bool) (h : appendNext pr tipF tip fi frP frU = none) :
    ∀ j' p', frP[j']? = some p' → frU.getD j' false = true → pr.score tipF tip fi p' = none := by
  intro j' p' hp hu
  unfold appendNext at h
  exact (argmaxFirst_none pr.gt _ none h).2 (j', p', pr.score tipF tip fi p') (by
    simp only [List.mem_map, Prod.mk.injEq, Prod.exists]
    exact ⟨j', p', (mem_candidates frP frU j' p').2 ⟨hp, hu⟩, rfl, rfl, rfl⟩)

-- the hypotheses are those of a strict weak order; `>` on ℕ (and on the finite doubles) is one
example : (∀ a b : Nat, decide (a > b) = true → decide (b > a) = false) ∧
    (∀ a b c : Nat, decide (a > b) = false → decide (b > c) = false → decide (a > c) = false) := by
  refine ⟨?_, ?_⟩ <;> intros <;> simp_all <;> omega

example : appendNext (⟨fun _ x _ y => if y < x + 3 then some (10 - (y - x)) else none, fun a b => decide (a > b),
    fun p _ => p, fun a b => decide (a ≤ b), 1⟩ : Params Nat Nat Nat) 0 5 1 [9, 7, 6, 6, 6] [true, true, false, true, true]
    = some (3, 6, 9) := by decide

/-- **Start order**: the tracks are returned in the order of their first line, and the tracks that
    start on the same line in the order of `-amplitude` (brightest first) — for every key order that
    is transitive and total. -/
theorem start_order (pr : Params P α κ) (peaks : List (List P))
    (trans : ∀ a b c, pr.kle a b = true → pr.kle b c = true → pr.kle a c = true)
    (total : ∀ a b, pr.kle a b = true ∨ pr.kle b a = true) :
    (link pr peaks).Pairwise (fun t1 t2 => ∃ a b, t1.head? = some a ∧ t2.head? = some b ∧
      (a.1 < b.1 ∨ (a.1 = b.1 ∧ ∃ p q, peakAt peaks a = some p ∧ peakAt peaks b = some q ∧
        pr.kle (pr.key p true) (pr.key q true) = true))) := by
  unfold link
  rw [List.pairwise_reverse]
  exact linkFrom_order pr peaks trans total _ _ [] 0 peaks.length List.range_eq_range'
    List.Pairwise.nil (by simp)

example : (∀ a b c : Int, decide (a ≤ b) = true → decide (b ≤ c) = true → decide (a ≤ c) = true) ∧
    (∀ a b : Int, decide (a ≤ b) = true ∨ decide (b ≤ a) = true) := by
  refine ⟨?_, ?_⟩ <;> intros <;> simp_all <;> omega

-- three peaks on one line, amplitudes 3, 9, 5 (keys are the negated amplitudes): brightest first
example : link (⟨fun _ _ _ _ => (none : Option Nat), fun a b => decide (a > b), fun p _ => -p,
    fun a b => decide (a ≤ b), 1⟩ : Params Int Nat Int) [[3, 9, 5]] = [[(0, 1)], [(0, 2)], [(0, 0)]] := by
  decide +kernel

/-! ## The cone -/

/-- the executed accept test of `build_score_matrix`, for every number type -/
theorem accepted_in_cone {β : Type} [RealLike β] (vel sigma sd cutoff x dt c s : β)
    (h : coneScore vel sigma sd cutoff x dt c = some s) :
    RealLike.lt (x + vel * dt - cutoff * (sigma + sd * RealLike.sqrt dt)) c = true ∧
    RealLike.lt c (x + vel * dt + cutoff * (sigma + sd * RealLike.sqrt dt)) = true := by
  unfold coneScore at h
  simp only at h
  split at h
  · rename_i hc
    simpa [Bool.and_eq_true] using hc
  · cases h

/-- **ext `cone_real`**: at `ℝ` a candidate is accepted iff it lies strictly within
    `sigma_cutoff · (sigma + sqrt(2 D) · sqrt(Δt))` of the position predicted with the velocity. -/
theorem cone_real (vel sigma D cutoff x dt c : ℝ) :
    (coneScore vel sigma (sigmaDiffusion D) cutoff x dt c).isSome ↔
      |c - (x + vel * dt)| < cutoff * (sigma + Real.sqrt (2 * D) * Real.sqrt dt) := by
  unfold coneScore sigmaDiffusion
  simp only [RealLike.lt, RealLike.sqrt]
  have h2 : (2.0 : ℝ) = 2 := by norm_num
  rw [h2, abs_lt]
  split
  · rename_i h
    simp only [Bool.and_eq_true, decide_eq_true_eq] at h
    simp only [Option.isSome_some, true_iff]
    constructor <;> linarith [h.1, h.2]
  · rename_i h
    simp only [Bool.and_eq_true, decide_eq_true_eq, not_and] at h
    simp only [Option.isSome_none, Bool.false_eq_true, false_iff, not_and]
    intro h1 h2
    exact h (by linarith) (by linarith)

/-- the documented form `sigma + sqrt(2 D Δt)` -/
theorem cone_real' (vel sigma D cutoff x dt c : ℝ) (hD : 0 ≤ D) :
    (coneScore vel sigma (sigmaDiffusion D) cutoff x dt c).isSome ↔
      |c - (x + vel * dt)| < cutoff * (sigma + Real.sqrt (2 * D * dt)) := by
  rw [cone_real, Real.sqrt_mul (by linarith : (0:ℝ) ≤ 2 * D)]

example : (coneScore (0.5 : ℝ) 1 (sigmaDiffusion 2) 2 10 4 13).isSome := by
  rw [cone_real' _ _ _ _ _ _ _ (by norm_num)]
  have : Real.sqrt (2 * 2 * 4) = 4 := by
    rw [show (2 * 2 * 4 : ℝ) = 4 ^ 2 by norm_num]; exact Real.sqrt_sq (by norm_num)
  rw [this]; norm_num [abs_lt]

/-- conversion of the physical parameters: the pixel-unit cone is the physical cone divided by the
    pixel size (`ps > 0`, line time `lt > 0`, `Δt = lt · Δline`). -/
theorem cone_units (v sigma D cutoff ps lt x c dl : ℝ) (hps : 0 < ps) (hlt : 0 < lt) (hD : 0 ≤ D) (hdl : 0 ≤ dl) :
    (coneScore (velocityPixels v lt ps) (sigmaPixels sigma ps) (sigmaDiffusion (diffusionPixels D lt ps)) cutoff
        (x / ps) dl (c / ps)).isSome ↔
      |c - (x + v * (lt * dl))| < cutoff * (sigma + Real.sqrt (2 * D * (lt * dl))) := by
  rw [cone_real']
  · unfold velocityPixels sigmaPixels diffusionPixels
    have e1 : c / ps - (x / ps + v * lt / ps * dl) = (c - (x + v * (lt * dl))) / ps := by
      field_simp
    have e2 : 2 * (D / (ps * ps / lt)) * dl = (2 * D * (lt * dl)) / ps ^ 2 := by
      field_simp
    rw [e1, e2, abs_div, abs_of_pos hps, Real.sqrt_div (by positivity), Real.sqrt_sq hps.le]
    have e3 : cutoff * (sigma / ps + Real.sqrt (2 * D * (lt * dl)) / ps)
        = cutoff * (sigma + Real.sqrt (2 * D * (lt * dl))) / ps := by field_simp
    rw [e3, div_lt_div_iff_of_pos_right hps]
  · unfold diffusionPixels; positivity

example := cone_units 1 1 1 2 (1/2) (1/4) 3 4 2 (by norm_num) (by norm_num) (by norm_num) (by norm_num)

/-! ## Rectangle -/

/-- the mask keeps exactly the detections inside the pixel rectangle, in their order -/
theorem rect_filter (r : PixelRect) (dets : List (Nat × Rat)) :
    rectFilter r dets = dets.filter (fun d =>
      decide ((r.p0 : Rat) ≤ d.2 ∧ d.2 < (r.p1 : Rat) ∧ r.t0 ≤ (d.1 : Int) ∧ (d.1 : Int) < r.t1)) := by
  unfold rectFilter
  rw [applyMask_map]
  congr 1
  funext d
  simp only [rectMask, Bool.decide_and, Bool.and_assoc]

theorem rect_filter_mem (r : PixelRect) (dets : List (Nat × Rat)) (d : Nat × Rat) :
    d ∈ rectFilter r dets ↔
      d ∈ dets ∧ (r.p0 : Rat) ≤ d.2 ∧ d.2 < (r.p1 : Rat) ∧ r.t0 ≤ (d.1 : Int) ∧ (d.1 : Int) < r.t1 := by
  rw [rect_filter, List.mem_filter, decide_eq_true_eq]

theorem rect_filter_sublist (r : PixelRect) (dets : List (Nat × Rat)) : (rectFilter r dets).Sublist dets := by
  rw [rect_filter]; exact List.filter_sublist

/-- grouping into frames loses and invents nothing: frame `f` holds exactly the detections of line `f` -/
theorem frames_mem (dets : List (Nat × Rat)) (f : Nat) (p : Rat) :
    p ∈ (toFrames dets).getD f [] ↔ (f, p) ∈ dets := mem_toFrames dets f p

/-- **All points of all tracks lie inside the requested rectangle**: linking the detections that
    survive the mask (for every score function) yields only points inside the pixel rectangle. -/
theorem rect_tracks (pr : Params Rat α κ) (r : PixelRect) (dets : List (Nat × Rat)) :
    ∀ t ∈ link pr (toFrames (rectFilter r dets)), ∀ n ∈ t,
      ∃ x, peakAt (toFrames (rectFilter r dets)) n = some x ∧
        (r.p0 : Rat) ≤ x ∧ x < (r.p1 : Rat) ∧ r.t0 ≤ (n.1 : Int) ∧ (n.1 : Int) < r.t1 := by
  intro t ht n hn
  have h := ((link_partition pr _).2 n).1 (List.mem_flatten.2 ⟨t, ht, hn⟩)
  obtain ⟨x, hx⟩ := Option.isSome_iff_exists.1 h
  refine ⟨x, hx, ?_⟩
  have hm : x ∈ (toFrames (rectFilter r dets)).getD n.1 [] := List.mem_of_getElem? hx
  have := (rect_filter_mem r dets (n.1, x)).1 ((frames_mem _ _ _).1 hm)
  exact this.2

/-- `_to_pixel_rect` truncates toward zero; in physical units a kept point is inside the requested
    rectangle up to one line time / one pixel at the lower edges and exactly at the upper edges. -/
theorem rect_physical (lt ps s0 x0 s1 x1 : Rat) (hlt : 0 < lt) (hps : 0 < ps) (hx1 : 0 ≤ x1) (t : Int) (c : Rat)
    (ht0 : (toPixelRect lt ps s0 x0 s1 x1).t0 ≤ t) (ht1 : t < (toPixelRect lt ps s0 x0 s1 x1).t1)
    (hp0 : ((toPixelRect lt ps s0 x0 s1 x1).p0 : Rat) ≤ c) (hp1 : c < ((toPixelRect lt ps s0 x0 s1 x1).p1 : Rat)) :
    s0 - lt < lt * t ∧ lt * t < s1 ∧ x0 - ps < c * ps ∧ c * ps < x1 := by
  simp only [toPixelRect] at ht0 ht1 hp0 hp1
  have a0 := pyInt_gt (s0 / lt)
  have a1 := pyInt_lt (s1 / lt)
  have b0 := pyInt_gt (x0 / ps)
  have b1 : ((pyInt (x1 / ps) : Int) : Rat) ≤ x1 / ps := by
    rw [pyInt_nonneg _ (div_nonneg hx1 hps.le)]; exact Rat.floor_le _
  have ht0' : ((pyInt (s0 / lt) : Int) : Rat) ≤ (t : Rat) := by exact_mod_cast ht0
  have ht1' : ((t + 1 : Int) : Rat) ≤ ((pyInt (s1 / lt) : Int) : Rat) := by exact_mod_cast ht1
  push_cast at ht1'
  have e0 : s0 / lt < (t : Rat) + 1 := by linarith
  have e1 : (t : Rat) < s1 / lt := by linarith
  have f0 : x0 / ps < c + 1 := by linarith
  have f1 : c < x1 / ps := by linarith
  rw [div_lt_iff₀ hlt] at e0
  rw [lt_div_iff₀ hlt] at e1
  rw [div_lt_iff₀ hps] at f0
  rw [lt_div_iff₀ hps] at f1
  refine ⟨by linarith, by linarith, by linarith, by linarith⟩

example : toPixelRect (1/2) (1/10) (5/4) (3/10) 5 2 = ⟨2, 3, 10, 20⟩ := by decide +kernel
-- the lower edge is only kept up to one line time: line 2 starts at 1.0 s < 1.25 s, yet it is inside the pixel rectangle
example : (5/4 : Rat) - 1/2 < 1/2 * (2 : Int) ∧ ¬ ((5/4 : Rat) ≤ 1/2 * (2 : Int)) :=
  ⟨(rect_physical (1/2) (1/10) (5/4) (3/10) 5 2 (by norm_num) (by norm_num) (by norm_num) 2 3
      (by decide +kernel) (by decide +kernel) (by decide +kernel) (by decide +kernel)).1, by norm_num⟩

/-! ## Photon counts -/

/-- **The photon count of a point is the sum of its image column over the rows within `w` of the
    pixel that contains the point** (rows outside the image do not exist): for a point at `c ≥ −½`
    (pixel centres at integers) the pixel is `k` with `k − ½ ≤ c < k + ½`. -/
theorem sum_window_spec (col : List Int) (w : Int) (c : Rat) (hw : 0 ≤ w) (hc : -(1/2 : Rat) ≤ c) :
    ∃ k : Int, ((k : Rat) - 1/2 ≤ c ∧ c < (k : Rat) + 1/2) ∧
      sumWindow col w c (1/2) =
        ((col.zipIdx.filter (fun x => decide (k - w ≤ (x.2 : Int)) && decide ((x.2 : Int) ≤ k + w))).map (·.1)).sum := by
  refine ⟨(c + 1/2).floor, ⟨?_, ?_⟩, ?_⟩
  · have := Rat.floor_le (c + 1/2); linarith
  · have := Rat.lt_floor_add_one (c + 1/2); push_cast at this; linarith
  · have hk : 0 ≤ (c + 1/2).floor := Rat.le_floor_iff.2 (by push_cast; linarith)
    unfold sumWindow sumWindowAt
    rw [pyInt_nonneg _ (by linarith)]
    generalize (c + 1/2).floor = k at hk
    rw [pySlice_nonneg _ _ _ (by omega) (by omega)]
    have := take_drop_eq_filter col 0 (max (k - w) 0).toNat (k + w + 1).toNat
    simp only [Nat.sub_zero] at this
    rw [this]
    congr 2
    apply List.filter_congr
    intro x _
    congr 1 <;> (rw [decide_eq_decide]; omega)

example : sumWindow [1, 2, 4, 8, 16] 1 (27/10) (1/2) = 4 + 8 + 16 := by decide +kernel
example : sumWindow [1, 2, 4, 8, 16] 1 (1/4) (1/2) = 1 + 2 := by decide +kernel

/-! ## Units -/

/-- times in seconds are the line indices times the line time -/
theorem units_seconds (lt : Rat) (idx : List Int) (i : Nat) :
    (seconds lt idx)[i]? = (idx[i]?).map fun (t : Int) => lt * (t : Rat) := by
  unfold seconds
  rw [List.getElem?_map]

/-- positions are the pixel coordinates times the pixel size, and `coordinate_idx` undoes it -/
theorem units_position (ps : Rat) (hps : ps ≠ 0) (cs : List Rat) :
    (∀ i : Nat, (position ps cs)[i]? = (cs[i]?).map fun c => c * ps) ∧
      coordinateIdx ps (position ps cs) = cs := by
  refine ⟨fun i => by unfold position; rw [List.getElem?_map], ?_⟩
  unfold coordinateIdx position
  rw [List.map_map]
  conv => rhs; rw [← List.map_id cs]
  apply List.map_congr_left
  intro c _
  simp only [Function.comp, id]
  field_simp

/-- the duration is the last minus the first time, i.e. `line_time · (last index − first index)` -/
theorem units_duration (lt : Rat) (idx : List Int) (f l : Int) (hf : idx.head? = some f)
    (hl : idx.getLast? = some l) : duration lt idx = some (lt * ((l - f : Int) : Rat)) := by
  unfold duration seconds
  rw [List.getLast?_map, List.head?_map, hf, hl]
  simp only [Option.map_some]
  congr 1
  push_cast; ring

example : duration (1/4) [3, 4, 7] = some (1 : Rat) := by decide +kernel

/-! ## Editing: interpolation, splitting, merging, filtering keep tracks well formed -/

theorem trackOf_eq (peaks : List (List Rat)) (t : List Node) (h : ∀ n ∈ t, (peakAt peaks n).isSome) :
    ∃ cs : List Rat, cs.length = t.length ∧ trackOf peaks t = (t.map fun n => (n.1 : Int)).zip cs ∧
      ∀ c ∈ cs, ∃ n ∈ t, peakAt peaks n = some c := by
  induction t with
  | nil => exact ⟨[], rfl, rfl, by simp⟩
  | cons n t ih =>
    obtain ⟨cs, hl, he, hc⟩ := ih (fun m hm => h m (by simp [hm]))
    obtain ⟨c, hn⟩ := Option.isSome_iff_exists.1 (h n (by simp))
    refine ⟨c :: cs, by simp [hl], ?_, ?_⟩
    · unfold trackOf at he ⊢
      simp only [List.filterMap_cons, hn, Option.map_some, List.map_cons, List.zip_cons_cons, he]
    · intro c' hc'
      rcases List.mem_cons.1 hc' with rfl | hc'
      · exact ⟨n, by simp, hn⟩
      · obtain ⟨m, hm, hmc⟩ := hc c' hc'
        exact ⟨m, by simp [hm], hmc⟩

/-- **What the greedy tracker returns is well formed**: the (line index, coordinate) track of every list of
    nodes the linker returns is non-empty, has strictly increasing line indices inside the kymograph and, when
    every detected peak lies in `[lo, hi]` (the image), coordinates in `[lo, hi]`. -/
theorem link_tracks_wellformed (pr : Params Rat α κ) (peaks : List (List Rat)) (lo hi : Rat)
    (hb : ∀ fr ∈ peaks, ∀ c ∈ fr, lo ≤ c ∧ c ≤ hi) :
    ∀ t ∈ link pr peaks, WellFormed (peaks.length : Int) lo hi (trackOf peaks t) := by
  intro t ht
  have hsome : ∀ n ∈ t, (peakAt peaks n).isSome := fun n hn =>
    ((link_partition pr peaks).2 n).1 (List.mem_flatten.2 ⟨t, ht, hn⟩)
  obtain ⟨cs, hl, he, hc⟩ := trackOf_eq peaks t hsome
  have hne := track_nonempty pr peaks t ht
  have hinc := track_strictly_increasing pr peaks t ht
  have hin := track_inside pr peaks t ht
  refine ⟨?_, ?_, ?_⟩
  · rw [he]
    intro h0
    have := congrArg List.length h0
    simp [hl] at this
    exact hne this
  · unfold Inc timesOf
    rw [he, List.map_fst_zip (by simp [hl]), List.pairwise_map]
    rw [List.pairwise_map] at hinc
    exact hinc.imp (fun {a b} hab => by exact_mod_cast hab)
  · intro p hp
    rw [he] at hp
    have h1 := (List.of_mem_zip hp).1
    have h2 := (List.of_mem_zip hp).2
    obtain ⟨n, hn, hn1⟩ := List.mem_map.1 h1
    obtain ⟨m, hm, hmc⟩ := hc p.2 h2
    have hfr : p.2 ∈ peaks.getD m.1 [] := List.mem_of_getElem? hmc
    have hmin := (hin m hm).1
    have hfr' : peaks.getD m.1 [] ∈ peaks := by
      rw [List.getD_eq_getElem?_getD, List.getElem?_eq_getElem hmin]; exact List.getElem_mem hmin
    have := hb _ hfr' _ hfr
    have hnl := (hin n hn).1
    refine ⟨by rw [← hn1]; omega, by rw [← hn1]; exact_mod_cast hnl, this.1, this.2⟩

-- non-vacuity: a two-line detection list inside [0, 4]; the linker's tracks as (line, coordinate) lists
example : (link (⟨fun _ x _ y => if x = y then some (0 : Nat) else none, fun a b => decide (a > b), fun p _ => p,
      fun a b => decide (a ≤ b), 1⟩ : Params Rat Nat Rat) [[1, 3], [3]]).map (trackOf [[1, 3], [3]])
    = [[(0, 1)], [(0, 3), (1, 3)]] := by decide +kernel

/-- a well-formed track used in the `example`s below: lines 0, 2, 5 of a 6-line kymograph, pixels in [0, 4] -/
theorem wellFormed_example : WellFormed 6 0 4 [(0, 1), (2, 2), (5, 0)] := by
  refine ⟨by simp, by simp [Inc, timesOf], ?_⟩
  intro p hp
  simp only [List.mem_cons, List.not_mem_nil, or_false] at hp
  rcases hp with rfl | rfl | rfl <;> norm_num

/-- **Interpolation covers every line from the first to the last exactly once** (hence strictly increasing
    line indices without a gap, the same first and last line). -/
theorem interpolate_times (tr : Track) (h : Inc tr) (f l : Int) (hf : (timesOf tr).head? = some f)
    (hl : (timesOf tr).getLast? = some l) :
    timesOf (interpolate tr) = (List.range (l - f + 1).toNat).map fun (k : Nat) => f + (k : Int) :=
  interpolate_times_lem tr h f l hf hl

/-- **Interpolation keeps a track well formed**: non-empty, strictly increasing line indices inside the
    kymograph, coordinates inside the same interval (`np.interp` is a convex combination of its neighbours). -/
theorem interpolate_wellformed (n : Int) (lo hi : Rat) (tr : Track) (h : WellFormed n lo hi tr) :
    WellFormed n lo hi (interpolate tr) := interpolate_wf n lo hi tr h

/-- interpolation keeps every tracked point as it is -/
theorem interpolate_keeps_points (tr : Track) (h : Inc tr) : ∀ q ∈ tr, q ∈ interpolate tr := interpolate_keeps tr h

/-- interpolating twice is interpolating once -/
theorem interpolate_idempotent (tr : Track) (h : Inc tr) : interpolate (interpolate tr) = interpolate tr :=
  interpolate_idem tr h

example : interpolate [(0, 1), (2, 2), (5, 0)] = [(0, 1), (1, 3/2), (2, 2), (3, 4/3), (4, 2/3), (5, 0)] := by
  decide +kernel
example : Inc [(0, 1), (2, 2), (5, 0)] := wellFormed_example.2.1
-- the hypothesis is needed: on line indices that are not increasing `np.interp` does not return the points
example : ¬ ((3, 7) ∈ interpolate [(3, 7), (1, 5)]) := by decide +kernel

/-- **`_split`**: the two halves are non-empty and concatenate to the track, the first has `clip(node, 0, len)`
    points; it is refused exactly when one half would be empty. -/
theorem split_spec (tr : Track) (node : Int) :
    (∀ a b, splitAt tr node = .ok (a, b) →
      a ++ b = tr ∧ a ≠ [] ∧ b ≠ [] ∧ (a.length : Int) = min (max node 0) (tr.length : Int)) ∧
    ((∃ e, splitAt tr node = .error e) ↔ (node ≤ 0 ∨ (tr.length : Int) ≤ node)) :=
  ⟨fun a b h => splitAt_ok tr node a b h, splitAt_refused tr node⟩

/-- **Splitting keeps every track of the group well formed.** -/
theorem split_wellformed (n : Int) (lo hi : Rat) (g : List Track) (i : Nat) (node minLen : Int) (g' : List Track)
    (hg : ∀ t ∈ g, WellFormed n lo hi t) (h : splitTrack g i node minLen = .ok g') :
    ∀ t ∈ g', WellFormed n lo hi t := splitTrack_wf g i node minLen g' hg h

/-- with `min_length ≤ 1` a split neither loses nor invents a point -/
theorem split_conserves_points (g : List Track) (i : Nat) (node minLen : Int) (g' : List Track) (hm : minLen ≤ 1)
    (h : splitTrack g i node minLen = .ok g') : g'.flatten.Perm g.flatten := splitTrack_perm g i node minLen g' hm h

example : splitTrack [[(0, 1), (2, 2), (5, 0)], [(1, 3)]] 0 1 1 = .ok [[(1, 3)], [(0, 1)], [(2, 2), (5, 0)]] := by
  decide +kernel
-- `min_length` above one drops the short half: the hypothesis of `split_conserves_points` is needed
example : splitTrack [[(0, 1), (2, 2), (5, 0)], [(1, 3)]] 0 1 2 = .ok [[(1, 3)], [(2, 2), (5, 0)]] := by
  decide +kernel

/-- **`_merge_tracks`**: a merge is made only between two nodes on different lines; the earlier node `ps` and the
    later node `pe` become neighbours: the new track is the starting track up to and including `ps` followed by
    the ending track from `pe` on; it replaces the starting track and the ending track leaves the group. -/
theorem merge_spec (g : List Track) (i sn j en : Nat) (g' : List Track) (h : mergeTracks g i sn j en = .ok g') :
    ∃ a b ps pe, g[i]? = some a ∧ g[j]? = some b ∧ a[sn]? = some ps ∧ b[en]? = some pe ∧
      ((ps.1 < pe.1 ∧ g' = (if i = j then g.set i (a.take sn ++ ps :: pe :: b.drop (en + 1))
          else (g.set i (a.take sn ++ ps :: pe :: b.drop (en + 1))).eraseIdx j)) ∨
       (pe.1 < ps.1 ∧ g' = (if j = i then g.set j (b.take en ++ pe :: ps :: a.drop (sn + 1))
          else (g.set j (b.take en ++ pe :: ps :: a.drop (sn + 1))).eraseIdx i))) := by
  obtain ⟨a, b, ps, pe, ha, hb, hs, he, hc⟩ := mergeTracks_ok g i sn j en g' h
  refine ⟨a, b, ps, pe, ha, hb, hs, he, ?_⟩
  rw [← merge_shape a b sn en ps pe hs he, ← merge_shape b a en sn pe ps he hs]
  exact hc

/-- **Merging keeps every track of the group well formed** (in particular the merged track has strictly
    increasing line indices: everything kept of the starting track is at or before `ps`, everything kept of the
    ending track at or after `pe`). -/
theorem merge_wellformed (n : Int) (lo hi : Rat) (g : List Track) (i sn j en : Nat) (g' : List Track)
    (hg : ∀ t ∈ g, WellFormed n lo hi t) (h : mergeTracks g i sn j en = .ok g') :
    ∀ t ∈ g', WellFormed n lo hi t := mergeTracks_wf g i sn j en g' hg h

example : mergeTracks [[(0, 1), (2, 2), (5, 0)], [(1, 3), (4, 4)]] 0 1 1 0 = .ok [[(1, 3), (2, 2), (5, 0)]] := by
  decide +kernel
example : mergeTracks [[(0, 1), (2, 2), (5, 0)], [(1, 3), (4, 4)]] 0 0 1 1 = .ok [[(0, 1), (4, 4)]] := by
  decide +kernel
example : mergeTracks [[(0, 1), (2, 2), (5, 0)], [(2, 3)]] 0 1 1 0 = .error "ValueError" := by decide +kernel

/-- **`filter_tracks`** keeps exactly the tracks with at least `minimum_length` points whose duration
    `line_time · (last − first line)` is at least `minimum_duration`, each as it is, in their order. -/
theorem filter_spec (minLen : Int) (minDur : Rat) (g : List (Rat × Track)) :
    (filterTracks minLen minDur g).Sublist g ∧
    (∀ x, x ∈ filterTracks minLen minDur g ↔ x ∈ g ∧ keepTrack minLen minDur x.1 x.2 = true) ∧
    (∀ lt tr f l, (timesOf tr).head? = some f → (timesOf tr).getLast? = some l →
      (keepTrack minLen minDur lt tr = true ↔
        minLen ≤ (tr.length : Int) ∧ minDur ≤ lt * ((l - f : Int) : Rat))) :=
  ⟨filterTracks_sublist minLen minDur g, filterTracks_mem minLen minDur g,
    fun lt tr f l hf hl => keepTrack_iff minLen minDur lt tr f l hf hl⟩

/-- filtering twice with the same criteria is filtering once -/
theorem filter_idempotent (minLen : Int) (minDur : Rat) (g : List (Rat × Track)) :
    filterTracks minLen minDur (filterTracks minLen minDur g) = filterTracks minLen minDur g :=
  filterTracks_idem minLen minDur g

example : (filterTracks 2 (5/4) [(1/2, [(0, 1), (2, 2), (5, 0)]), (1/2, [(1, 3)]), (1/2, [(1, 3), (3, 3)])]).map (·.2)
    = [[(0, 1), (2, 2), (5, 0)]] := by decide +kernel

/-- **Every editing step keeps a group well formed.** -/
theorem edit_step_wellformed (n : Int) (lo hi lt : Rat) (g : List Track) (op : EditOp) (g' : List Track)
    (hg : ∀ t ∈ g, WellFormed n lo hi t) (h : applyOp lt g op = .ok g') : ∀ t ∈ g', WellFormed n lo hi t :=
  applyOp_wf lt g op g' hg h

/-- **Every program of interpolations, splits, merges and filters keeps a group well formed.** -/
theorem edit_program_wellformed (n : Int) (lo hi lt : Rat) (ops : List EditOp) (g : List Track)
    (hg : ∀ t ∈ g, WellFormed n lo hi t) : ∀ t ∈ runProgram lt ops g, WellFormed n lo hi t :=
  runProgram_wf lt ops g hg

/-- **Tracking followed by any editing program**: every track is non-empty, has strictly increasing line
    indices inside the kymograph and coordinates inside the interval that holds the detections. -/
theorem tracked_then_edited_wellformed (pr : Params Rat α κ) (peaks : List (List Rat)) (lo hi lt : Rat)
    (hb : ∀ fr ∈ peaks, ∀ c ∈ fr, lo ≤ c ∧ c ≤ hi) (ops : List EditOp) :
    ∀ t ∈ runProgram lt ops ((link pr peaks).map (trackOf peaks)), WellFormed (peaks.length : Int) lo hi t := by
  apply runProgram_wf
  intro t ht
  obtain ⟨nodes, hn, rfl⟩ := List.mem_map.1 ht
  exact link_tracks_wellformed pr peaks lo hi hb nodes hn

example : runProgram (1/2) [.interpolate [], .split 0 2 1, .merge 0 1 1 0, .filter 2 1]
    [[(0, 1), (2, 2), (5, 0)], [(1, 3)]] = [[(2, 2), (3, 4/3), (4, 2/3), (5, 0)]] := by decide +kernel


/-! ## Centroid refinement (`refine_peak_based_on_moment`, no bias correction): positions inside the image -/

/-- **The clamps**: whatever the image and the starting pixels, every point ends the pixel walk on a pixel of
    the image (`0 ≤ c < n`). -/
theorem refine_pixels_inside (eps : Rat) (cols : List (List Int)) (h : Nat) (n : Int) (hn : 1 ≤ n) (fuel : Nat)
    (pts pts' : List (Int × Nat)) (hr : refineLoop eps cols h n fuel pts = some pts') :
    ∀ p ∈ pts', 0 ≤ p.1 ∧ p.1 < n := refineLoop_range eps cols h n hn fuel pts pts' hr

/-- **Refined positions lie inside the image**: on an image of non-negative photon counts, for points that start
    on pixels of the image, every refined coordinate `c + offset` is within half a pixel of a pixel `c` of the
    image — hence in `[−½, n − ½]` — the reported amplitude is the window sum `m0` around that pixel, and the
    scan line of every point is unchanged. (At the first and last pixel the zero padding makes the offset point
    inwards, so the clamps are never what stops the walk.) -/
theorem refine_positions_inside (eps : Rat) (heps : 0 < eps) (cols : List (List Int)) (h : Nat) (n : Int) (hn : 1 ≤ n)
    (hi : ImageOK cols n) (pts : List (Int × Nat)) (hin : ∀ p ∈ pts, 0 ≤ p.1 ∧ p.1 < n)
    (out : List (Rat × Nat × Int)) (hr : refineMoment eps cols h n pts = .ok out) :
    ∀ q ∈ out, (-(1/2 : Rat) ≤ q.1 ∧ q.1 ≤ (n : Rat) - 1/2) ∧
      ∃ c : Int, 0 ≤ c ∧ c < n ∧ (c : Rat) - 1/2 ≤ q.1 ∧ q.1 ≤ (c : Rat) + 1/2 ∧
        q.2.2 = m0At (cols.getD q.2.1 []) h c := by
  unfold refineMoment at hr
  split at hr
  · cases hr
  · split at hr
    · cases hr
    · rename_i ps hps
      injection hr with hr
      subst hr
      intro q hq
      obtain ⟨p, hp, rfl⟩ := List.mem_map.1 hq
      obtain ⟨⟨h0, h1⟩, h2, h3⟩ := refineLoop_settled eps heps cols h n hn hi 100 pts ps hin hps p hp
      have h0' : (0 : Rat) ≤ (p.1 : Rat) := by exact_mod_cast h0
      have h1' : (p.1 : Rat) ≤ (n : Rat) - 1 := by
        have : p.1 ≤ n - 1 := by omega
        exact_mod_cast this
      refine ⟨⟨by simp only; linarith, by simp only; linarith⟩, p.1, h0, h1, by simp only; linarith, by simp only; linarith, rfl⟩

/-- on a non-negative image the refined coordinates even lie between the centres of the first and the last pixel -/
theorem refine_positions_between_pixel_centres (eps : Rat) (heps : 0 < eps) (cols : List (List Int)) (h : Nat) (n : Int)
    (hn : 1 ≤ n) (hi : ImageOK cols n) (pts : List (Int × Nat)) (hin : ∀ p ∈ pts, 0 ≤ p.1 ∧ p.1 < n)
    (out : List (Rat × Nat × Int)) (hr : refineMoment eps cols h n pts = .ok out) :
    ∀ q ∈ out, (0 : Rat) ≤ q.1 ∧ q.1 ≤ (n : Rat) - 1 := by
  unfold refineMoment at hr
  split at hr
  · cases hr
  · split at hr
    · cases hr
    · rename_i ps hps
      injection hr with hr
      subst hr
      intro q hq
      obtain ⟨p, hp, rfl⟩ := List.mem_map.1 hq
      exact refineLoop_position eps heps cols h n hn hi 100 pts ps hin hps p hp

-- non-vacuity: a 5-pixel, 2-line image; two points that walk to the bright pixels
example : ImageOK [[0, 1, 9, 1, 0], [0, 0, 2, 9, 1]] 5 := by
  intro col hcol
  simp only [List.mem_cons, List.not_mem_nil, or_false] at hcol
  rcases hcol with rfl | rfl <;> exact ⟨by decide, by decide⟩
example : refineMoment (1/10000000) [[0, 1, 9, 1, 0], [0, 0, 2, 9, 1]] 1 5 [(0, 0), (4, 1)]
    = .ok [(2, 0, 11), (3 + (-10000000 : Rat) / 120000001, 1, 12)] := by decide +kernel
-- the hypothesis on the image is needed: with a negative pixel the walk is stopped by the clamp and the refined
-- coordinate leaves the image
example : refineMoment (1/10) [[5, -4, 0]] 1 3 [(0, 0)] = .ok [((-40 : Rat) / 11, 0, 1)] := by decide +kernel


/-! ## `merge_close_peaks`: which detections reach the linker -/

/-- merging close peaks only removes detections: what is left of a frame is a sub-list of it, in order -/
theorem merge_close_sublist (d : Rat) (fr : List (Rat × Rat)) : (mergeCloseFrame d fr).Sublist fr :=
  mergeCloseFrame_sublist d fr

/-- **A peak is discarded only next to a close peak that is at least as bright**: every masked index `k` has another
    index `k'` of the frame whose coordinate is closer than the minimum distance and whose amplitude is not lower. -/
theorem merge_close_removed_spec (d : Rat) (fr : List (Rat × Rat)) :
    ∀ k ∈ mergeCloseRemoved d fr, ∃ k' p q, k' ≠ k ∧ fr[k]? = some p ∧ fr[k']? = some q ∧
      absRat (q.1 - p.1) < d ∧ p.2 ≤ q.2 := by
  intro k hk
  unfold mergeCloseRemoved at hk
  simp only [List.mem_filterMap] at hk
  obtain ⟨r, ⟨x, hx, hr⟩, hrk⟩ := hk
  have hx' := List.mem_zipIdx_iff_getElem?.1 hx
  rw [List.getElem?_zip_eq_some] at hx'
  obtain ⟨ha, hb⟩ := hx'
  rw [List.getElem?_tail] at hb
  obtain ⟨ka, hka, hfa⟩ := sorted_get fr x.2 x.1.1 ha
  obtain ⟨kb, hkb, hfb⟩ := sorted_get fr (x.2 + 1) x.1.2 hb
  have hne : ka ≠ kb := by
    intro he
    have hnd : (argsort (fun (a b : Rat) => decide (a ≤ b)) (fr.map (·.1))).Nodup :=
      (argsort_perm _ _).nodup_iff.2 List.nodup_range
    have h1 := List.getElem?_eq_some_iff.1 hka
    have h2 := List.getElem?_eq_some_iff.1 hkb
    obtain ⟨l1, e1⟩ := h1
    obtain ⟨l2, e2⟩ := h2
    have := (List.getElem_inj hnd).1 (e1.trans (he.trans e2.symm))
    omega
  split at hr
  · rename_i hclose
    injection hr with hr
    split at hr
    · rename_i hlow
      -- the right neighbour is strictly lower: it goes
      subst hr
      rw [hkb] at hrk
      injection hrk with hrk
      subst hrk
      refine ⟨ka, x.1.2, x.1.1, hne, hfb, hfa, ?_, hlow.le⟩
      unfold absRat at hclose ⊢
      split at hclose <;> split <;> linarith
    · rename_i hlow
      subst hr
      rw [hka] at hrk
      injection hrk with hrk
      subst hrk
      exact ⟨kb, x.1.1, x.1.2, fun h => hne h.symm, hfa, hfb, hclose, not_lt.1 hlow⟩
  · cases hr

-- three peaks at 1, 2, 5 with amplitudes 3, 7, 4 and minimum distance 2: the dimmer one of the close pair goes
example : mergeCloseFrame 2 [(1, 3), (2, 7), (5, 4)] = [(2, 7), (5, 4)] := by decide +kernel
-- one pass only: of three peaks one pixel apart with rising amplitudes the first two go (each is lower than its right neighbour)
example : mergeCloseFrame 2 [(1, 3), (2, 4), (3, 5)] = [(3, 5)] := by decide +kernel
-- the frame need not be sorted by coordinate
example : mergeCloseFrame 2 [(5, 4), (2, 7), (1, 3)] = [(5, 4), (2, 7)] := by decide +kernel

-- `sum_window_spec` needs `c ≥ −½`: below, `int()` truncates toward zero and the window is centred on pixel 0
-- although the pixel containing the point is −1 (outside the image; no tracked point lies there)
example : sumWindow [1, 2, 4] 0 (-3/4) (1/2) = 1 := by decide +kernel


/-! ## Refined tracks, and programs that refine and edit -/

/-- **`refine_tracks_centroid(…, bias_correction=False)` keeps tracks well formed**: on a non-negative image,
    tracks with coordinates in `[0, n − 1]` come out with the line indices of their interpolation (one point per
    line from first to last) and refined coordinates in `[0, n − 1]` again. -/
theorem refine_tracks_wellformed (eps : Rat) (heps : 0 < eps) (cols : List (List Int)) (h : Nat) (n : Int) (hn : 1 ≤ n)
    (hi : ImageOK cols n) (g g' : List Track)
    (hg : ∀ t ∈ g, WellFormed (cols.length : Int) 0 ((n : Rat) - 1) t)
    (hr : refineTracks eps cols h n g = .ok g') :
    g'.map timesOf = (g.map interpolate).map timesOf ∧
      ∀ t ∈ g', WellFormed (cols.length : Int) 0 ((n : Rat) - 1) t :=
  refineTracks_wf eps heps cols h n hn hi g g' hg hr

/-- **Every program of refinements (no bias correction), interpolations, splits, merges and filters keeps a
    group well formed**, coordinates in `[0, n − 1]`. -/
theorem refine_program_wellformed (eps : Rat) (heps : 0 < eps) (lt : Rat) (cols : List (List Int)) (n : Int) (hn : 1 ≤ n)
    (hi : ImageOK cols n) (sts : List Step) (g : List Track)
    (hg : ∀ t ∈ g, WellFormed (cols.length : Int) 0 ((n : Rat) - 1) t) :
    ∀ t ∈ runSteps eps lt cols n sts g, WellFormed (cols.length : Int) 0 ((n : Rat) - 1) t :=
  runSteps_wf eps heps lt cols n hn hi sts g hg

example : runSteps (1/10000000) (1/2) [[0, 1, 9, 1, 0], [0, 0, 2, 9, 1], [0, 0, 1, 2, 8]] 5
    [.refine 1, .edit (.split 0 1 1), .edit (.merge 0 0 1 1)] [[(0, 1), (2, 3)]]
    = [[(0, 2), (2, (380000004 : Rat) / 100000001)]] := by decide +kernel
example : WellFormed (([[0, 1, 9, 1, 0], [0, 0, 2, 9, 1], [0, 0, 1, 2, 8]] : List (List Int)).length : Int) 0 ((5 : Int) - 1 : Rat)
    [(0, 1), (2, 3)] := by
  refine ⟨by simp, by simp [Inc, timesOf], ?_⟩
  intro p hp
  simp only [List.mem_cons, List.not_mem_nil, or_false] at hp
  rcases hp with rfl | rfl <;> norm_num

end Verif.C08
