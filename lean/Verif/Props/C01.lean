/-
  C01 — property theorems (only statements + short proofs; helper lemmas live in Lemmas/C01).
  Every theorem is about the executable model in `Verif.Model.C01`, which the correspondence check
  ties to `lumicks/pylake/channel.py` and `detail/timeindex.py` on every run.
-/
import Verif.Lemmas.C01

namespace Verif.C01
open Verif.Py

/-! ## Window membership, for every integer window and every channel kind -/

/-- Continuous channels: the index arithmetic of `Continuous.slice` returns exactly the samples with
    `a ≤ t < b`, each with its value and timestamp, in order — for **all** windows (before,
    overlapping, inside, after, inverted, empty, off-grid) and all lengths. -/
theorem cont_slice_samples (c : Cont) (hdt : 0 < c.dt) (a b : Int) :
    (c.slice a b).samples = c.samples.filter (inWin a b) := by
  unfold Cont.samples Cont.slice
  show samplesFrom (alignedStart c a) c.dt (pySlice c.data (toIndex c.start c.dt (alignedStart c a))
    (max (toIndex c.start c.dt b) 0)) = _
  rw [filter_samplesFrom c.dt hdt a b c.data c.start, alignedStart_eq c hdt a]
  have hidx : toIndex c.start c.dt (c.start + ((cdiv (a - c.start) c.dt).toNat : Int) * c.dt)
      = ((cdiv (a - c.start) c.dt).toNat : Int) := by
    rw [toIndex_eq_cdiv]
    have : c.start + ((cdiv (a - c.start) c.dt).toNat : Int) * c.dt - c.start
        = ((cdiv (a - c.start) c.dt).toNat : Int) * c.dt := by omega
    rw [this, cdiv_mul _ _ hdt]
  rw [hidx, pySlice_nonneg _ _ _ (by omega) (by omega), toIndex_eq_cdiv]
  have e1 : ((((cdiv (a - c.start) c.dt).toNat : Nat) : Int)).toNat = (cdiv (a - c.start) c.dt).toNat :=
    Int.toNat_natCast _
  have e2 : (max (cdiv (b - c.start) c.dt) 0).toNat = (cdiv (b - c.start) c.dt).toNat := by omega
  rw [e1, e2]

theorem ts_slice_samples (l : List Sample) (a b : Int) :
    (Src.slice (.ts l) a b).samples = l.filter (inWin a b) := rfl

theorem tags_slice_samples (t : Tags) (a b : Int) :
    (t.slice a b).samples = t.samples.filter (inWin a b) := by
  unfold Tags.slice Tags.samples inWin
  simp only [List.filter_map]
  rfl

/-- The sliced time-tag source records the window itself (ordered) as its bounds. -/
theorem tags_bounds (t : Tags) (a b : Int) :
    (t.slice a b).start = min a b ∧ (t.slice a b).stop = max a b := ⟨rfl, rfl⟩

/-- All kinds at once. -/
theorem slice_samples (s : Src) (hdt : ∀ c, s = .cont c → 0 < c.dt) (a b : Int) :
    (s.slice a b).samples = s.samples.filter (inWin a b) := by
  cases s with
  | cont c => exact cont_slice_samples c (hdt c rfl) a b
  | ts l => rfl
  | tags t => exact tags_slice_samples t a b

/-- Order and identity of samples: the result is a sublist of the source. -/
theorem slice_sublist (s : Src) (hdt : ∀ c, s = .cont c → 0 < c.dt) (a b : Int) :
    (s.slice a b).samples.Sublist s.samples := by
  rw [slice_samples s hdt]; exact List.filter_sublist

/-- No sample outside the window is ever returned. -/
theorem slice_mem_window (s : Src) (hdt : ∀ c, s = .cont c → 0 < c.dt) (a b : Int) (x : Sample)
    (hx : x ∈ (s.slice a b).samples) : a ≤ x.1 ∧ x.1 < b := by
  rw [slice_samples s hdt, List.mem_filter] at hx
  simpa [inWin] using hx.2

/-- Every sample inside the window is returned. -/
theorem slice_complete (s : Src) (hdt : ∀ c, s = .cont c → 0 < c.dt) (a b : Int) (x : Sample)
    (hx : x ∈ s.samples) (h : a ≤ x.1 ∧ x.1 < b) : x ∈ (s.slice a b).samples := by
  rw [slice_samples s hdt, List.mem_filter]
  exact ⟨hx, by simpa [inWin] using h⟩

/-- A sliced continuous channel keeps its sample period, and stays a well-formed channel. -/
theorem cont_slice_dt (c : Cont) (a b : Int) : (c.slice a b).dt = c.dt := rfl

/-! ## Composition -/

theorem filter_inWin_inWin (l : List Sample) (a b c d : Int) :
    (l.filter (inWin a b)).filter (inWin c d) = l.filter (inWin (max a c) (min b d)) := by
  rw [List.filter_filter]
  congr 1
  funext x
  simp only [inWin]
  by_cases h1 : a ≤ x.1 <;> by_cases h2 : x.1 < b <;> by_cases h3 : c ≤ x.1 <;> by_cases h4 : x.1 < d <;>
    simp [h1, h2, h3, h4] <;> omega

/-- `s[a:b][c:d]` has the samples of `s[max(a,c):min(b,d)]`, for every kind of source. -/
theorem slice_compose (s : Src) (hdt : ∀ c, s = .cont c → 0 < c.dt) (a b c d : Int) :
    ((s.slice a b).slice c d).samples = (s.slice (max a c) (min b d)).samples := by
  have hdt' : ∀ c', s.slice a b = .cont c' → 0 < c'.dt := by
    intro c' h
    cases s with
    | cont c0 =>
      simp only [Src.slice, Src.cont.injEq] at h
      rw [← h]; exact hdt c0 rfl
    | ts l => simp [Src.slice] at h
    | tags t => simp [Src.slice] at h
  rw [slice_samples _ hdt', slice_samples s hdt, slice_samples s hdt, filter_inWin_inWin]

/-! ## `None` bounds and time strings -/


/-- `None` stands for the source's own start/stop; integers are taken as they are; a time string
    counts from the begin when non-negative and from the end when negative. -/
theorem getitem_spec (s : Src) (hne : s.len ≠ 0) (hdt : ∀ c, s = .cont c → 0 < c.dt) (a b : Bound) :
    (s.getitem a b).samples =
      s.samples.filter (inWin (resolve s.start s.stop s.start a) (resolve s.start s.stop s.stop b)) := by
  unfold Src.getitem
  rw [if_neg hne]
  exact slice_samples s hdt _ _

theorem getitem_empty (s : Src) (he : s.len = 0) (a b : Bound) : s.getitem a b = s := by
  unfold Src.getitem; rw [if_pos he]

theorem resolve_none (f l d : Int) : resolve f l d .none = d := rfl
theorem resolve_ts (f l d t : Int) : resolve f l d (.ts t) = t := rfl
theorem resolve_rel_nonneg (f l d ns : Int) (h : 0 ≤ ns) : resolve f l d (.rel ns) = f + ns := by
  simp [resolve, h]
theorem resolve_rel_neg (f l d ns : Int) (h : ns < 0) : resolve f l d (.rel ns) = l + ns := by
  simp only [resolve]; rw [if_neg (by omega)]

/-- A continuous channel's own `[start, stop)` contains all of its samples, so `s[:]` (both bounds
    `None`) returns every sample. -/
theorem cont_getitem_none (c : Cont) (hdt : 0 < c.dt) :
    ((Src.cont c).getitem .none .none).samples = c.samples := by
  by_cases hne : (Src.cont c).len = 0
  · rw [getitem_empty _ hne]; rfl
  · rw [getitem_spec _ hne (by intro c' h; cases h; exact hdt)]
    simp only [resolve, Src.samples, Src.start, Src.stop, Cont.stop]
    rw [List.filter_eq_self]
    intro x hx
    have := mem_samplesFrom c.dt hdt c.data c.start x hx
    simp [inWin, this.1, this.2]

/-! ## Composition at the `Slice.__getitem__` level (with the empty-source shortcut) -/

theorem len_eq_samples_length (s : Src) : s.len = s.samples.length := by
  cases s with
  | cont c =>
    simp only [Src.len, Src.samples, Cont.samples]
    generalize c.start = t0
    induction c.data generalizing t0 with
    | nil => rfl
    | cons v vs ih => simp [samplesFrom, ← ih]
  | ts l => rfl
  | tags t => simp [Src.len, Src.samples, Tags.samples]

theorem slice_keeps_dt (s : Src) (hdt : ∀ c, s = .cont c → 0 < c.dt) (a b : Int) :
    ∀ c', s.slice a b = .cont c' → 0 < c'.dt := by
  intro c' h
  cases s with
  | cont c0 =>
    simp only [Src.slice, Src.cont.injEq] at h
    rw [← h]; exact hdt c0 rfl
  | ts l => simp [Src.slice] at h
  | tags t => simp [Src.slice] at h

/-- `s[a:b][c:d]` through `Slice.__getitem__` (where an empty slice returns itself) has exactly the
    samples with `max(a,c) ≤ t < min(b,d)` — for every kind, every four integers, empty sources and
    empty intermediate results included. -/
theorem getitem_compose (s : Src) (hdt : ∀ c, s = .cont c → 0 < c.dt) (a b c d : Int) :
    ((s.getitem (.ts a) (.ts b)).getitem (.ts c) (.ts d)).samples =
      s.samples.filter (inWin (max a c) (min b d)) := by
  by_cases h0 : s.len = 0
  · rw [getitem_empty s h0, getitem_empty s h0]
    have : s.samples = [] := List.length_eq_zero_iff.mp (by rw [← len_eq_samples_length]; exact h0)
    rw [this]; rfl
  · have hin : s.getitem (.ts a) (.ts b) = s.slice a b := by
      unfold Src.getitem; rw [if_neg h0]; rfl
    rw [hin, ← filter_inWin_inWin, ← slice_samples s hdt a b]
    by_cases h1 : (s.slice a b).len = 0
    · rw [getitem_empty _ h1]
      have : (s.slice a b).samples = [] :=
        List.length_eq_zero_iff.mp (by rw [← len_eq_samples_length]; exact h1)
      rw [this]; rfl
    · rw [getitem_spec _ h1 (slice_keeps_dt s hdt a b)]
      rfl

/-- Non-vacuity: an off-grid window inside an off-grid window on a continuous channel. -/
example : (((Src.cont ⟨1000, 10, [0,1,2,3,4,5,6,7,8,9]⟩).getitem (.ts 1005) (.ts 1075)).getitem (.ts 1021) (.ts 2000)).samples
    = [(1030, 3), (1040, 4), (1050, 5), (1060, 6), (1070, 7)] := by decide

/-! ## Boolean masks -/

theorem mask_length_mismatch (l : List Sample) (m : List Bool) (h : l.length ≠ m.length) :
    applyMask l m = none := by
  unfold applyMask; rw [if_neg h]

/-- A mask keeps exactly the flagged samples, in order. -/
theorem mask_sublist (l : List Sample) (m : List Bool) (r : List Sample)
    (h : applyMask l m = some r) : r.Sublist l := by
  unfold applyMask at h
  split at h
  · injection h with h
    subst h
    induction l generalizing m with
    | nil => simp
    | cons x xs ih =>
      cases m with
      | nil => simp
      | cons k ks =>
        simp only [List.zip_cons_cons, List.filterMap_cons]
        cases k
        · simp only [Bool.false_eq_true, ↓reduceIte]
          exact List.Sublist.cons _ (ih ks (by simp_all))
        · simp only [↓reduceIte]
          exact List.Sublist.cons_cons _ (ih ks (by simp_all))
  · cases h

theorem mask_all_true (l : List Sample) :
    applyMask l (List.replicate l.length true) = some l := by
  unfold applyMask
  simp only [List.length_replicate, ↓reduceIte, Option.some.injEq]
  induction l with
  | nil => rfl
  | cons x xs ih => simp [List.replicate_succ, ih]

/-! ## Finding F1: the pinned (unrepaired) arithmetic is wrong, kernel-checked -/

/-- `Slice(Continuous(arange(10.), 1000, 10))[0:990]` on the pinned snapshot returns nine samples
    although the window ends before the first timestamp. -/
theorem F1_witness :
    (Cont.sliceUnfixed ⟨1000, 10, [0,1,2,3,4,5,6,7,8,9]⟩ 0 990).samples ≠
      (Cont.samples ⟨1000, 10, [0,1,2,3,4,5,6,7,8,9]⟩).filter (inWin 0 990) := by decide

/-- The same input on the repaired arithmetic (instance of `cont_slice_samples`). -/
example : (Cont.slice ⟨1000, 10, [0,1,2,3,4,5,6,7,8,9]⟩ 0 990).samples =
      (Cont.samples ⟨1000, 10, [0,1,2,3,4,5,6,7,8,9]⟩).filter (inWin 0 990) := by decide

/-- Non-vacuity: a window that cuts a channel in the middle, off-grid on both sides. -/
example : (Cont.slice ⟨1000, 10, [0,1,2,3,4,5,6,7,8,9]⟩ 1015 1061).samples
    = [(1020, 2), (1030, 3), (1040, 4), (1050, 5), (1060, 6)] := by decide

/-! ## Time strings -/

/-- Value of an accepted time string: sign times the sum over the groups of the truncated
    `number * ratio`, the number being read as an exact decimal. -/
theorem matchFull_value (cs : List Char) (v : Int) :
    matchFull cs = some v ↔
      ∃ toks, matchBody (splitSign cs).2 = some toks ∧
        v = (if (splitSign cs).1 then -1 else 1) * (((toks.map tokNs).sum : Nat) : Int) := by
  unfold matchFull
  cases hb : matchBody (splitSign cs).2 with
  | none => simp
  | some toks =>
    simp only [Option.some.injEq, exists_eq_left']
    cases (splitSign cs).1 <;> simp <;> constructor <;> intro h <;> omega

/-- A group contributes `⌊number · ratio⌋` nanoseconds; e.g. `4.1 s` is 4 100 000 000 ns (finding F6:
    the pinned snapshot computes 4 099 999 999 through a binary float product). -/
example : parseTime "4.1s" = some 4100000000 := by decide
example : parseTime "-1m 30s" = some (-90000000000) := by decide
example : parseTime "1h 7m" = some 4020000000000 := by decide
example : parseTime "1ns " = none := by decide
example : parseTime "1us " = some 1000 := by decide
example : parseTime " 1d" = none := by decide
example : parseTime " 1h" = some 3600000000000 := by decide
example : parseTime "1s 1m" = none := by decide
example : parseTime "1.5.5s" = none := by decide
example : parseTime "" = some 0 := by decide


/-- **Completeness on the strings people write.**  Any sequence of groups `<white space><whole number><unit>` with
    units in the order d, h, m, s, ms, us, ns (each at most once), no white space before a leading `d` group, is
    accepted, and its value is the sum of number × unit; with a leading `-` it is the negated sum. -/
theorem parse_canonical (gs : List Grp) (hwf : ∀ g ∈ gs, g.WF)
    (hinc : strictlyIncreasing (gs.map (·.unit)) = true)
    (hlead : ∀ g, gs.head? = some g → g.pre = [] ∨ g.unit ≠ 0) :
    matchFull (strs gs) = some (((gs.map Grp.ns).sum : Nat) : Int) ∧
    matchFull ('-' :: strs gs) = some (-(((gs.map Grp.ns).sum : Nat) : Int)) := by
  have hbody : matchBody (strs gs) = some (gs.map Grp.tok) := by
    unfold matchBody
    rw [lexToks_strs gs hwf _ (by have := length_le_strs gs hwf; omega)]
    have hunits : (gs.map Grp.tok).map (·.unit) = gs.map (·.unit) := by simp [Grp.tok]
    simp only [hunits, hinc, Bool.true_and, Bool.false_and, Bool.not_false, Bool.and_true]
    cases gs with
    | nil => simp [strs]
    | cons g gs' =>
      simp only [List.map_cons, List.head?_cons]
      rcases hlead g rfl with hp | hu
      · -- no leading white space: the first character is a digit
        have hg := hwf g (by simp)
        obtain ⟨d0, ds, hd⟩ : ∃ d0 ds, g.digits = d0 :: ds := by
          cases h : g.digits with
          | nil => exact absurd h hg.2.1
          | cons a b => exact ⟨a, b, rfl⟩
        have hd0 : isDigit d0 = true := by
          have := hg.2.2.1; rw [hd] at this; simp only [List.all_cons, Bool.and_eq_true] at this; exact this.1
        simp [strs, Grp.str, hp, hd, digit_not_space d0 hd0]
        split <;> rfl
      · have : (decide ((Grp.tok g).unit = 0)) = false := by simp [Grp.tok, hu]
        simp [this]
        split <;> rfl
  have hsum : ((gs.map Grp.tok).map tokNs).sum = (gs.map Grp.ns).sum := by
    simp only [List.map_map]; congr 1; apply List.map_congr_left; intro g _; exact tokNs_tok g
  constructor
  · unfold matchFull
    rw [head_not_minus gs hwf]
    simp only [hbody, hsum, Bool.false_eq_true, ↓reduceIte]
  · unfold matchFull
    simp only [splitSign, hbody, hsum, ↓reduceIte]

/-- non-vacuity: "1h 30m15s" -/
example : parseTime "1h 30m15s" = some 5415000000000 := by decide
example : (⟨[], ['1'], 1⟩ : Grp).str ++ (⟨[' '], ['3', '0'], 2⟩ : Grp).str ++ (⟨[], ['1', '5'], 3⟩ : Grp).str
    = "1h 30m15s".toList := by decide

/-! # Deepening round D -/

/-- Well-formed sources. -/
def Src.WF : Src → Prop
  | .cont c => 0 < c.dt
  | .ts l => l.Pairwise (fun x y => x.1 ≤ y.1)
  | .tags t => ∀ x ∈ t.data, t.start ≤ x ∧ x < t.stop

theorem wf_dt (s : Src) (h : s.WF) : ∀ c, s = .cont c → 0 < c.dt := by
  intro c hc; subst hc; exact h

theorem wf_slice (s : Src) (h : s.WF) (a b : Int) : (s.slice a b).WF := by
  cases s with
  | cont c => exact h
  | ts l => exact List.Pairwise.sublist List.filter_sublist h
  | tags t =>
    intro x hx
    simp only [Src.slice, Tags.slice, Tags.init, List.mem_filter, Bool.and_eq_true, decide_eq_true_eq] at hx ⊢
    omega

theorem wf_getitem (s : Src) (h : s.WF) (a b : Bound) : (s.getitem a b).WF := by
  unfold Src.getitem
  split
  · exact h
  · exact wf_slice s h _ _

/-- Every sample of a well-formed non-empty source lies in the source's own `[start, stop)`. -/
theorem wf_samples_in_bounds (s : Src) (h : s.WF) (x : Sample) (hx : x ∈ s.samples) :
    s.start ≤ x.1 ∧ x.1 < s.stop := by
  cases s with
  | cont c => exact mem_samplesFrom c.dt h c.data c.start x hx
  | ts l =>
    simp only [Src.samples] at hx
    simp only [Src.start, Src.stop]
    cases hh : l.head? with
    | none => rw [List.head?_eq_none_iff.mp hh] at hx; simp at hx
    | some y =>
      cases hl : l.getLast? with
      | none => rw [List.getLast?_eq_none_iff.mp hl] at hx; simp at hx
      | some z =>
        have h1 := pairwise_head_le l h x y hh hx
        have h2 := pairwise_le_last l h x z hl hx
        simp only [Option.map_some, Option.getD_some]
        omega
  | tags t =>
    simp only [Src.samples, Tags.samples, List.mem_map] at hx
    obtain ⟨y, hy, rfl⟩ := hx
    exact h y hy


/-! constructors establish the invariant -/

/-- `TimeTags(data)` with chronological data: the default bounds enclose the data. -/
theorem tags_init_wf (ts : List Int) (h : ts.Pairwise (· ≤ ·)) : (Src.tags (Tags.init ts none none)).WF := by
  intro x hx
  simp only [Tags.init] at hx ⊢
  have hs := pairwise_map_fst ts h
  have hm : ((x, x) : Sample) ∈ ts.map fun x => ((x, x) : Sample) := List.mem_map.mpr ⟨x, hx, rfl⟩
  cases hh : ts.head? with
  | none => rw [List.head?_eq_none_iff.mp hh] at hx; simp at hx
  | some y =>
    cases hl : ts.getLast? with
    | none => rw [List.getLast?_eq_none_iff.mp hl] at hx; simp at hx
    | some z =>
      have h1 := pairwise_head_le _ hs (x, x) (y, y) (by simp [List.head?_map, hh]) hm
      have h2 := pairwise_le_last _ hs (x, x) (z, z) (by simp [List.getLast?_map, hl]) hm
      simp only [Option.getD_some, Option.map_some]
      simp only at h1 h2
      omega

/-- `None` on both sides returns every sample — all three kinds. -/
theorem getitem_none_all (s : Src) (h : s.WF) : (s.getitem .none .none).samples = s.samples := by
  by_cases hne : s.len = 0
  · rw [getitem_empty _ hne]
  · rw [getitem_spec _ hne (wf_dt s h)]
    simp only [resolve]
    rw [List.filter_eq_self]
    intro x hx
    have := wf_samples_in_bounds s h x hx
    simp [inWin, this.1, this.2]

/-- A window bound as the user may give it at any level: `None` or an integer. -/
def optBound : Option Int → Bound
  | none => .none
  | some t => .ts t

/-- the constraint a lower / upper bound puts on a timestamp (`None`: no constraint) -/
def okLo (a : Option Int) (x : Sample) : Bool := match a with | none => true | some a => decide (a ≤ x.1)
def okHi (b : Option Int) (x : Sample) : Bool := match b with | none => true | some b => decide (x.1 < b)

/-- `s[a:b]` with `None` allowed on either side keeps exactly the samples satisfying the bounds that were given. -/
theorem getitem_opt_spec (s : Src) (h : s.WF) (a b : Option Int) :
    (s.getitem (optBound a) (optBound b)).samples = s.samples.filter (fun x => okLo a x && okHi b x) := by
  by_cases hne : s.len = 0
  · rw [getitem_empty _ hne]
    have : s.samples = [] := List.length_eq_zero_iff.mp (by rw [← len_eq_samples_length]; exact hne)
    rw [this]; rfl
  · rw [getitem_spec _ hne (wf_dt s h)]
    apply List.filter_congr
    intro x hx
    have := wf_samples_in_bounds s h x hx
    rw [Bool.eq_iff_iff]
    have ea : resolve s.start s.stop s.start (optBound a) = a.getD s.start := by cases a <;> rfl
    have eb : resolve s.start s.stop s.stop (optBound b) = b.getD s.stop := by cases b <;> rfl
    rw [ea, eb]
    cases a <;> cases b <;> simp [okLo, okHi, inWin, this.1, this.2]

/-- Composition with `None` in any of the four positions: `s[a:b][c:d]` keeps exactly the samples that satisfy
    every bound that was given (= `s[max(a,c):min(b,d)]` when all four are integers). -/
theorem getitem_compose_opt (s : Src) (h : s.WF) (a b c d : Option Int) :
    ((s.getitem (optBound a) (optBound b)).getitem (optBound c) (optBound d)).samples =
      s.samples.filter (fun x => okLo a x && okLo c x && okHi b x && okHi d x) := by
  rw [getitem_opt_spec _ (wf_getitem s h _ _), getitem_opt_spec s h, List.filter_filter]
  apply List.filter_congr
  intro x _
  cases okLo a x <;> cases okLo c x <;> cases okHi b x <;> cases okHi d x <;> rfl

/-- The hypothesis is needed for time series: a series stored out of chronological order has "begin" 5 and
    "end" 4, and `s[:]` loses every sample (kernel-checked). -/
theorem getitem_none_needs_sorted :
    ((Src.ts [(5, 0), (3, 1)]).getitem .none .none).samples ≠ (Src.ts [(5, 0), (3, 1)]).samples := by decide

example : (Src.ts [(3, 0), (5, 1), (5, 2), (9, 3)]).WF := by
  simp [Src.WF]
example : (Src.cont ⟨7, 3, [0, 1, 2]⟩).WF := by simp [Src.WF]


/-! ## the whole `Slice.__getitem__` -/

/-- A bound argument is an invalid time string. -/
def BoundArg.invalid : BoundArg → Bool
  | .str s => (parseTime s).isNone
  | _ => false

/-- The bound a well-formed argument stands for. -/
def BoundArg.toBound : BoundArg → Bound
  | .none => .none
  | .int t => .ts t
  | .str s => .rel ((parseTime s).getD 0)
  | .other => .none

/-- Decision table of the window branch of `Slice.__getitem__` (the code takes these decisions one after the
    other while converting; the table says which outcome every combination of arguments has):
    empty source → itself, whatever the bounds; else an invalid time string on either side → `RuntimeError`;
    else a bound that is neither `None`, an integer nor a string → `TypeError`; else the samples inside the window. -/
theorem window_table (s : Src) (a b : BoundArg) :
    s.window a b =
      if s.len = 0 then .ok s
      else if a.invalid || b.invalid then .error .runtimeError
      else if a = .other ∨ b = .other then .error .typeError
      else .ok (s.getitem a.toBound b.toBound) := by
  unfold Src.window
  by_cases h0 : s.len = 0
  · simp [h0]
  · simp only [h0, ↓reduceIte]
    have hg : ∀ a' b' : Bound, s.getitem a' b' =
        s.slice (resolve s.start s.stop s.start a') (resolve s.start s.stop s.stop b') := by
      intro a' b'; unfold Src.getitem; rw [if_neg h0]
    cases a with
    | none =>
      cases b with
      | none => simp [toTimestamp, BoundArg.invalid, BoundArg.toBound, hg, resolve]
      | int t => simp [toTimestamp, BoundArg.invalid, BoundArg.toBound, hg, resolve]
      | other => simp [toTimestamp, BoundArg.invalid]
      | str sb =>
        cases hb : parseTime sb <;> simp [toTimestamp, BoundArg.invalid, BoundArg.toBound, hg, resolve, hb]
    | int ta =>
      cases b with
      | none => simp [toTimestamp, BoundArg.invalid, BoundArg.toBound, hg, resolve]
      | int t => simp [toTimestamp, BoundArg.invalid, BoundArg.toBound, hg, resolve]
      | other => simp [toTimestamp, BoundArg.invalid]
      | str sb =>
        cases hb : parseTime sb <;> simp [toTimestamp, BoundArg.invalid, BoundArg.toBound, hg, resolve, hb]
    | other =>
      cases b with
      | none => simp [toTimestamp, BoundArg.invalid]
      | int t => simp [toTimestamp, BoundArg.invalid]
      | other => simp [toTimestamp, BoundArg.invalid]
      | str sb =>
        cases hb : parseTime sb <;> simp [toTimestamp, BoundArg.invalid, hb]
    | str sa =>
      cases ha : parseTime sa with
      | none => simp [toTimestamp, BoundArg.invalid, ha]
      | some na =>
        cases b with
        | none => simp [toTimestamp, BoundArg.invalid, BoundArg.toBound, hg, resolve, ha]
        | int t => simp [toTimestamp, BoundArg.invalid, BoundArg.toBound, hg, resolve, ha]
        | other => simp [toTimestamp, BoundArg.invalid, ha]
        | str sb =>
          cases hb : parseTime sb <;> simp [toTimestamp, BoundArg.invalid, BoundArg.toBound, hg, resolve, ha, hb]


theorem getitemFull_obj (s : Src) (a b : BoundArg) :
    s.getitemFull (.obj a b) = s.getitemFull (.slice a b false) := rfl
theorem getitemFull_step (s : Src) (a b : BoundArg) : s.getitemFull (.slice a b true) = .error .indexError := rfl
theorem getitemFull_scalar (s : Src) : s.getitemFull .scalar = .error .indexError := rfl

/-- The property at the level of `Slice.__getitem__`: whenever indexing with a slice (or an object with
    start/stop) succeeds, the result holds exactly the samples inside the resolved window. -/
theorem getitemFull_window_spec (s : Src) (hdt : ∀ c, s = .cont c → 0 < c.dt) (a b : BoundArg) (r : Src)
    (hr : s.getitemFull (.slice a b false) = .ok r) :
    r.samples = s.samples.filter
      (inWin (resolve s.start s.stop s.start a.toBound) (resolve s.start s.stop s.stop b.toBound)) := by
  have ht := window_table s a b
  simp only [Src.getitemFull, Bool.false_eq_true, ↓reduceIte] at hr
  rw [ht] at hr
  by_cases h0 : s.len = 0
  · rw [if_pos h0] at hr
    injection hr with hr; subst hr
    have : s.samples = [] := List.length_eq_zero_iff.mp (by rw [← len_eq_samples_length]; exact h0)
    rw [this]; rfl
  · rw [if_neg h0] at hr
    split at hr
    · cases hr
    · split at hr
      · cases hr
      · injection hr with hr; subst hr
        exact getitem_spec s h0 hdt _ _

/-- A boolean mask keeps exactly the flagged samples (by position), or raises when the lengths differ. -/
theorem applyMask_spec (l : List Sample) (m : List Bool) :
    applyMask l m = if l.length = m.length then some (maskSpec l m) else none := by
  unfold applyMask
  split
  · rename_i h; rw [zipMask_eq l m h]
  · rfl

/-- `_apply_mask` of every source kind. -/
theorem src_applyMask_table (s : Src) (m : List Bool) :
    s.applyMask m =
      match s with
      | .tags _ => .error .notImplemented
      | _ => if s.len = m.length then .ok (.ts (maskSpec s.samples m)) else .error .indexError := by
  cases s with
  | tags t => rfl
  | cont c =>
    simp only [Src.applyMask, applyMask_spec, len_eq_samples_length]
    by_cases h : (Src.cont c).samples.length = m.length
    · simp only [h, ↓reduceIte]
    · simp only [h, ↓reduceIte]
  | ts l =>
    simp only [Src.applyMask, applyMask_spec, len_eq_samples_length]
    by_cases h : (Src.ts l).samples.length = m.length
    · simp only [h, ↓reduceIte]
    · simp only [h, ↓reduceIte]


/-! ## Deepening round D: the time-string grammar -/

/-- **The hand-written matcher accepts exactly the language of the regular expression, with the same captures.** -/
theorem matchBody_iff (cs : List Char) (toks : List Tok) : matchBody cs = some toks ↔ BodyMatch cs toks := by
  constructor
  · intro h
    have h' := h
    unfold matchBody at h'
    split at h'
    · cases h'
    · rename_i toks' trailing hlex
      obtain ⟨gs, post, hwf, hp, hcs, hts, htr⟩ := lexToks_sound _ _ _ _ hlex
      subst hcs
      rw [matchBody_eq gs post hwf hp] at h
      obtain ⟨hchk, hab⟩ := ite_some_eq h
      subst hab
      refine body_of_canon gs post ((checksG_iff gs post hwf hp _ ?_).mp hchk)
      intro g hg
      cases gs with
      | nil => simp at hg
      | cons g' gs' =>
        simp only [List.head?_cons, Option.some.injEq] at hg; subst hg
        have := leading_eq g' (hwf g' (by simp)) (strsG gs' ++ post)
        simpa [strsG, List.append_assoc] using this
  · intro h
    obtain ⟨gs, post, hcs, hc, htk⟩ := canon_of_body cs toks h
    obtain ⟨hwf, hp⟩ := canonTail_wf 0 gs post hc.1
    subst hcs; subst htk
    rw [matchBody_eq gs post hwf hp, if_pos]
    refine (checksG_iff gs post hwf hp _ ?_).mpr hc
    intro g hg
    cases gs with
    | nil => simp at hg
    | cons g' gs' =>
      simp only [List.head?_cons, Option.some.injEq] at hg; subst hg
      have := leading_eq g' (hwf g' (by simp)) (strsG gs' ++ post)
      simpa [strsG, List.append_assoc] using this


/-- Two ways of matching the same text capture the same numbers and units. -/
theorem captures_unique (cs : List Char) (t1 t2 : List Tok) (h1 : BodyMatch cs t1) (h2 : BodyMatch cs t2) :
    t1 = t2 := by
  have a := (matchBody_iff cs t1).mpr h1
  have b := (matchBody_iff cs t2).mpr h2
  rw [a] at b; injection b

/-- **The language and the value of `Timeindex`'s regular expression**: an optional `-`, then the body; the value is
    the sum over the captured groups of `⌊number × ratio⌋`, negated after a `-`. -/
def TimeString (cs : List Char) (v : Int) : Prop :=
  ∃ body toks, BodyMatch body toks ∧
    ((cs = body ∧ v = (((toks.map tokNs).sum : Nat) : Int)) ∨
     (cs = '-' :: body ∧ v = -(((toks.map tokNs).sum : Nat) : Int)))

theorem matchFull_iff (cs : List Char) (v : Int) : matchFull cs = some v ↔ TimeString cs v := by
  constructor
  · intro h
    unfold matchFull at h
    split at h
    · cases h
    · rename_i toks hb
      injection h with h
      have hbm := (matchBody_iff _ _).mp hb
      refine ⟨(splitSign cs).2, toks, hbm, ?_⟩
      unfold splitSign at h hb hbm ⊢
      split at h
      · right; exact ⟨rfl, by simpa using h.symm⟩
      · left; exact ⟨rfl, by simpa using h.symm⟩
  · rintro ⟨body, toks, hbm, h⟩
    have hb := (matchBody_iff _ _).mpr hbm
    rcases h with ⟨hcs, hv⟩ | ⟨hcs, hv⟩
    · subst hcs
      have hs : splitSign cs = (false, cs) := by
        unfold splitSign
        split
        · rename_i r; exact absurd rfl (body_not_minus _ toks hbm r)
        · rfl
      unfold matchFull
      rw [hs]; simp only [hb, hv]; rfl
    · subst hcs
      unfold matchFull
      simp only [splitSign, hb, hv]; rfl

/-- `Timeindex(s)`: the whole string is a time string, or — Python's `$` — it is one followed by a single newline. -/
theorem parseTime_spec (s : String) (v : Int) :
    parseTime s = some v ↔
      TimeString s.toList v ∨
      ((∀ w, ¬ TimeString s.toList w) ∧ ∃ body, s.toList = body ++ ['\n'] ∧ TimeString body v) := by
  cases hm : matchFull s.toList with
  | some w =>
    have hp : parseTime s = some w := by simp only [parseTime, hm]
    rw [hp]
    have hw := (matchFull_iff _ _).mp hm
    constructor
    · intro h; injection h with h; subst h; exact Or.inl hw
    · rintro (h | ⟨h, _⟩)
      · have := (matchFull_iff _ _).mpr h; rw [hm] at this; exact this
      · exact absurd hw (h w)
  | none =>
    have hp : parseTime s = match s.toList.getLast? with
        | some '\n' => matchFull s.toList.dropLast
        | _ => none := by simp only [parseTime, hm]; rfl
    rw [hp]
    have hnone : ∀ w, ¬ TimeString s.toList w := by
      intro w hw; have := (matchFull_iff _ _).mpr hw; rw [hm] at this; cases this
    constructor
    · intro h
      right
      refine ⟨hnone, ?_⟩
      split at h
      · rename_i hl
        obtain ⟨ys, hys⟩ := List.getLast?_eq_some_iff.mp hl
        refine ⟨s.toList.dropLast, ?_, (matchFull_iff _ _).mp h⟩
        rw [hys]; simp
      · cases h
    · rintro (h | ⟨_, body, hb, hv⟩)
      · exact absurd h (hnone v)
      · have hl : s.toList.getLast? = some '\n' := by rw [hb]; simp
        have hd : s.toList.dropLast = body := by rw [hb]; simp
        split
        · rw [hd]; exact (matchFull_iff _ _).mpr hv
        · rename_i hne; exact absurd hl (hne)


/-- non-vacuity: "1.5s" as a match of the regular expression (whole part `1`, a dot, decimals `5`, unit `s`) -/
example : BodyMatch "1.5s".toList [⟨⟨15, 1⟩, 3⟩] :=
  BodyMatch.absent _ _ (TailMatch.absent 1 [] _ _ (by omega) rfl (TailMatch.absent 2 [] _ _ (by omega) rfl
    (TailMatch.present 3 [] "1.5s".toList [] _ [] (by omega) rfl
      (GroupMatch.mk ['1'] ['5'] [] true rfl rfl (by simp) rfl)
      (TailMatch.absent 4 [] _ _ (by omega) rfl (TailMatch.absent 5 [] _ _ (by omega) rfl
        (TailMatch.absent 6 [] _ _ (by omega) rfl TailMatch.done))))))
example : TimeString "-1m 30s".toList (-90000000000) := (matchFull_iff _ _).mp (by decide)
example : ¬ TimeString "1ns ".toList 1 := fun h => by
  have := (matchFull_iff _ _).mpr h; revert this; decide

/-! ## Deepening round D: the value of a group -/

/-- The digit reader computes the positional decimal value. -/
theorem digitsToNat_eq (ds : List Char) : digitsToNat ds = decValue ds := by
  unfold digitsToNat; rw [foldl_digits]; simp

/-- A group contributes the whole number of nanoseconds in `number × ratio`, the number being the exact decimal
    `mant / 10^decimals`: `tokNs ≤ mant·ratio / 10^decimals < tokNs + 1`, stated without division. -/
theorem tokNs_floor (t : Tok) (r : Nat) (hr : (units[t.unit]?).map (·.2) = some r) :
    tokNs t * 10 ^ t.num.decimals ≤ t.num.mant * r ∧ t.num.mant * r < (tokNs t + 1) * 10 ^ t.num.decimals := by
  unfold tokNs
  rw [hr]
  simp only [Option.getD_some]
  have hpos : 0 < 10 ^ t.num.decimals := Nat.pow_pos (by omega)
  constructor
  · exact Nat.div_mul_le_self _ _
  · have := Nat.lt_mul_div_succ (t.num.mant * r) hpos
    rw [Nat.mul_comm (10 ^ t.num.decimals)] at this
    exact this

example : tokNs ⟨⟨41, 1⟩, 3⟩ = 4100000000 := by decide

/-! ## Deepening round D: invariants through every way of indexing; chains -/

/-- The samples of a well-formed continuous or time-series source are in chronological order. -/
theorem wf_samples_sorted (s : Src) (h : s.WF) (hk : ∀ t, s ≠ .tags t) :
    s.samples.Pairwise (fun x y => x.1 ≤ y.1) := by
  cases s with
  | cont c => exact samplesFrom_sorted c.dt h c.data c.start
  | ts l => exact h
  | tags t => exact absurd rfl (hk t)

/-- A boolean mask yields a well-formed (chronological) time series. -/
theorem applyMask_wf (s : Src) (h : s.WF) (m : List Bool) (r : Src) (hr : s.applyMask m = .ok r) : r.WF := by
  cases s with
  | tags t => cases hr
  | cont c =>
    simp only [Src.applyMask] at hr
    split at hr
    · rename_i l hl
      injection hr with hr; subst hr
      exact List.Pairwise.sublist (mask_sublist _ _ _ hl) (samplesFrom_sorted c.dt h c.data c.start)
    · cases hr
  | ts l0 =>
    simp only [Src.applyMask] at hr
    split at hr
    · rename_i l hl
      injection hr with hr; subst hr
      exact List.Pairwise.sublist (mask_sublist _ _ _ hl) h
    · cases hr

theorem window_wf (s : Src) (h : s.WF) (a b : BoundArg) (r : Src) (hr : s.window a b = .ok r) : r.WF := by
  rw [window_table] at hr
  split at hr
  · injection hr with hr; subst hr; exact h
  · split at hr
    · cases hr
    · split at hr
      · cases hr
      · injection hr with hr; subst hr; exact wf_getitem s h _ _

/-- **Every way of indexing preserves the invariants** (positive period / chronological order / time tags inside
    their reported bounds): whatever `Slice.__getitem__` returns is again a well-formed source, so all theorems
    above apply to chains of any length. -/
theorem getitemFull_wf (s : Src) (h : s.WF) (it : Item) (r : Src) (hr : s.getitemFull it = .ok r) : r.WF := by
  cases it with
  | mask m => exact applyMask_wf s h m r hr
  | slice a b step =>
    cases step with
    | true => cases hr
    | false => exact window_wf s h a b r hr
  | obj a b => exact window_wf s h a b r hr
  | scalar => cases hr

/-- derive → derive → query: a mask and then a window keep exactly the flagged samples inside the window. -/
theorem mask_then_window (s : Src) (m : List Bool) (a b : BoundArg) (r r' : Src)
    (h1 : s.getitemFull (.mask m) = .ok r) (h2 : r.getitemFull (.slice a b false) = .ok r') :
    r'.samples = (maskSpec s.samples m).filter
      (inWin (resolve r.start r.stop r.start a.toBound) (resolve r.start r.stop r.stop b.toBound)) := by
  have hr : r = .ts (maskSpec s.samples m) := by
    simp only [Src.getitemFull, src_applyMask_table] at h1
    cases s with
    | tags t => cases h1
    | cont c =>
      simp only at h1
      split at h1
      · injection h1 with h1; exact h1.symm
      · cases h1
    | ts l =>
      simp only at h1
      split at h1
      · injection h1 with h1; exact h1.symm
      · cases h1
  have := getitemFull_window_spec r (by intro c hc; rw [hr] at hc; cases hc) a b r' h2
  rw [this]
  subst hr
  rfl

/-- … and a window and then a mask keep the flagged ones among the samples inside the window. -/
theorem window_then_mask (s : Src) (hdt : ∀ c, s = .cont c → 0 < c.dt) (m : List Bool) (a b : BoundArg) (r r' : Src)
    (h1 : s.getitemFull (.slice a b false) = .ok r) (h2 : r.getitemFull (.mask m) = .ok r') :
    r'.samples = maskSpec (s.samples.filter
      (inWin (resolve s.start s.stop s.start a.toBound) (resolve s.start s.stop s.stop b.toBound))) m := by
  have hs := getitemFull_window_spec s hdt a b r h1
  simp only [Src.getitemFull, src_applyMask_table] at h2
  cases r with
  | tags t => cases h2
  | cont c =>
    simp only at h2
    split at h2
    · injection h2 with h2; rw [← h2, ← hs]; rfl
    · cases h2
  | ts l =>
    simp only at h2
    split at h2
    · injection h2 with h2; rw [← h2, ← hs]; rfl
    · cases h2

example : (Src.ts [(3, 0), (5, 1), (5, 2), (9, 3)]).getitemFull (.mask [true, false, true, true])
    = .ok (.ts [(3, 0), (5, 2), (9, 3)]) := by rfl
example : (Src.ts [(3, 0), (5, 2), (9, 3)]).getitemFull (.slice (.int 4) .none false)
    = .ok (.ts [(5, 2), (9, 3)]) := by rfl


/-! ## Deepening round D: Python's `$` and the literal regular expression -/

theorem timeString_drop_newline (b : List Char) (w : Int) (h : TimeString (b ++ ['\n']) w) : TimeString b w := by
  obtain ⟨body, toks, hbm, hh⟩ := h
  rcases hh with ⟨hcs, hv⟩ | ⟨hcs, hv⟩
  · subst hcs
    exact ⟨b, toks, body_drop_newline b toks hbm, Or.inl ⟨rfl, hv⟩⟩
  · cases b with
    | nil => simp at hcs
    | cons x xs =>
      simp only [List.cons_append, List.cons.injEq] at hcs
      obtain ⟨hx, hxs⟩ := hcs
      subst hx; subst hxs
      exact ⟨xs, toks, body_drop_newline xs toks hbm, Or.inr ⟨rfl, hv⟩⟩

theorem timeString_functional (cs : List Char) (v w : Int) (h1 : TimeString cs v) (h2 : TimeString cs w) : v = w := by
  have a := (matchFull_iff _ _).mpr h1
  have b := (matchFull_iff _ _).mpr h2
  rw [a] at b; injection b

/-- `Timeindex(s).total_ns = v` exactly when `s`, or `s` without one final newline (Python's `$`), is a time string
    of value `v`; the two readings never disagree. -/
theorem parseTime_iff (s : String) (v : Int) :
    parseTime s = some v ↔
      TimeString s.toList v ∨ ∃ body, s.toList = body ++ ['\n'] ∧ TimeString body v := by
  rw [parseTime_spec]
  constructor
  · rintro (h | ⟨_, h⟩)
    · exact Or.inl h
    · exact Or.inr h
  · rintro (h | ⟨body, hb, hv⟩)
    · exact Or.inl h
    · by_cases hw : ∃ w, TimeString s.toList w
      · obtain ⟨w, hw⟩ := hw
        have := timeString_drop_newline body w (by rw [← hb]; exact hw)
        have e := timeString_functional body v w hv this
        subst e
        exact Or.inl hw
      · exact Or.inr ⟨fun w h => hw ⟨w, h⟩, body, hb, hv⟩

/-- **The specification `BodyMatch` is the regular expression itself**: a text matches the pattern
    `(G_d)?\s*(G_h)?\s*…\s*(G_ns)?` (textbook semantics) exactly when it has a `BodyMatch` derivation. -/
theorem bodyMatch_iff_rx (cs : List Char) : rxBody.Matches cs ↔ ∃ toks, BodyMatch cs toks := by
  have h6 := tail_base
  have h5 := tail_step 5 (by omega) _ _ h6
  have h4 := tail_step 4 (by omega) _ _ h5
  have h3 := tail_step 3 (by omega) _ _ h4
  have h2 := tail_step 2 (by omega) _ _ h3
  have h1 := tail_step 1 (by omega) _ _ h2
  unfold rxBody
  simp only [rxJoin] at h1 ⊢
  rw [seq_iff]
  constructor
  · rintro ⟨g, rest, rfl, hg, hrest⟩
    obtain ⟨toks, ht⟩ := (h1 rest).mp hrest
    rcases (group_iff 0 g).mp hg with rfl | ⟨tok, hg⟩
    · exact ⟨toks, BodyMatch.absent _ _ ht⟩
    · exact ⟨tok :: toks, BodyMatch.present g rest tok toks hg ht⟩
  · rintro ⟨toks, h⟩
    cases h with
    | absent _ _ ht => exact ⟨[], cs, rfl, (group_iff 0 []).mpr (Or.inl rfl), (h1 cs).mpr ⟨toks, ht⟩⟩
    | present g rest tok toks hg ht =>
      exact ⟨g, rest, rfl, (group_iff 0 g).mpr (Or.inr ⟨tok, hg⟩), (h1 rest).mpr ⟨_, ht⟩⟩

/-- The time strings are exactly the texts the whole pattern `-?(G_d)?\s*…\s*(G_ns)?` matches. -/
theorem timeString_iff_rx (cs : List Char) : rxFull.Matches cs ↔ ∃ v, TimeString cs v := by
  unfold rxFull
  rw [seq_iff]
  constructor
  · rintro ⟨sg, body, rfl, hs, hb⟩
    obtain ⟨toks, hbm⟩ := (bodyMatch_iff_rx body).mp hb
    rcases (opt_iff _ _).mp hs with rfl | hs
    · exact ⟨_, body, toks, hbm, Or.inl ⟨rfl, rfl⟩⟩
    · obtain ⟨c, rfl, hc⟩ := (cls_iff _ _).mp hs
      have : c = '-' := by simpa using hc
      subst this
      exact ⟨_, body, toks, hbm, Or.inr ⟨rfl, rfl⟩⟩
  · rintro ⟨v, body, toks, hbm, h⟩
    have hb := (bodyMatch_iff_rx body).mpr ⟨toks, hbm⟩
    rcases h with ⟨rfl, _⟩ | ⟨rfl, _⟩
    · exact ⟨[], cs, rfl, .opt_none _, hb⟩
    · exact ⟨['-'], body, rfl, .opt_some _ _ (.cls _ '-' (by simp)), hb⟩

/-- The hand-written matcher accepts exactly the texts the regular expression matches. -/
theorem matchFull_accepts_iff_rx (cs : List Char) : (matchFull cs).isSome = true ↔ rxFull.Matches cs := by
  rw [timeString_iff_rx, Option.isSome_iff_exists]
  exact exists_congr fun v => matchFull_iff cs v


/-- non-vacuity: the regular expression matches "-1m 30s" and not "1ns " (through the equivalence) -/
example : rxFull.Matches "-1m 30s".toList := (matchFull_accepts_iff_rx _).mp (by decide)
example : ¬ rxFull.Matches "1ns ".toList := fun h => by
  have := (matchFull_accepts_iff_rx _).mpr h; revert this; decide

/-! ## Deepening round D: what a result reports as its begin and end; chains of any depth -/

/-- The start a sliced continuous channel reports is the first grid timestamp at or after the window's start
    (and never before the channel's own start): it lies on the grid, is `≥ a`, and no earlier grid point is. -/
theorem alignedStart_least (c : Cont) (hdt : 0 < c.dt) (a : Int) :
    (∃ k : Nat, alignedStart c a = c.start + k * c.dt) ∧ a ≤ alignedStart c a ∧
    ∀ j : Nat, a ≤ c.start + j * c.dt → alignedStart c a ≤ c.start + j * c.dt := by
  rw [alignedStart_eq c hdt a]
  refine ⟨⟨_, rfl⟩, ?_, ?_⟩
  · by_cases h : 0 ≤ cdiv (a - c.start) c.dt
    · have : ((cdiv (a - c.start) c.dt).toNat : Int) = cdiv (a - c.start) c.dt := Int.toNat_of_nonneg h
      rw [this]
      have := (cdiv_le_iff hdt (cdiv (a - c.start) c.dt)).mp (Int.le_refl _)
      omega
    · have h0 : (cdiv (a - c.start) c.dt).toNat = 0 := by omega
      rw [h0]
      have : cdiv (a - c.start) c.dt ≤ 0 := by omega
      have := (cdiv_le_iff hdt 0).mp this
      simp at this ⊢
      omega
  · intro j hj
    have h1 : cdiv (a - c.start) c.dt ≤ j := (cdiv_le_iff hdt j).mpr (by omega)
    have h2 : ((cdiv (a - c.start) c.dt).toNat : Int) ≤ j := by omega
    have := Int.mul_le_mul_of_nonneg_right h2 (Int.le_of_lt hdt)
    omega

/-- What the result of slicing reports as its begin and end, per kind (these are what `None` and relative time
    strings mean at the next level): continuous — the first kept timestamp and one period after the last kept one;
    time series — the first kept timestamp and one nanosecond after the last kept one. -/
theorem cont_bounds_tight (c : Cont) (hne : c.data ≠ []) :
    c.samples.head?.map (·.1) = some c.start ∧ c.samples.getLast?.map (·.1) = some (c.stop - c.dt) := by
  cases hd : c.data with
  | nil => exact absurd hd hne
  | cons v vs =>
    have := samplesFrom_ends c.dt v vs c.start
    unfold Cont.samples Cont.stop
    rw [hd]
    refine ⟨this.1, ?_⟩
    rw [this.2]
    simp only [List.length_cons, Option.some.injEq]
    rw [Int.natCast_add, Int.add_mul]; omega

theorem ts_bounds_tight (l : List Sample) (hne : l ≠ []) :
    l.head?.map (·.1) = some (Src.ts l).start ∧ l.getLast?.map (·.1 + 1) = some (Src.ts l).stop := by
  cases l with
  | nil => exact absurd rfl hne
  | cons x xs =>
    simp only [Src.start, Src.stop]
    constructor
    · simp
    · cases h : (x :: xs).getLast? with
      | none => simp at h
      | some y => simp

/-- Two nested indexings with any kind of bound (`None`, timestamps, time strings): the second one's bounds are
    resolved against the begin and end of the intermediate slice. -/
theorem getitem_getitem_spec (s : Src) (hdt : ∀ c, s = .cont c → 0 < c.dt) (a b c d : Bound)
    (h0 : s.len ≠ 0) (h1 : (s.getitem a b).len ≠ 0) :
    ((s.getitem a b).getitem c d).samples =
      (s.samples.filter (inWin (resolve s.start s.stop s.start a) (resolve s.start s.stop s.stop b))).filter
        (inWin (resolve (s.getitem a b).start (s.getitem a b).stop (s.getitem a b).start c)
               (resolve (s.getitem a b).start (s.getitem a b).stop (s.getitem a b).stop d)) := by
  have hdt' : ∀ c', s.getitem a b = .cont c' → 0 < c'.dt := by
    unfold Src.getitem; rw [if_neg h0]; exact slice_keeps_dt s hdt _ _
  rw [getitem_spec _ h1 hdt', getitem_spec s h0 hdt]

example : (((Src.ts [(1, 0), (2, 1), (4, 2), (7, 3)]).getitem (.ts 2) .none).getitem (.rel 1) (.rel (-1))).samples
    = [(4, 2)] := by decide


/-- `s[a₁:b₁][a₂:b₂]…[aₙ:bₙ]` -/
def chain (s : Src) (ws : List (Option Int × Option Int)) : Src :=
  ws.foldl (fun s w => s.getitem (optBound w.1) (optBound w.2)) s

/-- **Slicing composes, to any depth**: a chain of windows (integers or `None` anywhere) on a well-formed source
    keeps exactly the samples that satisfy every bound given along the way — the intersection of the windows. -/
theorem chain_spec (ws : List (Option Int × Option Int)) (s : Src) (h : s.WF) :
    (chain s ws).samples = s.samples.filter (fun x => ws.all fun w => okLo w.1 x && okHi w.2 x) := by
  induction ws generalizing s with
  | nil =>
    simp only [chain, List.foldl_nil, List.all_nil]
    exact (List.filter_eq_self.mpr (by intros; rfl)).symm
  | cons w ws ih =>
    have := ih (s.getitem (optBound w.1) (optBound w.2)) (wf_getitem s h _ _)
    unfold chain at this ⊢
    rw [List.foldl_cons, this, getitem_opt_spec s h, List.filter_filter]
    apply List.filter_congr
    intro x _
    simp only [List.all_cons]
    rw [Bool.and_comm]

/-- The order of the windows does not matter. -/
theorem chain_perm (ws ws' : List (Option Int × Option Int)) (hp : ws.Perm ws') (s : Src) (h : s.WF) :
    (chain s ws).samples = (chain s ws').samples := by
  rw [chain_spec ws s h, chain_spec ws' s h]
  apply List.filter_congr
  intro x _
  exact hp.all_eq

/-- Slicing twice with the same window changes nothing more. -/
theorem chain_idem (w : Option Int × Option Int) (s : Src) (h : s.WF) :
    (chain s [w, w]).samples = (chain s [w]).samples := by
  rw [chain_spec _ s h, chain_spec _ s h]
  apply List.filter_congr
  intro x _
  simp

example : (chain (.cont ⟨1000, 10, [0,1,2,3,4,5,6,7,8,9]⟩) [(some 1005, none), (none, some 1075), (some 1021, some 2000)]).samples
    = [(1030, 3), (1040, 4), (1050, 5), (1060, 6), (1070, 7)] := by decide



/-! ### non-vacuity of the hypotheses used in this round -/
example : ([1, 2, 4] : List Int).Pairwise (· ≤ ·) := by decide
example : (Src.tags (Tags.init [1, 2, 4] none none)).WF := tags_init_wf _ (by decide)
example : (Src.tags ((Tags.init [1, 2, 4] none none).slice 2 9)).WF :=
  wf_slice _ (tags_init_wf _ (by decide)) 2 9
example : (0 : Int) < (⟨1000, 10, [0, 1, 2]⟩ : Cont).dt := by decide
example : (⟨1000, 10, [0, 1, 2]⟩ : Cont).data ≠ [] := by decide
example : ([(3, 0), (5, 1)] : List Sample) ≠ [] := by decide
example : (units[3]?).map (·.2) = some 1000000000 := rfl
example : TimeString ("1s".toList ++ ['\n']) 1000000000 := (matchFull_iff _ _).mp (by decide)
example : (Src.ts [(3, 0), (5, 1), (5, 2), (9, 3)]).getitemFull (.slice (.int 4) (.str "-1ns") false)
    = .ok (.ts [(5, 1), (5, 2)]) := by rfl
example : (Src.ts [(5, 1), (5, 2)]).getitemFull (.mask [false, true]) = .ok (.ts [(5, 2)]) := by rfl
example : (Src.cont ⟨7, 3, [0, 1, 2]⟩).len ≠ 0 ∧ ((Src.cont ⟨7, 3, [0, 1, 2]⟩).getitem (.ts 8) .none).len ≠ 0 := by decide


/-! ## Deepening round D: 64-bit integers suffice -/

/-- Every integer `Continuous.slice` (and the constructor of its result) computes, in evaluation order:
    `start - self.start`, `… % dt`, `start + dt`, `… - fraction`, the aligned start, the three steps and the quotient of
    `to_index` for both bounds, the clamped stop index, `len(data) * dt` and the new `stop`.
    (A transcription of the code's expressions; the real code does not expose its intermediates.) -/
def Cont.sliceTrace (c : Cont) (a b : Int) : List Int :=
  let d := a - c.start
  let fraction := d % c.dt
  let a' := alignedStart c a
  let n' : Int := ((c.slice a b).data.length : Nat)
  [d, fraction, a + c.dt, a + c.dt - fraction, a',
   a' - c.start, a' - c.start + c.dt, a' - c.start + c.dt - 1, toIndex c.start c.dt a',
   b - c.start, b - c.start + c.dt, b - c.start + c.dt - 1, toIndex c.start c.dt b, max (toIndex c.start c.dt b) 0,
   n' * c.dt, a' + n' * c.dt]

/-- fits a signed 64-bit integer -/
def isInt64 (x : Int) : Prop := -(2 ^ 63) ≤ x ∧ x < 2 ^ 63

/-- **No 64-bit overflow below 2^62.**  For a channel and a window whose timestamps lie in `[0, 2^62]` and a period of
    at most `2^60` ns, every integer the index arithmetic computes fits a signed 64-bit integer — so NumPy's `int64`
    arithmetic (start times read from HDF5 attributes are `np.int64`) agrees with the unbounded integers of the model. -/
theorem cont_slice_no_overflow (c : Cont) (a b : Int) (hdt : 0 < c.dt) (hdt' : c.dt ≤ 2 ^ 60)
    (hs : 0 ≤ c.start) (hstop : c.stop ≤ 2 ^ 62) (ha : 0 ≤ a ∧ a ≤ 2 ^ 62) (hb : 0 ≤ b ∧ b ≤ 2 ^ 62) :
    ∀ x ∈ c.sliceTrace a b, isInt64 x := by
  have hlen : 0 ≤ (c.data.length : Int) * c.dt := Int.mul_nonneg (by omega) (by omega)
  have hstart : c.start ≤ 2 ^ 62 := by unfold Cont.stop at hstop; omega
  -- the fraction
  have hf0 := Int.emod_nonneg (a - c.start) (by omega : c.dt ≠ 0)
  have hf1 := Int.emod_lt_of_pos (a - c.start) hdt
  -- the aligned start
  have ha' : max a c.start ≤ alignedStart c a ∧ alignedStart c a ≤ 2 ^ 62 + 2 ^ 60 := by
    unfold alignedStart
    simp only
    split <;> omega
  -- the two quotients
  have hi := ediv_bounds (alignedStart c a - c.start + c.dt - 1) c.dt hdt
  have hj := ediv_bounds (b - c.start + c.dt - 1) c.dt hdt
  -- the length of the result and its stop
  have hn' : ((c.slice a b).data.length : Int) ≤ c.data.length := by
    have := pySlice_length_le c.data (toIndex c.start c.dt (alignedStart c a)) (max (toIndex c.start c.dt b) 0)
    simp only [Cont.slice]; omega
  have hprod0 : 0 ≤ ((c.slice a b).data.length : Int) * c.dt := Int.mul_nonneg (by omega) (by omega)
  have hprod : ((c.slice a b).data.length : Int) * c.dt ≤ (c.data.length : Int) * c.dt :=
    Int.mul_le_mul_of_nonneg_right hn' (by omega)
  have hstop' : alignedStart c a + ((c.slice a b).data.length : Int) * c.dt ≤ 2 ^ 62 + 2 ^ 60 := by
    by_cases hne : (c.slice a b).data = []
    · rw [hne]; simp only [List.length_nil]; omega
    · have ht := (cont_bounds_tight (c.slice a b) hne).2
      cases hl : (c.slice a b).samples.getLast? with
      | none => rw [hl] at ht; simp at ht
      | some y =>
        rw [hl] at ht
        simp only [Option.map_some, Option.some.injEq] at ht
        have hy : y ∈ (Src.slice (.cont c) a b).samples := List.mem_of_getLast? hl
        have hy' : y ∈ c.samples :=
          (slice_sublist (.cont c) (by intro c' h; cases h; exact hdt) a b).subset hy
        have := (mem_samplesFrom c.dt hdt c.data c.start y hy').2
        have e : (c.slice a b).stop = alignedStart c a + ((c.slice a b).data.length : Int) * c.dt := rfl
        have e2 : (c.slice a b).dt = c.dt := rfl
        unfold Cont.stop at hstop
        omega
  intro x hx
  simp only [Cont.sliceTrace, toIndex, List.mem_cons, List.not_mem_nil, or_false] at hx
  unfold Cont.stop at hstop
  unfold isInt64
  have hi1 := hi.1; have hi2 := hi.2; have hj1 := hj.1; have hj2 := hj.2
  rcases hx with h | h | h | h | h | h | h | h | h | h | h | h | h | h | h | h <;> subst h <;> omega

/-- non-vacuity: a channel recorded in 2024 at 78.125 kHz -/
example : (0 : Int) < (⟨1700000000000000000, 12800, [0, 1, 2]⟩ : Cont).dt ∧
    (⟨1700000000000000000, 12800, [0, 1, 2]⟩ : Cont).stop ≤ 2 ^ 62 := by decide


/-! ## Deepening round D: translation invariance -/

/-- the same recording, started `δ` ns later -/
def Src.shift (δ : Int) : Src → Src
  | .cont c => .cont { c with start := c.start + δ }
  | .ts l => .ts (l.map fun x => (x.1 + δ, x.2))
  | .tags t => .tags ⟨t.data.map (· + δ), t.start + δ, t.stop + δ⟩

def Bound.shift (δ : Int) : Bound → Bound
  | .none => .none
  | .ts t => .ts (t + δ)
  | .rel ns => .rel ns

theorem alignedStart_shift (c : Cont) (a δ : Int) :
    alignedStart { c with start := c.start + δ } (a + δ) = alignedStart c a + δ := by
  unfold alignedStart
  simp only
  have e : a + δ - (c.start + δ) = a - c.start := by omega
  rw [e]
  split <;> omega

theorem toIndex_shift (s dt t δ : Int) : toIndex (s + δ) dt (t + δ) = toIndex s dt t := by
  unfold toIndex
  have e : t + δ - (s + δ) = t - s := by omega
  rw [e]

theorem slice_shift (s : Src) (a b δ : Int) : (s.shift δ).slice (a + δ) (b + δ) = (s.slice a b).shift δ := by
  cases s with
  | cont c =>
    simp only [Src.shift, Src.slice, Cont.slice, alignedStart_shift]
    have e1 := toIndex_shift c.start c.dt (alignedStart c a) δ
    have e2 := toIndex_shift c.start c.dt b δ
    simp only [e1, e2]
  | ts l =>
    simp only [Src.shift, Src.slice, tsSlice, List.filter_map]
    have hf : (inWin (a + δ) (b + δ) ∘ fun x : Sample => (x.1 + δ, x.2)) = inWin a b := by
      funext x
      simp only [Function.comp, inWin]
      have h1 : decide (a + δ ≤ x.1 + δ) = decide (a ≤ x.1) := by
        by_cases h : a ≤ x.1 <;> simp [h] <;> omega
      have h2 : decide (x.1 + δ < b + δ) = decide (x.1 < b) := by
        by_cases h : x.1 < b <;> simp [h] <;> omega
      rw [h1, h2]
    rw [hf]
  | tags t =>
    simp only [Src.shift, Src.slice, Tags.slice, Tags.init, List.filter_map]
    have hf : ((fun x => decide (a + δ ≤ x) && decide (x < b + δ)) ∘ fun x => x + δ) =
        fun x => decide (a ≤ x) && decide (x < b) := by
      funext x
      simp only [Function.comp]
      have h1 : decide (a + δ ≤ x + δ) = decide (a ≤ x) := by
        by_cases h : a ≤ x <;> simp [h] <;> omega
      have h2 : decide (x + δ < b + δ) = decide (x < b) := by
        by_cases h : x < b <;> simp [h] <;> omega
      rw [h1, h2]
    rw [hf]
    congr 2 <;> omega


theorem shift_len (s : Src) (δ : Int) : (s.shift δ).len = s.len := by
  cases s <;> simp [Src.shift, Src.len]

theorem shift_start_stop (s : Src) (δ : Int) (h : s.len ≠ 0) :
    (s.shift δ).start = s.start + δ ∧ (s.shift δ).stop = s.stop + δ := by
  cases s with
  | cont c =>
    refine ⟨rfl, ?_⟩
    show c.start + δ + (c.data.length : Int) * c.dt = c.start + (c.data.length : Int) * c.dt + δ
    omega
  | ts l =>
    cases l with
    | nil => simp [Src.len] at h
    | cons x xs =>
      simp only [Src.shift, Src.start, Src.stop, List.map_cons, List.head?_cons, Option.map_some, Option.getD_some,
        true_and]
      rw [← List.map_cons (f := fun x : Sample => (x.1 + δ, x.2)), List.getLast?_map]
      cases hl : (x :: xs).getLast? with
      | none => simp at hl
      | some y => simp; omega
  | tags t => exact ⟨rfl, rfl⟩

theorem resolve_shift (f l d δ : Int) (b : Bound) :
    resolve (f + δ) (l + δ) (d + δ) (b.shift δ) = resolve f l d b + δ := by
  cases b with
  | none => rfl
  | ts t => rfl
  | rel ns => simp only [Bound.shift, resolve]; split <;> omega

/-- **Translation invariance of `Slice.__getitem__`.**  Recording the same data `δ` ns later and moving the absolute
    bounds of the window by `δ` (`None` and relative time strings stay as they are) gives the same result, `δ` ns
    later: only differences of timestamps matter. -/
theorem getitem_shift (s : Src) (a b : Bound) (δ : Int) :
    (s.shift δ).getitem (a.shift δ) (b.shift δ) = (s.getitem a b).shift δ := by
  unfold Src.getitem
  rw [shift_len]
  by_cases h : s.len = 0
  · rw [if_pos h, if_pos h]
  · rw [if_neg h, if_neg h]
    obtain ⟨e1, e2⟩ := shift_start_stop s δ h
    rw [e1, e2, resolve_shift, resolve_shift, slice_shift]

/-- … and the shifted source holds the same samples, `δ` ns later. -/
theorem shift_timestamps (s : Src) (δ : Int) :
    (s.shift δ).samples.map (·.1) = s.samples.map (·.1 + δ) := by
  cases s with
  | cont c =>
    simp only [Src.shift, Src.samples, Cont.samples]
    generalize c.start = t0
    induction c.data generalizing t0 with
    | nil => rfl
    | cons v vs ih =>
      simp only [samplesFrom, List.map_cons]
      have := ih (t0 + c.dt)
      have e : t0 + c.dt + δ = t0 + δ + c.dt := by omega
      rw [e] at this
      rw [this]
  | ts l => simp [Src.shift, Src.samples]
  | tags t => simp [Src.shift, Src.samples, Tags.samples]

example : ((Src.cont ⟨1000, 10, [0, 1, 2, 3]⟩).shift 7).getitem (.ts 1022) (.rel (-1))
    = ((Src.cont ⟨1000, 10, [0, 1, 2, 3]⟩).getitem (.ts 1015) (.rel (-1))).shift 7 := by decide


end Verif.C01
