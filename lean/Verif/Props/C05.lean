/-
  C05 — property theorems about the model in `Verif.Model.C05`.
-/
import Verif.Lemmas.C05
import Verif.Lemmas.C05Num
import Verif.Props.C02

namespace Verif.C05
open Verif.Py

/-! ## Calibration items that apply to a time range -/

/-- Everything listed is an item of the file. -/
theorem filter_calibration_mem (items : List CalItem) (a b : Int) (x : CalItem)
    (hx : x ∈ filterCalibration items a b) : x ∈ items := by
  unfold filterCalibration at hx
  simp only [] at hx
  split at hx
  · rename_i p hp
    rcases List.mem_cons.mp hx with h | h
    · subst h
      exact (mem_sorted items _).mp (List.mem_filter.mp (getLast?_mem hp)).1
    · exact (mem_sorted items _).mp (List.mem_filter.mp h).1
  · exact (mem_sorted items _).mp (List.mem_filter.mp hx).1

/-- The list is: (the last item applied at or before the start, if any) followed by exactly the
    items applied strictly inside the range, in time order. -/
theorem filter_calibration_spec (items : List CalItem) (a b : Int) :
    ∃ (head : List CalItem) (inside : List CalItem),
      filterCalibration items a b = head ++ inside ∧
      -- the tail: exactly the items strictly inside, sorted by time
      (∀ x, x ∈ inside ↔ x ∈ items ∧ a < x.time ∧ x.time < b) ∧
      inside.Pairwise (fun x y => x.time ≤ y.time) ∧
      inside = (sortCal items).filter (fun x => decide (a < x.time) && decide (x.time < b)) ∧
      -- the head: present iff some item was applied at or before the start, and then it is a latest such item
      ((∃ y ∈ items, y.time ≤ a) → ∃ p, head = [p] ∧ p ∈ items ∧ p.time ≤ a ∧ ∀ y ∈ items, y.time ≤ a → y.time ≤ p.time) ∧
      ((¬ ∃ y ∈ items, y.time ≤ a) → head = []) := by
  have hsorted := sorted_pairwise items
  refine ⟨(((sortCal items).filter fun x => decide (x.time ≤ a)).getLast?).toList,
    (sortCal items).filter (fun x => decide (a < x.time) && decide (x.time < b)), ?_, ?_, ?_, rfl, ?_, ?_⟩
  · unfold filterCalibration
    simp only []
    cases h : ((sortCal items).filter fun x => decide (x.time ≤ a)).getLast? <;> simp
  · intro x
    rw [List.mem_filter, mem_sorted]
    simp
  · exact hsorted.sublist List.filter_sublist
  · rintro ⟨y, hy, hya⟩
    have hne : ((sortCal items).filter fun x => decide (x.time ≤ a)) ≠ [] := by
      intro h
      have : y ∈ ((sortCal items).filter fun x => decide (x.time ≤ a)) :=
        List.mem_filter.mpr ⟨(mem_sorted items y).mpr hy, by simpa using hya⟩
      rw [h] at this; cases this
    obtain ⟨p, hp⟩ : ∃ p, ((sortCal items).filter fun x => decide (x.time ≤ a)).getLast? = some p := by
      cases h : ((sortCal items).filter fun x => decide (x.time ≤ a)).getLast? with
      | none => exact absurd (List.getLast?_eq_none_iff.mp h) hne
      | some p => exact ⟨p, rfl⟩
    have hpm := List.mem_filter.mp (getLast?_mem hp)
    refine ⟨p, by rw [hp]; rfl, (mem_sorted items p).mp hpm.1, by simpa using hpm.2, ?_⟩
    intro z hz hza
    exact getLast_max _ (hsorted.sublist List.filter_sublist) p hp z
      (List.mem_filter.mpr ⟨(mem_sorted items z).mpr hz, by simpa using hza⟩)
  · intro hno
    have : ((sortCal items).filter fun x => decide (x.time ≤ a)) = [] := by
      rw [List.filter_eq_nil_iff]
      intro x hx hxa
      exact hno ⟨x, (mem_sorted items x).mp hx, by simpa using hxa⟩
    rw [this]; rfl

/-- The sort is stable: items with equal application time keep their file order. -/
theorem sortCal_stable (items : List CalItem) (t : Int) :
    (sortCal items).filter (fun y => decide (y.time = t)) = items.filter (fun y => decide (y.time = t)) := by
  induction items with
  | nil => rfl
  | cons x xs ih =>
    simp only [sortCal, filter_insertCal, ih, List.filter_cons]
    by_cases hx : x.time = t <;> simp [hx]

example : (filterCalibration [⟨50, 0⟩, ⟨10, 1⟩, ⟨30, 2⟩, ⟨20, 3⟩, ⟨70, 4⟩] 25 60).map (·.id) = [3, 2, 0] := by decide
example : (filterCalibration [⟨50, 0⟩, ⟨10, 1⟩] 5 8).map (·.id) = [] := by decide

/-! ## Omit patterns -/

/-- The matcher decides exactly the declarative meaning of `*`, `?` and literals. -/
theorem globMatch_iff (ps : List Pat) (s : List Char) : globMatch ps s = true ↔ Matches ps s :=
  ⟨globMatch_sound ps s, globMatch_complete⟩

/-- A path is written iff no omit pattern matches it; nothing else is dropped, order is kept. -/
theorem omit_spec (pats : List (List Pat)) (paths : List (List Char)) (p : List Char) :
    p ∈ exportPaths pats paths ↔ p ∈ paths ∧ ∀ q ∈ pats, ¬ Matches q p := by
  unfold exportPaths exported
  rw [List.mem_filter]
  simp only [Bool.not_eq_true', List.any_eq_false, ← globMatch_iff]

theorem omit_none (paths : List (List Char)) : exportPaths [] paths = paths := by
  unfold exportPaths exported; simp

theorem omit_sublist (pats : List (List Pat)) (paths : List (List Char)) :
    (exportPaths pats paths).Sublist paths := List.filter_sublist

example : globMatch (parsePat "Force HF/*".toList) "Force HF/Force 1x".toList = true := by decide +kernel
example : globMatch (parsePat "*/Force 1y".toList) "Force HF/Force 1x".toList = false := by decide +kernel
example : globMatch (parsePat "Force HF".toList) "Force HF/Force 1x".toList = false := by decide +kernel

/-! ## The whole tree written under omit patterns -/

/-- A node is written with its data and attributes iff it is a node of the source whose own path no omit pattern matches
    — whatever happens to its parent group. -/
theorem omit_tree_explicit (pats : List (List Pat)) (nodes : List (List Char)) (p : List Char) :
    (⟨p, true⟩ : OutNode) ∈ writeOmit pats nodes ↔ p ∈ nodes ∧ ∀ q ∈ pats, ¬ Matches q p := by
  unfold writeOmit
  rw [writeOmit_aux_explicit]
  have : exported pats p = true ↔ ∀ q ∈ pats, ¬ Matches q p := by
    unfold exported
    simp only [Bool.not_eq_true', List.any_eq_false, ← globMatch_iff]
  rw [this]
  simp

/-- The paths present in the output are exactly the exported nodes and their ancestors (bare parents re-created for
    kept children of an omitted group); nothing else appears. -/
theorem omit_tree_present (pats : List (List Pat)) (nodes : List (List Char)) (p : List Char) :
    (∃ n ∈ writeOmit pats nodes, n.path = p) ↔
      ∃ q ∈ nodes, exported pats q = true ∧ (p = q ∨ p ∈ ancestors q) := by
  have := writeOmit_aux_path pats nodes [] p
  unfold HasPath at this
  unfold writeOmit
  rw [this]
  simp

/-- `ancestors` are the proper prefixes that end right before a `/` -/
theorem mem_ancestors (p g : List Char) : g ∈ ancestors p ↔ ∃ rest, p = g ++ '/' :: rest := by
  unfold ancestors
  rw [List.mem_filterMap]
  constructor
  · rintro ⟨i, hi, h⟩
    split at h
    · rename_i hc
      simp only [Option.some.injEq] at h
      subst h
      refine ⟨p.drop (i + 1), ?_⟩
      have hlt : i < p.length := by simpa using hi
      have : p[i] = '/' := by
        rw [List.getElem?_eq_getElem hlt] at hc; simpa using hc
      conv => lhs; rw [← List.take_append_drop i p]
      rw [List.drop_eq_getElem_cons hlt, this]
    · cases h
  · rintro ⟨rest, rfl⟩
    refine ⟨g.length, by simp, ?_⟩
    simp

/-- the status letters printed by the protocol op mean what the theorems talk about -/
theorem node_status_spec (out : List OutNode) (p : List Char) :
    (nodeStatus out p = "E" ↔ (⟨p, true⟩ : OutNode) ∈ out) ∧
    (nodeStatus out p = "A" ↔ ¬ ∃ n ∈ out, n.path = p) := by
  have hE : (out.any (fun n => n.path == p && n.explicit) = true) ↔ (⟨p, true⟩ : OutNode) ∈ out := by
    rw [List.any_eq_true]
    constructor
    · rintro ⟨n, hn, h⟩
      simp only [Bool.and_eq_true, beq_iff_eq] at h
      obtain ⟨n1, n2⟩ := n
      simp only at h
      rw [← h.1, ← h.2]; exact hn
    · intro h; exact ⟨_, h, by simp⟩
  have hP : (out.any (fun n => n.path == p) = true) ↔ ∃ n ∈ out, n.path = p := by
    rw [List.any_eq_true]; simp
  unfold nodeStatus
  by_cases h1 : out.any (fun n => n.path == p && n.explicit) = true
  · rw [if_pos h1]
    have hp : ∃ n ∈ out, n.path = p := ⟨_, hE.mp h1, rfl⟩
    exact ⟨⟨fun _ => hE.mp h1, fun _ => rfl⟩, ⟨fun h => absurd h (by decide), fun h => absurd hp h⟩⟩
  · rw [if_neg h1]
    by_cases h2 : out.any (fun n => n.path == p) = true
    · rw [if_pos h2]
      exact ⟨⟨fun h => absurd h (by decide), fun h => absurd (hE.mpr h) h1⟩, ⟨fun h => absurd h (by decide), fun h => absurd (hP.mp h2) h⟩⟩
    · rw [if_neg h2]
      exact ⟨⟨fun h => absurd h (by decide), fun h => absurd (hE.mpr h) h1⟩, ⟨fun _ => fun h => h2 (hP.mpr h), fun _ => rfl⟩⟩

/-- omitting a group does not omit its children; the group reappears bare as their parent -/
example : (writeOmit [parsePat "A".toList] ["A".toList, "A/x".toList, "B".toList]).map (fun n => (String.ofList n.path, n.explicit))
    = [("A", false), ("A/x", true), ("B", true)] := by decide +kernel

/-! ## Cropped export of numerical channels -/

/-- A written channel holds exactly the source samples with `a ≤ t < b` (C01's theorem applied to the
    export path). -/
theorem crop_is_slice (s : C01.Src) (hdt : ∀ c, s = .cont c → 0 < c.dt) (a b : Int) :
    (cropChannel s a b).samples = s.samples.filter (C01.inWin a b) := by
  unfold cropChannel
  by_cases hne : s.len = 0
  · rw [C01.getitem_empty s hne]
    have : s.samples = [] := by
      cases s with
      | cont c =>
        simp only [C01.Src.len] at hne
        simp [C01.Src.samples, C01.Cont.samples, List.length_eq_zero_iff.mp hne, C01.samplesFrom]
      | ts l => simpa [C01.Src.len, C01.Src.samples] using hne
      | tags t =>
        simp only [C01.Src.len] at hne
        simp [C01.Src.samples, C01.Tags.samples, List.length_eq_zero_iff.mp hne]
    rw [this]; rfl
  · rw [C01.getitem_spec s hne hdt]; rfl

theorem len_eq_samples_length (s : C01.Src) : s.len = s.samples.length := C01.len_eq_samples_length s

/-- A channel is absent from the cropped file iff it has no sample inside the window. -/
theorem crop_absent_iff_empty (s : C01.Src) (hdt : ∀ c, s = .cont c → 0 < c.dt) (a b : Int) :
    channelWritten s a b = false ↔ ∀ x ∈ s.samples, ¬ (a ≤ x.1 ∧ x.1 < b) := by
  unfold channelWritten
  rw [len_eq_samples_length, crop_is_slice s hdt]
  simp only [ne_eq, decide_not, Bool.not_eq_eq_eq_not, Bool.not_false, decide_eq_true_eq,
    List.length_eq_zero_iff, List.filter_eq_nil_iff]
  constructor
  · intro h x hx hw; exact h x hx (by simpa [C01.inWin] using hw)
  · intro h x hx hw; exact h x hx (by simpa [C01.inWin] using hw)

/-- Cropping twice is cropping to the intersection (re-export of a cropped file). -/
theorem crop_crop (s : C01.Src) (hdt : ∀ c, s = .cont c → 0 < c.dt) (a b c d : Int)
    (hdt' : ∀ c', cropChannel s a b = .cont c' → 0 < c'.dt) :
    (cropChannel (cropChannel s a b) c d).samples = (cropChannel s (max a c) (min b d)).samples := by
  rw [crop_is_slice _ hdt', crop_is_slice s hdt, crop_is_slice s hdt, C01.filter_inWin_inWin]

/-! ## Sample period: stored as `1e9 / dt`, read back as `int(round(1e9 / rate))` (exact arithmetic) -/

/-- `round`: a nearest integer … -/
theorem roundHalfEven_nearest (y : Rat) :
    (roundHalfEven y : Rat) - y ≤ 1 / 2 ∧ y - (roundHalfEven y : Rat) ≤ 1 / 2 := roundHalfEven_err y

/-- … and on a tie the even one. -/
theorem roundHalfEven_tie_even (y : Rat) (h : y - (y.floor : Rat) = 1 / 2) : roundHalfEven y % 2 = 0 := by
  unfold roundHalfEven
  simp only [h, lt_self_iff_false, if_false]
  by_cases h3 : y.floor % 2 = 0
  · rw [if_pos h3]; exact h3
  · rw [if_neg h3]; omega

example : roundHalfEven (5 / 2) = 2 ∧ roundHalfEven (7 / 2) = 4 ∧ roundHalfEven (-5 / 2) = -2 := by decide +kernel

/-- The exact double-rounding function of the model (nearest, ties to even, 53 bits) meets the standard model of
    floating-point arithmetic: relative error at most `2^-53` for every positive value. -/
theorem double_rounding_std : StdModel flDouble := flDouble_std

/-- Whatever the two divisions round to, as long as each is within relative error `2^-53`, a sample period of
    `1 … 2^50` ns survives `to_dataset` → `from_dataset` unchanged. -/
theorem period_round_trip (fl : Rat → Rat) (hfl : StdModel fl) (dt : Int) (h1 : 1 ≤ dt) (h2 : dt ≤ 2 ^ 50) :
    periodOfRateQ fl (sampleRateQ fl dt) = dt := by
  unfold periodOfRateQ sampleRateQ
  obtain ⟨a, b⟩ := round_trip_near fl hfl dt h1 h2
  exact roundHalfEven_of_near _ _ a b

/-- non-vacuity: IEEE double rounding is such an `fl` -/
example : StdModel flDouble := flDouble_std

/-- The sample period written by `Continuous.to_dataset` and read by `Continuous.from_dataset` in double
    arithmetic is the original one, for every period of `1 … 2^50` ns (> 13 days). -/
theorem period_round_trip_double (dt : Int) (h1 : 1 ≤ dt) (h2 : dt ≤ 2 ^ 50) :
    periodOfRateQ flDouble (sampleRateQ flDouble dt) = dt :=
  period_round_trip flDouble flDouble_std dt h1 h2

/-- Rounding is necessary (finding F7, fixed in /repo): the truncating read-back of the pinned snapshot loses a
    nanosecond for a 55 ns period — kernel-evaluated on the exact doubles. -/
theorem F7_witness_exact :
    periodOfRateUnfixedQ flDouble (sampleRateQ flDouble 55) = 54 ∧
    periodOfRateQ flDouble (sampleRateQ flDouble 55) = 55 := by decide +kernel

/-! ## Sample rate of a time series -/

/-- A time series on a regular grid of at least two samples has that grid's step … -/
theorem tsStep_grid (t0 d : Int) (n : Nat) (hn : 2 ≤ n) : tsStep (grid t0 d n) = some d := by
  obtain ⟨k, rfl⟩ : ∃ k, n = k + 2 := ⟨n - 2, by omega⟩
  unfold tsStep
  rw [diffs_grid d (k + 1) t0, List.replicate_succ]
  simp

/-- … and only those have one: a unique step means the timestamps are `t0, t0 + d, t0 + 2d, …` -/
theorem tsStep_some (ts : List Int) (d : Int) (h : tsStep ts = some d) :
    ∃ t0 n, 2 ≤ n ∧ ts = grid t0 d n := by
  unfold tsStep at h
  split at h
  · cases h
  · rename_i d' ds hd
    split at h
    · rename_i hall
      simp only [Option.some.injEq] at h
      subst h
      -- every difference is d'
      have hall' : ∀ x ∈ diffs ts, x = d' := by
        intro x hx
        rw [hd] at hx
        rcases List.mem_cons.mp hx with rfl | hx
        · rfl
        · have := List.all_eq_true.mp hall x hx
          simpa using this
      have hlen : diffs ts ≠ [] := by rw [hd]; simp
      clear hd hall
      induction ts with
      | nil => simp [diffs] at hlen
      | cons a r ih =>
        cases r with
        | nil => simp [diffs] at hlen
        | cons b r' =>
          have hb : b - a = d' := hall' (b - a) (by simp [diffs])
          cases r' with
          | nil =>
            refine ⟨a, 2, by omega, ?_⟩
            simp only [grid]
            congr 2; omega
          | cons c r'' =>
            obtain ⟨t0, n, hn, e⟩ := ih (fun x hx => hall' x (by simp only [diffs] at hx ⊢; exact List.mem_cons_of_mem _ hx))
              (by simp [diffs])
            refine ⟨a, n + 1, by omega, ?_⟩
            have : t0 = b := by
              cases n with
              | zero => omega
              | succ m => simp only [grid, List.cons.injEq] at e; exact e.1.symm
            subst this
            simp only [grid, e]
            congr 2; omega
    · cases h

/-- The sample rate reported for a time series is `1e9 / d` (one rounded division) exactly when its timestamps form a
    regular grid of step `d ≠ 0` with at least two samples, and `None` otherwise. -/
theorem ts_sample_rate_spec (fl : Rat → Rat) (ts : List Int) (r : Rat) :
    tsSampleRate fl ts = some r ↔
      ∃ t0 d n, 2 ≤ n ∧ d ≠ 0 ∧ ts = grid t0 d n ∧ r = fl (1000000000 / (d : Rat)) := by
  unfold tsSampleRate
  constructor
  · intro h
    split at h
    · rename_i d hd
      split at h
      · cases h
      · rename_i hd0
        simp only [Option.some.injEq] at h
        obtain ⟨t0, n, hn, e⟩ := tsStep_some ts d hd
        exact ⟨t0, d, n, hn, hd0, e, h.symm⟩
    · cases h
  · rintro ⟨t0, d, n, hn, hd0, e, hr⟩
    rw [e, tsStep_grid t0 d n hn]
    simp only [if_neg hd0, hr]

example : tsSampleRate flDouble [100, 110, 120] = some 100000000 := by decide +kernel
example : tsSampleRate flDouble [100, 110, 125] = none := by decide +kernel
example : tsSampleRate flDouble [100] = none := by decide +kernel

/-- The bound on the period in `period_round_trip` cannot simply be dropped: below `2^52` ns there is a period that the
    double round trip changes (kernel-evaluated on the exact doubles). -/
theorem period_bound_witness :
    periodOfRateQ flDouble (sampleRateQ flDouble 3074885023508251) ≠ 3074885023508251 ∧
    (3074885023508251 : Int) < 2 ^ 52 := by decide +kernel

/-! ## Datasets: write, classify, read back -/

/-- Writing a channel with `to_dataset` and reading the dataset with `channel_class(dset).from_dataset(dset)` gives the
    channel back — same class, same start, same period, same numbers (time tags: the same tags; their slice bounds
    are not stored) — for every `fl` within the standard model, every period of `1 … 2^50` ns and every non-empty
    time series. -/
theorem write_read (fl : Rat → Rat) (hfl : StdModel fl) (s : C01.Src)
    (hdt : ∀ c, s = .cont c → 1 ≤ c.dt ∧ c.dt ≤ 2 ^ 50) (hne : ∀ l, s = .ts l → l ≠ []) :
    ∃ d, toDataset fl s = .ok d ∧ fromDataset fl d = .ok (reread s) := by
  cases s with
  | cont c =>
    refine ⟨_, rfl, ?_⟩
    obtain ⟨h1, h2⟩ := hdt c rfl
    simp [fromDataset, channelClass, reread, period_round_trip fl hfl c.dt h1 h2]
  | ts l =>
    have hl := hne l rfl
    obtain ⟨f, hf⟩ : ∃ f, l.head? = some f := by
      cases l with
      | nil => exact absurd rfl hl
      | cons x xs => exact ⟨x, rfl⟩
    obtain ⟨e, he⟩ : ∃ e, l.getLast? = some e := by
      cases h : l.getLast? with
      | none => exact absurd (List.getLast?_eq_none_iff.mp h) hl
      | some e => exact ⟨e, rfl⟩
    refine ⟨⟨.bytes "TimeSeries", some f.1, some (e.1 + 1), none, .compound l⟩, ?_, ?_⟩
    · simp only [toDataset, hf, he]
    · simp [fromDataset, channelClass, reread]
  | tags t =>
    refine ⟨_, rfl, ?_⟩
    simp [fromDataset, channelClass, reread]

example : toDataset flDouble (.ts []) = .error "IndexError" := by decide +kernel
example : (toDataset flDouble (.cont ⟨100, 55, [7, 8, 9]⟩)).toOption.map (·.stop) = some (some 265) := by decide +kernel

/-- what the cropped file's channel is read back as, in closed form -/
theorem crop_export_read_eq (fl : Rat → Rat) (hfl : StdModel fl) (s : C01.Src)
    (hdt : ∀ c, s = .cont c → 1 ≤ c.dt ∧ c.dt ≤ 2 ^ 50) (a b : Int) (hw : channelWritten s a b = true) :
    cropExportRead fl s a b = .ok (some (reread (cropChannel s a b))) := by
  have hlen : (cropChannel s a b).len ≠ 0 := by simpa [channelWritten] using hw
  obtain ⟨d, hd1, hd2⟩ := write_read fl hfl (cropChannel s a b)
    (fun c' hc' => by
      obtain ⟨c, hc, e⟩ := crop_cont_dt s a b c' hc'
      rw [e]; exact hdt c hc)
    (fun l hl hnil => by
      apply hlen; rw [hl, hnil]; rfl)
  unfold cropExportRead
  rw [if_pos hw, hd1]
  simp only [hd2]; rfl

/-- `save_as(crop_time_range=(a, b))` followed by `File(new)[name]`: the channel is in the new file iff it has a sample
    in the window, and what is read back from the written dataset (through the stored start, sample rate in double
    arithmetic, kind and numbers) has exactly the source samples with `a ≤ t < b`. -/
theorem cropped_export_reads_back (fl : Rat → Rat) (hfl : StdModel fl) (s : C01.Src)
    (hdt : ∀ c, s = .cont c → 1 ≤ c.dt ∧ c.dt ≤ 2 ^ 50) (a b : Int) :
    (channelWritten s a b = true →
      ∃ s', cropExportRead fl s a b = .ok (some s') ∧ s'.samples = s.samples.filter (C01.inWin a b)) ∧
    (channelWritten s a b = false → cropExportRead fl s a b = .ok none) := by
  have hdt0 : ∀ c, s = .cont c → 0 < c.dt := fun c hc => by have := (hdt c hc).1; omega
  constructor
  · intro hw
    exact ⟨_, crop_export_read_eq fl hfl s hdt a b hw, by rw [reread_samples, crop_is_slice s hdt0]⟩
  · intro hw
    unfold cropExportRead
    rw [hw]; rfl

/-- format v1 stores no `Kind`: what `to_dataset` writes for a continuous or time-series channel is classified the
    same without it -/
theorem channel_class_v1 (fl : Rat → Rat) (s : C01.Src) (d : Dset) (h : toDataset fl s = .ok d)
    (hs : ∀ t, s ≠ .tags t) : channelClass { d with kind := .absent } = channelClass d := by
  cases s with
  | cont c =>
    simp only [toDataset, Except.ok.injEq] at h
    subst h
    simp [channelClass]
  | ts l =>
    simp only [toDataset] at h
    split at h
    · simp only [Except.ok.injEq] at h
      subst h
      simp [channelClass]
    · cases h
  | tags t => exact absurd rfl (hs t)

/-- `bytes` and `str` spellings of `Kind` are read alike (Bluelake writes bytes, `to_dataset` writes either). -/
theorem channel_class_bytes (k : String) (d : Dset) :
    channelClass { d with kind := .bytes k } = channelClass { d with kind := .str k } := rfl

/-- non-vacuity / worked instance: a 55 ns channel (the F7 period) cropped off-grid, written and read back -/
example : cropExportRead flDouble (.cont ⟨1000, 55, [0, 1, 2, 3]⟩) 1050 1150 = .ok (some (.cont ⟨1055, 55, [1, 2]⟩)) := by
  decide +kernel
example : cropExportRead flDouble (.ts [(5, 0), (9, 1)]) 10 20 = .ok none := by decide +kernel
example : channelClass ⟨.str "Scan", none, none, none, .plain []⟩ = .error "RuntimeError" := by decide +kernel
example : channelClass ⟨.absent, none, none, none, .plain []⟩ = .error "IndexError" := by decide +kernel


/-! ## Composition: export, reopen, export again -/

/-- `crop_crop` without its second hypothesis: cropping establishes it. -/
theorem crop_crop_full (s : C01.Src) (hdt : ∀ c, s = .cont c → 0 < c.dt) (a b c d : Int) :
    (cropChannel (cropChannel s a b) c d).samples = (cropChannel s (max a c) (min b d)).samples :=
  crop_crop s hdt a b c d (fun c' hc' => by
    obtain ⟨c0, h0, e⟩ := crop_cont_dt s a b c' hc'
    rw [e]; exact hdt c0 h0)

/-- The sample rate a reader reports (`1e9 / dt` of the period it read) is the stored one. -/
theorem sample_rate_round_trip (fl : Rat → Rat) (hfl : StdModel fl) (dt : Int) (h1 : 1 ≤ dt) (h2 : dt ≤ 2 ^ 50) :
    sampleRateQ fl (periodOfRateQ fl (sampleRateQ fl dt)) = sampleRateQ fl dt := by
  rw [period_round_trip fl hfl dt h1 h2]

/-- A format-v1 file (no `Kind` attributes) is read like a v2 file: dropping `Kind` from what `to_dataset` writes for a
    continuous or time-series channel does not change what `from_dataset` returns. -/
theorem read_v1_same (fl : Rat → Rat) (s : C01.Src) (d : Dset) (h : toDataset fl s = .ok d) (hs : ∀ t, s ≠ .tags t) :
    fromDataset fl { d with kind := .absent } = fromDataset fl d := by
  have := channel_class_v1 fl s d h hs
  unfold fromDataset
  rw [this]

theorem reread_cont_dt (s : C01.Src) (c : C01.Cont) (h : reread s = .cont c) : s = .cont c := by
  cases s with
  | cont c0 => simpa [reread] using h
  | ts l => simp [reread] at h
  | tags t => simp [reread] at h

/-- Export, reopen, export again with a second window, reopen: the channel holds exactly the source samples in the
    intersection of the two windows, and is absent iff there is none (a channel absent after the first export stays
    absent). -/
theorem reexport_crop (fl : Rat → Rat) (hfl : StdModel fl) (s : C01.Src)
    (hdt : ∀ c, s = .cont c → 1 ≤ c.dt ∧ c.dt ≤ 2 ^ 50) (a b c d : Int) (s1 : C01.Src)
    (h1 : cropExportRead fl s a b = .ok (some s1)) :
    (∃ s2, cropExportRead fl s1 c d = .ok (some s2) ∧
        s2.samples = s.samples.filter (C01.inWin (max a c) (min b d)) ∧ s2.samples ≠ []) ∨
    (cropExportRead fl s1 c d = .ok none ∧ s.samples.filter (C01.inWin (max a c) (min b d)) = []) := by
  obtain ⟨hw, hnw⟩ := cropped_export_reads_back fl hfl s hdt a b
  have hwt : channelWritten s a b = true := by
    by_contra hf
    have := hnw (by simpa using hf)
    rw [this] at h1; cases h1
  obtain ⟨s1', e1, hs1⟩ := hw hwt
  rw [e1] at h1
  simp only [Except.ok.injEq, Option.some.injEq] at h1
  subst h1
  -- the period of what was read back is the source's
  have hdt1 : ∀ c1, s1' = .cont c1 → 1 ≤ c1.dt ∧ c1.dt ≤ 2 ^ 50 := by
    intro c1 hc1
    have := crop_export_read_eq fl hfl s hdt a b hwt
    rw [e1] at this
    simp only [Except.ok.injEq, Option.some.injEq] at this
    rw [this] at hc1
    have h2 := reread_cont_dt _ _ hc1
    obtain ⟨c0, hc0, e⟩ := crop_cont_dt s a b c1 h2
    rw [e]; exact hdt c0 hc0
  obtain ⟨hw2, hnw2⟩ := cropped_export_reads_back fl hfl s1' hdt1 c d
  have hfilt : s1'.samples.filter (C01.inWin c d) = s.samples.filter (C01.inWin (max a c) (min b d)) := by
    rw [hs1, C01.filter_inWin_inWin]
  have hdt1' : ∀ c1, s1' = .cont c1 → 0 < c1.dt := fun c1 hc1 => by have := (hdt1 c1 hc1).1; omega
  by_cases hw2t : channelWritten s1' c d = true
  · obtain ⟨s2, e2, hs2⟩ := hw2 hw2t
    left
    refine ⟨s2, e2, by rw [hs2, hfilt], ?_⟩
    have hlen : (cropChannel s1' c d).len ≠ 0 := by simpa [channelWritten] using hw2t
    rw [len_eq_samples_length, crop_is_slice s1' hdt1'] at hlen
    rw [hs2]
    intro hnil; apply hlen; rw [hnil]; rfl
  · right
    have hf : channelWritten s1' c d = false := by simpa using hw2t
    refine ⟨hnw2 hf, ?_⟩
    rw [← hfilt]
    have := (crop_absent_iff_empty s1' hdt1' c d).mp hf
    rw [List.filter_eq_nil_iff]
    intro x hx hwin
    exact this x hx (by simpa [C01.inWin] using hwin)

/-- non-vacuity: 100…130 step 10; first export [105, 135) keeps 110, 120, 130; second [0, 125) keeps 110, 120 -/
example : (cropExportRead flDouble (.cont ⟨100, 10, [0, 1, 2, 3]⟩) 105 135).toOption = some (some (.cont ⟨110, 10, [1, 2, 3]⟩)) := by
  decide +kernel
example : (cropExportRead flDouble (.cont ⟨110, 10, [1, 2, 3]⟩) 0 125).toOption = some (some (.cont ⟨110, 10, [1, 2]⟩)) := by
  decide +kernel

/-! ## Calibration of a force channel and of its slices (`from_field` → `Slice.calibration`) -/

/-- The items `from_field` collects for a channel are exactly the calibration groups that hold the channel with a time
    field, each carrying that time … -/
theorem cal_from_field_mem (groups : List CalGroup) (ch : String) (x : CalItem) :
    x ∈ calFromField groups ch ↔ ∃ g, groups[x.id]? = some g ∧ g.channels.lookup ch = some (some x.time) := by
  unfold calFromField
  rw [List.mem_filterMap]
  constructor
  · rintro ⟨⟨g, i⟩, hm, hf⟩
    have hg := List.mem_zipIdx_iff_getElem?.mp hm
    simp only at hf
    split at hf
    · rename_i t ht
      simp only [Option.some.injEq] at hf
      subst hf
      exact ⟨g, hg, ht⟩
    · cases hf
  · rintro ⟨g, hg, hl⟩
    refine ⟨(g, x.id), List.mem_zipIdx_iff_getElem?.mpr hg, ?_⟩
    simp only [hl]

/-- … in the order of the groups. -/
theorem cal_from_field_order (groups : List CalGroup) (ch : String) :
    (calFromField groups ch).Pairwise (fun x y => x.id < y.id) := by
  unfold calFromField
  refine (filterMap_zipIdx_ids _ ?_ groups 0).2
  intro g i x h
  simp only at h
  split at h
  · simp only [Option.some.injEq] at h; rw [← h]
  · cases h

example : (calFromField [⟨[("Force 1x", some 5), ("Force 2x", none)]⟩, ⟨[]⟩, ⟨[("Force 1x", none)]⟩, ⟨[("Force 1x", some 3)]⟩] "Force 1x")
    = [⟨5, 0⟩, ⟨3, 3⟩] := by decide +kernel

/-- A force channel sliced to `[a, b)` that keeps at least one sample lists the calibration items that apply to the time
    range of what it kept: from the first kept timestamp to one step (the sample period; 1 ns for a time series) after the
    last kept one — and nothing when the file has no item for the channel.  (With `filter_calibration_spec`: the last
    item applied at or before the first kept sample, then those strictly inside.) -/
theorem slice_calibration_spec (items : List CalItem) (s : C01.Src) (hs : ∀ t, s ≠ .tags t)
    (hdt : ∀ c, s = .cont c → 0 < c.dt) (a b : Int) (x y : C01.Sample) (rest : List C01.Sample)
    (hk : s.samples.filter (C01.inWin a b) = x :: rest) (hy : (x :: rest).getLast? = some y) :
    sliceCalibration items (cropChannel s a b) =
      if items = [] then [] else filterCalibration items x.1 (y.1 + stepOf s) := by
  have hsm : (cropChannel s a b).samples = x :: rest := by rw [crop_is_slice s hdt, hk]
  obtain ⟨hk1, hk2⟩ := crop_kind s a b hs
  obtain ⟨h1, h2⟩ := src_range (cropChannel s a b) hk1 x y rest hsm hy
  unfold sliceCalibration
  by_cases hi : items = []
  · simp [hi]
  · rw [if_neg hi, if_neg (by simpa using hi)]
    rw [← hk2, ← h1, ← h2]
    split
    · rename_i heq
      rw [heq] at hsm; simp [C01.Src.samples] at hsm
    · rfl

/-- the same through the file's access path, whole channel and sliced -/
theorem channel_calibration_spec (groups : List CalGroup) (ch : String) (s : C01.Src) (hs : ∀ t, s ≠ .tags t)
    (hdt : ∀ c, s = .cont c → 0 < c.dt) (a b : Int) (x y : C01.Sample) (rest : List C01.Sample)
    (hk : s.samples.filter (C01.inWin a b) = x :: rest) (hy : (x :: rest).getLast? = some y) :
    channelCalibration groups ch s (some (a, b)) =
      if calFromField groups ch = [] then [] else filterCalibration (calFromField groups ch) x.1 (y.1 + stepOf s) :=
  slice_calibration_spec (calFromField groups ch) s hs hdt a b x y rest hk hy

theorem channel_calibration_whole (groups : List CalGroup) (ch : String) (s : C01.Src) (hs : ∀ t, s ≠ .tags t)
    (x y : C01.Sample) (rest : List C01.Sample) (hk : s.samples = x :: rest) (hy : (x :: rest).getLast? = some y) :
    channelCalibration groups ch s none =
      if calFromField groups ch = [] then [] else filterCalibration (calFromField groups ch) x.1 (y.1 + stepOf s) := by
  obtain ⟨h1, h2⟩ := src_range s hs x y rest hk hy
  unfold channelCalibration sliceCalibration
  by_cases hi : calFromField groups ch = []
  · simp [hi]
  · rw [if_neg hi, if_neg (by simpa using hi)]
    cases s with
    | ts l =>
      cases l with
      | nil => simp [C01.Src.samples] at hk
      | cons z zs => simp only [h1, h2]
    | cont c => simp only [h1, h2]
    | tags t => exact absurd rfl (hs t)

/-- non-vacuity: a 10 ns channel 100…129 sliced to [105, 125) keeps 110 and 120; items at 5 (before), 115 (inside),
    130 (= last + period: outside) -/
example : ((C01.Src.cont ⟨100, 10, [5, 6, 7]⟩).samples.filter (C01.inWin 105 125)) = [(110, 6), (120, 7)] := by decide
example : (channelCalibration [⟨[("Force 1x", some 5)]⟩, ⟨[("Force 1x", some 115)]⟩, ⟨[("Force 1x", some 130)]⟩] "Force 1x"
    (.cont ⟨100, 10, [5, 6, 7]⟩) (some (105, 125))).map (·.id) = [0, 1] := by decide +kernel

/-! ## Time-stamped metadata items -/

theorem keepMeta_spec (st sp a b : Int) :
    keepMeta st sp a b = true ↔ (a ≤ sp ∧ st < b ∧ st < sp) := by
  unfold keepMeta; simp; omega

/-- A time-stamped item is written to the cropped file iff it can crop itself and the cropped item has positive duration,
    ends at or after the window start and begins before the window end; its time attributes are then the cropped item's. -/
theorem write_cropped_meta_spec (sliced : Option (Int × Int)) (a b : Int) (r : Int × Int) :
    writeCroppedMeta sliced a b = some r ↔ sliced = some r ∧ a ≤ r.2 ∧ r.1 < b ∧ r.1 < r.2 := by
  unfold writeCroppedMeta
  cases sliced with
  | none => simp
  | some s =>
    obtain ⟨st, sp⟩ := s
    simp only [Option.some.injEq]
    by_cases h : keepMeta st sp a b = true
    · rw [if_pos h]
      have := (keepMeta_spec st sp a b).mp h
      constructor
      · intro e; simp only [Option.some.injEq] at e; subst e; exact ⟨rfl, this⟩
      · rintro ⟨e, _⟩; rw [e]
    · rw [if_neg h]
      constructor
      · intro e; cases e
      · rintro ⟨e, h2⟩
        subst e
        exact absurd ((keepMeta_spec st sp a b).mpr h2) h

example : writeCroppedMeta (some (10, 20)) 15 30 = some (10, 20) := by decide
example : writeCroppedMeta (some (10, 10)) 0 30 = none := by decide
example : writeCroppedMeta none 0 30 = none := by decide

/-! ## (ext) Cropped kymograph / scan items: whole lines inside the window are reproduced unchanged -/

/-- A cut position is *line-safe* when the stream before it is empty or ends with a pixel boundary
    followed by discarded (dead-time) samples only — e.g. anywhere in the dead time between two lines. -/
def CutOk (p : List C02.Sample) : Prop :=
  p = [] ∨ ∃ init d dead, p = (init ++ [(d, 2)]) ++ dead ∧ ∀ x ∈ dead, x.2 = 0

theorem pixels_split (p rest : List C02.Sample) (h : CutOk p) :
    C02.pixelsSpecAux 0 (p ++ rest) = C02.pixelsSpecAux 0 p ++ C02.pixelsSpecAux 0 rest := by
  rcases h with rfl | ⟨init, d, dead, rfl, hd⟩
  · rfl
  · exact C02.segment_reconstruct_dead (init ++ [(d, 2)]) dead rest (Or.inr ⟨init, d, rfl⟩) hd

/-- Cropping the info wave and a photon stream to the same sample window `[i, j)` whose two ends are
    line-safe and reconstructing the cropped item gives exactly the pixels `A … A+M` of the original
    reconstruction: every pixel (hence every line) acquired inside the window is reproduced unchanged,
    nothing from outside appears, and nothing inside is lost. -/
theorem cropped_kymo_lines (s : List C02.Sample) (i j : Nat) (hij : i ≤ j)
    (hi : CutOk (s.take i)) (hj : CutOk (s.take j)) :
    C02.pixelsSpecAux 0 ((s.take j).drop i) =
      ((C02.pixelsSpecAux 0 s).take (C02.pixelsSpecAux 0 (s.take j)).length).drop
        (C02.pixelsSpecAux 0 (s.take i)).length := by
  have e1 : s.take j = s.take i ++ (s.take j).drop i := by
    have : (s.take j).take i = s.take i := by
      rw [List.take_take]; congr 1; omega
    rw [← this, List.take_append_drop]
  have e2 : s = s.take j ++ s.drop j := (List.take_append_drop j s).symm
  have h1 : C02.pixelsSpecAux 0 (s.take j) =
      C02.pixelsSpecAux 0 (s.take i) ++ C02.pixelsSpecAux 0 ((s.take j).drop i) := by
    conv => lhs; rw [e1]
    exact pixels_split _ _ hi
  have h2 : C02.pixelsSpecAux 0 s =
      C02.pixelsSpecAux 0 (s.take j) ++ C02.pixelsSpecAux 0 (s.drop j) := by
    conv => lhs; rw [e2]
    exact pixels_split _ _ hj
  rw [h2, List.take_left', h1, List.drop_left']
  · rfl
  · rfl

/-- The line-safe hypothesis is necessary: a cut in the middle of a pixel (two samples `5`, `6` forming one pixel of 11
    counts, cut after the first) yields a pixel of 6 counts that the original does not have. -/
theorem cut_ok_necessary :
    ¬ CutOk ([((5 : Int), 1), (6, 2)].take 1) ∧
    C02.pixelsSpecAux 0 (([((5 : Int), 1), (6, 2)].take 2).drop 1) ≠
      ((C02.pixelsSpecAux 0 [((5 : Int), 1), (6, 2)]).take (C02.pixelsSpecAux 0 ([((5 : Int), 1), (6, 2)].take 2)).length).drop
        (C02.pixelsSpecAux 0 ([((5 : Int), 1), (6, 2)].take 1)).length := by
  refine ⟨?_, by decide⟩
  rintro (h | ⟨init, d, dead, h, hd⟩)
  · cases h
  · have hl := congrArg List.getLast? h
    simp only [List.take_succ_cons, List.take_zero, List.getLast?_singleton] at hl
    rcases List.eq_nil_or_concat dead with rfl | ⟨dd, x, rfl⟩
    · simp at hl
    · have hx := hd x (by simp)
      simp only [List.concat_eq_append, ← List.append_assoc, List.getLast?_append, List.getLast?_singleton, Option.some_or] at hl
      simp only [Option.some.injEq] at hl
      rw [← hl] at hx
      cases hx

/-- Non-vacuity: two lines of two pixels (k = 1) with one dead sample after each line; cropping to the
    second line (samples 3…5) gives the last two pixels. -/
example : CutOk ([(5, 2), (6, 2), (9, 0), (7, 2), (8, 2), (9, 0)].take 3) :=
  Or.inr ⟨[(5, 2)], 6, [(9, 0)], rfl, by decide⟩
example : C02.pixelsSpecAux 0 (([(5, 2), (6, 2), (9, 0), (7, 2), (8, 2), (9, 0)].take 6).drop 3) = [7, 8] := by
  decide


/-! ## Channels by attribute -/

/-- No two attributes read the same dataset and no attribute is listed twice (the whole table, by evaluation). -/
theorem attr_table_nodup : (attrTable.map (·.1)).Nodup ∧ (attrTable.map (·.2)).Nodup := by decide

/-- An attribute of the table returns its own dataset when the file has it and the empty slice when it has not —
    never another channel. -/
theorem attr_lookup_spec (present : List String) (attr path : String) (h : (attr, path) ∈ attrTable) :
    attrLookup present attr = if path ∈ present then .path path else .empty := by
  unfold attrLookup
  rw [lookup_of_mem_nodup attrTable attr_table_nodup.1 attr path h]
  simp only [List.contains_iff_mem]

/-- The naming rule of the table: `force<n><a>` reads `Force HF/Force <n><a>`, `downsampled_force<n><a>` reads
    `Force LF/Force <n><a>` — for every trap and axis. -/
theorem attr_naming_rule :
    ∀ n ∈ [1, 2, 3, 4], ∀ a ∈ ["x", "y", "z"],
      (s!"force{n}{a}", s!"Force HF/Force {n}{a}") ∈ attrTable ∧
      (s!"downsampled_force{n}{a}", s!"Force LF/Force {n}{a}") ∈ attrTable := by decide +kernel

/-- Trap totals: the stored `Force n`, else `Trap n`, else the magnitude of the x and y components, else empty. -/
theorem trap_total_spec (present : List String) (attr f t x y : String) (h : (attr, f, t, x, y) ∈ trapTable) :
    attrLookup present attr =
      if f ∈ present then .path f else if t ∈ present then .path t
      else if x ∈ present ∧ y ∈ present then .magnitude x y else .empty := by
  have hnone : attrTable.lookup attr = none := by
    have : ∀ r ∈ trapTable, attrTable.lookup r.1 = none := by decide
    exact this _ h
  have hn : (trapTable.map (·.1)).Nodup := by decide
  unfold attrLookup
  rw [hnone]
  simp only
  rw [lookup_of_mem_nodup trapTable hn attr (f, t, x, y) h]
  simp only [List.contains_iff_mem, Bool.and_eq_true]

/-! ### the `rgb_to_detectors` option of the constructors -/

/-- With a detector mapping, a colour attribute reads the dataset of the detector its colour is mapped to, in the
    attribute's own group, when the file has it and the empty slice when it has not — never the colour's namesake or
    any other channel. -/
theorem attr_mapped_spec (m : List (String × String)) (present : List String) (attr g c d : String)
    (h : (attr, g, c) ∈ colourTable) (hm : m.lookup c = some d) :
    attrLookupM m present attr = if (g ++ "/" ++ d) ∈ present then .path (g ++ "/" ++ d) else .empty := by
  have hn : (colourTable.map (·.1)).Nodup := by decide
  unfold attrLookupM
  rw [lookup_of_mem_nodup colourTable hn attr (g, c) h]
  simp only [hm, List.contains_iff_mem]

/-- Non-vacuity (the file of seeded change C05g-m3: custom detectors and a dataset that happens to be called `Red`). -/
example : attrLookupM [("Red", "Detector 2"), ("Green", "Detector 3"), ("Blue", "Detector 1")]
    ["Photon count/Detector 1", "Photon count/Detector 2", "Photon count/Detector 3", "Photon count/Red"]
    "red_photon_count" = .path "Photon count/Detector 2" := by decide

/-- Not giving the option is the identity mapping: every attribute answers as in `attr_lookup_spec`. -/
theorem attr_mapped_default (present : List String) (attr : String) :
    attrLookupM defaultDetectors present attr = attrLookup present attr := by
  unfold attrLookupM
  split
  · rename_i g c hl
    have hmem := mem_of_lookup_eq_some colourTable attr (g, c) hl
    have key : ∀ r ∈ colourTable, defaultDetectors.lookup r.2.2 = some r.2.2 ∧
        attrTable.lookup r.1 = some (r.2.1 ++ "/" ++ r.2.2) := by decide
    obtain ⟨h1, h2⟩ := key _ hmem
    simp only at h1 h2
    rw [h1]
    unfold attrLookup
    rw [h2]
  · rfl

/-- The option concerns the six colour attributes only: force and distance attributes ignore it. -/
theorem attr_mapped_other (m : List (String × String)) (present : List String) (attr : String)
    (h : ∀ r ∈ colourTable, r.1 ≠ attr) : attrLookupM m present attr = attrLookup present attr := by
  unfold attrLookupM
  split
  · rename_i g c hl
    exact absurd rfl (h _ (mem_of_lookup_eq_some colourTable attr (g, c) hl))
  · rfl

example : ∀ r ∈ colourTable, r.1 ≠ "force1x" := by decide

end Verif.C05
