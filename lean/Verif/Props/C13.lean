/-
  C13 — property theorems: the analytic derivatives the code computes are the true derivatives.
  Every theorem is about the executable model in `Verif.Model.C13` (read at `ℝ`), which the
  correspondence check ties to `lumicks/pylake/fitting` on every run.
-/
import Verif.Lemmas.C13
import Verif.Lemmas.C13b

namespace Verif.C13
open Verif RealLike

/-! ## Closed forms -/

/-- `ewlc_odijk_distance_derivative` is the derivative of `ewlc_odijk_distance` w.r.t. the force. -/
theorem odijk_distance_hasDerivAt (f Lp Lc St kT : ℝ) (hf : 0 < f) (hLp : 0 < Lp) (hkT : 0 < kT) (hSt : 0 < St) :
    HasDerivAt (fun f => odijkDistance f Lp Lc St kT) (odijkDistanceDeriv f Lp Lc St kT) f :=
  odijk_distance_hasDerivAt_aux f Lp Lc St kT hf hLp hkT hSt
example : (0:ℝ) < 10 ∧ (0:ℝ) < 40 ∧ (0:ℝ) < 4.11 ∧ (0:ℝ) < 1500 := by norm_num

/-- the four rows of `ewlc_odijk_distance_jac` are `∂/∂L_p, ∂/∂L_c, ∂/∂S_t, ∂/∂kT` -/
theorem odijk_distance_jac (f Lp Lc St kT : ℝ) (hf : 0 < f) (hLp : 0 < Lp) (hkT : 0 < kT) (hSt : 0 < St) :
    (odijkDistanceJac f Lp Lc St kT).length = 4 ∧
    HasDerivAt (fun Lp => odijkDistance f Lp Lc St kT) ((odijkDistanceJac f Lp Lc St kT).getD 0 0) Lp ∧
    HasDerivAt (fun Lc => odijkDistance f Lp Lc St kT) ((odijkDistanceJac f Lp Lc St kT).getD 1 0) Lc ∧
    HasDerivAt (fun St => odijkDistance f Lp Lc St kT) ((odijkDistanceJac f Lp Lc St kT).getD 2 0) St ∧
    HasDerivAt (fun kT => odijkDistance f Lp Lc St kT) ((odijkDistanceJac f Lp Lc St kT).getD 3 0) kT :=
  ⟨rfl, odijk_jac_Lp f Lp Lc St kT hf hLp hkT hSt, odijk_jac_Lc f Lp Lc St kT hSt,
   odijk_jac_St f Lp Lc St kT hSt, odijk_jac_kT f Lp Lc St kT hf hLp hkT hSt⟩
example : (0:ℝ) < 10 ∧ (0:ℝ) < 40 ∧ (0:ℝ) < 4.11 ∧ (0:ℝ) < 1500 := by norm_num

/-- `wlc_marko_siggia_force_derivative` is the derivative of `wlc_marko_siggia_force` (below `L_c`). -/
theorem ms_force_hasDerivAt (d Lp Lc kT : ℝ) (hLp : 0 < Lp) (hLc : 0 < Lc) (hd : d < Lc) :
    HasDerivAt (fun d => msForce d Lp Lc kT) (msForceDeriv d Lp Lc kT) d :=
  ms_force_hasDerivAt_aux d Lp Lc kT hLp hLc hd
example : (0:ℝ) < 40 ∧ (0:ℝ) < 16 ∧ (12:ℝ) < 16 := by norm_num

/-- the three rows of `wlc_marko_siggia_force_jac` are `∂/∂L_p, ∂/∂L_c, ∂/∂kT` -/
theorem ms_force_jac (d Lp Lc kT : ℝ) (hLp : 0 < Lp) (hLc : 0 < Lc) (hd : d < Lc) :
    (msForceJac d Lp Lc kT).length = 3 ∧
    HasDerivAt (fun Lp => msForce d Lp Lc kT) ((msForceJac d Lp Lc kT).getD 0 0) Lp ∧
    HasDerivAt (fun Lc => msForce d Lp Lc kT) ((msForceJac d Lp Lc kT).getD 1 0) Lc ∧
    HasDerivAt (fun kT => msForce d Lp Lc kT) ((msForceJac d Lp Lc kT).getD 2 0) kT :=
  ⟨rfl, ms_jac_Lp d Lp Lc kT hLp hLc hd, ms_jac_Lc d Lp Lc kT hLp hLc hd, ms_jac_kT d Lp Lc kT hLp hLc hd⟩
example : (0:ℝ) < 40 ∧ (0:ℝ) < 16 ∧ (12:ℝ) < 16 := by norm_num

/-- offset models: value `off`, Jacobian `[1]`, derivative `0` -/
theorem offset_jac (x off : ℝ) :
    HasDerivAt (fun off => offsetVal x off) ((offsetJac x off).getD 0 0) off := by
  simp only [offsetVal, offsetJac, List.getD_cons_zero]
  have : (1.0 : ℝ) = 1 := by norm_num
  rw [this]; exact hasDerivAt_id' off

theorem offset_hasDerivAt (x off : ℝ) : HasDerivAt (fun x => offsetVal x off) (offsetDeriv x off) x := by
  simp only [offsetVal, offsetDeriv]
  have : (0.0 : ℝ) = 0 := by norm_num
  rw [this]; exact hasDerivAt_const x off

/-! ## The cubic: implicit differentiation of a simple root -/

open Filter Topology in
/-- If `y(t)` is a differentiable branch of roots of `y³ + a(t) y² + b(t) y + c(t)` through a simple
    root (`P'(y) ≠ 0`), then `y' = (−y²/P'(y))·a' + (−y/P'(y))·b' + (−1/P'(y))·c'`: the three numbers
    `implicitDerivs` are `∂y/∂a, ∂y/∂b, ∂y/∂c` and the code's chain rule over them is exact. -/
theorem cubic_implicit_deriv (y a b c : ℝ → ℝ) (y' a' b' c' t : ℝ)
    (hy : HasDerivAt y y' t) (ha : HasDerivAt a a' t) (hb : HasDerivAt b b' t) (hc : HasDerivAt c c' t)
    (hroot : ∀ᶠ s in 𝓝 t, cubicPoly (a s) (b s) (c s) (y s) = 0)
    (hsimple : cubicPoly' (a t) (b t) (y t) ≠ 0) :
    y' = (implicitDerivs (a t) (b t) (y t)).1 * a' + (implicitDerivs (a t) (b t) (y t)).2.1 * b'
          + (implicitDerivs (a t) (b t) (y t)).2.2 * c' :=
  implicit_row y a b c y' a' b' c' t hy ha hb hc hroot hsimple

/-- non-vacuity: `y(t) = t` is a branch of simple roots of `y³ − t³` at `t = 1` -/
example : ∃ (y a b c : ℝ → ℝ) (t : ℝ), HasDerivAt y 1 t ∧ (∀ s, cubicPoly (a s) (b s) (c s) (y s) = 0) ∧
    cubicPoly' (a t) (b t) (y t) ≠ 0 :=
  ⟨fun t => t, fun _ => 0, fun _ => 0, fun t => -(t * t * t), 1, hasDerivAt_id' 1,
    fun s => by simp only [cubicPoly_real]; ring, by rw [cubicPoly'_real]; norm_num⟩

open Filter Topology in
/-- the three special cases: only `a`, only `b`, only `c` varies — `∂y/∂a = −y²/P'(y)`,
    `∂y/∂b = −y/P'(y)`, `∂y/∂c = −1/P'(y)` -/
theorem cubic_implicit_deriv_abc (y : ℝ → ℝ) (y' a b c : ℝ)
    (hsimple : 3 * y a * y a + 2 * a * y a + b ≠ 0 ∧ 3 * y b * y b + 2 * a * y b + b ≠ 0
      ∧ 3 * y c * y c + 2 * a * y c + b ≠ 0) :
    (HasDerivAt y y' a → (∀ᶠ s in 𝓝 a, cubicPoly s b c (y s) = 0) →
        y' = -(y a * y a) / (3 * y a * y a + 2 * a * y a + b)) ∧
    (HasDerivAt y y' b → (∀ᶠ s in 𝓝 b, cubicPoly a s c (y s) = 0) →
        y' = -(y b) / (3 * y b * y b + 2 * a * y b + b)) ∧
    (HasDerivAt y y' c → (∀ᶠ s in 𝓝 c, cubicPoly a b s (y s) = 0) →
        y' = -1 / (3 * y c * y c + 2 * a * y c + b)) := by
  obtain ⟨h1, h2, h3⟩ := hsimple
  refine ⟨fun hy hr => ?_, fun hy hr => ?_, fun hy hr => ?_⟩
  · have := cubic_implicit y (fun s => s) (fun _ => b) (fun _ => c) y' 1 0 0 a hy (hasDerivAt_id' a)
      (hasDerivAt_const a b) (hasDerivAt_const a c) hr h1
    rw [this]; ring
  · have := cubic_implicit y (fun _ => a) (fun s => s) (fun _ => c) y' 0 1 0 b hy (hasDerivAt_const b a)
      (hasDerivAt_id' b) (hasDerivAt_const b c) hr h2
    rw [this]; ring
  · have := cubic_implicit y (fun _ => a) (fun _ => b) (fun s => s) y' 0 0 1 c hy (hasDerivAt_const c a)
      (hasDerivAt_const c b) (hasDerivAt_id' c) hr h3
    rw [this]; ring

/-! ## Coefficient chains -/

/-- `odijk_force`: every entry of the code's table (`da_dLc, db_dSt, …`; `0` where the code omits the term) is the
    partial derivative of the corresponding coefficient map. -/
theorem coefficient_chain_odijk_force (d Lp Lc St kT : ℝ) (hLp : 0 < Lp) (hLc : 0 < Lc) (hSt : 0 < St) (hkT : 0 < kT) :
    HasDerivAt (fun Lp => OF.a d Lp Lc St kT) 0 Lp ∧
    HasDerivAt (fun Lc => OF.a d Lp Lc St kT) (OF.da_dLc d Lp Lc St kT) Lc ∧
    HasDerivAt (fun St => OF.a d Lp Lc St kT) (OF.da_dSt d Lp Lc St kT) St ∧
    HasDerivAt (fun kT => OF.a d Lp Lc St kT) 0 kT ∧
    HasDerivAt (fun d => OF.a d Lp Lc St kT) (OF.da_dd d Lp Lc St kT) d ∧
    HasDerivAt (fun Lp => OF.b d Lp Lc St kT) 0 Lp ∧
    HasDerivAt (fun Lc => OF.b d Lp Lc St kT) (OF.db_dLc d Lp Lc St kT) Lc ∧
    HasDerivAt (fun St => OF.b d Lp Lc St kT) (OF.db_dSt d Lp Lc St kT) St ∧
    HasDerivAt (fun kT => OF.b d Lp Lc St kT) 0 kT ∧
    HasDerivAt (fun d => OF.b d Lp Lc St kT) (OF.db_dd d Lp Lc St kT) d ∧
    HasDerivAt (fun Lp => OF.c d Lp Lc St kT) (OF.dc_dLp d Lp Lc St kT) Lp ∧
    HasDerivAt (fun Lc => OF.c d Lp Lc St kT) 0 Lc ∧
    HasDerivAt (fun St => OF.c d Lp Lc St kT) (OF.dc_dSt d Lp Lc St kT) St ∧
    HasDerivAt (fun kT => OF.c d Lp Lc St kT) (OF.dc_dkT d Lp Lc St kT) kT ∧
    HasDerivAt (fun d => OF.c d Lp Lc St kT) 0 d :=
  ⟨OF.a_Lp d Lp Lc St kT,
   OF.a_Lc d Lp Lc St kT hLp hLc hSt hkT,
   OF.a_St d Lp Lc St kT hLp hLc hSt hkT,
   OF.a_kT d Lp Lc St kT,
   OF.a_d d Lp Lc St kT hLp hLc hSt hkT,
   OF.b_Lp d Lp Lc St kT,
   OF.b_Lc d Lp Lc St kT hLp hLc hSt hkT,
   OF.b_St d Lp Lc St kT hLp hLc hSt hkT,
   OF.b_kT d Lp Lc St kT,
   OF.b_d d Lp Lc St kT hLp hLc hSt hkT,
   OF.c_Lp d Lp Lc St kT hLp hLc hSt hkT,
   OF.c_Lc d Lp Lc St kT,
   OF.c_St d Lp Lc St kT hLp hLc hSt hkT,
   OF.c_kT d Lp Lc St kT hLp hLc hSt hkT,
   OF.c_d d Lp Lc St kT⟩
example : (0:ℝ) < 40 ∧ (0:ℝ) < 16 ∧ (0:ℝ) < 1500 ∧ (0:ℝ) < 4.11 := by norm_num

/-- `wlc_distance`: every entry of the code's table (`da_dLc, db_dSt, …`; `0` where the code omits the term) is the
    partial derivative of the corresponding coefficient map. -/
theorem coefficient_chain_wlc_distance (f Lp Lc kT : ℝ) (hLp : 0 < Lp) (hLc : 0 < Lc) (hkT : 0 < kT) :
    HasDerivAt (fun Lp => WD.a f Lp Lc kT) (WD.da_dLp f Lp Lc kT) Lp ∧
    HasDerivAt (fun Lc => WD.a f Lp Lc kT) (WD.da_dLc f Lp Lc kT) Lc ∧
    HasDerivAt (fun kT => WD.a f Lp Lc kT) (WD.da_dkT f Lp Lc kT) kT ∧
    HasDerivAt (fun f => WD.a f Lp Lc kT) (WD.da_df f Lp Lc kT) f ∧
    HasDerivAt (fun Lp => WD.b f Lp Lc kT) (WD.db_dLp f Lp Lc kT) Lp ∧
    HasDerivAt (fun Lc => WD.b f Lp Lc kT) (WD.db_dLc f Lp Lc kT) Lc ∧
    HasDerivAt (fun kT => WD.b f Lp Lc kT) (WD.db_dkT f Lp Lc kT) kT ∧
    HasDerivAt (fun f => WD.b f Lp Lc kT) (WD.db_df f Lp Lc kT) f ∧
    HasDerivAt (fun Lp => WD.c f Lp Lc kT) (WD.dc_dLp f Lp Lc kT) Lp ∧
    HasDerivAt (fun Lc => WD.c f Lp Lc kT) (WD.dc_dLc f Lp Lc kT) Lc ∧
    HasDerivAt (fun kT => WD.c f Lp Lc kT) (WD.dc_dkT f Lp Lc kT) kT ∧
    HasDerivAt (fun f => WD.c f Lp Lc kT) (WD.dc_df f Lp Lc kT) f :=
  ⟨WD.a_Lp f Lp Lc kT hLp hLc hkT,
   WD.a_Lc f Lp Lc kT hLp hLc hkT,
   WD.a_kT f Lp Lc kT hLp hLc hkT,
   WD.a_f f Lp Lc kT hLp hLc hkT,
   WD.b_Lp f Lp Lc kT hLp hLc hkT,
   WD.b_Lc f Lp Lc kT hLp hLc hkT,
   WD.b_kT f Lp Lc kT hLp hLc hkT,
   WD.b_f f Lp Lc kT hLp hLc hkT,
   WD.c_Lp f Lp Lc kT hLp hLc hkT,
   WD.c_Lc f Lp Lc kT hLp hLc hkT,
   WD.c_kT f Lp Lc kT hLp hLc hkT,
   WD.c_f f Lp Lc kT hLp hLc hkT⟩
example : (0:ℝ) < 40 ∧ (0:ℝ) < 16 ∧ (0:ℝ) < 1500 ∧ (0:ℝ) < 4.11 := by norm_num

/-- `ewlc_force`: every entry of the code's table (`da_dLc, db_dSt, …`; `0` where the code omits the term) is the
    partial derivative of the corresponding coefficient map. -/
theorem coefficient_chain_ewlc_force (d Lp Lc St kT : ℝ) (hLp : 0 < Lp) (hLc : 0 < Lc) (hSt : 0 < St) (hkT : 0 < kT) :
    HasDerivAt (fun Lp => EF.a d Lp Lc St kT) (EF.da_dLp d Lp Lc St kT) Lp ∧
    HasDerivAt (fun Lc => EF.a d Lp Lc St kT) (EF.da_dLc d Lp Lc St kT) Lc ∧
    HasDerivAt (fun St => EF.a d Lp Lc St kT) (EF.da_dSt d Lp Lc St kT) St ∧
    HasDerivAt (fun kT => EF.a d Lp Lc St kT) (EF.da_dkT d Lp Lc St kT) kT ∧
    HasDerivAt (fun d => EF.a d Lp Lc St kT) (EF.da_dd d Lp Lc St kT) d ∧
    HasDerivAt (fun Lp => EF.b d Lp Lc St kT) (EF.db_dLp d Lp Lc St kT) Lp ∧
    HasDerivAt (fun Lc => EF.b d Lp Lc St kT) (EF.db_dLc d Lp Lc St kT) Lc ∧
    HasDerivAt (fun St => EF.b d Lp Lc St kT) (EF.db_dSt d Lp Lc St kT) St ∧
    HasDerivAt (fun kT => EF.b d Lp Lc St kT) (EF.db_dkT d Lp Lc St kT) kT ∧
    HasDerivAt (fun d => EF.b d Lp Lc St kT) (EF.db_dd d Lp Lc St kT) d ∧
    HasDerivAt (fun Lp => EF.c d Lp Lc St kT) (EF.dc_dLp d Lp Lc St kT) Lp ∧
    HasDerivAt (fun Lc => EF.c d Lp Lc St kT) (EF.dc_dLc d Lp Lc St kT) Lc ∧
    HasDerivAt (fun St => EF.c d Lp Lc St kT) (EF.dc_dSt d Lp Lc St kT) St ∧
    HasDerivAt (fun kT => EF.c d Lp Lc St kT) (EF.dc_dkT d Lp Lc St kT) kT ∧
    HasDerivAt (fun d => EF.c d Lp Lc St kT) (EF.dc_dd d Lp Lc St kT) d :=
  ⟨EF.a_Lp d Lp Lc St kT hLp hLc hSt hkT,
   EF.a_Lc d Lp Lc St kT hLp hLc hSt hkT,
   EF.a_St d Lp Lc St kT hLp hLc hSt hkT,
   EF.a_kT d Lp Lc St kT hLp hLc hSt hkT,
   EF.a_d d Lp Lc St kT hLp hLc hSt hkT,
   EF.b_Lp d Lp Lc St kT hLp hLc hSt hkT,
   EF.b_Lc d Lp Lc St kT hLp hLc hSt hkT,
   EF.b_St d Lp Lc St kT hLp hLc hSt hkT,
   EF.b_kT d Lp Lc St kT hLp hLc hSt hkT,
   EF.b_d d Lp Lc St kT hLp hLc hSt hkT,
   EF.c_Lp d Lp Lc St kT hLp hLc hSt hkT,
   EF.c_Lc d Lp Lc St kT hLp hLc hSt hkT,
   EF.c_St d Lp Lc St kT hLp hLc hSt hkT,
   EF.c_kT d Lp Lc St kT hLp hLc hSt hkT,
   EF.c_d d Lp Lc St kT hLp hLc hSt hkT⟩
example : (0:ℝ) < 40 ∧ (0:ℝ) < 16 ∧ (0:ℝ) < 1500 ∧ (0:ℝ) < 4.11 := by norm_num

/-- `ewlc_distance`: every entry of the code's table (`da_dLc, db_dSt, …`; `0` where the code omits the term) is the
    partial derivative of the corresponding coefficient map. -/
theorem coefficient_chain_ewlc_distance (f Lp Lc St kT : ℝ) (hLp : 0 < Lp) (hLc : 0 < Lc) (hSt : 0 < St) (hkT : 0 < kT) :
    HasDerivAt (fun Lp => ED.a f Lp Lc St kT) (ED.da_dLp f Lp Lc St kT) Lp ∧
    HasDerivAt (fun Lc => ED.a f Lp Lc St kT) (ED.da_dLc f Lp Lc St kT) Lc ∧
    HasDerivAt (fun St => ED.a f Lp Lc St kT) (ED.da_dSt f Lp Lc St kT) St ∧
    HasDerivAt (fun kT => ED.a f Lp Lc St kT) (ED.da_dkT f Lp Lc St kT) kT ∧
    HasDerivAt (fun f => ED.a f Lp Lc St kT) (ED.da_df f Lp Lc St kT) f ∧
    HasDerivAt (fun Lp => ED.b f Lp Lc St kT) (ED.db_dLp f Lp Lc St kT) Lp ∧
    HasDerivAt (fun Lc => ED.b f Lp Lc St kT) (ED.db_dLc f Lp Lc St kT) Lc ∧
    HasDerivAt (fun St => ED.b f Lp Lc St kT) (ED.db_dSt f Lp Lc St kT) St ∧
    HasDerivAt (fun kT => ED.b f Lp Lc St kT) (ED.db_dkT f Lp Lc St kT) kT ∧
    HasDerivAt (fun f => ED.b f Lp Lc St kT) (ED.db_df f Lp Lc St kT) f ∧
    HasDerivAt (fun Lp => ED.c f Lp Lc St kT) (ED.dc_dLp f Lp Lc St kT) Lp ∧
    HasDerivAt (fun Lc => ED.c f Lp Lc St kT) (ED.dc_dLc f Lp Lc St kT) Lc ∧
    HasDerivAt (fun St => ED.c f Lp Lc St kT) (ED.dc_dSt f Lp Lc St kT) St ∧
    HasDerivAt (fun kT => ED.c f Lp Lc St kT) (ED.dc_dkT f Lp Lc St kT) kT ∧
    HasDerivAt (fun f => ED.c f Lp Lc St kT) (ED.dc_df f Lp Lc St kT) f :=
  ⟨ED.a_Lp f Lp Lc St kT hLp hLc hSt hkT,
   ED.a_Lc f Lp Lc St kT hLp hLc hSt hkT,
   ED.a_St f Lp Lc St kT hLp hLc hSt hkT,
   ED.a_kT f Lp Lc St kT hLp hLc hSt hkT,
   ED.a_f f Lp Lc St kT hLp hLc hSt hkT,
   ED.b_Lp f Lp Lc St kT hLp hLc hSt hkT,
   ED.b_Lc f Lp Lc St kT hLp hLc hSt hkT,
   ED.b_St f Lp Lc St kT hLp hLc hSt hkT,
   ED.b_kT f Lp Lc St kT hLp hLc hSt hkT,
   ED.b_f f Lp Lc St kT hLp hLc hSt hkT,
   ED.c_Lp f Lp Lc St kT hLp hLc hSt hkT,
   ED.c_Lc f Lp Lc St kT hLp hLc hSt hkT,
   ED.c_St f Lp Lc St kT hLp hLc hSt hkT,
   ED.c_kT f Lp Lc St kT hLp hLc hSt hkT,
   ED.c_f f Lp Lc St kT hLp hLc hSt hkT⟩
example : (0:ℝ) < 40 ∧ (0:ℝ) < 16 ∧ (0:ℝ) < 1500 ∧ (0:ℝ) < 4.11 := by norm_num

/-! ## Rows of the four cubic models

  `X.jacWith r …` / `X.derWith r …` are the code's row formulas (`total_dy_da * da_dLc + …`) as a
  function of the triple `r = (∂y/∂a, ∂y/∂b, ∂y/∂c)`; the code passes
  `r = calc_cubic_root_derivatives(a, b, c, k)`.  With the implicit-function triple they are the
  derivative of ANY differentiable branch of simple roots of the model's cubic. -/
set_option linter.unusedTactic false
set_option linter.unreachableTactic false
/-! ### rows: the assembled Jacobian rows / derivative, with the implicit-function root derivatives,
    are the derivatives of any differentiable branch of simple roots (generated uniformly) -/

open Filter Topology in
theorem OF.row_Lp (d Lp Lc St kT : ℝ) (hLp : 0 < Lp) (hLc : 0 < Lc) (hSt : 0 < St) (hkT : 0 < kT) (y : ℝ → ℝ) (y' : ℝ) (hy : HasDerivAt y y' Lp)
    (hroot : ∀ᶠ v in 𝓝 Lp, cubicPoly (OF.a d v Lc St kT) (OF.b d v Lc St kT) (OF.c d v Lc St kT) (y v) = 0)
    (hsimple : cubicPoly' (OF.a d Lp Lc St kT) (OF.b d Lp Lc St kT) (y Lp) ≠ 0) :
    y' = (OF.jacWith (implicitDerivs (OF.a d Lp Lc St kT) (OF.b d Lp Lc St kT) (y Lp)) d Lp Lc St kT).getD 0 0 := by
  rw [implicit_row y _ _ _ y' _ _ _ Lp hy (OF.a_Lp d Lp Lc St kT) (OF.b_Lp d Lp Lc St kT) (OF.c_Lp d Lp Lc St kT hLp hLc hSt hkT) hroot hsimple]
  simp only [OF.jacWith, OF.derWith, implicitDerivs, List.getD_cons_succ, List.getD_cons_zero] <;>
    first | (norm_num; done) | (norm_num; ring1)

open Filter Topology in
theorem OF.row_Lc (d Lp Lc St kT : ℝ) (hLp : 0 < Lp) (hLc : 0 < Lc) (hSt : 0 < St) (hkT : 0 < kT) (y : ℝ → ℝ) (y' : ℝ) (hy : HasDerivAt y y' Lc)
    (hroot : ∀ᶠ v in 𝓝 Lc, cubicPoly (OF.a d Lp v St kT) (OF.b d Lp v St kT) (OF.c d Lp v St kT) (y v) = 0)
    (hsimple : cubicPoly' (OF.a d Lp Lc St kT) (OF.b d Lp Lc St kT) (y Lc) ≠ 0) :
    y' = (OF.jacWith (implicitDerivs (OF.a d Lp Lc St kT) (OF.b d Lp Lc St kT) (y Lc)) d Lp Lc St kT).getD 1 0 := by
  rw [implicit_row y _ _ _ y' _ _ _ Lc hy (OF.a_Lc d Lp Lc St kT hLp hLc hSt hkT) (OF.b_Lc d Lp Lc St kT hLp hLc hSt hkT) (OF.c_Lc d Lp Lc St kT) hroot hsimple]
  simp only [OF.jacWith, OF.derWith, implicitDerivs, List.getD_cons_succ, List.getD_cons_zero] <;>
    first | (norm_num; done) | (norm_num; ring1)

open Filter Topology in
theorem OF.row_St (d Lp Lc St kT : ℝ) (hLp : 0 < Lp) (hLc : 0 < Lc) (hSt : 0 < St) (hkT : 0 < kT) (y : ℝ → ℝ) (y' : ℝ) (hy : HasDerivAt y y' St)
    (hroot : ∀ᶠ v in 𝓝 St, cubicPoly (OF.a d Lp Lc v kT) (OF.b d Lp Lc v kT) (OF.c d Lp Lc v kT) (y v) = 0)
    (hsimple : cubicPoly' (OF.a d Lp Lc St kT) (OF.b d Lp Lc St kT) (y St) ≠ 0) :
    y' = (OF.jacWith (implicitDerivs (OF.a d Lp Lc St kT) (OF.b d Lp Lc St kT) (y St)) d Lp Lc St kT).getD 2 0 := by
  rw [implicit_row y _ _ _ y' _ _ _ St hy (OF.a_St d Lp Lc St kT hLp hLc hSt hkT) (OF.b_St d Lp Lc St kT hLp hLc hSt hkT) (OF.c_St d Lp Lc St kT hLp hLc hSt hkT) hroot hsimple]
  simp only [OF.jacWith, OF.derWith, implicitDerivs, List.getD_cons_succ, List.getD_cons_zero] <;>
    first | (norm_num; done) | (norm_num; ring1)

open Filter Topology in
theorem OF.row_kT (d Lp Lc St kT : ℝ) (hLp : 0 < Lp) (hLc : 0 < Lc) (hSt : 0 < St) (hkT : 0 < kT) (y : ℝ → ℝ) (y' : ℝ) (hy : HasDerivAt y y' kT)
    (hroot : ∀ᶠ v in 𝓝 kT, cubicPoly (OF.a d Lp Lc St v) (OF.b d Lp Lc St v) (OF.c d Lp Lc St v) (y v) = 0)
    (hsimple : cubicPoly' (OF.a d Lp Lc St kT) (OF.b d Lp Lc St kT) (y kT) ≠ 0) :
    y' = (OF.jacWith (implicitDerivs (OF.a d Lp Lc St kT) (OF.b d Lp Lc St kT) (y kT)) d Lp Lc St kT).getD 3 0 := by
  rw [implicit_row y _ _ _ y' _ _ _ kT hy (OF.a_kT d Lp Lc St kT) (OF.b_kT d Lp Lc St kT) (OF.c_kT d Lp Lc St kT hLp hLc hSt hkT) hroot hsimple]
  simp only [OF.jacWith, OF.derWith, implicitDerivs, List.getD_cons_succ, List.getD_cons_zero] <;>
    first | (norm_num; done) | (norm_num; ring1)

open Filter Topology in
theorem OF.row_d (d Lp Lc St kT : ℝ) (hLp : 0 < Lp) (hLc : 0 < Lc) (hSt : 0 < St) (hkT : 0 < kT) (y : ℝ → ℝ) (y' : ℝ) (hy : HasDerivAt y y' d)
    (hroot : ∀ᶠ v in 𝓝 d, cubicPoly (OF.a v Lp Lc St kT) (OF.b v Lp Lc St kT) (OF.c v Lp Lc St kT) (y v) = 0)
    (hsimple : cubicPoly' (OF.a d Lp Lc St kT) (OF.b d Lp Lc St kT) (y d) ≠ 0) :
    y' = OF.derWith (implicitDerivs (OF.a d Lp Lc St kT) (OF.b d Lp Lc St kT) (y d)) d Lp Lc St kT := by
  rw [implicit_row y _ _ _ y' _ _ _ d hy (OF.a_d d Lp Lc St kT hLp hLc hSt hkT) (OF.b_d d Lp Lc St kT hLp hLc hSt hkT) (OF.c_d d Lp Lc St kT) hroot hsimple]
  simp only [OF.jacWith, OF.derWith, implicitDerivs, List.getD_cons_succ, List.getD_cons_zero] <;>
    first | (norm_num; done) | (norm_num; ring1)

open Filter Topology in
theorem WD.row_Lp (f Lp Lc kT : ℝ) (hLp : 0 < Lp) (hLc : 0 < Lc) (hkT : 0 < kT) (y : ℝ → ℝ) (y' : ℝ) (hy : HasDerivAt y y' Lp)
    (hroot : ∀ᶠ v in 𝓝 Lp, cubicPoly (WD.a f v Lc kT) (WD.b f v Lc kT) (WD.c f v Lc kT) (y v) = 0)
    (hsimple : cubicPoly' (WD.a f Lp Lc kT) (WD.b f Lp Lc kT) (y Lp) ≠ 0) :
    y' = (WD.jacWith (implicitDerivs (WD.a f Lp Lc kT) (WD.b f Lp Lc kT) (y Lp)) f Lp Lc kT).getD 0 0 := by
  rw [implicit_row y _ _ _ y' _ _ _ Lp hy (WD.a_Lp f Lp Lc kT hLp hLc hkT) (WD.b_Lp f Lp Lc kT hLp hLc hkT) (WD.c_Lp f Lp Lc kT hLp hLc hkT) hroot hsimple]
  simp only [WD.jacWith, WD.derWith, implicitDerivs, List.getD_cons_succ, List.getD_cons_zero] <;>
    first | (norm_num; done) | (norm_num; ring1)

open Filter Topology in
theorem WD.row_Lc (f Lp Lc kT : ℝ) (hLp : 0 < Lp) (hLc : 0 < Lc) (hkT : 0 < kT) (y : ℝ → ℝ) (y' : ℝ) (hy : HasDerivAt y y' Lc)
    (hroot : ∀ᶠ v in 𝓝 Lc, cubicPoly (WD.a f Lp v kT) (WD.b f Lp v kT) (WD.c f Lp v kT) (y v) = 0)
    (hsimple : cubicPoly' (WD.a f Lp Lc kT) (WD.b f Lp Lc kT) (y Lc) ≠ 0) :
    y' = (WD.jacWith (implicitDerivs (WD.a f Lp Lc kT) (WD.b f Lp Lc kT) (y Lc)) f Lp Lc kT).getD 1 0 := by
  rw [implicit_row y _ _ _ y' _ _ _ Lc hy (WD.a_Lc f Lp Lc kT hLp hLc hkT) (WD.b_Lc f Lp Lc kT hLp hLc hkT) (WD.c_Lc f Lp Lc kT hLp hLc hkT) hroot hsimple]
  simp only [WD.jacWith, WD.derWith, implicitDerivs, List.getD_cons_succ, List.getD_cons_zero] <;>
    first | (norm_num; done) | (norm_num; ring1)

open Filter Topology in
theorem WD.row_kT (f Lp Lc kT : ℝ) (hLp : 0 < Lp) (hLc : 0 < Lc) (hkT : 0 < kT) (y : ℝ → ℝ) (y' : ℝ) (hy : HasDerivAt y y' kT)
    (hroot : ∀ᶠ v in 𝓝 kT, cubicPoly (WD.a f Lp Lc v) (WD.b f Lp Lc v) (WD.c f Lp Lc v) (y v) = 0)
    (hsimple : cubicPoly' (WD.a f Lp Lc kT) (WD.b f Lp Lc kT) (y kT) ≠ 0) :
    y' = (WD.jacWith (implicitDerivs (WD.a f Lp Lc kT) (WD.b f Lp Lc kT) (y kT)) f Lp Lc kT).getD 2 0 := by
  rw [implicit_row y _ _ _ y' _ _ _ kT hy (WD.a_kT f Lp Lc kT hLp hLc hkT) (WD.b_kT f Lp Lc kT hLp hLc hkT) (WD.c_kT f Lp Lc kT hLp hLc hkT) hroot hsimple]
  simp only [WD.jacWith, WD.derWith, implicitDerivs, List.getD_cons_succ, List.getD_cons_zero] <;>
    first | (norm_num; done) | (norm_num; ring1)

open Filter Topology in
theorem WD.row_f (f Lp Lc kT : ℝ) (hLp : 0 < Lp) (hLc : 0 < Lc) (hkT : 0 < kT) (y : ℝ → ℝ) (y' : ℝ) (hy : HasDerivAt y y' f)
    (hroot : ∀ᶠ v in 𝓝 f, cubicPoly (WD.a v Lp Lc kT) (WD.b v Lp Lc kT) (WD.c v Lp Lc kT) (y v) = 0)
    (hsimple : cubicPoly' (WD.a f Lp Lc kT) (WD.b f Lp Lc kT) (y f) ≠ 0) :
    y' = WD.derWith (implicitDerivs (WD.a f Lp Lc kT) (WD.b f Lp Lc kT) (y f)) f Lp Lc kT := by
  rw [implicit_row y _ _ _ y' _ _ _ f hy (WD.a_f f Lp Lc kT hLp hLc hkT) (WD.b_f f Lp Lc kT hLp hLc hkT) (WD.c_f f Lp Lc kT hLp hLc hkT) hroot hsimple]
  simp only [WD.jacWith, WD.derWith, implicitDerivs, List.getD_cons_succ, List.getD_cons_zero] <;>
    first | (norm_num; done) | (norm_num; ring1)

open Filter Topology in
theorem EF.row_Lp (d Lp Lc St kT : ℝ) (hLp : 0 < Lp) (hLc : 0 < Lc) (hSt : 0 < St) (hkT : 0 < kT) (y : ℝ → ℝ) (y' : ℝ) (hy : HasDerivAt y y' Lp)
    (hroot : ∀ᶠ v in 𝓝 Lp, cubicPoly (EF.a d v Lc St kT) (EF.b d v Lc St kT) (EF.c d v Lc St kT) (y v) = 0)
    (hsimple : cubicPoly' (EF.a d Lp Lc St kT) (EF.b d Lp Lc St kT) (y Lp) ≠ 0) :
    y' = (EF.jacWith (implicitDerivs (EF.a d Lp Lc St kT) (EF.b d Lp Lc St kT) (y Lp)) d Lp Lc St kT).getD 0 0 := by
  rw [implicit_row y _ _ _ y' _ _ _ Lp hy (EF.a_Lp d Lp Lc St kT hLp hLc hSt hkT) (EF.b_Lp d Lp Lc St kT hLp hLc hSt hkT) (EF.c_Lp d Lp Lc St kT hLp hLc hSt hkT) hroot hsimple]
  simp only [EF.jacWith, EF.derWith, implicitDerivs, List.getD_cons_succ, List.getD_cons_zero] <;>
    first | (norm_num; done) | (norm_num; ring1)

open Filter Topology in
theorem EF.row_Lc (d Lp Lc St kT : ℝ) (hLp : 0 < Lp) (hLc : 0 < Lc) (hSt : 0 < St) (hkT : 0 < kT) (y : ℝ → ℝ) (y' : ℝ) (hy : HasDerivAt y y' Lc)
    (hroot : ∀ᶠ v in 𝓝 Lc, cubicPoly (EF.a d Lp v St kT) (EF.b d Lp v St kT) (EF.c d Lp v St kT) (y v) = 0)
    (hsimple : cubicPoly' (EF.a d Lp Lc St kT) (EF.b d Lp Lc St kT) (y Lc) ≠ 0) :
    y' = (EF.jacWith (implicitDerivs (EF.a d Lp Lc St kT) (EF.b d Lp Lc St kT) (y Lc)) d Lp Lc St kT).getD 1 0 := by
  rw [implicit_row y _ _ _ y' _ _ _ Lc hy (EF.a_Lc d Lp Lc St kT hLp hLc hSt hkT) (EF.b_Lc d Lp Lc St kT hLp hLc hSt hkT) (EF.c_Lc d Lp Lc St kT hLp hLc hSt hkT) hroot hsimple]
  simp only [EF.jacWith, EF.derWith, implicitDerivs, List.getD_cons_succ, List.getD_cons_zero] <;>
    first | (norm_num; done) | (norm_num; ring1)

open Filter Topology in
theorem EF.row_St (d Lp Lc St kT : ℝ) (hLp : 0 < Lp) (hLc : 0 < Lc) (hSt : 0 < St) (hkT : 0 < kT) (y : ℝ → ℝ) (y' : ℝ) (hy : HasDerivAt y y' St)
    (hroot : ∀ᶠ v in 𝓝 St, cubicPoly (EF.a d Lp Lc v kT) (EF.b d Lp Lc v kT) (EF.c d Lp Lc v kT) (y v) = 0)
    (hsimple : cubicPoly' (EF.a d Lp Lc St kT) (EF.b d Lp Lc St kT) (y St) ≠ 0) :
    y' = (EF.jacWith (implicitDerivs (EF.a d Lp Lc St kT) (EF.b d Lp Lc St kT) (y St)) d Lp Lc St kT).getD 2 0 := by
  rw [implicit_row y _ _ _ y' _ _ _ St hy (EF.a_St d Lp Lc St kT hLp hLc hSt hkT) (EF.b_St d Lp Lc St kT hLp hLc hSt hkT) (EF.c_St d Lp Lc St kT hLp hLc hSt hkT) hroot hsimple]
  simp only [EF.jacWith, EF.derWith, implicitDerivs, List.getD_cons_succ, List.getD_cons_zero] <;>
    first | (norm_num; done) | (norm_num; ring1)

open Filter Topology in
theorem EF.row_kT (d Lp Lc St kT : ℝ) (hLp : 0 < Lp) (hLc : 0 < Lc) (hSt : 0 < St) (hkT : 0 < kT) (y : ℝ → ℝ) (y' : ℝ) (hy : HasDerivAt y y' kT)
    (hroot : ∀ᶠ v in 𝓝 kT, cubicPoly (EF.a d Lp Lc St v) (EF.b d Lp Lc St v) (EF.c d Lp Lc St v) (y v) = 0)
    (hsimple : cubicPoly' (EF.a d Lp Lc St kT) (EF.b d Lp Lc St kT) (y kT) ≠ 0) :
    y' = (EF.jacWith (implicitDerivs (EF.a d Lp Lc St kT) (EF.b d Lp Lc St kT) (y kT)) d Lp Lc St kT).getD 3 0 := by
  rw [implicit_row y _ _ _ y' _ _ _ kT hy (EF.a_kT d Lp Lc St kT hLp hLc hSt hkT) (EF.b_kT d Lp Lc St kT hLp hLc hSt hkT) (EF.c_kT d Lp Lc St kT hLp hLc hSt hkT) hroot hsimple]
  simp only [EF.jacWith, EF.derWith, implicitDerivs, List.getD_cons_succ, List.getD_cons_zero] <;>
    first | (norm_num; done) | (norm_num; ring1)

open Filter Topology in
theorem EF.row_d (d Lp Lc St kT : ℝ) (hLp : 0 < Lp) (hLc : 0 < Lc) (hSt : 0 < St) (hkT : 0 < kT) (y : ℝ → ℝ) (y' : ℝ) (hy : HasDerivAt y y' d)
    (hroot : ∀ᶠ v in 𝓝 d, cubicPoly (EF.a v Lp Lc St kT) (EF.b v Lp Lc St kT) (EF.c v Lp Lc St kT) (y v) = 0)
    (hsimple : cubicPoly' (EF.a d Lp Lc St kT) (EF.b d Lp Lc St kT) (y d) ≠ 0) :
    y' = EF.derWith (implicitDerivs (EF.a d Lp Lc St kT) (EF.b d Lp Lc St kT) (y d)) d Lp Lc St kT := by
  rw [implicit_row y _ _ _ y' _ _ _ d hy (EF.a_d d Lp Lc St kT hLp hLc hSt hkT) (EF.b_d d Lp Lc St kT hLp hLc hSt hkT) (EF.c_d d Lp Lc St kT hLp hLc hSt hkT) hroot hsimple]
  simp only [EF.jacWith, EF.derWith, implicitDerivs, List.getD_cons_succ, List.getD_cons_zero] <;>
    first | (norm_num; done) | (norm_num; ring1)

open Filter Topology in
theorem ED.row_Lp (f Lp Lc St kT : ℝ) (hLp : 0 < Lp) (hLc : 0 < Lc) (hSt : 0 < St) (hkT : 0 < kT) (y : ℝ → ℝ) (y' : ℝ) (hy : HasDerivAt y y' Lp)
    (hroot : ∀ᶠ v in 𝓝 Lp, cubicPoly (ED.a f v Lc St kT) (ED.b f v Lc St kT) (ED.c f v Lc St kT) (y v) = 0)
    (hsimple : cubicPoly' (ED.a f Lp Lc St kT) (ED.b f Lp Lc St kT) (y Lp) ≠ 0) :
    y' = (ED.jacWith (implicitDerivs (ED.a f Lp Lc St kT) (ED.b f Lp Lc St kT) (y Lp)) f Lp Lc St kT).getD 0 0 := by
  rw [implicit_row y _ _ _ y' _ _ _ Lp hy (ED.a_Lp f Lp Lc St kT hLp hLc hSt hkT) (ED.b_Lp f Lp Lc St kT hLp hLc hSt hkT) (ED.c_Lp f Lp Lc St kT hLp hLc hSt hkT) hroot hsimple]
  simp only [ED.jacWith, ED.derWith, implicitDerivs, List.getD_cons_succ, List.getD_cons_zero] <;>
    first | (norm_num; done) | (norm_num; ring1)

open Filter Topology in
theorem ED.row_Lc (f Lp Lc St kT : ℝ) (hLp : 0 < Lp) (hLc : 0 < Lc) (hSt : 0 < St) (hkT : 0 < kT) (y : ℝ → ℝ) (y' : ℝ) (hy : HasDerivAt y y' Lc)
    (hroot : ∀ᶠ v in 𝓝 Lc, cubicPoly (ED.a f Lp v St kT) (ED.b f Lp v St kT) (ED.c f Lp v St kT) (y v) = 0)
    (hsimple : cubicPoly' (ED.a f Lp Lc St kT) (ED.b f Lp Lc St kT) (y Lc) ≠ 0) :
    y' = (ED.jacWith (implicitDerivs (ED.a f Lp Lc St kT) (ED.b f Lp Lc St kT) (y Lc)) f Lp Lc St kT).getD 1 0 := by
  rw [implicit_row y _ _ _ y' _ _ _ Lc hy (ED.a_Lc f Lp Lc St kT hLp hLc hSt hkT) (ED.b_Lc f Lp Lc St kT hLp hLc hSt hkT) (ED.c_Lc f Lp Lc St kT hLp hLc hSt hkT) hroot hsimple]
  simp only [ED.jacWith, ED.derWith, implicitDerivs, List.getD_cons_succ, List.getD_cons_zero] <;>
    first | (norm_num; done) | (norm_num; ring1)

open Filter Topology in
theorem ED.row_St (f Lp Lc St kT : ℝ) (hLp : 0 < Lp) (hLc : 0 < Lc) (hSt : 0 < St) (hkT : 0 < kT) (y : ℝ → ℝ) (y' : ℝ) (hy : HasDerivAt y y' St)
    (hroot : ∀ᶠ v in 𝓝 St, cubicPoly (ED.a f Lp Lc v kT) (ED.b f Lp Lc v kT) (ED.c f Lp Lc v kT) (y v) = 0)
    (hsimple : cubicPoly' (ED.a f Lp Lc St kT) (ED.b f Lp Lc St kT) (y St) ≠ 0) :
    y' = (ED.jacWith (implicitDerivs (ED.a f Lp Lc St kT) (ED.b f Lp Lc St kT) (y St)) f Lp Lc St kT).getD 2 0 := by
  rw [implicit_row y _ _ _ y' _ _ _ St hy (ED.a_St f Lp Lc St kT hLp hLc hSt hkT) (ED.b_St f Lp Lc St kT hLp hLc hSt hkT) (ED.c_St f Lp Lc St kT hLp hLc hSt hkT) hroot hsimple]
  simp only [ED.jacWith, ED.derWith, implicitDerivs, List.getD_cons_succ, List.getD_cons_zero] <;>
    first | (norm_num; done) | (norm_num; ring1)

open Filter Topology in
theorem ED.row_kT (f Lp Lc St kT : ℝ) (hLp : 0 < Lp) (hLc : 0 < Lc) (hSt : 0 < St) (hkT : 0 < kT) (y : ℝ → ℝ) (y' : ℝ) (hy : HasDerivAt y y' kT)
    (hroot : ∀ᶠ v in 𝓝 kT, cubicPoly (ED.a f Lp Lc St v) (ED.b f Lp Lc St v) (ED.c f Lp Lc St v) (y v) = 0)
    (hsimple : cubicPoly' (ED.a f Lp Lc St kT) (ED.b f Lp Lc St kT) (y kT) ≠ 0) :
    y' = (ED.jacWith (implicitDerivs (ED.a f Lp Lc St kT) (ED.b f Lp Lc St kT) (y kT)) f Lp Lc St kT).getD 3 0 := by
  rw [implicit_row y _ _ _ y' _ _ _ kT hy (ED.a_kT f Lp Lc St kT hLp hLc hSt hkT) (ED.b_kT f Lp Lc St kT hLp hLc hSt hkT) (ED.c_kT f Lp Lc St kT hLp hLc hSt hkT) hroot hsimple]
  simp only [ED.jacWith, ED.derWith, implicitDerivs, List.getD_cons_succ, List.getD_cons_zero] <;>
    first | (norm_num; done) | (norm_num; ring1)

open Filter Topology in
theorem ED.row_f (f Lp Lc St kT : ℝ) (hLp : 0 < Lp) (hLc : 0 < Lc) (hSt : 0 < St) (hkT : 0 < kT) (y : ℝ → ℝ) (y' : ℝ) (hy : HasDerivAt y y' f)
    (hroot : ∀ᶠ v in 𝓝 f, cubicPoly (ED.a v Lp Lc St kT) (ED.b v Lp Lc St kT) (ED.c v Lp Lc St kT) (y v) = 0)
    (hsimple : cubicPoly' (ED.a f Lp Lc St kT) (ED.b f Lp Lc St kT) (y f) ≠ 0) :
    y' = ED.derWith (implicitDerivs (ED.a f Lp Lc St kT) (ED.b f Lp Lc St kT) (y f)) f Lp Lc St kT := by
  rw [implicit_row y _ _ _ y' _ _ _ f hy (ED.a_f f Lp Lc St kT hLp hLc hSt hkT) (ED.b_f f Lp Lc St kT hLp hLc hSt hkT) (ED.c_f f Lp Lc St kT hLp hLc hSt hkT) hroot hsimple]
  simp only [ED.jacWith, ED.derWith, implicitDerivs, List.getD_cons_succ, List.getD_cons_zero] <;>
    first | (norm_num; done) | (norm_num; ring1)


/-! ## Inversion rules -/

open Filter Topology in
/-- `invert_derivative`: a continuous local right inverse `g` of `f` has derivative `1/f'(g d)`. -/
theorem inverse_derivative_rule (f g : ℝ → ℝ) (f' d : ℝ) (hg : ContinuousAt g d)
    (hf : HasDerivAt f f' (g d)) (hf' : f' ≠ 0) (hfg : ∀ᶠ z in 𝓝 d, f (g z) = z) :
    HasDerivAt g (invertDerivative f') d :=
  inverse_derivative_lemma f g f' d hg hf hf' hfg

example : ∃ (f g : ℝ → ℝ) (f' d : ℝ), ContinuousAt g d ∧ HasDerivAt f f' (g d) ∧ f' ≠ 0 ∧ ∀ z, f (g z) = z :=
  ⟨fun x => 2 * x, fun z => z / 2, 2, 1, by fun_prop,
    by simpa using (hasDerivAt_id' ((1:ℝ) / 2)).const_mul (2:ℝ), by norm_num, fun z => by ring⟩

open Filter Topology in
/-- `invert_jacobian`: if `f(g(p), p) = d` near `p₀` (the inverted model `g` solves the forward model
    `f` for the fixed abscissa `d`), `f` is differentiable at `(g p₀, p₀)` with partials `f_F ≠ 0, f_p`
    and `g` is differentiable in `p`, then `∂g/∂p = −f_p · (1/f_F)` — the code's row. -/
theorem inverse_jacobian_rule (f : ℝ → ℝ → ℝ) (g : ℝ → ℝ) (fF fp gp d p0 : ℝ)
    (hf : HasFDerivAt (fun q : ℝ × ℝ => f q.1 q.2)
      (fF • ContinuousLinearMap.fst ℝ ℝ ℝ + fp • ContinuousLinearMap.snd ℝ ℝ ℝ) (g p0, p0))
    (hg : HasDerivAt g gp p0) (hfF : fF ≠ 0) (hfg : ∀ᶠ p in 𝓝 p0, f (g p) p = d) :
    gp = (invertJacobian [fp] fF).getD 0 0 :=
  inverse_jacobian_lemma f g fF fp gp d p0 hf hg hfF hfg


/-! ## Index routing: composite, offset, localisation, fit assembly

  `scatterOp op base idx vals` is NumPy's `base[idx] op= vals` for an integer index list (right-hand
  side from the original array, assignments in order: the last one wins on a repeated index);
  `scatterAcc` is the accumulating update (`np.add.at`).  `M.jac`, `jacRow` are built from them exactly
  as `CompositeModel.jacobian`, `SubtractIndependentOffset.jacobian`, `Model._calculate_jacobian`. -/

/-- the sum of the entries of `vals` that `idx` routes to position `k` -/
noncomputable def routedSum (idx : List Nat) (vals : List ℝ) (k : Nat) : ℝ :=
  (((idx.zip vals).filter (fun iv => iv.1 == k)).map Prod.snd).sum

theorem zeros_getElem? (p : List ℝ) (k : Nat) (hk : k < p.length) :
    (p.map fun _ => (0.0:ℝ))[k]? = some 0 := by
  rw [List.getElem?_map, List.getElem?_eq_getElem hk]; norm_num

/-- `CompositeModel.jacobian`: entry `k` of the composite Jacobian is what `lhs_params` routes there
    plus what `rhs_params` routes there — the rows of a shared parameter add, every other row comes
    from exactly one side, rows of neither side stay 0 (index lists of distinct parameters). -/
theorem composite_jacobian (p : List ℝ) (li ri : List Nat) (jl jr : List ℝ) (hli : li.Nodup) (hri : ri.Nodup)
    (k : Nat) (hk : k < p.length) :
    (scatterOp (· + ·) (scatterOp (· + ·) (p.map fun _ => (0.0:ℝ)) li jl) ri jr)[k]? =
      some (routedSum li jl k + routedSum ri jr k) := by
  rw [scatterOp_eq_scatterAcc _ _ _ _ hri, scatterOp_eq_scatterAcc _ _ _ _ hli, scatterAcc_getElem?,
    scatterAcc_getElem?, zeros_getElem? p k hk]
  simp only [Option.map_some, routedAcc_add_sum, routedSum]
  norm_num
example : [0, 3, 1].Nodup ∧ [2, 3].Nodup := by decide

/-- the model's composite Jacobian IS that double scatter (definitional unfolding of `M.jac`) -/
theorem composite_jacobian_unfold (l r : M) (x : ℝ) (p sols : List ℝ) :
    (M.add l r).jac x p sols = (do
      let li ← subIdx (M.add l r).params l.params
      let ri ← subIdx (M.add l r).params r.params
      let pl ← pick li p
      let pr ← pick ri p
      let jl ← l.jac x pl (sols.take l.countInv)
      let jr ← r.jac x pr (sols.drop l.countInv)
      some (scatterOp (· + ·) (scatterOp (· + ·) (p.map fun _ => (0.0:ℝ)) li jl) ri jr)) := by
  rw [M.jac]

/-- the derivative of a sum of models is the sum of the derivatives (`CompositeModel.derivative`,
    and each Jacobian row of `CompositeModel.jacobian` once routed) -/
theorem composite_is_sum_deriv (fl fr : ℝ → ℝ) (a b t : ℝ) (hl : HasDerivAt fl a t) (hr : HasDerivAt fr b t) :
    HasDerivAt (fun s => fl s + fr s) (a + b) t := hl.add hr

/-- `SubtractIndependentOffset.jacobian`: the offset's row is `−f'(x − off)`, every other entry is
    routed from the wrapped model's Jacobian (evaluated at `x − off`). -/
theorem offset_jacobian (p : List ℝ) (mi : List Nat) (jm : List ℝ) (oi : Nat) (dm : ℝ) (hmi : mi.Nodup)
    (hoi : oi < p.length) (k : Nat) (hk : k < p.length) :
    ((scatterOp (· + ·) (p.map fun _ => (0.0:ℝ)) mi jm).set oi (-dm))[k]? =
      some (if k = oi then -dm else routedSum mi jm k) := by
  rw [List.getElem?_set]
  by_cases h : oi = k
  · subst h
    simp [scatterOp_length, hoi]
  · have h' : ¬ k = oi := fun e => h e.symm
    rw [if_neg h, if_neg h', scatterOp_eq_scatterAcc _ _ _ _ hmi, scatterAcc_getElem?, zeros_getElem? p k hk]
    simp only [Option.map_some, routedAcc_add_sum, routedSum]
    norm_num
example : [1, 2, 3].Nodup ∧ 0 < 4 := by decide

theorem offset_jacobian_unfold (name : String) (m : M) (x : ℝ) (p sols : List ℝ) :
    (M.off name m).jac x p sols = (do
      let mi ← subIdx (M.off name m).params m.params
      let oi ← indexOf (M.off name m).params name
      let o ← p[oi]?
      let pm ← pick mi p
      let jm ← m.jac (x - o) pm sols
      let dm ← m.der (x - o) pm sols
      some ((scatterOp (· + ·) (p.map fun _ => (0.0:ℝ)) mi jm).set oi (-dm))) := by
  rw [M.jac]

/-- the offset row is the true derivative: `∂/∂off f(x − off) = −f'(x − off)`, and the derivative
    w.r.t. the independent variable is `f'(x − off)` -/
theorem offset_chain_rule (f : ℝ → ℝ) (f' x off : ℝ) (hf : HasDerivAt f f' (x - off)) :
    HasDerivAt (fun o => f (x - o)) (-f') off ∧ HasDerivAt (fun y => f (y - off)) f' x := by
  constructor
  · have hg : HasDerivAt (fun o => x - o) (-1) off := (hasDerivAt_id' off).const_sub x
    exact (HasDerivAt.comp (h₂ := f) off hf hg).congr_deriv (by ring)
  · have hg : HasDerivAt (fun y => y - off) 1 x := (hasDerivAt_id' x).sub_const off
    exact (HasDerivAt.comp (h₂ := f) x hf hg).congr_deriv (by ring)

/-- `Condition.localize_sensitivities`: `sensitivities[:, p_external]` keeps exactly the columns of
    the model parameters that are mapped to a global NAME (not pinned to a number), in order. -/
theorem localize_sensitivities_spec (trans : List (Tr ℝ)) (row : List ℝ) (h : row.length = trans.length) :
    localizeSensitivities trans row =
      some ((row.zip trans).filterMap fun vt => if vt.2.name?.isSome then some vt.1 else none) := by
  unfold localizeSensitivities pExternal
  rw [pick_flatnonzero _ row (by simp [h])]
  congr 1
  rw [List.zip_map_right, List.filterMap_map]
  rfl
example : ([1.0, 2.0] : List ℝ).length = [(⟨"s:a", .inl "a"⟩ : Tr ℝ), ⟨"c:1", .inr 1⟩].length := rfl

/-- `Model._calculate_jacobian`, one residual row.  (1) The accumulating update puts `−Σ` of all
    sensitivities mapped to global `k` at column `k` — by `shared_parameter_chain_rule` that is the
    derivative of the residual.  (2) The code's buffered update `jacobian[r, p_indices] -= s` is the
    same whenever the data set maps its parameters to DISTINCT globals.  (3) Block structure: columns
    of globals the data set does not use stay 0. -/
theorem fit_jacobian_assembly (g : List ℝ) (pidx : List Nat) (sens : List ℝ) (k : Nat) (hk : k < g.length) :
    (scatterAcc (· - ·) (g.map fun _ => (0.0:ℝ)) pidx sens)[k]? = some (-(routedSum pidx sens k)) ∧
    (pidx.Nodup → scatterOp (· - ·) (g.map fun _ => (0.0:ℝ)) pidx sens
        = scatterAcc (· - ·) (g.map fun _ => (0.0:ℝ)) pidx sens) ∧
    (k ∉ pidx → (scatterOp (· - ·) (g.map fun _ => (0.0:ℝ)) pidx sens)[k]? = some 0) := by
  refine ⟨?_, fun h => scatterOp_eq_scatterAcc _ _ _ _ h, fun hk' => ?_⟩
  · rw [scatterAcc_getElem?, zeros_getElem? g k hk]
    simp only [Option.map_some, routedAcc_sub_sum, routedSum]
    norm_num
  · rw [scatterOp_getElem? _ _ _ _ k 0 (zeros_getElem? g k hk)]
    rw [routedLast_no_key]
    intro iv hm heq
    exact hk' (heq ▸ (List.of_mem_zip hm).1)
example : (1 : Nat) < ([40.0, 16.0, 4.11] : List ℝ).length := by decide

theorem fit_row_unfold (fixed : Bool) (m : M) (trans : List (Tr ℝ)) (names : List String) (g : List ℝ) (x : ℝ) :
    jacRow fixed m trans names g x = (do
      let pl ← getLocalParams trans names g
      let j ← m.jac x pl []
      let sens ← localizeSensitivities trans j
      some ((if fixed then scatterAcc else scatterOp) (· - ·) (g.map fun _ => (0.0:ℝ))
        ((pGlobalIndices trans names).filterMap id) sens)) := rfl

/-- the same for a model WITH inversions (`InverseModel`, `efjc_force`, `twlc_force` inside a fit): the row
    is built from `M.jac` at the point, the data set's local parameters and the values the numerical
    inversions returned AT THAT POINT — nothing of any other data set or any earlier evaluation enters
    (the rule of `inverse_jacobian_rule` is applied point by point). -/
theorem fit_row_sols_unfold (fixed : Bool) (m : M) (trans : List (Tr ℝ)) (names : List String) (g : List ℝ) (x : ℝ)
    (sols : List ℝ) :
    jacRowS fixed m trans names g x sols = (do
      let pl ← getLocalParams trans names g
      let j ← m.jac x pl sols
      let sens ← localizeSensitivities trans j
      some ((if fixed then scatterAcc else scatterOp) (· - ·) (g.map fun _ => (0.0:ℝ))
        ((pGlobalIndices trans names).filterMap id) sens)) := rfl

/-- a data set that carries no inversion values (every model without an inversion) contributes exactly
    the rows `jacRow` of its points, in order -/
theorem fit_rows_without_inversion (fixed : Bool) (m : M) (names : List String) (g : List ℝ) (d : DataSet ℝ)
    (h : d.sols = []) :
    d.points.map (fun xs => jacRowS fixed m d.trans names g xs.1 xs.2)
      = d.xs.map (fun x => jacRow fixed m d.trans names g x) := by
  unfold DataSet.points
  rw [h, withSols_nil, List.map_map]
  rfl
example : (⟨[1.0, 2.0], [], []⟩ : DataSet ℝ).sols = [] := rfl

/-- two local parameters fed from ONE global: the derivative w.r.t. the global is the SUM of the
    two partial derivatives (so the accumulating update is the right one) -/
theorem shared_parameter_chain_rule (f : ℝ → ℝ → ℝ) (f1 f2 g : ℝ)
    (hf : HasFDerivAt (fun q : ℝ × ℝ => f q.1 q.2)
      (f1 • ContinuousLinearMap.fst ℝ ℝ ℝ + f2 • ContinuousLinearMap.snd ℝ ℝ ℝ) (g, g)) :
    HasDerivAt (fun t => f t t) (f1 + f2) g := by
  have h1 : HasDerivAt (fun t : ℝ => (t, t)) ((1:ℝ), (1:ℝ)) g := (hasDerivAt_id g).prodMk (hasDerivAt_id g)
  have hf2 : HasFDerivAt (fun q : ℝ × ℝ => f q.1 q.2)
      (f1 • ContinuousLinearMap.fst ℝ ℝ ℝ + f2 • ContinuousLinearMap.snd ℝ ℝ ℝ) ((fun t : ℝ => (t, t)) g) := hf
  have h2 := HasFDerivAt.comp_hasDerivAt (f := fun t : ℝ => (t, t)) g hf2 h1
  exact h2.congr_deriv (by simp)

/-- Finding F9, kernel-checked: with a repeated target index the code's update keeps only the last
    sensitivity (`−7`), the derivative of the residual needs the sum (`−12`). -/
theorem F9_witness :
    scatterOp (· - ·) [(0:Int), 0, 0] [1, 1] [5, 7] = [0, -7, 0] ∧
    scatterAcc (· - ·) [(0:Int), 0, 0] [1, 1] [5, 7] = [0, -12, 0] := by decide


/-! ## ext: the code's chain rule through Cardano's formula IS the implicit-function derivative -/

/-- `cardano_chain_eq_implicit` (DESIGN ext item), PROVED FOR THE CARDANO BRANCH (`det > 0`): off the
    regularised band the triple `calc_cubic_root_derivatives(a, b, c, k)` equals
    `(−y²/P'(y), −y/P'(y), −1/P'(y))` at the root `y = calc_cubic_root(a, b, c, k)` the code returns.

    Full statement (not proved for `det ≤ 0`, the trigonometric chain rule of `calc_triple_root`):
      `regularised a b c = false → calcCubicRootDerivs a b c k = implicitDerivs a b (calcCubicRoot a b c k)`
    for `k ≤ 2`.  Missing: the `arcsin`/`sin`/`cos` chain (needs `Real.cos_three_mul`-style identities for
    all three roots); that half is tied by the `c13.jac` / `c13.cubic` correspondence and the oracle only. -/
theorem cardano_chain_eq_implicit_partial (a b c : ℝ) (k : Nat) (hdet : 0 < cubDet a b c)
    (hreg : regularised a b c = false) :
    calcCubicRootDerivs a b c k = implicitDerivs a b (calcCubicRoot a b c k) :=
  cardano_chain_eq_implicit_aux a b c k hdet hreg

/-- consequently, on the Cardano branch off the band, the model's (= the code's) Jacobian of the Odijk
    force model is the one assembled from the implicit-function root derivatives — which by
    `OF.row_*` is the derivative of every differentiable branch of simple roots; same for the other
    three cubic models. -/
theorem cubic_jac_eq_implicit_cardano :
    (∀ d Lp Lc St kT : ℝ, 0 < cubDet (OF.a d Lp Lc St kT) (OF.b d Lp Lc St kT) (OF.c d Lp Lc St kT) →
      regularised (OF.a d Lp Lc St kT) (OF.b d Lp Lc St kT) (OF.c d Lp Lc St kT) = false →
      OF.jac d Lp Lc St kT = OF.jacWith (implicitDerivs (OF.a d Lp Lc St kT) (OF.b d Lp Lc St kT) (OF.val d Lp Lc St kT)) d Lp Lc St kT ∧
      OF.der d Lp Lc St kT = OF.derWith (implicitDerivs (OF.a d Lp Lc St kT) (OF.b d Lp Lc St kT) (OF.val d Lp Lc St kT)) d Lp Lc St kT) ∧
    (∀ f Lp Lc kT : ℝ, 0 < cubDet (WD.a f Lp Lc kT) (WD.b f Lp Lc kT) (WD.c f Lp Lc kT) →
      regularised (WD.a f Lp Lc kT) (WD.b f Lp Lc kT) (WD.c f Lp Lc kT) = false →
      WD.jac f Lp Lc kT = WD.jacWith (implicitDerivs (WD.a f Lp Lc kT) (WD.b f Lp Lc kT) (WD.val f Lp Lc kT)) f Lp Lc kT ∧
      WD.der f Lp Lc kT = WD.derWith (implicitDerivs (WD.a f Lp Lc kT) (WD.b f Lp Lc kT) (WD.val f Lp Lc kT)) f Lp Lc kT) ∧
    (∀ d Lp Lc St kT : ℝ, 0 < cubDet (EF.a d Lp Lc St kT) (EF.b d Lp Lc St kT) (EF.c d Lp Lc St kT) →
      regularised (EF.a d Lp Lc St kT) (EF.b d Lp Lc St kT) (EF.c d Lp Lc St kT) = false →
      EF.jac d Lp Lc St kT = EF.jacWith (implicitDerivs (EF.a d Lp Lc St kT) (EF.b d Lp Lc St kT) (EF.val d Lp Lc St kT)) d Lp Lc St kT ∧
      EF.der d Lp Lc St kT = EF.derWith (implicitDerivs (EF.a d Lp Lc St kT) (EF.b d Lp Lc St kT) (EF.val d Lp Lc St kT)) d Lp Lc St kT) ∧
    (∀ f Lp Lc St kT : ℝ, 0 < cubDet (ED.a f Lp Lc St kT) (ED.b f Lp Lc St kT) (ED.c f Lp Lc St kT) →
      regularised (ED.a f Lp Lc St kT) (ED.b f Lp Lc St kT) (ED.c f Lp Lc St kT) = false →
      ED.jac f Lp Lc St kT = ED.jacWith (implicitDerivs (ED.a f Lp Lc St kT) (ED.b f Lp Lc St kT) (ED.val f Lp Lc St kT)) f Lp Lc St kT ∧
      ED.der f Lp Lc St kT = ED.derWith (implicitDerivs (ED.a f Lp Lc St kT) (ED.b f Lp Lc St kT) (ED.val f Lp Lc St kT)) f Lp Lc St kT) := by
  refine ⟨fun d Lp Lc St kT h1 h2 => ?_, fun f Lp Lc kT h1 h2 => ?_, fun d Lp Lc St kT h1 h2 => ?_,
    fun f Lp Lc St kT h1 h2 => ?_⟩
  · simp only [OF.jac, OF.der, OF.val, cardano_chain_eq_implicit_aux _ _ _ 2 h1 h2, and_self]
  · simp only [WD.jac, WD.der, WD.val, cardano_chain_eq_implicit_aux _ _ _ 1 h1 h2, and_self]
  · simp only [EF.jac, EF.der, EF.val, cardano_chain_eq_implicit_aux _ _ _ 2 h1 h2, and_self]
  · simp only [ED.jac, ED.der, ED.val, cardano_chain_eq_implicit_aux _ _ _ 1 h1 h2, and_self]

theorem cbrt_one : Real.cbrt 1 = 1 := by
  unfold Real.cbrt; rw [if_pos (by norm_num)]; exact Real.one_rpow _

/-- non-vacuity of `det > 0 ∧ ¬regularised`: `y³ + 3y = 0` (`p = 3, q = 0, det = 1, t₁ = t₂ = √det = 1`) -/
example : (0:ℝ) < cubDet (0:ℝ) 3 0 ∧ regularised (0:ℝ) 3 0 = false := by
  have hd : cubDet (0:ℝ) 3 0 = 1 := by simp only [cubDet, cubQ, cubP]; norm_num
  have hq : cubQ (0:ℝ) 3 0 = 0 := by simp only [cubQ]; norm_num
  have hlt : RealLike.lt (0.0:ℝ) (1:ℝ) = true := by
    show decide ((0.0:ℝ) < 1) = true
    rw [decide_eq_true_eq]; norm_num
  have hs : RealLike.sqrt (1:ℝ) = 1 := Real.sqrt_one
  have hc : RealLike.cbrt (1:ℝ) = 1 := cbrt_one
  have ha : RealLike.abs (1:ℝ) = 1 := abs_one
  have ha' : RealLike.abs (-(1:ℝ) - 0.5 * 0) = 1 := by
    show |(-(1:ℝ) - 0.5 * 0)| = 1
    norm_num
  have ha'' : RealLike.abs ((1:ℝ) - 0.5 * 0) = 1 := by
    show |((1:ℝ) - 0.5 * 0)| = 1
    norm_num
  have hbig : RealLike.lt (1:ℝ) (10e-6:ℝ) = false := by
    show decide ((1:ℝ) < 10e-6) = false
    rw [decide_eq_false_iff_not]; norm_num
  refine ⟨by rw [hd]; norm_num, ?_⟩
  simp only [regularised, hd, hq, hlt, if_true, hs, ha', ha'', hc, RealLike.sq, mul_one, ha, hbig, Bool.or_self]



/-! ## Deepening round D: the trigonometric branch (`det < 0`, `calc_triple_root`) and the full statement -/

/-- `det < 0` (three distinct real roots; `calc_cubic_root` uses the trigonometric form, `calc_cubic_root_derivatives`
    goes through `calc_triple_root`): for each of the three roots `k` the code's chain rule through
    `arcsin`/`sin`/`cos` EQUALS `(−y²/P'(y), −y/P'(y), −1/P'(y))` at the root the code returns.  No band hypothesis:
    `det < 0` already gives `|F| < 1` (`trig_band_free`). -/
theorem trig_chain_eq_implicit (a b c : ℝ) (k : Nat) (hdet : cubDet a b c < 0) :
    calcCubicRootDerivs a b c k = implicitDerivs a b (calcCubicRoot a b c k) :=
  (trig_root_all a b c k hdet).1

example : cubDet (0:ℝ) (-3) 0 < 0 := by simp only [cubDet, cubP, cubQ]; norm_num

/-- for `det < 0` the band predicate is false: `|F| < 1` is implied, nothing is excluded on this branch -/
theorem trig_band_free (a b c : ℝ) (hdet : cubDet a b c < 0) : regularised a b c = false := by
  obtain ⟨_, hlt, _, hF⟩ := trig_facts a b c hdet
  have : RealLike.lt (RealLike.abs (trigArg (cubP a b) (cubQ a b c))) (1.0:ℝ) = true := by
    show decide (|trigArg (cubP a b) (cubQ a b c)| < (1.0:ℝ)) = true
    rw [decide_eq_true_eq]; norm_num; exact hF
  simp only [regularised, hlt, Bool.false_eq_true, if_false, this, Bool.not_true]

/-- the root `calc_cubic_root` returns for `det < 0` IS a root of `y³ + a y² + b y + c`, and a simple one -/
theorem trig_root_is_simple_root (a b c : ℝ) (k : Nat) (hdet : cubDet a b c < 0) :
    cubicPoly a b c (calcCubicRoot a b c k) = 0 ∧ cubicPoly' a b (calcCubicRoot a b c k) ≠ 0 :=
  (trig_root_all a b c k hdet).2

/-- `cardano_chain_eq_implicit` (DESIGN ext item), FULL: on both branches, off the regularised band, the triple
    `calc_cubic_root_derivatives(a, b, c, k)` is the implicit-function triple at `calc_cubic_root(a, b, c, k)`.
    `det ≠ 0` is needed only because the band predicate is read at `ℝ` with `x/0 = 0`: at `det = 0` the band
    contains everything (`|F| = 1`) except the triple root `p = q = 0`, where `F = 0/0` is NaN (in the band) for
    the executing `Float` model and `0` for `ℝ` — `det_ne_zero_necessary` is the witness. -/
theorem cardano_chain_eq_implicit (a b c : ℝ) (k : Nat) (hdet : cubDet a b c ≠ 0)
    (hreg : regularised a b c = false) :
    calcCubicRootDerivs a b c k = implicitDerivs a b (calcCubicRoot a b c k) := by
  rcases lt_or_gt_of_ne hdet with h | h
  · exact (trig_root_all a b c k h).1
  · exact cardano_chain_eq_implicit_aux a b c k h hreg

example : cubDet (0:ℝ) (-3) 0 ≠ 0 ∧ regularised (0:ℝ) (-3) 0 = false :=
  have h : cubDet (0:ℝ) (-3) 0 < 0 := by simp only [cubDet, cubP, cubQ]; norm_num
  ⟨h.ne, trig_band_free _ _ _ h⟩

/-- the hypothesis `det ≠ 0` of `cardano_chain_eq_implicit` cannot be dropped (triple root `y³ = 0`) -/
theorem det_ne_zero_necessary :
    cubDet (0:ℝ) 0 0 = 0 ∧ regularised (0:ℝ) 0 0 = false ∧
    calcCubicRootDerivs (0:ℝ) 0 0 0 ≠ implicitDerivs 0 0 (calcCubicRoot (0:ℝ) 0 0 0) := by
  have hp : cubP (0:ℝ) 0 = 0 := by simp only [cubP]; norm_num
  have hq : cubQ (0:ℝ) 0 0 = 0 := by simp only [cubQ]; norm_num
  have hd : cubDet (0:ℝ) 0 0 = 0 := by simp only [cubDet, hp, hq]; norm_num
  have hlt : RealLike.lt (0.0:ℝ) (0:ℝ) = false := by
    show decide ((0.0:ℝ) < 0) = false
    rw [decide_eq_false_iff_not]; norm_num
  have hle : RealLike.le (0.0:ℝ) (0:ℝ) = true := by
    show decide ((0.0:ℝ) ≤ 0) = true
    rw [decide_eq_true_eq]; norm_num
  have hF : trigArg (0:ℝ) 0 = 0 := by simp only [trigArg]; norm_num
  have habs : RealLike.lt (RealLike.abs (0:ℝ)) (1.0:ℝ) = true := by
    show decide (|(0:ℝ)| < 1.0) = true
    rw [decide_eq_true_eq]; norm_num
  refine ⟨hd, ?_, ?_⟩
  · simp only [regularised, hd, hp, hq, hlt, hF, habs, Bool.false_eq_true, if_false, Bool.not_true]
  · intro h
    have h1 := congrArg Prod.fst h
    simp only [calcCubicRootDerivs, hd, hp, hq, hlt, Bool.false_eq_true, if_false, calcTripleRoot, implicitDerivs,
      calcCubicRoot, hle, if_true, cubicPoly'_real, RealLike.sqrt] at h1
    have hc0 : RealLike.cbrt (0:ℝ) = 0 := by
      show Verif.Real.cbrt 0 = 0
      unfold Verif.Real.cbrt
      rw [if_pos le_rfl]; exact Real.zero_rpow (by norm_num)
    norm_num at h1
    rw [hc0] at h1
    norm_num at h1

/-- consequently the Jacobian / derivative of the four cubic models, as the code computes them, are the ones
    assembled from the implicit-function root derivatives on BOTH branches off the band (supersedes
    `cubic_jac_eq_implicit_cardano`) -/
theorem cubic_jac_eq_implicit :
    (∀ d Lp Lc St kT : ℝ, cubDet (OF.a d Lp Lc St kT) (OF.b d Lp Lc St kT) (OF.c d Lp Lc St kT) ≠ 0 →
      regularised (OF.a d Lp Lc St kT) (OF.b d Lp Lc St kT) (OF.c d Lp Lc St kT) = false →
      OF.jac d Lp Lc St kT = OF.jacWith (implicitDerivs (OF.a d Lp Lc St kT) (OF.b d Lp Lc St kT) (OF.val d Lp Lc St kT)) d Lp Lc St kT ∧
      OF.der d Lp Lc St kT = OF.derWith (implicitDerivs (OF.a d Lp Lc St kT) (OF.b d Lp Lc St kT) (OF.val d Lp Lc St kT)) d Lp Lc St kT) ∧
    (∀ f Lp Lc kT : ℝ, cubDet (WD.a f Lp Lc kT) (WD.b f Lp Lc kT) (WD.c f Lp Lc kT) ≠ 0 →
      regularised (WD.a f Lp Lc kT) (WD.b f Lp Lc kT) (WD.c f Lp Lc kT) = false →
      WD.jac f Lp Lc kT = WD.jacWith (implicitDerivs (WD.a f Lp Lc kT) (WD.b f Lp Lc kT) (WD.val f Lp Lc kT)) f Lp Lc kT ∧
      WD.der f Lp Lc kT = WD.derWith (implicitDerivs (WD.a f Lp Lc kT) (WD.b f Lp Lc kT) (WD.val f Lp Lc kT)) f Lp Lc kT) ∧
    (∀ d Lp Lc St kT : ℝ, cubDet (EF.a d Lp Lc St kT) (EF.b d Lp Lc St kT) (EF.c d Lp Lc St kT) ≠ 0 →
      regularised (EF.a d Lp Lc St kT) (EF.b d Lp Lc St kT) (EF.c d Lp Lc St kT) = false →
      EF.jac d Lp Lc St kT = EF.jacWith (implicitDerivs (EF.a d Lp Lc St kT) (EF.b d Lp Lc St kT) (EF.val d Lp Lc St kT)) d Lp Lc St kT ∧
      EF.der d Lp Lc St kT = EF.derWith (implicitDerivs (EF.a d Lp Lc St kT) (EF.b d Lp Lc St kT) (EF.val d Lp Lc St kT)) d Lp Lc St kT) ∧
    (∀ f Lp Lc St kT : ℝ, cubDet (ED.a f Lp Lc St kT) (ED.b f Lp Lc St kT) (ED.c f Lp Lc St kT) ≠ 0 →
      regularised (ED.a f Lp Lc St kT) (ED.b f Lp Lc St kT) (ED.c f Lp Lc St kT) = false →
      ED.jac f Lp Lc St kT = ED.jacWith (implicitDerivs (ED.a f Lp Lc St kT) (ED.b f Lp Lc St kT) (ED.val f Lp Lc St kT)) f Lp Lc St kT ∧
      ED.der f Lp Lc St kT = ED.derWith (implicitDerivs (ED.a f Lp Lc St kT) (ED.b f Lp Lc St kT) (ED.val f Lp Lc St kT)) f Lp Lc St kT) := by
  refine ⟨fun d Lp Lc St kT h1 h2 => ?_, fun f Lp Lc kT h1 h2 => ?_, fun d Lp Lc St kT h1 h2 => ?_,
    fun f Lp Lc St kT h1 h2 => ?_⟩
  · simp only [OF.jac, OF.der, OF.val, cardano_chain_eq_implicit _ _ _ 2 h1 h2, and_self]
  · simp only [WD.jac, WD.der, WD.val, cardano_chain_eq_implicit _ _ _ 1 h1 h2, and_self]
  · simp only [EF.jac, EF.der, EF.val, cardano_chain_eq_implicit _ _ _ 2 h1 h2, and_self]
  · simp only [ED.jac, ED.der, ED.val, cardano_chain_eq_implicit _ _ _ 1 h1 h2, and_self]



/-! ## Deepening round D: the model function of the four cubic models HAS the derivative the code computes

  The hypotheses of `cubic_implicit_deriv` / `X.row_*` (a differentiable branch of simple roots exists) are
  ESTABLISHED for the branch the code itself evaluates: off the band (`det ≠ 0`, no clamp active) the number
  `calc_cubic_root(a, b, c, k)` is a simple root of the cubic (`trig_root_is_simple_root`,
  `cardano_root_is_simple_root`), it depends differentiably on the coefficients (composition of `√`, `∛`,
  `arcsin`, `sin`, `cos` away from their singular points), hence its derivative along any differentiable
  coefficient curve is the implicit-function value — which is what `calc_cubic_root_derivatives` returns
  (`cardano_chain_eq_implicit`). -/

/-- `det > 0`: the root Cardano's formula returns is a simple root of the cubic (no band hypothesis) -/
theorem cardano_root_is_simple_root (a b c : ℝ) (k : Nat) (hdet : 0 < cubDet a b c) :
    cubicPoly a b c (calcCubicRoot a b c k) = 0 ∧ cubicPoly' a b (calcCubicRoot a b c k) ≠ 0 :=
  cardano_root_simple a b c k hdet
example : (0:ℝ) < cubDet (0:ℝ) 3 0 := by simp only [cubDet, cubP, cubQ]; norm_num

/-- `calc_cubic_root` composed with differentiable coefficient maps has the derivative
    `∂y/∂a·a' + ∂y/∂b·b' + ∂y/∂c·c'` with `(∂y/∂a, ∂y/∂b, ∂y/∂c) = calc_cubic_root_derivatives(a, b, c, k)`:
    the code's chain rule is the TRUE derivative of the code's root, on both branches, off the band. -/
theorem cubic_root_hasDerivAt (A B C : ℝ → ℝ) (a' b' c' t : ℝ) (k : Nat) (hA : HasDerivAt A a' t)
    (hB : HasDerivAt B b' t) (hC : HasDerivAt C c' t) (hdet : cubDet (A t) (B t) (C t) ≠ 0)
    (hreg : regularised (A t) (B t) (C t) = false) :
    HasDerivAt (fun s => calcCubicRoot (A s) (B s) (C s) k)
      ((calcCubicRootDerivs (A t) (B t) (C t) k).1 * a' + (calcCubicRootDerivs (A t) (B t) (C t) k).2.1 * b'
        + (calcCubicRootDerivs (A t) (B t) (C t) k).2.2 * c') t := by
  rcases lt_or_gt_of_ne hdet with h | h
  · exact trig_root_hasDerivAt A B C a' b' c' t k hA hB hC h
  · exact cardano_root_hasDerivAt A B C a' b' c' t k hA hB hC h hreg


/-- non-vacuity: `y³ − 3y + t` at `t = 0` (`det = −1 < 0`) -/
example : HasDerivAt (fun _ : ℝ => (0:ℝ)) 0 0 ∧ HasDerivAt (fun _ : ℝ => (-3:ℝ)) 0 0 ∧ HasDerivAt (fun s : ℝ => s) 1 0 ∧
    cubDet (0:ℝ) (-3) 0 ≠ 0 ∧ regularised (0:ℝ) (-3) 0 = false :=
  have h : cubDet (0:ℝ) (-3) 0 < 0 := by simp only [cubDet, cubP, cubQ]; norm_num
  ⟨hasDerivAt_const _ _, hasDerivAt_const _ _, hasDerivAt_id' 0, h.ne, trig_band_free _ _ _ h⟩

set_option linter.unusedSimpArgs false

/-- row `Lp` of the code's Jacobian of this cubic model is the partial derivative of the model function w.r.t. `Lp` (both branches, off the regularised band) -/
theorem OF.jac_Lp_hasDerivAt (d Lp Lc St kT : ℝ) (hLp : 0 < Lp) (hLc : 0 < Lc) (hSt : 0 < St) (hkT : 0 < kT)
    (hdet : cubDet (OF.a d Lp Lc St kT) (OF.b d Lp Lc St kT) (OF.c d Lp Lc St kT) ≠ 0)
    (hreg : regularised (OF.a d Lp Lc St kT) (OF.b d Lp Lc St kT) (OF.c d Lp Lc St kT) = false) :
    HasDerivAt (fun v => OF.val d v Lc St kT) ((OF.jac d Lp Lc St kT).getD 0 0) Lp := by
  have h := cubic_root_hasDerivAt (fun v => OF.a d v Lc St kT) (fun v => OF.b d v Lc St kT) (fun v => OF.c d v Lc St kT)
    _ _ _ Lp 2 (OF.a_Lp d Lp Lc St kT) (OF.b_Lp d Lp Lc St kT) (OF.c_Lp d Lp Lc St kT hLp hLc hSt hkT) hdet hreg
  refine h.congr_deriv ?_
  simp only [OF.jac, OF.jacWith, OF.der, OF.derWith, List.getD_cons_succ, List.getD_cons_zero]
  all_goals
    generalize calcCubicRootDerivs (OF.a d Lp Lc St kT) (OF.b d Lp Lc St kT) (OF.c d Lp Lc St kT) 2 = r
    obtain ⟨ya, yb, yc⟩ := r
    first | (simp only []; done) | (simp only []; ring)

/-- row `Lc` of the code's Jacobian of this cubic model is the partial derivative of the model function w.r.t. `Lc` (both branches, off the regularised band) -/
theorem OF.jac_Lc_hasDerivAt (d Lp Lc St kT : ℝ) (hLp : 0 < Lp) (hLc : 0 < Lc) (hSt : 0 < St) (hkT : 0 < kT)
    (hdet : cubDet (OF.a d Lp Lc St kT) (OF.b d Lp Lc St kT) (OF.c d Lp Lc St kT) ≠ 0)
    (hreg : regularised (OF.a d Lp Lc St kT) (OF.b d Lp Lc St kT) (OF.c d Lp Lc St kT) = false) :
    HasDerivAt (fun v => OF.val d Lp v St kT) ((OF.jac d Lp Lc St kT).getD 1 0) Lc := by
  have h := cubic_root_hasDerivAt (fun v => OF.a d Lp v St kT) (fun v => OF.b d Lp v St kT) (fun v => OF.c d Lp v St kT)
    _ _ _ Lc 2 (OF.a_Lc d Lp Lc St kT hLp hLc hSt hkT) (OF.b_Lc d Lp Lc St kT hLp hLc hSt hkT) (OF.c_Lc d Lp Lc St kT) hdet hreg
  refine h.congr_deriv ?_
  simp only [OF.jac, OF.jacWith, OF.der, OF.derWith, List.getD_cons_succ, List.getD_cons_zero]
  all_goals
    generalize calcCubicRootDerivs (OF.a d Lp Lc St kT) (OF.b d Lp Lc St kT) (OF.c d Lp Lc St kT) 2 = r
    obtain ⟨ya, yb, yc⟩ := r
    first | (simp only []; done) | (simp only []; ring)

/-- row `St` of the code's Jacobian of this cubic model is the partial derivative of the model function w.r.t. `St` (both branches, off the regularised band) -/
theorem OF.jac_St_hasDerivAt (d Lp Lc St kT : ℝ) (hLp : 0 < Lp) (hLc : 0 < Lc) (hSt : 0 < St) (hkT : 0 < kT)
    (hdet : cubDet (OF.a d Lp Lc St kT) (OF.b d Lp Lc St kT) (OF.c d Lp Lc St kT) ≠ 0)
    (hreg : regularised (OF.a d Lp Lc St kT) (OF.b d Lp Lc St kT) (OF.c d Lp Lc St kT) = false) :
    HasDerivAt (fun v => OF.val d Lp Lc v kT) ((OF.jac d Lp Lc St kT).getD 2 0) St := by
  have h := cubic_root_hasDerivAt (fun v => OF.a d Lp Lc v kT) (fun v => OF.b d Lp Lc v kT) (fun v => OF.c d Lp Lc v kT)
    _ _ _ St 2 (OF.a_St d Lp Lc St kT hLp hLc hSt hkT) (OF.b_St d Lp Lc St kT hLp hLc hSt hkT) (OF.c_St d Lp Lc St kT hLp hLc hSt hkT) hdet hreg
  refine h.congr_deriv ?_
  simp only [OF.jac, OF.jacWith, OF.der, OF.derWith, List.getD_cons_succ, List.getD_cons_zero]
  all_goals
    generalize calcCubicRootDerivs (OF.a d Lp Lc St kT) (OF.b d Lp Lc St kT) (OF.c d Lp Lc St kT) 2 = r
    obtain ⟨ya, yb, yc⟩ := r
    first | (simp only []; done) | (simp only []; ring)

/-- row `kT` of the code's Jacobian of this cubic model is the partial derivative of the model function w.r.t. `kT` (both branches, off the regularised band) -/
theorem OF.jac_kT_hasDerivAt (d Lp Lc St kT : ℝ) (hLp : 0 < Lp) (hLc : 0 < Lc) (hSt : 0 < St) (hkT : 0 < kT)
    (hdet : cubDet (OF.a d Lp Lc St kT) (OF.b d Lp Lc St kT) (OF.c d Lp Lc St kT) ≠ 0)
    (hreg : regularised (OF.a d Lp Lc St kT) (OF.b d Lp Lc St kT) (OF.c d Lp Lc St kT) = false) :
    HasDerivAt (fun v => OF.val d Lp Lc St v) ((OF.jac d Lp Lc St kT).getD 3 0) kT := by
  have h := cubic_root_hasDerivAt (fun v => OF.a d Lp Lc St v) (fun v => OF.b d Lp Lc St v) (fun v => OF.c d Lp Lc St v)
    _ _ _ kT 2 (OF.a_kT d Lp Lc St kT) (OF.b_kT d Lp Lc St kT) (OF.c_kT d Lp Lc St kT hLp hLc hSt hkT) hdet hreg
  refine h.congr_deriv ?_
  simp only [OF.jac, OF.jacWith, OF.der, OF.derWith, List.getD_cons_succ, List.getD_cons_zero]
  all_goals
    generalize calcCubicRootDerivs (OF.a d Lp Lc St kT) (OF.b d Lp Lc St kT) (OF.c d Lp Lc St kT) 2 = r
    obtain ⟨ya, yb, yc⟩ := r
    first | (simp only []; done) | (simp only []; ring)

/-- the code's derivative of this cubic model is the derivative of the model function w.r.t. the independent variable `d` (both branches, off the regularised band) -/
theorem OF.der_hasDerivAt (d Lp Lc St kT : ℝ) (hLp : 0 < Lp) (hLc : 0 < Lc) (hSt : 0 < St) (hkT : 0 < kT)
    (hdet : cubDet (OF.a d Lp Lc St kT) (OF.b d Lp Lc St kT) (OF.c d Lp Lc St kT) ≠ 0)
    (hreg : regularised (OF.a d Lp Lc St kT) (OF.b d Lp Lc St kT) (OF.c d Lp Lc St kT) = false) :
    HasDerivAt (fun v => OF.val v Lp Lc St kT) (OF.der d Lp Lc St kT) d := by
  have h := cubic_root_hasDerivAt (fun v => OF.a v Lp Lc St kT) (fun v => OF.b v Lp Lc St kT) (fun v => OF.c v Lp Lc St kT)
    _ _ _ d 2 (OF.a_d d Lp Lc St kT hLp hLc hSt hkT) (OF.b_d d Lp Lc St kT hLp hLc hSt hkT) (OF.c_d d Lp Lc St kT) hdet hreg
  refine h.congr_deriv ?_
  simp only [OF.jac, OF.jacWith, OF.der, OF.derWith, List.getD_cons_succ, List.getD_cons_zero]
  all_goals
    generalize calcCubicRootDerivs (OF.a d Lp Lc St kT) (OF.b d Lp Lc St kT) (OF.c d Lp Lc St kT) 2 = r
    obtain ⟨ya, yb, yc⟩ := r
    first | (simp only []; done) | (simp only []; ring)

/-- non-vacuity of the `OF` rows: positive parameters with `det < 0`, off the band -/
example : cubDet (α := ℝ) (OF.a 1 (1/2) (1/2) 2 (1/2)) (OF.b 1 (1/2) (1/2) 2 (1/2)) (OF.c 1 (1/2) (1/2) 2 (1/2)) ≠ 0 ∧ regularised (α := ℝ) (OF.a 1 (1/2) (1/2) 2 (1/2)) (OF.b 1 (1/2) (1/2) 2 (1/2)) (OF.c 1 (1/2) (1/2) 2 (1/2)) = false :=
  have h : cubDet (α := ℝ) (OF.a 1 (1/2) (1/2) 2 (1/2)) (OF.b 1 (1/2) (1/2) 2 (1/2)) (OF.c 1 (1/2) (1/2) 2 (1/2)) < 0 := by
    simp only [OF.a, OF.b, OF.c, cubDet, cubP, cubQ, RealLike.sq, RealLike.cube]; norm_num
  ⟨h.ne, trig_band_free _ _ _ h⟩

/-- row `Lp` of the code's Jacobian of this cubic model is the partial derivative of the model function w.r.t. `Lp` (both branches, off the regularised band) -/
theorem WD.jac_Lp_hasDerivAt (f Lp Lc kT : ℝ) (hLp : 0 < Lp) (hLc : 0 < Lc) (hkT : 0 < kT)
    (hdet : cubDet (WD.a f Lp Lc kT) (WD.b f Lp Lc kT) (WD.c f Lp Lc kT) ≠ 0)
    (hreg : regularised (WD.a f Lp Lc kT) (WD.b f Lp Lc kT) (WD.c f Lp Lc kT) = false) :
    HasDerivAt (fun v => WD.val f v Lc kT) ((WD.jac f Lp Lc kT).getD 0 0) Lp := by
  have h := cubic_root_hasDerivAt (fun v => WD.a f v Lc kT) (fun v => WD.b f v Lc kT) (fun v => WD.c f v Lc kT)
    _ _ _ Lp 1 (WD.a_Lp f Lp Lc kT hLp hLc hkT) (WD.b_Lp f Lp Lc kT hLp hLc hkT) (WD.c_Lp f Lp Lc kT hLp hLc hkT) hdet hreg
  refine h.congr_deriv ?_
  simp only [WD.jac, WD.jacWith, WD.der, WD.derWith, List.getD_cons_succ, List.getD_cons_zero]
  all_goals
    generalize calcCubicRootDerivs (WD.a f Lp Lc kT) (WD.b f Lp Lc kT) (WD.c f Lp Lc kT) 1 = r
    obtain ⟨ya, yb, yc⟩ := r
    first | (simp only []; done) | (simp only []; ring)

/-- row `Lc` of the code's Jacobian of this cubic model is the partial derivative of the model function w.r.t. `Lc` (both branches, off the regularised band) -/
theorem WD.jac_Lc_hasDerivAt (f Lp Lc kT : ℝ) (hLp : 0 < Lp) (hLc : 0 < Lc) (hkT : 0 < kT)
    (hdet : cubDet (WD.a f Lp Lc kT) (WD.b f Lp Lc kT) (WD.c f Lp Lc kT) ≠ 0)
    (hreg : regularised (WD.a f Lp Lc kT) (WD.b f Lp Lc kT) (WD.c f Lp Lc kT) = false) :
    HasDerivAt (fun v => WD.val f Lp v kT) ((WD.jac f Lp Lc kT).getD 1 0) Lc := by
  have h := cubic_root_hasDerivAt (fun v => WD.a f Lp v kT) (fun v => WD.b f Lp v kT) (fun v => WD.c f Lp v kT)
    _ _ _ Lc 1 (WD.a_Lc f Lp Lc kT hLp hLc hkT) (WD.b_Lc f Lp Lc kT hLp hLc hkT) (WD.c_Lc f Lp Lc kT hLp hLc hkT) hdet hreg
  refine h.congr_deriv ?_
  simp only [WD.jac, WD.jacWith, WD.der, WD.derWith, List.getD_cons_succ, List.getD_cons_zero]
  all_goals
    generalize calcCubicRootDerivs (WD.a f Lp Lc kT) (WD.b f Lp Lc kT) (WD.c f Lp Lc kT) 1 = r
    obtain ⟨ya, yb, yc⟩ := r
    first | (simp only []; done) | (simp only []; ring)

/-- row `kT` of the code's Jacobian of this cubic model is the partial derivative of the model function w.r.t. `kT` (both branches, off the regularised band) -/
theorem WD.jac_kT_hasDerivAt (f Lp Lc kT : ℝ) (hLp : 0 < Lp) (hLc : 0 < Lc) (hkT : 0 < kT)
    (hdet : cubDet (WD.a f Lp Lc kT) (WD.b f Lp Lc kT) (WD.c f Lp Lc kT) ≠ 0)
    (hreg : regularised (WD.a f Lp Lc kT) (WD.b f Lp Lc kT) (WD.c f Lp Lc kT) = false) :
    HasDerivAt (fun v => WD.val f Lp Lc v) ((WD.jac f Lp Lc kT).getD 2 0) kT := by
  have h := cubic_root_hasDerivAt (fun v => WD.a f Lp Lc v) (fun v => WD.b f Lp Lc v) (fun v => WD.c f Lp Lc v)
    _ _ _ kT 1 (WD.a_kT f Lp Lc kT hLp hLc hkT) (WD.b_kT f Lp Lc kT hLp hLc hkT) (WD.c_kT f Lp Lc kT hLp hLc hkT) hdet hreg
  refine h.congr_deriv ?_
  simp only [WD.jac, WD.jacWith, WD.der, WD.derWith, List.getD_cons_succ, List.getD_cons_zero]
  all_goals
    generalize calcCubicRootDerivs (WD.a f Lp Lc kT) (WD.b f Lp Lc kT) (WD.c f Lp Lc kT) 1 = r
    obtain ⟨ya, yb, yc⟩ := r
    first | (simp only []; done) | (simp only []; ring)

/-- the code's derivative of this cubic model is the derivative of the model function w.r.t. the independent variable `f` (both branches, off the regularised band) -/
theorem WD.der_hasDerivAt (f Lp Lc kT : ℝ) (hLp : 0 < Lp) (hLc : 0 < Lc) (hkT : 0 < kT)
    (hdet : cubDet (WD.a f Lp Lc kT) (WD.b f Lp Lc kT) (WD.c f Lp Lc kT) ≠ 0)
    (hreg : regularised (WD.a f Lp Lc kT) (WD.b f Lp Lc kT) (WD.c f Lp Lc kT) = false) :
    HasDerivAt (fun v => WD.val v Lp Lc kT) (WD.der f Lp Lc kT) f := by
  have h := cubic_root_hasDerivAt (fun v => WD.a v Lp Lc kT) (fun v => WD.b v Lp Lc kT) (fun v => WD.c v Lp Lc kT)
    _ _ _ f 1 (WD.a_f f Lp Lc kT hLp hLc hkT) (WD.b_f f Lp Lc kT hLp hLc hkT) (WD.c_f f Lp Lc kT hLp hLc hkT) hdet hreg
  refine h.congr_deriv ?_
  simp only [WD.jac, WD.jacWith, WD.der, WD.derWith, List.getD_cons_succ, List.getD_cons_zero]
  all_goals
    generalize calcCubicRootDerivs (WD.a f Lp Lc kT) (WD.b f Lp Lc kT) (WD.c f Lp Lc kT) 1 = r
    obtain ⟨ya, yb, yc⟩ := r
    first | (simp only []; done) | (simp only []; ring)

/-- non-vacuity of the `WD` rows: positive parameters with `det < 0`, off the band -/
example : cubDet (α := ℝ) (WD.a (1/2) 2 1 (1/2)) (WD.b (1/2) 2 1 (1/2)) (WD.c (1/2) 2 1 (1/2)) ≠ 0 ∧ regularised (α := ℝ) (WD.a (1/2) 2 1 (1/2)) (WD.b (1/2) 2 1 (1/2)) (WD.c (1/2) 2 1 (1/2)) = false :=
  have h : cubDet (α := ℝ) (WD.a (1/2) 2 1 (1/2)) (WD.b (1/2) 2 1 (1/2)) (WD.c (1/2) 2 1 (1/2)) < 0 := by
    simp only [WD.a, WD.b, WD.c, cubDet, cubP, cubQ, RealLike.sq, RealLike.cube]; norm_num
  ⟨h.ne, trig_band_free _ _ _ h⟩

/-- row `Lp` of the code's Jacobian of this cubic model is the partial derivative of the model function w.r.t. `Lp` (both branches, off the regularised band) -/
theorem EF.jac_Lp_hasDerivAt (d Lp Lc St kT : ℝ) (hLp : 0 < Lp) (hLc : 0 < Lc) (hSt : 0 < St) (hkT : 0 < kT)
    (hdet : cubDet (EF.a d Lp Lc St kT) (EF.b d Lp Lc St kT) (EF.c d Lp Lc St kT) ≠ 0)
    (hreg : regularised (EF.a d Lp Lc St kT) (EF.b d Lp Lc St kT) (EF.c d Lp Lc St kT) = false) :
    HasDerivAt (fun v => EF.val d v Lc St kT) ((EF.jac d Lp Lc St kT).getD 0 0) Lp := by
  have h := cubic_root_hasDerivAt (fun v => EF.a d v Lc St kT) (fun v => EF.b d v Lc St kT) (fun v => EF.c d v Lc St kT)
    _ _ _ Lp 2 (EF.a_Lp d Lp Lc St kT hLp hLc hSt hkT) (EF.b_Lp d Lp Lc St kT hLp hLc hSt hkT) (EF.c_Lp d Lp Lc St kT hLp hLc hSt hkT) hdet hreg
  refine h.congr_deriv ?_
  simp only [EF.jac, EF.jacWith, EF.der, EF.derWith, List.getD_cons_succ, List.getD_cons_zero]
  all_goals
    generalize calcCubicRootDerivs (EF.a d Lp Lc St kT) (EF.b d Lp Lc St kT) (EF.c d Lp Lc St kT) 2 = r
    obtain ⟨ya, yb, yc⟩ := r
    first | (simp only []; done) | (simp only []; ring)

/-- row `Lc` of the code's Jacobian of this cubic model is the partial derivative of the model function w.r.t. `Lc` (both branches, off the regularised band) -/
theorem EF.jac_Lc_hasDerivAt (d Lp Lc St kT : ℝ) (hLp : 0 < Lp) (hLc : 0 < Lc) (hSt : 0 < St) (hkT : 0 < kT)
    (hdet : cubDet (EF.a d Lp Lc St kT) (EF.b d Lp Lc St kT) (EF.c d Lp Lc St kT) ≠ 0)
    (hreg : regularised (EF.a d Lp Lc St kT) (EF.b d Lp Lc St kT) (EF.c d Lp Lc St kT) = false) :
    HasDerivAt (fun v => EF.val d Lp v St kT) ((EF.jac d Lp Lc St kT).getD 1 0) Lc := by
  have h := cubic_root_hasDerivAt (fun v => EF.a d Lp v St kT) (fun v => EF.b d Lp v St kT) (fun v => EF.c d Lp v St kT)
    _ _ _ Lc 2 (EF.a_Lc d Lp Lc St kT hLp hLc hSt hkT) (EF.b_Lc d Lp Lc St kT hLp hLc hSt hkT) (EF.c_Lc d Lp Lc St kT hLp hLc hSt hkT) hdet hreg
  refine h.congr_deriv ?_
  simp only [EF.jac, EF.jacWith, EF.der, EF.derWith, List.getD_cons_succ, List.getD_cons_zero]
  all_goals
    generalize calcCubicRootDerivs (EF.a d Lp Lc St kT) (EF.b d Lp Lc St kT) (EF.c d Lp Lc St kT) 2 = r
    obtain ⟨ya, yb, yc⟩ := r
    first | (simp only []; done) | (simp only []; ring)

/-- row `St` of the code's Jacobian of this cubic model is the partial derivative of the model function w.r.t. `St` (both branches, off the regularised band) -/
theorem EF.jac_St_hasDerivAt (d Lp Lc St kT : ℝ) (hLp : 0 < Lp) (hLc : 0 < Lc) (hSt : 0 < St) (hkT : 0 < kT)
    (hdet : cubDet (EF.a d Lp Lc St kT) (EF.b d Lp Lc St kT) (EF.c d Lp Lc St kT) ≠ 0)
    (hreg : regularised (EF.a d Lp Lc St kT) (EF.b d Lp Lc St kT) (EF.c d Lp Lc St kT) = false) :
    HasDerivAt (fun v => EF.val d Lp Lc v kT) ((EF.jac d Lp Lc St kT).getD 2 0) St := by
  have h := cubic_root_hasDerivAt (fun v => EF.a d Lp Lc v kT) (fun v => EF.b d Lp Lc v kT) (fun v => EF.c d Lp Lc v kT)
    _ _ _ St 2 (EF.a_St d Lp Lc St kT hLp hLc hSt hkT) (EF.b_St d Lp Lc St kT hLp hLc hSt hkT) (EF.c_St d Lp Lc St kT hLp hLc hSt hkT) hdet hreg
  refine h.congr_deriv ?_
  simp only [EF.jac, EF.jacWith, EF.der, EF.derWith, List.getD_cons_succ, List.getD_cons_zero]
  all_goals
    generalize calcCubicRootDerivs (EF.a d Lp Lc St kT) (EF.b d Lp Lc St kT) (EF.c d Lp Lc St kT) 2 = r
    obtain ⟨ya, yb, yc⟩ := r
    first | (simp only []; done) | (simp only []; ring)

/-- row `kT` of the code's Jacobian of this cubic model is the partial derivative of the model function w.r.t. `kT` (both branches, off the regularised band) -/
theorem EF.jac_kT_hasDerivAt (d Lp Lc St kT : ℝ) (hLp : 0 < Lp) (hLc : 0 < Lc) (hSt : 0 < St) (hkT : 0 < kT)
    (hdet : cubDet (EF.a d Lp Lc St kT) (EF.b d Lp Lc St kT) (EF.c d Lp Lc St kT) ≠ 0)
    (hreg : regularised (EF.a d Lp Lc St kT) (EF.b d Lp Lc St kT) (EF.c d Lp Lc St kT) = false) :
    HasDerivAt (fun v => EF.val d Lp Lc St v) ((EF.jac d Lp Lc St kT).getD 3 0) kT := by
  have h := cubic_root_hasDerivAt (fun v => EF.a d Lp Lc St v) (fun v => EF.b d Lp Lc St v) (fun v => EF.c d Lp Lc St v)
    _ _ _ kT 2 (EF.a_kT d Lp Lc St kT hLp hLc hSt hkT) (EF.b_kT d Lp Lc St kT hLp hLc hSt hkT) (EF.c_kT d Lp Lc St kT hLp hLc hSt hkT) hdet hreg
  refine h.congr_deriv ?_
  simp only [EF.jac, EF.jacWith, EF.der, EF.derWith, List.getD_cons_succ, List.getD_cons_zero]
  all_goals
    generalize calcCubicRootDerivs (EF.a d Lp Lc St kT) (EF.b d Lp Lc St kT) (EF.c d Lp Lc St kT) 2 = r
    obtain ⟨ya, yb, yc⟩ := r
    first | (simp only []; done) | (simp only []; ring)

/-- the code's derivative of this cubic model is the derivative of the model function w.r.t. the independent variable `d` (both branches, off the regularised band) -/
theorem EF.der_hasDerivAt (d Lp Lc St kT : ℝ) (hLp : 0 < Lp) (hLc : 0 < Lc) (hSt : 0 < St) (hkT : 0 < kT)
    (hdet : cubDet (EF.a d Lp Lc St kT) (EF.b d Lp Lc St kT) (EF.c d Lp Lc St kT) ≠ 0)
    (hreg : regularised (EF.a d Lp Lc St kT) (EF.b d Lp Lc St kT) (EF.c d Lp Lc St kT) = false) :
    HasDerivAt (fun v => EF.val v Lp Lc St kT) (EF.der d Lp Lc St kT) d := by
  have h := cubic_root_hasDerivAt (fun v => EF.a v Lp Lc St kT) (fun v => EF.b v Lp Lc St kT) (fun v => EF.c v Lp Lc St kT)
    _ _ _ d 2 (EF.a_d d Lp Lc St kT hLp hLc hSt hkT) (EF.b_d d Lp Lc St kT hLp hLc hSt hkT) (EF.c_d d Lp Lc St kT hLp hLc hSt hkT) hdet hreg
  refine h.congr_deriv ?_
  simp only [EF.jac, EF.jacWith, EF.der, EF.derWith, List.getD_cons_succ, List.getD_cons_zero]
  all_goals
    generalize calcCubicRootDerivs (EF.a d Lp Lc St kT) (EF.b d Lp Lc St kT) (EF.c d Lp Lc St kT) 2 = r
    obtain ⟨ya, yb, yc⟩ := r
    first | (simp only []; done) | (simp only []; ring)

/-- non-vacuity of the `EF` rows: positive parameters with `det < 0`, off the band -/
example : cubDet (α := ℝ) (EF.a 1 1 (1/2) 3 (1/2)) (EF.b 1 1 (1/2) 3 (1/2)) (EF.c 1 1 (1/2) 3 (1/2)) ≠ 0 ∧ regularised (α := ℝ) (EF.a 1 1 (1/2) 3 (1/2)) (EF.b 1 1 (1/2) 3 (1/2)) (EF.c 1 1 (1/2) 3 (1/2)) = false :=
  have h : cubDet (α := ℝ) (EF.a 1 1 (1/2) 3 (1/2)) (EF.b 1 1 (1/2) 3 (1/2)) (EF.c 1 1 (1/2) 3 (1/2)) < 0 := by
    simp only [EF.a, EF.b, EF.c, cubDet, cubP, cubQ, RealLike.sq, RealLike.cube]; norm_num
  ⟨h.ne, trig_band_free _ _ _ h⟩

/-- row `Lp` of the code's Jacobian of this cubic model is the partial derivative of the model function w.r.t. `Lp` (both branches, off the regularised band) -/
theorem ED.jac_Lp_hasDerivAt (f Lp Lc St kT : ℝ) (hLp : 0 < Lp) (hLc : 0 < Lc) (hSt : 0 < St) (hkT : 0 < kT)
    (hdet : cubDet (ED.a f Lp Lc St kT) (ED.b f Lp Lc St kT) (ED.c f Lp Lc St kT) ≠ 0)
    (hreg : regularised (ED.a f Lp Lc St kT) (ED.b f Lp Lc St kT) (ED.c f Lp Lc St kT) = false) :
    HasDerivAt (fun v => ED.val f v Lc St kT) ((ED.jac f Lp Lc St kT).getD 0 0) Lp := by
  have h := cubic_root_hasDerivAt (fun v => ED.a f v Lc St kT) (fun v => ED.b f v Lc St kT) (fun v => ED.c f v Lc St kT)
    _ _ _ Lp 1 (ED.a_Lp f Lp Lc St kT hLp hLc hSt hkT) (ED.b_Lp f Lp Lc St kT hLp hLc hSt hkT) (ED.c_Lp f Lp Lc St kT hLp hLc hSt hkT) hdet hreg
  refine h.congr_deriv ?_
  simp only [ED.jac, ED.jacWith, ED.der, ED.derWith, List.getD_cons_succ, List.getD_cons_zero]
  all_goals
    generalize calcCubicRootDerivs (ED.a f Lp Lc St kT) (ED.b f Lp Lc St kT) (ED.c f Lp Lc St kT) 1 = r
    obtain ⟨ya, yb, yc⟩ := r
    first | (simp only []; done) | (simp only []; ring)

/-- row `Lc` of the code's Jacobian of this cubic model is the partial derivative of the model function w.r.t. `Lc` (both branches, off the regularised band) -/
theorem ED.jac_Lc_hasDerivAt (f Lp Lc St kT : ℝ) (hLp : 0 < Lp) (hLc : 0 < Lc) (hSt : 0 < St) (hkT : 0 < kT)
    (hdet : cubDet (ED.a f Lp Lc St kT) (ED.b f Lp Lc St kT) (ED.c f Lp Lc St kT) ≠ 0)
    (hreg : regularised (ED.a f Lp Lc St kT) (ED.b f Lp Lc St kT) (ED.c f Lp Lc St kT) = false) :
    HasDerivAt (fun v => ED.val f Lp v St kT) ((ED.jac f Lp Lc St kT).getD 1 0) Lc := by
  have h := cubic_root_hasDerivAt (fun v => ED.a f Lp v St kT) (fun v => ED.b f Lp v St kT) (fun v => ED.c f Lp v St kT)
    _ _ _ Lc 1 (ED.a_Lc f Lp Lc St kT hLp hLc hSt hkT) (ED.b_Lc f Lp Lc St kT hLp hLc hSt hkT) (ED.c_Lc f Lp Lc St kT hLp hLc hSt hkT) hdet hreg
  refine h.congr_deriv ?_
  simp only [ED.jac, ED.jacWith, ED.der, ED.derWith, List.getD_cons_succ, List.getD_cons_zero]
  all_goals
    generalize calcCubicRootDerivs (ED.a f Lp Lc St kT) (ED.b f Lp Lc St kT) (ED.c f Lp Lc St kT) 1 = r
    obtain ⟨ya, yb, yc⟩ := r
    first | (simp only []; done) | (simp only []; ring)

/-- row `St` of the code's Jacobian of this cubic model is the partial derivative of the model function w.r.t. `St` (both branches, off the regularised band) -/
theorem ED.jac_St_hasDerivAt (f Lp Lc St kT : ℝ) (hLp : 0 < Lp) (hLc : 0 < Lc) (hSt : 0 < St) (hkT : 0 < kT)
    (hdet : cubDet (ED.a f Lp Lc St kT) (ED.b f Lp Lc St kT) (ED.c f Lp Lc St kT) ≠ 0)
    (hreg : regularised (ED.a f Lp Lc St kT) (ED.b f Lp Lc St kT) (ED.c f Lp Lc St kT) = false) :
    HasDerivAt (fun v => ED.val f Lp Lc v kT) ((ED.jac f Lp Lc St kT).getD 2 0) St := by
  have h := cubic_root_hasDerivAt (fun v => ED.a f Lp Lc v kT) (fun v => ED.b f Lp Lc v kT) (fun v => ED.c f Lp Lc v kT)
    _ _ _ St 1 (ED.a_St f Lp Lc St kT hLp hLc hSt hkT) (ED.b_St f Lp Lc St kT hLp hLc hSt hkT) (ED.c_St f Lp Lc St kT hLp hLc hSt hkT) hdet hreg
  refine h.congr_deriv ?_
  simp only [ED.jac, ED.jacWith, ED.der, ED.derWith, List.getD_cons_succ, List.getD_cons_zero]
  all_goals
    generalize calcCubicRootDerivs (ED.a f Lp Lc St kT) (ED.b f Lp Lc St kT) (ED.c f Lp Lc St kT) 1 = r
    obtain ⟨ya, yb, yc⟩ := r
    first | (simp only []; done) | (simp only []; ring)

/-- row `kT` of the code's Jacobian of this cubic model is the partial derivative of the model function w.r.t. `kT` (both branches, off the regularised band) -/
theorem ED.jac_kT_hasDerivAt (f Lp Lc St kT : ℝ) (hLp : 0 < Lp) (hLc : 0 < Lc) (hSt : 0 < St) (hkT : 0 < kT)
    (hdet : cubDet (ED.a f Lp Lc St kT) (ED.b f Lp Lc St kT) (ED.c f Lp Lc St kT) ≠ 0)
    (hreg : regularised (ED.a f Lp Lc St kT) (ED.b f Lp Lc St kT) (ED.c f Lp Lc St kT) = false) :
    HasDerivAt (fun v => ED.val f Lp Lc St v) ((ED.jac f Lp Lc St kT).getD 3 0) kT := by
  have h := cubic_root_hasDerivAt (fun v => ED.a f Lp Lc St v) (fun v => ED.b f Lp Lc St v) (fun v => ED.c f Lp Lc St v)
    _ _ _ kT 1 (ED.a_kT f Lp Lc St kT hLp hLc hSt hkT) (ED.b_kT f Lp Lc St kT hLp hLc hSt hkT) (ED.c_kT f Lp Lc St kT hLp hLc hSt hkT) hdet hreg
  refine h.congr_deriv ?_
  simp only [ED.jac, ED.jacWith, ED.der, ED.derWith, List.getD_cons_succ, List.getD_cons_zero]
  all_goals
    generalize calcCubicRootDerivs (ED.a f Lp Lc St kT) (ED.b f Lp Lc St kT) (ED.c f Lp Lc St kT) 1 = r
    obtain ⟨ya, yb, yc⟩ := r
    first | (simp only []; done) | (simp only []; ring)

/-- the code's derivative of this cubic model is the derivative of the model function w.r.t. the independent variable `f` (both branches, off the regularised band) -/
theorem ED.der_hasDerivAt (f Lp Lc St kT : ℝ) (hLp : 0 < Lp) (hLc : 0 < Lc) (hSt : 0 < St) (hkT : 0 < kT)
    (hdet : cubDet (ED.a f Lp Lc St kT) (ED.b f Lp Lc St kT) (ED.c f Lp Lc St kT) ≠ 0)
    (hreg : regularised (ED.a f Lp Lc St kT) (ED.b f Lp Lc St kT) (ED.c f Lp Lc St kT) = false) :
    HasDerivAt (fun v => ED.val v Lp Lc St kT) (ED.der f Lp Lc St kT) f := by
  have h := cubic_root_hasDerivAt (fun v => ED.a v Lp Lc St kT) (fun v => ED.b v Lp Lc St kT) (fun v => ED.c v Lp Lc St kT)
    _ _ _ f 1 (ED.a_f f Lp Lc St kT hLp hLc hSt hkT) (ED.b_f f Lp Lc St kT hLp hLc hSt hkT) (ED.c_f f Lp Lc St kT hLp hLc hSt hkT) hdet hreg
  refine h.congr_deriv ?_
  simp only [ED.jac, ED.jacWith, ED.der, ED.derWith, List.getD_cons_succ, List.getD_cons_zero]
  all_goals
    generalize calcCubicRootDerivs (ED.a f Lp Lc St kT) (ED.b f Lp Lc St kT) (ED.c f Lp Lc St kT) 1 = r
    obtain ⟨ya, yb, yc⟩ := r
    first | (simp only []; done) | (simp only []; ring)

/-- non-vacuity of the `ED` rows: positive parameters with `det < 0`, off the band -/
example : cubDet (α := ℝ) (ED.a (1/2) 2 (1/2) 1 (1/2)) (ED.b (1/2) 2 (1/2) 1 (1/2)) (ED.c (1/2) 2 (1/2) 1 (1/2)) ≠ 0 ∧ regularised (α := ℝ) (ED.a (1/2) 2 (1/2) 1 (1/2)) (ED.b (1/2) 2 (1/2) 1 (1/2)) (ED.c (1/2) 2 (1/2) 1 (1/2)) = false :=
  have h : cubDet (α := ℝ) (ED.a (1/2) 2 (1/2) 1 (1/2)) (ED.b (1/2) 2 (1/2) 1 (1/2)) (ED.c (1/2) 2 (1/2) 1 (1/2)) < 0 := by
    simp only [ED.a, ED.b, ED.c, ED.cpoly, ED.bpoly, cubDet, cubP, cubQ, RealLike.sq, RealLike.cube]; norm_num
  ⟨h.ne, trig_band_free _ _ _ h⟩


/-! ## ext: twistable WLC and extensible FJC, derivative w.r.t. the force -/

/-- `twlc_distance_derivative` is the derivative of `twlc_distance` on either side of the kink
    `f = F_c` (the code deliberately drops the Dirac term AT the kink), inside the validity range
    (`C S_t ≠ g²`, `g ≠ 0` where the code divides by `g`). -/
theorem twlc_distance_hasDerivAt (f Lp Lc St C g0 g1 Fc kT : ℝ) (hf : 0 < f) (hLp : 0 < Lp) (hkT : 0 < kT) :
    (Fc < f → C * St - (g0 + g1 * f) * (g0 + g1 * f) ≠ 0 → g0 + g1 * f ≠ 0 →
      HasDerivAt (fun f => twlcDistance f Lp Lc St C g0 g1 Fc kT) (twlcDistanceDeriv f Lp Lc St C g0 g1 Fc kT) f) ∧
    (f < Fc → C * St - (g0 + g1 * Fc) * (g0 + g1 * Fc) ≠ 0 → g0 + g1 * Fc ≠ 0 →
      HasDerivAt (fun f => twlcDistance f Lp Lc St C g0 g1 Fc kT) (twlcDistanceDeriv f Lp Lc St C g0 g1 Fc kT) f) :=
  ⟨fun h1 h2 h3 => twlc_above f Lp Lc St C g0 g1 Fc kT hf hLp hkT h1 h2 h3,
   fun h1 h2 h3 => twlc_below f Lp Lc St C g0 g1 Fc kT hf hLp hkT h1 h2 h3⟩
/-- non-vacuity at the defaults, `f = 40 > F_c = 30.6`: `C S_t − g² = 660000 − 43² ≠ 0`, `g = 43 ≠ 0` -/
example : (30.6:ℝ) < 40 ∧ (440:ℝ) * 1500 - (-637 + 17 * 40) * (-637 + 17 * 40) ≠ 0 ∧ (-637:ℝ) + 17 * 40 ≠ 0 := by
  norm_num

/-- `efjc_distance_derivative` is the derivative of `efjc_distance` below the code's overflow guard
    (`2 f L_p / kT < 300`; above it the code replaces `1/sinh²` by 0 and `coth` by 1). -/
theorem efjc_distance_hasDerivAt (f Lp Lc St kT : ℝ) (hf : 0 < f) (hLp : 0 < Lp) (hkT : 0 < kT) (hSt : 0 < St)
    (hx : f * (2 * Lp / kT) < 300) :
    HasDerivAt (fun f => efjcDistance f Lp Lc St kT) (efjcDistanceDeriv f Lp Lc St kT) f :=
  efjc_distance_hasDerivAt_aux f Lp Lc St kT hf hLp hkT hSt hx
example : (0:ℝ) < 5 ∧ (5:ℝ) * (2 * 1.4 / 4.11) < 300 := by norm_num

/-! ## Deepening round D: the constructors ESTABLISH the hypotheses of the routing theorems

  `M.WF` (Lemmas/C13b): every built-in leaf of the tree has distinct parameter names (pylake: `<name>/Lp, <name>/Lc, …, kT`).
  `composite_indices_established`, `offset_indices_established`, `fit_indices_established` (Lemmas/C13b) show that the
  index lists `lhs_params / rhs_params / model_params / p_indices` computed by `list.index` exist, are in range and
  duplicate-free; here they are composed with the routing theorems into statements about `M.jac` / `jacRowS` themselves. -/


/-- `CompositeModel.jacobian`, end to end: for sub-models with distinct leaf parameter names the index lists the
    constructor computes exist and are duplicate-free (`composite_indices_established`), so the hypotheses of
    `composite_jacobian` hold and entry `k` of the composite Jacobian IS the sum of what the two sides route to `k`. -/
theorem composite_jacobian_end_to_end (l r : M) (hl : l.WF) (hr : r.WF) (x : ℝ) (p sols : List ℝ) :
    ∃ li ri, subIdx (M.add l r).params l.params = some li ∧ subIdx (M.add l r).params r.params = some ri ∧
      ∀ pl pr jl jr, pick li p = some pl → pick ri p = some pr →
        l.jac x pl (sols.take l.countInv) = some jl → r.jac x pr (sols.drop l.countInv) = some jr →
        ∃ J, (M.add l r).jac x p sols = some J ∧
          ∀ k, k < p.length → J[k]? = some (routedSum li jl k + routedSum ri jr k) := by
  obtain ⟨li, ri, h1, h2, _, _, h5, h6, _, _⟩ := composite_indices_established l r hl hr
  refine ⟨li, ri, h1, h2, fun pl pr jl jr e1 e2 e3 e4 => ?_⟩
  refine ⟨_, ?_, fun k hk => composite_jacobian p li ri jl jr h5 h6 k hk⟩
  rw [composite_jacobian_unfold, h1, h2]
  simp only [Option.bind_eq_bind, Option.bind_some, e1, e2, e3, e4]
example : (M.base .odijkD ["a/Lp", "a/Lc", "a/St", "kT"]).WF ∧ (M.base .offset ["b/offset"]).WF := by
  constructor <;> (unfold M.WF; decide)

/-- `SubtractIndependentOffset.jacobian`, end to end (the hypotheses of `offset_jacobian` are established) -/
theorem offset_jacobian_end_to_end (name : String) (m : M) (hm : m.WF) (x : ℝ) (p sols : List ℝ)
    (hp : p.length = (M.off name m).params.length) :
    ∃ mi oi, subIdx (M.off name m).params m.params = some mi ∧ indexOf (M.off name m).params name = some oi ∧
      ∃ o, p[oi]? = some o ∧ ∀ pm jm dm, pick mi p = some pm → m.jac (x - o) pm sols = some jm →
        m.der (x - o) pm sols = some dm →
        ∃ J, (M.off name m).jac x p sols = some J ∧
          ∀ k, k < p.length → J[k]? = some (if k = oi then -dm else routedSum mi jm k) := by
  obtain ⟨mi, oi, h1, h2, _, h4, h5, _⟩ := offset_indices_established name m hm
  have hoi : oi < p.length := hp ▸ h5
  refine ⟨mi, oi, h1, h2, p[oi], List.getElem?_eq_getElem hoi, fun pm jm dm e1 e2 e3 => ?_⟩
  refine ⟨_, ?_, fun k hk => offset_jacobian p mi jm oi dm h4 hoi k hk⟩
  rw [offset_jacobian_unfold, h1, h2]
  simp only [Option.bind_eq_bind, Option.bind_some, List.getElem?_eq_getElem hoi, e1, e2, e3]
example : (M.base .odijkD ["a/Lp", "a/Lc", "a/St", "kT"]).WF := by unfold M.WF; decide

/-- `Model._calculate_jacobian`, end to end: for a data set that maps its parameters to DISTINCT global names (all of
    them collected by `_build_fit`) the row the code computes (buffered `-=`) equals the accumulating row, whose
    column `k` is `−Σ` of the sensitivities routed to `k` (`fit_jacobian_assembly`). -/
theorem fit_row_code_eq_accumulating (m : M) (trans : List (Tr ℝ)) (names : List String) (g : List ℝ) (x : ℝ)
    (sols : List ℝ) (hsub : ∀ n ∈ trans.filterMap Tr.name?, n ∈ names) (hnd : (trans.filterMap Tr.name?).Nodup) :
    jacRowS false m trans names g x sols = jacRowS true m trans names g x sols := by
  have h := (fit_indices_established trans names hsub).2.2 hnd
  rw [fit_row_sols_unfold, fit_row_sols_unfold]
  simp only [Bool.false_eq_true, if_false, if_true, scatterOp_eq_scatterAcc _ _ _ _ h]
example : ([⟨"s:a", .inl "a"⟩, ⟨"c:1", .inr 1⟩, ⟨"s:b", .inl "b"⟩] : List (Tr ℝ)).filterMap Tr.name? = ["a", "b"] ∧
    ["a", "b"].Nodup := by
  constructor
  · rfl
  · decide

/-! ## Deepening round D: compositions without inversion — `M.der` differentiates `M.val` (structural induction)

  `M.val` (new in the model, protocol op `c13.tree val`, tied to the public `model(x, {name: value})` of the real
  composition on every tree case) is the model function of a tree; `tree_derivative_sound` composes the leaf theorems
  through any nesting of `+` and `subtract_independent_offset()`. -/


/-- every built-in leaf of the tree, at the abscissa and with the local parameters at which the tree evaluates it,
    has the derivative `baseDer` returns (discharged per kind by the closed-form / cubic theorems) -/
def LeafDerOK : M → ℝ → List ℝ → Prop
  | .base k _, x, p => ∀ d, baseDer k x p = some d →
      ∃ F : ℝ → ℝ, (∀ y, baseVal k y p = some (F y)) ∧ HasDerivAt F d x
  | .add l r, x, p => ∀ li ri pl pr, subIdx (M.add l r).params l.params = some li →
      subIdx (M.add l r).params r.params = some ri → pick li p = some pl → pick ri p = some pr →
      LeafDerOK l x pl ∧ LeafDerOK r x pr
  | .off name m, x, p => ∀ mi oi o pm, subIdx (M.off name m).params m.params = some mi →
      indexOf (M.off name m).params name = some oi → p[oi]? = some o → pick mi p = some pm →
      LeafDerOK m (x - o) pm
  | .inv _, _, _ => True

/-- `CompositeModel.derivative` / `SubtractIndependentOffset.derivative`, end to end: for a composition without
    numerical inversion, whatever `M.der` returns is the derivative of the composition's model function `M.val`
    w.r.t. the independent variable, provided the leaves are (structural induction: sum rule, shift rule). -/
theorem tree_derivative_sound : (m : M) → (x : ℝ) → (p : List ℝ) → (d : ℝ) → m.countInv = 0 → LeafDerOK m x p →
    m.der x p [] = some d → ∃ F : ℝ → ℝ, (∀ y, m.val y p [] = some (F y)) ∧ HasDerivAt F d x
  | .base k names, x, p, d, _, hl, hd => by
    rw [M.der] at hd
    obtain ⟨F, hF, hD⟩ := hl d hd
    exact ⟨F, fun y => by rw [M.val]; exact hF y, hD⟩
  | .add l r, x, p, d, hc, hl, hd => by
    simp only [M.countInv] at hc
    have hcl : l.countInv = 0 := by omega
    have hcr : r.countInv = 0 := by omega
    rw [M.der] at hd
    simp only [Option.bind_eq_bind, Option.bind_eq_some_iff, List.take_nil, List.drop_nil] at hd
    obtain ⟨li, h1, ri, h2, pl, h3, pr, h4, dl, h5, dr, h6, h7⟩ := hd
    obtain ⟨okl, okr⟩ := hl li ri pl pr h1 h2 h3 h4
    obtain ⟨Fl, hFl, hDl⟩ := tree_derivative_sound l x pl dl hcl okl h5
    obtain ⟨Fr, hFr, hDr⟩ := tree_derivative_sound r x pr dr hcr okr h6
    refine ⟨fun y => Fl y + Fr y, fun y => ?_, ?_⟩
    · rw [M.val]
      simp only [Option.bind_eq_bind, List.take_nil, List.drop_nil, h1, h2, h3, h4, hFl y, hFr y, Option.bind_some]
    · have := hDl.add hDr
      cases h7
      exact this
  | .off name m, x, p, d, hc, hl, hd => by
    simp only [M.countInv] at hc
    rw [M.der] at hd
    simp only [Option.bind_eq_bind, Option.bind_eq_some_iff] at hd
    obtain ⟨mi, h1, oi, h2, o, h3, pm, h4, h5⟩ := hd
    have ok := hl mi oi o pm h1 h2 h3 h4
    obtain ⟨Fm, hFm, hDm⟩ := tree_derivative_sound m (x - o) pm d hc ok h5
    refine ⟨fun y => Fm (y - o), fun y => ?_, (offset_chain_rule Fm d x o hDm).2⟩
    rw [M.val]
    simp only [Option.bind_eq_bind, h1, h2, h3, h4, hFm (y - o), Option.bind_some]
  | .inv m, x, p, d, hc, _, _ => by
    simp only [M.countInv] at hc
    omega

/-- the leaves meet `LeafDerOK` inside their validity ranges: closed forms, offsets, and the four cubic models off
    the band (through `X.der_hasDerivAt`) -/
theorem leaf_der_ok (names : List String) :
    (∀ f Lp Lc St kT : ℝ, 0 < f → 0 < Lp → 0 < kT → 0 < St → LeafDerOK (.base .odijkD names) f [Lp, Lc, St, kT]) ∧
    (∀ d Lp Lc kT : ℝ, 0 < Lp → 0 < Lc → d < Lc → LeafDerOK (.base .msF names) d [Lp, Lc, kT]) ∧
    (∀ x o : ℝ, LeafDerOK (.base .offset names) x [o]) ∧
    (∀ d Lp Lc St kT : ℝ, 0 < Lp → 0 < Lc → 0 < St → 0 < kT →
      cubDet (OF.a d Lp Lc St kT) (OF.b d Lp Lc St kT) (OF.c d Lp Lc St kT) ≠ 0 →
      regularised (OF.a d Lp Lc St kT) (OF.b d Lp Lc St kT) (OF.c d Lp Lc St kT) = false →
      LeafDerOK (.base .odijkF names) d [Lp, Lc, St, kT]) ∧
    (∀ f Lp Lc kT : ℝ, 0 < Lp → 0 < Lc → 0 < kT →
      cubDet (WD.a f Lp Lc kT) (WD.b f Lp Lc kT) (WD.c f Lp Lc kT) ≠ 0 →
      regularised (WD.a f Lp Lc kT) (WD.b f Lp Lc kT) (WD.c f Lp Lc kT) = false →
      LeafDerOK (.base .msD names) f [Lp, Lc, kT]) ∧
    (∀ d Lp Lc St kT : ℝ, 0 < Lp → 0 < Lc → 0 < St → 0 < kT →
      cubDet (EF.a d Lp Lc St kT) (EF.b d Lp Lc St kT) (EF.c d Lp Lc St kT) ≠ 0 →
      regularised (EF.a d Lp Lc St kT) (EF.b d Lp Lc St kT) (EF.c d Lp Lc St kT) = false →
      LeafDerOK (.base .emsF names) d [Lp, Lc, St, kT]) ∧
    (∀ f Lp Lc St kT : ℝ, 0 < Lp → 0 < Lc → 0 < St → 0 < kT →
      cubDet (ED.a f Lp Lc St kT) (ED.b f Lp Lc St kT) (ED.c f Lp Lc St kT) ≠ 0 →
      regularised (ED.a f Lp Lc St kT) (ED.b f Lp Lc St kT) (ED.c f Lp Lc St kT) = false →
      LeafDerOK (.base .emsD names) f [Lp, Lc, St, kT]) ∧
    (∀ f Lp Lc St kT : ℝ, 0 < f → 0 < Lp → 0 < kT → 0 < St → f * (2 * Lp / kT) < 300 →
      LeafDerOK (.base .efjcD names) f [Lp, Lc, St, kT]) := by
  refine ⟨?_, ?_, ?_, ?_, ?_, ?_, ?_, ?_⟩
  · intro f Lp Lc St kT h1 h2 h3 h4 d hd
    cases hd
    exact ⟨fun y => odijkDistance y Lp Lc St kT, fun _ => rfl, odijk_distance_hasDerivAt f Lp Lc St kT h1 h2 h3 h4⟩
  · intro d Lp Lc kT h1 h2 h3 e he
    cases he
    exact ⟨fun y => msForce y Lp Lc kT, fun _ => rfl, ms_force_hasDerivAt d Lp Lc kT h1 h2 h3⟩
  · intro x o d hd
    cases hd
    exact ⟨fun y => offsetVal y o, fun _ => rfl, offset_hasDerivAt x o⟩
  · intro d Lp Lc St kT h1 h2 h3 h4 h5 h6 e he
    cases he
    exact ⟨fun y => OF.val y Lp Lc St kT, fun _ => rfl, OF.der_hasDerivAt d Lp Lc St kT h1 h2 h3 h4 h5 h6⟩
  · intro f Lp Lc kT h1 h2 h3 h5 h6 e he
    cases he
    exact ⟨fun y => WD.val y Lp Lc kT, fun _ => rfl, WD.der_hasDerivAt f Lp Lc kT h1 h2 h3 h5 h6⟩
  · intro d Lp Lc St kT h1 h2 h3 h4 h5 h6 e he
    cases he
    exact ⟨fun y => EF.val y Lp Lc St kT, fun _ => rfl, EF.der_hasDerivAt d Lp Lc St kT h1 h2 h3 h4 h5 h6⟩
  · intro f Lp Lc St kT h1 h2 h3 h4 h5 h6 e he
    cases he
    exact ⟨fun y => ED.val y Lp Lc St kT, fun _ => rfl, ED.der_hasDerivAt f Lp Lc St kT h1 h2 h3 h4 h5 h6⟩
  · intro f Lp Lc St kT h1 h2 h3 h4 h5 d hd
    cases hd
    exact ⟨fun y => efjcDistance y Lp Lc St kT, fun _ => rfl, efjc_distance_hasDerivAt f Lp Lc St kT h1 h2 h3 h4 h5⟩

/-- non-vacuity of `tree_derivative_sound`: `(odijk + distance offset).subtract_independent_offset()` at the
    defaults — the leaves are fine, the derivative is defined, the tree has no inversion -/
example : let m := M.off "m/f_offset" (M.add (M.base .odijkD ["m/Lp", "m/Lc", "m/St", "kT"]) (M.base .offset ["m/d_offset"]))
    m.countInv = 0 ∧ LeafDerOK m 10 [0.5, 40, 16, 1500, 4.11, 0.01] := by
  intro m
  refine ⟨rfl, ?_⟩
  intro mi oi o pm h1 h2 h3 h4
  have e1 : mi = [1, 2, 3, 4, 5] := by
    have : subIdx (M.off "m/f_offset" (M.add (M.base .odijkD ["m/Lp", "m/Lc", "m/St", "kT"]) (M.base .offset ["m/d_offset"]))).params
        (M.add (M.base .odijkD ["m/Lp", "m/Lc", "m/St", "kT"]) (M.base .offset ["m/d_offset"])).params = some [1, 2, 3, 4, 5] := by decide
    rw [this] at h1; exact (Option.some.inj h1).symm
  have e2 : oi = 0 := by
    have : indexOf (M.off "m/f_offset" (M.add (M.base .odijkD ["m/Lp", "m/Lc", "m/St", "kT"]) (M.base .offset ["m/d_offset"]))).params
        "m/f_offset" = some 0 := by decide
    rw [this] at h2; exact (Option.some.inj h2).symm
  subst e1 e2
  have e3 : o = 0.5 := by simpa using h3.symm
  have e4 : pm = [40, 16, 1500, 4.11, 0.01] := by
    simp [pick] at h4; exact h4.symm
  subst e3 e4
  intro li ri pl pr g1 g2 g3 g4
  have f1 : li = [0, 1, 2, 3] := by
    have : subIdx (M.add (M.base .odijkD ["m/Lp", "m/Lc", "m/St", "kT"]) (M.base .offset ["m/d_offset"])).params
        (M.base .odijkD ["m/Lp", "m/Lc", "m/St", "kT"]).params = some [0, 1, 2, 3] := by decide
    rw [this] at g1; exact (Option.some.inj g1).symm
  have f2 : ri = [4] := by
    have : subIdx (M.add (M.base .odijkD ["m/Lp", "m/Lc", "m/St", "kT"]) (M.base .offset ["m/d_offset"])).params
        (M.base .offset ["m/d_offset"]).params = some [4] := by decide
    rw [this] at g2; exact (Option.some.inj g2).symm
  subst f1 f2
  have f3 : pl = [40, 16, 1500, 4.11] := by simp [pick] at g3; exact g3.symm
  have f4 : pr = [0.01] := by simp [pick] at g4; exact g4.symm
  subst f3 f4
  exact ⟨(leaf_der_ok _).1 _ _ _ _ _ (by norm_num) (by norm_num) (by norm_num) (by norm_num), (leaf_der_ok _).2.2.1 _ _⟩

/-! ## Deepening round D: `generate_conditions` / `Fit._calculate_jacobian` — nothing lost, shape of the result -/


theorem nodup_eraseDups_aux {κ : Type} [BEq κ] [LawfulBEq κ] : ∀ (n : Nat) (l : List κ), l.length ≤ n → l.eraseDups.Nodup
  | 0, l, h => by
    have : l = [] := List.length_eq_zero_iff.mp (by omega)
    subst this; simp
  | n + 1, [], _ => by simp
  | n + 1, a :: as, h => by
    rw [List.eraseDups_cons]
    refine List.nodup_cons.mpr ⟨?_, nodup_eraseDups_aux n _ ?_⟩
    · intro hm
      rw [List.mem_eraseDups] at hm
      have := (List.mem_filter.mp hm).2
      simp at this
    · have := List.length_filter_le (fun b => !b == a) as
      simp only [List.length_cons] at h
      omega

theorem nodup_eraseDups {κ : Type} [BEq κ] [LawfulBEq κ] (l : List κ) : l.eraseDups.Nodup :=
  nodup_eraseDups_aux l.length l (Nat.le_refl _)

theorem filter_or_perm {δ : Type} (p q : δ → Bool) (hpq : ∀ d, ¬(p d = true ∧ q d = true)) :
    ∀ l : List δ, (l.filter fun d => p d || q d).Perm (l.filter p ++ l.filter q)
  | [] => List.Perm.refl _
  | d :: l => by
    have ih := filter_or_perm p q hpq l
    cases hp : p d <;> cases hq : q d
    · simp only [List.filter_cons, hp, hq, Bool.or_self, Bool.false_eq_true, if_false]; exact ih
    · simp only [List.filter_cons, hp, hq, Bool.or_true, Bool.false_eq_true, if_false, if_true]
      exact (List.Perm.cons d ih).trans List.perm_middle.symm
    · simp only [List.filter_cons, hp, hq, Bool.or_false, Bool.false_eq_true, if_false, if_true, List.cons_append]
      exact List.Perm.cons d ih
    · exact absurd ⟨hp, hq⟩ (hpq d)

theorem groups_perm {δ κ : Type} [BEq κ] [LawfulBEq κ] (key : δ → κ) (ds : List δ) :
    ∀ ks : List κ, ks.Nodup → (ks.flatMap fun k => ds.filter fun d => key d == k).Perm (ds.filter fun d => ks.contains (key d))
  | [], _ => by simp
  | k :: ks, h => by
    obtain ⟨hk, hks⟩ := List.nodup_cons.mp h
    have ih := groups_perm key ds ks hks
    rw [List.flatMap_cons]
    have e : (fun d => (k :: ks).contains (key d)) = fun d => (key d == k) || ks.contains (key d) := by
      funext d; rw [List.contains_cons]
    rw [e]
    refine (List.Perm.append_left _ ih).trans (filter_or_perm _ _ ?_ ds).symm
    intro d ⟨h1, h2⟩
    have : key d = k := by simpa using h1
    rw [this] at h2
    exact hk (by simpa using h2)

/-- `generate_conditions` loses and duplicates nothing: the data sets of all conditions together are a permutation of
    the data sets of the model (so the fit Jacobian has exactly one block of rows per data set) -/
theorem groupConditions_perm (ds : List (DataSet ℝ)) : (groupConditions ds).flatten.Perm ds := by
  unfold groupConditions
  simp only []
  rw [← List.flatMap_def]
  have h := groups_perm (fun d : DataSet ℝ => d.trans.map (·.key)) ds _
    (nodup_eraseDups (ds.map fun d : DataSet ℝ => d.trans.map (·.key)))
  refine h.trans ?_
  rw [List.filter_eq_self.mpr]
  intro d hd
  rw [List.contains_iff_mem, List.mem_eraseDups]
  exact List.mem_map.mpr ⟨d, hd, rfl⟩

/-- every condition collects data sets with one and the same condition string -/
theorem groupConditions_same_key (ds : List (DataSet ℝ)) (grp : List (DataSet ℝ)) (hg : grp ∈ groupConditions ds)
    (d1 d2 : DataSet ℝ) (h1 : d1 ∈ grp) (h2 : d2 ∈ grp) : d1.trans.map (·.key) = d2.trans.map (·.key) := by
  unfold groupConditions at hg
  simp only [] at hg
  obtain ⟨k, _, rfl⟩ := List.mem_map.mp hg
  have a := (List.mem_filter.mp h1).2
  have b := (List.mem_filter.mp h2).2
  simp only [beq_iff_eq] at a b
  rw [a, b]

theorem withSols_length {α : Type} : ∀ (xs : List α) (ss : List (List α)), (withSols xs ss).length = xs.length
  | [], _ => by simp [withSols]
  | x :: xs, [] => by simp [withSols, withSols_length xs []]
  | x :: xs, s :: ss => by simp [withSols, withSols_length xs ss]

theorem mapM_id_some {β : Type} : ∀ (l : List (Option β)) (rows : List β), l.mapM id = some rows → l = rows.map some
  | [], rows, h => by
    simp at h; subst h; rfl
  | o :: l, rows, h => by
    rw [List.mapM_cons] at h
    cases o with
    | none => simp at h
    | some b =>
      cases hl : l.mapM id with
      | none => simp [hl] at h
      | some bs =>
        simp [hl] at h
        subst h
        rw [List.map_cons, mapM_id_some l bs hl]

theorem flatMap_flatMap_flatten {δ β : Type} (f : δ → List β) : ∀ L : List (List δ),
    (L.flatMap fun grp => grp.flatMap f) = L.flatten.flatMap f
  | [] => rfl
  | grp :: L => by
    rw [List.flatMap_cons, List.flatten_cons, List.flatMap_append, flatMap_flatMap_flatten f L]

theorem length_flatMap_congr {δ β γ : Type} (f : δ → List β) (g : δ → List γ) :
    ∀ l : List δ, (∀ a ∈ l, (f a).length = (g a).length) → (l.flatMap f).length = (l.flatMap g).length
  | [], _ => rfl
  | a :: l, h => by
    rw [List.flatMap_cons, List.flatMap_cons, List.length_append, List.length_append, h a List.mem_cons_self,
      length_flatMap_congr f g l (fun b hb => h b (List.mem_cons_of_mem _ hb))]

theorem jacRowS_length (fixed : Bool) (m : M) (trans : List (Tr ℝ)) (names : List String) (g : List ℝ) (x : ℝ)
    (sols row : List ℝ) (h : jacRowS fixed m trans names g x sols = some row) : row.length = g.length := by
  rw [fit_row_sols_unfold] at h
  simp only [Option.bind_eq_bind, Option.bind_eq_some_iff] at h
  obtain ⟨pl, _, j, _, sens, _, h⟩ := h
  have := Option.some.inj h
  subst this
  cases fixed
  · simp only [Bool.false_eq_true, if_false, scatterOp_length, List.length_map]
  · simp only [if_true, scatterAcc_length, List.length_map]

/-- `Fit._calculate_jacobian`, shape: the columns are the global parameter names of `_build_fit`, one row per data
    point of every data set (conditions regroup the data sets of a model but lose / duplicate none:
    `groupConditions_perm`), every row as long as the parameter vector -/
theorem fitJacobian_shape (fixed : Bool) (models : List (M × List (DataSet ℝ))) (g : List ℝ) (names : List String)
    (rows : List (List ℝ)) (h : fitJacobian fixed models g = some (names, rows)) :
    names = globalNames models ∧ names.length = g.length ∧
    rows.length = (models.flatMap fun md => md.2.flatMap fun d => d.xs).length ∧
    ∀ row ∈ rows, row.length = g.length := by
  unfold fitJacobian at h
  simp only [Option.bind_eq_bind] at h
  by_cases hlen : (globalNames models).length = g.length
  · simp only [hlen, bne_self_eq_false, Bool.false_eq_true, if_false, Option.bind_eq_some_iff] at h
    obtain ⟨rows', hrows, h⟩ := h
    have e := Option.some.inj h
    simp only [Prod.mk.injEq] at e
    obtain ⟨e1, e2⟩ := e
    subst e1 e2
    have hl := mapM_id_some _ _ hrows
    refine ⟨rfl, hlen, ?_, ?_⟩
    · have := congrArg List.length hl
      rw [List.length_map] at this
      rw [← this]
      apply length_flatMap_congr
      intro md _
      have hp := groupConditions_perm md.2
      rw [flatMap_flatMap_flatten, (hp.flatMap_right _).length_eq]
      apply length_flatMap_congr
      intro d _
      rw [List.length_map, DataSet.points, withSols_length]
    · intro row hrow
      have : some row ∈ rows'.map some := List.mem_map.mpr ⟨row, hrow, rfl⟩
      rw [← hl] at this
      obtain ⟨md, _, hm⟩ := List.mem_flatMap.mp this
      obtain ⟨grp, _, hm⟩ := List.mem_flatMap.mp hm
      obtain ⟨d, _, hm⟩ := List.mem_flatMap.mp hm
      obtain ⟨xs, _, hm⟩ := List.mem_map.mp hm
      exact jacRowS_length _ _ _ _ _ _ _ _ hm
  · have : ((globalNames models).length != g.length) = true := by simpa using hlen
    simp [this] at h

/-! ## Deepening round D: eFJC and tWLC Jacobian rows w.r.t. the parameters -/

/-- the four rows of `efjc_distance_jac` are `∂/∂L_p, ∂/∂L_c, ∂/∂S_t, ∂/∂kT` of `efjc_distance` below the code's
    overflow guard (`2 f L_p / kT < 300`; above it the code replaces `1/sinh²` by 0 and `coth` by 1) -/
theorem efjc_distance_jac (f Lp Lc St kT : ℝ) (hf : 0 < f) (hLp : 0 < Lp) (hkT : 0 < kT) (hSt : 0 < St)
    (hx : f * (2 * Lp / kT) < 300) :
    (efjcDistanceJac f Lp Lc St kT).length = 4 ∧
    HasDerivAt (fun Lp => efjcDistance f Lp Lc St kT) ((efjcDistanceJac f Lp Lc St kT).getD 0 0) Lp ∧
    HasDerivAt (fun Lc => efjcDistance f Lp Lc St kT) ((efjcDistanceJac f Lp Lc St kT).getD 1 0) Lc ∧
    HasDerivAt (fun St => efjcDistance f Lp Lc St kT) ((efjcDistanceJac f Lp Lc St kT).getD 2 0) St ∧
    HasDerivAt (fun kT => efjcDistance f Lp Lc St kT) ((efjcDistanceJac f Lp Lc St kT).getD 3 0) kT :=
  ⟨rfl, efjc_jac_Lp f Lp Lc St kT hf hLp hkT hSt hx, efjc_jac_Lc f Lp Lc St kT, efjc_jac_St f Lp Lc St kT hSt,
   efjc_jac_kT f Lp Lc St kT hf hLp hkT hSt hx⟩
example : (0:ℝ) < 5 ∧ (5:ℝ) * (2 * 1.4 / 4.11) < 300 := by norm_num

/-- the eight rows of `twlc_distance_jac` are the partial derivatives of `twlc_distance` w.r.t.
    `L_p, L_c, S_t, C, g0, g1, F_c, kT` on either side of the kink `f = F_c`, inside the validity range
    (`C S_t ≠ g²`, `g ≠ 0` where the code divides by `g`); in particular the `F_c` row is `0` above the kink -/
theorem twlc_distance_jac (f Lp Lc St C g0 g1 Fc kT : ℝ) (hf : 0 < f) (hLp : 0 < Lp) (hkT : 0 < kT) :
    (twlcDistanceJac f Lp Lc St C g0 g1 Fc kT).length = 8 ∧
    (Fc < f → C * St - (g0 + g1 * f) * (g0 + g1 * f) ≠ 0 → g0 + g1 * f ≠ 0 →
      HasDerivAt (fun v => twlcDistance f v Lc St C g0 g1 Fc kT) ((twlcDistanceJac f Lp Lc St C g0 g1 Fc kT).getD 0 0) Lp ∧
      HasDerivAt (fun v => twlcDistance f Lp v St C g0 g1 Fc kT) ((twlcDistanceJac f Lp Lc St C g0 g1 Fc kT).getD 1 0) Lc ∧
      HasDerivAt (fun v => twlcDistance f Lp Lc v C g0 g1 Fc kT) ((twlcDistanceJac f Lp Lc St C g0 g1 Fc kT).getD 2 0) St ∧
      HasDerivAt (fun v => twlcDistance f Lp Lc St v g0 g1 Fc kT) ((twlcDistanceJac f Lp Lc St C g0 g1 Fc kT).getD 3 0) C ∧
      HasDerivAt (fun v => twlcDistance f Lp Lc St C v g1 Fc kT) ((twlcDistanceJac f Lp Lc St C g0 g1 Fc kT).getD 4 0) g0 ∧
      HasDerivAt (fun v => twlcDistance f Lp Lc St C g0 v Fc kT) ((twlcDistanceJac f Lp Lc St C g0 g1 Fc kT).getD 5 0) g1 ∧
      HasDerivAt (fun v => twlcDistance f Lp Lc St C g0 g1 v kT) ((twlcDistanceJac f Lp Lc St C g0 g1 Fc kT).getD 6 0) Fc ∧
      HasDerivAt (fun v => twlcDistance f Lp Lc St C g0 g1 Fc v) ((twlcDistanceJac f Lp Lc St C g0 g1 Fc kT).getD 7 0) kT) ∧
    (f < Fc → C * St - (g0 + g1 * Fc) * (g0 + g1 * Fc) ≠ 0 → g0 + g1 * Fc ≠ 0 →
      HasDerivAt (fun v => twlcDistance f v Lc St C g0 g1 Fc kT) ((twlcDistanceJac f Lp Lc St C g0 g1 Fc kT).getD 0 0) Lp ∧
      HasDerivAt (fun v => twlcDistance f Lp v St C g0 g1 Fc kT) ((twlcDistanceJac f Lp Lc St C g0 g1 Fc kT).getD 1 0) Lc ∧
      HasDerivAt (fun v => twlcDistance f Lp Lc v C g0 g1 Fc kT) ((twlcDistanceJac f Lp Lc St C g0 g1 Fc kT).getD 2 0) St ∧
      HasDerivAt (fun v => twlcDistance f Lp Lc St v g0 g1 Fc kT) ((twlcDistanceJac f Lp Lc St C g0 g1 Fc kT).getD 3 0) C ∧
      HasDerivAt (fun v => twlcDistance f Lp Lc St C v g1 Fc kT) ((twlcDistanceJac f Lp Lc St C g0 g1 Fc kT).getD 4 0) g0 ∧
      HasDerivAt (fun v => twlcDistance f Lp Lc St C g0 v Fc kT) ((twlcDistanceJac f Lp Lc St C g0 g1 Fc kT).getD 5 0) g1 ∧
      HasDerivAt (fun v => twlcDistance f Lp Lc St C g0 g1 v kT) ((twlcDistanceJac f Lp Lc St C g0 g1 Fc kT).getD 6 0) Fc ∧
      HasDerivAt (fun v => twlcDistance f Lp Lc St C g0 g1 Fc v) ((twlcDistanceJac f Lp Lc St C g0 g1 Fc kT).getD 7 0) kT) :=
  ⟨rfl, fun h1 h2 h3 => ⟨twlc_jac_above_Lp f Lp Lc St C g0 g1 Fc kT hf hLp hkT h1 h2 h3, twlc_jac_above_Lc f Lp Lc St C g0 g1 Fc kT hf hLp hkT h1 h2 h3, twlc_jac_above_St f Lp Lc St C g0 g1 Fc kT hf hLp hkT h1 h2 h3, twlc_jac_above_C f Lp Lc St C g0 g1 Fc kT hf hLp hkT h1 h2 h3, twlc_jac_above_g0 f Lp Lc St C g0 g1 Fc kT hf hLp hkT h1 h2 h3, twlc_jac_above_g1 f Lp Lc St C g0 g1 Fc kT hf hLp hkT h1 h2 h3, twlc_jac_above_Fc f Lp Lc St C g0 g1 Fc kT hf hLp hkT h1 h2 h3, twlc_jac_above_kT f Lp Lc St C g0 g1 Fc kT hf hLp hkT h1 h2 h3⟩,
   fun h1 h2 h3 => ⟨twlc_jac_below_Lp f Lp Lc St C g0 g1 Fc kT hf hLp hkT h1 h2 h3, twlc_jac_below_Lc f Lp Lc St C g0 g1 Fc kT hf hLp hkT h1 h2 h3, twlc_jac_below_St f Lp Lc St C g0 g1 Fc kT hf hLp hkT h1 h2 h3, twlc_jac_below_C f Lp Lc St C g0 g1 Fc kT hf hLp hkT h1 h2 h3, twlc_jac_below_g0 f Lp Lc St C g0 g1 Fc kT hf hLp hkT h1 h2 h3, twlc_jac_below_g1 f Lp Lc St C g0 g1 Fc kT hf hLp hkT h1 h2 h3, twlc_jac_below_Fc f Lp Lc St C g0 g1 Fc kT hf hLp hkT h1 h2 h3, twlc_jac_below_kT f Lp Lc St C g0 g1 Fc kT hf hLp hkT h1 h2 h3⟩⟩
/-- non-vacuity at the defaults, `f = 40 > F_c = 30.6` and `f = 20 < F_c`: `g = 43`, `g = −116.8` -/
example : (30.6:ℝ) < 40 ∧ (440:ℝ) * 1500 - (-637 + 17 * 40) * (-637 + 17 * 40) ≠ 0 ∧ (-637:ℝ) + 17 * 40 ≠ 0 ∧
    (20:ℝ) < 30.6 ∧ (440:ℝ) * 1500 - (-637 + 17 * 30.6) * (-637 + 17 * 30.6) ≠ 0 ∧ (-637:ℝ) + 17 * 30.6 ≠ 0 := by
  norm_num

/-! ## Deepening round D: the eFJC in its guarded regimes -/

/-- rows `L_c`, `S_t` of `efjc_distance_jac` are the partial derivatives in EVERY regime of the overflow guards
    (the guarded `coth` is a constant for them) -/
theorem efjc_distance_jac_Lc_St (f Lp Lc St kT : ℝ) (hSt : 0 < St) :
    HasDerivAt (fun Lc => efjcDistance f Lp Lc St kT) ((efjcDistanceJac f Lp Lc St kT).getD 1 0) Lc ∧
    HasDerivAt (fun St => efjcDistance f Lp Lc St kT) ((efjcDistanceJac f Lp Lc St kT).getD 2 0) St :=
  ⟨efjc_jac_Lc f Lp Lc St kT, efjc_jac_St f Lp Lc St kT hSt⟩
example : (0:ℝ) < 1500 := by norm_num

/-- above the second guard (`2 f L_p / kT > 500`) the code sets `coth = 1` in the MODEL FUNCTION and drops `1/sinh²` in
    the derivative and in the rows `L_p`, `kT`: consistent — all of them are exact derivatives of the function the
    code computes there -/
theorem efjc_distance_above_guards (f Lp Lc St kT : ℝ) (hf : 0 < f) (hLp : 0 < Lp) (hkT : 0 < kT) (hSt : 0 < St)
    (hx : 500 < f * (2 * Lp / kT)) :
    HasDerivAt (fun f => efjcDistance f Lp Lc St kT) (efjcDistanceDeriv f Lp Lc St kT) f ∧
    HasDerivAt (fun Lp => efjcDistance f Lp Lc St kT) ((efjcDistanceJac f Lp Lc St kT).getD 0 0) Lp ∧
    HasDerivAt (fun kT => efjcDistance f Lp Lc St kT) ((efjcDistanceJac f Lp Lc St kT).getD 3 0) kT :=
  ⟨efjc_deriv_above_guards f Lp Lc St kT hf hLp hkT hSt hx, efjc_jac_Lp_above f Lp Lc St kT hf hLp hkT hSt hx,
   efjc_jac_kT_above f Lp Lc St kT hf hLp hkT hSt hx⟩
/-- the library's default `L_p = 40 nm`, `kT = 4.11`, `f = 30 pN`: `2 f L_p / kT ≈ 584` -/
example : (500:ℝ) < 30 * (2 * 40 / 4.11) := by norm_num

/-- between the guards (`300 < 2 f L_p / kT < 500`) the model function still has the true `coth`, the derivative has
    lost its `1/sinh²` term: the true derivative is the code's value minus `L_c (f/S_t + 1)(2 L_p/kT) / sinh²(2 f L_p/kT)`,
    and that defect is at most `2⁻⁵⁹⁶ ≈ 4·10⁻¹⁸⁰` times `L_c (f/S_t + 1)(2 L_p/kT)` — far below what any
    numerical differentiation resolves -/
theorem efjc_distance_between_guards (f Lp Lc St kT : ℝ) (hf : 0 < f) (hLp : 0 < Lp) (hkT : 0 < kT) (hSt : 0 < St)
    (hlo : 300 < f * (2 * Lp / kT)) (hhi : f * (2 * Lp / kT) < 500) :
    HasDerivAt (fun f => efjcDistance f Lp Lc St kT)
      (efjcDistanceDeriv f Lp Lc St kT - Lc * (f / St + 1) * (2 * Lp / kT) / (Real.sinh (f * (2 * Lp / kT))) ^ 2) f ∧
    1 / (Real.sinh (f * (2 * Lp / kT))) ^ 2 ≤ 1 / 2 ^ 596 :=
  ⟨efjc_deriv_between_guards f Lp Lc St kT hf hLp hkT hSt hlo hhi, inv_sinh_sq_le _ hlo.le⟩
/-- `L_p = 40`, `kT = 4.11`, `f = 20`: `2 f L_p / kT ≈ 389` -/
example : (300:ℝ) < 20 * (2 * 40 / 4.11) ∧ (20:ℝ) * (2 * 40 / 4.11) < 500 := by constructor <;> norm_num

/-! ## Deepening round D: compositions without inversion — `M.jac` is the gradient of `M.val` (structural induction) -/


section picklemmas
variable {β : Type}

theorem pick_cons (i : Nat) (idx : List Nat) (v : List β) :
    pick (i :: idx) v = (do let a ← v[i]?; let as ← pick idx v; pure (a :: as)) := by
  unfold pick
  rw [List.mapM_cons]

theorem pick_set_not_mem (idx : List Nat) (p : List β) (k : Nat) (v : β) (h : k ∉ idx) :
    pick idx (p.set k v) = pick idx p := by
  induction idx with
  | nil => rfl
  | cons i idx ih =>
    have hik : k ≠ i := fun e => h (e ▸ List.mem_cons_self)
    rw [pick_cons, pick_cons, ih (fun hm => h (List.mem_cons_of_mem _ hm)), List.getElem?_set_ne hik]

theorem pick_length (idx : List Nat) (p q : List β) (h : pick idx p = some q) : q.length = idx.length := by
  induction idx generalizing q with
  | nil => unfold pick at h; simp at h; subst h; rfl
  | cons i idx ih =>
    rw [pick_cons] at h
    simp only [Option.bind_eq_bind, Option.bind_eq_some_iff, Option.pure_def] at h
    obtain ⟨a, _, as, h2, h3⟩ := h
    have := Option.some.inj h3
    subst this
    rw [List.length_cons, List.length_cons, ih as h2]

theorem pick_getElem? (idx : List Nat) (p q : List β) (h : pick idx p = some q) (j i : Nat) (hj : idx[j]? = some i) :
    q[j]? = p[i]? := by
  induction idx generalizing q j with
  | nil => simp at hj
  | cons i0 idx ih =>
    rw [pick_cons] at h
    simp only [Option.bind_eq_bind, Option.bind_eq_some_iff, Option.pure_def] at h
    obtain ⟨a, h1, as, h2, h3⟩ := h
    have := Option.some.inj h3
    subst this
    cases j with
    | zero =>
      simp only [List.getElem?_cons_zero, Option.some.injEq] at hj
      subst hj
      rw [List.getElem?_cons_zero, h1]
    | succ j =>
      rw [List.getElem?_cons_succ] at hj
      rw [List.getElem?_cons_succ]
      exact ih as h2 j hj

theorem pick_set_mem (idx : List Nat) (hnd : idx.Nodup) (p q : List β) (k : Nat) (v : β) (j : Nat)
    (hj : idx[j]? = some k) (hp : pick idx p = some q) (hk : k < p.length) :
    pick idx (p.set k v) = some (q.set j v) := by
  induction idx generalizing q j with
  | nil => simp at hj
  | cons i idx ih =>
    obtain ⟨hi, hnd'⟩ := List.nodup_cons.mp hnd
    rw [pick_cons] at hp
    simp only [Option.bind_eq_bind, Option.bind_eq_some_iff, Option.pure_def] at hp
    obtain ⟨a, h1, as, h2, h3⟩ := hp
    have := Option.some.inj h3
    subst this
    cases j with
    | zero =>
      simp only [List.getElem?_cons_zero, Option.some.injEq] at hj
      subst hj
      rw [pick_cons, pick_set_not_mem idx p i v hi, h2, List.getElem?_set_self hk]
      rfl
    | succ j =>
      rw [List.getElem?_cons_succ] at hj
      have hmem : k ∈ idx := List.mem_of_getElem? hj
      have hik : k ≠ i := fun e => hi (e ▸ hmem)
      rw [pick_cons, ih hnd' as j hj h2, List.getElem?_set_ne hik, h1]
      rfl
end picklemmas

theorem routedSum_not_mem (idx : List Nat) (vals : List ℝ) (k : Nat) (h : k ∉ idx) : routedSum idx vals k = 0 := by
  unfold routedSum
  have : (idx.zip vals).filter (fun iv => iv.1 == k) = [] := by
    rw [List.filter_eq_nil_iff]
    intro iv hiv
    have := (List.of_mem_zip hiv).1
    intro e
    have e' : iv.1 = k := by simpa using e
    exact h (e' ▸ this)
  rw [this]; rfl

theorem routedSum_nodup (idx : List Nat) (hnd : idx.Nodup) (vals : List ℝ) (k j : Nat) (hj : idx[j]? = some k) :
    routedSum idx vals k = vals.getD j 0 := by
  induction idx generalizing vals j with
  | nil => simp at hj
  | cons i idx ih =>
    obtain ⟨hi, hnd'⟩ := List.nodup_cons.mp hnd
    cases vals with
    | nil => simp [routedSum]
    | cons a vals =>
      cases j with
      | zero =>
        simp only [List.getElem?_cons_zero, Option.some.injEq] at hj
        subst hj
        have h0 := routedSum_not_mem idx vals i hi
        unfold routedSum at h0 ⊢
        simp only [List.zip_cons_cons, List.filter_cons, beq_self_eq_true, if_true, List.map_cons, List.sum_cons, h0,
          List.getD_cons_zero, add_zero]
      | succ j =>
        rw [List.getElem?_cons_succ] at hj
        have hmem : k ∈ idx := List.mem_of_getElem? hj
        have hik : i ≠ k := fun e => hi (e ▸ hmem)
        have h1 := ih hnd' vals j hj
        unfold routedSum at h1 ⊢
        have : (i == k) = false := by simpa using hik
        simp only [List.zip_cons_cons, List.filter_cons, this, Bool.false_eq_true, if_false, h1, List.getD_cons_succ]

/-- `M.WF` plus: the offset parameter of a `subtract_independent_offset()` is not a parameter of the wrapped model
    (pylake names it `<model>/<x>_offset`) -/
def M.WF2 : M → Prop
  | .base _ names => names.Nodup
  | .add l r => l.WF2 ∧ r.WF2
  | .off name m => m.WF2 ∧ name ∉ m.params
  | .inv m => m.WF2

theorem M.WF2.wf : (m : M) → m.WF2 → m.WF
  | .base _ _, h => h
  | .add l r, h => ⟨M.WF2.wf l h.1, M.WF2.wf r h.2⟩
  | .off _ m, h => M.WF2.wf m h.1
  | .inv m, h => M.WF2.wf m h

/-- what it means that `J` is the gradient of the tree's model function w.r.t. the parameter vector at `p`:
    entry `i` is the derivative of `v ↦ M.val x (p with entry i replaced by v)` at `v = p[i]` -/
def JacSound (m : M) (x : ℝ) (p J : List ℝ) : Prop :=
  (∃ c, m.val x p [] = some c) ∧
  ∀ i, i < p.length → ∃ G : ℝ → ℝ, (∀ v, m.val x (p.set i v) [] = some (G v)) ∧ HasDerivAt G (J.getD i 0) (p.getD i 0)

/-- every leaf, at the abscissa and local parameters at which the tree evaluates it, has the gradient `baseJac`
    returns (and, under an offset, the derivative `baseDer` returns) -/
def LeafJacOK : M → ℝ → List ℝ → Prop
  | .base k _, x, p => ∀ J, baseJac k x p = some J → (∃ c, baseVal k x p = some c) ∧
      ∀ i, i < p.length → ∃ G : ℝ → ℝ, (∀ v, baseVal k x (p.set i v) = some (G v)) ∧ HasDerivAt G (J.getD i 0) (p.getD i 0)
  | .add l r, x, p => ∀ li ri pl pr, subIdx (M.add l r).params l.params = some li →
      subIdx (M.add l r).params r.params = some ri → pick li p = some pl → pick ri p = some pr →
      LeafJacOK l x pl ∧ LeafJacOK r x pr
  | .off name m, x, p => ∀ mi oi o pm, subIdx (M.off name m).params m.params = some mi →
      indexOf (M.off name m).params name = some oi → p[oi]? = some o → pick mi p = some pm →
      LeafJacOK m (x - o) pm ∧ LeafDerOK m (x - o) pm
  | .inv _, _, _ => True

theorem getD_of_getElem?_eq {a b : List ℝ} {i j : Nat} (h : a[i]? = b[j]?) : a.getD i 0 = b.getD j 0 := by
  rw [List.getD_eq_getElem?_getD, List.getD_eq_getElem?_getD, h]

/-- one side of a composition: the parameters of the sub-model are picked out of `p` by a duplicate-free index list;
    varying entry `i` of `p` varies at most one entry of the sub-model's vector, and the derivative is what the
    scatter routes to `i` -/
theorem routed_side (sub : M) (idx : List Nat) (hnd : idx.Nodup) (p q jq : List ℝ) (x : ℝ) (hpick : pick idx p = some q)
    (hs : JacSound sub x q jq) (i : Nat) (hi : i < p.length) :
    ∃ G : ℝ → ℝ, (∀ v, ∃ q', pick idx (p.set i v) = some q' ∧ sub.val x q' [] = some (G v)) ∧
      HasDerivAt G (routedSum idx jq i) (p.getD i 0) := by
  by_cases hmem : i ∈ idx
  · obtain ⟨j, hj⟩ := List.mem_iff_getElem?.mp hmem
    have hjlt : j < q.length := by
      rw [pick_length idx p q hpick]
      exact (List.getElem?_eq_some_iff.mp hj).1
    obtain ⟨G, hG, hD⟩ := hs.2 j hjlt
    refine ⟨G, fun v => ⟨q.set j v, pick_set_mem idx hnd p q i v j hj hpick hi, hG v⟩, ?_⟩
    rw [routedSum_nodup idx hnd jq i j hj, ← getD_of_getElem?_eq (pick_getElem? idx p q hpick j i hj)]
    exact hD
  · obtain ⟨c, hc⟩ := hs.1
    refine ⟨fun _ => c, fun v => ⟨q, by rw [pick_set_not_mem idx p i v hmem]; exact hpick, hc⟩, ?_⟩
    rw [routedSum_not_mem idx jq i hmem]
    exact hasDerivAt_const _ _

/-- `CompositeModel.jacobian` / `SubtractIndependentOffset.jacobian`, end to end and semantically: for a composition
    without numerical inversion whose leaves have distinct parameter names, the list `M.jac` returns is the GRADIENT
    of the composition's model function `M.val` w.r.t. the parameter vector — entry by entry a `HasDerivAt` —
    provided the leaves' Jacobians / derivatives are (structural induction; shared parameters add, the offset's
    entry is `−f'`). -/
theorem tree_jacobian_sound : (m : M) → (x : ℝ) → (p J : List ℝ) → m.countInv = 0 → m.WF2 →
    p.length = m.params.length → LeafJacOK m x p → m.jac x p [] = some J → JacSound m x p J
  | .base k names, x, p, J, _, _, _, hl, hj => by
    rw [M.jac] at hj
    obtain ⟨hc, hG⟩ := hl J hj
    refine ⟨?_, fun i hi => ?_⟩
    · obtain ⟨c, hc⟩ := hc
      exact ⟨c, by rw [M.val]; exact hc⟩
    · obtain ⟨G, hG1, hG2⟩ := hG i hi
      exact ⟨G, fun v => by rw [M.val]; exact hG1 v, hG2⟩
  | .add l r, x, p, J, hc, hwf, hlen, hl, hj => by
    simp only [M.countInv] at hc
    have hcl : l.countInv = 0 := by omega
    have hcr : r.countInv = 0 := by omega
    obtain ⟨li, ri, e1, e2, ll, lr, ndl, ndr, _, _⟩ := composite_indices_established l r (M.WF2.wf l hwf.1) (M.WF2.wf r hwf.2)
    rw [composite_jacobian_unfold] at hj
    simp only [Option.bind_eq_bind, Option.bind_eq_some_iff, List.take_nil, List.drop_nil, e1, e2, Option.some.injEq,
      exists_eq_left'] at hj
    obtain ⟨pl, h3, pr, h4, jl, h5, jr, h6, h7⟩ := hj
    obtain ⟨okl, okr⟩ := hl li ri pl pr e1 e2 h3 h4
    have sl := tree_jacobian_sound l x pl jl hcl hwf.1 (by rw [pick_length li p pl h3, ll]) okl h5
    have sr := tree_jacobian_sound r x pr jr hcr hwf.2 (by rw [pick_length ri p pr h4, lr]) okr h6
    subst h7
    refine ⟨?_, fun i hi => ?_⟩
    · obtain ⟨cl, hcl'⟩ := sl.1
      obtain ⟨cr, hcr'⟩ := sr.1
      refine ⟨cl + cr, ?_⟩
      rw [M.val]
      simp only [Option.bind_eq_bind, List.take_nil, List.drop_nil, e1, e2, h3, h4, hcl', hcr', Option.bind_some]
    · obtain ⟨Gl, hGl, hDl⟩ := routed_side l li ndl p pl jl x h3 sl i hi
      obtain ⟨Gr, hGr, hDr⟩ := routed_side r ri ndr p pr jr x h4 sr i hi
      refine ⟨fun v => Gl v + Gr v, fun v => ?_, ?_⟩
      · obtain ⟨pl', a1, a2⟩ := hGl v
        obtain ⟨pr', b1, b2⟩ := hGr v
        rw [M.val]
        simp only [Option.bind_eq_bind, List.take_nil, List.drop_nil, e1, e2, a1, a2, b1, b2, Option.bind_some]
      · have hJ := composite_jacobian p li ri jl jr ndl ndr i hi
        rw [List.getD_eq_getElem?_getD, hJ]
        exact hDl.add hDr
  | .off name m, x, p, J, hc, hwf, hlen, hl, hj => by
    simp only [M.countInv] at hc
    obtain ⟨mi', hs1, hs2, hs3, hs4, hs5⟩ := subIdx_spec (M.off name m).params m.params
      (by
        intro n hn; simp only [M.params]
        by_cases h : n = name
        · subst h; exact List.mem_cons_self
        · exact List.mem_cons_of_mem _ (List.mem_filter.mpr ⟨hn, by simp [h]⟩))
      (M.params_nodup m (M.WF2.wf m hwf.1))
    rw [offset_jacobian_unfold] at hj
    simp only [Option.bind_eq_bind, Option.bind_eq_some_iff, hs1, Option.some.injEq, exists_eq_left'] at hj
    obtain ⟨oi, h2, o, h3, pm, h4, jm, h5, dm, h6, h7⟩ := hj
    obtain ⟨okj, okd⟩ := hl mi' oi o pm hs1 h2 h3 h4
    have hoi : oi < p.length := hlen ▸ (indexOf_eq_some h2).1
    have hnotin : oi ∉ mi' := by
      intro hm
      obtain ⟨n, hn, hni⟩ := hs5 oi hm
      exact hwf.2 ((indexOf_inj hni h2) ▸ hn)
    have sm := tree_jacobian_sound m (x - o) pm jm hc hwf.1 (by rw [pick_length mi' p pm h4, hs2]) okj h5
    obtain ⟨Fm, hFm, hDm⟩ := tree_derivative_sound m (x - o) pm dm hc okd h6
    subst h7
    refine ⟨?_, fun i hi => ?_⟩
    · obtain ⟨c, hc'⟩ := sm.1
      refine ⟨c, ?_⟩
      rw [M.val]
      simp only [Option.bind_eq_bind, hs1, h2, h3, h4, hc', Option.bind_some]
    · have hJ := offset_jacobian p mi' jm oi dm hs3 hoi i hi
      rw [List.getD_eq_getElem?_getD, hJ]
      by_cases hio : i = oi
      · subst hio
        refine ⟨fun v => Fm (x - v), fun v => ?_, ?_⟩
        · rw [M.val]
          simp only [Option.bind_eq_bind, hs1, h2, List.getElem?_set_self hoi, pick_set_not_mem mi' p i v hnotin, h4,
            hFm (x - v), Option.bind_some]
        · have : p.getD i 0 = o := by rw [List.getD_eq_getElem?_getD, h3]; rfl
          rw [this, if_pos rfl]
          exact (offset_chain_rule Fm dm x o hDm).1
      · obtain ⟨G, hG, hD⟩ := routed_side m mi' hs3 p pm jm (x - o) h4 sm i hi
        refine ⟨G, fun v => ?_, ?_⟩
        · obtain ⟨pm', a1, a2⟩ := hG v
          rw [M.val]
          simp only [Option.bind_eq_bind, hs1, h2, List.getElem?_set_ne hio, h3, a1, a2, Option.bind_some]
        · rw [if_neg hio]
          exact hD
  | .inv m, x, p, J, hc, _, _, _, _ => by
    simp only [M.countInv] at hc
    omega

/-- the leaves meet `LeafJacOK` inside their validity ranges (closed forms, offsets, the four cubic models off the band) -/
theorem leaf_jac_ok (names : List String) :
    (∀ f Lp Lc St kT : ℝ, 0 < f → 0 < Lp → 0 < kT → 0 < St → LeafJacOK (.base .odijkD names) f [Lp, Lc, St, kT]) ∧
    (∀ d Lp Lc kT : ℝ, 0 < Lp → 0 < Lc → d < Lc → LeafJacOK (.base .msF names) d [Lp, Lc, kT]) ∧
    (∀ x o : ℝ, LeafJacOK (.base .offset names) x [o]) ∧
    (∀ f Lp Lc St kT : ℝ, 0 < f → 0 < Lp → 0 < kT → 0 < St → f * (2 * Lp / kT) < 300 →
      LeafJacOK (.base .efjcD names) f [Lp, Lc, St, kT]) := by
  refine ⟨?_, ?_, ?_, ?_⟩
  · intro f Lp Lc St kT h1 h2 h3 h4 J hJ
    cases hJ
    refine ⟨⟨_, rfl⟩, fun i hi => ?_⟩
    have hr := odijk_distance_jac f Lp Lc St kT h1 h2 h3 h4
    rcases i with _ | _ | _ | _ | i
    · exact ⟨fun v => odijkDistance f v Lc St kT, fun _ => rfl, hr.2.1⟩
    · exact ⟨fun v => odijkDistance f Lp v St kT, fun _ => rfl, hr.2.2.1⟩
    · exact ⟨fun v => odijkDistance f Lp Lc v kT, fun _ => rfl, hr.2.2.2.1⟩
    · exact ⟨fun v => odijkDistance f Lp Lc St v, fun _ => rfl, hr.2.2.2.2⟩
    · simp only [List.length_cons, List.length_nil] at hi; omega
  · intro d Lp Lc kT h1 h2 h3 J hJ
    cases hJ
    refine ⟨⟨_, rfl⟩, fun i hi => ?_⟩
    have hr := ms_force_jac d Lp Lc kT h1 h2 h3
    rcases i with _ | _ | _ | i
    · exact ⟨fun v => msForce d v Lc kT, fun _ => rfl, hr.2.1⟩
    · exact ⟨fun v => msForce d Lp v kT, fun _ => rfl, hr.2.2.1⟩
    · exact ⟨fun v => msForce d Lp Lc v, fun _ => rfl, hr.2.2.2⟩
    · simp only [List.length_cons, List.length_nil] at hi; omega
  · intro x o J hJ
    cases hJ
    refine ⟨⟨_, rfl⟩, fun i hi => ?_⟩
    rcases i with _ | i
    · exact ⟨fun v => offsetVal x v, fun _ => rfl, offset_jac x o⟩
    · simp only [List.length_cons, List.length_nil] at hi; omega
  · intro f Lp Lc St kT h1 h2 h3 h4 h5 J hJ
    cases hJ
    refine ⟨⟨_, rfl⟩, fun i hi => ?_⟩
    have hr := efjc_distance_jac f Lp Lc St kT h1 h2 h3 h4 h5
    rcases i with _ | _ | _ | _ | i
    · exact ⟨fun v => efjcDistance f v Lc St kT, fun _ => rfl, hr.2.1⟩
    · exact ⟨fun v => efjcDistance f Lp v St kT, fun _ => rfl, hr.2.2.1⟩
    · exact ⟨fun v => efjcDistance f Lp Lc v kT, fun _ => rfl, hr.2.2.2.1⟩
    · exact ⟨fun v => efjcDistance f Lp Lc St v, fun _ => rfl, hr.2.2.2.2⟩
    · simp only [List.length_cons, List.length_nil] at hi; omega

/-- … and the four cubic models, both branches, off the band (through `X.jac_*_hasDerivAt`) -/
theorem leaf_jac_ok_cubic (names : List String) :
    (∀ d Lp Lc St kT : ℝ, 0 < Lp → 0 < Lc → 0 < St → 0 < kT →
      cubDet (OF.a d Lp Lc St kT) (OF.b d Lp Lc St kT) (OF.c d Lp Lc St kT) ≠ 0 → regularised (OF.a d Lp Lc St kT) (OF.b d Lp Lc St kT) (OF.c d Lp Lc St kT) = false →
      LeafJacOK (.base .odijkF names) d [Lp, Lc, St, kT]) ∧
    (∀ f Lp Lc kT : ℝ, 0 < Lp → 0 < Lc → 0 < kT →
      cubDet (WD.a f Lp Lc kT) (WD.b f Lp Lc kT) (WD.c f Lp Lc kT) ≠ 0 → regularised (WD.a f Lp Lc kT) (WD.b f Lp Lc kT) (WD.c f Lp Lc kT) = false →
      LeafJacOK (.base .msD names) f [Lp, Lc, kT]) ∧
    (∀ d Lp Lc St kT : ℝ, 0 < Lp → 0 < Lc → 0 < St → 0 < kT →
      cubDet (EF.a d Lp Lc St kT) (EF.b d Lp Lc St kT) (EF.c d Lp Lc St kT) ≠ 0 → regularised (EF.a d Lp Lc St kT) (EF.b d Lp Lc St kT) (EF.c d Lp Lc St kT) = false →
      LeafJacOK (.base .emsF names) d [Lp, Lc, St, kT]) ∧
    (∀ f Lp Lc St kT : ℝ, 0 < Lp → 0 < Lc → 0 < St → 0 < kT →
      cubDet (ED.a f Lp Lc St kT) (ED.b f Lp Lc St kT) (ED.c f Lp Lc St kT) ≠ 0 → regularised (ED.a f Lp Lc St kT) (ED.b f Lp Lc St kT) (ED.c f Lp Lc St kT) = false →
      LeafJacOK (.base .emsD names) f [Lp, Lc, St, kT]) := by
  refine ⟨?_, ?_, ?_, ?_⟩
  · intro d Lp Lc St kT h1 h2 h3 h4 hd hr J hJ
    cases hJ
    refine ⟨⟨_, rfl⟩, fun i hi => ?_⟩
    rcases i with _ | _ | _ | _ | i
    · exact ⟨fun v => OF.val d v Lc St kT, fun _ => rfl, OF.jac_Lp_hasDerivAt d Lp Lc St kT h1 h2 h3 h4 hd hr⟩
    · exact ⟨fun v => OF.val d Lp v St kT, fun _ => rfl, OF.jac_Lc_hasDerivAt d Lp Lc St kT h1 h2 h3 h4 hd hr⟩
    · exact ⟨fun v => OF.val d Lp Lc v kT, fun _ => rfl, OF.jac_St_hasDerivAt d Lp Lc St kT h1 h2 h3 h4 hd hr⟩
    · exact ⟨fun v => OF.val d Lp Lc St v, fun _ => rfl, OF.jac_kT_hasDerivAt d Lp Lc St kT h1 h2 h3 h4 hd hr⟩
    · simp only [List.length_cons, List.length_nil] at hi; omega
  · intro f Lp Lc kT h1 h2 h3 hd hr J hJ
    cases hJ
    refine ⟨⟨_, rfl⟩, fun i hi => ?_⟩
    rcases i with _ | _ | _ | i
    · exact ⟨fun v => WD.val f v Lc kT, fun _ => rfl, WD.jac_Lp_hasDerivAt f Lp Lc kT h1 h2 h3 hd hr⟩
    · exact ⟨fun v => WD.val f Lp v kT, fun _ => rfl, WD.jac_Lc_hasDerivAt f Lp Lc kT h1 h2 h3 hd hr⟩
    · exact ⟨fun v => WD.val f Lp Lc v, fun _ => rfl, WD.jac_kT_hasDerivAt f Lp Lc kT h1 h2 h3 hd hr⟩
    · simp only [List.length_cons, List.length_nil] at hi; omega
  · intro d Lp Lc St kT h1 h2 h3 h4 hd hr J hJ
    cases hJ
    refine ⟨⟨_, rfl⟩, fun i hi => ?_⟩
    rcases i with _ | _ | _ | _ | i
    · exact ⟨fun v => EF.val d v Lc St kT, fun _ => rfl, EF.jac_Lp_hasDerivAt d Lp Lc St kT h1 h2 h3 h4 hd hr⟩
    · exact ⟨fun v => EF.val d Lp v St kT, fun _ => rfl, EF.jac_Lc_hasDerivAt d Lp Lc St kT h1 h2 h3 h4 hd hr⟩
    · exact ⟨fun v => EF.val d Lp Lc v kT, fun _ => rfl, EF.jac_St_hasDerivAt d Lp Lc St kT h1 h2 h3 h4 hd hr⟩
    · exact ⟨fun v => EF.val d Lp Lc St v, fun _ => rfl, EF.jac_kT_hasDerivAt d Lp Lc St kT h1 h2 h3 h4 hd hr⟩
    · simp only [List.length_cons, List.length_nil] at hi; omega
  · intro f Lp Lc St kT h1 h2 h3 h4 hd hr J hJ
    cases hJ
    refine ⟨⟨_, rfl⟩, fun i hi => ?_⟩
    rcases i with _ | _ | _ | _ | i
    · exact ⟨fun v => ED.val f v Lc St kT, fun _ => rfl, ED.jac_Lp_hasDerivAt f Lp Lc St kT h1 h2 h3 h4 hd hr⟩
    · exact ⟨fun v => ED.val f Lp v St kT, fun _ => rfl, ED.jac_Lc_hasDerivAt f Lp Lc St kT h1 h2 h3 h4 hd hr⟩
    · exact ⟨fun v => ED.val f Lp Lc v kT, fun _ => rfl, ED.jac_St_hasDerivAt f Lp Lc St kT h1 h2 h3 h4 hd hr⟩
    · exact ⟨fun v => ED.val f Lp Lc St v, fun _ => rfl, ED.jac_kT_hasDerivAt f Lp Lc St kT h1 h2 h3 h4 hd hr⟩
    · simp only [List.length_cons, List.length_nil] at hi; omega

/-- non-vacuity of `tree_jacobian_sound` (and once more of `tree_derivative_sound`):
    `(odijk + distance offset).subtract_independent_offset()` at the defaults meets every hypothesis -/
theorem demo_tree_hypotheses :
    let m := M.off "m/f_offset" (M.add (M.base .odijkD ["m/Lp", "m/Lc", "m/St", "kT"]) (M.base .offset ["m/d_offset"]))
    let p : List ℝ := [0.5, 40, 16, 1500, 4.11, 0.01]
    m.countInv = 0 ∧ m.WF2 ∧ p.length = m.params.length ∧ LeafJacOK m 10 p ∧ LeafDerOK m 10 p := by
  intro m p
  have key : ∀ (P : M → ℝ → List ℝ → Prop),
      P (M.base .odijkD ["m/Lp", "m/Lc", "m/St", "kT"]) (10 - 0.5) [40, 16, 1500, 4.11] →
      P (M.base .offset ["m/d_offset"]) (10 - 0.5) [0.01] →
      ∀ mi oi o pm, subIdx m.params (M.add (M.base .odijkD ["m/Lp", "m/Lc", "m/St", "kT"]) (M.base .offset ["m/d_offset"])).params = some mi →
        indexOf m.params "m/f_offset" = some oi → p[oi]? = some o → pick mi p = some pm →
        ∀ li ri pl pr, subIdx (M.add (M.base .odijkD ["m/Lp", "m/Lc", "m/St", "kT"]) (M.base .offset ["m/d_offset"])).params
            (M.base .odijkD ["m/Lp", "m/Lc", "m/St", "kT"]).params = some li →
          subIdx (M.add (M.base .odijkD ["m/Lp", "m/Lc", "m/St", "kT"]) (M.base .offset ["m/d_offset"])).params
            (M.base .offset ["m/d_offset"]).params = some ri → pick li pm = some pl → pick ri pm = some pr →
          P (M.base .odijkD ["m/Lp", "m/Lc", "m/St", "kT"]) (10 - o) pl ∧ P (M.base .offset ["m/d_offset"]) (10 - o) pr := by
    intro P hP1 hP2 mi oi o pm h1 h2 h3 h4 li ri pl pr g1 g2 g3 g4
    have e1 : mi = [1, 2, 3, 4, 5] := by
      have : subIdx m.params (M.add (M.base .odijkD ["m/Lp", "m/Lc", "m/St", "kT"]) (M.base .offset ["m/d_offset"])).params
          = some [1, 2, 3, 4, 5] := by decide
      rw [this] at h1; exact (Option.some.inj h1).symm
    have e2 : oi = 0 := by
      have : indexOf m.params "m/f_offset" = some 0 := by decide
      rw [this] at h2; exact (Option.some.inj h2).symm
    subst e1 e2
    have e3 : o = 0.5 := by simpa [p] using h3.symm
    have e4 : pm = [40, 16, 1500, 4.11, 0.01] := by
      simp [pick, p] at h4; exact h4.symm
    subst e3 e4
    have f1 : li = [0, 1, 2, 3] := by
      have : subIdx (M.add (M.base .odijkD ["m/Lp", "m/Lc", "m/St", "kT"]) (M.base .offset ["m/d_offset"])).params
          (M.base .odijkD ["m/Lp", "m/Lc", "m/St", "kT"]).params = some [0, 1, 2, 3] := by decide
      rw [this] at g1; exact (Option.some.inj g1).symm
    have f2 : ri = [4] := by
      have : subIdx (M.add (M.base .odijkD ["m/Lp", "m/Lc", "m/St", "kT"]) (M.base .offset ["m/d_offset"])).params
          (M.base .offset ["m/d_offset"]).params = some [4] := by decide
      rw [this] at g2; exact (Option.some.inj g2).symm
    subst f1 f2
    have f3 : pl = [40, 16, 1500, 4.11] := by simp [pick] at g3; exact g3.symm
    have f4 : pr = [0.01] := by simp [pick] at g4; exact g4.symm
    subst f3 f4
    exact ⟨hP1, hP2⟩
  have hD1 := (leaf_der_ok ["m/Lp", "m/Lc", "m/St", "kT"]).1 (10 - 0.5) 40 16 1500 4.11 (by norm_num) (by norm_num) (by norm_num) (by norm_num)
  have hD2 := (leaf_der_ok ["m/d_offset"]).2.2.1 (10 - 0.5) 0.01
  have hJ1 := (leaf_jac_ok ["m/Lp", "m/Lc", "m/St", "kT"]).1 (10 - 0.5) 40 16 1500 4.11 (by norm_num) (by norm_num) (by norm_num) (by norm_num)
  have hJ2 := (leaf_jac_ok ["m/d_offset"]).2.2.1 (10 - 0.5) 0.01
  refine ⟨rfl, ?_, rfl, ?_, ?_⟩
  · refine ⟨⟨?_, ?_⟩, ?_⟩
    · show ["m/Lp", "m/Lc", "m/St", "kT"].Nodup; decide
    · show ["m/d_offset"].Nodup; decide
    · decide
  · intro mi oi o pm h1 h2 h3 h4
    exact ⟨fun li ri pl pr g1 g2 g3 g4 => key LeafJacOK hJ1 hJ2 mi oi o pm h1 h2 h3 h4 li ri pl pr g1 g2 g3 g4,
      fun li ri pl pr g1 g2 g3 g4 => key LeafDerOK hD1 hD2 mi oi o pm h1 h2 h3 h4 li ri pl pr g1 g2 g3 g4⟩
  · intro mi oi o pm h1 h2 h3 h4 li ri pl pr g1 g2 g3 g4
    exact key LeafDerOK hD1 hD2 mi oi o pm h1 h2 h3 h4 li ri pl pr g1 g2 g3 g4

/-! ## Deepening round D: one numerical inversion on top of an inversion-free composition -/

section inverted
open Filter Topology

/-- `InverseModel.derivative` on top of any inversion-free composition (`invert()`, and `efjc_force` / `twlc_force`,
    which are the inversions of `efjc_distance` / `twlc_distance`): if the value the numerical inversion returns is, as a
    function `g` of the abscissa, continuous and an exact right inverse of the inner model function near `x`
    (the idealised inversion), then what `M.der` of the inverted model returns — `1 / f'(g x)` with `f'` the inner
    composition's own analytic derivative — IS the derivative of `g`. -/
theorem inverted_tree_derivative_sound (m : M) (x : ℝ) (p : List ℝ) (g : ℝ → ℝ) (d : ℝ) (hc : m.countInv = 0)
    (hl : LeafDerOK m (g x) p) (hg : ContinuousAt g x) (hinv : ∀ᶠ z in 𝓝 x, m.val (g z) p [] = some z)
    (hd : (M.inv m).der x p [g x] = some d) (hne : m.der (g x) p [] ≠ some 0) :
    HasDerivAt g d x := by
  rw [M.der] at hd
  simp only [Option.bind_eq_bind, Option.bind_eq_some_iff, Option.some.injEq] at hd
  obtain ⟨d', h1, h2⟩ := hd
  obtain ⟨F, hF, hD⟩ := tree_derivative_sound m (g x) p d' hc hl h1
  have hd0 : d' ≠ 0 := by
    intro h0; apply hne; rw [h1, h0]
  have hfg : ∀ᶠ z in 𝓝 x, F (g z) = z := by
    filter_upwards [hinv] with z hz
    rw [hF (g z)] at hz
    exact Option.some.inj hz
  rw [← h2]
  exact inverse_derivative_rule F g d' x hg hD hd0 hfg

/-- non-vacuity of the model-side hypotheses (`ewlc_odijk_distance(…).invert()` at `F = 10`: the leaf is fine, the inner
    derivative is positive); the analytic hypotheses about `g` are those of `inverse_derivative_rule`, whose example
    exhibits such a `g` -/
theorem demo_inverted : ∃ (m : M) (x : ℝ) (p : List ℝ) (g : ℝ → ℝ), m.countInv = 0 ∧ LeafDerOK m (g x) p ∧
    m.der (g x) p [] ≠ some 0 := by
  refine ⟨M.base .odijkD ["m/Lp", "m/Lc", "m/St", "kT"], 14, [40, 16, 1500, 4.11], fun _ => 10, rfl,
    (leaf_der_ok _).1 10 40 16 1500 4.11 (by norm_num) (by norm_num) (by norm_num) (by norm_num), ?_⟩
  intro h
  rw [M.der] at h
  have h' := Option.some.inj h
  simp only [odijkDistanceDeriv, RealLike.sqrt] at h'
  have hs : 0 < Real.sqrt (4.11 * (1.0 / 10) / 40) := Real.sqrt_pos.mpr (by norm_num)
  have : (0:ℝ) < 16 * (0.25 * (1.0 / 10) * Real.sqrt (4.11 * (1.0 / 10) / 40) + 1.0 / 1500) := by positivity
  linarith
end inverted

end Verif.C13
