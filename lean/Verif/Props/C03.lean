/-
  C03 — property theorems (only statements + short proofs; helper lemmas live in Lemmas/C03).
  Every theorem is about the executable model in `Verif.Model.C03`, which the correspondence check
  ties to `lumicks/pylake/detail/confocal.py`, `detail/image.py`, `kymo.py`, `scan.py` and
  `channel.py` on every run.
-/
import Verif.Lemmas.C03

namespace Verif.C03
open Verif.Py

/-! ## The overflow-safe integer mean (`timestamp_mean`) -/

/-- For int64 data a block of one element never needs splitting: the guard `2 ≤ length` that makes
    the model's recursion total is never the deciding condition, so the model recurses exactly
    when the code does. -/
theorem couldSumOverflow_length (a : List Int) (hb : ∀ x ∈ a, x ≤ I64MAX)
    (h : couldSumOverflow a = true) : 2 ≤ a.length := by
  rw [couldSumOverflow_iff] at h
  rcases Nat.lt_or_ge a.length 2 with hl | hl
  · match a, hl, h, hb with
    | [x], _, h, hb =>
      have := hb x (by simp)
      simp [listMax] at h
      omega
  · exact hl

example : couldSumOverflow [0, I64MAX] = true := by decide

/-- No overflow: for timestamps `0 ≤ aᵢ < 2⁶³` every integer the model computes on the way (the
    shifted array, every block sum and quotient, every sum of two partial means, the final sum) lies
    in `[0, 2⁶³)`.  (Partial sums inside a block, in whatever order `np.sum` forms them, are covered by
    `sublist_sum_bounds`: they lie between 0 and the block sum.) -/
theorem tsMean_no_overflow (a : List Int) (hne : a ≠ []) (hb : ∀ x ∈ a, 0 ≤ x ∧ x ≤ I64MAX) :
    ∀ y ∈ tsMeanTrace a, 0 ≤ y ∧ y ≤ I64MAX := by
  have hmin := listMin_mem a hne
  have hmax := listMax_mem a hne
  have hlen : 0 < a.length := List.length_pos_iff.mpr hne
  have hsh := shifted_bounds a
  have hM : listMax a - listMin a ≤ I64MAX := by
    have := (hb _ hmin).1; have := (hb _ hmax).2; omega
  intro y hy
  simp only [tsMeanTrace, List.mem_append, List.mem_singleton] at hy
  rcases hy with (hy | hy) | hy
  · have := hsh y hy; omega
  · exact intMeanTrace_bounds a.length (listMax a - listMin a) hM _ hsh (by simp) (by omega) y hy
  · subst hy
    have b := intMean_bounds a.length (by omega) _ (fun x hx => (hsh x hx).1)
    have h4 := sum_le_length_mul _ (listMax a - listMin a) (fun x hx => (hsh x hx).2)
    simp only [List.length_map] at h4
    have h6 : (a.map (· - listMin a)).sum / (a.length : Int) ≤ listMax a - listMin a :=
      Int.ediv_le_of_le_mul (by omega) (by
        have := Int.mul_comm (a.length : Int) (listMax a - listMin a); omega)
    have := (hb _ hmin).1; have := (hb _ hmax).2
    omega

example : ∀ y ∈ tsMeanTrace [I64MAX, I64MAX - 1, 0, I64MAX], 0 ≤ y ∧ y ≤ I64MAX :=
  tsMean_no_overflow _ (by simp) (by decide)

/-- The result lies between the smallest and the largest timestamp of the array (for a pixel: inside
    its first..last sample). -/
theorem tsMean_mem (a : List Int) (r : Int) (h : tsMean a = some r) :
    listMin a ≤ r ∧ r ≤ listMax a := by
  unfold tsMean at h
  split at h
  · cases h
  · rename_i hne
    injection h with h
    subst h
    have hlen : 0 < a.length := List.length_pos_iff.mpr hne
    have hsh := shifted_bounds a
    have b := intMean_bounds a.length (by omega) _ (fun x hx => (hsh x hx).1)
    have h4 := sum_le_length_mul _ (listMax a - listMin a) (fun x hx => (hsh x hx).2)
    simp only [List.length_map] at h4
    have h6 : (a.map (· - listMin a)).sum / (a.length : Int) ≤ listMax a - listMin a :=
      Int.ediv_le_of_le_mul (by omega) (by
        have := Int.mul_comm (a.length : Int) (listMax a - listMin a); omega)
    omega

/-- Exact floor of the mean whenever `(max − min)·n < 2⁶³` — always the case for the samples of a
    pixel (it would take an acquisition longer than `2⁶³/n` ns to violate it). -/
theorem tsMean_floor (a : List Int) (hne : a ≠ [])
    (hspan : (listMax a - listMin a) * a.length ≤ I64MAX) :
    tsMean a = some (a.sum / a.length) := by
  have hlen : 0 < a.length := List.length_pos_iff.mpr hne
  have hsh := shifted_bounds a
  unfold tsMean
  rw [if_neg hne]
  have hno : ¬(couldSumOverflow (a.map (· - listMin a)) = true ∧ 2 ≤ (a.map (· - listMin a)).length) := by
    intro ⟨hc, _⟩
    rw [couldSumOverflow_iff] at hc
    simp only [List.length_map] at hc
    have hm := listMax_mem (a.map (· - listMin a)) (by simpa using hne)
    have h1 := (hsh _ hm).2
    have h2 : listMax a - listMin a ≤ I64MAX / (a.length : Int) :=
      (Int.le_ediv_iff_mul_le (by omega)).mpr hspan
    omega
  simp only []
  rw [intMean_leaf hno, sum_map_sub]
  have : a.sum - (a.length : Int) * listMin a = a.sum + (a.length : Int) * (-listMin a) := by
    rw [Int.mul_neg]; omega
  rw [this, Int.add_mul_ediv_left _ _ (by omega)]
  congr 1; omega

example : tsMean [1000, 1010, 1025] = some 1011 := by
  rw [tsMean_floor _ (by simp) (by decide)]; decide

/-- In general (split mode included) the result is the floor of the mean minus at most the number
    of splits, and never above the floor. -/
theorem tsMean_floor_split (a : List Int) (r : Int) (h : tsMean a = some r) :
    a.sum / a.length - intMeanSplits (a.map (· - listMin a)) ≤ r ∧ r ≤ a.sum / a.length := by
  unfold tsMean at h
  split at h
  · cases h
  · rename_i hne
    injection h with h
    subst h
    have hlen : 0 < a.length := List.length_pos_iff.mpr hne
    have hsh := shifted_bounds a
    have b := intMean_bounds a.length (by omega) _ (fun x hx => (hsh x hx).1)
    rw [sum_map_sub] at b
    have : a.sum - (a.length : Int) * listMin a = a.sum + (a.length : Int) * (-listMin a) := by
      rw [Int.mul_neg]; omega
    rw [this, Int.add_mul_ediv_left _ _ (by omega)] at b
    omega

/-- The exact-floor claim is false in split mode (observation O2): three values spanning more than
    `2⁶³/3` whose true floor mean is one above what the split recursion returns.  Replayed on the
    code by corpus case `o2_split_floor_minus_one`. -/
theorem split_floor_witness :
    tsMean [1, 0, 3074457345618258605] = some 1024819115206086201 ∧
      ([1, 0, 3074457345618258605] : List Int).sum / 3 = 1024819115206086202 := by
  refine ⟨?_, by decide⟩
  unfold tsMean
  rw [if_neg (by simp)]
  have e : (([1, 0, 3074457345618258605] : List Int).map (· - listMin [1, 0, 3074457345618258605]))
      = [1, 0, 3074457345618258605] := by decide
  simp only [e]
  rw [intMean_node (by decide)]
  have e1 : ([1, 0, 3074457345618258605] : List Int).take (([1, 0, 3074457345618258605] : List Int).length / 2) = [1] := by decide
  have e2 : ([1, 0, 3074457345618258605] : List Int).drop (([1, 0, 3074457345618258605] : List Int).length / 2) = [0, 3074457345618258605] := by decide
  rw [e1, e2, intMean_leaf (by decide), intMean_leaf (by decide)]
  decide

/-! ## Line ranges of a kymograph

`U = w.usedTs` is the stream of used-sample timestamps, `k` the (constant) number of samples per
pixel the code derives from the info wave, `blockSamples U k P l` the samples of the complete pixels
`l·P … (l+1)·P − 1`, i.e. of line `l`, by position in the stream. -/

/-- **Every reported line range contains exactly the used samples of its line**: for every sample
    period `dt > 0`, every start `≥ 0`, every info wave (lead-in, any dead time, truncated last pixel /
    line), every `P`, and **any** `1 ≤ δ ≤ dt` (so also for `δ = dt − 1`, which is what
    `int(1e9 / sample_rate)` yields for dt = 55, 57, 110 … ns): there is one range per image line and
    the used samples `t` with `t0 ≤ t < t1` are exactly the samples of that line's complete pixels —
    none of a neighbouring line, none of a trailing incomplete pixel. -/
theorem line_range_exact (w : Wave) (hdt : 0 < w.dt) (hs : 0 ≤ w.start) (k : Nat)
    (hk : w.pixelSize = some k) (P : Nat) (hP : 0 < P) (δ : Int) (h1 : 1 ≤ δ) (h2 : δ ≤ w.dt)
    (rs : List (Int × Int)) (hrs : w.lineRangesExcl P δ = some rs) :
    rs.length = numBlocks (w.usedTs.length / k) P ∧
    ∀ (l : Nat) (hl : l < rs.length),
      w.usedTs.filter (fun t => decide (rs[l].1 ≤ t) && decide (t < rs[l].2))
        = blockSamples w.usedTs k P l := by
  rw [lineRangesExcl_spec w hdt hs k hk P hP δ] at hrs
  injection hrs with hrs
  subst hrs
  have hk0 := pixelSize_pos w k hk
  refine ⟨by simp [Wave.numPix], ?_⟩
  intro l hl
  simp only [List.length_map, List.length_range] at hl
  have hlt := (lt_numBlocks_iff _ _ _ hP).mp hl
  unfold Wave.numPix at hlt hl
  simp only [List.getElem_map, List.getElem_range, Wave.numPix]
  have hm := mul_succ_le_of_lt_div _ _ _ hk0 hlt
  have hP1 : (l + 1) * P = l * P + P := by rw [Nat.add_mul]; omega
  have hmin : l * P + 1 ≤ min ((l + 1) * P) (w.usedTs.length / k) := by omega
  have he1 : (l * P + 1) * k ≤ min ((l + 1) * P) (w.usedTs.length / k) * k := Nat.mul_le_mul_right _ hmin
  have he2 : min ((l + 1) * P) (w.usedTs.length / k) * k ≤ w.usedTs.length / k * k :=
    Nat.mul_le_mul_right _ (Nat.min_le_right _ _)
  have he3 := Nat.div_mul_le_self w.usedTs.length k
  rw [Nat.add_mul] at he1
  rw [blockSamples_eq _ _ _ _ hk0 hP hlt]
  exact filter_window δ h1 id w.usedTs ((usedTs_sep w hdt).mono h2) (l * P * k)
    (min ((l + 1) * P) (w.usedTs.length / k) * k - 1) (by omega) (by omega) _ _
    (getD_eq _ _ (by omega)) (getD_eq _ _ (by omega))

/-- The bounds themselves: line `l` starts at the first used sample of pixel `l·P` and stops `δ`
    after the last used sample of its last complete pixel. -/
theorem line_range_bounds (w : Wave) (hdt : 0 < w.dt) (hs : 0 ≤ w.start) (k : Nat)
    (hk : w.pixelSize = some k) (P : Nat) (hP : 0 < P) (δ : Int)
    (rs : List (Int × Int)) (hrs : w.lineRangesExcl P δ = some rs) (l : Nat) (hl : l < rs.length) :
    rs[l] = (w.usedTs.getD (l * P * k) 0,
      w.usedTs.getD (min ((l + 1) * P) (w.usedTs.length / k) * k - 1) 0 + δ) := by
  rw [lineRangesExcl_spec w hdt hs k hk P hP δ] at hrs
  injection hrs with hrs
  subst hrs
  simp [Wave.numPix]

/-- When no discarded sample lies between the first and the last used sample of a line (the
    geometries of C02: dead time only between lines), the range selects exactly the line's samples
    from the **raw** sample stream — so reducing any channel on that timeline over the range uses
    the line's samples and nothing else. -/
theorem line_range_exact_raw (w : Wave) (hdt : 0 < w.dt) (hs : 0 ≤ w.start) (k : Nat)
    (hk : w.pixelSize = some k) (P : Nat) (hP : 0 < P) (δ : Int) (h1 : 1 ≤ δ) (h2 : δ ≤ w.dt)
    (rs : List (Int × Int)) (hrs : w.lineRangesExcl P δ = some rs) (l : Nat) (hl : l < rs.length)
    (hcont : ∀ t ∈ w.allTs, w.usedTs.getD (l * P * k) 0 ≤ t →
      t ≤ w.usedTs.getD (min ((l + 1) * P) (w.usedTs.length / k) * k - 1) 0 → t ∈ w.usedTs) :
    w.allTs.filter (fun t => decide (rs[l].1 ≤ t) && decide (t < rs[l].2))
      = blockSamples w.usedTs k P l := by
  have hex := (line_range_exact w hdt hs k hk P hP δ h1 h2 rs hrs)
  rw [← hex.2 l hl]
  have hb := line_range_bounds w hdt hs k hk P hP δ rs hrs l hl
  have hk0 := pixelSize_pos w k hk
  have hlt : l * P < w.usedTs.length / k := (lt_numBlocks_iff _ _ _ hP).mp (by rw [← hex.1]; exact hl)
  have hm := mul_succ_le_of_lt_div _ _ _ hk0 hlt
  have he2 : min ((l + 1) * P) (w.usedTs.length / k) * k ≤ w.usedTs.length / k * k :=
    Nat.mul_le_mul_right _ (Nat.min_le_right _ _)
  have he3 := Nat.div_mul_le_self w.usedTs.length k
  have hP1 : (l + 1) * P = l * P + P := by rw [Nat.add_mul]; omega
  have he1 : (l * P + 1) * k ≤ min ((l + 1) * P) (w.usedTs.length / k) * k :=
    Nat.mul_le_mul_right _ (by omega)
  rw [Nat.add_mul] at he1
  have hlast : w.usedTs.getD (min ((l + 1) * P) (w.usedTs.length / k) * k - 1) 0 ∈ w.usedTs := by
    rw [getD_eq _ _ (by omega)]; exact List.getElem_mem _
  conv => rhs; rw [sublist_eq_filter_mem hdt (allTs_sep w hdt) (usedTs_sublist w), List.filter_filter]
  generalize w.usedTs.getD (l * P * k) 0 = A at hcont hb
  generalize w.usedTs.getD (min ((l + 1) * P) (w.usedTs.length / k) * k - 1) 0 = B at hcont hb hlast
  apply List.filter_congr
  intro t ht
  rw [hb]
  simp only
  by_cases hr : A ≤ t ∧ t < B + δ
  · have hle : t ≤ B := by
      rcases Int.lt_or_le B t with h | h
      · have := (allTs_sep w hdt).of_lt hdt ((usedTs_sublist w).subset hlast) ht h
        omega
      · exact h
    have := hcont t ht hr.1 hle
    simp [hr.1, hr.2, this]
  · have : ¬(A ≤ t) ∨ ¬(t < B + δ) := by
      by_cases h : A ≤ t
      · right; intro h'; exact hr ⟨h, h'⟩
      · left; exact h
    rcases this with h | h <;> simp [h]

/-- Ranges are non-empty, ordered and disjoint: `t0(l) < t1(l) ≤ t0(l+1)`. -/
theorem line_ranges_ordered (w : Wave) (hdt : 0 < w.dt) (hs : 0 ≤ w.start) (k : Nat)
    (hk : w.pixelSize = some k) (P : Nat) (hP : 0 < P) (δ : Int) (h1 : 1 ≤ δ) (h2 : δ ≤ w.dt)
    (rs : List (Int × Int)) (hrs : w.lineRangesExcl P δ = some rs) (l : Nat) (hl : l < rs.length) :
    rs[l].1 < rs[l].2 ∧ ∀ (hl' : l + 1 < rs.length), rs[l].2 ≤ rs[l + 1].1 := by
  have hex := (line_range_exact w hdt hs k hk P hP δ h1 h2 rs hrs)
  have hk0 := pixelSize_pos w k hk
  have hsep := usedTs_sep w hdt
  have hlt : l * P < w.usedTs.length / k := (lt_numBlocks_iff _ _ _ hP).mp (by rw [← hex.1]; exact hl)
  have hm := mul_succ_le_of_lt_div _ _ _ hk0 hlt
  have he2 : min ((l + 1) * P) (w.usedTs.length / k) * k ≤ w.usedTs.length / k * k :=
    Nat.mul_le_mul_right _ (Nat.min_le_right _ _)
  have he3 := Nat.div_mul_le_self w.usedTs.length k
  have hP1 : (l + 1) * P = l * P + P := by rw [Nat.add_mul]; omega
  have he1 : (l * P + 1) * k ≤ min ((l + 1) * P) (w.usedTs.length / k) * k :=
    Nat.mul_le_mul_right _ (by omega)
  rw [Nat.add_mul] at he1
  rw [line_range_bounds w hdt hs k hk P hP δ rs hrs l hl]
  constructor
  · simp only
    rw [getD_eq _ _ (by omega), getD_eq _ _ (by omega)]
    have := hsep.getElem_le (by omega) (i := l * P * k)
      (j := min ((l + 1) * P) (w.usedTs.length / k) * k - 1) (by omega) (by omega)
    simp only [id] at this
    omega
  · intro hl'
    rw [line_range_bounds w hdt hs k hk P hP δ rs hrs (l + 1) hl']
    simp only
    have hlt' : (l + 1) * P < w.usedTs.length / k :=
      (lt_numBlocks_iff _ _ _ hP).mp (by rw [← hex.1]; exact hl')
    have hm' := mul_succ_le_of_lt_div _ _ _ hk0 hlt'
    rw [Nat.min_eq_left (by omega)] at he1 ⊢
    rw [getD_eq _ _ (by omega), getD_eq _ _ (by omega)]
    have := hsep.getElem_lt (i := (l + 1) * P * k - 1) (j := (l + 1) * P * k) (by omega) (by omega)
    simp only [id] at this
    omega

/-! ## Frame ranges of a scan -/

/-- **Every reported frame range contains exactly the used samples of its frame** (dead time
    excluded), for the repaired `frame_timestamp_ranges`; `framePinned_eq` / `frame_single_complete`
    say when the code as pinned computes the same. Frames are blocks of `L·P` pixels. -/
theorem frame_range_exact (w : Wave) (hdt : 0 < w.dt) (hs : 0 ≤ w.start) (k : Nat)
    (hk : w.pixelSize = some k) (P L : Nat) (hP : 0 < P) (hL : 0 < L) (δ : Int) (h1 : 1 ≤ δ)
    (h2 : δ ≤ w.dt) (rs : List (Int × Int)) (hrs : w.frameRanges P L false δ = some (some rs)) :
    rs.length = numBlocks (w.usedTs.length / k) (L * P) ∧
    (∀ (f : Nat) (hf : f < rs.length),
      w.usedTs.filter (fun t => decide (rs[f].1 ≤ t) && decide (t < rs[f].2))
        = blockSamples w.usedTs k (L * P) f) ∧
    (∀ (f : Nat) (hf : f < rs.length),
      rs[f].1 < rs[f].2 ∧ ∀ (hf' : f + 1 < rs.length), rs[f].2 ≤ rs[f + 1].1) := by
  have hPL : 0 < L * P := Nat.mul_pos hL hP
  rw [frameRanges_excl w hdt hs k hk P L hPL δ] at hrs
  cases hx : w.lineRangesExcl (L * P) δ with
  | none => rw [hx] at hrs; cases hrs
  | some rs' =>
    rw [hx] at hrs
    simp only [Option.map_some, Option.some.injEq] at hrs
    subst hrs
    have hex := line_range_exact w hdt hs k hk (L * P) hPL δ h1 h2 rs' hx
    exact ⟨hex.1, hex.2, fun f hf => line_ranges_ordered w hdt hs k hk (L * P) hPL δ h1 h2 rs' hx f hf⟩

/-- The code as pinned computes the repaired ranges whenever the reconstruction has more than one
    frame, or its only frame is complete. -/
theorem frame_single_complete (w : Wave) (hdt : 0 < w.dt) (k : Nat)
    (hk : w.pixelSize = some k) (P L : Nat) (hP : 0 < P) (hL : 0 < L) (incl : Bool) (δ : Int)
    (h : numBlocks (w.usedTs.length / k) (L * P) ≠ 1 ∨ w.usedTs.length / k = L * P) :
    w.frameRangesPinned P L incl δ = w.frameRanges P L incl δ :=
  framePinned_eq w hdt k hk P L (Nat.mul_pos hL hP) incl δ h

/-- Finding F9, kernel-checked: a scan of 2×3 pixels stopped after 5 pixels (lead-in of two
    samples, 2 samples per pixel, `dt = δ = 10`).  The pinned formula reports the frame as
    `[0, 1130)`: the raw window then contains the two lead-in samples, and `downsampled_over` drops
    the range altogether (it is not covered by the channel), so the frame total is not reproduced.
    The repaired formula reports `[1020, 1130)` and reproduces it (the photon stream is zero in the
    dead sample between the two lines: a frame range is one interval). -/
theorem F9_witness :
    let w : Wave := ⟨1000, 10, [0, 0, 1, 2, 1, 2, 1, 2, 0, 1, 2, 1, 2]⟩
    let data : List Int := [5, 7, 1, 2, 3, 4, 5, 6, 0, 7, 8, 9, 10]
    w.frameRangesPinned 3 2 false 10 = some (some [(0, 1130)]) ∧
    w.frameRanges 3 2 false 10 = some (some [(1020, 1130)]) ∧
    w.allTs.filter (fun t => decide (0 ≤ t) && decide (t < 1130)) ≠ blockSamples w.usedTs 2 6 0 ∧
    sumOver ⟨1000, 10, data⟩ [(0, 1130)] = [] ∧
    sumOver ⟨1000, 10, data⟩ [(1020, 1130)] = lineTotals 6 (pixelSums w.iw data 0) := by
  decide

/-! ## Dead time included -/

/-- With dead time included every range starts at the same instant as without (the first used
    sample of the line), and when the line period is constant consecutive ranges are exactly
    contiguous: `t1(l) = t0(l+1)`. -/
theorem dead_time_contiguous (w : Wave) (hdt : 0 < w.dt) (k : Nat)
    (hk : w.pixelSize = some k) (P : Nat) (hP : 0 < P)
    (ri : List (Int × Int)) (hri : w.lineRangesIncl P = some (some ri)) :
    ri.length = numBlocks (w.usedTs.length / k) P ∧
    (∀ (l : Nat) (hl : l < ri.length), ri[l].1 = w.usedTs.getD (l * P * k) 0) ∧
    (∀ (l : Nat) (hl : l + 1 < ri.length),
      w.usedTs.getD ((l + 1) * P * k) 0 - w.usedTs.getD (l * P * k) 0
        = w.usedTs.getD (1 * P * k) 0 - w.usedTs.getD (0 * P * k) 0 →
      ri[l].2 = ri[l + 1].1) := by
  rw [lineRangesIncl_spec w hdt k hk P hP] at hri
  split at hri
  · simp only [Option.some.injEq] at hri
    subst hri
    refine ⟨by simp, fun l hl => by simp, fun l hl hper => ?_⟩
    simp only [List.getElem_map, List.getElem_range]
    omega
  · simp at hri

/-! ## Pixel time, line time, duration = the timing the info wave encodes -/

/-- Pixel time: for a wave that starts with `lead` discarded samples followed by a pixel of `k`
    consecutive used samples, `pixel_time_seconds·10⁹ = k·dt`. -/
theorem pixel_time_spec (w : Wave) (lead k : Nat) (hk : 0 < k) (tail : List Nat)
    (hiw : w.iw = List.replicate lead 0 ++ (pixelCodes k ++ tail)) :
    w.pixelTimeNs = some (k * w.dt) := by
  unfold Wave.pixelTimeNs
  rw [hiw, firstPixelIdx_regular lead k hk tail]
  simp only [Option.map_some, Option.some.injEq]
  congr 1; omega

example : (⟨1000, 10, [0, 0, 1, 2, 1, 2, 1, 2, 0, 0, 0, 1, 2]⟩ : Wave).pixelTimeNs = some 20 := by decide

/-- Line time: when the first line is regular (`FirstLine`: lead-in, `P·k` consecutive used samples,
    `dead` discarded samples, then the next line begins) the line time is `(P·k + dead)·dt`, and this
    is exactly the distance `t0(1) − t0(0)` between the starts of the first two line ranges
    (`line_range_bounds`: `t0(l) = usedTs[l·P·k]`). -/
theorem line_time_spec (w : Wave) (lead k P dead : Nat) (more rest : List Nat) (c : Nat)
    (h : FirstLine w lead k P dead more rest c) :
    w.lineTimeNs P = some ((P * k + dead : Nat) * w.dt) ∧
    w.usedTs.getD (1 * P * k) 0 - w.usedTs.getD (0 * P * k) 0 = (P * k + dead : Nat) * w.dt := by
  have hfp : firstPixelIdx w.iw = some (lead, lead + k - 1) := by
    rw [h.iw, List.append_assoc (pixelCodes k)]
    exact firstPixelIdx_regular lead k h.hk _
  have hPk : 0 < P * k := Nat.mul_pos h.hP h.hk
  constructor
  · unfold Wave.lineTimeNs
    rw [hfp]
    simp only [Option.map_some, Option.some.injEq]
    have e1 : ((lead + k - 1 : Nat) : Int) - (lead : Int) + 1 = (k : Int) := by have := h.hk; omega
    rw [e1]
    have e2 : ((P : Int) * (k : Int)).toNat = P * k := by
      rw [← Int.natCast_mul]; exact Int.toNat_natCast _
    rw [e2]
    have hdrop : w.iw.drop (lead + P * k) = List.replicate dead 0 ++ c :: rest := by
      rw [h.iw, ← List.append_assoc]
      exact List.drop_left' (by simp only [List.length_append, List.length_replicate]; have := h.len; simp only [List.length_append] at this; omega)
    rw [hdrop, if_neg (by simp)]
    rw [argmaxBool_append _ _ _ _ (by intro x hx; rw [(List.mem_replicate.mp hx).2]; rfl)
      (by simpa using h.next)]
    simp only [List.length_replicate]
    rw [← Int.natCast_mul, ← Int.natCast_add]
  · rw [usedTs_regular w lead k P dead more rest c h]
    have hl : (times (w.start + lead * w.dt) w.dt (P * k)).length = P * k := times_length _ _ _
    have g1 : ∀ (X Y : List Int) (y : Int), (X ++ y :: Y).getD (1 * X.length) 0 = y := by
      intro X Y y; simp [List.getD_eq_getElem?_getD]
    have g0 : (times (w.start + lead * w.dt) w.dt (P * k) ++
        (w.start + lead * w.dt + (P * k : Nat) * w.dt + dead * w.dt) ::
          usedOf rest (times (w.start + lead * w.dt + (P * k : Nat) * w.dt + dead * w.dt + w.dt) w.dt rest.length)).getD (0 * P * k) 0
        = w.start + lead * w.dt := by
      match hn : P * k, hPk with
      | n + 1, _ => simp [times]
    have hidx : 1 * P * k = 1 * (times (w.start + lead * w.dt) w.dt (P * k)).length := by
      rw [hl]; simp
    rw [g0, hidx, g1]
    rw [Int.natCast_add, Int.add_mul]
    omega

example : (⟨1000, 10, [0, 0, 1, 2, 1, 2, 1, 2, 0, 0, 0, 1, 2]⟩ : Wave).lineTimeNs 3 = some 90 := by decide
example : FirstLine ⟨1000, 10, [0, 0, 1, 2, 1, 2, 1, 2, 0, 0, 0, 1, 2]⟩ 2 2 3 3 [1, 2, 1, 2] [2] 1 :=
  ⟨by decide, by decide, by decide, by decide, by decide, by decide⟩

/-- Duration: line time × number of image lines, the image having one pixel per boundary code
    and `⌈#pixels / P⌉` lines (C02's `kymo_placement`). -/
theorem duration_spec (w : Wave) (P : Nat) :
    w.durationNs P = (w.lineTimeNs P).map fun (lt : Int) => lt * ((numBlocks w.numBoundaries P : Nat) : Int) := rfl

/-! ## Per-pixel timestamps -/

/-- **Pixel timestamps are the floor of the mean of the pixel's samples and lie inside the pixel**:
    whenever `(last − first)·k < 2⁶³` over the acquisition (no split; it takes an acquisition longer
    than `2⁶³/k` ns to violate it), `reconstruct_image(timestamps, reduce=timestamp_mean)` yields for
    every complete pixel `⌊Σ samples / k⌋`, which is between the pixel's smallest (= first) and
    largest (= last) sample. -/
theorem pixel_ts_spec (w : Wave) (k : Nat) (hk : w.pixelSize = some k)
    (hpix : (rowsOf k w.usedTs).flatten ≠ [])
    (hspan : (listMax (rowsOf k w.usedTs).flatten - listMin (rowsOf k w.usedTs).flatten) * k ≤ I64MAX) :
    w.pixMean = some ((rowsOf k w.usedTs).map fun r => r.sum / (k : Int)) ∧
    ∀ r ∈ rowsOf k w.usedTs, r.length = k ∧ listMin r ≤ r.sum / (k : Int) ∧ r.sum / (k : Int) ≤ listMax r := by
  have hk0 := pixelSize_pos w k hk
  have hlen := rowsOf_row_length k hk0 w.usedTs
  constructor
  · unfold Wave.pixMean
    rw [hk]
    exact tsMeanRows_floor _ k hk0 hlen hpix hspan
  · intro r hr
    have hl := hlen r hr
    have := floor_mean_mem r (by intro h; rw [h] at hl; simp at hl; omega)
    rw [hl] at this
    exact ⟨hl, this⟩

/-- Placement: `Kymo.timestamps[r][l]` is the timestamp of pixel `l·P + r` (`0` for the padding of an
    unfinished last line). -/
theorem kymo_ts_placement (w : Wave) (P : Nat) (pix : List Int) (h : w.pixMean = some pix) :
    w.kymoTimestamps P = some ((List.range P).map fun r =>
      (List.range (numBlocks pix.length P)).map fun l => pix.getD (l * P + r) 0) := by
  unfold Wave.kymoTimestamps
  rw [h, Option.map_some, kymoImage_eq]

/-- Non-vacuity: lead-in 2, three pixels of two samples, dead time 3, then a fourth pixel. -/
example : (⟨1000, 10, [0, 0, 1, 2, 1, 2, 1, 2, 0, 0, 0, 1, 2]⟩ : Wave).kymoTimestamps 3
    = some [[1025, 1115], [1045, 0], [1065, 0]] := by
  have h := (pixel_ts_spec ⟨1000, 10, [0, 0, 1, 2, 1, 2, 1, 2, 0, 0, 0, 1, 2]⟩ 2 (by decide) (by decide)
    (by decide)).1
  rw [kymo_ts_placement _ 3 _ h]; decide

/-! ## Reducing a channel over the ranges reproduces the image (C01 + C02 + C03) -/

/-- **Summing the photon stream over the reported line ranges gives the image's column totals.**
    `sumOver` is `Slice.downsampled_over(ranges, reduce=np.sum)` with the C01 slicing model;
    `pixelSums`/`lineTotals` are the C02 image (one pixel per boundary code, zero padding, totals per
    line).  Hypotheses: the wave is regular (`m ≥ 1` complete pixels of `k` used samples, then fewer
    than `k` used samples), no discarded sample lies inside a line (dead time only between lines),
    `1 ≤ δ ≤ dt`.  Counts in discarded samples — lead-in, dead time, after the last pixel — are
    arbitrary. -/
theorem sum_over_ranges_eq_image (w : Wave) (data : List Int) (hlen : data.length = w.iw.length)
    (hdt : 0 < w.dt) (hs : 0 ≤ w.start) (k m r : Nat) (hreg : w.Regular k m r) (P : Nat) (hP : 0 < P)
    (δ : Int) (h1 : 1 ≤ δ) (h2 : δ ≤ w.dt)
    (hcont : ∀ l, l < numBlocks m P → ∀ t ∈ w.allTs,
      w.usedTs.getD (l * P * k) 0 ≤ t →
      t ≤ w.usedTs.getD (min ((l + 1) * P) m * k - 1) 0 → t ∈ w.usedTs)
    (rs : List (Int × Int)) (hrs : w.lineRangesExcl P δ = some rs) :
    sumOver ⟨w.start, w.dt, data⟩ rs = lineTotals P (pixelSums w.iw data 0) := by
  have hk := hreg.pixelSize
  have hm := hreg.numPix
  have hul := hreg.used_length
  obtain ⟨hk0, hm0, hr, hsub⟩ := hreg
  rw [sumOver_blocks w data hlen hdt hs k hk P hP δ h1 h2 (by rw [hm]; exact hcont) rs hrs, hm]
  have hUD : (usedOf w.iw data).length = m * k + r := by
    rw [usedOf_length _ _ hlen, ← hul]
    unfold Wave.usedTs Wave.allTs
    rw [usedOf_length _ _ (times_length _ _ _)]
  rw [pixelSums_used]
  have : w.iw.filter (· ≠ 0) = w.subset := rfl
  rw [this, hsub, pixelSums_regular k hk0 m r _ (by omega), lineTotals_rows _ _ _ _ hP]

/-- Non-vacuity: lead-in 2, two lines of two pixels of two samples, dead time 1, an unfinished third
    line; counts are non-zero everywhere. -/
example :
    let w : Wave := ⟨1000, 10, [0, 0, 1, 2, 1, 2, 0, 1, 2, 1, 2, 0, 1, 2, 1]⟩
    let data : List Int := [9, 8, 1, 2, 3, 4, 7, 5, 6, 7, 8, 6, 9, 10, 11]
    w.Regular 2 5 1 ∧ w.lineRangesExcl 2 9 = some [(1020, 1059), (1070, 1109), (1120, 1139)] ∧
    sumOver ⟨1000, 10, data⟩ [(1020, 1059), (1070, 1109), (1120, 1139)] = [10, 26, 19] ∧
    lineTotals 2 (pixelSums w.iw data 0) = [10, 26, 19] := by
  refine ⟨⟨by decide, by decide, by decide, by decide⟩, by decide, by decide, by decide⟩

/-! ## Non-vacuity of the range theorems

One kymograph wave (lead-in 2, lines of 3 pixels of 2 samples, dead time 3, second line unfinished
after one pixel and one more used sample) with `dt = 10` and `δ = 9 = dt − 1`, and one scan wave of
two frames of 2×2 one-sample pixels (line dead time 1, frame dead time 2). -/

example :
    let w : Wave := ⟨1000, 10, [0, 0, 1, 2, 1, 2, 1, 2, 0, 0, 0, 1, 2, 1]⟩
    w.pixelSize = some 2 ∧
    w.lineRangesExcl 3 9 = some [(1020, 1079), (1110, 1129)] ∧
    w.usedTs.filter (fun t => decide (1110 ≤ t) && decide (t < 1129)) = blockSamples w.usedTs 2 3 1 ∧
    blockSamples w.usedTs 2 3 1 = [1110, 1120] ∧
    w.allTs.filter (fun t => decide (1020 ≤ t) && decide (t < 1079)) = blockSamples w.usedTs 2 3 0 ∧
    (∀ t ∈ w.allTs, w.usedTs.getD (0 * 3 * 2) 0 ≤ t →
      t ≤ w.usedTs.getD (min ((0 + 1) * 3) (w.usedTs.length / 2) * 2 - 1) 0 → t ∈ w.usedTs) ∧
    w.lineRangesIncl 3 = some (some [(1020, 1110), (1110, 1200)]) := by
  decide

example :
    let w : Wave := ⟨1000, 10, [0, 2, 2, 0, 2, 2, 0, 0, 0, 2, 2, 0, 2, 2, 0, 0, 0, 2]⟩
    w.pixelSize = some 1 ∧
    w.frameRanges 2 2 false 10 = some (some [(1010, 1060), (1090, 1140), (1170, 1180)]) ∧
    w.frameRangesPinned 2 2 false 10 = w.frameRanges 2 2 false 10 ∧
    w.frameRanges 2 2 true 10 = some (some [(1010, 1090), (1090, 1170), (1170, 1250)]) ∧
    numBlocks (w.usedTs.length / 1) (2 * 2) ≠ 1 := by
  decide

/-- Finding F22 repaired: the inclusive ranges equal the pinned definition whenever that one is defined
    (two or more lines), and are the exclusive range of the only line otherwise. -/
theorem lineRangesInclFixed_spec (w : Wave) (P : Nat) (δ : Int) :
    (∀ r, w.lineRangesIncl P = some (some r) → w.lineRangesInclFixed P δ = some (some r)) ∧
    (w.lineRangesIncl P = some none → w.lineRangesInclFixed P δ = (w.lineRangesExcl P δ).map some) ∧
    (w.lineRangesIncl P = none → w.lineRangesInclFixed P δ = none) := by
  refine ⟨?_, ?_, ?_⟩
  · intro r h; simp [Wave.lineRangesInclFixed, h]
  · intro h; simp [Wave.lineRangesInclFixed, h]
  · intro h; simp [Wave.lineRangesInclFixed, h]

/-! ## `timestamp_mean(axis=1)` — the call behind the per-pixel timestamps — at any split depth -/


/-- **`timestamp_mean(axis=1)` at any split depth** (the call that produces the per-pixel timestamps):
    for every array of rows of width `w ≥ 1`, whatever the values, the result has one entry per row, and
    entry `i` is at most the floor of the mean of row `i`, falls short of it by at most the number of
    splits (itself at most `w − 1`), is at least the minimum of the whole array and at most the maximum of
    its own row. -/
theorem tsMeanRows_split_bounds (rows : List (List Int)) (w : Nat) (hw : 0 < w)
    (hlen : ∀ r ∈ rows, r.length = w) (hne : rows.flatten ≠ []) :
    ∃ res, tsMeanRows rows w = some res ∧ res.length = rows.length ∧
      intMeanRowsSplits (shiftRows rows) w ≤ w - 1 ∧
      ∀ (i : Nat) (hi : i < rows.length) (hi' : i < res.length),
        rows[i].sum / (w : Int) - intMeanRowsSplits (shiftRows rows) w ≤ res[i] ∧
        res[i] ≤ rows[i].sum / (w : Int) ∧
        listMin rows.flatten ≤ res[i] ∧ res[i] ≤ listMax rows[i] := by
  refine ⟨_, tsMeanRows_eq rows w hne, by simp, intMeanRowsSplits_le w _, ?_⟩
  intro i hi hi'
  simp only [List.getElem_map]
  exact tsMeanRows_row_bounds rows w hw hlen rows[i] (List.getElem_mem hi)

example : (∀ r ∈ [[0, 4, 5], [7, 8, 9223372036854775807]], r.length = 3) ∧
    ([[0, 4, 5], [7, 8, 9223372036854775807]] : List (List Int)).flatten ≠ [] := by decide

/-- In split mode a row's result can fall below that row's own minimum (the shift and the split
    decision are array-wide): row `[1, 1]` next to a row spanning the whole of int64 yields `0`.
    So "inside the pixel's first..last sample" needs the no-split hypothesis of `pixel_ts_spec`
    (`hspan`); kernel-checked, replayed on the code by corpus case `rows_below_row_minimum`. -/
theorem rows_below_min_witness :
    tsMeanRows [[1, 1], [0, 9223372036854775807]] 2 = some [0, 4611686018427387903] := by
  rw [tsMeanRows_eq _ _ (by decide)]
  have e : shiftRows [[1, 1], [0, 9223372036854775807]] = [[1, 1], [0, 9223372036854775807]] := by decide
  have m : listMin ([[1, 1], [0, 9223372036854775807]] : List (List Int)).flatten = 0 := by decide
  simp only [e, m, List.map_cons, List.map_nil]
  have hn : ∀ r, rowMeanWith [[1, 1], [0, 9223372036854775807]] 2 (2 : Nat) r = _ :=
    fun r => rowMeanWith_node (r := r) (by decide)
  simp only [hn, List.map_cons, List.map_nil]
  have hl1 : ∀ r, rowMeanWith [List.take (2 / 2) [1, 1], List.take (2 / 2) [0, 9223372036854775807]] (2 / 2) (2 : Nat) r = _ :=
    fun r => rowMeanWith_leaf (r := r) (by decide)
  have hl2 : ∀ r, rowMeanWith [List.drop (2 / 2) [1, 1], List.drop (2 / 2) [0, 9223372036854775807]] (2 - 2 / 2) (2 : Nat) r = _ :=
    fun r => rowMeanWith_leaf (r := r) (by decide)
  simp only [hl1, hl2]
  decide

/-- **No overflow in `timestamp_mean(axis=1)`**: for timestamps `0 ≤ x < 2⁶³` every integer computed on
    the way (the shifted array, every block's row sums and quotients, every element-wise sum of two
    partial means, the final sums) lies in `[0, 2⁶³)`. -/
theorem tsMeanRows_no_overflow (rows : List (List Int)) (w : Nat) (hw : 0 < w)
    (hlen : ∀ r ∈ rows, r.length = w) (hne : rows.flatten ≠ [])
    (hb : ∀ x ∈ rows.flatten, 0 ≤ x ∧ x ≤ I64MAX) :
    ∀ y ∈ tsMeanRowsTrace rows w, 0 ≤ y ∧ y ≤ I64MAX := by
  have hmin := hb _ (listMin_mem _ hne)
  have hmax := hb _ (listMax_mem _ hne)
  have hM : listMax rows.flatten - listMin rows.flatten ≤ I64MAX := by omega
  have hrows : ∀ r' ∈ shiftRows rows, r'.length = w ∧
      ∀ x ∈ r', 0 ≤ x ∧ x ≤ listMax rows.flatten - listMin rows.flatten := by
    intro r' hr'
    rcases List.mem_map.mp hr' with ⟨r, hr, rfl⟩
    exact ⟨by simp only [List.length_map]; exact hlen r hr, shiftRows_bounds rows r hr⟩
  intro y hy
  simp only [tsMeanRowsTrace, List.mem_append] at hy
  rcases hy with (hy | hy) | hy
  · rcases List.mem_flatten.mp hy with ⟨r', hr', hy'⟩
    have := (hrows r' hr').2 y hy'
    omega
  · rcases intMeanRowsTrace_mem _ _ _ y hy with ⟨r', hr', hy'⟩
    exact rowTraceWith_bounds (w : Int) (by omega) _ hM w _ r' hr' hrows (by omega) y hy'
  · rw [intMeanRows_eq_map, List.map_map] at hy
    rcases List.mem_map.mp hy with ⟨r', hr', rfl⟩
    rcases List.mem_map.mp hr' with ⟨r, hr, rfl⟩
    have b := tsMeanRows_row_bounds rows w hw hlen r hr
    have := le_listMax _ _ (List.mem_flatten.mpr ⟨r, hr, listMax_mem r (by
      intro h; have := hlen r hr; rw [h] at this; simp at this; omega)⟩)
    simp only [Function.comp]
    have b' := b.2.2
    simp only [shiftRows] at b'
    omega

/-- **Per-pixel timestamps without the no-split hypothesis**: for every info wave with at least one
    complete pixel, whatever the start and the sample period, `reconstruct_image(timestamps,
    reduce=timestamp_mean)` yields one value per complete pixel; it is at most the floor of the mean of
    that pixel's `k` samples and at most its last sample, and falls short of the floor by at most `k − 1`
    (`pixel_ts_spec`: by nothing when `(last − first)·k < 2⁶³` over the acquisition). -/
theorem pixel_ts_general (w : Wave) (k : Nat) (hk : w.pixelSize = some k)
    (hpix : (rowsOf k w.usedTs).flatten ≠ []) :
    ∃ res, w.pixMean = some res ∧ res.length = (rowsOf k w.usedTs).length ∧
      ∀ (i : Nat) (hi : i < (rowsOf k w.usedTs).length) (hi' : i < res.length),
        (rowsOf k w.usedTs)[i].sum / (k : Int) - (k - 1 : Nat) ≤ res[i] ∧
        res[i] ≤ (rowsOf k w.usedTs)[i].sum / (k : Int) ∧
        res[i] ≤ listMax (rowsOf k w.usedTs)[i] := by
  have hk0 := pixelSize_pos w k hk
  have hlen := rowsOf_row_length k hk0 w.usedTs
  rcases tsMeanRows_split_bounds _ k hk0 hlen hpix with ⟨res, hres, hl, hS, hb⟩
  refine ⟨res, by unfold Wave.pixMean; rw [hk]; exact hres, hl, ?_⟩
  intro i hi hi'
  have := hb i hi hi'
  refine ⟨?_, this.2.1, this.2.2.2⟩
  have h1 := this.1
  have : ((intMeanRowsSplits (shiftRows (rowsOf k w.usedTs)) k : Nat) : Int) ≤ ((k - 1 : Nat) : Int) :=
    Int.ofNat_le.mpr hS
  omega

/-- **The per-pixel mean never overflows**: when all sample timestamps of the acquisition are
    non-negative int64 values, every integer `timestamp_mean(axis=1)` computes for the pixel rows lies in
    `[0, 2⁶³)` — at any split depth. -/
theorem pixel_ts_no_overflow (w : Wave) (hdt : 0 < w.dt) (hs : 0 ≤ w.start) (k : Nat)
    (hk : w.pixelSize = some k) (hpix : (rowsOf k w.usedTs).flatten ≠ [])
    (hfit : ∀ t ∈ w.allTs, t ≤ I64MAX) :
    ∀ y ∈ tsMeanRowsTrace (rowsOf k w.usedTs) k, 0 ≤ y ∧ y ≤ I64MAX := by
  have hk0 := pixelSize_pos w k hk
  apply tsMeanRows_no_overflow _ k hk0 (rowsOf_row_length k hk0 w.usedTs) hpix
  intro x hx
  have hxU := rowsOf_flatten_mem k _ x hx
  have := usedTs_ge w hdt x hxU
  have := hfit x ((usedTs_sublist w).subset hxU)
  omega

example :
    let w : Wave := ⟨1000, 10, [0, 0, 1, 2, 1, 2, 1, 2, 0, 0, 0, 1, 2]⟩
    w.pixelSize = some 2 ∧ (rowsOf 2 w.usedTs).flatten ≠ [] ∧ (∀ t ∈ w.allTs, t ≤ I64MAX) := by decide

/-! ## The `δ` the code adds to the last sample: `int(1e9 / infowave.sample_rate)`

`deltaTs` is the code's expression evaluated in an exact model of IEEE-754 binary64 division
(`rnDiv`: exponent from the bit lengths, round-half-even of the scaled quotient), tied to the code by op
`c03.delta` on every run (and cross-checked against the hardware `Float`). -/

/-- **The code establishes the hypothesis `1 ≤ δ ≤ dt` of the range theorems**: for every sample period
    from 1 ns to 10¹⁵ ns (the property asks for 0.1 s = 10⁸ ns) the float round trip
    `int(1e9 / (1e9 / dt))` yields `dt` or `dt − 1`, and never `0`.  Proof: each of the two rounded
    divisions has relative error at most 2⁻⁵³ (`rnDiv_err`), so the result lies strictly between `dt − 1`
    and `dt + 1` as long as `2·dt + 2 < 2⁵³`; `dt = 1` is exact. -/
theorem deltaTs_bounds (dt : Int) (h1 : 1 ≤ dt) (h2 : dt ≤ 1000000000000000) :
    1 ≤ deltaTs dt ∧ deltaTs dt ≤ dt ∧ dt - 1 ≤ deltaTs dt := by
  unfold deltaTs
  have hn := deltaSoft_near dt.toNat (by omega) (by omega)
  simp only [Int.ofNat_eq_natCast]
  by_cases h : dt.toNat = 1
  · rw [h, deltaSoft_one]; omega
  · omega

example : (1 : Int) ≤ 55 ∧ (55 : Int) ≤ 1000000000000000 := by decide

/-- TEST (kernel evaluation of samples, not a ∀-statement): the periods the tie singles out — 55, 57
    and 110 ns lose one nanosecond in the round trip, the Bluelake periods 12800 ns and 62.5 ms and the
    0.1 s of the property do not. -/
theorem deltaTs_values :
    deltaTs 1 = 1 ∧ deltaTs 55 = 54 ∧ deltaTs 57 = 56 ∧ deltaTs 110 = 109 ∧ deltaTs 12800 = 12800 ∧
      deltaTs 62500000 = 62500000 ∧ deltaTs 100000000 = 100000000 := by
  decide +kernel

/-- **Line ranges with the `δ` of the code** (no hypothesis on `δ` left): `line_range_exact` and
    `line_ranges_ordered` for `δ = int(1e9 / sample_rate)`, every sample period up to 10¹⁵ ns. -/
theorem line_range_exact_code (w : Wave) (hdt : 0 < w.dt) (hmax : w.dt ≤ 1000000000000000)
    (hs : 0 ≤ w.start) (k : Nat) (hk : w.pixelSize = some k) (P : Nat) (hP : 0 < P)
    (rs : List (Int × Int)) (hrs : w.lineRangesExcl P (deltaTs w.dt) = some rs) :
    rs.length = numBlocks (w.usedTs.length / k) P ∧
    (∀ (l : Nat) (hl : l < rs.length),
      w.usedTs.filter (fun t => decide (rs[l].1 ≤ t) && decide (t < rs[l].2))
        = blockSamples w.usedTs k P l) ∧
    (∀ (l : Nat) (hl : l < rs.length),
      rs[l].1 < rs[l].2 ∧ ∀ (hl' : l + 1 < rs.length), rs[l].2 ≤ rs[l + 1].1) := by
  have hd := deltaTs_bounds w.dt (by omega) hmax
  have hex := line_range_exact w hdt hs k hk P hP _ hd.1 hd.2.1 rs hrs
  exact ⟨hex.1, hex.2, fun l hl => line_ranges_ordered w hdt hs k hk P hP _ hd.1 hd.2.1 rs hrs l hl⟩

/-- **Frame ranges with the `δ` of the code.** -/
theorem frame_range_exact_code (w : Wave) (hdt : 0 < w.dt) (hmax : w.dt ≤ 1000000000000000)
    (hs : 0 ≤ w.start) (k : Nat) (hk : w.pixelSize = some k) (P L : Nat) (hP : 0 < P) (hL : 0 < L)
    (rs : List (Int × Int)) (hrs : w.frameRanges P L false (deltaTs w.dt) = some (some rs)) :
    rs.length = numBlocks (w.usedTs.length / k) (L * P) ∧
    (∀ (f : Nat) (hf : f < rs.length),
      w.usedTs.filter (fun t => decide (rs[f].1 ≤ t) && decide (t < rs[f].2))
        = blockSamples w.usedTs k (L * P) f) ∧
    (∀ (f : Nat) (hf : f < rs.length),
      rs[f].1 < rs[f].2 ∧ ∀ (hf' : f + 1 < rs.length), rs[f].2 ≤ rs[f + 1].1) :=
  have hd := deltaTs_bounds w.dt (by omega) hmax
  frame_range_exact w hdt hs k hk P L hP hL _ hd.1 hd.2.1 rs hrs

/-- **Summing the photon stream over the line ranges the code reports gives the image's column totals**
    (`sum_over_ranges_eq_image` with the `δ` of the code). -/
theorem sum_over_ranges_eq_image_code (w : Wave) (data : List Int) (hlen : data.length = w.iw.length)
    (hdt : 0 < w.dt) (hmax : w.dt ≤ 1000000000000000) (hs : 0 ≤ w.start) (k m r : Nat)
    (hreg : w.Regular k m r) (P : Nat) (hP : 0 < P)
    (hcont : ∀ l, l < numBlocks m P → ∀ t ∈ w.allTs,
      w.usedTs.getD (l * P * k) 0 ≤ t →
      t ≤ w.usedTs.getD (min ((l + 1) * P) m * k - 1) 0 → t ∈ w.usedTs)
    (rs : List (Int × Int)) (hrs : w.lineRangesExcl P (deltaTs w.dt) = some rs) :
    sumOver ⟨w.start, w.dt, data⟩ rs = lineTotals P (pixelSums w.iw data 0) :=
  have hd := deltaTs_bounds w.dt (by omega) hmax
  sum_over_ranges_eq_image w data hlen hdt hs k m r hreg P hP _ hd.1 hd.2.1 hcont rs hrs

/-- Non-vacuity with a period that loses a nanosecond: `dt = 55`, `δ = 54`. -/
example :
    let w : Wave := ⟨1000, 55, [0, 0, 1, 2, 1, 2, 0, 1, 2, 1, 2, 0, 1, 2, 1]⟩
    w.Regular 2 5 1 ∧ deltaTs w.dt = 54 ∧
    w.lineRangesExcl 2 (deltaTs w.dt) = some [(1110, 1329), (1385, 1604), (1660, 1769)] := by
  refine ⟨⟨by decide, by decide, by decide, by decide⟩, by decide +kernel, ?_⟩
  have : deltaTs (⟨1000, 55, [0, 0, 1, 2, 1, 2, 0, 1, 2, 1, 2, 0, 1, 2, 1]⟩ : Wave).dt = 54 := by
    decide +kernel
  simp only [this]
  decide

/-! ## Frame totals, discarded samples inside a range, longer channels -/

/-- **Summing a channel over the reported ranges gives the image totals even when discarded samples
    lie inside a range, as long as they carry no counts** (generalises `sum_over_ranges_eq_image`, whose
    hypothesis `hcont` makes `hzero` vacuous): every sample of the channel whose time lies between the
    first and the last used sample of a block and is not a used sample has value zero. -/
theorem sum_over_ranges_eq_image_zero (w : Wave) (data : List Int) (hlen : data.length = w.iw.length)
    (hdt : 0 < w.dt) (hs : 0 ≤ w.start) (k m r : Nat) (hreg : w.Regular k m r) (P : Nat) (hP : 0 < P)
    (δ : Int) (h1 : 1 ≤ δ) (h2 : δ ≤ w.dt)
    (hzero : ∀ l, l < numBlocks m P → ∀ s ∈ C01.samplesFrom w.start w.dt data,
      w.usedTs.getD (l * P * k) 0 ≤ s.1 →
      s.1 ≤ w.usedTs.getD (min ((l + 1) * P) m * k - 1) 0 → s.1 ∉ w.usedTs → s.2 = 0)
    (rs : List (Int × Int)) (hrs : w.lineRangesExcl P δ = some rs) :
    sumOver ⟨w.start, w.dt, data⟩ rs = lineTotals P (pixelSums w.iw data 0) := by
  have hk := hreg.pixelSize
  have hm := hreg.numPix
  have hul := hreg.used_length
  obtain ⟨hk0, hm0, hr, hsub⟩ := hreg
  rw [sumOver_blocks_zero w data hlen hdt hs k hk P hP δ h1 h2 (by rw [hm]; exact hzero) rs hrs, hm]
  have hUD : (usedOf w.iw data).length = m * k + r := by
    rw [usedOf_length _ _ hlen, ← hul]
    unfold Wave.usedTs Wave.allTs
    rw [usedOf_length _ _ (times_length _ _ _)]
  rw [pixelSums_used]
  have : w.iw.filter (· ≠ 0) = w.subset := rfl
  rw [this, hsub, pixelSums_regular k hk0 m r _ (by omega), lineTotals_rows _ _ _ _ hP]

/-- **Frame totals**: summing a timeline channel over the frame ranges `frame_timestamp_ranges()`
    reports reproduces the totals of the image frames (blocks of `L·P` pixels) whenever the channel is
    zero at the discarded samples *inside* a frame (the dead time between the lines of a frame: a frame
    range is one interval and necessarily contains them).  Counts in the lead-in, between frames and
    after the last pixel are arbitrary; the `δ` is the one the code computes. -/
theorem sum_over_frame_ranges_eq_image (w : Wave) (data : List Int) (hlen : data.length = w.iw.length)
    (hdt : 0 < w.dt) (hmax : w.dt ≤ 1000000000000000) (hs : 0 ≤ w.start) (k m r : Nat)
    (hreg : w.Regular k m r) (P L : Nat) (hP : 0 < P) (hL : 0 < L)
    (hzero : ∀ f, f < numBlocks m (L * P) → ∀ s ∈ C01.samplesFrom w.start w.dt data,
      w.usedTs.getD (f * (L * P) * k) 0 ≤ s.1 →
      s.1 ≤ w.usedTs.getD (min ((f + 1) * (L * P)) m * k - 1) 0 → s.1 ∉ w.usedTs → s.2 = 0)
    (rs : List (Int × Int)) (hrs : w.frameRanges P L false (deltaTs w.dt) = some (some rs)) :
    sumOver ⟨w.start, w.dt, data⟩ rs = lineTotals (L * P) (pixelSums w.iw data 0) := by
  have hPL : 0 < L * P := Nat.mul_pos hL hP
  have hd := deltaTs_bounds w.dt (by omega) hmax
  rw [frameRanges_excl w hdt hs k hreg.pixelSize P L hPL _] at hrs
  cases hx : w.lineRangesExcl (L * P) (deltaTs w.dt) with
  | none => rw [hx] at hrs; cases hrs
  | some rs' =>
    rw [hx] at hrs
    simp only [Option.map_some, Option.some.injEq] at hrs
    subst hrs
    exact sum_over_ranges_eq_image_zero w data hlen hdt hs k m r hreg (L * P) hPL _ hd.1 hd.2.1 hzero rs' hx

/-- Non-vacuity: two frames of 2×2 one-sample pixels, one dead sample between the lines of a frame
    (count 0), two between the frames (counts 7), lead-in (count 5); `dt = 55`, so `δ = 54`. -/
example :
    let w : Wave := ⟨1000, 55, [0, 2, 2, 0, 2, 2, 0, 0, 2, 2, 0, 2, 2]⟩
    let data : List Int := [5, 1, 2, 0, 3, 4, 7, 7, 5, 6, 0, 7, 8]
    w.Regular 1 8 0 ∧
    (∀ f, f < numBlocks 8 (2 * 2) → ∀ s ∈ C01.samplesFrom w.start w.dt data,
      w.usedTs.getD (f * (2 * 2) * 1) 0 ≤ s.1 →
      s.1 ≤ w.usedTs.getD (min ((f + 1) * (2 * 2)) 8 * 1 - 1) 0 → s.1 ∉ w.usedTs → s.2 = 0) ∧
    w.frameRanges 2 2 false 54 = some (some [(1055, 1329), (1440, 1714)]) ∧
    sumOver ⟨1000, 55, data⟩ [(1055, 1329), (1440, 1714)] = [10, 26] ∧
    lineTotals (2 * 2) (pixelSums w.iw data 0) = [10, 26] := by
  refine ⟨⟨by decide, by decide, by decide, by decide⟩, by decide, by decide, by decide, by decide⟩

/-- every reported line range lies within the acquisition `[start, start + #samples·dt]` -/
theorem line_ranges_covered (w : Wave) (hdt : 0 < w.dt) (hs : 0 ≤ w.start) (k : Nat)
    (hk : w.pixelSize = some k) (P : Nat) (hP : 0 < P) (δ : Int) (h1 : 1 ≤ δ) (h2 : δ ≤ w.dt)
    (rs : List (Int × Int)) (hrs : w.lineRangesExcl P δ = some rs) :
    ∀ r ∈ rs, w.start ≤ r.1 ∧ r.2 ≤ w.start + w.iw.length * w.dt := by
  intro r hr
  rcases List.getElem_of_mem hr with ⟨l, hl, rfl⟩
  have hex := (line_range_exact w hdt hs k hk P hP δ h1 h2 rs hrs)
  have hk0 := pixelSize_pos w k hk
  have hlt : l * P < w.usedTs.length / k := (lt_numBlocks_iff _ _ _ hP).mp (by rw [← hex.1]; exact hl)
  have hm := mul_succ_le_of_lt_div _ _ _ hk0 hlt
  have he2 : min ((l + 1) * P) (w.usedTs.length / k) * k ≤ w.usedTs.length / k * k :=
    Nat.mul_le_mul_right _ (Nat.min_le_right _ _)
  have he3 := Nat.div_mul_le_self w.usedTs.length k
  have hP1 : (l + 1) * P = l * P + P := by rw [Nat.add_mul]; omega
  have he1 : (l * P + 1) * k ≤ min ((l + 1) * P) (w.usedTs.length / k) * k :=
    Nat.mul_le_mul_right _ (by omega)
  rw [Nat.add_mul] at he1
  rw [line_range_bounds w hdt hs k hk P hP δ rs hrs l hl]
  simp only
  rw [getD_eq _ _ (by omega), getD_eq _ _ (by omega)]
  constructor
  · exact usedTs_ge w hdt _ (List.getElem_mem _)
  · have hmem : w.usedTs[min ((l + 1) * P) (w.usedTs.length / k) * k - 1]'(by omega) ∈ w.allTs :=
      (usedTs_sublist w).subset (List.getElem_mem _)
    have := times_stop w.dt hdt _ _ _ hmem
    omega

/-- **Any longer channel on the same timeline**: reducing a channel that starts `pre` samples before the
    acquisition and ends `post` samples after it (arbitrary values there) over the reported line ranges
    gives the same sums as reducing the acquisition's own stream — so `sum_over_ranges_eq_image(_zero)`
    and `sum_over_frame_ranges_eq_image` hold verbatim for such channels (frames: blocks of `L·P`). -/
theorem sum_over_ranges_longer_channel (w : Wave) (data pre post : List Int)
    (hlen : data.length = w.iw.length) (hdt : 0 < w.dt) (hs : 0 ≤ w.start) (k : Nat)
    (hk : w.pixelSize = some k) (P : Nat) (hP : 0 < P) (δ : Int) (h1 : 1 ≤ δ) (h2 : δ ≤ w.dt)
    (rs : List (Int × Int)) (hrs : w.lineRangesExcl P δ = some rs) :
    sumOver ⟨w.start - pre.length * w.dt, w.dt, pre ++ (data ++ post)⟩ rs
      = sumOver ⟨w.start, w.dt, data⟩ rs :=
  sumOver_extend w.start w.dt hdt pre data post rs (by
    rw [hlen]; exact line_ranges_covered w hdt hs k hk P hP δ h1 h2 rs hrs)

example :
    let w : Wave := ⟨1000, 10, [0, 0, 1, 2, 1, 2, 0, 1, 2, 1, 2, 0, 1, 2, 1]⟩
    let data : List Int := [9, 8, 1, 2, 3, 4, 7, 5, 6, 7, 8, 6, 9, 10, 11]
    w.lineRangesExcl 2 9 = some [(1020, 1059), (1070, 1109), (1120, 1139)] ∧
    sumOver ⟨1000 - 2 * 10, 10, [50, 60] ++ (data ++ [70, 80, 90])⟩ [(1020, 1059), (1070, 1109), (1120, 1139)]
      = [10, 26, 19] := by
  refine ⟨by decide, by decide⟩

/-! ## Frames with dead time, duration against the ranges, the no-split hypothesis from the duration -/

/-- **Frames with dead time included**: with more than one reconstructed frame every range starts at
    the frame's first used sample and, for a constant frame period, `t1(f) = t0(f+1)` (exactly
    contiguous); a scan with a single reconstructed frame has no frame period and reports the exclusive
    range (`frame_range_exact`). -/
theorem frame_dead_time_contiguous (w : Wave) (hdt : 0 < w.dt) (k : Nat)
    (hk : w.pixelSize = some k) (P L : Nat) (hP : 0 < P) (hL : 0 < L) (δ : Int)
    (ri : List (Int × Int)) (hri : w.frameRanges P L true δ = some (some ri)) :
    (numBlocks (w.usedTs.length / k) (L * P) = 1 → w.frameRanges P L false δ = some (some ri)) ∧
    (numBlocks (w.usedTs.length / k) (L * P) ≠ 1 →
      ri.length = numBlocks (w.usedTs.length / k) (L * P) ∧
      (∀ (f : Nat) (hf : f < ri.length), ri[f].1 = w.usedTs.getD (f * (L * P) * k) 0) ∧
      (∀ (f : Nat) (hf : f + 1 < ri.length),
        w.usedTs.getD ((f + 1) * (L * P) * k) 0 - w.usedTs.getD (f * (L * P) * k) 0
          = w.usedTs.getD (1 * (L * P) * k) 0 - w.usedTs.getD (0 * (L * P) * k) 0 →
        ri[f].2 = ri[f + 1].1)) := by
  constructor
  · intro h1
    rw [← frameRanges_single_incl w k hdt hk P L δ h1]; exact hri
  · intro h1
    rw [frameRanges_incl_multi w k hdt hk P L δ h1] at hri
    exact dead_time_contiguous w hdt k hk (L * P) (Nat.mul_pos hL hP) ri hri

/-- **Duration = line time × number of reported line ranges**: for a regular wave the image has one
    pixel per complete pixel of the stream, hence as many lines as `line_timestamp_ranges()` reports
    ranges (replaces the definitional `duration_spec` by a statement against the ranges). -/
theorem duration_lines (w : Wave) (hdt : 0 < w.dt) (hs : 0 ≤ w.start) (k m r : Nat)
    (hreg : w.Regular k m r) (P : Nat) (hP : 0 < P) (δ : Int)
    (rs : List (Int × Int)) (hrs : w.lineRangesExcl P δ = some rs) :
    w.durationNs P = (w.lineTimeNs P).map fun (lt : Int) => lt * (rs.length : Int) := by
  have hk := hreg.pixelSize
  rw [lineRangesExcl_spec w hdt hs k hk P hP δ] at hrs
  injection hrs with hrs
  subst hrs
  simp only [List.length_map, List.length_range, Wave.numPix, hreg.numPix]
  unfold Wave.durationNs
  rw [hreg.numBoundaries]

example :
    let w : Wave := ⟨1000, 10, [0, 0, 1, 2, 1, 2, 0, 1, 2, 1, 2, 0, 1, 2, 1]⟩
    w.Regular 2 5 1 ∧ w.lineRangesExcl 2 9 = some [(1020, 1059), (1070, 1109), (1120, 1139)] ∧
    w.durationNs 2 = some 150 := by
  refine ⟨⟨by decide, by decide, by decide, by decide⟩, by decide, by decide⟩

/-- **The no-split hypothesis of `pixel_ts_spec` holds for every acquisition shorter than `2⁶³/k` ns**
    (292 years / k): `#samples · dt · k < 2⁶³` implies `hspan`, so per-pixel timestamps are the exact
    floor means, inside the pixel. -/
theorem pixel_ts_spec_duration (w : Wave) (hdt : 0 < w.dt) (k : Nat) (hk : w.pixelSize = some k)
    (hpix : (rowsOf k w.usedTs).flatten ≠ [])
    (hdur : (w.iw.length : Int) * w.dt * k ≤ I64MAX) :
    w.pixMean = some ((rowsOf k w.usedTs).map fun r => r.sum / (k : Int)) ∧
    ∀ r ∈ rowsOf k w.usedTs, r.length = k ∧ listMin r ≤ r.sum / (k : Int) ∧ r.sum / (k : Int) ≤ listMax r := by
  apply pixel_ts_spec w k hk hpix
  have hin : ∀ x ∈ (rowsOf k w.usedTs).flatten, w.start ≤ x ∧ x + w.dt ≤ w.start + w.iw.length * w.dt := by
    intro x hx
    have hxU := rowsOf_flatten_mem k _ x hx
    exact ⟨usedTs_ge w hdt x hxU, times_stop w.dt hdt _ _ x ((usedTs_sublist w).subset hxU)⟩
  have h1 := hin _ (listMax_mem _ hpix)
  have h2 := hin _ (listMin_mem _ hpix)
  have hle : listMax (rowsOf k w.usedTs).flatten - listMin (rowsOf k w.usedTs).flatten
      ≤ (w.iw.length : Int) * w.dt := by omega
  have := Int.mul_le_mul_of_nonneg_right hle (show (0 : Int) ≤ (k : Int) by omega)
  omega

example :
    let w : Wave := ⟨1000, 10, [0, 0, 1, 2, 1, 2, 1, 2, 0, 0, 0, 1, 2]⟩
    w.pixelSize = some 2 ∧ (rowsOf 2 w.usedTs).flatten ≠ [] ∧
      (w.iw.length : Int) * w.dt * (2 : Nat) ≤ I64MAX := by decide

/-! ## Pixel time, line time and duration as the doubles the code returns -/


/-- **`pixel_time_seconds` as a double**: for a wave whose first pixel has `k` used samples the value the
    code returns — `float(k·dt) * 1e-9`, three roundings in binary64 — is within `(1 ± 2⁻⁵³)³`
    (relative 3.4·10⁻¹⁶) of `k·dt·10⁻⁹` s. -/
theorem pixel_time_seconds_spec (w : Wave) (hdt : 0 < w.dt) (lead k : Nat) (hk : 0 < k) (tail : List Nat)
    (hiw : w.iw = List.replicate lead 0 ++ (pixelCodes k ++ tail)) :
    ∃ s, w.pixelTimeSec = some s ∧ Within3 s (k * w.dt.toNat) 1000000000 := by
  refine ⟨_, by unfold Wave.pixelTimeSec; rw [pixel_time_spec w lead k hk tail hiw]; rfl, ?_⟩
  show Within3 (secondsOf ((k : Int) * w.dt).toNat) _ _
  rw [toNat_natCast_mul k w.dt hdt]
  exact secondsOf_err _ (Nat.mul_pos hk (by omega))

/-- **`line_time_seconds` as a double**: for a regular first line the value the code returns is within
    `(1 ± 2⁻⁵³)³` of `(P·k + dead)·dt·10⁻⁹` s, the line period the info wave encodes
    (`line_time_spec`: `= t0(1) − t0(0)`). -/
theorem line_time_seconds_spec (w : Wave) (hdt : 0 < w.dt) (lead k P dead : Nat) (more rest : List Nat)
    (c : Nat) (h : FirstLine w lead k P dead more rest c) :
    ∃ s, w.lineTimeSec P = some s ∧ Within3 s ((P * k + dead) * w.dt.toNat) 1000000000 := by
  refine ⟨_, by unfold Wave.lineTimeSec; rw [(line_time_spec w lead k P dead more rest c h).1]; rfl, ?_⟩
  show Within3 (secondsOf (((P * k + dead : Nat) : Int) * w.dt).toNat) _ _
  rw [toNat_natCast_mul _ w.dt hdt]
  exact secondsOf_err _ (Nat.mul_pos (Nat.lt_of_lt_of_le (Nat.mul_pos h.hP h.hk) (Nat.le_add_right _ _)) (by omega))

/-- **`duration` as a double**: the line time (a double `lt`) times the number of image lines, two more
    roundings: within `(1 ± 2⁻⁵³)²` of `lt · #lines`. -/
theorem duration_seconds_spec (w : Wave) (P : Nat) (ns : Int) (hns : w.lineTimeNs P = some ns)
    (hpos : 0 < ns) (hl : 0 < numBlocks w.numBoundaries P) :
    ∃ d, w.durationSec P = some d ∧
      Within2 d ((secondsOf ns.toNat).1 * numBlocks w.numBoundaries P) (secondsOf ns.toNat).2 := by
  refine ⟨_, by unfold Wave.durationSec; rw [hns]; rfl, ?_⟩
  have hs := secondsOf_err ns.toNat (by omega)
  have h1 : 0 < (secondsOf ns.toNat).1 := by
    rcases Nat.eq_zero_or_pos (secondsOf ns.toNat).1 with h0 | h0
    · have h3 := hs.2.2
      rw [h0] at h3
      have : 0 < ns.toNat * (secondsOf ns.toNat).2 := Nat.mul_pos (by omega) hs.1
      omega
    · exact h0
  exact timesNat_err _ _ h1 hs.1 hl

example :
    let w : Wave := ⟨1000, 10, [0, 0, 1, 2, 1, 2, 1, 2, 0, 0, 0, 1, 2]⟩
    w.lineTimeNs 3 = some 90 ∧ 0 < numBlocks w.numBoundaries 3 := by decide

/-! ## The 1-D mean on arbitrary int64 arrays -/


/-- **No overflow for arbitrary int64 arrays whose span fits int64** (generalises `tsMean_no_overflow`
    from non-negative timestamps): if every value is an int64 and `max − min < 2⁶³`, every integer computed
    on the way lies in int64 (the shifted values and all partial results even in `[0, 2⁶³)`). -/
theorem tsMean_no_overflow_span (a : List Int) (hne : a ≠ [])
    (hb : ∀ x ∈ a, I64MIN ≤ x ∧ x ≤ I64MAX) (hspan : listMax a - listMin a ≤ I64MAX) :
    ∀ y ∈ tsMeanTrace a, I64MIN ≤ y ∧ y ≤ I64MAX := by
  have hmin := listMin_mem a hne
  have hmax := listMax_mem a hne
  have hlen : 0 < a.length := List.length_pos_iff.mpr hne
  have hsh := shifted_bounds a
  have hI : I64MIN ≤ 0 := by decide
  intro y hy
  simp only [tsMeanTrace, List.mem_append, List.mem_singleton] at hy
  rcases hy with (hy | hy) | hy
  · have := hsh y hy; omega
  · have := intMeanTrace_bounds a.length (listMax a - listMin a) hspan _ hsh (by simp) (by omega) y hy
    omega
  · subst hy
    have b := intMean_bounds a.length (by omega) _ (fun x hx => (hsh x hx).1)
    have h4 := sum_le_length_mul _ (listMax a - listMin a) (fun x hx => (hsh x hx).2)
    simp only [List.length_map] at h4
    have h6 : (a.map (· - listMin a)).sum / (a.length : Int) ≤ listMax a - listMin a :=
      Int.ediv_le_of_le_mul (by omega) (by
        have := Int.mul_comm (a.length : Int) (listMax a - listMin a); omega)
    have := (hb _ hmin).1; have := (hb _ hmax).2
    omega

example : (∀ x ∈ ([-5, I64MAX - 5, 0] : List Int), I64MIN ≤ x ∧ x ≤ I64MAX) ∧
    listMax [-5, I64MAX - 5, 0] - listMin [-5, I64MAX - 5, 0] ≤ I64MAX := by decide

/-- The span hypothesis is necessary: for `[-1, 2⁶³−1]` (both int64) the shifted array `a − min(a)`
    already contains `2⁶³`, outside int64 (kernel-checked).  Not a timestamp array: timestamps are
    non-negative, so their span always fits. -/
theorem span_necessary_witness :
    (∀ x ∈ ([-1, I64MAX] : List Int), I64MIN ≤ x ∧ x ≤ I64MAX) ∧
    ¬ ∀ y ∈ ([-1, I64MAX] : List Int).map (· - listMin [-1, I64MAX]), y ≤ I64MAX := by decide

/-- the number of splits of the 1-D mean is at most `n − 1`, so `tsMean_floor_split` gives
    `⌊mean⌋ − (n − 1) ≤ timestamp_mean(a) ≤ ⌊mean⌋` for every array -/
theorem tsMean_floor_split_n (a : List Int) (r : Int) (h : tsMean a = some r) :
    a.sum / a.length - ((a.length - 1 : Nat) : Int) ≤ r ∧ r ≤ a.sum / a.length := by
  have b := tsMean_floor_split a r h
  have := intMeanSplits_le (a.map (· - listMin a))
  simp only [List.length_map] at this
  have : (intMeanSplits (a.map (· - listMin a)) : Int) ≤ ((a.length - 1 : Nat) : Int) := Int.ofNat_le.mpr this
  omega

/-! ## The hypotheses of the raw-stream and total theorems, established by the geometry -/


/-- **Raw-stream exactness from the shape of the info wave** (`line_range_exact_raw` without its
    semantic hypothesis): when the wave has dead time only between lines (`LinesOk`), every line range
    the code reports selects from the raw sample stream exactly the samples of that line's complete
    pixels. -/
theorem line_range_exact_raw_shape (w : Wave) (hdt : 0 < w.dt) (hmax : w.dt ≤ 1000000000000000)
    (hs : 0 ≤ w.start) (k : Nat) (hk : w.pixelSize = some k) (P : Nat) (hP : 0 < P)
    (hok : LinesOk (P * k) w.iw)
    (rs : List (Int × Int)) (hrs : w.lineRangesExcl P (deltaTs w.dt) = some rs) (l : Nat)
    (hl : l < rs.length) :
    w.allTs.filter (fun t => decide (rs[l].1 ≤ t) && decide (t < rs[l].2))
      = blockSamples w.usedTs k P l := by
  have hd := deltaTs_bounds w.dt (by omega) hmax
  have hex := line_range_exact w hdt hs k hk P hP _ hd.1 hd.2.1 rs hrs
  exact line_range_exact_raw w hdt hs k hk P hP _ hd.1 hd.2.1 rs hrs l hl
    (hcont_of_linesOk w hdt k hk P hP hok l (by rw [← hex.1]; exact hl))

/-- **The C02 kymograph geometries establish every hypothesis**: for the info wave of any geometry
    (lead-in, `k` samples per pixel, `P` pixels per line, any dead time, any number of lines, tail),
    truncated at any sample after its first complete pixel, any start `≥ 0`, any period up to 10¹⁵ ns and
    any photon counts: (1) every reported line range selects from the raw stream exactly its line's
    samples, and (2) summing the photon stream over the reported ranges gives the image's column totals. -/
theorem kymo_geometry_ranges (w : Wave) (data : List Int) (hlen : data.length = w.iw.length)
    (hdt : 0 < w.dt) (hmax : w.dt ≤ 1000000000000000) (hs : 0 ≤ w.start)
    (lead k P dead lines tail n : Nat) (hk : 0 < k) (hP : 0 < P)
    (hiw : w.iw = (geomKymo lead k P dead lines tail).take n) (hpix : k ≤ w.subset.length)
    (rs : List (Int × Int)) (hrs : w.lineRangesExcl P (deltaTs w.dt) = some rs) :
    (∀ (l : Nat) (hl : l < rs.length),
      w.allTs.filter (fun t => decide (rs[l].1 ≤ t) && decide (t < rs[l].2))
        = blockSamples w.usedTs k P l) ∧
    sumOver ⟨w.start, w.dt, data⟩ rs = lineTotals P (pixelSums w.iw data 0) := by
  have hreg := geomKymo_regular w lead k P dead lines tail n hk hiw hpix
  have hok : LinesOk (P * k) w.iw := by rw [hiw]; exact geomKymo_linesOk lead k P dead lines tail n hk
  have hc := hcont_of_linesOk w hdt k hreg.pixelSize P hP hok
  refine ⟨fun l hl => line_range_exact_raw_shape w hdt hmax hs k hreg.pixelSize P hP hok rs hrs l hl, ?_⟩
  rw [hreg.numPix] at hc
  exact sum_over_ranges_eq_image_code w data hlen hdt hmax hs k _ _ hreg P hP hc rs hrs

/-- Non-vacuity: lead-in 2, two samples per pixel, two pixels per line, dead time 1, three lines, cut
    after 15 samples (third line unfinished). -/
example :
    let w : Wave := ⟨1000, 10, [0, 0, 1, 2, 1, 2, 0, 1, 2, 1, 2, 0, 1, 2, 1]⟩
    w.iw = (geomKymo 2 2 2 1 3 0).take 15 ∧ 2 ≤ w.subset.length := by decide

/-! ## Placement of the per-pixel timestamps of a scan -/


/-- Placement for scans: `Scan.timestamps[f][a][b]` is the timestamp of pixel `f·L·P + a·P + b`
    (line `a`, pixel `b` of frame `f`), with the two image axes swapped when the fast axis has the higher
    physical axis number; `0` for the padding of an unfinished last frame. -/
theorem scan_ts_placement (w : Wave) (P L : Nat) (flip : Bool) (pix : List Int) (h : w.pixMean = some pix) :
    w.scanTimestamps P L flip = some ((List.range (numBlocks pix.length (L * P))).map fun f =>
      if flip then (List.range P).map fun a => (List.range L).map fun b => pix.getD (f * (L * P) + (b * P + a)) 0
      else (List.range L).map fun a => (List.range P).map fun b => pix.getD (f * (L * P) + (a * P + b)) 0) := by
  unfold Wave.scanTimestamps
  rw [h, Option.map_some, scanFrames_eq]

example : (⟨1000, 10, [0, 2, 2, 0, 2, 2, 0, 0, 2, 2, 0, 2]⟩ : Wave).scanTimestamps 2 2 true
    = some [[[1010, 1040], [1020, 1050]], [[1080, 1110], [1090, 0]]] := by
  have h := (pixel_ts_spec ⟨1000, 10, [0, 2, 2, 0, 2, 2, 0, 0, 2, 2, 0, 2]⟩ 1 (by decide) (by decide)
    (by decide)).1
  rw [scan_ts_placement _ 2 2 true _ h]; decide

/-! ## Ranges with dead time included contain exactly their line / frame -/


/-- **Ranges with dead time included contain exactly their line** (every line that is followed by
    another one, constant line period): the used samples `t` with `t0(l) ≤ t < t1(l) = t0(l+1)` are exactly
    the samples of line `l` — all `P` pixels, none of line `l+1`; ranges are non-empty.  (The last range
    ends one period after its start; that it contains the last line's samples is checked by the oracle
    only.) -/
theorem incl_range_exact_inner (w : Wave) (hdt : 0 < w.dt) (k : Nat)
    (hk : w.pixelSize = some k) (P : Nat) (hP : 0 < P)
    (ri : List (Int × Int)) (hri : w.lineRangesIncl P = some (some ri)) (l : Nat) (hl : l + 1 < ri.length)
    (hper : w.usedTs.getD ((l + 1) * P * k) 0 - w.usedTs.getD (l * P * k) 0
      = w.usedTs.getD (1 * P * k) 0 - w.usedTs.getD (0 * P * k) 0) :
    ri[l].1 < ri[l].2 ∧
    w.usedTs.filter (fun t => decide (ri[l].1 ≤ t) && decide (t < ri[l].2))
      = blockSamples w.usedTs k P l := by
  have hd := dead_time_contiguous w hdt k hk P hP ri hri
  have hk0 := pixelSize_pos w k hk
  have hsep : Sep 1 id w.usedTs := (usedTs_sep w hdt).mono (by omega)
  have hlt' : (l + 1) * P < w.usedTs.length / k :=
    (lt_numBlocks_iff _ _ _ hP).mp (by rw [← hd.1]; exact hl)
  have hm' := mul_succ_le_of_lt_div _ _ _ hk0 hlt'
  have hP1 : (l + 1) * P = l * P + P := by rw [Nat.add_mul]; omega
  have hlt : l * P < w.usedTs.length / k := by omega
  have hpos : 0 < P * k := Nat.mul_pos hP hk0
  have hidx : (l + 1) * P * k = l * P * k + P * k := by rw [hP1, Nat.add_mul]
  have h1 := hd.2.1 l (by omega)
  have h2 := hd.2.2 l hl hper
  have h3 := hd.2.1 (l + 1) hl
  rw [h2, h3, h1, getD_eq _ _ (by omega), getD_eq _ _ (by omega)]
  constructor
  · have := hsep.getElem_lt (i := l * P * k) (j := (l + 1) * P * k) (by omega) (by omega)
    simp only [id] at this; omega
  · rw [blockSamples_eq _ _ _ _ hk0 hP hlt, Nat.min_eq_left (by omega)]
    have e : (l + 1) * P * k = ((l + 1) * P * k - 1) + 1 := by omega
    have hfw := filter_window_next w.usedTs hsep (l * P * k) ((l + 1) * P * k - 1) (by omega) (by omega)
    rw [← hfw]
    apply List.filter_congr
    intro t _
    congr 3
    exact getElem_congr_idx e  
example :
    let w : Wave := ⟨1000, 10, [0, 0, 1, 2, 1, 2, 1, 2, 0, 0, 0, 1, 2, 1]⟩
    w.pixelSize = some 2 ∧ w.lineRangesIncl 3 = some (some [(1020, 1110), (1110, 1200)]) ∧
    w.usedTs.getD ((0 + 1) * 3 * 2) 0 - w.usedTs.getD (0 * 3 * 2) 0
      = w.usedTs.getD (1 * 3 * 2) 0 - w.usedTs.getD (0 * 3 * 2) 0 ∧
    w.usedTs.filter (fun t => decide (1020 ≤ t) && decide (t < 1110)) = blockSamples w.usedTs 2 3 0 := by
  decide

/-- The same for scan frames (more than one reconstructed frame, constant frame period): the range of a
    frame that is followed by another one contains exactly the used samples of its `L·P` pixels. -/
theorem frame_incl_range_exact_inner (w : Wave) (hdt : 0 < w.dt) (k : Nat)
    (hk : w.pixelSize = some k) (P L : Nat) (hP : 0 < P) (hL : 0 < L) (δ : Int)
    (hmulti : numBlocks (w.usedTs.length / k) (L * P) ≠ 1)
    (ri : List (Int × Int)) (hri : w.frameRanges P L true δ = some (some ri)) (f : Nat)
    (hf : f + 1 < ri.length)
    (hper : w.usedTs.getD ((f + 1) * (L * P) * k) 0 - w.usedTs.getD (f * (L * P) * k) 0
      = w.usedTs.getD (1 * (L * P) * k) 0 - w.usedTs.getD (0 * (L * P) * k) 0) :
    ri[f].1 < ri[f].2 ∧
    w.usedTs.filter (fun t => decide (ri[f].1 ≤ t) && decide (t < ri[f].2))
      = blockSamples w.usedTs k (L * P) f := by
  rw [frameRanges_incl_multi w k hdt hk P L δ hmulti] at hri
  exact incl_range_exact_inner w hdt k hk (L * P) (Nat.mul_pos hL hP) ri hri f hf hper

/-! ### derived kymographs (strengthening round H)

  The model of a kymograph that went through slices / crops / flips / copies (`DK`) computes its line
  ranges with `Wave.lineRangesRows` on the rows its timestamp factory shows.  For the untouched object
  (all `P` rows) these ARE the ranges the theorems above speak about, so every range theorem transfers
  to the first object of a sequence and - because a time slice re-reads the info wave between two line
  starts - to every sliced object; crops and flips are tied by the correspondence check and judged by
  the oracle only. -/

theorem lineRangesRows_full (w : Wave) (P : Nat) (δ : Int) :
    w.lineRangesRows P (List.range P) δ false = w.lineRangesExcl P δ := by
  unfold Wave.lineRangesRows Wave.lineRangesExcl
  cases w.pixReduce listMin <;> cases w.pixReduce listMax <;> simp [kymoImage, pickRows_range_transposeN]

theorem lineRangesRows_full_incl (w : Wave) (P : Nat) (δ : Int) :
    (w.lineRangesRows P (List.range P) δ true).map some = w.lineRangesInclFixed P δ := by
  unfold Wave.lineRangesInclFixed Wave.lineRangesIncl Wave.lineRangesRows Wave.lineRangesExcl Wave.pixReduce
  cases w.pixelRows with
  | none => simp
  | some rows =>
    simp only [Option.map_some, kymoImage, pickRows_range_transposeN]
    cases h : (transposeN P (padRows P (rows.map listMin))).headD [] with
    | nil => simp
    | cons a t => cases t <;> simp

/-- the timestamps of the untouched object of a sequence are `Kymo.timestamps` of the wave; copies
    (and recalibration) change nothing -/
theorem dk_untouched_timestamps (w : Wave) (cnt : List Int) (P : Nat) (d : DK)
    (h : DK.init w cnt P 0 = .ok d) : d.timestamps P = w.kymoTimestamps P := by
  simp only [DK.init, if_true] at h
  cases h
  simp only [DK.timestamps, Wave.kymoTimestamps]
  cases w.pixMean with
  | none => rfl
  | some pix => simp [kymoImage, pickRows_range_transposeN]

end Verif.C03
