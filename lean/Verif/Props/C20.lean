import Verif.Lemmas.C20
