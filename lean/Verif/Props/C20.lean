/-
  C20 — property theorems (only statements + short proofs; helper lemmas live in Lemmas/C20).
  Every theorem is about the generic formulas of `Verif.Model.C20` read at `ℝ`; the same definitions, executed at
  `Float` by the driver, are compared with `lumicks/pylake/force_calibration` on every run (rel 1e-9).

  Not theorems (explored by the harness oracle only): equipartition and positivity of the hydrodynamic spectrum near
  a surface, the Stimson–Jeffery series (bounds, limit; finding F9 lives there — the 2-D coupling theorems take its
  factor as given), monotonicity of the salt-solution viscosity/density, the `brentq` molarity→molality conversion.
-/
import Verif.Lemmas.C20
import Verif.Lemmas.C20D
import Verif.Lemmas.C20Stimson

namespace Verif.C20
open Verif Filter Topology MeasureTheory Set

/-! ## Spectral models -/

/-- The Lorentzian is positive. -/
theorem lorentzian_pos (f fc D : ℝ) (hD : 0 < D) (hfc : 0 < fc) : 0 < lorentzian f fc D := by
  rw [lorentzian_real]; positivity

example : 0 < lorentzian (1000 : ℝ) 500 2 := lorentzian_pos _ _ _ (by norm_num) (by norm_num)

/-- Equipartition: the one-sided Lorentzian integrated over all frequencies is `D / (2π f_c)`. -/
theorem lorentzian_equipartition (fc D : ℝ) (hfc : 0 < fc) :
    ∫ f in Ioi (0:ℝ), lorentzian f fc D = D / (2 * Real.pi * fc) := by
  have hpi : Real.pi ≠ 0 := Real.pi_ne_zero
  have hfun : ∀ f : ℝ, lorentzian f fc D =
      (D / (Real.pi ^ 2 * fc ^ 2)) * (fun u : ℝ => (1 + u ^ 2)⁻¹) (fc⁻¹ * f) := by
    intro f
    rw [lorentzian_real]
    have : (1 + (fc⁻¹ * f) ^ 2) = (f ^ 2 + fc ^ 2) / fc ^ 2 := by field_simp; ring
    simp only [this]
    field_simp
  simp_rw [hfun]
  rw [integral_const_mul]
  rw [integral_comp_mul_left_Ioi (fun u : ℝ => (1 + u ^ 2)⁻¹) 0 (inv_pos.mpr hfc)]
  simp only [mul_zero, inv_inv, smul_eq_mul]
  rw [integral_Ioi_inv_one_add_sq, Real.arctan_zero]
  field_simp
  ring

example : ∫ f in Ioi (0:ℝ), lorentzian f 1000 3 = 3 / (2 * Real.pi * 1000) :=
  lorentzian_equipartition 1000 3 (by norm_num)

/-- Diode filter: `α² < g ≤ 1` for `0 ≤ α < 1`, every frequency and every roll-off frequency. -/
theorem g_diode_bounds (f fd a : ℝ) (h0 : 0 ≤ a) (h1 : a < 1) :
    a ^ 2 < gDiode f fd a ∧ gDiode f fd a ≤ 1 := by
  rw [gDiode_real]
  have ha : 0 < 1 - a ^ 2 := by nlinarith
  have hx : 0 < 1 + (f / fd) ^ 2 := by positivity
  constructor
  · have : 0 < (1 - a ^ 2) / (1 + (f / fd) ^ 2) := div_pos ha hx
    linarith
  · have : (1 - a ^ 2) / (1 + (f / fd) ^ 2) ≤ 1 - a ^ 2 := by
      apply div_le_self ha.le
      nlinarith [sq_nonneg (f / fd)]
    linarith

example : (0.3:ℝ) ^ 2 < gDiode 5000 14000 0.3 ∧ gDiode (5000:ℝ) 14000 0.3 ≤ 1 :=
  g_diode_bounds _ _ _ (by norm_num) (by norm_num)

/-- The filter with FIXED diode parameters (`calibrate_force(..., fixed_diode=…, fixed_alpha=…)`) is the published diode
    filter at the fixed values, the remaining ones taken from the call — for every fixed value, `α = 0` included. -/
theorem fixed_diode_is_g_diode (fixFd fixA : Option ℝ) (fd a f : ℝ) :
    fixedDiode fixFd fixA (freePars fixFd fixA fd a) f = some (gDiode f (fixFd.getD fd) (fixA.getD a)) := by
  cases fixFd <;> cases fixA <;> rfl

/-- … so it obeys the bounds of the diode filter. -/
theorem fixed_diode_bounds (fixFd fixA : Option ℝ) (fd a f : ℝ) (h0 : 0 ≤ fixA.getD a) (h1 : fixA.getD a < 1) :
    ∃ g, fixedDiode fixFd fixA (freePars fixFd fixA fd a) f = some g ∧ (fixA.getD a) ^ 2 < g ∧ g ≤ 1 :=
  ⟨_, fixed_diode_is_g_diode fixFd fixA fd a f, g_diode_bounds _ _ _ h0 h1⟩

/-- the relaxation factor fixed at 0, the roll-off frequency free: a pure low-pass filter with values in `(0, 1]` -/
example : ∃ g, fixedDiode (none : Option ℝ) (some 0) [14000] 5000 = some g ∧ 0 < g ∧ g ≤ 1 := by
  have := fixed_diode_bounds none (some 0) 14000 0.3 5000 (by simp) (by simp)
  simpa [freePars] using this

/-- Aliasing: the left fold of `alias_spectrum` is the sum of the spectrum shifted by every multiple
    `i · f_s`, `−n ≤ i ≤ n` (independent specification: a `Finset` sum over the integer interval). -/
theorem alias_is_sum_of_shifts (psd : ℝ → ℝ) (fs : ℝ) (n : ℕ) (f : ℝ) :
    aliasSpectrum psd fs n f = ∑ i ∈ Finset.Icc (-(n : ℤ)) n, psd (f + (i : ℝ) * fs) := by
  rw [alias_eq_range, Int.Icc_eq_finset_map, Finset.sum_map]
  have : ((n : ℤ) + 1 - -(n : ℤ)).toNat = 2 * n + 1 := by omega
  rw [this]
  apply Finset.sum_congr rfl
  intro k _
  simp only [Function.Embedding.trans_apply, Nat.castEmbedding_apply, addLeftEmbedding_apply]
  push_cast
  ring_nf

/-- An aliased positive spectrum is positive. -/
theorem alias_pos (psd : ℝ → ℝ) (hpos : ∀ x, 0 < psd x) (fs : ℝ) (n : ℕ) (f : ℝ) :
    0 < aliasSpectrum psd fs n f := by
  rw [alias_is_sum_of_shifts]
  apply Finset.sum_pos (fun i _ => hpos _)
  exact ⟨0, by simp⟩

example : 0 < aliasSpectrum (fun x : ℝ => lorentzian x 500 2) 78125 10 1000 :=
  alias_pos _ (fun x => lorentzian_pos x 500 2 (by norm_num) (by norm_num)) _ _ _

/-- Aliasing a non-negative spectrum can only add power: the `i = 0` term is the spectrum itself. -/
theorem alias_ge_unaliased (psd : ℝ → ℝ) (hnn : ∀ x, 0 ≤ psd x) (fs : ℝ) (n : ℕ) (f : ℝ) :
    psd f ≤ aliasSpectrum psd fs n f := by
  rw [alias_is_sum_of_shifts]
  have h0 : (0 : ℤ) ∈ Finset.Icc (-(n : ℤ)) n := by simp
  have := Finset.single_le_sum (f := fun i : ℤ => psd (f + (i : ℝ) * fs)) (fun i _ => hnn _) h0
  simpa using this

example : lorentzian (1000:ℝ) 500 2 ≤ aliasSpectrum (fun x : ℝ => lorentzian x 500 2) 78125 10 1000 :=
  alias_ge_unaliased _ (fun x => (lorentzian_pos x 500 2 (by norm_num) (by norm_num)).le) _ _ _

/-- Motion blur never increases a non-negative spectrum (`sinc² ≤ 1`, with NumPy's `sinc`). -/
theorem motion_blur_le (psd : ℝ → ℝ) (T f : ℝ) (h : 0 ≤ psd f) : motionBlur psd T f ≤ psd f := by
  unfold motionBlur
  have := sinc_sq_le_one (f * T)
  nlinarith

/-- … and keeps it non-negative. -/
theorem motion_blur_nonneg (psd : ℝ → ℝ) (T f : ℝ) (h : 0 ≤ psd f) : 0 ≤ motionBlur psd T f := by
  unfold motionBlur
  exact mul_nonneg h (sinc_sq_nonneg _)

example : motionBlur (fun x : ℝ => lorentzian x 500 2) 1e-3 1000 ≤ lorentzian (1000:ℝ) 500 2 :=
  motion_blur_le _ _ _ (lorentzian_pos _ _ _ (by norm_num) (by norm_num)).le

/-- Wrappers compose on a model object: a later step wraps the spectral density that already carries every earlier
    step — none is dropped, whatever the order. -/
theorem wrap_chain_keeps_earlier_steps (ws : List (Wrapper ℝ)) (w : Wrapper ℝ) (psd : ℝ → ℝ) :
    wrapChain (ws ++ [w]) psd = w.apply (wrapChain ws psd) := wrapChain_append_single ws w psd

/-- The camera chain `model._motion_blur(T)._alias_model(f_s, n)`: the aliases of the BLURRED spectrum,
    `Σ_i P(f + i f_s) · sinc²((f + i f_s) T)`. -/
theorem blur_then_alias_is_sum_of_blurred_shifts (psd : ℝ → ℝ) (T fs : ℝ) (n : ℕ) (f : ℝ) :
    wrapChain [.blur T, .aliasing fs n] psd f =
      ∑ i ∈ Finset.Icc (-(n : ℤ)) n,
        psd (f + (i : ℝ) * fs) * (sinc ((f + (i : ℝ) * fs) * T) * sinc ((f + (i : ℝ) * fs) * T)) := by
  simp only [wrapChain, List.foldl_cons, List.foldl_nil, Wrapper.apply]
  rw [alias_is_sum_of_shifts]
  rfl

/-- The other order, `model._alias_model(f_s, n)._motion_blur(T)`: the aliased spectrum blurred as a whole. -/
theorem alias_then_blur_is_blurred_sum_of_shifts (psd : ℝ → ℝ) (T fs : ℝ) (n : ℕ) (f : ℝ) :
    wrapChain [.aliasing fs n, .blur T] psd f =
      (∑ i ∈ Finset.Icc (-(n : ℤ)) n, psd (f + (i : ℝ) * fs)) * (sinc (f * T) * sinc (f * T)) := by
  simp only [wrapChain, List.foldl_cons, List.foldl_nil, Wrapper.apply, motionBlur]
  rw [alias_is_sum_of_shifts]

/-- Any chain of wrappers keeps a non-negative spectrum non-negative. -/
theorem wrap_chain_nonneg (ws : List (Wrapper ℝ)) (psd : ℝ → ℝ) (hnn : ∀ x, 0 ≤ psd x) :
    ∀ x, 0 ≤ wrapChain ws psd x := by
  induction ws using List.reverseRecOn with
  | nil => simpa [wrapChain] using hnn
  | append_singleton ws w ih =>
    intro x
    rw [wrapChain_append_single]
    cases w with
    | blur T => exact motion_blur_nonneg _ _ _ (ih x)
    | aliasing fs n => exact (ih x).trans (alias_ge_unaliased _ ih _ _ _)

example : 0 ≤ wrapChain [.blur 2e-3, .aliasing 500 20] (fun x : ℝ => lorentzian x 120 0.5) 249 :=
  wrap_chain_nonneg _ _ (fun x => (lorentzian_pos x 120 0.5 (by norm_num) (by norm_num)).le) _

/-- A motion-blur step never raises, an aliasing step never lowers, the (non-negative) spectrum it wraps. -/
theorem wrap_chain_step_order (ws : List (Wrapper ℝ)) (psd : ℝ → ℝ) (hnn : ∀ x, 0 ≤ psd x) (T fs : ℝ) (n : ℕ)
    (f : ℝ) :
    wrapChain (ws ++ [.blur T]) psd f ≤ wrapChain ws psd f ∧
      wrapChain ws psd f ≤ wrapChain (ws ++ [.aliasing fs n]) psd f := by
  rw [wrapChain_append_single, wrapChain_append_single]
  exact ⟨motion_blur_le _ _ _ (wrap_chain_nonneg ws psd hnn f),
    alias_ge_unaliased _ (wrap_chain_nonneg ws psd hnn) _ _ _⟩

example : wrapChain ([.blur 2e-3] ++ [.blur 1e-3]) (fun x : ℝ => lorentzian x 120 0.5) 249 ≤
    wrapChain [.blur 2e-3] (fun x : ℝ => lorentzian x 120 0.5) 249 :=
  (wrap_chain_step_order _ _ (fun x => (lorentzian_pos x 120 0.5 (by norm_num) (by norm_num)).le) 1e-3 0 0 249).1

/-- Carrying a drag coefficient over (`_set_drag`) changes what the model reports as its drag, not the spectrum: bead
    radius, densities, the distance to the surface (in metres) and the bulk drag bound at construction all stay. -/
theorem set_drag_keeps_spectrum (m : Passive ℝ) (g f fc D fd a : ℝ) :
    (m.setDrag g).call f fc D fd a = m.call f fc D fd a ∧ (m.setDrag g).dragCoeff = g ∧
      (m.setDrag g).drag = g * m.dragCorrection := ⟨rfl, rfl, rfl⟩

/-- The hydrodynamically correct spectrum in bulk is positive at every positive frequency. -/
theorem hydro_bulk_pos (f fc D g R rhoS rhoB : ℝ) (hf : 0 < f) (hD : 0 < D) (hg : 0 < g) (hR : 0 < R)
    (hrho : 0 < rhoS) : 0 < hydroPsd f fc D g R rhoS rhoB none := by
  have hnu := frequencyNu_pos g rhoS R hg hrho hR
  rw [hydroPsd_bulk _ _ _ _ _ _ _ hf.le hnu]
  have hs : 0 ≤ Real.sqrt (f / frequencyNu g rhoS R) := Real.sqrt_nonneg _
  have hpi := Real.pi_pos
  have h1 : 0 < 1 + Real.sqrt (f / frequencyNu g rhoS R) := by linarith
  have hb : 0 < (f * (1 + Real.sqrt (f / frequencyNu g rhoS R))) ^ 2 := by positivity
  apply div_pos
  · positivity
  · positivity

example : 0 < hydroPsd (1000:ℝ) 500 2 1e-8 5e-7 997 1060 none :=
  hydro_bulk_pos _ _ _ _ _ _ _ (by norm_num) (by norm_num) (by norm_num) (by norm_num) (by norm_num)

/-- What `PassiveCalibrationModel.__call__` returns without the hydrodynamic correction (Lorentzian × diode filter,
    or the bare Lorentzian for a fast sensor) is positive for `D, f_c > 0` and `0 ≤ α < 1`. -/
theorem passive_lorentzian_pos (m : Passive ℝ) (hh : m.cfg.hydro = false) (f fc D fd a : ℝ) (hD : 0 < D)
    (hfc : 0 < fc) (h0 : 0 ≤ a) (h1 : a < 1) : 0 < m.call f fc D fd a := by
  have hl := lorentzian_pos f fc D hD hfc
  have hg := (g_diode_bounds f fd a h0 h1).1
  have ha : 0 ≤ a ^ 2 := by positivity
  simp only [Passive.call, Passive.physical, hh, Bool.false_eq_true, if_false]
  split
  · norm_num; exact hl
  · exact mul_pos hl (by linarith)

example (m : Passive ℝ) (hh : m.cfg.hydro = false) : 0 < m.call 1000 500 2 14000 0.3 :=
  passive_lorentzian_pos m hh _ _ _ _ _ (by norm_num) (by norm_num) (by norm_num) (by norm_num)

/-! ## Wall corrections (Faxén lateral, Brenner axial) -/

/-- The Faxén correction exceeds one for every distance `h ≥ R` (contact included). -/
theorem faxen_gt_one (h R : ℝ) (hR : 0 < R) (hh : R ≤ h) : 1 < faxen h R := by
  rw [faxen_real]
  have hx0 : 0 < R / h := div_pos hR (by linarith)
  have hx1 : R / h ≤ 1 := (div_le_one (by linarith)).mpr hh
  rw [lt_div_iff₀ (faxenP_pos _ hx0.le hx1)]
  linarith [faxenP_lt_one _ hx0 hx1]

example : 1 < faxen (1:ℝ) 1 := faxen_gt_one 1 1 (by norm_num) (by norm_num)

/-- … and decreases strictly with the distance from the surface. -/
theorem faxen_antitone_in_distance (R h₁ h₂ : ℝ) (hR : 0 < R) (h1 : R ≤ h₁) (h12 : h₁ < h₂) :
    faxen h₂ R < faxen h₁ R := by
  rw [faxen_real, faxen_real]
  have hh1 : 0 < h₁ := by linarith
  have hh2 : 0 < h₂ := by linarith
  have hx : 0 ≤ R / h₂ := (div_pos hR hh2).le
  have hxy : R / h₂ < R / h₁ := div_lt_div_of_pos_left hR hh1 h12
  have hy : R / h₁ ≤ 1 := (div_le_one hh1).mpr h1
  have hlt := faxenP_strictAnti _ _ hx hxy hy
  have hpos := faxenP_pos _ (hx.trans hxy.le) hy
  exact one_div_lt_one_div_of_lt hpos hlt

example : faxen (3:ℝ) 1 < faxen (2:ℝ) 1 := faxen_antitone_in_distance 1 2 3 (by norm_num) (by norm_num) (by norm_num)

/-- … down to one, far from the surface. -/
theorem faxen_tends_to_one (R : ℝ) : Tendsto (fun h => faxen h R) atTop (𝓝 1) := by
  have h := tendsto_of_ratio _ inv_faxenP_continuousAt R
  have e : (1 : ℝ) / faxenP 0 = 1 := by unfold faxenP; norm_num
  simp only [e] at h
  exact h.congr (fun h => (faxen_real h R).symm)

/-- The Brenner (axial) correction exceeds one for every distance `h > R` (its denominator `(1 − x) q(x)`
    vanishes at contact, `q > 0` on `[0, 1]`). -/
theorem brenner_gt_one (h R : ℝ) (hR : 0 < R) (hh : R < h) : 1 < brenner h R := by
  rw [brenner_real]
  have hx0 : 0 < R / h := div_pos hR (by linarith)
  have hx1 : R / h < 1 := (div_lt_one (by linarith)).mpr hh
  rw [lt_div_iff₀ (brennerP_pos _ hx0.le hx1)]
  linarith [brennerP_lt_one _ hx0 hx1.le]

example : 1 < brenner (1.5:ℝ) 1 := brenner_gt_one _ _ (by norm_num) (by norm_num)

/-- The axial correction is at least the lateral one. -/
theorem brenner_ge_faxen (h R : ℝ) (hR : 0 < R) (hh : R < h) : faxen h R ≤ brenner h R := by
  rw [brenner_real, faxen_real]
  have hx0 : 0 < R / h := div_pos hR (by linarith)
  have hx1 : R / h < 1 := (div_lt_one (by linarith)).mpr hh
  exact one_div_le_one_div_of_le (brennerP_pos _ hx0.le hx1) (brennerP_le_faxenP _ hx0.le hx1.le)

example : faxen (1.5:ℝ) 1 ≤ brenner (1.5:ℝ) 1 := brenner_ge_faxen _ _ (by norm_num) (by norm_num)

/-- The axial correction decreases strictly with the distance from the surface (the derivative of its
    denominator is negative on `[0, 1]`). -/
theorem brenner_antitone_in_distance (R h₁ h₂ : ℝ) (hR : 0 < R) (h1 : R < h₁) (h12 : h₁ < h₂) :
    brenner h₂ R < brenner h₁ R := by
  rw [brenner_real, brenner_real]
  have hh1 : 0 < h₁ := by linarith
  have hh2 : 0 < h₂ := by linarith
  have hx : 0 ≤ R / h₂ := (div_pos hR hh2).le
  have hxy : R / h₂ < R / h₁ := div_lt_div_of_pos_left hR hh1 h12
  have hy : R / h₁ < 1 := (div_lt_one hh1).mpr h1
  have hlt := brennerP_strictAntiOn ⟨hx, (hxy.trans hy).le⟩ ⟨hx.trans hxy.le, hy.le⟩ hxy
  exact one_div_lt_one_div_of_lt (brennerP_pos _ (hx.trans hxy.le) hy) hlt

example : brenner (3:ℝ) 1 < brenner (2:ℝ) 1 :=
  brenner_antitone_in_distance 1 2 3 (by norm_num) (by norm_num) (by norm_num)

/-- The axial correction also tends to one far from the surface. -/
theorem brenner_tends_to_one (R : ℝ) : Tendsto (fun h => brenner h R) atTop (𝓝 1) := by
  have h := tendsto_of_ratio _ inv_brennerP_continuousAt R
  have e : (1 : ℝ) / brennerP 0 = 1 := by unfold brennerP; norm_num
  simp only [e] at h
  exact h.congr (fun h => (brenner_real h R).symm)

/-! ## Bead–bead coupling perpendicular to the line of centres (Goldman–Cox–Brenner) -/

/-- Both rotation variants lie strictly between 0 and 1 from contact (`d = 2R`) outwards. -/
theorem goldman_in_unit_interval (R d : ℝ) (rot : Bool) (hR : 0 < R) (hd : 2 * R ≤ d) :
    0 < goldman R d rot ∧ goldman R d rot < 1 := by
  have hd0 : 0 < d := by linarith
  have hx0 : 0 < R / d := div_pos hR hd0
  have hx1 : R / d ≤ 1 / 2 := by rw [div_le_div_iff₀ hd0 (by norm_num)]; linarith
  cases rot
  · rw [goldman_fix_real]; exact goldmanFixP_bounds _ hx0 hx1
  · rw [goldman_rot_real]; exact goldmanRotP_bounds _ hx0 hx1

example : 0 < goldman (1:ℝ) 2 true ∧ goldman (1:ℝ) 2 true < 1 :=
  goldman_in_unit_interval 1 2 true (by norm_num) (by norm_num)

/-- … and tend to one with the separation. -/
theorem goldman_tends_to_one (R : ℝ) (rot : Bool) : Tendsto (fun d => goldman R d rot) atTop (𝓝 1) := by
  cases rot
  · have h := tendsto_of_ratio _ goldmanFixP_continuousAt R
    have e : goldmanFixP 0 = 1 := by unfold goldmanFixP; norm_num
    rw [e] at h
    exact h.congr (fun d => (goldman_fix_real R d).symm)
  · have h := tendsto_of_ratio _ goldmanRotP_continuousAt R
    have e : goldmanRotP 0 = 1 := by unfold goldmanRotP; norm_num
    rw [e] at h
    exact h.congr (fun d => (goldman_rot_real R d).symm)

/-! ## Bead–bead coupling in 2-D (`coupling_correction_2d`): the decomposition for a pair, and for arrays of pairs -/

/-- The 2-D factor of a bead pair is `c_aligned cos² θ + c_perpendicular sin² θ` for a horizontal oscillation (and with
    the weights exchanged for a vertical one), `θ` the angle of THIS pair's bead-bead axis. -/
theorem coupling_2d_decomposition (dx dy ca cp : ℝ) (isY : Bool) (h : dx ≠ 0 ∨ dy ≠ 0) :
    coupling2d dx dy ca cp isY =
      if isY then ca * (dy ^ 2 / (dx ^ 2 + dy ^ 2)) + cp * (dx ^ 2 / (dx ^ 2 + dy ^ 2))
      else ca * (dx ^ 2 / (dx ^ 2 + dy ^ 2)) + cp * (dy ^ 2 / (dx ^ 2 + dy ^ 2)) := by
  cases isY
  · simpa using coupling2d_real_x dx dy ca cp h
  · simpa using coupling2d_real_y dx dy ca cp h

example : coupling2d (3:ℝ) 4 0.8 0.9 false = 0.8 * (3 ^ 2 / (3 ^ 2 + 4 ^ 2)) + 0.9 * (4 ^ 2 / (3 ^ 2 + 4 ^ 2)) := by
  simpa using coupling_2d_decomposition 3 4 0.8 0.9 false (Or.inl (by norm_num))

/-- With both one-dimensional factors in `(0, 1)` the 2-D factor lies in `(0, 1)`. -/
theorem coupling_2d_in_unit_interval (dx dy ca cp : ℝ) (isY : Bool) (h : dx ≠ 0 ∨ dy ≠ 0)
    (ha : 0 < ca ∧ ca < 1) (hp : 0 < cp ∧ cp < 1) :
    0 < coupling2d dx dy ca cp isY ∧ coupling2d dx dy ca cp isY < 1 := by
  obtain ⟨hx0, hx1, hy⟩ := coupling_weights dx dy h
  cases isY with
  | false =>
    rw [coupling2d_real_x _ _ _ _ h, hy]
    exact convex_unit ca cp _ hx0 hx1 ha hp
  | true =>
    rw [coupling2d_real_y _ _ _ _ h, hy]
    have := convex_unit cp ca _ hx0 hx1 hp ha
    constructor <;> [linarith [this.1]; linarith [this.2]]

example : 0 < coupling2d (3:ℝ) 4 0.8 0.9 true ∧ coupling2d (3:ℝ) 4 0.8 0.9 true < 1 :=
  coupling_2d_in_unit_interval 3 4 0.8 0.9 true (Or.inl (by norm_num)) (by norm_num) (by norm_num)

/-- The 2-D factor lies between the two one-dimensional factors: as both tend to one with separation, so does it. -/
theorem coupling_2d_between_the_1d_factors (dx dy ca cp : ℝ) (isY : Bool) (h : dx ≠ 0 ∨ dy ≠ 0) :
    min ca cp ≤ coupling2d dx dy ca cp isY ∧ coupling2d dx dy ca cp isY ≤ max ca cp := by
  obtain ⟨hx0, hx1, hy⟩ := coupling_weights dx dy h
  cases isY with
  | false =>
    rw [coupling2d_real_x _ _ _ _ h, hy]
    exact convex_between ca cp _ hx0 hx1
  | true =>
    rw [coupling2d_real_y _ _ _ _ h, hy]
    have := convex_between cp ca _ hx0 hx1
    rw [min_comm, max_comm]
    constructor <;> [linarith [this.1]; linarith [this.2]]

example : min (0.8:ℝ) 0.9 ≤ coupling2d (3:ℝ) 4 0.8 0.9 false ∧ coupling2d (3:ℝ) 4 0.8 0.9 false ≤ max (0.8:ℝ) 0.9 :=
  coupling_2d_between_the_1d_factors 3 4 0.8 0.9 false (Or.inl (by norm_num))

/-- Array arguments: entry `i` of the answer is the factor of pair `i` evaluated alone — it does not depend on which
    other pairs are passed in the same call. -/
theorem coupling_2d_vectorised_is_pairwise (dxs dys cas cps : List ℝ) (isY : Bool) (i : Nat)
    (h1 : i < dxs.length) (h2 : i < dys.length) (h3 : i < cas.length) (h4 : i < cps.length) :
    (coupling2dList dxs dys cas cps isY)[i]? = some (coupling2d dxs[i] dys[i] cas[i] cps[i] isY) := by
  simp [coupling2dList, h1, h2, h3, h4]

example : (coupling2dList [(3:ℝ), 1] [4, 0] [0.8, 0.7] [0.9, 0.6] false)[1]? = some (coupling2d (1:ℝ) 0 0.7 0.6 false) :=
  coupling_2d_vectorised_is_pairwise _ _ _ _ _ 1 (by simp) (by simp) (by simp) (by simp)

/-! ## Viscosity of water (Huber et al. 2009) -/

/-- The viscosity of water decreases strictly with temperature (every term `aᵢ x^{bᵢ}` has `aᵢ > 0 > bᵢ`),
    on the whole physical range `T > −273.15 °C` (hence on the model's validity range `−20 ≤ T < 110`). -/
theorem viscosity_water_antitone (T₁ T₂ : ℝ) (h0 : -273.15 < T₁) (h : T₁ < T₂) :
    viscosityWater T₂ < viscosityWater T₁ := by
  rw [viscosityWater_real, viscosityWater_real]
  have hx : (0:ℝ) < (T₁ + 273.15) / 300 := by apply div_pos <;> linarith
  have hxy : (T₁ + 273.15) / 300 < (T₂ + 273.15) / 300 := by apply div_lt_div_of_pos_right <;> linarith
  have t1 := rpow_term_strictAnti 280.68 (-1.9) _ _ (by norm_num) (by norm_num) hx hxy
  have t2 := rpow_term_strictAnti 511.45 (-7.7) _ _ (by norm_num) (by norm_num) hx hxy
  have t3 := rpow_term_strictAnti 61.131 (-19.6) _ _ (by norm_num) (by norm_num) hx hxy
  have t4 := rpow_term_strictAnti 0.45903 (-40) _ _ (by norm_num) (by norm_num) hx hxy
  linarith

example : viscosityWater (25:ℝ) < viscosityWater (20:ℝ) := viscosity_water_antitone 20 25 (by norm_num) (by norm_num)

/-- … and is positive. -/
theorem viscosity_water_pos (T : ℝ) (h0 : -273.15 < T) : 0 < viscosityWater T := by
  rw [viscosityWater_real]
  have hx : (0:ℝ) < (T + 273.15) / 300 := by apply div_pos <;> linarith
  have p1 := Real.rpow_pos_of_pos hx (-1.9)
  have p2 := Real.rpow_pos_of_pos hx (-7.7)
  have p3 := Real.rpow_pos_of_pos hx (-19.6)
  have p4 := Real.rpow_pos_of_pos hx (-40)
  positivity

example : 0 < viscosityWater (20:ℝ) := viscosity_water_pos 20 (by norm_num)

/-- Units: the published sum is in µPa·s and the factor `1e-6` turns it into Pa·s — at the reference temperature
    300 K (26.85 °C) every power is 1 and the value is the sum of the four coefficients, 853.72003 µPa·s. -/
theorem viscosity_units : viscosityWater (26.85 : ℝ) = 853.72003e-6 := by
  rw [viscosityWater_real]
  have : ((26.85 : ℝ) + 273.15) / 300 = 1 := by norm_num
  rw [this]
  simp only [Real.one_rpow]
  norm_num

/-! ## Limits of the hydrodynamic model (ext) -/

/-- The bulk complex drag `γ(f)/γ₀` tends to `1 + 0i` as `f → 0⁺`. -/
theorem hydro_low_frequency_limit (g rho R : ℝ) (hg : 0 < g) (hrho : 0 < rho) (hR : 0 < R) :
    Tendsto (fun f => complexDrag f g rho R none) (𝓝[≥] 0) (𝓝 (1, 0)) := by
  have hnu := frequencyNu_pos g rho R hg hrho hR
  set nu := frequencyNu g rho R with hnu_def
  have hc : Continuous (fun f : ℝ =>
      ((1 + Real.sqrt (f / nu), -Real.sqrt (f / nu) - 2 / 9 * (f / nu)) : ℝ × ℝ)) := by
    fun_prop
  have h0 : Tendsto (fun f : ℝ => ((1 + Real.sqrt (f / nu), -Real.sqrt (f / nu) - 2 / 9 * (f / nu)) : ℝ × ℝ))
      (𝓝[≥] 0) (𝓝 (1, 0)) := by
    have := (hc.tendsto 0).mono_left (nhdsWithin_le_nhds (s := Set.Ici 0))
    simpa using this
  apply h0.congr'
  filter_upwards [self_mem_nhdsWithin] with f hf
  exact (complexDrag_bulk f g rho R hf hnu).symm

example : Tendsto (fun f => complexDrag f (1e-8:ℝ) 997 5e-7 none) (𝓝[≥] 0) (𝓝 (1, 0)) :=
  hydro_low_frequency_limit _ _ _ (by norm_num) (by norm_num) (by norm_num)

/-- Hence the hydrodynamically correct spectrum (bulk) tends to the Lorentzian at low frequency: their ratio → 1. -/
theorem hydro_bulk_tends_to_lorentzian (fc D g R rhoS rhoB : ℝ) (hfc : 0 < fc) (hD : D ≠ 0) (hg : 0 < g)
    (hR : 0 < R) (hrho : 0 < rhoS) :
    Tendsto (fun f => hydroPsd f fc D g R rhoS rhoB none / lorentzian f fc D) (𝓝[≥] 0) (𝓝 1) := by
  have hnu := frequencyNu_pos g rhoS R hg hrho hR
  set nu := frequencyNu g rhoS R with hnu_def
  set fm := frequencyM g R rhoB with hfm_def
  have hpi := Real.pi_pos
  let H : ℝ → ℝ := fun f => D / Real.pi ^ 2 * (1 + Real.sqrt (f / nu)) /
        ((fc + f * ((-Real.sqrt (f / nu) - 2 / 9 * (f / nu)) - f / fm)) ^ 2 + (f * (1 + Real.sqrt (f / nu))) ^ 2)
  let L : ℝ → ℝ := fun f => (D / Real.pi ^ 2) / (f ^ 2 + fc ^ 2)
  have hH : ContinuousAt H 0 := by
    apply ContinuousAt.div
    · fun_prop
    · fun_prop
    · simp; positivity
  have hL : ContinuousAt L 0 := by
    apply ContinuousAt.div
    · fun_prop
    · fun_prop
    · simp; positivity
  have hL0 : L 0 ≠ 0 := by simp only [L]; norm_num; exact ⟨hD, hfc.ne'⟩
  have hHL : ContinuousAt (fun f => H f / L f) 0 := hH.div hL hL0
  have e : H 0 / L 0 = 1 := by
    simp only [H, L]; norm_num; exact ⟨hD, hfc.ne'⟩
  have h0 : Tendsto (fun f => H f / L f) (𝓝[≥] 0) (𝓝 1) := by
    have := hHL.tendsto.mono_left (nhdsWithin_le_nhds (s := Set.Ici 0))
    rwa [e] at this
  apply h0.congr'
  filter_upwards [self_mem_nhdsWithin] with f hf
  simp only [H, L]
  rw [hydroPsd_bulk _ _ _ _ _ _ _ hf hnu, lorentzian_real]

example : Tendsto (fun f => hydroPsd f 500 2 (1e-8:ℝ) 5e-7 997 1060 none / lorentzian f 500 2) (𝓝[≥] 0) (𝓝 1) :=
  hydro_bulk_tends_to_lorentzian _ _ _ _ _ _ (by norm_num) (by norm_num) (by norm_num) (by norm_num) (by norm_num)

/-! ## Salt solutions join pure water (ext) -/

/-- At zero molality the Kestin–Khalifa–Correia model is its own pure-water term: the concentration exponents
    vanish, the pressure coefficient is the water coefficient `β_w`. -/
theorem salt_joins_water (t p : ℝ) :
    zeroPressureViscosity t 0 = muW t ∧ pressureFactor t 0 = betaW t ∧
    saltViscosity t 0 p = 1e-6 * muW t * (1 + betaW t * p / 1000) := by
  refine ⟨zpv_zero t, pf_zero t, ?_⟩
  simp only [saltViscosity, zpv_zero, pf_zero]
  norm_num

/-! ## The molarity → molality conversion of the public water functions -/

/-- The bisection that stands for `brentq` in the model keeps the sign change of the residual bracketed: after `k`
    halvings of `[lo, hi]` the answer is the midpoint of a bracket of width `(hi − lo) / 2^k` whose ends still have
    residuals of opposite sign — for a continuous residual it is within `(hi − lo) / 2^(k+1)` of a root.  The answer
    depends on nothing but the residual, i.e. on the temperature, molarity AND pressure of the query. -/
theorem bisect_brackets_sign_change (g : ℝ → ℝ) (k : ℕ) (lo hi : ℝ) (h : lo ≤ hi) (hlo : 0 ≤ g lo)
    (hhi : g hi ≤ 0) :
    ∃ a b, lo ≤ a ∧ a ≤ b ∧ b ≤ hi ∧ b - a = (hi - lo) / 2 ^ k ∧ 0 ≤ g a ∧ g b ≤ 0 ∧
      bisect g k lo hi = (a + b) / 2 := bisect_bracket g k lo hi h hlo hhi

example : ∃ a b, (0:ℝ) ≤ a ∧ a ≤ b ∧ b ≤ 6 ∧ b - a = (6 - 0) / 2 ^ 100 ∧ 0 ≤ (fun m => 3 - m) a ∧
    (fun m => 3 - m) b ≤ 0 ∧ bisect (fun m : ℝ => 3 - m) 100 0 6 = (a + b) / 2 :=
  bisect_brackets_sign_change _ 100 0 6 (by norm_num) (by norm_num) (by norm_num)

/-! ## Deepening round D -/

/-! ### NaCl solutions (Kestin–Khalifa–Correia): monotone in the concentration, joining pure water continuously -/

/-- Kestin Eq. 2–5: the zero-pressure viscosity of the solution increases strictly with the molality, over the whole
    validity range of the model (20–150 °C, 0–6 mol/kg). -/
theorem salt_zero_pressure_viscosity_increases_with_concentration (t m₁ m₂ : ℝ) (ht0 : 20 ≤ t) (ht1 : t ≤ 150)
    (h0 : 0 ≤ m₁) (h12 : m₁ < m₂) (h6 : m₂ ≤ 6) : zeroPressureViscosity t m₁ < zeroPressureViscosity t m₂ := by
  rw [zpv_real, zpv_real]
  obtain ⟨q0, q1⟩ := waterExp_bounds t ht0 ht1
  have hE := saltExp_strictMono (waterExp t) m₁ m₂ q0 q1 h0 h12 h6
  exact mul_lt_mul_of_pos_left ((Real.rpow_lt_rpow_left_iff (by norm_num : (1:ℝ) < 10)).mpr hE) (muW_pos t)

example : zeroPressureViscosity (25:ℝ) 0 < zeroPressureViscosity (25:ℝ) 1 :=
  salt_zero_pressure_viscosity_increases_with_concentration 25 0 1 (by norm_num) (by norm_num) (by norm_num)
    (by norm_num) (by norm_num)

/-- The viscosity `viscosity_of_water` answers for a salt solution (Eq. 1: zero-pressure value × pressure correction,
    in Pa·s) is positive and increases strictly with the molality at every temperature 20–150 °C and pressure 0–35 MPa:
    the zero-pressure value grows by ≥ 6.6 % per mol/kg, the pressure coefficient moves by ≤ 0.625 per mol/kg. -/
theorem salt_viscosity_increases_with_concentration (t p m₁ m₂ : ℝ) (ht0 : 20 ≤ t) (ht1 : t ≤ 150) (hp0 : 0 ≤ p)
    (hp1 : p ≤ 35) (h0 : 0 ≤ m₁) (h12 : m₁ < m₂) (h6 : m₂ ≤ 6) :
    saltViscosity t m₁ p < saltViscosity t m₂ p :=
  saltViscosity_strictMono t p m₁ m₂ ht0 ht1 hp0 hp1 h0 h12 h6

example : saltViscosity (25:ℝ) 0 0.101325 < saltViscosity (25:ℝ) 1 0.101325 :=
  salt_viscosity_increases_with_concentration 25 0.101325 0 1 (by norm_num) (by norm_num) (by norm_num) (by norm_num)
    (by norm_num) (by norm_num) (by norm_num)

/-- The density of the solution is positive and increases strictly with the molality (the specific volume of the
    correlation is a quadratic in the salt mass fraction whose derivative is negative on the validity range). -/
theorem salt_density_increases_with_concentration (t p m₁ m₂ : ℝ) (ht0 : 20 ≤ t) (ht1 : t ≤ 150) (hp0 : 0 ≤ p)
    (hp1 : p ≤ 35) (h0 : 0 ≤ m₁) (h12 : m₁ < m₂) (h6 : m₂ ≤ 6) :
    0 < saltDensity t m₁ p ∧ saltDensity t m₁ p < saltDensity t m₂ p := by
  rw [saltDensity_real, saltDensity_real]
  have k0 : (293.15:ℝ) ≤ t + 273.15 := by linarith
  have k1 : t + 273.15 ≤ (423.15:ℝ) := by linarith
  obtain ⟨a0, a1⟩ := wfrac_bounds m₁ h0 (by linarith)
  obtain ⟨b0, b1⟩ := wfrac_bounds m₂ (by linarith) h6
  have hw := wfrac_strictMono m₁ m₂ h0 h12
  have p1 := specVol_pos (t + 273.15) p (wfrac m₁) k0 k1 hp0 hp1 a0 a1
  have p2 := specVol_pos (t + 273.15) p (wfrac m₂) k0 k1 hp0 hp1 b0 b1
  have hlt := specVol_strictAnti (t + 273.15) p (wfrac m₁) (wfrac m₂) k0 k1 hp0 hp1 a0 hw b1
  exact ⟨one_div_pos.mpr (by linarith), one_div_lt_one_div_of_lt (by linarith) hlt⟩

example : saltDensity (25:ℝ) 0 0.101325 < saltDensity (25:ℝ) 1 0.101325 :=
  (salt_density_increases_with_concentration 25 0.101325 0 1 (by norm_num) (by norm_num) (by norm_num) (by norm_num)
    (by norm_num) (by norm_num) (by norm_num)).2


/-- The salt models join the pure-water values CONTINUOUSLY: as the molality tends to zero the viscosity tends to the
    model's own water term `μ_w(t)(1 + β_w(t) p/1000)` and the density to its value at `m = 0`, which is the pure-water
    part of the correlation (no mass-fraction term). -/
theorem salt_models_join_water_continuously (t p : ℝ) (ht0 : 20 ≤ t) (ht1 : t ≤ 150) (hp0 : 0 ≤ p) (hp1 : p ≤ 35) :
    Tendsto (fun m => saltViscosity t m p) (𝓝 0) (𝓝 (1e-6 * muW t * (1 + betaW t * p / 1000))) ∧
    Tendsto (fun m => saltDensity t m p) (𝓝 0) (𝓝 (saltDensity t 0 p)) ∧
    saltDensity t 0 p = 1 / (dT1 (t + 273.15) - dT2 (t + 273.15) * p - dT3 (t + 273.15) * p ^ 2
      - 0.5 * dT8 (t + 273.15) * p ^ 2) := by
  refine ⟨?_, ?_, ?_⟩
  · have h := (saltViscosity_continuous t p).tendsto 0
    rwa [(salt_joins_water t p).2.2] at h
  · have k0 : (293.15:ℝ) ≤ t + 273.15 := by linarith
    have k1 : t + 273.15 ≤ (423.15:ℝ) := by linarith
    have hpos := specVol_pos (t + 273.15) p (wfrac 0) k0 k1 hp0 hp1 (by rw [wfrac_zero]) (by rw [wfrac_zero]; norm_num)
    have hc : ContinuousAt (fun m => 1 / specVol (t + 273.15) p (wfrac m)) 0 := by
      apply ContinuousAt.div continuousAt_const _ (by linarith)
      have hw := wfrac_continuous
      unfold specVol
      fun_prop
    have := hc.tendsto
    simp only [← saltDensity_real] at this
    exact this
  · rw [saltDensity_real, wfrac_zero]; unfold specVol; ring_nf

example : Tendsto (fun m => saltDensity (25:ℝ) m 0.101325) (𝓝 0) (𝓝 (saltDensity 25 0 0.101325)) :=
  (salt_models_join_water_continuously 25 0.101325 (by norm_num) (by norm_num) (by norm_num) (by norm_num)).2.1


/-! ### The hydrodynamic model for small beads -/

/-- With the bead's own Stokes drag `γ₀ = 3πη·(2R)` the characteristic frequencies `f_ν = η/(πρR²)` and
    `f_m = 9η/(4πρ_bead R²)` grow without bound as `R → 0⁺`, and the hydrodynamically correct spectrum (bulk) tends
    to the Lorentzian at EVERY frequency `f ≥ 0`: their ratio → 1. -/
theorem hydro_bulk_small_bead_limit (f fc D eta rhoS rhoB : ℝ) (hf : 0 ≤ f) (hfc : 0 < fc) (hD : D ≠ 0)
    (heta : 0 < eta) (hrho : 0 < rhoS) :
    Tendsto (fun R => hydroPsd f fc D (sphereFriction eta (2 * R)) R rhoS rhoB none / lorentzian f fc D)
      (𝓝[>] 0) (𝓝 1) := by
  have hpi := Real.pi_pos
  -- r(R) = f / f_ν and f / f_m as functions of the radius
  let r : ℝ → ℝ := fun R => f * (Real.pi * rhoS * R ^ 2) / eta
  let q : ℝ → ℝ := fun R => f * (4 * Real.pi * R ^ 2 * rhoB) / (9 * eta)
  let H : ℝ → ℝ := fun R => D / Real.pi ^ 2 * (1 + Real.sqrt (r R)) /
        ((fc + f * ((-Real.sqrt (r R) - 2 / 9 * (r R)) - q R)) ^ 2 + (f * (1 + Real.sqrt (r R))) ^ 2)
  have hL0 : lorentzian f fc D ≠ 0 := by
    rw [lorentzian_real]
    have : 0 < f ^ 2 + fc ^ 2 := by positivity
    positivity
  have hH : ContinuousAt H 0 := by
    apply ContinuousAt.div
    · fun_prop
    · fun_prop
    · simp only [H, r, q]; norm_num; positivity
  have hHL : ContinuousAt (fun R => H R / lorentzian f fc D) 0 := hH.div continuousAt_const hL0
  have e : H 0 / lorentzian f fc D = 1 := by
    rw [lorentzian_real]
    simp only [H, r, q]
    norm_num
    have : f ^ 2 + fc ^ 2 ≠ 0 := by positivity
    field_simp
    ring
  have h0 : Tendsto (fun R => H R / lorentzian f fc D) (𝓝[>] 0) (𝓝 1) := by
    have := hHL.tendsto.mono_left (nhdsWithin_le_nhds (s := Set.Ioi 0))
    rwa [e] at this
  apply h0.congr'
  filter_upwards [self_mem_nhdsWithin] with R hR
  have hR' : 0 < R := hR
  have hnu : 0 < frequencyNu (sphereFriction eta (2 * R)) rhoS R := by
    rw [frequencyNu_stokes eta rhoS R heta hrho hR']; positivity
  rw [hydroPsd_bulk _ _ _ _ _ _ _ hf hnu, frequencyNu_stokes eta rhoS R heta hrho hR', frequencyM_stokes eta rhoB R hR']
  simp only [H, r, q]
  congr 3
  all_goals (try field_simp)


example : Tendsto (fun R => hydroPsd 1000 500 2 (sphereFriction (1e-3:ℝ) (2 * R)) R 997 1060 none / lorentzian 1000 500 2)
    (𝓝[>] 0) (𝓝 1) :=
  hydro_bulk_small_bead_limit _ _ _ _ _ _ (by norm_num) (by norm_num) (by norm_num) (by norm_num) (by norm_num)

/-! ### The constructor establishes the hypotheses of the wall-correction theorems -/

/-- What `PassiveCalibrationModel.__init__` accepts near a surface (no hydrodynamic correction): the validation chain
    ESTABLISHES the hypotheses of `faxen_gt_one` / `brenner_gt_one` (`d ≥ 0.01 µm`, `l ≥ d/2`; a viscosity above
    0.0003 Pa·s or the positive water viscosity at `5 < T < 90`), so the model it returns has a wall correction above
    one and reports a drag above the bulk Stokes drag `3πηd` (for the axial factor: off contact, where it is singular). -/
theorem passive_init_wall_drag_exceeds_bulk (c : PassiveCfg ℝ) (m : Passive ℝ) (l : ℝ) (h : Passive.init c = .ok m)
    (hh : c.hydro = false) (hl : c.distance = some l) (hax : c.axial = true → c.diameter / 2 < l) :
    1 < m.dragCorrection ∧ 0 < m.dragCoeff ∧ m.dragCoeff < m.drag ∧
      m.dragCoeff = 3 * Real.pi * m.viscosity * (c.diameter * 1e-6) := by
  obtain ⟨d, visc, T, hydro, dist, rhoS, rhoB, fast, ax⟩ := c
  simp only at hh hl hax ⊢
  subst hh hl
  unfold Passive.init at h
  simp only [RealLike.lt, RealLike.le, Bool.false_eq_true, if_false, decide_eq_true_eq] at h
  -- the viscosity the model uses is positive in both branches of `viscosity if viscosity is not None else …`
  have key : ∀ η : ℝ, 0 < η → (0.01:ℝ) ≤ d → d / 2 ≤ l →
      (if isZero l = true then (1.0:ℝ) else if ax = true then brenner (l * 1.0e-6) (d * 1.0e-6 / 2.0)
        else faxen (l * 1.0e-6) (d * 1.0e-6 / 2.0)) = m.dragCorrection →
      sphereFriction η (d * 1.0e-6) = m.dragCoeff → η = m.viscosity →
      1 < m.dragCorrection ∧ 0 < m.dragCoeff ∧ m.dragCoeff < m.drag ∧
        m.dragCoeff = 3 * Real.pi * m.viscosity * (d * 1e-6) := by
    intro η hη hd hl2 hcorr hdrag hvisc
    have hR : (0:ℝ) < d * 1e-6 / 2 := by linarith
    have hRl : d * 1e-6 / 2 ≤ l * 1e-6 := by linarith
    have hz : isZero l = false := by rw [isZero_real]; simp; linarith
    have hgt : 1 < m.dragCorrection := by
      rw [← hcorr, hz]
      simp only [Bool.false_eq_true, if_false]
      cases ax with
      | true =>
        have := brenner_gt_one (l * 1e-6) (d * 1e-6 / 2) hR (by have := hax rfl; linarith)
        simp only [if_true]; norm_num at this ⊢; exact this
      | false =>
        have := faxen_gt_one (l * 1e-6) (d * 1e-6 / 2) hR hRl
        simp only [Bool.false_eq_true, if_false]; norm_num at this ⊢; exact this
    obtain ⟨a1, a2, a3⟩ := wall_arith η d m.dragCorrection hη hd hgt
    have e : sphereFriction η (d * 10e-7) = m.dragCoeff := by rw [← hdrag]
    rw [e] at a1 a2 a3
    exact ⟨hgt, a1, a2, by rw [a3, hvisc]⟩
  cases visc with
  | none =>
    simp only at h
    split_ifs at h
    all_goals (cases h)
    all_goals
      have hd : (0.01:ℝ) ≤ d := by have := ‹¬d < 10e-3›; norm_num at this ⊢; exact this
      have hl2 : d / 2 ≤ l := by have := ‹¬l < d / 2.0›; norm_num at this ⊢; exact this
      have hT : -273.15 < T := by
        have := ‹¬(!(decide (5.0 < T) && decide (T < 90.0))) = true›
        have h5 : (5.0:ℝ) < T := by
          by_contra hc
          exact this (by simp [hc])
        norm_num at h5; linarith
      exact key (viscosityWater T) (viscosity_water_pos T hT) hd hl2 (by simp [*]) rfl rfl
  | some v =>
    simp only at h
    split_ifs at h
    all_goals (cases h)
    all_goals
      have hd : (0.01:ℝ) ≤ d := by have := ‹¬d < 10e-3›; norm_num at this ⊢; exact this
      have hl2 : d / 2 ≤ l := by have := ‹¬l < d / 2.0›; norm_num at this ⊢; exact this
      have hv : 0 < v := by have := ‹¬decide (v ≤ 3e-4) = true›; simp only [decide_eq_true_eq] at this; norm_num at this; linarith
      exact key v hv hd hl2 (by simp [*]) rfl rfl


/-- a 1 µm bead 1 µm above the surface in a 1 mPa·s medium passes the validation (so the theorem is not vacuous) -/
example : ∃ m : Passive ℝ,
    Passive.init ⟨1, some 1e-3, 20, false, some 1, none, 1060, false, false⟩ = .ok m ∧ 1 < m.dragCorrection := by
  have h : ∃ m : Passive ℝ, Passive.init ⟨1, some 1e-3, 20, false, some 1, none, 1060, false, false⟩ = .ok m := by
    unfold Passive.init
    simp only [RealLike.lt, RealLike.le, isZero_real]
    norm_num
  obtain ⟨m, hm⟩ := h
  exact ⟨m, hm, (passive_init_wall_drag_exceeds_bulk _ m 1 hm rfl rfl (by simp)).1⟩

/-- the hypothesis on the axial factor is necessary: at contact (`l = d/2`, which the validation lets through) the
    Brenner denominator vanishes — the factor is not a number above one there (kernel-checked witness) -/
example : brennerDen (1 : ℝ) = 0 ∧ ¬ 1 < brenner (1 : ℝ) 1 := by
  have h : brennerDen (1 : ℝ) = 0 := by rw [brennerDen_real]; unfold brennerP; norm_num
  refine ⟨h, ?_⟩
  simp only [brenner]
  have : ((1:ℝ) / 1) = 1 := by norm_num
  rw [this, h]; norm_num

/-! ### Stimson–Jeffery: bispherical coordinates, label symmetry, the summation loop -/

/-- `to_curvilinear_coordinates` evaluates the published change of coordinates: for two separate spheres it returns
    `a > 0`, `α > 0 > β` with `r₁ = a cosech α`, `r₂ = −a cosech β`, and the sphere centres `a coth α`, `a coth β`
    a distance `d` apart (Stimson & Jeffery 1926, §3). -/
theorem bispherical_coordinates_published (r1 r2 d : ℝ) (h1 : 0 < r1) (h2 : 0 < r2) (hd : r1 + r2 < d) :
    ∃ a al be, toCurvilinear r1 r2 d = .ok (a, al, be) ∧ 0 < a ∧ 0 < al ∧ be < 0 ∧
      a / Real.sinh al = r1 ∧ -a / Real.sinh be = r2 ∧
      a * Real.cosh al / Real.sinh al - a * Real.cosh be / Real.sinh be = d := by
  obtain ⟨a, al, be, h, ha, hal, hbe, e1, e2, e3⟩ := toCurvilinear_spec r1 r2 d h1 h2 hd
  simp only [sinhE_real, coshE_real] at e1 e2 e3
  exact ⟨a, al, be, h, ha, hal, hbe, e1, e2, e3⟩

example : ∃ a al be, toCurvilinear (1:ℝ) 2 4 = .ok (a, al, be) ∧ 0 < a ∧ 0 < al ∧ be < 0 ∧
    a / Real.sinh al = 1 ∧ -a / Real.sinh be = 2 ∧
    a * Real.cosh al / Real.sinh al - a * Real.cosh be / Real.sinh be = 4 :=
  bispherical_coordinates_published 1 2 4 (by norm_num) (by norm_num) (by norm_num)

/-- Overlapping beads are refused (`ValueError`), never answered with a number. -/
theorem stimson_refuses_overlap (r1 r2 d : ℝ) (N : ℕ) (h : d < r1 + r2) : stimson r1 r2 d N = .error .value := by
  simp [stimson, toCurvilinear, RealLike.lt, h]

example : stimson (1:ℝ) 1 1.9 100000 = .error .value := stimson_refuses_overlap 1 1 1.9 _ (by norm_num)

/-- The factor of a bead does not depend on which argument it is: with the labels exchanged the code's series gives
    the same two numbers, exchanged — exactly (same summands, same stopping index), for all arguments. -/
theorem stimson_label_swap (r1 r2 d : ℝ) (N : ℕ) : stimson r2 r1 d N = (stimson r1 r2 d N).map Prod.swap :=
  stimson_swap r1 r2 d N

/-- The summation loop computes the two series of Stimson & Jeffery truncated at the first summand that is below the
    tolerance for BOTH beads (or after `max_summands`): independent specification as `Finset` sums, together with the
    characterisation of the stopping index `k` (no earlier summand was small for both, the last one is — unless the
    budget ran out). -/
theorem stimson_sum_is_truncated_series (a m p tol1 tol2 : ℝ) (maxN n : ℕ) (c1 c2 : ℝ) :
    ∃ k, k ≤ maxN ∧
      stimsonLoop a m p tol1 tol2 maxN n c1 c2 =
        (c1 + ∑ i ∈ Finset.range k, (stimsonTerm a m p (n + i)).1,
         c2 + ∑ i ∈ Finset.range k, (stimsonTerm a m p (n + i)).2) ∧
      (∀ i, i + 1 < k →
        ¬ (|(stimsonTerm a m p (n + i)).1| < tol1 ∧ |(stimsonTerm a m p (n + i)).2| < tol2)) ∧
      (k < maxN → 0 < k ∧ |(stimsonTerm a m p (n + (k - 1))).1| < tol1 ∧
        |(stimsonTerm a m p (n + (k - 1))).2| < tol2) :=
  stimsonLoop_spec a m p tol1 tol2 maxN n c1 c2

/-! ### The hydrodynamic model near a surface at low frequency -/

/-- Near a surface the complex drag `γ(f)/γ₀` tends, as `f → 0⁺`, to the real number `1 / (1 − 9R/(16 l))`: the
    zero-frequency wall correction the model converts bulk drag to local drag with. -/
theorem hydro_surface_low_frequency_limit (g rho R l : ℝ) (hg : 0 < g) (hrho : 0 < rho) (hR : 0 < R) (hl : R ≤ l) :
    Tendsto (fun f => complexDrag f g rho R (some l)) (𝓝[≥] 0) (𝓝 (1 / (1 - 9 / 16 * (R / l)), 0)) := by
  have hnu := frequencyNu_pos g rho R hg hrho hR
  have h0 : Tendsto (surfaceDragNN (frequencyNu g rho R) R l) (𝓝[≥] 0) (𝓝 (1 / (1 - 9 / 16 * (R / l)), 0)) := by
    have := (surfaceDragNN_continuousAt (frequencyNu g rho R) R l hR hl).tendsto.mono_left
      (nhdsWithin_le_nhds (s := Set.Ici 0))
    rwa [surfaceDragNN_zero _ R l hR hl] at this
  apply h0.congr'
  filter_upwards [self_mem_nhdsWithin] with f hf
  exact (complexDrag_surface f g rho R l hf hnu).symm


example : Tendsto (fun f => complexDrag f (1e-8:ℝ) 997 5e-7 (some 1e-6)) (𝓝[≥] 0) (𝓝 (1 / (1 - 9 / 16 * (5e-7 / 1e-6)), 0)) :=
  hydro_surface_low_frequency_limit _ _ _ _ (by norm_num) (by norm_num) (by norm_num) (by norm_num)

/-- Hence, near a surface too, the hydrodynamically correct spectrum tends at low frequency to a Lorentzian — the one
    with the LOCAL drag `γ = γ₀ / (1 − 9R/(16 l))`, i.e. corner frequency `f_c/c` and diffusion constant `D/c`,
    `c = 1 / (1 − 9R/(16 l))`: their ratio → 1 as `f → 0⁺`. -/
theorem hydro_surface_tends_to_lorentzian (fc D g R rhoS rhoB l : ℝ) (hfc : 0 < fc) (hD : D ≠ 0) (hg : 0 < g)
    (hR : 0 < R) (hrho : 0 < rhoS) (hl : R ≤ l) :
    Tendsto (fun f => hydroPsd f fc D g R rhoS rhoB (some l) /
        lorentzian f (fc / (1 / (1 - 9 / 16 * (R / l)))) (D / (1 / (1 - 9 / 16 * (R / l))))) (𝓝[≥] 0) (𝓝 1) := by
  have hnu := frequencyNu_pos g rhoS R hg hrho hR
  have hl0 : 0 < l := by linarith
  have hq : 9 / 16 * (R / l) < 1 := by
    have : R / l ≤ 1 := (div_le_one hl0).mpr hl
    linarith
  have hne : 1 - 9 / 16 * (R / l) ≠ 0 := by linarith
  obtain ⟨c, hc⟩ : ∃ c : ℝ, c = 1 / (1 - 9 / 16 * (R / l)) := ⟨_, rfl⟩
  have hc0 : 0 < c := by rw [hc]; apply one_div_pos.mpr; linarith
  rw [← hc]
  have hpi := Real.pi_pos
  let G := surfaceDragNN (frequencyNu g rhoS R) R l
  have hG : ContinuousAt G 0 := surfaceDragNN_continuousAt _ R l hR hl
  have hG0 : G 0 = (c, 0) := by rw [hc]; exact surfaceDragNN_zero _ R l hR hl
  have hG1 : ContinuousAt (fun f => (G f).1) 0 := continuousAt_fst.comp hG
  have hG2 : ContinuousAt (fun f => (G f).2) 0 := continuousAt_snd.comp hG
  let fm := frequencyM g R rhoB
  let H : ℝ → ℝ := fun f => D / Real.pi ^ 2 * (G f).1 / ((fc + f * ((G f).2 - f / fm)) ^ 2 + (f * (G f).1) ^ 2)
  let L : ℝ → ℝ := fun f => (D / c / Real.pi ^ 2) / (f ^ 2 + (fc / c) ^ 2)
  have hH : ContinuousAt H 0 := by
    apply ContinuousAt.div
    · fun_prop
    · fun_prop
    · simp only [hG0]; norm_num; positivity
  have hL : ContinuousAt L 0 := by
    apply ContinuousAt.div
    · fun_prop
    · fun_prop
    · norm_num; exact ⟨hfc.ne', hc0.ne'⟩
  have hL0 : L 0 ≠ 0 := by
    simp only [L]; norm_num; exact ⟨⟨hD, hc0.ne'⟩, hfc.ne', hc0.ne'⟩
  have hHL : ContinuousAt (fun f => H f / L f) 0 := hH.div hL hL0
  have e : H 0 / L 0 = 1 := by
    simp only [H, L, hG0]; norm_num
    field_simp
  have h0 : Tendsto (fun f => H f / L f) (𝓝[≥] 0) (𝓝 1) := by
    have := hHL.tendsto.mono_left (nhdsWithin_le_nhds (s := Set.Ici 0))
    rwa [e] at this
  apply h0.congr'
  filter_upwards [self_mem_nhdsWithin] with f hf
  simp only [H, L, G, fm]
  rw [lorentzian_real]
  simp only [hydroPsd, complexDrag_surface f g rhoS R l hf hnu, RealLike.pi]
  ring


example : Tendsto (fun f => hydroPsd f 500 2 (1e-8:ℝ) 5e-7 997 1060 (some 1e-6) /
    lorentzian f (500 / (1 / (1 - 9 / 16 * (5e-7 / 1e-6)))) (2 / (1 / (1 - 9 / 16 * (5e-7 / 1e-6))))) (𝓝[≥] 0) (𝓝 1) :=
  hydro_surface_tends_to_lorentzian _ _ _ _ _ _ _ (by norm_num) (by norm_num) (by norm_num) (by norm_num) (by norm_num)
    (by norm_num)

/-- The hydrodynamically correct spectrum near a surface is positive at every positive frequency, from contact
    outwards (`l ≥ R`; the model is used for `l ≥ 1.5 R`). -/
theorem hydro_surface_pos (f fc D g R rhoS rhoB l : ℝ) (hf : 0 < f) (hD : 0 < D) (hg : 0 < g) (hR : 0 < R)
    (hrho : 0 < rhoS) (hl : R ≤ l) : 0 < hydroPsd f fc D g R rhoS rhoB (some l) := by
  have hnu := frequencyNu_pos g rhoS R hg hrho hR
  have hre := surfaceDragNN_re_pos (frequencyNu g rhoS R) R l f hnu hf.le hR hl
  simp only [hydroPsd, complexDrag_surface f g rhoS R l hf.le hnu, RealLike.pi]
  generalize surfaceDragNN (frequencyNu g rhoS R) R l f = G at *
  have hpi := Real.pi_pos
  have hb : 0 < (f * G.1) * (f * G.1) := by positivity
  apply div_pos
  · positivity
  · have := mul_self_nonneg (fc + f * (G.2 - f / frequencyM g R rhoB))
    linarith


example : 0 < hydroPsd (1000:ℝ) 500 2 1e-8 5e-7 997 1060 (some 1e-6) :=
  hydro_surface_pos _ _ _ _ _ _ _ _ (by norm_num) (by norm_num) (by norm_num) (by norm_num) (by norm_num) (by norm_num)

/-! ### NaCl solutions: temperature, and the molarity ↔ molality conversion -/

/-- Kestin Eq. 2–5: at a fixed molality the zero-pressure viscosity of the solution decreases strictly with temperature -/
theorem salt_zero_pressure_viscosity_decreases_with_temperature (t₁ t₂ m : ℝ) (h0 : 20 ≤ t₁) (h12 : t₁ < t₂)
    (h1 : t₂ ≤ 150) (hm0 : 0 ≤ m) (hm6 : m ≤ 6) : zeroPressureViscosity t₂ m < zeroPressureViscosity t₁ m := by
  have hq := waterExp_strictAnti t₁ t₂ h0 h12 h1
  have hB := one_add_B_pos m hm0 hm6
  have hform : ∀ t : ℝ, zeroPressureViscosity t m = 1002 * (10:ℝ) ^ (waterExp t + saltExp (waterExp t) m) := by
    intro t
    rw [zpv_real, muW_real, mul_assoc, ← Real.rpow_add (by norm_num)]
  rw [hform, hform]
  apply mul_lt_mul_of_pos_left _ (by norm_num : (0:ℝ) < 1002)
  apply (Real.rpow_lt_rpow_left_iff (by norm_num : (1:ℝ) < 10)).mpr
  unfold saltExp
  nlinarith


example : zeroPressureViscosity (30:ℝ) 1 < zeroPressureViscosity (25:ℝ) 1 :=
  salt_zero_pressure_viscosity_decreases_with_temperature 25 30 1 (by norm_num) (by norm_num) (by norm_num)
    (by norm_num) (by norm_num)

/-- `molality_to_molarity` increases strictly with the molality: the conversion is one-to-one on the model's range -/
theorem molality_to_molarity_increases (t p m₁ m₂ : ℝ) (ht0 : 20 ≤ t) (ht1 : t ≤ 150) (hp0 : 0 ≤ p) (hp1 : p ≤ 35)
    (h0 : 0 ≤ m₁) (h12 : m₁ < m₂) (h6 : m₂ ≤ 6) : molalityToMolarity t m₁ p < molalityToMolarity t m₂ p := by
  rw [molalityToMolarity_real, molalityToMolarity_real]
  obtain ⟨r1, hr12⟩ := salt_density_increases_with_concentration t p m₁ m₂ ht0 ht1 hp0 hp1 h0 h12 h6
  generalize saltDensity t m₁ p = ρ₁ at *
  generalize saltDensity t m₂ p = ρ₂ at *
  have r2 : 0 < ρ₂ := by linarith
  have e : ∀ (m ρ : ℝ), 0 ≤ m → 0 < ρ → m / (1000 * (1 + 58.4428 * m * 1e-3) / ρ) = (m / (1000 + 58.4428 * m)) * ρ := by
    intro m ρ hm hρ
    have : (0:ℝ) < 1000 + 58.4428 * m := by positivity
    field_simp
    ring
  rw [e m₁ ρ₁ h0 r1, e m₂ ρ₂ (by linarith) r2]
  have hfrac : m₁ / (1000 + 58.4428 * m₁) < m₂ / (1000 + 58.4428 * m₂) := by
    rw [div_lt_div_iff₀ (by positivity) (by nlinarith)]
    nlinarith
  have hf0 : 0 ≤ m₁ / (1000 + 58.4428 * m₁) := by positivity
  calc m₁ / (1000 + 58.4428 * m₁) * ρ₁ ≤ m₁ / (1000 + 58.4428 * m₁) * ρ₂ :=
        mul_le_mul_of_nonneg_left hr12.le hf0
    _ < m₂ / (1000 + 58.4428 * m₂) * ρ₂ := mul_lt_mul_of_pos_right hfrac r2


example : molalityToMolarity (25:ℝ) 1 0.101325 < molalityToMolarity (25:ℝ) 2 0.101325 :=
  molality_to_molarity_increases 25 0.101325 1 2 (by norm_num) (by norm_num) (by norm_num) (by norm_num) (by norm_num)
    (by norm_num) (by norm_num)

/-- The molarity → molality conversion of the public water functions is well posed: the molality a solution was made
    with is a root of the residual handed to `brentq` (round trip), and on the model's range that root is the ONLY
    one — two molalities in `[0, 6]` at which the residual of the same query vanishes are equal.  (With
    `bisect_brackets_sign_change`: the bracketing iteration closes in on this root.) -/
theorem molarity_to_molality_root_is_unique (t p : ℝ) (ht0 : 20 ≤ t) (ht1 : t ≤ 150) (hp0 : 0 ≤ p) (hp1 : p ≤ 35) :
    (∀ m, 0 ≤ m → m ≤ 6 → molalityResidual t (molalityToMolarity t m p) p m = 0) ∧
    (∀ c m m', 0 ≤ c → c ≤ 6 → 0 ≤ m → m ≤ 6 → 0 ≤ m' → m' ≤ 6 →
      molalityResidual t c p m = 0 → molalityResidual t c p m' = 0 → m = m') := by
  refine ⟨fun m h0 h6 => molalityResidual_round_trip t p m ht0 ht1 hp0 hp1 h0 h6, ?_⟩
  intro c m m' hc0 hc6 h0 h6 h0' h6' hr hr'
  have e := (molalityResidual_zero_iff t c p m ht0 ht1 hp0 hp1 hc0 hc6 h0 h6).mp hr
  have e' := (molalityResidual_zero_iff t c p m' ht0 ht1 hp0 hp1 hc0 hc6 h0' h6').mp hr'
  rcases lt_trichotomy m m' with h | h | h
  · have := molality_to_molarity_increases t p m m' ht0 ht1 hp0 hp1 h0 h h6'
    rw [e, e'] at this; exact absurd this (lt_irrefl _)
  · exact h
  · have := molality_to_molarity_increases t p m' m ht0 ht1 hp0 hp1 h0' h h6
    rw [e, e'] at this; exact absurd this (lt_irrefl _)

example : molalityResidual (25:ℝ) (molalityToMolarity 25 1 0.101325) 0.101325 1 = 0 :=
  (molarity_to_molality_root_is_unique 25 0.101325 (by norm_num) (by norm_num) (by norm_num) (by norm_num)).1 1
    (by norm_num) (by norm_num)

/-- Small beads near a surface: at a fixed distance `l` to the surface and the bead's own Stokes drag `γ₀ = 3πη·(2R)`,
    the hydrodynamically correct spectrum tends to the Lorentzian as `R → 0⁺`, at every frequency `f ≥ 0`. -/
theorem hydro_surface_small_bead_limit (f fc D eta rhoS rhoB l : ℝ) (hf : 0 ≤ f) (hfc : 0 < fc) (hD : D ≠ 0)
    (heta : 0 < eta) (hrho : 0 < rhoS) :
    Tendsto (fun R => hydroPsd f fc D (sphereFriction eta (2 * R)) R rhoS rhoB (some l) / lorentzian f fc D)
      (𝓝[>] 0) (𝓝 1) := by
  have hpi := Real.pi_pos
  let G := surfaceDragOfRadius (f * (Real.pi * rhoS) / eta) l
  have hG : ContinuousAt G 0 := surfaceDragOfRadius_continuousAt _ l
  have hG0 : G 0 = (1, 0) := surfaceDragOfRadius_zero _ l
  have hG1 : ContinuousAt (fun R => (G R).1) 0 := continuousAt_fst.comp hG
  have hG2 : ContinuousAt (fun R => (G R).2) 0 := continuousAt_snd.comp hG
  let q : ℝ → ℝ := fun R => f * (4 * Real.pi * R ^ 2 * rhoB) / (9 * eta)
  let H : ℝ → ℝ := fun R => D / Real.pi ^ 2 * (G R).1 / ((fc + f * ((G R).2 - q R)) ^ 2 + (f * (G R).1) ^ 2)
  have hL0 : lorentzian f fc D ≠ 0 := by
    rw [lorentzian_real]
    have : 0 < f ^ 2 + fc ^ 2 := by positivity
    positivity
  have hH : ContinuousAt H 0 := by
    apply ContinuousAt.div
    · fun_prop
    · fun_prop
    · simp only [hG0, q]; norm_num; positivity
  have hHL : ContinuousAt (fun R => H R / lorentzian f fc D) 0 := hH.div continuousAt_const hL0
  have e : H 0 / lorentzian f fc D = 1 := by
    rw [lorentzian_real]
    simp only [H, q, hG0]
    norm_num
    have : f ^ 2 + fc ^ 2 ≠ 0 := by positivity
    field_simp
    ring
  have h0 : Tendsto (fun R => H R / lorentzian f fc D) (𝓝[>] 0) (𝓝 1) := by
    have := hHL.tendsto.mono_left (nhdsWithin_le_nhds (s := Set.Ioi 0))
    rwa [e] at this
  apply h0.congr'
  filter_upwards [self_mem_nhdsWithin] with R hR
  have hR' : 0 < R := hR
  have hnueq := frequencyNu_stokes eta rhoS R heta hrho hR'
  have hnu : 0 < frequencyNu (sphereFriction eta (2 * R)) rhoS R := by rw [hnueq]; positivity
  simp only [hydroPsd, complexDrag_surface f _ rhoS R l hf hnu, hnueq, frequencyM_stokes eta rhoB R hR',
    surfaceDragNN_of_radius f eta rhoS l R hf heta hrho hR', RealLike.pi, H, q, G]
  generalize surfaceDragOfRadius (f * (Real.pi * rhoS) / eta) l R = GR
  have hq : f / (9 * eta / (4 * Real.pi * R ^ 2 * rhoB)) = f * (4 * Real.pi * R ^ 2 * rhoB) / (9 * eta) := by
    by_cases hb : rhoB = 0
    · subst hb; simp
    · field_simp
  rw [hq]
  ring


example : Tendsto (fun R => hydroPsd 1000 500 2 (sphereFriction (1e-3:ℝ) (2 * R)) R 997 1060 (some 1e-6) / lorentzian 1000 500 2)
    (𝓝[>] 0) (𝓝 1) :=
  hydro_surface_small_bead_limit _ _ _ _ _ _ _ (by norm_num) (by norm_num) (by norm_num) (by norm_num) (by norm_num)

/-- Asked in MOLARITY (what the public `viscosity_of_water` / `density_of_water` take): a larger molarity has a larger
    molality root, hence a larger viscosity and a larger density — for the exact roots of the residual the code solves. -/
theorem water_functions_increase_with_molarity (t p c₁ c₂ m₁ m₂ : ℝ) (ht0 : 20 ≤ t) (ht1 : t ≤ 150) (hp0 : 0 ≤ p)
    (hp1 : p ≤ 35) (hc0 : 0 ≤ c₁) (hc12 : c₁ < c₂) (hc6 : c₂ ≤ 6) (h1 : 0 ≤ m₁ ∧ m₁ ≤ 6) (h2 : 0 ≤ m₂ ∧ m₂ ≤ 6)
    (hr1 : molalityResidual t c₁ p m₁ = 0) (hr2 : molalityResidual t c₂ p m₂ = 0) :
    m₁ < m₂ ∧ saltViscosity t m₁ p < saltViscosity t m₂ p ∧ saltDensity t m₁ p < saltDensity t m₂ p := by
  have e1 := (molalityResidual_zero_iff t c₁ p m₁ ht0 ht1 hp0 hp1 hc0 (by linarith) h1.1 h1.2).mp hr1
  have e2 := (molalityResidual_zero_iff t c₂ p m₂ ht0 ht1 hp0 hp1 (by linarith) hc6 h2.1 h2.2).mp hr2
  have hm : m₁ < m₂ := by
    by_contra hc
    have hle : m₂ ≤ m₁ := not_lt.mp hc
    rcases eq_or_lt_of_le hle with h | h
    · rw [h, e1] at e2; linarith
    · have := molality_to_molarity_increases t p m₂ m₁ ht0 ht1 hp0 hp1 h2.1 h h1.2
      rw [e1, e2] at this; linarith
  exact ⟨hm, salt_viscosity_increases_with_concentration t p m₁ m₂ ht0 ht1 hp0 hp1 h1.1 hm h2.2,
    (salt_density_increases_with_concentration t p m₁ m₂ ht0 ht1 hp0 hp1 h1.1 hm h2.2).2⟩

/-- non-vacuity: the molarities of 1 and 2 mol/kg solutions at 25 °C have exactly these molalities as roots -/
example : saltViscosity (25:ℝ) 1 0.101325 < saltViscosity (25:ℝ) 2 0.101325 := by
  have hv := molarity_to_molality_root_is_unique 25 0.101325 (by norm_num) (by norm_num) (by norm_num) (by norm_num)
  have hmono := molality_to_molarity_increases 25 0.101325 1 2 (by norm_num) (by norm_num) (by norm_num) (by norm_num)
    (by norm_num) (by norm_num) (by norm_num)
  have hpos := molality_to_molarity_increases 25 0.101325 0 1 (by norm_num) (by norm_num) (by norm_num) (by norm_num)
    (by norm_num) (by norm_num) (by norm_num)
  have h0 : molalityToMolarity (25:ℝ) 0 0.101325 = 0 := by simp [molalityToMolarity]
  have h6 : molalityToMolarity (25:ℝ) 2 0.101325 ≤ 6 := by
    obtain ⟨lo, hi⟩ := saltDensity_bounds 25 2 0.101325 (by norm_num) (by norm_num) (by norm_num) (by norm_num)
      (by norm_num) (by norm_num)
    rw [molalityToMolarity_real]
    have hρ : 0 < saltDensity (25:ℝ) 2 0.101325 := by linarith
    rw [div_div_eq_mul_div, div_le_iff₀ (by norm_num)]
    linarith
  exact (water_functions_increase_with_molarity 25 0.101325 _ _ 1 2 (by norm_num) (by norm_num) (by norm_num)
    (by norm_num) (by rw [← h0]; exact hpos.le) hmono h6 ⟨by norm_num, by norm_num⟩ ⟨by norm_num, by norm_num⟩
    (hv.1 1 (by norm_num) (by norm_num)) (hv.1 2 (by norm_num) (by norm_num))).2.1


/-! ### The public water functions and the constructor: what they return is in range -/

/-- What the public `density_of_water` returns (when it returns) is the density of the correlation at a molality in
    `[0, 6]` inside the validity range — a number between 400 and 2000 kg/m³ — for every non-negative pressure. -/
theorem density_of_water_in_range (T c ρ : ℝ) (p : Option ℝ) (hp : ∀ x, p = some x → 0 ≤ x)
    (h : densityOfWater T c p = .ok ρ) : 400 < ρ ∧ ρ < 2000 := by
  unfold densityOfWater at h
  obtain ⟨P, hP⟩ : ∃ P : ℝ, P = p.getD 0.101325 := ⟨_, rfl⟩
  have hP0 : 0 ≤ P := by
    cases p with
    | none => rw [hP]; simp; norm_num
    | some x => rw [hP]; simpa using hp x rfl
  rw [← hP] at h
  dsimp only at h
  cases hm : molarityToMolality T c P with
  | error e => rw [hm] at h; cases h
  | ok m =>
    rw [hm] at h
    simp only [Bind.bind, Except.bind] at h
    obtain ⟨m0, m6⟩ := molarityToMolality_mem T c P m hm
    split_ifs at h with hv
    cases h
    obtain ⟨⟨t0, t1⟩, p1, _⟩ := (saltValid_real T m P).mp hv
    exact saltDensity_bounds T m P t0 t1.le hP0 p1 m0 m6

example : ∃ ρ, densityOfWater (25:ℝ) 0 none = .ok ρ ∧ 400 < ρ ∧ ρ < 2000 := by
  have hv : saltValid (25:ℝ) 0.0 0.101325 = true := by rw [saltValid_real]; norm_num
  have h : densityOfWater (25:ℝ) 0 none = .ok (saltDensity 25 0.0 0.101325) := by
    simp only [densityOfWater, Option.getD_none, molarityToMolality_zero, Bind.bind, Except.bind, hv, if_true]
  exact ⟨_, h, density_of_water_in_range 25 0 _ none (by simp) h⟩


/-- What the public `viscosity_of_water` returns (when it returns a number) is positive — the Huber value for plain
    water, the Kestin value at a molality in `[0, 6]` inside the validity range otherwise — for every non-negative
    pressure. -/
theorem viscosity_of_water_positive (T v : ℝ) (c p : Option ℝ) (hp : ∀ x, p = some x → 0 ≤ x)
    (h : viscosityOfWater T c p = some (.ok v)) : 0 < v := by
  unfold viscosityOfWater at h
  split_ifs at h with hsalt
  · obtain ⟨P, hP⟩ : ∃ P : ℝ, P = p.getD 0.101325 := ⟨_, rfl⟩
    have hP0 : 0 ≤ P := by
      cases p with
      | none => rw [hP]; simp; norm_num
      | some x => rw [hP]; simpa using hp x rfl
    dsimp only at h
    rw [← hP] at h
    simp only [Option.some.injEq] at h
    cases hm : molarityToMolality T (c.getD 0.0) P with
    | error e => rw [hm] at h; cases h
    | ok m =>
      rw [hm] at h
      simp only [Bind.bind, Except.bind] at h
      obtain ⟨m0, m6⟩ := molarityToMolality_mem T _ P m hm
      split_ifs at h with hv
      cases h
      obtain ⟨⟨t0, t1⟩, p1, _⟩ := (saltValid_real T m P).mp hv
      exact saltViscosity_pos T m P t0 t1.le hP0 p1 m0 m6
  · rename_i hT
    simp only [Option.some.injEq] at h
    cases h
    simp only [RealLike.le, RealLike.lt, Bool.and_eq_true, decide_eq_true_eq] at hT
    exact viscosity_water_pos T (by have := hT.1; norm_num at this; linarith)
  · simp at h

example : ∃ v, viscosityOfWater (25:ℝ) none none = some (.ok v) ∧ 0 < v := by
  have h : viscosityOfWater (25:ℝ) none none = some (.ok (viscosityWater 25)) := by
    simp [viscosityOfWater, truthy, RealLike.le, RealLike.lt]; norm_num
  exact ⟨_, h, viscosity_of_water_positive 25 _ none none (by simp) h⟩

theorem hydro_pos_any (f fc D g R rhoS rhoB : ℝ) (l : Option ℝ) (hf : 0 < f) (hD : 0 < D) (hg : 0 < g) (hR : 0 < R)
    (hrho : 0 < rhoS) (hl : ∀ x, l = some x → R ≤ x) : 0 < hydroPsd f fc D g R rhoS rhoB l := by
  cases l with
  | none => exact hydro_bulk_pos f fc D g R rhoS rhoB hf hD hg hR hrho
  | some x => exact hydro_surface_pos f fc D g R rhoS rhoB x hf hD hg hR hrho (hl x rfl)

theorem sphereFriction_pos (η d : ℝ) (hη : 0 < η) (hd : 0 < d) : 0 < sphereFriction η d := by
  rw [sphereFriction_real]; have := Real.pi_pos; positivity

/-- A model `PassiveCalibrationModel.__init__` returns with the hydrodynamic correction has a positive physical
    spectrum at every positive frequency, in bulk and near a surface: the validation chain establishes every
    hypothesis of `hydro_bulk_pos` / `hydro_surface_pos` (diameter ≥ 0.01 µm, positive viscosity and densities,
    distance ≥ 1.5 radii). -/
theorem passive_init_hydro_spectrum_pos (c : PassiveCfg ℝ) (m : Passive ℝ) (h : Passive.init c = .ok m)
    (hh : c.hydro = true) (f fc D : ℝ) (hf : 0 < f) (hD : 0 < D) : 0 < m.physical f fc D := by
  obtain ⟨d, visc, T, hydro, dist, rhoS, rhoB, fast, ax⟩ := c
  simp only at hh
  subst hh
  unfold Passive.init at h
  simp only [RealLike.lt, RealLike.le, if_true, decide_eq_true_eq] at h
  have key : ∀ (η ρ : ℝ), 0 < η → 0 < ρ → (0.01:ℝ) ≤ d → (∀ x, dist = some x → d / 2 ≤ x) →
      0 < hydroPsd f fc D (sphereFriction η (d * 1.0e-6)) (d * 1.0e-6 / 2.0) ρ rhoB (dist.map (· * 1.0e-6)) := by
    intro η ρ hη hρ hd hx
    apply hydro_pos_any f fc D _ _ ρ rhoB _ hf hD (sphereFriction_pos η _ hη (by norm_num; linarith))
      (by norm_num; linarith) hρ
    intro x hx'
    cases dist with
    | none => simp at hx'
    | some l =>
      simp only [Option.map_some, Option.some.injEq] at hx'
      have := hx l rfl
      rw [← hx']; norm_num; linarith
  rcases visc with _ | v <;> rcases dist with _ | l <;> rcases rhoS with _ | rs <;> simp only at h <;>
    split_ifs at h <;> cases h <;> simp only [Passive.physical, if_true]
  all_goals
    have hd : (0.01:ℝ) ≤ d := by have := ‹¬d < 10e-3›; norm_num at this ⊢; exact this
    refine key _ _ ?_ ?_ hd ?_
    · first
      | (have hv := ‹¬decide (v ≤ 3e-4) = true›
         simp only [decide_eq_true_eq] at hv; norm_num at hv; linarith)
      | (have ht := ‹¬(!(decide (5.0 < T) && decide (T < 90.0))) = true›
         have h5 : (5.0:ℝ) < T := by
           by_contra hc
           exact ht (by simp [hc])
         exact viscosity_water_pos T (by norm_num at h5; linarith))
    · first
      | (have hr := ‹¬decide (rs < 100.0) = true›
         simp only [decide_eq_true_eq] at hr; norm_num at hr; linarith)
      | norm_num
    · first
      | (have hl := ‹¬decide (l < d / 2.0) = true›
         simp only [decide_eq_true_eq] at hl
         intro x hx
         simp only [Option.some.injEq] at hx
         rw [← hx]; norm_num at hl ⊢; exact hl)
      | (intro x hx; simp at hx)


/-- a 1 µm bead 1 µm above the surface with the hydrodynamic correction passes the validation -/
example : ∃ m : Passive ℝ,
    Passive.init ⟨1, some 1e-3, 20, true, some 1, none, 1060, false, false⟩ = .ok m ∧ 0 < m.physical 1000 500 2 := by
  have h : ∃ m : Passive ℝ, Passive.init ⟨1, some 1e-3, 20, true, some 1, none, 1060, false, false⟩ = .ok m := by
    unfold Passive.init
    simp only [RealLike.lt, RealLike.le, isZero_real]
    norm_num
  obtain ⟨m, hm⟩ := h
  exact ⟨m, hm, passive_init_hydro_spectrum_pos _ m hm rfl _ _ _ (by norm_num) (by norm_num)⟩

end Verif.C20
