/-
  C19 — queries are pure: property theorems about the state machine of `Verif.Model.C19`
  (memo tables of `method_cache`, the start repair inside `_get_photon_count`, closures of derived
  objects over their parents, `Scan.num_frames`), which the correspondence check ties to
  lumicks/pylake on every run.  Helper lemmas live in `Verif.Lemmas.C19`.

  Specification used by the theorems: the TWIN of step `n` of a history is a freshly constructed object
  on which only the derivations made before step `n` are replayed (no query), followed by step `n` itself
  (`twinOf`, `freshD`); `den` is the cache-free recomputation of a quantity from the current
  `start/stop` of an object and, through the factory closures, of its ancestors.
-/
import Verif.Lemmas.C19

namespace Verif.C19

/-- the answer of the twin of step `n` -/
def freshD (f : File) (s e : Int) (ops : List Op) (n : Nat) : Ans :=
  lastAns (runL f [initObj s e] (twinOf (label ops) n))

/-! ## the cache invariant -/

/-- **cache_inv.**  In every state reachable from a freshly constructed untruncated object by any history of
    queries and derivations, every memoised value of every object (source, copies, slices, views of
    views) equals its recomputation from the current `start/stop` — and every live object is still
    untruncated, every closure chain consistent. -/
theorem cache_inv (f : File) (s e : Int) (hU : Untruncated f s) (ops : List Op) :
    CacheOK f (runL f [initObj s e] (label ops)).1 :=
  (runL_good f (sliceClosed f) (label ops) _ (Good_init f s e hU)).2.2

/-- the invariant is not vacuous: after `pixel_time_seconds`, `get_image("red")` and a crop the tables hold
    entries, and the source's start is unchanged -/
example :
    let f : File := ⟨0, 10, [0, 1, 2, 1, 2, 0, 0, 1, 2, 1, 2, 0, 0], 2, false, false, some ⟨-20, 40⟩, none, none⟩
    let h := (runL f [initObj 0 130] (label [.q 0 (.prim .pixelTime), .q 0 (.prim (.image .red)), .d 0 (.view .full),
      .q 1 (.prim (.image .red))])).1
    (h.map fun o => (o.start, o.cache.length)) = [(0, 2), (0, 1)] := by decide

/-- **cache_inv_repair** (the truncated case, where `start` does move).  A photon-count access changes `start`
    only (a) by the repair, which hands the object a NEW, EMPTY memo table (so no value computed from the old
    start survives in it, and a value being computed during the repair is stored in the orphaned table — `gen`),
    or (b) by the sub-sample workaround, which moves `start` forward by less than one sample period and keeps the
    table (the info-wave window, hence every memoised value, is the same). -/
theorem cache_inv_repair (f : File) (o : Obj) (c : Color) (o' : Obj) (w : Option (Int × Int))
    (hp : photonAccess f o c = .ok (o', w)) :
    (o'.start = o.start ∧ o'.cache = o.cache ∧ o'.gen = o.gen) ∨ (o'.cache = [] ∧ o'.gen = o.gen + 1) ∨
      (o.start < o'.start ∧ o'.start - f.dt < o.start ∧ o'.cache = o.cache ∧ o'.gen = o.gen) :=
  photonAccess_start f o c hp

/-! ## purity on untruncated objects -/

/-- **purity_untruncated.**  If no photon timeline starts after the nominal start (and everything lies on
    one sampling grid), then for EVERY history of queries and derivations, on every object of the history,
    the `n`-th answer is the answer of the freshly constructed twin that is asked only that. -/
theorem purity_untruncated (f : File) (s e : Int) (hU : Untruncated f s) (ops : List Op)
    (n : Nat) (hn : n < ops.length) :
    (run f s e ops)[n]? = some (freshD f s e ops n) := by
  unfold run freshD
  exact run_twin f (sliceClosed f) (label ops) _ _ n (R_refl (Good_init f s e hU))
    (by unfold label; rw [label_length]; exact hn)

/-- non-vacuity of the hypotheses: a file whose photon counts start two samples BEFORE the scan -/
example : Untruncated ⟨0, 10, [0, 1, 2, 1, 2, 0, 0, 1, 2, 1, 2, 0, 0], 2, false, false, some ⟨-20, 40⟩, none, none⟩ 0 := by
  refine ⟨by decide, ⟨0, by decide⟩, ?_⟩
  intro c ch hc
  cases c <;> simp [File.chan] at hc
  subst hc
  exact ⟨by decide, ⟨2, by decide⟩⟩

/-- the full colour image `get_image("rgb")` is a query like any other (`Query.rgb`: the three memoised colour planes, read in
    the order red, green, blue and stacked anew on every call - the memo tables are keyed by `Prim`, which has no
    full-colour entry): asked, asked again on a crop made in between, and asked again on the source, it answers what the
    twins answer, and the only entries it leaves in the source's table are the three planes (evaluated) -/
example :
    let f : File := ⟨0, 10, [0, 1, 2, 1, 2, 0, 0, 1, 2, 1, 2, 0, 0], 2, false, false, some ⟨-20, 40⟩, some ⟨0, 13⟩, none⟩
    let ops : List Op := [.q 0 .rgb, .d 0 (.view .full), .q 1 .rgb, .q 0 .rgb]
    run f 0 130 ops = freshAll f 0 130 ops
      ∧ (run f 0 130 ops)[0]? = some (.pair (.pair (.at (.image .red) 0 130) (.at (.image .green) 0 130))
          (.at (.image .blue) 0 130))
      ∧ ((runL f [initObj 0 130] (label ops)).1.map fun o => o.cache.map (·.1))
          = [[.image .blue, .image .green, .image .red], [.image .blue, .image .green, .image .red]] := by
  decide +kernel

/-- **derive_preserves_source.**  On a calm heap (any state reachable from an untruncated object), NO
    derivation — copy, re-calibration, time slice, crop, down-sampling, flip, frame selection, failed or empty
    derivation, addressed to any object — changes what any object that existed before answers to any later
    query; and the heap stays calm and consistent, so the statement applies again to the next derivation. -/
theorem derive_preserves_source (f : File) (h : Heap) (hG : Good f h) (i x : Nat) (d : Derive) (j : Nat) (q : Query)
    (hj : ∃ o, h[j]? = some o) :
    (query f (derive f h i x d).1 j q).2 = (query f h j q).2 ∧ Good f (derive f h i x d).1 :=
  ⟨query_pre f j q h _ hG (derive_sim f (sliceClosed f) i x d h h (R_refl hG)).2.1 (derive_pre f h hG i x d) hj,
    (derive_sim f (sliceClosed f) i x d h h (R_refl hG)).2.1⟩

/-- the hypothesis is met by every state a history reaches from an untruncated object -/
theorem reachable_good (f : File) (s e : Int) (hU : Untruncated f s) (ops : List Op) :
    Good f (runL f [initObj s e] (label ops)).1 :=
  runL_good f (sliceClosed f) (label ops) _ (Good_init f s e hU)

/-- non-vacuity: slicing the source after the image was asked leaves the image answer alone (evaluated) -/
example :
    let f : File := ⟨0, 10, [0, 1, 2, 1, 2, 0, 0, 1, 2, 1, 2, 0, 0], 2, false, false, some ⟨-20, 40⟩, none, none⟩
    let h := (runL f [initObj 0 130] (label [.q 0 (.prim (.image .red))])).1
    (query f (derive f h 0 7 (.slice none none)).1 0 (.prim (.image .red))).2 = (query f h 0 (.prim (.image .red))).2
      ∧ (derive f h 0 7 (.slice none none)).2 = .pair (.int 10) (.int 130) := by decide +kernel

/-! ## `Scan.num_frames` -/

/-- **num_frames_idempotent.**  The getter that writes `_metadata`: the second call returns the same number and
    leaves the object exactly as the first call left it — for every object in every state. -/
theorem num_frames_idempotent (h : Heap) (i : Nat) :
    numFrames (numFrames h i).1 i = ((numFrames h i).1, (numFrames h i).2) :=
  numFrames_twice h i

/-! ## finding F5 -/

/-- a kymograph whose photon counts start two samples after its nominal start, which lies in the middle of the
    first scan line (2 pixels per line, 2 samples per pixel, 2 samples of dead time, 10 ns per sample) -/
def f5 : File :=
  ⟨0, 10, [2, 1, 2, 0, 0, 1, 2, 1, 2, 0, 0, 1, 2, 1, 2, 0, 0, 1, 2, 1, 2, 0, 0, 0], 2, false, false,
    some ⟨20, 22⟩, some ⟨20, 22⟩, some ⟨20, 22⟩⟩

/-- **F5_witness** (kernel-checked).  The history `[line_time_seconds, get_image("red"), line_time_seconds]` on
    the truncated kymograph returns two different line times (20 ns computed from the nominal start 0, 60 ns
    computed from the repaired start 50), the twin of the third step answers 20 ns, and `start` itself moves.
    The same history is the replay on the code (corpus/C19/F5.json). -/
theorem F5_witness :
    run f5 0 240 [.q 0 (.prim .lineTime), .q 0 (.prim (.image .red)), .q 0 (.prim .lineTime), .q 0 .start]
      = [.at .lineTime 0 240, .at (.image .red) 50 240, .at .lineTime 50 240, .int 50]
    ∧ freshAll f5 0 240 [.q 0 (.prim .lineTime), .q 0 (.prim (.image .red)), .q 0 (.prim .lineTime), .q 0 .start]
      = [.at .lineTime 0 240, .at (.image .red) 50 240, .at .lineTime 0 240, .int 0]
    ∧ lineTimeNs f5 0 240 = some 20 ∧ lineTimeNs f5 50 240 = some 60
    ∧ pixelTimeNs f5 0 240 = some 10 ∧ pixelTimeNs f5 50 240 = some 20 := by
  decide +kernel

/-- the witness is outside `purity_untruncated`: its photon timeline starts after the nominal start -/
example : ¬ Untruncated f5 0 := by
  intro h
  have := (h.2.2 .red ⟨20, 22⟩ rfl).1
  exact absurd this (by decide)

/-- the SAME history on the same info wave with photon counts that start in time is pure (the repaired code
    path is never entered): instance of `purity_untruncated`, also checked by evaluation -/
example :
    let f : File := { f5 with red := some ⟨0, 24⟩, green := some ⟨0, 24⟩, blue := some ⟨0, 24⟩ }
    run f 0 240 [.q 0 (.prim .lineTime), .q 0 (.prim (.image .red)), .q 0 (.prim .lineTime), .q 0 .start]
      = freshAll f 0 240 [.q 0 (.prim .lineTime), .q 0 (.prim (.image .red)), .q 0 (.prim .lineTime), .q 0 .start] := by
  decide +kernel

/-! ## after the repair -/

/-- **purity_after_repair_partial.**  Once a photon-count access has run on a freshly constructed object and the
    start it leaves behind (repaired by `_fix_incorrect_start`, moved by the STED workaround, or untouched) is
    untruncated, every later answer of every history on that object — queries, derivations, objects derived
    from derived objects — is the answer of a twin freshly constructed AT THAT START: history-independent.

    Full statement wanted by DESIGN ("once any photon-count query has run, all later answers are
    history-independent") is NOT provable for the code as it is: (i) when the photon stream starts later than
    the second scan line one repair does not reach it and every further access moves `start` again; (ii) objects
    derived BEFORE the access keep the unrepaired start and stale memo entries.  Both are finding F5. -/
theorem purity_after_repair_partial (f : File) (s e : Int) (c : Color) (o' : Obj) (w : Option (Int × Int))
    (hp : photonAccess f (initObj s e) c = .ok (o', w)) (hU : Untruncated f o'.start)
    (ops : List Op) (n : Nat) (hn : n < ops.length) :
    (runL f [o'] (label ops)).2[n]? = some (freshD f o'.start e ops n) := by
  obtain ⟨hs, hc⟩ := photonAccess_init f s e c hp
  have hch : o'.chain = [] := congrArg Skel.chain hs
  have hr : R f [o'] [initObj o'.start e] :=
    ⟨Good_single f o' hc hch hU, Good_init f o'.start e hU, by simp [skelH, hs]⟩
  unfold freshD
  exact run_twin f (sliceClosed f) (label ops) _ _ n hr (by unfold label; rw [label_length]; exact hn)

/-- non-vacuity: on the F5 witness the access `get_image("red")` repairs the start to 50, which is untruncated -/
example : (match photonAccess f5 (initObj 0 240) .red with
      | .ok (o, w) => some (o.start, o.gen, o.cache.length, w)
      | .error _ => none) = some (50, 1, 0, some (50, 240)) ∧ Untruncated f5 50 := by
  refine ⟨by decide +kernel, by decide, ⟨5, by decide⟩, ?_⟩
  intro c ch hc
  cases c <;> simp [File.chan, f5] at hc <;> subst hc <;> exact ⟨by decide, ⟨3, by decide⟩⟩

/-- **repair_not_inherited_witness** (kernel-checked; the restriction of `purity_after_repair_partial` to objects derived
    AFTER the photon-count access is necessary).  On the F5 kymograph: a copy made BEFORE `get_image("red")` keeps the nominal
    start 0 and a line time computed from it (20 ns), the source is repaired to start 50 (line time 60 ns), and a copy made
    AFTER the access starts at 50 — two copies of one object differ by when they were made, and every twin answers 0 / 20 ns. -/
theorem repair_not_inherited_witness :
    run f5 0 240 [.d 0 .copy, .q 0 (.prim (.image .red)), .q 0 .start, .q 1 .start, .q 1 (.prim .lineTime),
        .q 0 (.prim .lineTime), .d 0 .copy, .q 2 .start]
      = [.static [0] 0, .at (.image .red) 50 240, .int 50, .int 0, .at .lineTime 0 240, .at .lineTime 50 240, .static [6] 0,
          .int 50]
    ∧ freshAll f5 0 240 [.d 0 .copy, .q 0 (.prim (.image .red)), .q 0 .start, .q 1 .start, .q 1 (.prim .lineTime),
        .q 0 (.prim .lineTime), .d 0 .copy, .q 2 .start]
      = [.static [0] 0, .at (.image .red) 50 240, .int 0, .int 0, .at .lineTime 0 240, .at .lineTime 0 240, .static [6] 0,
          .int 0] := by
  decide +kernel

/-! ## clause 3: the arrays handed out cannot alter cached state (buffer model `Verif.C19.Alias`) -/

open Alias in
/-- **alias_refines.**  For every image width, every content of the source planes / timestamps and EVERY history of array
    requests (`get_image(colour)`, `timestamps`, `get_image("rgb")`), in-place writes through ANY array handed out so far,
    crops, flips, position down-samplings and copies (of derived objects too), the machine with buffers, views on the
    parent's memoised array, WRITEABLE flags and memo tables (`runA`) answers step by step what the value semantics
    (`runS`: no memory, no tables, every answer recomputed from the source values through the transformations that made
    the object; a write is refused exactly on the arrays that came out of a memoised method) answers. -/
theorem alias_refines (cols : Nat) (src : Key → List Int) (ops : List AOp) :
    (runA cols src initSt ops).2 = (runS cols src initSp ops).2 :=
  (runA_sim cols src ops initSt initSp (Inv_init cols src)).2

open Alias in
/-- **alias_inv.**  In every state the machine reaches, every array in a memo table is read-only and reads exactly the
    values the value semantics computes for its object, and no WRITEABLE array that was ever handed out reads a buffer
    that an array in a memo table reads. -/
theorem alias_inv (cols : Nat) (src : Key → List Int) (ops : List AOp) :
    CacheInv cols src (runA cols src initSt ops).1 (runS cols src initSp ops).1.paths
      ∧ OutInv (runA cols src initSt ops).1 :=
  ⟨(runA_sim cols src ops initSt initSp (Inv_init cols src)).1.cache,
    (runA_sim cols src ops initSt initSp (Inv_init cols src)).1.out⟩

open Alias in
/-- **alias_writes_invisible.**  Clause 3 as the property words it: the answers a history gives to its requests and
    derivations are the answers the same history gives with every write attempt left out. -/
theorem alias_writes_invisible (cols : Nat) (src : Key → List Int) (ops : List AOp) :
    dropWrites ops (runA cols src initSt ops).2 = (runA cols src initSt (ops.filter fun o => !o.isWrite)).2 := by
  rw [alias_refines, alias_refines, runS_dropWrites]

open Alias in
/-- the statements are not vacuous (evaluated): writes through the memoised plane and through the crop (a VIEW of it) are
    refused, the write through the full colour image is accepted and changes a buffer (3rd buffer, first element 77), and
    the planes asked afterwards still read the source values; the flipped object shares the source's buffer 0 -/
example :
    let src : Key → List Int := fun k => match k with
      | .img .red => [1, 2, 3, 4, 5, 6] | .img .green => [0, 0, 0, 0, 0, 0] | .img .blue => [9, 8, 7, 6, 5, 4]
      | .ts => [10, 20, 30, 40, 50, 60]
    let ops : List AOp := [.get 0 (.img .red), .write 0 0 99, .view 0 (.crop 1 3), .get 1 (.img .red), .write 1 0 99,
      .rgb 1, .write 2 0 77, .get 1 (.img .red), .view 0 .flip, .get 2 (.img .red), .get 2 .ts]
    (runA 2 src initSt ops).2 = [.arr [1, 2, 3, 4, 5, 6] false, .refused, .made, .arr [3, 4, 5, 6] false, .refused,
        .arr [3, 0, 7, 4, 0, 6, 5, 0, 5, 6, 0, 4] true, .written, .arr [3, 4, 5, 6] false, .made,
        .arr [5, 6, 3, 4, 1, 2] false, .arr [10, 20, 30, 40, 50, 60] false]
      ∧ ((runA 2 src initSt ops).1.mem.map fun b => b.headD 0) = [1, 0, 9, 77, 10]
      ∧ ((runA 2 src initSt ops).1.outs.map fun a => a.buf) = [0, 0, 3, 0, 0, 4] := by
  decide +kernel

end Verif.C19
