/-
  C06 — property theorems about the model in `Verif.Model.C06`.
-/
import Verif.Lemmas.C06
import Verif.Lemmas.C01

namespace Verif.C06
open Verif.Py

/-- line start timestamps of a view -/
abbrev starts (v : KView) : List Int := (lineRanges v.img v.delta).map (·.1)

/-! ## Time slices of a kymograph -/

/-- `kymo[a:b]` keeps the columns `i ≤ c < j` with `i, j` found by `searchsorted`, and — line starts
    being sorted — these are exactly the lines whose start time lies in `[a, b)`.  The result is the
    empty kymograph iff no line starts in the window; it is never an error for an unprocessed one. -/
theorem slice_lines (v : KView) (hu : v.processed = false) (hd : v.rangesDefined = true)
    (hs : (starts v).Pairwise (· ≤ ·)) (a b : Int) :
    (∀ c (hc : c < (starts v).length),
        (searchsortedLeft (starts v) a ≤ c ∧ c < searchsortedLeft (starts v) b) ↔
          (a ≤ (starts v)[c] ∧ (starts v)[c] < b)) ∧
    (match v.sliceTime a b with
     | .view w => w.img = takeCols v.img (searchsortedLeft (starts v) a) (searchsortedLeft (starts v) b) ∧
                  searchsortedLeft (starts v) a < searchsortedLeft (starts v) b
     | .empty => ¬ (searchsortedLeft (starts v) a < searchsortedLeft (starts v) b)
     | .err _ => False) := by
  constructor
  · intro c hc
    have h1 := lt_searchsortedLeft_iff (starts v) hs a c hc
    have h2 := lt_searchsortedLeft_iff (starts v) hs b c hc
    omega
  · have hle := searchsortedLeft_le_length (starts v) b
    unfold KView.sliceTime
    simp only [hu, Bool.false_eq_true, ↓reduceIte, KView.ranges, hd]
    by_cases h1 : searchsortedLeft (starts v) a = (starts v).length
    · rw [if_pos h1]; show ¬ _; omega
    · rw [if_neg h1]
      by_cases h2 : searchsortedLeft (starts v) a ≥ searchsortedLeft (starts v) b
      · rw [if_pos h2]; show ¬ _; omega
      · rw [if_neg h2]; exact ⟨rfl, by omega⟩

/-- No line starts in the window ⇒ the empty (falsy) kymograph, never an image of other data. -/
theorem slice_empty_iff (v : KView) (hu : v.processed = false) (hd : v.rangesDefined = true)
    (hs : (starts v).Pairwise (· ≤ ·)) (a b : Int) :
    (match v.sliceTime a b with | .empty => True | _ => False) ↔
      ∀ c (hc : c < (starts v).length), ¬ (a ≤ (starts v)[c] ∧ (starts v)[c] < b) := by
  have h := slice_lines v hu hd hs a b
  have hlen := searchsortedLeft_le_length (starts v) b
  cases hres : v.sliceTime a b with
  | view w =>
    rw [hres] at h
    simp only [false_iff]
    intro hno
    have hlt := h.2.2
    exact hno (searchsortedLeft (starts v) a) (by omega) ((h.1 _ (by omega)).mp ⟨Nat.le_refl _, hlt⟩)
  | empty =>
    rw [hres] at h
    simp only [true_iff]
    intro c hc hw
    have hidx := (h.1 c hc).mpr hw
    have := h.2
    omega
  | err e =>
    rw [hres] at h
    exact h.2.elim

/-- A processed kymograph (cropped, flipped, down-sampled) refuses time slicing with the documented
    error. -/
theorem processed_not_sliceable (v : KView) (hp : v.processed = true) (a b : Int) :
    (match v.sliceTime a b with | .err .notImplemented => True | _ => False) := by
  unfold KView.sliceTime; simp [hp]

/-- The line ranges of a time slice are the corresponding sub-list of the parent's. -/
theorem takeCols_getElem? {α} (r : List α) (i j k : Nat) :
    ((r.take j).drop i)[k]? = if i + k < j then r[i + k]? else none := by
  rw [List.getElem?_drop, List.getElem?_take]

theorem filterMap_congr' {α β} (f g : α → Option β) (l : List α) (h : ∀ x ∈ l, f x = g x) :
    l.filterMap f = l.filterMap g := by
  induction l with
  | nil => rfl
  | cons x xs ih =>
    simp only [List.filterMap_cons, h x (by simp)]
    rw [ih (fun y hy => h y (by simp [hy]))]

theorem column_takeCols {α} (img : List (List α)) (i j k : Nat) (h : i + k < j) :
    column (takeCols img i j) k = column img (i + k) := by
  simp only [column, takeCols, List.filterMap_map]
  apply filterMap_congr'
  intro r _
  simp [takeCols_getElem?, h]

theorem head_takeCols {α} (img : List (List α)) (i j k : Nat) (h : i + k < j) :
    ((takeCols img i j).head?.bind (·[k]?)) = (img.head?.bind (·[i + k]?)) := by
  cases img with
  | nil => rfl
  | cons r rs => simp [takeCols, takeCols_getElem?, h]

theorem slice_ranges_sublist (img : Img) (n : Nat) (hr : Rect img n) (δ : Int) (i j : Nat) (hj : j ≤ n) :
    lineRanges (takeCols img i j) δ = ((lineRanges img δ).take j).drop i := by
  cases img with
  | nil => simp [lineRanges, takeCols, numCols]
  | cons r0 rs =>
    have hr0 : r0.length = n := hr r0 (by simp)
    have hnc : numCols (r0 :: rs) = n := by simp [numCols, hr0]
    have hnc' : numCols (takeCols (r0 :: rs) i j) = j - i := by
      simp [numCols, takeCols, hr0]; omega
    apply List.ext_getElem?
    intro k
    simp only [lineRanges, hnc, hnc', List.getElem?_map, List.getElem?_drop, List.getElem?_take]
    by_cases hk : k < j - i
    · have h1 : (List.range (j - i))[k]? = some k := List.getElem?_range hk
      have h2 : i + k < j := by omega
      have h3 : (List.range n)[i + k]? = some (i + k) := List.getElem?_range (by omega)
      simp only [h1, h2, ↓reduceIte, h3, Option.map_some]
      rw [column_takeCols _ _ _ _ h2, head_takeCols _ _ _ _ h2]
    · have h1 : (List.range (j - i))[k]? = none := by simp; omega
      simp only [h1, Option.map_none]
      by_cases h2 : i + k < j
      · omega
      · simp [h2]

/-- Slicing a slice is slicing to the intersection (column index arithmetic of two successive
    `searchsorted` selections on the same sorted starts). -/
theorem slice_slice (l : List Int) (hs : l.Pairwise (· ≤ ·)) (a b c d : Int) (k : Nat) (hk : k < l.length) :
    ((a ≤ l[k] ∧ l[k] < b) ∧ (c ≤ l[k] ∧ l[k] < d)) ↔ (max a c ≤ l[k] ∧ l[k] < min b d) := by
  omega

/-! ## Cropping by distance -/

/-- `crop_by_distance(lo, hi)` keeps exactly rows `⌊lo/px⌋ ≤ r < ⌈hi/px⌉` (clamped to the image),
    refuses negative bounds and an empty selection. -/
theorem crop_rows (v : KView) (lo hi : Rat) (hlo : 0 ≤ lo) (hhi : 0 ≤ hi) (hpx : 0 < v.px) :
    let l := (lo / v.px).floor
    let u := (hi / v.px).ceil
    0 ≤ l ∧ 0 ≤ u ∧
    (match v.crop lo hi with
     | .view w => w.img = (v.img.take u.toNat).drop l.toNat ∧ w.img ≠ [] ∧
                  w.px = v.px ∧ w.offset = v.offset + (l : Rat) * v.px
     | .err .indexError => (v.img.take u.toNat).drop l.toNat = []
     | _ => False) := by
  have hinv : (0 : Rat) ≤ v.px⁻¹ := Rat.le_of_lt (Rat.inv_pos.mpr hpx)
  have hl : 0 ≤ (lo / v.px).floor := by
    rw [Rat.le_floor_iff, Rat.div_def]; exact Rat.mul_nonneg hlo hinv
  have hu : 0 ≤ (hi / v.px).ceil := by
    have h0 : (0 : Rat) ≤ hi / v.px := by rw [Rat.div_def]; exact Rat.mul_nonneg hhi hinv
    have := Rat.le_ceil (x := hi / v.px)
    have h2 : ((0 : Int) : Rat) ≤ (((hi / v.px).ceil : Int) : Rat) := by
      exact Rat.le_trans (by simpa using h0) this
    exact Rat.intCast_le_intCast.mp h2
  refine ⟨hl, hu, ?_⟩
  unfold KView.crop
  have hneg : ¬ (lo < 0 ∨ hi < 0) := by
    intro h; rcases h with h | h
    · exact absurd hlo (Rat.not_le.mpr h)
    · exact absurd hhi (Rat.not_le.mpr h)
  simp only [hneg, ↓reduceIte]
  rw [C01.pySlice_nonneg _ _ _ hl hu]
  by_cases h : (List.drop (lo / v.px).floor.toNat (List.take (hi / v.px).ceil.toNat v.img)).length = 0
  · rw [if_pos h]; exact List.length_eq_zero_iff.mp h
  · rw [if_neg h]
    exact ⟨rfl, fun hnil => h (by rw [show (List.drop (lo / v.px).floor.toNat (List.take (hi / v.px).ceil.toNat v.img)) = [] from hnil]; rfl), rfl, rfl⟩

/-- The crop as executed in floating point (`cropF`, what the driver runs for pixel sizes that are not binary
    fractions) is the rational crop of `crop_rows` whenever the two index computations agree — i.e. whenever rounding
    the quotient does not carry it across an integer.  (Where it does, e.g. `1.0 / 0.1`, the code's answer is the
    rounded one; the correspondence check pins that, the oracle does not take sides.) -/
theorem cropF_refines_crop (v : KView) (lo hi : Float) (loR hiR : Rat)
    (hs : (lo < 0 || hi < 0) = decide (loR < 0 ∨ hiR < 0))
    (hl : f2i (Float.floor (lo / v.pxF)) = (loR / v.px).floor)
    (hu : f2i (Float.ceil (hi / v.pxF)) = (hiR / v.px).ceil) :
    v.cropF lo hi = v.crop loR hiR := by
  unfold KView.cropF KView.crop
  rw [hs, hl, hu]
  by_cases h : loR < 0 ∨ hiR < 0
  · simp [h]
  · simp [h]

theorem crop_negative (v : KView) (lo hi : Rat) (h : lo < 0 ∨ hi < 0) :
    (match v.crop lo hi with | .err .valueError => True | _ => False) := by
  unfold KView.crop; simp [h]

/-- Cropping twice = cropping once with shifted bounds (row index arithmetic). -/
theorem crop_crop {α} (img : List α) (l1 u1 l2 u2 : Nat) :
    (((img.take u1).drop l1).take u2).drop l2 = (img.take (min u1 (l1 + u2))).drop (l1 + l2) := by
  apply List.ext_getElem?
  intro k
  simp only [List.getElem?_drop, List.getElem?_take]
  by_cases h1 : l2 + k < u2
  · by_cases h2 : l1 + (l2 + k) < u1
    · have : l1 + l2 + k < min u1 (l1 + u2) := by omega
      simp only [h1, h2, this, ↓reduceIte]
      congr 1; omega
    · have : ¬ l1 + l2 + k < min u1 (l1 + u2) := by omega
      simp [h1, h2, this]
  · have : ¬ l1 + l2 + k < min u1 (l1 + u2) := by omega
    simp [h1, this]

/-! ## Slicing a slice (the composition that finding F10 broke in the code) -/

/-- image of a result: `some img` for a view, `none` for the empty kymograph or an error -/
def KRes.img? : KRes → Option Img
  | .view w => some w.img
  | _ => none

theorem sliceTime_img? (v : KView) (hu : v.processed = false) (hd : v.rangesDefined = true) (a b : Int) :
    (v.sliceTime a b).img? =
      if searchsortedLeft (starts v) a < searchsortedLeft (starts v) b
      then some (takeCols v.img (searchsortedLeft (starts v) a) (searchsortedLeft (starts v) b)) else none := by
  have hle := searchsortedLeft_le_length (starts v) b
  unfold KView.sliceTime
  simp only [hu, Bool.false_eq_true, ↓reduceIte, KView.ranges, hd]
  by_cases h1 : searchsortedLeft (starts v) a = (starts v).length
  · rw [if_pos h1, if_neg (by omega)]; rfl
  · rw [if_neg h1]
    by_cases h2 : searchsortedLeft (starts v) a ≥ searchsortedLeft (starts v) b
    · rw [if_pos h2, if_neg (by omega)]; rfl
    · rw [if_neg h2, if_pos (show searchsortedLeft (starts v) a < searchsortedLeft (starts v) b by omega)]; rfl

theorem searchsortedLeft_max (l : List Int) (hs : l.Pairwise (· ≤ ·)) (a c : Int) :
    searchsortedLeft l (max a c) = max (searchsortedLeft l a) (searchsortedLeft l c) := by
  apply searchsortedLeft_unique l hs
  · have := searchsortedLeft_le_length l a; have := searchsortedLeft_le_length l c; omega
  · intro k hk
    have h1 := lt_searchsortedLeft_iff l hs a k hk
    have h2 := lt_searchsortedLeft_iff l hs c k hk
    omega

theorem searchsortedLeft_min (l : List Int) (hs : l.Pairwise (· ≤ ·)) (b d : Int) :
    searchsortedLeft l (min b d) = min (searchsortedLeft l b) (searchsortedLeft l d) := by
  apply searchsortedLeft_unique l hs
  · have := searchsortedLeft_le_length l b; omega
  · intro k hk
    have h1 := lt_searchsortedLeft_iff l hs b k hk
    have h2 := lt_searchsortedLeft_iff l hs d k hk
    omega

theorem takeCols_takeCols {α} (img : List (List α)) (i j i' j' : Nat) :
    takeCols (takeCols img i j) i' j' = takeCols img (i + i') (min j (i + j')) := by
  simp only [takeCols, List.map_map]
  apply List.map_congr_left
  intro r _
  exact crop_crop r i j i' j'

/-- `kymo[a:b][c:d]` shows the image of `kymo[max(a,c) : min(b,d)]` — in particular a second window
    that reaches beyond the first slice cannot bring back lines outside it; both are the empty
    kymograph together. -/
theorem slice_compose (v : KView) (n : Nat) (hr : Rect v.img n) (hne : v.img ≠ [])
    (hu : v.processed = false) (hd : v.rangesDefined = true)
    (hs : (starts v).Pairwise (· ≤ ·)) (a b c d : Int) (w : KView)
    (hw : v.sliceTime a b = .view w) :
    (w.sliceTime c d).img? = (v.sliceTime (max a c) (min b d)).img? := by
  -- shape of the first slice
  have hlen : (starts v).length = n := by
    cases himg : v.img with
    | nil => exact absurd himg hne
    | cons r0 rs =>
      have : r0.length = n := hr r0 (by rw [himg]; simp)
      simp [starts, lineRanges, himg, numCols, this]
  have hlej := searchsortedLeft_le_length (starts v) b
  have h1 := slice_lines v hu hd hs a b
  rw [hw] at h1
  obtain ⟨himgw, hij⟩ := h1.2
  have hwu : w.processed = false := by
    unfold KView.sliceTime at hw
    simp only [hu, Bool.false_eq_true, ↓reduceIte, KView.ranges, hd] at hw
    split at hw
    · cases hw
    · split at hw
      · cases hw
      · injection hw with hw; rw [← hw]
  have hwd : w.rangesDefined = true := by
    unfold KView.sliceTime at hw
    simp only [hu, Bool.false_eq_true, ↓reduceIte, KView.ranges, hd] at hw
    split at hw
    · cases hw
    · split at hw
      · cases hw
      · injection hw with hw; rw [← hw]
  have hwdelta : w.delta = v.delta := by
    unfold KView.sliceTime at hw
    simp only [hu, Bool.false_eq_true, ↓reduceIte, KView.ranges, hd] at hw
    split at hw
    · cases hw
    · split at hw
      · cases hw
      · injection hw with hw; rw [← hw]
  -- the slice's own line starts are the window of the parent's
  have hstarts : starts w =
      ((starts v).take (searchsortedLeft (starts v) b)).drop (searchsortedLeft (starts v) a) := by
    have hjn : searchsortedLeft (starts v) b ≤ n := by omega
    simp only [starts, himgw, hwdelta]
    rw [slice_ranges_sublist v.img n hr v.delta _ _ hjn]
    simp [List.map_drop, List.map_take]
  rw [sliceTime_img? w hwu hwd, sliceTime_img? v hu hd, hstarts,
    searchsortedLeft_take_drop _ hs _ _ (by omega) hlej,
    searchsortedLeft_take_drop _ hs _ _ (by omega) hlej,
    searchsortedLeft_max _ hs, searchsortedLeft_min _ hs, himgw, takeCols_takeCols]
  generalize searchsortedLeft (starts v) a = i at *
  generalize searchsortedLeft (starts v) b = j at *
  generalize searchsortedLeft (starts v) c = sc at *
  generalize searchsortedLeft (starts v) d = sd at *
  by_cases hI : max i sc < min j sd
  · rw [if_pos hI, if_pos (by omega)]
    congr 2 <;> omega
  · rw [if_neg hI, if_neg (by omega)]

/-! ## `Kymo.__getitem__` as the user calls it; the kymograph's own time window -/

/-- A scalar item or a slice with a step is refused with `IndexError` whatever the state of the kymograph; a processed
    kymograph refuses every other item with `NotImplementedError` — before the bounds are even looked at. -/
theorem getitem_validation (v : KView) (a b : KBound) :
    v.getitem .scalar = .err .indexError ∧
    v.getitem (.window a b true) = .err .indexError ∧
    (v.processed = true → v.getitem (.window a b false) = .err .notImplemented) := by
  refine ⟨rfl, rfl, ?_⟩
  intro hp
  simp [KView.getitem, hp]

/-- Resolution of the bounds: `None` is the kymograph's own start / stop, an integer is taken as it is, a time string
    that `Timeindex` reads as `ns` nanoseconds counts from the start (`ns ≥ 0`) or back from the stop (`ns < 0`), a
    string it does not accept is a `RuntimeError`; the lines are then selected by `sliceTime`, to which `slice_lines`,
    `slice_empty_iff`, `slice_compose` apply. -/
theorem getitem_resolves (v : KView) (hu : v.processed = false) (a b : KBound) :
    (∀ t, v.resolve t .none = some t) ∧ (∀ d t, v.resolve d (.ts t) = some t) ∧
    (∀ d s ns, C01.parseTime s = some ns → v.resolve d (.str s) = some (if ns ≥ 0 then v.tStart + ns else v.tStop + ns)) ∧
    (∀ d s, C01.parseTime s = none → v.resolve d (.str s) = none) ∧
    (∀ a' b', v.resolve v.tStart a = some a' → v.resolve v.tStop b = some b' →
      v.getitem (.window a b false) = v.sliceTime a' b') ∧
    (v.resolve v.tStart a = none ∨ v.resolve v.tStop b = none →
      v.getitem (.window a b false) = .err .runtimeError) := by
  refine ⟨fun _ => rfl, fun _ _ => rfl, ?_, ?_, ?_, ?_⟩
  · intro d s ns h; simp [KView.resolve, h, C01.resolve]
  · intro d s h; simp [KView.resolve, h]
  · intro a' b' ha hb; simp [KView.getitem, hu, ha, hb]
  · intro h
    simp only [KView.getitem, hu, Bool.false_eq_true, ↓reduceIte]
    rcases h with h | h
    · rw [h]
    · rw [h]; split
      · rename_i h1 h2; cases h2
      · rfl

/-- the lines lie inside `[t0, t1]`, each has positive length, and an earlier line ends before a later one starts -/
def RangesOk (rs : List (Int × Int)) (t0 t1 : Int) : Prop :=
  rs.Pairwise (fun r r' => r.2 ≤ r'.1) ∧ ∀ r ∈ rs, t0 ≤ r.1 ∧ r.1 < r.2 ∧ r.2 ≤ t1

/-- the window invariant of a kymograph view: its own `[start, stop]` contains every line it shows -/
def KWf (v : KView) : Prop := RangesOk (lineRanges v.img v.delta) v.tStart v.tStop

theorem rangesOk_sorted (rs : List (Int × Int)) (t0 t1 : Int) (h : RangesOk rs t0 t1) :
    (rs.map (·.1)).Pairwise (· ≤ ·) := by
  rw [List.pairwise_map]
  refine List.Pairwise.imp_of_mem ?_ h.1
  intro r r' hr _ hle
  have := (h.2 r hr).2.1
  omega

theorem mem_take_drop {α} (l : List α) (i j : Nat) (x : α) (hx : x ∈ (l.take j).drop i) :
    ∃ k, ∃ (hk : k < l.length), i ≤ k ∧ k < j ∧ l[k] = x := by
  obtain ⟨k, hk, rfl⟩ := List.mem_iff_getElem.mp hx
  simp only [List.length_drop, List.length_take] at hk
  refine ⟨i + k, by omega, by omega, by omega, ?_⟩
  simp [List.getElem_drop, List.getElem_take]

theorem rangesOk_window (rs : List (Int × Int)) (t0 t1 : Int) (h : RangesOk rs t0 t1) (i j : Nat) (hij : i < j)
    (hj : j ≤ rs.length) (b : Int) :
    let newStart := ((rs.map (·.1))[i]?).getD 0
    let newStop := if j < (rs.map (·.1)).length then ((rs.map (·.1))[j]?).getD 0
      else max (min b t1) ((rs.getLast?.map (·.2)).getD 0)
    RangesOk ((rs.take j).drop i) newStart newStop ∧ t0 ≤ newStart ∧ newStop ≤ t1 ∧
      (((rs.take j).drop i).head?.map (·.1)) = some newStart := by
  intro newStart newStop
  have hi : i < rs.length := by omega
  have hpw := List.pairwise_iff_getElem.mp h.1
  have hS : newStart = rs[i].1 := by
    simp only [newStart, List.getElem?_map, List.getElem?_eq_getElem hi, Option.map_some, Option.getD_some]
  have hmi := h.2 rs[i] (List.getElem_mem hi)
  have hlastidx : rs.length - 1 < rs.length := by omega
  have hlast : (rs.getLast?.map (·.2)).getD 0 = rs[rs.length - 1].2 := by
    rw [List.getLast?_eq_getElem?, List.getElem?_eq_getElem hlastidx]; rfl
  have hml := h.2 rs[rs.length - 1] (List.getElem_mem hlastidx)
  have hT : (j < rs.length → newStop = (rs[j]?.map (·.1)).getD 0) ∧
      (¬ j < rs.length → newStop = max (min b t1) rs[rs.length - 1].2) := by
    constructor
    · intro hlt; simp only [newStop, List.length_map, hlt, ↓reduceIte, List.getElem?_map]
    · intro hge; simp only [newStop, List.length_map, hge, ↓reduceIte, hlast]
  refine ⟨⟨(h.1.sublist (List.take_sublist j rs)).sublist (List.drop_sublist i _), ?_⟩, ?_, ?_, ?_⟩
  · intro r hr
    obtain ⟨k, hk, hik, hkj, rfl⟩ := mem_take_drop rs i j r hr
    have hmk := h.2 rs[k] (List.getElem_mem hk)
    refine ⟨?_, hmk.2.1, ?_⟩
    · rw [hS]
      by_cases hki : k = i
      · subst hki; omega
      · have := hpw i k hi hk (by omega); omega
    · by_cases hlt : j < rs.length
      · rw [hT.1 hlt, List.getElem?_eq_getElem hlt]
        have := hpw k j hk hlt hkj
        simpa using this
      · rw [hT.2 hlt]
        by_cases hkl : k = rs.length - 1
        · subst hkl; omega
        · have := hpw k (rs.length - 1) hk hlastidx (by omega); omega
  · rw [hS]; omega
  · by_cases hlt : j < rs.length
    · rw [hT.1 hlt, List.getElem?_eq_getElem hlt]
      have := h.2 rs[j] (List.getElem_mem hlt)
      simp only [Option.map_some, Option.getD_some]; omega
    · rw [hT.2 hlt]; omega
  · rw [hS, List.head?_drop, List.getElem?_take, if_pos hij, List.getElem?_eq_getElem hi]; rfl


/-- what a time slice that shows something is made of -/
theorem sliceTime_view (v : KView) (hu : v.processed = false) (hd : v.rangesDefined = true) (a b : Int) (w : KView)
    (hw : v.sliceTime a b = .view w) :
    searchsortedLeft (starts v) a < searchsortedLeft (starts v) b ∧
    w.img = takeCols v.img (searchsortedLeft (starts v) a) (searchsortedLeft (starts v) b) ∧
    w.delta = v.delta ∧ w.processed = false ∧ w.rangesDefined = true ∧
    w.tStart = ((starts v)[searchsortedLeft (starts v) a]?).getD 0 ∧
    w.tStop = (if searchsortedLeft (starts v) b < (starts v).length then ((starts v)[searchsortedLeft (starts v) b]?).getD 0
      else max (min b v.tStop) (((lineRanges v.img v.delta).getLast?.map (·.2)).getD 0)) := by
  have hle := searchsortedLeft_le_length (starts v) b
  unfold KView.sliceTime at hw
  simp only [hu, Bool.false_eq_true, ↓reduceIte, KView.ranges, hd] at hw
  split at hw
  · cases hw
  · split at hw
    · cases hw
    · rename_i h1 h2
      have h1' : ¬ searchsortedLeft (starts v) a = (starts v).length := h1
      have h2' : ¬ searchsortedLeft (starts v) a ≥ searchsortedLeft (starts v) b := h2
      injection hw with hw
      subst hw
      refine ⟨by omega, rfl, rfl, rfl, rfl, rfl, rfl⟩

/-- **The time window of a time slice.**  If the kymograph's `[start, stop]` contains its lines (in order, not
    overlapping), then so does the slice's; the slice starts exactly with its first line, its window lies inside the
    parent's, and its line ranges are the parent's ranges of the selected lines. -/
theorem slice_window (v : KView) (n : Nat) (hr : Rect v.img n) (hne : v.img ≠ [])
    (hu : v.processed = false) (hd : v.rangesDefined = true) (wf : KWf v) (a b : Int) (w : KView)
    (hw : v.sliceTime a b = .view w) :
    KWf w ∧ v.tStart ≤ w.tStart ∧ w.tStop ≤ v.tStop ∧ (starts w).head? = some w.tStart ∧
    lineRanges w.img w.delta =
      ((lineRanges v.img v.delta).take (searchsortedLeft (starts v) b)).drop (searchsortedLeft (starts v) a) := by
  obtain ⟨hij, himg, hdelta, _, _, hs0, hs1⟩ := sliceTime_view v hu hd a b w hw
  have hlen : (starts v).length = n := by
    cases himg' : v.img with
    | nil => exact absurd himg' hne
    | cons r0 rs =>
      have : r0.length = n := hr r0 (by rw [himg']; simp)
      simp [starts, lineRanges, himg', numCols, this]
  have hlej := searchsortedLeft_le_length (starts v) b
  have hrs : lineRanges w.img w.delta =
      ((lineRanges v.img v.delta).take (searchsortedLeft (starts v) b)).drop (searchsortedLeft (starts v) a) := by
    rw [himg, hdelta]; exact slice_ranges_sublist v.img n hr v.delta _ _ (by omega)
  have hlen' : (lineRanges v.img v.delta).length = (starts v).length := by simp [starts]
  have key := rangesOk_window (lineRanges v.img v.delta) v.tStart v.tStop wf _ _ hij (by omega) b
  simp only at key
  obtain ⟨k1, k2, k3, k4⟩ := key
  refine ⟨?_, ?_, ?_, ?_, hrs⟩
  · unfold KWf; rw [hrs, hs0, hs1]; exact k1
  · rw [hs0]; exact k2
  · rw [hs1]; exact k3
  · rw [hs0]; simp only [starts, hrs, List.head?_map]; exact k4

/-- `kymo[:]` (both bounds `None`) shows every line: the image is unchanged. -/
theorem getitem_all (v : KView) (n : Nat) (hr : Rect v.img n) (hne : v.img ≠ []) (hn : 0 < n)
    (hu : v.processed = false) (hd : v.rangesDefined = true) (wf : KWf v) :
    (match v.getitem (.window .none .none false) with | .view w => w.img = v.img | _ => False) := by
  have hlen : (starts v).length = n := by
    cases himg' : v.img with
    | nil => exact absurd himg' hne
    | cons r0 rs =>
      have : r0.length = n := hr r0 (by rw [himg']; simp)
      simp [starts, lineRanges, himg', numCols, this]
  have hsorted : (starts v).Pairwise (· ≤ ·) := rangesOk_sorted _ _ _ wf
  have hmem : ∀ k (hk : k < (starts v).length), v.tStart ≤ (starts v)[k] ∧ (starts v)[k] < v.tStop := by
    intro k hk
    have hk' : k < (lineRanges v.img v.delta).length := by simpa [starts] using hk
    have := wf.2 _ (List.getElem_mem hk')
    have e : (starts v)[k] = (lineRanges v.img v.delta)[k].1 := by simp [starts]
    rw [e]; omega
  have h0 : searchsortedLeft (starts v) v.tStart = 0 := by
    apply searchsortedLeft_unique (starts v) hsorted v.tStart 0 (Nat.zero_le _)
    intro k hk; have := hmem k hk; omega
  have h1 : searchsortedLeft (starts v) v.tStop = n := by
    apply searchsortedLeft_unique (starts v) hsorted v.tStop n (Nat.le_of_eq hlen.symm)
    intro k hk; have := hmem k hk; omega
  have hg : v.getitem (.window .none .none false) = v.sliceTime v.tStart v.tStop := by
    simp [KView.getitem, hu, KView.resolve]
  have h := slice_lines v hu hd hsorted v.tStart v.tStop
  rw [hg]
  cases hres : v.sliceTime v.tStart v.tStop with
  | view w =>
    rw [hres] at h
    simp only
    rw [h.2.1, h0, h1]
    simp only [takeCols, List.drop_zero]
    conv => rhs; rw [← List.map_id v.img]
    apply List.map_congr_left
    intro r hrm
    rw [← hr r hrm]; simp
  | empty => rw [hres] at h; exact absurd (by omega : searchsortedLeft (starts v) v.tStart < searchsortedLeft (starts v) v.tStop) h.2
  | err e => rw [hres] at h; exact h.2


/-- the window invariant gives the hypothesis of `slice_lines` / `slice_compose`: line starts in order -/
theorem kwf_starts_sorted (v : KView) (wf : KWf v) : (starts v).Pairwise (· ≤ ·) := rangesOk_sorted _ _ _ wf

/-- the order hypothesis of `slice_lines` is needed: on starts that are not in order `searchsorted` does not find the
    line that lies in the window (kernel-checked instance: a test of the hypothesis, not a statement about all inputs) -/
example : let l : List Int := [10, 30, 20]
    ¬ (∀ c (hc : c < l.length), (searchsortedLeft l 15 ≤ c ∧ c < searchsortedLeft l 25) ↔ (15 ≤ l[c] ∧ l[c] < 25)) := by
  decide

/-- non-vacuity of `KWf`: three lines of two pixels, window `[90, 400]`; `kymo["110ns":"-100ns"]` keeps the middle
    line and its window is `[200, 300]` -/
def exKymo : KView :=
  { img := [[⟨1, 100, 110⟩, ⟨2, 200, 210⟩, ⟨3, 300, 310⟩], [⟨4, 120, 130⟩, ⟨5, 220, 230⟩, ⟨6, 320, 330⟩]],
    rangesDefined := true, delta := 10, px := 1, unit := 0, pxUm := some 1, lineTimeNs := 100, scanTimeNs := 40,
    processed := false, offset := 0, tStart := 90, tStop := 400 }

example : KWf exKymo := by
  unfold KWf RangesOk exKymo
  decide

example : (match exKymo.getitem (.window (.str "20ns") (.str "-100ns") false) with
    | .view w => decide (values w.img = [[2], [5]] ∧ w.tStart = 200 ∧ w.tStop = 300)
    | _ => false) = true := by decide +kernel

/-! ## Flip -/

theorem values_zipWith_left (a b : List Pix) (h : a.length = b.length) :
    (List.zipWith (fun (c t : Pix) => (⟨c.v, t.tmin, t.tmax⟩ : Pix)) a b).map (·.v) = a.map (·.v) := by
  induction a generalizing b with
  | nil => simp
  | cons x xs ih =>
    cases b with
    | nil => simp at h
    | cons y ys => simp [ih ys (by simpa using h)]

/-- `flip()` reverses the rows of the photon-count image. -/
theorem flip_rows (v : KView) (n : Nat) (hr : Rect v.img n) :
    (match v.flip with | .view w => values w.img = (values v.img).reverse ∧ w.px = v.px | _ => False) := by
  unfold KView.flip
  simp only [values, and_true]
  rw [← List.map_reverse]
  generalize hrev : v.img.reverse = rv
  have hlen : rv.length = v.img.length := by rw [← hrev]; simp
  have hr' : Rect rv n := by intro r hrm; rw [← hrev] at hrm; exact hr r (by simpa using hrm)
  clear hrev
  generalize v.img = im at *
  induction rv generalizing im with
  | nil => simp
  | cons x xs ih =>
    cases im with
    | nil => simp at hlen
    | cons y ys =>
      simp only [List.zipWith_cons_cons, List.map_cons, List.cons.injEq]
      refine ⟨values_zipWith_left x y ?_, ih (fun r hrm => hr' r (by simp [hrm])) ys (fun r hrm => hr r (by simp [hrm])) (by simpa using hlen)⟩
      rw [hr' x (by simp), hr y (by simp)]

theorem flip_flip (img : List (List Int)) : img.reverse.reverse = img := List.reverse_reverse img

/-! ## Down-sampling -/

/-- The down-sampled image has `⌊P/pf⌋` rows; incomplete blocks are dropped. -/
theorem down_shape (img : Img) (pf tf : Nat) (hpf : 0 < pf) :
    (blockReduce img pf tf).length = img.length / pf := by
  unfold blockReduce; simp [chunks_length pf hpf]

/-- Row `i` of the result is built from source rows `i·pf … i·pf + pf − 1` only, and each of its
    entries from `tf` consecutive columns of their element-wise reduction. -/
theorem down_entry (img : Img) (pf tf : Nat) (hpf : 0 < pf) (htf : 0 < tf) (i : Nat)
    (hi : i < (blockReduce img pf tf).length) :
    (blockReduce img pf tf)[i] =
      (chunks tf (addRows ((img.drop (i * pf)).take pf))).map sumPix ∧
    ∀ j (hj : j < (chunks tf (addRows ((img.drop (i * pf)).take pf))).length),
      (chunks tf (addRows ((img.drop (i * pf)).take pf)))[j] =
        ((addRows ((img.drop (i * pf)).take pf)).drop (j * tf)).take tf := by
  have hi' : i < (chunks pf img).length := by
    simpa [blockReduce] using hi
  refine ⟨?_, fun j hj => chunks_getElem tf htf _ j hj⟩
  simp only [blockReduce, List.getElem_map]
  rw [chunks_getElem pf hpf img i hi']

/-- Factors 1 leave the image as it is (every pixel is its own block). -/
theorem down_one_rows (l : List Pix) : (chunks 1 l).map sumPix = l := by
  rw [chunks_one, List.map_map]
  have : (sumPix ∘ fun x => [x]) = id := by funext x; rfl
  rw [this, List.map_id]

theorem down_one (img : Img) : blockReduce img 1 1 = img := by
  unfold blockReduce
  rw [chunks_one]
  simp only [List.map_map]
  have : ∀ r : List Pix, ((fun rowBlock => (chunks 1 (addRows rowBlock)).map sumPix) ∘ fun x => [x]) r = r := by
    intro r; simp [addRows, down_one_rows]
  rw [List.map_congr_left (fun r _ => this r)]
  simp

/-- Down-sampling scales pixel size and line time and divides the pixel count. -/
theorem down_calibration (v : KView) (tf pf : Nat) (htf : 0 < tf) (hpf : 0 < pf) (hu : v.unit ≠ 2) :
    (match v.down tf pf with
     | .view w => w.px = v.px * pf ∧ w.lineTimeNs = v.lineTimeNs * tf ∧
                  w.pixelsPerLine = v.pixelsPerLine / pf ∧ (tf ≠ 1 → w.ranges = none)
     | _ => False) := by
  unfold KView.down
  have : ¬ (tf = 0 ∨ pf = 0) := by omega
  simp only [this, ↓reduceIte, hu, KView.pixelsPerLine, down_shape _ _ _ hpf, true_and]
  intro h; simp [KView.ranges, h]

/-! ## Down-sampling: the sum over the whole block -/

/-- photon counts of the pixels `k ≤ c < k + t` of a row, added up -/
def winSum (k t : Nat) (r : List Pix) : Int := (((r.drop k).take t).map (·.v)).sum

theorem sum_append_int (a b : List Int) : (a ++ b).sum = a.sum + b.sum := by
  induction a with
  | nil => simp
  | cons x xs ih => simp [ih]; omega

theorem foldl_add_v (ps : List Pix) (p : Pix) : (ps.foldl Pix.add p).v = p.v + (ps.map (·.v)).sum := by
  induction ps generalizing p with
  | nil => simp
  | cons q qs ih => simp [ih, Pix.add]; omega

theorem sumPix_v (l : List Pix) : (sumPix l).v = (l.map (·.v)).sum := by
  cases l with
  | nil => rfl
  | cons p ps => simp [sumPix, foldl_add_v]

theorem sum_zipWith_add (a b : List Pix) (h : a.length = b.length) :
    ((List.zipWith Pix.add a b).map (·.v)).sum = (a.map (·.v)).sum + (b.map (·.v)).sum := by
  induction a generalizing b with
  | nil => cases b with
    | nil => simp
    | cons y ys => simp at h
  | cons x xs ih =>
    cases b with
    | nil => simp at h
    | cons y ys =>
      have := ih ys (by simpa using h)
      simp only [List.zipWith_cons_cons, List.map_cons, List.sum_cons, this, Pix.add]
      omega

theorem winSum_zipWith (k t : Nat) (a b : List Pix) (h : a.length = b.length) :
    winSum k t (List.zipWith Pix.add a b) = winSum k t a + winSum k t b := by
  unfold winSum
  rw [List.drop_zipWith, List.take_zipWith]
  apply sum_zipWith_add
  simp [h]

theorem foldl_zipWith_spec (k t n : Nat) (rs : List (List Pix)) (hr : Rect rs n) (acc : List Pix) (ha : acc.length = n) :
    (rs.foldl (fun acc x => List.zipWith Pix.add acc x) acc).length = n ∧
    winSum k t (rs.foldl (fun acc x => List.zipWith Pix.add acc x) acc) = winSum k t acc + (rs.map (winSum k t)).sum := by
  induction rs generalizing acc with
  | nil => simp [ha]
  | cons x xs ih =>
    have hx : x.length = n := hr x (by simp)
    have hl : (List.zipWith Pix.add acc x).length = n := by simp [ha, hx]
    have := ih (fun r hrm => hr r (by simp [hrm])) (List.zipWith Pix.add acc x) hl
    simp only [List.foldl_cons, List.map_cons, List.sum_cons]
    refine ⟨this.1, ?_⟩
    rw [this.2, winSum_zipWith k t acc x (by omega)]
    omega

theorem block2d_sum (band : List (List Pix)) (tf j : Nat) :
    ((block2d band tf j).map (·.v)).sum = (band.map (winSum (j * tf) tf)).sum := by
  unfold block2d
  induction band with
  | nil => simp
  | cons r rs ih => simp only [List.flatMap_cons, List.map_append, sum_append_int, ih, List.map_cons, List.sum_cons]; rfl

/-- **Binning adds up exactly the pixels of the block.**  On a rectangular image with `n` lines, row `i` of the
    down-sampled image has `⌊n / tf⌋` entries and entry `j` holds the sum of the photon counts of ALL pixels of the
    two-dimensional block — source rows `i·pf … i·pf + pf − 1` × lines `j·tf … j·tf + tf − 1` — although the code adds
    the rows of a band first and then the lines (specification: a plain sum over the block, as for `down_with_entry`). -/
theorem down_entry_sum (img : Img) (n : Nat) (hr : Rect img n) (pf tf : Nat) (hpf : 0 < pf) (htf : 0 < tf) (i : Nat)
    (hi : i < (blockReduce img pf tf).length) :
    ((blockReduce img pf tf)[i]).length = n / tf ∧
    ∀ j (hj : j < ((blockReduce img pf tf)[i]).length),
      (((blockReduce img pf tf)[i])[j]).v = ((block2d ((img.drop (i * pf)).take pf) tf j).map (·.v)).sum := by
  have hi' : i < img.length / pf := by rw [← down_shape img pf tf hpf]; exact hi
  obtain ⟨hrow, hchunk⟩ := down_entry img pf tf hpf htf i hi
  -- the band of source rows
  have hmul : i * pf + pf ≤ img.length := by
    have := Nat.div_mul_le_self img.length pf
    have : (i + 1) * pf ≤ img.length / pf * pf := Nat.mul_le_mul_right pf (by omega)
    rw [Nat.add_mul] at this; omega
  have hbl : ((img.drop (i * pf)).take pf).length = pf := by simp; omega
  have hbr : Rect ((img.drop (i * pf)).take pf) n := fun r hrm => hr r (List.mem_of_mem_drop (List.mem_of_mem_take hrm))
  generalize hband : (img.drop (i * pf)).take pf = band at *
  cases band with
  | nil => simp at hbl; omega
  | cons r0 rs =>
    have h0 : r0.length = n := hbr r0 (by simp)
    have hrs : Rect rs n := fun r hrm => hbr r (by simp [hrm])
    have hlen : (addRows (r0 :: rs)).length = n := (foldl_zipWith_spec 0 0 n rs hrs r0 h0).1
    have hcl : (chunks tf (addRows (r0 :: rs))).length = n / tf := by rw [chunks_length tf htf, hlen]
    constructor
    · rw [hrow, List.length_map, hcl]
    · intro j hj
      have hj' : j < (chunks tf (addRows (r0 :: rs))).length := by
        rw [hrow, List.length_map] at hj; exact hj
      have e : ((blockReduce img pf tf)[i])[j] = sumPix ((chunks tf (addRows (r0 :: rs)))[j]) := by
        simp only [hrow, List.getElem_map]
      rw [e, hchunk j hj', sumPix_v, block2d_sum]
      have := (foldl_zipWith_spec (j * tf) tf n rs hrs r0 h0).2
      simp only [List.map_cons, List.sum_cons]
      exact this

/-! ## Recalibration -/

theorem kbp_pixelsize (v : KView) (len : Rat) (hu : v.unit ≠ 1) (hp : v.pixelsPerLine ≠ 0) :
    (match v.kbp len with
     | .view w => w.px = len / v.pixelsPerLine ∧ w.unit = 1 ∧ w.img = v.img ∧ w.processed = v.processed
     | _ => False) := by
  unfold KView.kbp; simp [hu, hp]

theorem kbp_twice (v : KView) (len : Rat) (hu : v.unit = 1) :
    (match v.kbp len with | .err .runtimeError => True | _ => False) := by
  unfold KView.kbp; simp [hu]

/-! ## Downsampling with another reducer -/

/-- With any reducer the result has `⌊P/pf⌋` rows; row `i` has one entry per full block of `tf` columns of the band
    of source rows `i·pf … i·pf + pf − 1`, and entry `j` is the reducer applied to ALL pixels of the two-dimensional
    block (rows of the band × columns `j·tf … j·tf + tf − 1`) — not a reduction of per-axis reductions. -/
theorem down_with_entry (red : Red) (img : Img) (pf tf : Nat) (hpf : 0 < pf) :
    (blockReduceWith red img pf tf).length = img.length / pf ∧
    ∀ i (hi : i < (blockReduceWith red img pf tf).length),
      let band := (img.drop (i * pf)).take pf
      ((blockReduceWith red img pf tf)[i]).length = numCols band / tf ∧
      ∀ j (hj : j < ((blockReduceWith red img pf tf)[i]).length),
        (((blockReduceWith red img pf tf)[i])[j]).v =
          red.apply ((band.flatMap fun r => (r.drop (j * tf)).take tf).map (·.v)) := by
  constructor
  · unfold blockReduceWith; simp [chunks_length pf hpf]
  · intro i hi
    have hi' : i < (chunks pf img).length := by unfold blockReduceWith at hi; simpa using hi
    have hrow : (blockReduceWith red img pf tf)[i] =
        (List.range (numCols ((img.drop (i * pf)).take pf) / tf)).map fun j =>
          let b := block2d ((img.drop (i * pf)).take pf) tf j
          (⟨red.apply (b.map (·.v)), minList (b.map (·.tmin)), maxList (b.map (·.tmax))⟩ : Pix) := by
      have := chunks_getElem pf hpf img i hi'
      simp only [blockReduceWith, List.getElem_map, this]
    simp only
    rw [hrow]
    refine ⟨by simp, ?_⟩
    intro j hj
    simp only [List.getElem_map, List.getElem_range, block2d]

/-- `np.ptp` over a block is not the `ptp` of per-axis `ptp`s: a 2×2 witness (the seeded change C06d-m1 computes
    the right-hand side). -/
example :
    let img : Img := [[⟨1, 0, 0⟩, ⟨5, 0, 0⟩], [⟨2, 0, 0⟩, ⟨2, 0, 0⟩]]
    values (blockReduceWith .ptp img 2 2) = [[4]] ∧
    values (blockReduceWith .ptp (blockReduceWith .ptp img 2 1) 1 2) = [[2]] := by decide +kernel

/-! ## Scans: frame indexing and pixel crops -/

/-- An integer index selects the frame Python list indexing selects (negative indices wrap once,
    anything else is an `IndexError`), then crops it; an empty crop is refused. -/
theorem scan_index_refines (v : SView) (i : Int) (y0 y1 x0 x1 : Option Int) :
    v.index i y0 y1 x0 x1 =
      match pyIndex v.frames i with
      | none => .err .indexError
      | some f =>
        if emptyAxis (cropFrame f y0 y1 x0 x1) then .err .notImplemented
        else .view { v with frames := [cropFrame f y0 y1 x0 x1] } := by
  unfold SView.index pyIndex SView.numFrames
  by_cases hi : i < 0
  · have h1 : ¬ i ≥ 0 := by omega
    simp only [hi, ↓reduceIte, h1]
    by_cases h2 : i + (v.frames.length : Int) < 0
    · have : (v.frames.length : Int) + i < 0 ∨ (v.frames.length : Int) + i ≥ v.frames.length := by omega
      simp [h2, this]
    · have : ¬ ((v.frames.length : Int) + i < 0 ∨ (v.frames.length : Int) + i ≥ v.frames.length) := by omega
      simp only [h2, ↓reduceIte, this]
      have e : ((v.frames.length : Int) + i).toNat = (i + (v.frames.length : Int)).toNat := by
        congr 1; omega
      rw [e]
      have hlt : (i + (v.frames.length : Int)).toNat < v.frames.length := by omega
      rw [List.getElem?_eq_getElem hlt]
  · have h1 : i ≥ 0 := by omega
    simp only [hi, ↓reduceIte, h1]
    by_cases h2 : i ≥ (v.frames.length : Int)
    · have : (i < 0 ∨ i ≥ (v.frames.length : Int)) := Or.inr h2
      have hnone : v.frames[i.toNat]? = none := by
        rw [List.getElem?_eq_none_iff]; omega
      simp [this, hnone]
    · have : ¬ (False ∨ i ≥ (v.frames.length : Int)) := by
        intro h; rcases h with h | h
        · exact h
        · exact h2 h
      rw [if_neg this]
      have hlt : i.toNat < v.frames.length := by omega
      rw [List.getElem?_eq_getElem hlt]

/-- A frame slice selects the frames Python list slicing selects; an empty selection is the empty
    (falsy) scan; an empty pixel crop is refused. -/
theorem scan_slice_refines (v : SView) (a b y0 y1 x0 x1 : Option Int) :
    v.slice a b y0 y1 x0 x1 =
      if pySliceOpt v.frames a b = [] then .empty
      else if (pySliceOpt v.frames a b).any (fun f => emptyAxis (cropFrame f y0 y1 x0 x1)) then .err .notImplemented
      else .view { v with frames := (pySliceOpt v.frames a b).map (fun f => cropFrame f y0 y1 x0 x1) } := by
  unfold SView.slice
  by_cases h : pySliceOpt v.frames a b = []
  · simp [h]
  · have : ¬ (pySliceOpt v.frames a b).length = 0 := fun hl => h (List.length_eq_zero_iff.mp hl)
    simp only [this, ↓reduceIte, h, List.any_map]
    rfl

/-- Cropping never changes which frames are selected and frame selection never changes the crop:
    the two orders give the same frames. -/
theorem scan_crop_commutes_with_frames (fs : List Frame) (a b y0 y1 x0 x1 : Option Int) :
    (pySliceOpt fs a b).map (fun f => cropFrame f y0 y1 x0 x1) =
      pySliceOpt (fs.map fun f => cropFrame f y0 y1 x0 x1) a b := by
  unfold pySliceOpt pySlice
  simp only [List.length_map, List.map_drop, List.map_take]

/-- Two successive frame slices with non-negative bounds compose like list slices. -/
theorem scan_slice_slice {α} (fs : List α) (a b c d : Nat) :
    (((fs.take b).drop a).take d).drop c = (fs.take (min b (a + d))).drop (a + c) :=
  crop_crop fs a b c d

/-! ## Scans: what a derived view reports about its pixels -/

/-- the crop of `cropFrame` on any rows × columns table -/
def cropRows {α} (f : List (List α)) (y0 y1 x0 x1 : Option Int) : List (List α) :=
  (pySliceOpt f y0 y1).map fun row => pySliceOpt row x0 x1

theorem pySliceOpt_map' {α β} (g : α → β) (l : List α) (a b : Option Int) :
    pySliceOpt (l.map g) a b = (pySliceOpt l a b).map g := by
  unfold pySliceOpt pySlice
  simp only [List.length_map, List.map_drop, List.map_take]

/-- Per-pixel timestamps of a frame-sliced and cropped scan are the same selection applied to the source's
    per-pixel timestamps (no pixel gets the timestamp of another one). -/
theorem scan_slice_timestamps (v w : SView) (a b y0 y1 x0 x1 : Option Int)
    (h : v.slice a b y0 y1 x0 x1 = .view w) :
    w.timestamps = (pySliceOpt v.timestamps a b).map fun f => cropRows f y0 y1 x0 x1 := by
  rw [scan_slice_refines] at h
  split at h
  · cases h
  · split at h
    · cases h
    · injection h with h
      subst h
      unfold SView.timestamps cropRows cropFrame
      simp only [pySliceOpt_map', List.map_map]
      apply List.map_congr_left
      intro f _
      simp only [Function.comp_apply, pySliceOpt_map', List.map_map]
      apply List.map_congr_left
      intro row _
      simp only [Function.comp_apply, pySliceOpt_map']

/-- an element of a Python slice sits at a fixed offset in the source -/
theorem getElem?_pySliceOpt {α} (l : List α) (a b : Option Int) (n : Nat) (x : α)
    (h : (pySliceOpt l a b)[n]? = some x) : l[pyNorm l.length (a.getD 0) + n]? = some x := by
  unfold pySliceOpt pySlice at h
  rw [List.getElem?_drop, List.getElem?_take] at h
  split at h
  · exact h
  · cases h

theorem mem_pySliceOpt {α} {l : List α} {a b : Option Int} {x : α} (h : x ∈ pySliceOpt l a b) : x ∈ l := by
  unfold pySliceOpt pySlice at h
  exact List.mem_of_mem_take (List.mem_of_mem_drop h)

/-- pixel `[r][c]` of a frame -/
def pixAt (f : Frame) (r c : Nat) : Option Pix := (f[r]?).bind (·[c]?)

/-- Every two pixels of the view that are neighbours along the FAST axis are `pt` apart in time. -/
def FastStep (v : SView) (pt : Int) : Prop :=
  ∀ f ∈ v.frames, ∀ r c p q, pixAt f r c = some p →
    pixAt f (if v.fastRows then r + 1 else r) (if v.fastRows then c else c + 1) = some q → q.tmean - p.tmean = pt

theorem pixAt_cropFrame (f : Frame) (n : Nat) (hrect : Rect f n) (y0 y1 x0 x1 : Option Int) (r c : Nat) (p : Pix)
    (h : pixAt (cropFrame f y0 y1 x0 x1) r c = some p) :
    pixAt f (pyNorm f.length (y0.getD 0) + r) (pyNorm n (x0.getD 0) + c) = some p := by
  unfold pixAt cropFrame at h
  rw [List.getElem?_map] at h
  cases hrow : (pySliceOpt f y0 y1)[r]? with
  | none => rw [hrow] at h; cases h
  | some row =>
    rw [hrow] at h
    simp only [Option.map_some, Option.bind_some] at h
    have h1 := getElem?_pySliceOpt f y0 y1 r row hrow
    have hlen : row.length = n := hrect row (List.mem_of_getElem? h1)
    have h2 := getElem?_pySliceOpt row x0 x1 c p h
    unfold pixAt
    rw [h1]
    simp only [Option.bind_some]
    rw [← hlen]; exact h2

/-- Slicing frames and cropping pixels keeps the spacing of fast-axis neighbours: the pixel time of the source
    is the pixel time of every derived view — **for either orientation of the fast axis**. -/
theorem scan_slice_keeps_fast_step (v w : SView) (pt : Int) (n : Nat) (hrect : ∀ f ∈ v.frames, Rect f n)
    (hstep : FastStep v pt) (a b y0 y1 x0 x1 : Option Int) (h : v.slice a b y0 y1 x0 x1 = .view w) :
    FastStep w pt := by
  rw [scan_slice_refines] at h
  split at h
  · cases h
  · split at h
    · cases h
    · injection h with h
      subst h
      intro g hg r c p q hp hq
      simp only [List.mem_map] at hg
      obtain ⟨f, hf, rfl⟩ := hg
      have hfv : f ∈ v.frames := mem_pySliceOpt hf
      have hp' := pixAt_cropFrame f n (hrect f hfv) y0 y1 x0 x1 r c p hp
      have hq' := pixAt_cropFrame f n (hrect f hfv) y0 y1 x0 x1 _ _ q hq
      refine hstep f hfv _ _ p q hp' ?_
      simp only at hq' ⊢
      cases hfr : v.fastRows <;> simp only [hfr, Bool.false_eq_true, ↓reduceIte] at hq' ⊢
      · rw [← hq']; congr 1
      · rw [← hq']; congr 1

/-- The pixel time a derived view reports (difference between pixel `[0,0]` and its fast-axis neighbour in the
    first frame) is the fast-axis spacing, whenever it is defined at all. -/
theorem scan_pixel_time_of_fast_step (w : SView) (pt t : Int) (hstep : FastStep w pt) (h : w.pixelTime = some t) :
    t = pt := by
  unfold SView.pixelTime at h
  cases hf : w.frames.head? with
  | none => rw [hf] at h; cases h
  | some f =>
    rw [hf] at h
    simp only [Option.bind_eq_bind, Option.bind_some] at h
    have hmem : f ∈ w.frames := List.mem_of_head? hf
    cases ha : (f[0]?).bind (·[0]?) with
    | none => rw [ha] at h; cases h
    | some p =>
      rw [ha] at h
      simp only [Option.bind_some] at h
      cases hfr : w.fastRows
      · simp only [hfr, Bool.false_eq_true, ↓reduceIte] at h
        cases hb : (f[0]?).bind (·[1]?) with
        | none => rw [hb] at h; cases h
        | some q =>
          rw [hb] at h
          simp only [Option.bind_some, Option.some.injEq] at h
          rw [← h]
          refine hstep f hmem 0 0 p q ha ?_
          simp only [hfr, Bool.false_eq_true, ↓reduceIte]
          exact hb
      · simp only [hfr, ↓reduceIte] at h
        cases hb : (f[1]?).bind (·[0]?) with
        | none => rw [hb] at h; cases h
        | some q =>
          rw [hb] at h
          simp only [Option.bind_some, Option.some.injEq] at h
          rw [← h]
          refine hstep f hmem 0 0 p q ha ?_
          simp only [hfr, ↓reduceIte]
          exact hb

/-- Pixel counts follow the image: a view with `R` rows and `C` columns reports `C` pixels per line and `R` lines
    per frame when the fast axis runs along the columns, and the other way round when it runs down the rows. -/
theorem scan_pixel_counts (v : SView) (f : Frame) (fs : List Frame) (h : v.frames = f :: fs) :
    (v.pixelsPerLine, v.linesPerFrame) =
      if v.fastRows then (f.length, numColsF f) else (numColsF f, f.length) := by
  unfold SView.pixelsPerLine SView.linesPerFrame
  rw [h]
  cases v.fastRows <;> simp

/-- non-vacuity: a 2×3 frame scanned along the columns with 20 ns between neighbours; cropping columns `1:` gives a
    view that reports 20 ns -/
def exScan : SView :=
  ⟨[[[⟨1, 0, 10⟩, ⟨1, 20, 30⟩, ⟨1, 40, 50⟩], [⟨1, 100, 110⟩, ⟨1, 120, 130⟩, ⟨1, 140, 150⟩]]], 10, false, 0, 200⟩

example : (match exScan.slice none none none none (some 1) none with
     | .view w => decide (w.pixelTime = some 20 ∧ w.pixelsPerLine = 2 ∧ w.linesPerFrame = 2)
     | _ => false) = true := by decide

/-- Time → frame index: the number of frames that start (resp. stop) before the timestamp. -/
theorem time_to_frame_start (v : SView) (t : Int) (hs : (v.ranges.map (·.1)).Pairwise (· ≤ ·)) (c : Nat)
    (hc : c < (v.ranges.map (·.1)).length) :
    ((c : Int) < v.timeToFrame t true) ↔ (v.ranges.map (·.1))[c] < t := by
  unfold SView.timeToFrame
  simp only [↓reduceIte, Int.ofNat_lt]
  exact lt_searchsortedLeft_iff _ hs t c hc

/-! ## Scans: `scan[item]` as the user calls it -/

theorem axis_check_error (x : SAxisItem) (e : Err) (h : x.check = .error e) : e = .indexError := by
  cases x with
  | slice a b step =>
    simp only [SAxisItem.check] at h
    split at h
    · injection h with h; exact h.symm
    · cases h
  | int => injection h with h; exact h.symm
  | other => injection h with h; exact h.symm

theorem mapM_check_error (sp : List SAxisItem) (h : ∃ x ∈ sp, ∃ e, x.check = .error e) :
    sp.mapM SAxisItem.check = .error .indexError := by
  induction sp with
  | nil => obtain ⟨x, hx, _⟩ := h; cases hx
  | cons y ys ih =>
    rw [List.mapM_cons]
    cases hy : y.check with
    | error e => rw [axis_check_error y e hy]; rfl
    | ok r =>
      obtain ⟨x, hx, e, he⟩ := h
      have hx' : x ∈ ys := by
        rcases List.mem_cons.mp hx with rfl | hx'
        · rw [hy] at he; cases he
        · exact hx'
      rw [ih ⟨x, hx', e, he⟩]; rfl

/-- Refused items: a frame item that is neither an integer nor a slice, a frame slice with a step — `IndexError`
    whatever else is written; with an integer frame index, any spatial item that is not a slice without step (a scalar,
    a stepped slice, anything else) — `IndexError` as well, before any frame is looked up. -/
theorem scan_getitem_validation (v : SView) (a b : SBound) (i : Int) (sp : List SAxisItem) :
    v.getitem .other sp = .err .indexError ∧
    v.getitem (.slice a b true) sp = .err .indexError ∧
    ((∃ x ∈ sp, ∃ e, x.check = .error e) → v.getitem (.int i) sp = .err .indexError) := by
  refine ⟨rfl, rfl, ?_⟩
  intro h
  simp only [SView.getitem, mapM_check_error sp h]

/-- How a bound of the frame slice is read: `None` stays open; an integer below `_FIRST_TIMESTAMP` is a frame index
    as it stands; an integer from `_FIRST_TIMESTAMP` on is looked up in the frame starts / stops; a time string that
    `Timeindex` reads as `ns` is the timestamp `start + ns` (`ns ≥ 0`) or `stop + ns` (`ns < 0`) of the scan's own window,
    then treated like an integer; a string `Timeindex` rejects is a `RuntimeError`; anything that is neither a number nor a
    string (a list, …) is an `IndexError`. -/
theorem scan_bound_resolution (v : SView) (isStart : Bool) :
    v.timeToFrameB isStart .none = .ok none ∧
    v.timeToFrameB isStart .other = .error .indexError ∧
    (∀ n, n < firstTimestamp → v.timeToFrameB isStart (.num n) = .ok (some n)) ∧
    (∀ t, firstTimestamp ≤ t → v.timeToFrameB isStart (.num t) = .ok (some (v.timeToFrame t isStart))) ∧
    (∀ s, C01.parseTime s = none → v.timeToFrameB isStart (.str s) = .error .runtimeError) ∧
    (∀ s ns, C01.parseTime s = some ns →
      v.timeToFrameB isStart (.str s) = v.timeToFrameB isStart (.num (if ns ≥ 0 then v.tStart + ns else v.tStop + ns))) := by
  refine ⟨rfl, rfl, ?_, ?_, ?_, ?_⟩
  · intro n h; simp [SView.timeToFrameB, h]
  · intro t h; have : ¬ t < firstTimestamp := by omega
    simp [SView.timeToFrameB, this]
  · intro s h; simp [SView.timeToFrameB, h]
  · intro s ns h; simp [SView.timeToFrameB, h, C01.resolve]

/-- Accepted items select what `scan_index_refines` / `scan_slice_refines` describe (rows from the first spatial slice,
    columns from the second, a missing one is the full axis), and the result gets its start / stop stamped. -/
theorem scan_getitem_refines (v : SView) (i : Int) (a b : SBound) (a' b' y0 y1 x0 x1 : Option Int)
    (ha : v.timeToFrameB true a = .ok a') (hb : v.timeToFrameB false b = .ok b') :
    v.getitem (.int i) [] = (v.index i none none none none).stamp ∧
    v.getitem (.int i) [.slice y0 y1 false] = (v.index i y0 y1 none none).stamp ∧
    v.getitem (.int i) [.slice y0 y1 false, .slice x0 x1 false] = (v.index i y0 y1 x0 x1).stamp ∧
    v.getitem (.slice a b false) [] = (v.slice a' b' none none none none).stamp ∧
    v.getitem (.slice a b false) [.slice y0 y1 false] = (v.slice a' b' y0 y1 none none).stamp ∧
    v.getitem (.slice a b false) [.slice y0 y1 false, .slice x0 x1 false] = (v.slice a' b' y0 y1 x0 x1).stamp := by
  refine ⟨rfl, rfl, rfl, ?_, ?_, ?_⟩ <;> simp [SView.getitem, ha, hb, SAxisItem.check, pure, Except.pure, bind, Except.bind]

/-- Time → frame index, stop bound: the number of frames that stop before the timestamp. -/
theorem time_to_frame_stop (v : SView) (t : Int) (hs : (v.ranges.map (·.2)).Pairwise (· ≤ ·)) (c : Nat)
    (hc : c < (v.ranges.map (·.2)).length) :
    ((c : Int) < v.timeToFrame t false) ↔ (v.ranges.map (·.2))[c] < t := by
  unfold SView.timeToFrame
  simp only [Bool.false_eq_true, ↓reduceIte, Int.ofNat_lt]
  exact lt_searchsortedLeft_iff _ hs t c hc

/-- frame start / stop timestamps of a scan view -/
abbrev sStarts (v : SView) : List Int := v.ranges.map (·.1)
abbrev sStops (v : SView) : List Int := v.ranges.map (·.2)

theorem pySliceOpt_none_none {α} (l : List α) : pySliceOpt l none none = l := by
  have : ¬ ((l.length : Int) < 0) := by omega
  simp [pySliceOpt, pySlice, pyNorm, this]

theorem cropFrame_none (f : Frame) : cropFrame f none none none none = f := by
  simp [cropFrame, pySliceOpt_none_none]

/-- **A time window on a scan.**  With frame starts and frame stops in order, `scan[a:b]` for two timestamps keeps
    exactly the frames that start at or after `a` AND stop before `b` (the frames lying inside the window), as one
    contiguous run of the frame list, with start / stop stamped; no such frame: the empty scan. -/
theorem scan_time_window (v : SView) (a b : Int) (ha : firstTimestamp ≤ a) (hb : firstTimestamp ≤ b)
    (hs : (sStarts v).Pairwise (· ≤ ·)) (he : (sStops v).Pairwise (· ≤ ·))
    (hne : ∀ f ∈ v.frames, emptyAxis f = false) :
    (∀ c (h1 : c < (sStarts v).length) (h2 : c < (sStops v).length),
      (searchsortedLeft (sStarts v) a ≤ c ∧ c < searchsortedLeft (sStops v) b) ↔
        (a ≤ (sStarts v)[c] ∧ (sStops v)[c] < b)) ∧
    v.getitem (.slice (.num a) (.num b) false) [] =
      (if (v.frames.take (searchsortedLeft (sStops v) b)).drop (searchsortedLeft (sStarts v) a) = []
       then .empty
       else .view ({ v with frames :=
          (v.frames.take (searchsortedLeft (sStops v) b)).drop (searchsortedLeft (sStarts v) a) }).stamp) := by
  constructor
  · intro c h1 h2
    have e1 := lt_searchsortedLeft_iff _ hs a c h1
    have e2 := lt_searchsortedLeft_iff _ he b c h2
    omega
  · have na : ¬ a < firstTimestamp := by omega
    have nb : ¬ b < firstTimestamp := by omega
    generalize hiA : searchsortedLeft (sStarts v) a = iA
    generalize hiB : searchsortedLeft (sStops v) b = iB
    have hget : v.getitem (.slice (.num a) (.num b) false) [] =
        (v.slice (some (iA : Int)) (some (iB : Int)) none none none none).stamp := by
      simp [SView.getitem, SView.timeToFrameB, na, nb, SView.timeToFrame, hiA, hiB, pure, Except.pure]
    have hfs : pySliceOpt v.frames (some (iA : Int)) (some (iB : Int)) = (v.frames.take iB).drop iA := by
      simp only [pySliceOpt, Option.getD_some]
      rw [C01.pySlice_nonneg _ _ _ (by omega) (by omega)]
      simp
    rw [hget, scan_slice_refines, hfs]
    by_cases hnil : (v.frames.take iB).drop iA = []
    · simp [hnil, SRes.stamp]
    · have hany : ((v.frames.take iB).drop iA).any (fun f => emptyAxis (cropFrame f none none none none)) = false := by
        rw [List.any_eq_false]
        intro f hf
        rw [cropFrame_none]
        have := hne f (List.mem_of_mem_take (List.mem_of_mem_drop hf))
        simp [this]
      have hmap : ((v.frames.take iB).drop iA).map (fun f => cropFrame f none none none none) = (v.frames.take iB).drop iA := by
        conv => rhs; rw [← List.map_id ((v.frames.take iB).drop iA)]
        apply List.map_congr_left
        intro f _; rw [cropFrame_none]; rfl
      simp only [hnil, ↓reduceIte, hany, Bool.false_eq_true, hmap, SRes.stamp]

/-- The start a `__getitem__` stamps on its result is the start of the first frame it shows (dead time or not). -/
theorem scan_stamp_start (w : SView) : w.stamp.tStart = ((w.ranges.head?).map (·.1)).getD 0 := by
  unfold SView.stamp
  by_cases h : w.numFrames > 1
  · simp only [h, ↓reduceIte]
    unfold SView.deadRanges
    split
    · rename_i s0 s1 rest heq
      cases hr : w.ranges with
      | nil => rw [hr] at heq; cases heq
      | cons r rs =>
        rw [hr] at heq
        simp only [List.map_cons, List.cons.injEq] at heq
        simp [heq.1]
    · rfl
  · simp only [h, ↓reduceIte]

/-- non-vacuity: three one-pixel-row frames; `scan["100ns":"-50ns"]` on the window `[0, 700]`, read as timestamps
    `firstTimestamp + …` -/
def exScan3 : SView :=
  ⟨[[[⟨1, firstTimestamp + 0, firstTimestamp + 10⟩, ⟨1, firstTimestamp + 20, firstTimestamp + 30⟩]],
    [[⟨2, firstTimestamp + 200, firstTimestamp + 210⟩, ⟨2, firstTimestamp + 220, firstTimestamp + 230⟩]],
    [[⟨3, firstTimestamp + 400, firstTimestamp + 410⟩, ⟨3, firstTimestamp + 420, firstTimestamp + 430⟩]]], 10, false,
    firstTimestamp, firstTimestamp + 700⟩

example : (match exScan3.getitem (.slice (.str "100ns") (.str "-50ns") false) [] with
    | .view w => decide (w.frames.map values = [[[2, 2]], [[3, 3]]] ∧ w.tStart = firstTimestamp + 200 ∧
        w.tStop = firstTimestamp + 600)
    | _ => false) = true := by decide +kernel

/-! ## Compositions at the level of views -/

/-- **Crop of a crop.**  Two successive `crop_by_distance` calls show the rows the index arithmetic of the two row
    windows gives (`crop_crop`), keep the pixel size, and the position offsets add up. -/
theorem crop_crop_view (v w u : KView) (lo1 hi1 lo2 hi2 : Rat) (h1l : 0 ≤ lo1) (h1h : 0 ≤ hi1) (h2l : 0 ≤ lo2)
    (h2h : 0 ≤ hi2) (hpx : 0 < v.px) (hw : v.crop lo1 hi1 = .view w) (hu : w.crop lo2 hi2 = .view u) :
    u.img = (v.img.take (min (hi1 / v.px).ceil.toNat ((lo1 / v.px).floor.toNat + (hi2 / v.px).ceil.toNat))).drop
      ((lo1 / v.px).floor.toNat + (lo2 / v.px).floor.toNat) ∧
    u.px = v.px ∧
    u.offset = v.offset + (((lo1 / v.px).floor + (lo2 / v.px).floor : Int) : Rat) * v.px := by
  have c1 := crop_rows v lo1 hi1 h1l h1h hpx
  simp only [hw] at c1
  obtain ⟨_, _, hwi, _, hwp, hwo⟩ := c1
  have c2 := crop_rows w lo2 hi2 h2l h2h (by rw [hwp]; exact hpx)
  simp only [hu] at c2
  obtain ⟨_, _, hui, _, hup, huo⟩ := c2
  rw [hwp] at hui hup huo
  refine ⟨?_, hup, ?_⟩
  · rw [hui, hwi]; exact crop_crop v.img _ _ _ _
  · rw [huo, hwo, Rat.intCast_add, Rat.add_mul, Rat.add_assoc]

/-- non-vacuity of `crop_crop_view` -/
example : (match exKymo.crop 0 2 with
    | .view w => (match w.crop 1 2 with | .view u => decide (values u.img = [[4, 5, 6]]) | _ => false)
    | _ => false) = true := by decide +kernel

/-- **Flip of a flip** shows the photon counts of the original. -/
theorem flip_flip_view (v : KView) (n : Nat) (hr : Rect v.img n) :
    (match v.flip with
     | .view w => (match w.flip with | .view u => values u.img = values v.img | _ => False)
     | _ => False) := by
  have h1 := flip_rows v n hr
  cases hf : v.flip with
  | view w =>
    rw [hf] at h1
    simp only
    have hrw : Rect w.img n := by
      unfold KView.flip at hf
      injection hf with hf
      rw [← hf]
      intro r hrm
      simp only at hrm
      obtain ⟨k, hk, rfl⟩ := List.mem_iff_getElem.mp hrm
      simp only [List.getElem_zipWith, List.length_zipWith]
      simp only [List.length_zipWith, List.length_reverse, Nat.min_self] at hk
      rw [hr _ (List.getElem_mem _), hr _ (List.mem_reverse.mp (List.getElem_mem _))]; simp
    have h2 := flip_rows w n hrw
    cases hf2 : w.flip with
    | view u =>
      rw [hf2] at h2
      simp only
      rw [h2.1, h1.1, List.reverse_reverse]
    | empty => rw [hf2] at h2; exact h2
    | err e => rw [hf2] at h2; exact h2
  | empty => rw [hf] at h1; exact h1
  | err e => rw [hf] at h1; exact h1

/-- **Slice of a slice of frames / rows / columns, any bounds** (negative, `None`, out of range): the composition of two
    Python slices is the window computed by index arithmetic on the normalised bounds. -/
theorem pySliceOpt_pySliceOpt {α} (l : List α) (a b c d : Option Int) :
    pySliceOpt (pySliceOpt l a b) c d =
      let l1 := pyNorm l.length (a.getD 0)
      let u1 := pyNorm l.length (b.getD l.length)
      let m := (pySliceOpt l a b).length
      (l.take (min u1 (l1 + pyNorm m (d.getD m)))).drop (l1 + pyNorm m (c.getD 0)) := by
  simp only [pySliceOpt, pySlice]
  exact crop_crop l _ _ _ _

/-- **Line time of a time slice.**  When the lines of the kymograph start `T` ns apart, every time slice that shows at
    least two lines reports the line time `T`; a slice of a single line reports the bare scan time of one line (there is
    no second line to measure a period from). -/
theorem slice_line_time (v : KView) (hu : v.processed = false) (hd : v.rangesDefined = true) (T : Int)
    (hT : ∀ k (h : k + 1 < (lineRanges v.img v.delta).length),
      (lineRanges v.img v.delta)[k + 1].1 - (lineRanges v.img v.delta)[k].1 = T)
    (a b : Int) (w : KView) (hw : v.sliceTime a b = .view w) :
    (searchsortedLeft (starts v) a + 2 ≤ searchsortedLeft (starts v) b → w.lineTimeNs = (T : Rat)) ∧
    (searchsortedLeft (starts v) b = searchsortedLeft (starts v) a + 1 → w.lineTimeNs = v.scanTimeNs) := by
  have hle : searchsortedLeft (starts v) b ≤ (lineRanges v.img v.delta).length := by
    have := searchsortedLeft_le_length (starts v) b
    simpa [starts] using this
  have hlt : w.lineTimeNs = (match ((lineRanges v.img v.delta).take (searchsortedLeft (starts v) b)).drop
        (searchsortedLeft (starts v) a) with
      | r0 :: r1 :: _ => ((r1.1 - r0.1 : Int) : Rat)
      | _ => v.scanTimeNs) := by
    unfold KView.sliceTime at hw
    simp only [hu, Bool.false_eq_true, ↓reduceIte, KView.ranges, hd] at hw
    split at hw
    · cases hw
    · split at hw
      · cases hw
      · injection hw with hw
        subst hw
        rfl
  generalize searchsortedLeft (starts v) a = i at *
  generalize searchsortedLeft (starts v) b = j at *
  constructor
  · intro h2
    have hl : (((lineRanges v.img v.delta).take j).drop i) = (lineRanges v.img v.delta)[i] :: (lineRanges v.img v.delta)[i + 1] :: ((lineRanges v.img v.delta).take j).drop (i + 2) := by
      have l1 : i < ((lineRanges v.img v.delta).take j).length := by simp; omega
      have l2 : i + 1 < ((lineRanges v.img v.delta).take j).length := by simp; omega
      rw [List.drop_eq_getElem_cons l1, List.drop_eq_getElem_cons l2]
      simp [List.getElem_take]
    rw [hlt, hl]
    simp only
    rw [hT i (by omega)]
  · intro h1
    have hl : (((lineRanges v.img v.delta).take j).drop i) = [(lineRanges v.img v.delta)[i]] := by
      have l1 : i < ((lineRanges v.img v.delta).take j).length := by simp; omega
      rw [List.drop_eq_getElem_cons l1]
      have : ((lineRanges v.img v.delta).take j).drop (i + 1) = [] := by
        apply List.drop_eq_nil_of_le; simp; omega
      simp [this, List.getElem_take]
    rw [hlt, hl]

/-- non-vacuity: the three lines of `exKymo` start 100 ns apart; `kymo[150:]` shows two of them and reports 100 ns -/
example : (match exKymo.sliceTime 150 1000 with | .view w => decide (w.lineTimeNs = 100 ∧ w.numLines = 2) | _ => false) = true := by
  decide +kernel

/-! ## Down-sampling: the timestamps of a block -/

/-- `m` is the extreme element of `xs` for the order `R` (`≤`: the smallest, `≥`: the largest) -/
def IsExtr (R : Int → Int → Prop) (m : Int) (xs : List Int) : Prop := (∀ x ∈ xs, R m x) ∧ m ∈ xs

/-- a component of a pixel that `Pix.add` combines with a selecting operation (`tmin` with `min`, `tmax` with `max`) -/
structure Sel (R : Int → Int → Prop) (g : Pix → Int) (op : Int → Int → Int) : Prop where
  add : ∀ a b, g (Pix.add a b) = op (g a) (g b)
  sel : ∀ a b, op a b = a ∨ op a b = b
  le : ∀ a b, R (op a b) a ∧ R (op a b) b
  refl : ∀ a, R a a
  trans : ∀ a b c, R a b → R b c → R a c

theorem selMin : Sel (· ≤ ·) (·.tmin) min :=
  ⟨fun _ _ => rfl, fun a b => by omega, fun a b => by omega, fun a => Int.le_refl a, fun _ _ _ => Int.le_trans⟩

theorem selMax : Sel (· ≥ ·) (·.tmax) max :=
  ⟨fun _ _ => rfl, fun a b => by omega, fun a b => by omega, fun a => Int.le_refl a, fun _ _ _ h1 h2 => Int.le_trans h2 h1⟩

variable {R : Int → Int → Prop} {g : Pix → Int} {op : Int → Int → Int}

theorem foldl_add_extr (S : Sel R g op) (ps : List Pix) (p : Pix) :
    IsExtr R (g (ps.foldl Pix.add p)) (g p :: ps.map g) := by
  induction ps generalizing p with
  | nil => exact ⟨fun x hx => by simp at hx; rw [hx]; exact S.refl _, by simp⟩
  | cons q qs ih =>
    have h := ih (Pix.add p q)
    rw [S.add] at h
    simp only [List.foldl_cons, List.map_cons]
    constructor
    · intro x hx
      simp only [List.mem_cons] at hx
      rcases hx with rfl | rfl | hx
      · exact S.trans _ _ _ (h.1 (op (g p) (g q)) (by simp)) (S.le (g p) (g q)).1
      · exact S.trans _ _ _ (h.1 (op (g p) (g q)) (by simp)) (S.le (g p) (g q)).2
      · exact h.1 x (by simp [hx])
    · have := h.2
      simp only [List.mem_cons] at this ⊢
      rcases this with h0 | h0
      · rcases S.sel (g p) (g q) with e | e <;> rw [e] at h0 <;> simp [h0]
      · exact Or.inr (Or.inr h0)

theorem sumPix_extr (S : Sel R g op) (l : List Pix) (hl : l ≠ []) : IsExtr R (g (sumPix l)) (l.map g) := by
  cases l with
  | nil => exact absurd rfl hl
  | cons p ps => exact foldl_add_extr S ps p

/-- the values of `g` on the pixels `k ≤ c < k + t` of a row -/
def winG (g : Pix → Int) (k t : Nat) (r : List Pix) : List Int := ((r.drop k).take t).map g

theorem winG_zipWith (S : Sel R g op) (k t : Nat) (a b : List Pix) :
    winG g k t (List.zipWith Pix.add a b) = List.zipWith op (winG g k t a) (winG g k t b) := by
  unfold winG
  rw [List.drop_zipWith, List.take_zipWith, List.map_zipWith, List.zipWith_map]
  congr 1
  funext x y
  exact S.add x y

theorem extr_zipWith (S : Sel R g op) (m : Int) (A B C : List Int) (hlen : A.length = B.length)
    (h : IsExtr R m (List.zipWith op A B ++ C)) : IsExtr R m (A ++ (B ++ C)) := by
  constructor
  · intro x hx
    simp only [List.mem_append] at hx
    rcases hx with hx | hx | hx
    · obtain ⟨c, hc, rfl⟩ := List.mem_iff_getElem.mp hx
      have hz : op A[c] (B[c]'(by omega)) ∈ List.zipWith op A B ++ C := by
        apply List.mem_append_left
        apply List.mem_iff_getElem.mpr
        exact ⟨c, by simp; omega, by simp⟩
      exact S.trans _ _ _ (h.1 _ hz) (S.le _ _).1
    · obtain ⟨c, hc, rfl⟩ := List.mem_iff_getElem.mp hx
      have hz : op (A[c]'(by omega)) B[c] ∈ List.zipWith op A B ++ C := by
        apply List.mem_append_left
        apply List.mem_iff_getElem.mpr
        exact ⟨c, by simp; omega, by simp⟩
      exact S.trans _ _ _ (h.1 _ hz) (S.le _ _).2
    · exact h.1 x (by simp [hx])
  · have := h.2
    simp only [List.mem_append] at this ⊢
    rcases this with h0 | h0
    · obtain ⟨c, hc, e⟩ := List.mem_iff_getElem.mp h0
      simp only [List.length_zipWith] at hc
      simp only [List.getElem_zipWith] at e
      rcases S.sel (A[c]'(by omega)) (B[c]'(by omega)) with e' | e'
      · left; rw [← e, e']; exact List.getElem_mem _
      · right; left; rw [← e, e']; exact List.getElem_mem _
    · exact Or.inr (Or.inr h0)

theorem foldl_zipWith_extr (S : Sel R g op) (k t n : Nat) (m : Int) (rs : List (List Pix)) (hr : Rect rs n)
    (acc : List Pix) (ha : acc.length = n) (C : List Int)
    (h : IsExtr R m (winG g k t (rs.foldl (fun acc x => List.zipWith Pix.add acc x) acc) ++ C)) :
    IsExtr R m (winG g k t acc ++ (rs.flatMap (winG g k t) ++ C)) := by
  induction rs generalizing acc C with
  | nil => simpa using h
  | cons x xs ih =>
    have hx : x.length = n := hr x (by simp)
    have hl : (List.zipWith Pix.add acc x).length = n := by simp [ha, hx]
    have h1 := ih (fun r hrm => hr r (by simp [hrm])) (List.zipWith Pix.add acc x) hl C h
    rw [winG_zipWith S] at h1
    have h2 := extr_zipWith S m _ _ _ (by simp [winG, ha, hx]) h1
    simpa [List.flatMap_cons, List.append_assoc] using h2

/-- **Timestamps of a binned pixel.**  Each entry of the down-sampled image carries, as its first timestamp, the
    smallest first timestamp found among ALL pixels of its two-dimensional block (it is one of them, and none is
    smaller), and as its last timestamp the largest last timestamp of the block — the quantities the line ranges of a
    position-binned kymograph are made of. -/
theorem down_entry_timestamps (img : Img) (n : Nat) (hr : Rect img n) (pf tf : Nat) (hpf : 0 < pf) (htf : 0 < tf) (i : Nat)
    (hi : i < (blockReduce img pf tf).length) (j : Nat) (hj : j < ((blockReduce img pf tf)[i]).length) :
    IsExtr (· ≤ ·) (((blockReduce img pf tf)[i])[j]).tmin ((block2d ((img.drop (i * pf)).take pf) tf j).map (·.tmin)) ∧
    IsExtr (· ≥ ·) (((blockReduce img pf tf)[i])[j]).tmax ((block2d ((img.drop (i * pf)).take pf) tf j).map (·.tmax)) := by
  have hi' : i < img.length / pf := by rw [← down_shape img pf tf hpf]; exact hi
  obtain ⟨hrow, hchunk⟩ := down_entry img pf tf hpf htf i hi
  have hshape := (down_entry_sum img n hr pf tf hpf htf i hi).1
  have hmul : i * pf + pf ≤ img.length := by
    have := Nat.div_mul_le_self img.length pf
    have : (i + 1) * pf ≤ img.length / pf * pf := Nat.mul_le_mul_right pf (by omega)
    rw [Nat.add_mul] at this; omega
  have hbl : ((img.drop (i * pf)).take pf).length = pf := by simp; omega
  have hbr : Rect ((img.drop (i * pf)).take pf) n := fun r hrm => hr r (List.mem_of_mem_drop (List.mem_of_mem_take hrm))
  generalize hband : (img.drop (i * pf)).take pf = band at *
  cases band with
  | nil => simp at hbl; omega
  | cons r0 rs =>
    have h0 : r0.length = n := hbr r0 (by simp)
    have hrs : Rect rs n := fun r hrm => hbr r (by simp [hrm])
    have hlen : (addRows (r0 :: rs)).length = n := (foldl_zipWith_spec 0 0 n rs hrs r0 h0).1
    have hj' : j < (chunks tf (addRows (r0 :: rs))).length := by
      rw [hrow, List.length_map] at hj; exact hj
    have hjn : j < n / tf := by rw [← hshape]; exact hj
    have e : ((blockReduce img pf tf)[i])[j] = sumPix ((chunks tf (addRows (r0 :: rs)))[j]) := by
      simp only [hrow, List.getElem_map]
    have hwin : (chunks tf (addRows (r0 :: rs)))[j] ≠ [] := by
      rw [hchunk j hj']
      intro hnil
      have hlen' := congrArg List.length hnil
      simp only [List.length_take, List.length_drop, hlen, List.length_nil] at hlen'
      have : j * tf + tf ≤ n := by
        have := Nat.div_mul_le_self n tf
        have : (j + 1) * tf ≤ n / tf * tf := Nat.mul_le_mul_right tf (by omega)
        rw [Nat.add_mul] at this; omega
      omega
    have key : ∀ {R : Int → Int → Prop} {g : Pix → Int} {op : Int → Int → Int} (S : Sel R g op),
        IsExtr R (g (((blockReduce img pf tf)[i])[j])) ((block2d (r0 :: rs) tf j).map g) := by
      intro R g op S
      have h1 := sumPix_extr S _ hwin
      rw [hchunk j hj'] at h1
      rw [e, hchunk j hj']
      have h2 := foldl_zipWith_extr S (j * tf) tf n _ rs hrs r0 h0 []
        (by simpa [winG, addRows] using h1)
      have e2 : addRows (r0 :: rs) = rs.foldl (fun acc x => List.zipWith Pix.add acc x) r0 := rfl
      have e3 : ((block2d (r0 :: rs) tf j).map g) = winG g (j * tf) tf r0 ++ (rs.flatMap (winG g (j * tf) tf) ++ []) := by
        simp only [block2d, List.flatMap_cons, List.map_append, List.map_flatMap, List.append_nil]; rfl
      rw [e3, e2]; exact h2
    exact ⟨key selMin, key selMax⟩

/-- non-vacuity of `down_entry_sum` / `down_entry_timestamps`: binning the two pixel rows of `exKymo` -/
example : blockReduce exKymo.img 2 1 = [[⟨5, 100, 130⟩, ⟨7, 200, 230⟩, ⟨9, 300, 330⟩]] := by decide +kernel

/-! ## Programs of selecting operations never show other data -/

/-- `g` is a window of `f`: rows `r0 ≤ r < r1`, columns `c0 ≤ c < c1` of it, in place and in order -/
def SubImg {α} (g f : List (List α)) : Prop := ∃ r0 r1 c0 c1, g = takeCols ((f.take r1).drop r0) c0 c1

def widest {α} (f : List (List α)) : Nat := f.foldr (fun r m => max r.length m) 0

theorem le_widest {α} (f : List (List α)) : ∀ r ∈ f, r.length ≤ widest f := by
  induction f with
  | nil => intro r hr; cases hr
  | cons x xs ih =>
    intro r hr
    simp only [widest, List.foldr_cons]
    rcases List.mem_cons.mp hr with rfl | h
    · omega
    · have := ih r h; unfold widest at this; omega

theorem takeCols_all {α} (f : List (List α)) (c : Nat) (h : ∀ r ∈ f, r.length ≤ c) : takeCols f 0 c = f := by
  unfold takeCols
  conv => rhs; rw [← List.map_id f]
  apply List.map_congr_left
  intro r hr
  simp [List.take_of_length_le (h r hr)]

/-- a window of rows only -/
theorem SubImg.rows {α} (f : List (List α)) (r0 r1 : Nat) : SubImg ((f.take r1).drop r0) f :=
  ⟨r0, r1, 0, widest f, (takeCols_all _ _ (fun r hr =>
    le_widest f r (List.mem_of_mem_take (List.mem_of_mem_drop hr)))).symm⟩

theorem SubImg.refl {α} (f : List (List α)) : SubImg f f := by
  have := SubImg.rows f 0 f.length
  simpa using this

/-- a window of columns only -/
theorem SubImg.cols {α} (f : List (List α)) (c0 c1 : Nat) : SubImg (takeCols f c0 c1) f :=
  ⟨0, f.length, c0, c1, by simp⟩

theorem takeCols_take {α} (f : List (List α)) (c0 c1 k : Nat) : (takeCols f c0 c1).take k = takeCols (f.take k) c0 c1 := by
  simp [takeCols, List.map_take]

theorem takeCols_drop {α} (f : List (List α)) (c0 c1 k : Nat) : (takeCols f c0 c1).drop k = takeCols (f.drop k) c0 c1 := by
  simp [takeCols, List.map_drop]

/-- a window of a window is a window -/
theorem SubImg.trans {α} {h g f : List (List α)} (hg : SubImg h g) (gf : SubImg g f) : SubImg h f := by
  obtain ⟨r0, r1, c0, c1, rfl⟩ := hg
  obtain ⟨s0, s1, d0, d1, rfl⟩ := gf
  refine ⟨s0 + r0, min s1 (s0 + r1), d0 + c0, min d1 (d0 + c1), ?_⟩
  rw [takeCols_take, takeCols_drop, takeCols_takeCols, crop_crop]

/-- the operations that only select: time slices (`[a:b]` in either form), crops, recalibration -/
def KOp.selects : KOp → Bool
  | .slice _ _ | .get _ | .crop _ _ | .cropF _ _ | .kbp _ => true
  | _ => false

theorem sliceTime_subImg (v w : KView) (a b : Int) (h : v.sliceTime a b = .view w) : SubImg w.img v.img := by
  unfold KView.sliceTime at h
  split at h
  · cases h
  · split at h
    · cases h
    · simp only at h
      split at h
      · cases h
      · split at h
        · cases h
        · injection h with h; rw [← h]; exact SubImg.cols _ _ _

theorem apply_subImg (v w : KView) (op : KOp) (hs : op.selects = true) (h : v.apply op = .view w) :
    SubImg w.img v.img := by
  cases op with
  | slice a b => exact sliceTime_subImg v w a b h
  | get item =>
    cases item with
    | scalar => cases h
    | window a b step =>
      simp only [KView.apply, KView.getitem] at h
      split at h
      · cases h
      · split at h
        · cases h
        · split at h
          · exact sliceTime_subImg v w _ _ h
          · cases h
  | crop lo hi =>
    simp only [KView.apply, KView.crop] at h
    split at h
    · cases h
    · split at h
      · cases h
      · injection h with h; rw [← h]; exact SubImg.rows _ _ _
  | cropF lo hi =>
    simp only [KView.apply, KView.cropF] at h
    split at h
    · cases h
    · split at h
      · cases h
      · injection h with h; rw [← h]; exact SubImg.rows _ _ _
  | kbp len =>
    simp only [KView.apply, KView.kbp] at h
    split at h
    · cases h
    · split at h
      · cases h
      · injection h with h; rw [← h]; exact SubImg.refl _
  | flip => cases hs
  | down tf pf => cases hs
  | downWith red tf pf => cases hs

/-- **For every program of selecting operations, of any length:** if it yields a kymograph at all, the image shown is
    a window of the source image — rows and lines of the source, in place and in order, never other data.  (Otherwise
    the result is the empty kymograph or one of the documented errors.) -/
theorem selecting_program_shows_window (prog : List KOp) (hsel : ∀ op ∈ prog, op.selects = true) (v w : KView)
    (h : runK v prog = .view w) : SubImg w.img v.img := by
  induction prog generalizing v with
  | nil => injection h with h; rw [← h]; exact SubImg.refl _
  | cons op ops ih =>
    simp only [runK] at h
    cases hop : v.apply op with
    | view v' =>
      rw [hop] at h
      simp only at h
      have h1 := apply_subImg v v' op (hsel op (by simp)) hop
      split at h
      · injection h with h; rw [← h]; exact h1
      · exact SubImg.trans (ih (fun o ho => hsel o (by simp [ho])) v' h) h1
    | empty => rw [hop] at h; cases h
    | err e => rw [hop] at h; cases h

/-- non-vacuity: `exKymo["110ns":][crop 1..2]` shows row 1, lines 1.. of the source -/
example : (match runK exKymo [.get (.window (.str "110ns") .none false), .crop 1 2] with
    | .view w => decide (values w.img = [[5, 6]]) | _ => false) = true := by decide +kernel

theorem stamp_view (r : SRes) (w : SView) (h : r.stamp = .view w) : ∃ w', r = .view w' ∧ w.frames = w'.frames := by
  cases r with
  | view w' => injection h with h; exact ⟨w', rfl, by rw [← h]; rfl⟩
  | empty => cases h
  | err e => cases h

theorem index_frames (v w : SView) (i : Int) (y0 y1 x0 x1 : Option Int) (h : v.index i y0 y1 x0 x1 = .view w) :
    ∀ g ∈ w.frames, ∃ f ∈ v.frames, g = cropFrame f y0 y1 x0 x1 := by
  rw [scan_index_refines] at h
  split at h
  · cases h
  · rename_i f hf
    split at h
    · cases h
    · injection h with h
      rw [← h]
      intro g hg
      simp only [List.mem_singleton] at hg
      refine ⟨f, ?_, hg⟩
      unfold pyIndex at hf
      split at hf
      · split at hf
        · cases hf
        · exact List.mem_of_getElem? hf
      · exact List.mem_of_getElem? hf

theorem slice_frames (v w : SView) (a b y0 y1 x0 x1 : Option Int) (h : v.slice a b y0 y1 x0 x1 = .view w) :
    ∀ g ∈ w.frames, ∃ f ∈ v.frames, g = cropFrame f y0 y1 x0 x1 := by
  rw [scan_slice_refines] at h
  split at h
  · cases h
  · split at h
    · cases h
    · injection h with h
      rw [← h]
      intro g hg
      simp only [List.mem_map] at hg
      obtain ⟨f, hf, rfl⟩ := hg
      exact ⟨f, mem_pySliceOpt hf, rfl⟩

theorem apply_frames (v w : SView) (op : SOp) (h : v.apply op = .view w) :
    ∀ g ∈ w.frames, ∃ f ∈ v.frames, ∃ y0 y1 x0 x1, g = cropFrame f y0 y1 x0 x1 := by
  intro g hg
  cases op with
  | cropxy y0 y1 x0 x1 =>
    obtain ⟨f, hf, e⟩ := slice_frames v w _ _ _ _ _ _ h g hg
    exact ⟨f, hf, _, _, _, _, e⟩
  | index i y0 y1 x0 x1 =>
    obtain ⟨w', hw', hfr⟩ := stamp_view _ w h
    obtain ⟨f, hf, e⟩ := index_frames v w' _ _ _ _ _ hw' g (hfr ▸ hg)
    exact ⟨f, hf, _, _, _, _, e⟩
  | slice a b y0 y1 x0 x1 =>
    obtain ⟨w', hw', hfr⟩ := stamp_view _ w h
    obtain ⟨f, hf, e⟩ := slice_frames v w' _ _ _ _ _ _ hw' g (hfr ▸ hg)
    exact ⟨f, hf, _, _, _, _, e⟩
  | sliceT a b =>
    obtain ⟨w', hw', hfr⟩ := stamp_view _ w h
    obtain ⟨f, hf, e⟩ := slice_frames v w' _ _ _ _ _ _ hw' g (hfr ▸ hg)
    exact ⟨f, hf, _, _, _, _, e⟩
  | get fi sp =>
    simp only [SView.apply, SView.getitem] at h
    split at h
    · cases h
    · split at h
      · cases h
      · split at h
        · obtain ⟨w', hw', hfr⟩ := stamp_view _ w h
          obtain ⟨f, hf, e⟩ := index_frames v w' _ _ _ _ _ hw' g (hfr ▸ hg)
          exact ⟨f, hf, _, _, _, _, e⟩
        · obtain ⟨w', hw', hfr⟩ := stamp_view _ w h
          obtain ⟨f, hf, e⟩ := slice_frames v w' _ _ _ _ _ _ hw' g (hfr ▸ hg)
          exact ⟨f, hf, _, _, _, _, e⟩

/-- on a rectangular frame the pixel crop is a window (negative / open / out-of-range bounds normalised as Python does) -/
theorem cropFrame_subImg (f : Frame) (n : Nat) (hr : Rect f n) (y0 y1 x0 x1 : Option Int) :
    SubImg (cropFrame f y0 y1 x0 x1) f ∧ ∃ m, Rect (cropFrame f y0 y1 x0 x1) m := by
  have e : cropFrame f y0 y1 x0 x1 =
      takeCols ((f.take (pyNorm f.length (y1.getD f.length))).drop (pyNorm f.length (y0.getD 0)))
        (pyNorm n (x0.getD 0)) (pyNorm n (x1.getD n)) := by
    unfold cropFrame takeCols
    simp only [pySliceOpt, pySlice]
    apply List.map_congr_left
    intro row hrow
    rw [hr row (List.mem_of_mem_take (List.mem_of_mem_drop hrow))]
  refine ⟨⟨_, _, _, _, e⟩, min (pyNorm n (x1.getD n)) n - pyNorm n (x0.getD 0), ?_⟩
  rw [e]
  intro row hrow
  simp only [takeCols, List.mem_map] at hrow
  obtain ⟨r, hrm, rfl⟩ := hrow
  simp [hr r (List.mem_of_mem_take (List.mem_of_mem_drop hrm))]

/-- **For every program of scan operations, of any length** (frame indices and slices with any bounds, time windows,
    items as the user writes them, pixel crops): if it yields a scan at all, every frame shown is a window — rows and
    columns in place and in order — of one of the source's frames. -/
theorem scan_program_shows_windows (prog : List SOp) (v w : SView) (hrect : ∀ f ∈ v.frames, ∃ n, Rect f n)
    (h : runS v prog = .view w) :
    (∀ g ∈ w.frames, ∃ f ∈ v.frames, SubImg g f) ∧ ∀ g ∈ w.frames, ∃ n, Rect g n := by
  induction prog generalizing v with
  | nil =>
    injection h with h; rw [← h]
    exact ⟨fun g hg => ⟨g, hg, SubImg.refl g⟩, hrect⟩
  | cons op ops ih =>
    simp only [runS] at h
    cases hop : v.apply op with
    | view v' =>
      rw [hop] at h
      simp only at h
      have h1 := apply_frames v v' op hop
      have hrect' : ∀ f ∈ v'.frames, ∃ n, Rect f n := by
        intro g hg
        obtain ⟨f, hf, y0, y1, x0, x1, rfl⟩ := h1 g hg
        obtain ⟨n, hn⟩ := hrect f hf
        exact (cropFrame_subImg f n hn y0 y1 x0 x1).2
      obtain ⟨ih1, ih2⟩ := ih v' hrect' h
      refine ⟨?_, ih2⟩
      intro g hg
      obtain ⟨f', hf', hs'⟩ := ih1 g hg
      obtain ⟨f, hf, y0, y1, x0, x1, rfl⟩ := h1 f' hf'
      obtain ⟨n, hn⟩ := hrect f hf
      exact ⟨f, hf, SubImg.trans hs' (cropFrame_subImg f n hn y0 y1 x0 x1).1⟩
    | empty => rw [hop] at h; cases h
    | err e => rw [hop] at h; cases h

/-- non-vacuity: `scan[1:]["…":, :, 1:]` on the three frames of `exScan3` -/
example : (match runS exScan3 [.slice (some 1) none none none none none, .get (.slice (.num (-1)) .none false) [.slice none none false, .slice (some 1) none false]] with
    | .view w => decide (w.frames.map values = [[[3]]]) | _ => false) = true := by decide +kernel

/-- pixels that are neighbours along the position axis (same line) are `pt` apart in time -/
def RowStep (img : Img) (pt : Int) : Prop :=
  ∀ r c p q, pixAt img r c = some p → pixAt img (r + 1) c = some q → q.tmean - p.tmean = pt

theorem pixAt_window (f : Img) (r0 r1 c0 c1 r c : Nat) (p : Pix)
    (h : pixAt (takeCols ((f.take r1).drop r0) c0 c1) r c = some p) : pixAt f (r0 + r) (c0 + c) = some p := by
  unfold pixAt takeCols at h
  rw [List.getElem?_map, takeCols_getElem?] at h
  unfold pixAt
  split at h
  · cases hrow : f[r0 + r]? with
    | none => rw [hrow] at h; cases h
    | some row =>
      rw [hrow] at h
      simp only [Option.map_some, Option.bind_some] at h ⊢
      rw [takeCols_getElem?] at h
      split at h
      · exact h
      · cases h
  · cases h

theorem RowStep.sub {g f : Img} {pt : Int} (h : SubImg g f) (hs : RowStep f pt) : RowStep g pt := by
  obtain ⟨r0, r1, c0, c1, rfl⟩ := h
  intro r c p q hp hq
  have hp' := pixAt_window f r0 r1 c0 c1 r c p hp
  have hq' := pixAt_window f r0 r1 c0 c1 (r + 1) c q hq
  exact hs (r0 + r) (c0 + c) p q hp' (by rw [← hq']; congr 1)

/-- **Pixel time after any program of selecting operations.**  If neighbouring pixels of a line of the source are `pt`
    apart, every processed kymograph the program yields that can report a pixel time at all reports `pt` (the code reads
    it off the timestamps of pixels `[0,0]` and `[1,0]` of the derived object). -/
theorem selecting_program_pixel_time (prog : List KOp) (hsel : ∀ op ∈ prog, op.selects = true) (v w : KView)
    (h : runK v prog = .view w) (pt : Int) (hs : RowStep v.img pt) (hp : w.processed = true) (t : Int)
    (ht : w.pixelTime = .ok t) : t = pt := by
  have hsub := RowStep.sub (selecting_program_shows_window prog hsel v w h) hs
  unfold KView.pixelTime at ht
  simp only [hp, Bool.not_true, Bool.false_eq_true, ↓reduceIte] at ht
  split at ht
  · cases ht
  · split at ht
    · rename_i a b ha hb
      injection ht with ht
      rw [← ht]
      exact hsub 0 0 a b ha hb
    · cases ht

/-- non-vacuity: in `exKymo` the two pixels of every line are 20 ns apart; cropping after a time slice keeps that -/
example : RowStep exKymo.img 20 := by
  intro r c p q hp hq
  match r, c with
  | 0, 0 => simp [pixAt, exKymo] at hp hq; subst hp hq; decide
  | 0, 1 => simp [pixAt, exKymo] at hp hq; subst hp hq; decide
  | 0, 2 => simp [pixAt, exKymo] at hp hq; subst hp hq; decide
  | 0, c + 3 => simp [pixAt, exKymo] at hp
  | 1, c => simp [pixAt, exKymo] at hq
  | r + 2, c => simp [pixAt, exKymo] at hp

example : (match runK exKymo [.slice 150 1000, .crop 0 2] with
    | .view w => (match w.pixelTime with | .ok t => decide (t = 20 ∧ w.processed = true) | _ => false) | _ => false) = true := by decide +kernel

theorem stamp_fastRows (r : SRes) (w : SView) (h : r.stamp = .view w) : ∃ w', r = .view w' ∧ w.fastRows = w'.fastRows := by
  cases r with
  | view w' => injection h with h; exact ⟨w', rfl, by rw [← h]; rfl⟩
  | empty => cases h
  | err e => cases h

theorem index_fastRows (v w : SView) (i : Int) (y0 y1 x0 x1 : Option Int) (h : v.index i y0 y1 x0 x1 = .view w) :
    w.fastRows = v.fastRows := by
  rw [scan_index_refines] at h
  split at h
  · cases h
  · split at h
    · cases h
    · injection h with h; rw [← h]

theorem slice_fastRows (v w : SView) (a b y0 y1 x0 x1 : Option Int) (h : v.slice a b y0 y1 x0 x1 = .view w) :
    w.fastRows = v.fastRows := by
  rw [scan_slice_refines] at h
  split at h
  · cases h
  · split at h
    · cases h
    · injection h with h; rw [← h]

theorem apply_fastRows (v w : SView) (op : SOp) (h : v.apply op = .view w) : w.fastRows = v.fastRows := by
  cases op with
  | cropxy y0 y1 x0 x1 => exact slice_fastRows v w _ _ _ _ _ _ h
  | index i y0 y1 x0 x1 =>
    obtain ⟨w', hw', e⟩ := stamp_fastRows _ w h
    rw [e]; exact index_fastRows v w' _ _ _ _ _ hw'
  | slice a b y0 y1 x0 x1 =>
    obtain ⟨w', hw', e⟩ := stamp_fastRows _ w h
    rw [e]; exact slice_fastRows v w' _ _ _ _ _ _ hw'
  | sliceT a b =>
    obtain ⟨w', hw', e⟩ := stamp_fastRows _ w h
    rw [e]; exact slice_fastRows v w' _ _ _ _ _ _ hw'
  | get fi sp =>
    simp only [SView.apply, SView.getitem] at h
    split at h
    · cases h
    · split at h
      · cases h
      · split at h
        · obtain ⟨w', hw', e⟩ := stamp_fastRows _ w h
          rw [e]; exact index_fastRows v w' _ _ _ _ _ hw'
        · obtain ⟨w', hw', e⟩ := stamp_fastRows _ w h
          rw [e]; exact slice_fastRows v w' _ _ _ _ _ _ hw'

theorem runS_fastRows (prog : List SOp) (v w : SView) (h : runS v prog = .view w) : w.fastRows = v.fastRows := by
  induction prog generalizing v with
  | nil => injection h with h; rw [← h]
  | cons op ops ih =>
    simp only [runS] at h
    cases hop : v.apply op with
    | view v' => rw [hop] at h; simp only at h; rw [ih v' h, apply_fastRows v v' op hop]
    | empty => rw [hop] at h; cases h
    | err e => rw [hop] at h; cases h

/-- **Pixel time after any program of scan operations**, for either orientation of the fast axis: if fast-axis
    neighbours of the source are `pt` apart, every scan the program yields that can report a pixel time reports `pt`
    (extends `scan_slice_keeps_fast_step` from one frame slice to all programs, time windows and user-style items
    included). -/
theorem scan_program_pixel_time (prog : List SOp) (v w : SView) (hrect : ∀ f ∈ v.frames, ∃ n, Rect f n)
    (h : runS v prog = .view w) (pt : Int) (hstep : FastStep v pt) (t : Int) (ht : w.pixelTime = some t) : t = pt := by
  refine scan_pixel_time_of_fast_step w pt t ?_ ht
  have hfr := runS_fastRows prog v w h
  obtain ⟨hwin, _⟩ := scan_program_shows_windows prog v w hrect h
  intro g hg r c p q hp hq
  obtain ⟨f, hf, r0, r1, c0, c1, rfl⟩ := hwin g hg
  have hp' := pixAt_window f r0 r1 c0 c1 r c p hp
  have hq' := pixAt_window f r0 r1 c0 c1 _ _ q hq
  refine hstep f hf (r0 + r) (c0 + c) p q hp' ?_
  rw [hfr] at hq'
  rw [← hq']
  cases v.fastRows <;> simp only [Bool.false_eq_true, ↓reduceIte] <;> congr 1

/-! ## Crop and binning / flip commute (aligned windows) -/

theorem take_drop_take {α} (l : List α) (m d k : Nat) (h : d + k ≤ m) :
    (((l.take m).drop d).take k) = (l.drop d).take k := by
  apply List.ext_getElem?
  intro i
  simp only [List.getElem?_take, List.getElem?_drop]
  by_cases hi : i < k
  · have : d + i < m := by omega
    simp [hi, this]
  · simp [hi]

/-- the full blocks of a block-aligned window are the corresponding blocks of the whole -/
theorem chunks_window {α} (k : Nat) (hk : 0 < k) (l : List α) (a b : Nat) :
    chunks k ((l.take (k * b)).drop (k * a)) = ((chunks k l).take b).drop a := by
  have hlenL : (chunks k ((l.take (k * b)).drop (k * a))).length = (min (k * b) l.length - k * a) / k := by
    rw [chunks_length k hk]; simp
  have hlenR : (((chunks k l).take b).drop a).length = min b (l.length / k) - a := by
    simp [chunks_length k hk]
  have hlen : (min (k * b) l.length - k * a) / k = min b (l.length / k) - a := by
    by_cases hb : k * b ≤ l.length
    · have h1 : b ≤ l.length / k := (Nat.le_div_iff_mul_le hk).mpr (by rw [Nat.mul_comm]; exact hb)
      rw [Nat.min_eq_left hb, Nat.min_eq_left h1, ← Nat.mul_sub, Nat.mul_div_cancel_left _ hk]
    · have h1 : l.length / k ≤ b := by
        have : l.length / k < b := (Nat.div_lt_iff_lt_mul hk).mpr (by rw [Nat.mul_comm]; omega)
        omega
      rw [Nat.min_eq_right (by omega), Nat.min_eq_right h1, Nat.sub_mul_div]
  apply List.ext_getElem
  · rw [hlenL, hlenR, hlen]
  · intro i h1 h2
    rw [chunks_getElem k hk _ i h1]
    have h2' : a + i < (chunks k l).length := by
      simp only [List.length_drop, List.length_take] at h2; omega
    have hib : a + i < b := by
      simp only [List.length_drop, List.length_take] at h2; omega
    simp only [List.getElem_drop, List.getElem_take]
    rw [chunks_getElem k hk l (a + i) h2', List.drop_drop]
    have hbound : (k * a + i * k) + k ≤ k * b := by
      have : (a + i + 1) * k ≤ b * k := Nat.mul_le_mul_right k (by omega)
      rw [Nat.mul_comm b k] at this
      have e : (a + i + 1) * k = k * a + i * k + k := by
        rw [Nat.add_mul, Nat.add_mul, Nat.one_mul, Nat.mul_comm a k]
      omega
    rw [take_drop_take l (k * b) (k * a + i * k) k hbound]
    congr 2
    rw [Nat.add_mul, Nat.mul_comm a k]

/-- **Cropping whole bins commutes with binning in position**: binning the rows `pf·a ≤ r < pf·b` of the image gives
    rows `a ≤ r < b` of the binned image (for any time factor). -/
theorem crop_then_downsample (img : Img) (pf tf : Nat) (hpf : 0 < pf) (a b : Nat) :
    blockReduce ((img.take (pf * b)).drop (pf * a)) pf tf = ((blockReduce img pf tf).take b).drop a := by
  unfold blockReduce
  rw [chunks_window pf hpf img a b, List.map_drop, List.map_take]

/-- **Crop of a flipped image**: rows `l ≤ r < u` of the flipped image are the rows `n − u ≤ r < n − l` of the image,
    flipped. -/
theorem flip_then_crop {α} (img : List α) (l u : Nat) (hu : u ≤ img.length) :
    (img.reverse.take u).drop l = ((img.take (img.length - l)).drop (img.length - u)).reverse := by
  have hlenR : ((img.take (img.length - l)).drop (img.length - u)).length = u - l := by simp; omega
  apply List.ext_getElem?
  intro i
  simp only [List.getElem?_drop, List.getElem?_take]
  by_cases h : l + i < u
  · have h1 : l + i < img.length := by omega
    rw [if_pos h, List.getElem?_reverse h1, List.getElem?_reverse (by rw [hlenR]; omega), hlenR,
      List.getElem?_drop, List.getElem?_take, if_pos (by omega)]
    congr 1; omega
  · rw [if_neg h]
    symm
    rw [List.getElem?_eq_none_iff, List.length_reverse, hlenR]
    omega

/-! ## A regularly acquired kymograph establishes the hypotheses -/

theorem maxList_extr (l : List Int) (hl : l ≠ []) : (∀ x ∈ l, x ≤ maxList l) ∧ maxList l ∈ l := by
  cases l with
  | nil => exact absurd rfl hl
  | cons a as =>
    have key : ∀ (xs : List Int) (m : Int), (∀ x ∈ m :: xs, x ≤ xs.foldl max m) ∧ xs.foldl max m ∈ m :: xs := by
      intro xs
      induction xs with
      | nil => intro m; simp
      | cons y ys ih =>
        intro m
        obtain ⟨h1, h2⟩ := ih (max m y)
        simp only [List.foldl_cons]
        constructor
        · intro x hx
          simp only [List.mem_cons] at hx
          rcases hx with rfl | rfl | hx
          · have := h1 (max x y) (by simp); omega
          · have := h1 (max m x) (by simp); omega
          · exact h1 x (by simp [hx])
        · simp only [List.mem_cons] at h2 ⊢
          rcases h2 with h2 | h2
          · rcases Int.le_total m y with h | h
            · right; left; rw [h2]; omega
            · left; rw [h2]; omega
          · right; right; exact h2
    have := key (a :: as) a
    simp only [maxList, List.headD_cons]
    constructor
    · intro x hx; exact this.1 x (List.mem_cons_of_mem _ hx)
    · simpa using this.2

theorem regular_column (t0 : Int) (P L k dead : Nat) (dt : Int) (j : Nat) (hj : j < L) :
    column (regularImg t0 P L k dead dt) j = (List.range P).map fun r => regPix t0 P k dead dt r j := by
  unfold column regularImg
  rw [List.filterMap_map]
  induction (List.range P) with
  | nil => rfl
  | cons r rs ih => simp [hj, ih]


theorem regular_numCols (t0 : Int) (P L k dead : Nat) (dt : Int) (hP : 0 < P) :
    numCols (regularImg t0 P L k dead dt) = L := by
  unfold numCols regularImg
  cases P with
  | zero => omega
  | succ P => simp [List.range_succ_eq_map]

theorem mul_mono (a b : Nat) (c : Int) (hc : 0 ≤ c) (h : a ≤ b) : (a : Int) * c ≤ (b : Int) * c :=
  Int.mul_le_mul_of_nonneg_right (by omega) hc

/-- line range `j` of a regular kymograph: starts with its first sample, ends one sample after its last used one -/
theorem regular_range (t0 : Int) (P L k dead : Nat) (dt : Int) (hP : 0 < P) (hk : 0 < k) (hdt : 0 < dt) (j : Nat) (hj : j < L) :
    (lineRanges (regularImg t0 P L k dead dt) dt)[j]? =
      some (t0 + ((j * (P * k + dead) : Nat) : Int) * dt, t0 + ((j * (P * k + dead) + P * k : Nat) : Int) * dt) := by
  unfold lineRanges
  rw [regular_numCols _ _ _ _ _ _ hP, List.getElem?_map, List.getElem?_range hj]
  simp only [Option.map_some, Option.some.injEq, Prod.mk.injEq]
  constructor
  · unfold regularImg
    cases P with
    | zero => omega
    | succ P => simp [List.range_succ_eq_map, hj, regPix]
  · rw [regular_column _ _ _ _ _ _ _ hj, List.map_map]
    have hne : (List.range P).map ((·.tmax) ∘ fun r => regPix t0 P k dead dt r j) ≠ [] := by
      cases P with
      | zero => omega
      | succ P => simp [List.range_succ_eq_map]
    obtain ⟨hub, hmem⟩ := maxList_extr _ hne
    -- the last pixel of the line is in the column, and no pixel ends later
    have hlast : t0 + ((j * (P * k + dead) + (P - 1) * k + (k - 1) : Nat) : Int) * dt ∈
        (List.range P).map ((·.tmax) ∘ fun r => regPix t0 P k dead dt r j) := by
      simp only [List.mem_map, List.mem_range, Function.comp_apply]
      exact ⟨P - 1, by omega, rfl⟩
    have h1 := hub _ hlast
    simp only [List.mem_map, List.mem_range, Function.comp_apply] at hmem
    obtain ⟨r, hr, hre⟩ := hmem
    have h2 : maxList ((List.range P).map ((·.tmax) ∘ fun r => regPix t0 P k dead dt r j)) ≤
        t0 + ((j * (P * k + dead) + (P - 1) * k + (k - 1) : Nat) : Int) * dt := by
      rw [← hre]
      simp only [regPix]
      have : r * k ≤ (P - 1) * k := Nat.mul_le_mul_right k (by omega)
      have := mul_mono (j * (P * k + dead) + r * k + (k - 1)) (j * (P * k + dead) + (P - 1) * k + (k - 1)) dt (by omega) (by omega)
      omega
    have e : ((j * (P * k + dead) + P * k : Nat) : Int) = ((j * (P * k + dead) + (P - 1) * k + (k - 1) : Nat) : Int) + 1 := by
      have : P * k = (P - 1) * k + k := by
        have : P = (P - 1) + 1 := by omega
        conv => lhs; rw [this, Nat.add_mul, Nat.one_mul]
      omega
    rw [e, Int.add_mul]
    omega


theorem regular_ranges (t0 : Int) (P L k dead : Nat) (dt : Int) (hP : 0 < P) (hk : 0 < k) (hdt : 0 < dt) :
    lineRanges (regularImg t0 P L k dead dt) dt = (List.range L).map fun j =>
      (t0 + ((j * (P * k + dead) : Nat) : Int) * dt, t0 + ((j * (P * k + dead) + P * k : Nat) : Int) * dt) := by
  apply List.ext_getElem?
  intro j
  by_cases hj : j < L
  · rw [regular_range t0 P L k dead dt hP hk hdt j hj, List.getElem?_map, List.getElem?_range hj]; rfl
  · have h1 : (lineRanges (regularImg t0 P L k dead dt) dt).length = L := by
      simp [lineRanges, regular_numCols _ _ _ _ _ _ hP]
    rw [List.getElem?_eq_none_iff.mpr (by omega), List.getElem?_eq_none_iff.mpr (by simp; omega)]

/-- **A regularly acquired kymograph establishes the hypotheses the slice theorems assume**: its lines lie inside
    `[t0 − lead·dt, t0 + L·(P·k + dead)·dt]` (the window of its info wave), in order, not overlapping (`KWf`, hence sorted
    starts), and they start one line period `(P·k + dead)·dt` apart (hypothesis of `slice_line_time`). -/
theorem regular_establishes (t0 : Int) (P L k dead lead : Nat) (dt : Int) (hP : 0 < P) (hk : 0 < k) (hdt : 0 < dt) :
    RangesOk (lineRanges (regularImg t0 P L k dead dt) dt) (t0 - (lead : Int) * dt)
      (t0 + ((L * (P * k + dead) : Nat) : Int) * dt) ∧
    ∀ j (h : j + 1 < (lineRanges (regularImg t0 P L k dead dt) dt).length),
      (lineRanges (regularImg t0 P L k dead dt) dt)[j + 1].1 - (lineRanges (regularImg t0 P L k dead dt) dt)[j].1 =
        ((P * k + dead : Nat) : Int) * dt := by
  have hPk : 1 ≤ P * k := Nat.mul_pos hP hk
  have hlead : 0 ≤ (lead : Int) * dt := Int.mul_nonneg (by omega) (by omega)
  constructor
  · rw [regular_ranges t0 P L k dead dt hP hk hdt]
    constructor
    · rw [List.pairwise_map]
      refine List.Pairwise.imp ?_ List.pairwise_lt_range
      intro j j' hjj
      simp only
      have h1 : (j + 1) * (P * k + dead) ≤ j' * (P * k + dead) := Nat.mul_le_mul_right _ (by omega)
      rw [Nat.add_mul, Nat.one_mul] at h1
      have := mul_mono (j * (P * k + dead) + P * k) (j' * (P * k + dead)) dt (by omega) (by omega)
      omega
    · intro r hr
      simp only [List.mem_map, List.mem_range] at hr
      obtain ⟨j, hj, rfl⟩ := hr
      simp only
      have h0 : 0 ≤ ((j * (P * k + dead) : Nat) : Int) * dt := Int.mul_nonneg (by omega) (by omega)
      have h1 := mul_mono (j * (P * k + dead) + 1) (j * (P * k + dead) + P * k) dt (by omega) (by omega)
      have e1 : ((j * (P * k + dead) + 1 : Nat) : Int) * dt = ((j * (P * k + dead) : Nat) : Int) * dt + dt := by
        rw [Int.natCast_add, Int.add_mul]; simp
      have h2 : (j + 1) * (P * k + dead) ≤ L * (P * k + dead) := Nat.mul_le_mul_right _ (by omega)
      rw [Nat.add_mul, Nat.one_mul] at h2
      have h3 := mul_mono (j * (P * k + dead) + P * k) (L * (P * k + dead)) dt (by omega) (by omega)
      omega
  · intro j h
    have hL : (lineRanges (regularImg t0 P L k dead dt) dt).length = L := by
      simp [lineRanges, regular_numCols _ _ _ _ _ _ hP]
    have g1 := regular_range t0 P L k dead dt hP hk hdt (j + 1) (by omega)
    have g0 := regular_range t0 P L k dead dt hP hk hdt j (by omega)
    rw [List.getElem?_eq_getElem h] at g1
    rw [List.getElem?_eq_getElem (by omega)] at g0
    injection g1 with g1
    injection g0 with g0
    rw [g1, g0]
    simp only
    have e : (((j + 1) * (P * k + dead) : Nat) : Int) = ((j * (P * k + dead) : Nat) : Int) + ((P * k + dead : Nat) : Int) := by
      rw [Nat.add_mul, Nat.one_mul]; omega
    rw [e, Int.add_mul]; omega


theorem regular_pixAt (t0 : Int) (P L k dead : Nat) (dt : Int) (r c : Nat) (p : Pix)
    (h : pixAt (regularImg t0 P L k dead dt) r c = some p) : r < P ∧ c < L ∧ p = regPix t0 P k dead dt r c := by
  unfold pixAt regularImg at h
  rw [List.getElem?_map] at h
  by_cases hr : r < P
  · rw [List.getElem?_range hr] at h
    simp only [Option.map_some, Option.bind_some, List.getElem?_map] at h
    by_cases hc : c < L
    · rw [List.getElem?_range hc] at h
      simp only [Option.map_some, Option.some.injEq] at h
      exact ⟨hr, hc, h.symm⟩
    · rw [List.getElem?_eq_none_iff.mpr (by simp; omega)] at h; cases h
  · rw [List.getElem?_eq_none_iff.mpr (by simp; omega)] at h; cases h

/-- … and its pixels follow each other `k·dt` apart along a line (hypothesis of `selecting_program_pixel_time`) -/
theorem regular_row_step (t0 : Int) (P L k dead : Nat) (dt : Int) :
    RowStep (regularImg t0 P L k dead dt) ((k : Int) * dt) := by
  intro r c p q hp hq
  obtain ⟨_, _, rfl⟩ := regular_pixAt _ _ _ _ _ _ _ _ _ hp
  obtain ⟨_, _, rfl⟩ := regular_pixAt _ _ _ _ _ _ _ _ _ hq
  simp only [Pix.tmean, regPix]
  have e1 : ∀ a : Nat, t0 + ((a + (k - 1) : Nat) : Int) * dt - (t0 + ((a : Nat) : Int) * dt) = ((k - 1 : Nat) : Int) * dt := by
    intro a; rw [Int.natCast_add, Int.add_mul]; omega
  rw [e1, e1]
  have e2 : ((c * (P * k + dead) + (r + 1) * k : Nat) : Int) * dt =
      ((c * (P * k + dead) + r * k : Nat) : Int) * dt + (k : Int) * dt := by
    rw [← Int.add_mul]; congr 1
    rw [Nat.add_mul, Nat.one_mul]; omega
  rw [e2]; omega

/-- non-vacuity / instance: `exKymo`'s timing is that of a regular kymograph with 2 pixels of 2 samples, 6 dead samples,
    10 ns period (its counts aside) -/
example : (regularImg 100 2 3 2 6 10).map (fun r => r.map fun p => (p.tmin, p.tmax)) =
    exKymo.img.map (fun r => r.map fun p => (p.tmin, p.tmax)) := by decide +kernel

theorem chunks_map {α β} (f : α → β) (k : Nat) (l : List α) : chunks k (l.map f) = (chunks k l).map (List.map f) := by
  fun_induction chunks k l with
  | case1 l hk => subst hk; rw [chunks_zero]; rfl
  | case2 l hk hlt => unfold chunks; simp [hk, hlt]
  | case3 l hk hlt ih =>
    conv => lhs; unfold chunks
    simp only [dif_neg hk, List.length_map, if_neg hlt, List.map_cons, ← List.map_take, ← List.map_drop, ih]

theorem addRows_window (band : List (List Pix)) (c0 c1 : Nat) :
    addRows (band.map fun row => (row.take c1).drop c0) = ((addRows band).take c1).drop c0 := by
  cases band with
  | nil => simp [addRows]
  | cons r rs =>
    simp only [addRows, List.map_cons]
    induction rs generalizing r with
    | nil => rfl
    | cons x xs ih =>
      simp only [List.map_cons, List.foldl_cons]
      rw [← ih (List.zipWith Pix.add r x)]
      congr 1
      rw [List.take_zipWith, List.drop_zipWith]

/-- **A time window of whole bins commutes with binning in time**: binning lines `tf·a ≤ c < tf·b` of the image (what a
    time slice on bin edges followed by `downsampled_by` shows) gives lines `a ≤ c < b` of the binned image. -/
theorem slice_then_downsample (img : Img) (pf tf : Nat) (htf : 0 < tf) (a b : Nat) :
    blockReduce (takeCols img (tf * a) (tf * b)) pf tf = takeCols (blockReduce img pf tf) a b := by
  unfold blockReduce takeCols
  rw [chunks_map, List.map_map, List.map_map]
  apply List.map_congr_left
  intro band _
  simp only [Function.comp_apply]
  rw [addRows_window, chunks_window tf htf, List.map_drop, List.map_take]

end Verif.C06
